import QuinnModel.Lemmas.StreamsC11Main
/-
C11 — Stream operations follow the QUIC stream state machine.   (property theorems only)

Abstract half states (`SendHalf`, `RecvHalf`: presence in the maps = non-terminal) and the result
tables (`expectedFinish`, `expectedReset`, `expectedStopped`, `expectedWrite`); every operation of
the concrete model returns what the table says for the abstraction of the state it runs in, for
every state (no reachability hypothesis needed).  Events: which operation can queue `Finished` /
`Stopped`, and under which condition.
-/
namespace QM.Props.C11
open QM QM.Streams

/-! ### sending half: the model refines the table -/

/-- `finish` succeeds only on an open, unstopped half (which becomes DataSent); a stopped half
    reports the peer's code; anything else is a closed stream -/
theorem finish_refines_table (s : State) (id : Nat) :
    (s.finish id).2 = (expectedFinish (absSend s id)).1 ∧
    absSend (s.finish id).1 id = (expectedFinish (absSend s id)).2 :=
  finish_table s id

/-- `reset` succeeds on every half that is present and not yet reset, which becomes ResetSent -/
theorem reset_refines_table {s s' : State} {id code : Nat} {b : Bool} (h : s.reset id code = some (s', b)) :
    b = (expectedReset (absSend s id)).1 ∧ absSend s' id = (expectedReset (absSend s id)).2 :=
  reset_table h

/-- `stopped` reports the STOP_SENDING code while the half exists, a closed stream afterwards -/
theorem stopped_refines_table (s : State) (id : Nat) : s.stopped id = expectedStopped (absSend s id) :=
  stopped_table s id

/-- `write` on a live connection: the result is determined by the abstract state of the half
    (`expectedWrite`, written from the property text): `Stopped(code)` on a half the peer stopped, a
    closed stream after finish / reset / full acknowledgement — in both cases WHATEVER the
    connection-level credit and send window are —, and on an open unstopped half `Blocked` iff there
    is no room, else exactly `min(n, room)` bytes -/
theorem write_refines_table {s s' : State} {id n : Nat} {r : Except WriteErr Nat}
    (h : s.write id n = some (s', r)) (hc : s.connClosed = false) :
    r = expectedWrite
          (Nat.min (Gen.writeLimit s.maxData s.dataSent s.sendWindow s.unackedData) (streamCredit s id))
          n (absSend s id) :=
  write_table h hc

/-- after finish or reset (or once the half is gone) every write reports a closed stream, also with
    the connection-level credit exhausted: it is never `Blocked`, which would park the writer for a
    `Writable` event that cannot come -/
theorem write_on_closed_half {s s' : State} {id n : Nat} {r : Except WriteErr Nat}
    (h : s.write id n = some (s', r)) (hc : s.connClosed = false)
    (ha : (∃ c, absSend s id = .dataSent c) ∨ (∃ c, absSend s id = .resetSent c) ∨ absSend s id = .gone) :
    r = .error .closedStream := by
  have := write_table h hc
  rcases ha with ⟨c, ha⟩ | ⟨c, ha⟩ | ha <;> (rw [ha] at this; simpa [expectedWrite] using this)

/-- while the connection is closing every write is `Blocked` and changes nothing (C11 speaks about
    the halves of a live connection) -/
theorem write_on_closing_connection {s s' : State} {id n : Nat} {r : Except WriteErr Nat}
    (h : s.write id n = some (s', r)) (hc : s.connClosed = true) : r = .error .blocked ∧ s' = s :=
  write_conn_closed h hc

/-! ### receiving half -/

/-- a writable send half the peer has stopped (`stop_reason = Some(c)`) reports `Stopped(c)` on an
    open connection whatever the connection-level credit and send window are: in particular not
    `Blocked` when they are exhausted, which would park the writer on a `Writable` event that never
    comes (a stopped stream gets no further MAX_STREAM_DATA) -/
theorem write_on_stopped_stream {s s' : State} {id n c : Nat} {r : Except WriteErr Nat}
    (h : s.write id n = some (s', r)) (hc : s.connClosed = false)
    (ha : absSend s id = .ready (some c)) : r = .error (.stopped c) := by
  have := write_table h hc
  rw [ha] at this
  simpa [expectedWrite] using this

/-- the same on the concrete half -/
theorem write_on_stopped_half {s s' s1 : State} {id n c : Nat} {x : Send} {r : Except WriteErr Nat}
    (h : s.write id n = some (s', r)) (hc : s.connClosed = false)
    (hg : s.getOrInsertSend id = some (x, s1)) (hw : x.isWritable = true) (hs : x.stopReason = some c) :
    r = .error (.stopped c) := by
  apply write_on_stopped_stream h hc
  rw [absSend_getOrInsert hg]
  have hst : x.state = .ready := by simpa [Send.isWritable] using hw
  simp [SendHalf.ofSend, hst, hs]

/-- `read`: a closed or stopped half reports a closed stream; an open half never reports a reset; a
    reset half delivers no data before reporting the peer's code -/
theorem read_refines_table {s s' : State} {id budget : Nat} {res : ReadRes}
    (h : s.read id budget = some (s', res)) :
    match absRecv s id with
    | .gone | .stopped => res = .closedStream
    | .open_ _ => ∃ k e t, res = .ok k e t ∧ ∀ c, e ≠ .reset c
    | .resetRecvd c => ∃ k e t, res = .ok k e t ∧ (e = .more ∨ (k = 0 ∧ e = .reset c)) :=
  read_table h

/-- exactly one terminal outcome: a read that ends with end-of-stream or with the reset code frees
    the half, and reads on a freed stream report a closed stream -/
theorem one_terminal_outcome {s s' : State} {id budget k : Nat} {e : ReadEnd} {t : Bool}
    (h : s.read id budget = some (s', .ok k e t)) (ht : e = .fin ∨ ∃ c, e = .reset c) :
    s'.rv id = none ∧ ∀ (s2 : State) (b : Nat), s2.recv.find? id = none → s2.read id b = some (s2, .closedStream) :=
  ⟨read_terminal h ht, fun _ _ hf => read_closed hf⟩

/-- `stop` succeeds exactly on a present, not yet stopped half -/
theorem stop_refines_table {s s' : State} {id code : Nat} {b : Bool} (h : s.stop id code = some (s', b)) :
    b = (match absRecv s id with
      | .gone | .stopped => false
      | _ => true) :=
  stop_table h

/-- `received_reset` reports the code of a reset half once (the half is then gone), nothing on an
    open half, and a closed stream otherwise -/
theorem received_reset_refines_table {s s' : State} {id : Nat} {r : Option (Option Nat)}
    (h : s.recvReceivedReset id = some (s', r)) :
    r = (match absRecv s id with
      | .gone | .stopped => none
      | .open_ _ => some none
      | .resetRecvd c => some (some c)) ∧
    (∀ c, r = some (some c) → s'.rv id = none) :=
  recvReceivedReset_table h

/-! ### events -/

/-- `Finished` is queued only by the acknowledgement that completes a finished stream (the
    application had called `finish`, the FIN is acknowledged, no byte is left unacknowledged), and the
    stream's state is dropped at that moment; `Stopped` is queued only by a STOP_SENDING frame on a
    half that had no stop reason, which is then recorded; `poll` hands out at most the oldest queued
    event; no other operation touches these events -/
theorem finished_stopped_events {s s' : State} {o : Op} {out : Out} (h : step s o = some (s', out))
    (hr : o.isRestart = false) :
    s'.fsw = s.fsw ∨
    (o = .poll ∧ ∃ ev, s.fsw = ev :: s'.fsw) ∨
    (∃ id a e fin, o = .ack id a e fin ∧ s'.fsw = s.fsw ++ [.finished id] ∧ s'.cv id = none ∧
      ∃ x x', s.send.find? id = some (some x) ∧ x.ack a e fin = some (x', true)) ∨
    (∃ id code, o = .stopSending id code ∧ s'.fsw = s.fsw ++ [.stopped id code] ∧
      expectedStopped (absSend s id) = some none ∧ expectedStopped (absSend s' id) = some (some code)) :=
  events_step h hr

/-- what "completes a finished stream" means -/
theorem finished_only_after_full_ack {x x' : Send} {a e : Nat} {fin : Bool} (h : x.ack a e fin = some (x', true)) :
    (∃ fa, x.state = .dataSent fa ∧ (fa || fin) = true) ∧ x'.state = .dataSent true ∧
    x'.pending.unackedLen = 0 :=
  Send.ack_done h

/-- a remotely initiated stream stops counting against the concurrency limit exactly when its last
    half is freed (its other half is already gone, or it has only one), not before -/
theorem remote_count_release {s s' : State} {id : Nat} {half : Half} (h : s.freeRemote id half = some s') :
    (sidInitiator id ≠ s.side ∧ s.fullyFree id half = true ∧ 1 ≤ s.allocatedRemoteCount.get (sidDir id) ∧
      s'.allocatedRemoteCount.get (sidDir id) =
        Nat.max (s.allocatedRemoteCount.get (sidDir id) - 1) (s.maxConcurrentRemoteCount.get (sidDir id))) ∨
    (¬ (sidInitiator id ≠ s.side ∧ s.fullyFree id half = true) ∧ s' = s) :=
  freeRemote_count h

/-- a history that walks one bidirectional stream through its life: opened, written, finished,
    transmitted, acknowledged (Finished), and on the receive side data, FIN, read to the end -/
def lifeWitness : Option (State × Hist) :=
  runOps State.initial [] [.new ⟨.client, 2, 2, 1000, 1000, 1000⟩, .params ⟨100, 100, 100, 4, 4, 1000⟩,
    .open_ .bi, .write 0 10, .finish 0, .transmit 1200 true, .ack 0 0 10 true,
    .stream 0 0 5 true, .read 0 100]

-- non-vacuity: Finished is queued once, both halves are gone, later operations report a closed stream
example : (lifeWitness.map fun r => r.1.fsw) = some [.finished 0] := by decide
example : (lifeWitness.map fun r => (absSend r.1 0, absRecv r.1 0)) = some (.gone, .gone) := by decide
example : (lifeWitness.map fun r => (r.1.stopped 0, (expectedFinish (absSend r.1 0)).2)) = some (none, .gone) := by
  decide

/-- the write-after-stop history (corpus/streams/write-after-stop.ops): the send window (100) is
    used up, the peer stops the stream, the application polls the `Stopped` event; every later write
    reports `Stopped(7)`, with the window still exhausted and after the acknowledgement reopened it -/
def writeAfterStop : Option (State × Hist) :=
  runOps State.initial [] [.new ⟨.client, 10, 10, 100, 1000000, 1000⟩, .params ⟨100, 100, 100, 10, 10, 100000⟩,
    .open_ .uni, .write 2 100, .write 2 1, .stopSending 2 7, .poll, .write 2 1, .ack 2 0 100 false,
    .poll, .poll, .write 2 1]

example : (writeAfterStop.map fun r => r.2.reverse.map (·.2)) =
    some [.ok, .ok, .okNat 2, .okNat 100, .errWrite .blocked, .ok, .event (.stopped 2 7),
      .errWrite (.stopped 7), .ok, .none_, .none_, .errWrite (.stopped 7)] := by decide

/-- the write-on-closed-half history (corpus/streams/write-on-closed-half.ops): connection credit 10
    used up, stream 3 finished, stream 7 reset: writes on both report a closed stream at once, and
    again after MAX_DATA reopened the connection; nothing is parked in `connection_blocked` -/
def writeOnClosedHalf : Option (State × Hist) :=
  runOps State.initial [] [.new ⟨.server, 2, 2, 1000, 1000, 1000⟩, .params ⟨100, 100, 100, 2, 2, 10⟩,
    .open_ .uni, .open_ .uni, .write 3 10, .finish 3, .reset 7 5, .write 3 1, .write 7 1, .maxData 1000,
    .poll, .write 3 1, .write 7 1]

example : (writeOnClosedHalf.map fun r => (r.2.reverse.map (·.2), r.1.connectionBlocked)) =
    some ([.ok, .ok, .okNat 3, .okNat 7, .okNat 10, .ok, .ok, .errWrite .closedStream,
      .errWrite .closedStream, .ok, .none_, .errWrite .closedStream, .errWrite .closedStream], []) := by decide

end QM.Props.C11
