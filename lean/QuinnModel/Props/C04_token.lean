import QuinnModel.Lemmas.CidQueueToken
/-!
C04, stateless-reset clause: "a stateless reset carrying exactly the token the peer issued for the connection ID in
use". `Connection` hands the endpoint the token that `CidQueue::insert` / `CidQueue::next` return whenever the
active remote CID changes (`set_reset_token`). These theorems say, for every queue state and every frame, that the
token returned is the token stored with the CID that is active afterwards.
-/
namespace QM.Props.C04_token
open QM QM.CidQueue

/-- NEW_CONNECTION_ID retiring the CID in use: the token reported is the one issued with the CID in use afterwards. -/
theorem insert_reports_token_of_cid_in_use (q : CidQueue) (seq rpt : Nat) (cid tok : Bytes) (q' : CidQueue)
    (a z : Nat) (t : Bytes) (h : insert q seq rpt cid tok = (q', .retired a z t)) :
    ∃ e, activeEntry q' = some e ∧ e.token = some t :=
  insert_token q seq rpt cid tok q' a z t h

/-- Local switch to the next CID (`CidQueue::next`): same. -/
theorem next_reports_token_of_cid_in_use (q q' : CidQueue) (t : Bytes) (a z : Nat) (h : next q = (q', .ok t a z)) :
    ∃ e, activeEntry q' = some e ∧ e.token = some t :=
  next_token q q' t a z h

/-- `active()` returns the CID stored in that entry. -/
theorem active_is_active_entry (q : CidQueue) (hc : q.cursor < LEN) (e : Entry) (h : activeEntry q = some e) :
    active q = some e.cid := by
  unfold activeEntry CidQueue.get at h
  unfold active
  rw [dif_pos hc]
  have : q.cursor % LEN = q.cursor := Nat.mod_eq_of_lt hc
  simp only [this] at h
  rw [h]

/-- non-vacuity: CID 0 in use; the peer supplies seq 1 (token [7]); then seq 2 (token [9]) arrives with
retire_prior_to = 1: seq 1 becomes the CID in use and the token reported is [7], the one issued with seq 1 — not the
token [9] carried by the frame. With retire_prior_to = 2 it is seq 2 and [9]. -/
example :
    let q1 := (insert (new [1]) 1 0 [2] [7]).1
    (insert q1 2 1 [3] [9]).2 = .retired 0 1 [7] ∧ (insert q1 2 2 [3] [9]).2 = .retired 0 2 [9] := by decide

end QM.Props.C04_token
