import QuinnModel.Lemmas.DriverWake
/-
C18 — "every pending operation … completes as soon as its condition holds … under any interleaving of tasks":
the DRIVER-wake rule.   (property theorems only)
Model: QuinnModel/Async/DriverWake.lean. A pending operation of the peer completes when this side transmits the
frames that make its condition true; frames are transmitted only by the connection driver task; so every
application-side call that queues frames must wake the driver. The table `wakes` (which call wakes under which
guard) is READ FROM THE SOURCE on every run (Gen/C18DrvWake.lean: every `State::wake()` call site of
quinn/src/{recv_stream,send_stream,connection}.rs with the condition it sits under); `mayQueue` is the quinn-proto
API contract. The behaviour of the real code is observed by `asyncsim` (per-call oracle `c18-driver-not-woken`,
end-to-end oracle on quiescent connections `c18-lost-wakeup-frames-queued-driver-asleep`).
-/
namespace QM.Props.C18_drvwake
open QM QM.DriverWake

/-- table, from the source: at every entry point, for every outcome of its proto call and every value of whatever
    else its wake is guarded by, a call that may have queued frames wakes the driver -/
theorem every_queueing_call_wakes (op : Op) (r u1 u2 : Bool) (h : mayQueue op r = true) :
    wakes op r u1 u2 = true :=
  wakes_covers op r u1 u2 h

/-- every `State::wake()` call site of the three files is one of the table's rows (a new or removed site changes
    the count), and the driver loop has the shape the model's `driverPoll` assumes -/
theorem sites_accounted : sitesIn 0 = Gen.c18dwSitesRecv ∧ sitesIn 1 = Gen.c18dwSitesSend ∧
    sitesIn 2 = Gen.c18dwSitesConn ∧ Gen.c18dwDriverLoopShape = 1 :=
  sites_count

/-- per call, in any state: an application-side call that may queue frames leaves the driver runnable -/
theorem queueing_call_leaves_driver_runnable (s : St) (op : Op) (r u1 u2 queued : Bool)
    (h : mayQueue op r = true) : (step wakes s (.app op r u1 u2 queued)).drv = .runnable :=
  app_leaves_runnable wakes wakes_covers s op r u1 u2 queued h

/-- over ALL interleavings of application calls, driver polls and external wake-ups: whenever the driver is
    asleep and frames are pending, a wake-up is on its way (the driver is registered with the source that held
    the frames back) -/
theorem asleep_with_frames_has_wake_pending (evs : List Ev)
    (hd : (run wakes init evs).drv = .asleep) (hp : (run wakes init evs).pending = true) :
    (run wakes init evs).armed = true :=
  safe_run wakes wakes_covers evs init safe_init hd hp

/-- … equivalently: frames never sit behind a driver that nothing will wake -/
theorem frames_pending_driver_runnable_or_armed (evs : List Ev) (hp : (run wakes init evs).pending = true) :
    (run wakes init evs).drv = .runnable ∨ (run wakes init evs).armed = true := by
  cases hd : (run wakes init evs).drv with
  | runnable => exact Or.inl rfl
  | asleep => exact Or.inr (asleep_with_frames_has_wake_pending evs hd hp)

/-- the runnable driver's poll that finds nothing held back sends everything -/
theorem runnable_driver_drains (s : St) (h : s.drv = .runnable) :
    (step wakes s (.driverPoll .drained)).pending = false := by
  simp [step, h]

/-- the theorems have teeth: a source that skips the wake of `read` when a further condition fails (the read
    "consumed nothing") loses frames on a two-event interleaving — drained driver asleep, then a read that
    observes the peer's reset -/
theorem guarded_read_wake_loses_frames : ¬ Safe (run wakesGuardedRead init guardedReadTrace) :=
  not_safe_guarded

-- non-vacuity
example : mayQueue .read true = true ∧ wakes .read true false false = true := by decide
example : (run wakes init [.driverPoll .drained, .app .read true false false true]).drv = .runnable ∧
    (run wakes init [.driverPoll .drained, .app .read true false false true]).pending = true := by decide
example : (run wakes init [.app .write true false false true, .driverPoll .blocked]).drv = .asleep ∧
    (run wakes init [.app .write true false false true, .driverPoll .blocked]).pending = true ∧
    (run wakes init [.app .write true false false true, .driverPoll .blocked]).armed = true := by decide
example : (step wakes { pending := false, drv := .asleep, armed := false } (.app .recvDrop false false false true)).drv = .runnable := by decide
example : ({ pending := true, drv := .runnable, armed := false } : St).drv = .runnable := rfl

end QM.Props.C18_drvwake
