import QuinnModel.Lemmas.OffPath
/-
C07 — bytes that reach an unvalidated address OUTSIDE the gated datagram loop: off-path PATH_RESPONSE, Version
Negotiation, and the first-packet decision for short Initials.   (property theorems only)
`Gen.offPathPadFactor`, `Gen.vnReplyBounded`, `Gen.firstPacketSizeCheckFirst` are regenerated from the source.
-/
namespace QM.Props.C07_offpath
open QM

/-- Over ANY sequence of PATH_CHALLENGE-bearing datagrams from an address that is not the connection's path (any
    sizes, any number), the bytes sent to that address in off-path PATH_RESPONSE datagrams never exceed three times
    the bytes received from it. -/
theorem off_path_response_bound (evs : List Amp.OffPath.Ev) (hw : ∀ e ∈ evs, e.wf) :
    (Amp.OffPath.run ⟨0, 0⟩ evs).sent ≤ 3 * (Amp.OffPath.run ⟨0, 0⟩ evs).recvd :=
  Amp.OffPath.run_inv evs ⟨0, 0⟩ hw (by simp)

/-- the well-formedness hypothesis holds for every packet layout: unpadded response vs. the smallest datagram that
    can carry a PATH_CHALLENGE -/
theorem off_path_wf_layout (rcid pnLen lcid pnLen' extra : Nat) (hr : rcid ≤ 20) (hp : pnLen ≤ 4) (hp' : 1 ≤ pnLen') :
    1 + rcid + pnLen + 9 + 16 ≤ 3 * (1 + lcid + pnLen' + 9 + extra + 16) :=
  Amp.OffPath.unpadded_le_3x rcid pnLen lcid pnLen' extra hr hp hp'

/-- A Version Negotiation packet is never more than three times the datagram that provoked it, and sending it
    changes no endpoint state. -/
theorem vn_reply_le_3x (e e' : FirstPacket.Ep) (d : FirstPacket.Dg) (k : FirstPacket.Checks) (n : Nat)
    (h : FirstPacket.handle e d k = (e', .versionNegotiation n)) : n ≤ 3 * d.len ∧ e' = e :=
  FirstPacket.vn_le_3x e e' d k n h

/-- A server creates no state for, and sends no reply to, a supported-version Initial carried in a datagram shorter
    than 1200 bytes that belongs to no connection or pending attempt — whatever its contents (all cryptographic and
    policy checks are free inputs). -/
theorem short_initial_no_state (e : FirstPacket.Ep) (d : FirstPacket.Dg) (k : FirstPacket.Checks)
    (hs : e.server = true) (hi : d.decode = .initial) (hr : d.route = .nowhere)
    (hl : d.len < Gen.libMinInitialSize) : FirstPacket.handle e d k = (e, .nothing) :=
  FirstPacket.short_initial_nothing e d k hs hi hr hl

/-- the literal clause, without the routing hypothesis -/
def short_initial_no_state_statement : Prop :=
  ∀ (e : FirstPacket.Ep) (d : FirstPacket.Dg) (k : FirstPacket.Checks), e.server = true → d.decode = .initial →
    d.len < Gen.libMinInitialSize → FirstPacket.handle e d k = (e, .nothing)

def shortInitialBufferedWitness : FirstPacket.Ep × FirstPacket.Dg × FirstPacket.Checks :=
  (⟨true, 1, 0, false⟩, ⟨50, .initial, .incoming true⟩, ⟨true, true, true, true⟩)

/-- it does not hold literally: a short Initial whose DCID matches an attempt that is still waiting for
    accept / retry / refuse is buffered (bounded by `incoming_buffer_size`), one that matches a connection is handed
    to it (low severity, audit D4; RFC 9000 14.1 asks for a discard) -/
theorem short_initial_no_state_counterexample : ¬ short_initial_no_state_statement := by
  intro h
  have := h shortInitialBufferedWitness.1 shortInitialBufferedWitness.2.1 shortInitialBufferedWitness.2.2 rfl rfl (by decide)
  revert this
  decide

-- non-vacuity
example : (Amp.OffPath.run ⟨0, 0⟩ [⟨36, 20, 38⟩, ⟨36, 20, 38⟩, ⟨1200, 1184, 38⟩]).sent = 60 + 60 + 1200 := by decide
example : FirstPacket.handle ⟨true, 0, 0, false⟩ ⟨1200, .initial, .nowhere⟩ ⟨true, true, true, true⟩ = (⟨true, 1, 0, false⟩, .newIncoming) := by decide
example : FirstPacket.handle ⟨true, 0, 0, false⟩ ⟨1199, .initial, .nowhere⟩ ⟨true, true, true, true⟩ = (⟨true, 0, 0, false⟩, .nothing) := by decide
example : FirstPacket.handle ⟨true, 0, 0, false⟩ ⟨16, .unsupportedVersion 47, .nowhere⟩ ⟨true, true, true, true⟩ = (⟨true, 0, 0, false⟩, .versionNegotiation 47) := by decide
example : FirstPacket.handle ⟨true, 0, 0, false⟩ ⟨8, .unsupportedVersion 39, .nowhere⟩ ⟨true, true, true, true⟩ = (⟨true, 0, 0, false⟩, .nothing) := by decide

end QM.Props.C07_offpath
