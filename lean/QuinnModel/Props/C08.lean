import QuinnModel.Lemmas.Lifecycle
/-
C08 — Every connection terminates cleanly and exactly once.   (property theorems only)
Model: QuinnModel/Conn/Lifecycle.lean (state, error, close flag, Close/Idle timers, ghost counters of
ConnectionLost reports and Drained notifications) over ALL histories of close(), packet errors, peer closes,
timeouts, polls.  `WD` = the endpoint stops routing packets to a connection once it has drained.
-/
namespace QM.Props.C08
open QM QM.Life

/-- the final endpoint notification (Drained) is emitted at most once over every history … -/
theorem drained_notified_at_most_once (evs : List Ev) (hw : WD init evs) : (run init evs).drainedEv ≤ 1 :=
  drained_count_le_one evs hw

/-- … and exactly once precisely when the connection is drained -/
theorem drained_notified_iff_drained (evs : List Ev) (hw : WD init evs) :
    (run init evs).st = .drained ↔ (run init evs).drainedEv = 1 :=
  drained_iff_notified evs hw

/-- once closed at `now` (3·PTO = pto3), whatever happens next the close timer stays at `now + pto3` until the
    connection is drained … -/
theorem closing_deadline_kept (l : L) (hi : Inv l) (ho : l.st.isClosed = false) (now pto3 : Nat) (evs : List Ev)
    (hw : WD (step l (.close now pto3)) evs) :
    Closing (now + pto3) (run (step l (.close now pto3)) evs) := by
  have hi' := step_inv l (.close now pto3) hi (by intro hd; cases hs : l.st <;> simp_all [St.isClosed])
  refine run_closing (now + pto3) evs _ hi' hw ?_
  obtain ⟨st, err, cf, ct, it, lost, dr, lc⟩ := l
  cases st <;> simp_all [Closing, step, St.isClosed, stopTimers]

/-- … and servicing timers at or after that deadline drains it: drained within three probe timeouts -/
theorem drained_within_3pto (d now : Nat) (l : L) (hi : Inv l) (h : Closing d l) (hn : d ≤ now) :
    (step l (.timeout now)).st = .drained :=
  timeout_drains d now l hi h hn

/-- a drained connection stays drained and `poll_transmit` produces nothing for it -/
theorem no_output_after_drain (evs : List Ev) (l : L) (hi : Inv l) (hw : WD l evs) (hd : l.st = .drained) :
    (run l evs).st = .drained ∧ transmitsClose (run l evs) = false := by
  have h := drained_absorbing evs l hi hw hd
  exact ⟨h, by simp [transmitsClose, h]⟩

/-- FULL statement: the reason is reported to the application at most once over every history. -/
def lost_at_most_once_statement : Prop := ∀ evs : List Ev, (run init evs).lost ≤ 1

/-- witness: the peer closes, the application polls the reason, then a stateless reset arrives while
    draining and is reported again -/
def lost_twice_witness : List Ev :=
  [.established, .peerClose 10 30, .poll, .pktErr .toDrained 20 30 true, .poll]

/-- the code as it is (handle_packet overwrites `error` in closed states) violates the full statement -/
theorem lost_at_most_once_counterexample : ¬ lost_at_most_once_statement := by
  intro h
  have := h lost_twice_witness
  revert this
  decide

/-- PARTIAL: over every history in which no packet error is processed after the connection is closed, the
    reason is reported at most once (and nothing is reported while the connection is open).
    Missing for the full statement: errors arriving in closed states (known findings `lost-reported-twice:*`,
    `lost-after-local-close:reset`). -/
theorem lost_at_most_once_partial (evs : List Ev) (h : NoLateErr init evs) : (run init evs).lost ≤ 1 := by
  rw [run_eq_runG evs init h]
  have := (runG_lost evs init init_lost).atMostOne
  omega

/-- PARTIAL: after a local close of an open connection nothing is reported at the protocol layer, over every
    continuation without late packet errors -/
theorem local_close_reports_nothing_partial (l : L) (hl : LostInv l) (ho : l.st.isClosed = false) (now pto3 : Nat)
    (evs : List Ev) (h : NoLateErr (step l (.close now pto3)) evs) :
    (run (step l (.close now pto3)) evs).lost = 0 ∧ (run (step l (.close now pto3)) evs).error = false := by
  rw [run_eq_runG evs _ h]
  exact (runG_silent evs _ (close_silent_start l now pto3 hl ho)).quiet

/-- witness for the local-close half: close(), then a stateless reset -/
def lost_after_local_close_witness : List Ev := [.established, .close 10 30, .pktErr .toDrained 20 30 true, .poll]
theorem local_close_reports_nothing_counterexample : (run init lost_after_local_close_witness).lost = 1 := by decide

/-- the closing packet is not gated by congestion control or pacing (the generated flag records that the source
    still clears `ack_eliciting` when a close is pending) -/
theorem close_not_cc_gated (queued : Bool) (lossProbes : Nat) (ccBlocked pacingBlocked : Bool) :
    sendsDatagram true queued lossProbes false ccBlocked pacingBlocked = true :=
  close_sends queued lossProbes ccBlocked pacingBlocked (by decide)

/-- close() of an open connection owes a CONNECTION_CLOSE packet at once -/
theorem close_owes_packet (l : L) (ho : l.st.isClosed = false) (now pto3 : Nat) :
    transmitsClose (step l (.close now pto3)) = true := by
  obtain ⟨st, err, cf, ct, it, lost, dr, lc⟩ := l
  cases st <;> simp_all [transmitsClose, step, St.isClosed, stopTimers]

-- non-vacuity
example : WD init [.established, .authed 5 1000, .close 10 30, .pollTransmit, .timeout 40, .poll] := by
  simp [WD, step, init, St.isClosed, stopTimers, fireIdle, fireClose, Ev.isPacket]
example : (run init [.established, .authed 5 1000, .close 10 30, .pollTransmit, .timeout 40, .poll]).st = .drained := by decide
example : NoLateErr init [.established, .pktErr .toClosed 7 30 true, .poll, .timeout 50] := by
  simp [NoLateErr, step, init, St.isClosed]

end QM.Props.C08
