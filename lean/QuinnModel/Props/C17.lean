import QuinnModel.Lemmas.StreamsC05Facts
/-
C17 — 0-RTT data is delivered once if accepted and vanishes if rejected: the stream-layer part.
(property theorems only)

`zero_rtt_rejected` followed by `set_params p` leaves the sender-visible state (`State.proj`:
stream numbering, stream-count and data credit, send-window accounting, blocked flags, queues)
exactly as `StreamsState::new` followed by `set_params p` does; after a Retry, `retransmit_all_for_0rtt` must
leave nothing marked as sent.
-/
namespace QM.Props.C17
open QM QM.Streams

/-- after a rejection the connection behaves like a fresh one: for EVERY state, `zero_rtt_rejected` +
    `set_params p` give the sender-visible projection (stream numbering, stream-count credit, initial
    stream limits, max_data, data_sent, unacked_data, send_streams, blocked lists and flags, pending
    queue) of `StreamsState::new` + `set_params p`, whatever was remembered or written before -/
theorem rejected_is_fresh {c : Config} {s s1 s0 : State} (p : Params)
    (hr : s.zeroRttRejected = some s1) (h0 : State.new c = some s0) :
    (s1.setParams p).proj = (s0.setParams p).proj := by
  rw [rejected_proj hr p, fresh_proj h0 p]

/-- none of the streams opened during the rejected 0-RTT phase survives in the send map -/
theorem rejected_no_local_streams {s s' : State} (h : s.zeroRttRejected = some s') (d : Dir) (j : Nat)
    (hj : j < s.next.get d) : s'.send.find? (sidNew s.side d j) = none :=
  zeroRttRejected_no_local h d j hj

/-- and in a real 0-RTT history (only early operations before the rejection) nothing at all is left
    of the sending side: the whole sender view — core accounting and the set of instantiated sending
    halves with their offsets and limits — is that of a fresh state with the new parameters -/
theorem rejected_sender_view_is_fresh {c : Config} {h : Hist} {s s1 s0 : State} (r : Reach c h s)
    (he : EarlyHist c.side h) (hz : s.zeroRttRejected = some s1) (h0 : State.new c = some s0) (p : Params) :
    (({ s1 with rtx := {} } : State).setParams p).vw = (s0.setParams p).vw :=
  rejected_vw_fresh r he hz h0 p

/-- the former F10/F11 history (remembered max_data 1 000 000, 13 bytes written in 0-RTT, rejected,
    new max_data 2 000): the state is the fresh one -/
theorem rejected_regression_F10_F11 :
    (runOps State.initial [] [.new ⟨.client, 0, 0, 1000000, 1000000, 1000000⟩,
        .params ⟨100000, 100000, 100000, 10, 10, 1000000⟩, .open_ .bi, .write 0 13, .rejected,
        .params ⟨100000, 100000, 100000, 10, 10, 2000⟩]).map (fun r => r.1.proj) =
    (runOps State.initial [] [.new ⟨.client, 0, 0, 1000000, 1000000, 1000000⟩,
        .params ⟨100000, 100000, 100000, 10, 10, 2000⟩]).map (fun r => r.1.proj) := by decide

/-- after `retransmit_all_for_0rtt` (Retry), for EVERY stream the client opened, no hypothesis on its
    contents: every byte that is not acknowledged is scheduled again from offset 0 (`unsent = 0`, or
    nothing is outstanding), and if the stream was finished and its FIN is not acknowledged the FIN is
    queued again — also for an empty stream, which has no data that would carry it -/
theorem retry_retransmits_all {s s' : State} (h : s.retransmitAllFor0rtt = some s') (d : Dir) (j : Nat)
    (hj : j < s.next.get d) (x' : Send) (hf : s'.send.find? (sidNew .client d j) = some (some x')) :
    (x'.pending.unsent = 0 ∨ x'.pending.isFullyAcked = true) ∧
    (x'.state = .dataSent false → x'.finPending = true) := by
  obtain ⟨h1, h2⟩ := rtx0_resent h d j hj x' hf
  refine ⟨?_, h2⟩
  cases hfa : x'.pending.isFullyAcked
  · exact Or.inl (h1 (by simp [hfa]))
  · exact Or.inr rfl

/-- the empty-finished-stream history (corpus/streams/retry-empty-fin.ops): a stream opened and
    finished in 0-RTT with no data, its FIN transmitted; after the Retry the FIN is sent again -/
def retryEmptyFin : Option (State × Hist) :=
  runOps State.initial [] [.new ⟨.client, 0, 0, 1000, 1000, 1000⟩, .params ⟨100, 100, 100, 10, 10, 1000⟩,
    .open_ .uni, .finish 2, .transmit 1200 true, .rtx0, .transmit 1200 true]

example : (retryEmptyFin.map fun r => (r.2.take 3).reverse.map (·.2)) =
    some [.xmit 3 [⟨2, 0, 0, true⟩], .ok, .xmit 3 [⟨2, 0, 0, true⟩]] := by decide

/-- SHAPE tripwire (not a behavioural theorem; the Connection-level Retry branch is outside the streams
    model): the Retry branch re-queues the non-STREAM retransmittable frames (RESET_STREAM, STOP_SENDING,
    MAX_*) recorded for the discarded 0-RTT packets (`pending |= info.retransmits`) before it calls
    `retransmit_all_for_0rtt`, which re-queues STREAM data and FINs only. The anchor is `false` when that
    line is gone, and this then fails. -/
theorem retry_requeues_sent_control_frames : Gen.retryRequeuesSentControlFrames = true := by decide

/-- a 0-RTT history with 13 bytes in flight -/
def retryWitness : Option State :=
  (runOps State.initial [] [.new ⟨.client, 0, 0, 1000, 1000, 1000⟩,
    .params ⟨100, 100, 100, 10, 10, 1000⟩, .open_ .bi, .write 0 13, .transmit 1200 true]).map (·.1)

-- non-vacuity: before the Retry 13 bytes are marked as sent, afterwards none
example : (retryWitness.bind fun s => (s.send.find? 0).map fun x => x.map fun x => (x.pending.offset, x.pending.unsent)) =
    some (some (13, 13)) ∧
  ((retryWitness.bind State.retransmitAllFor0rtt).bind fun s =>
      (s.send.find? (sidNew .client .bi 0)).map fun x => x.map fun x => (x.pending.offset, x.pending.unsent)) =
    some (some (13, 0)) := by decide

end QM.Props.C17
