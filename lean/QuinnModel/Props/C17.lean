import QuinnModel.Lemmas.StreamsC17
/-
C17 — 0-RTT data is delivered once if accepted and vanishes if rejected: the stream-layer part.
(property theorems only)

`zero_rtt_rejected` followed by `set_params p` must leave the sender-visible state (`State.proj`:
stream numbering, stream-count and data credit, send-window accounting, queues) exactly as
`StreamsState::new` followed by `set_params p` does; after a Retry, `retransmit_all_for_0rtt` must
leave nothing marked as sent.
-/
namespace QM.Props.C17
open QM QM.Streams

/-- after a rejection the connection behaves like a fresh one: same sender-visible projection -/
def rejected_is_fresh_statement : Prop :=
  ∀ (c : Config) (h : Hist) (s s1 s0 : State) (p : Params),
    Reach c h s → s.zeroRttRejected = some s1 → State.new c = some s0 →
    (s1.setParams p).proj = (s0.setParams p).proj

/-- what holds on the current tree: the projection is the fresh one except for `max_data`
    (max of the remembered and the new value, F10) and `unacked_data` (kept, F11).  Hence the full
    statement holds exactly for histories with `s.maxData ≤ p.initialMaxData` and `s.unackedData = 0`. -/
theorem rejected_is_fresh_partial {c : Config} {s s1 s0 : State} (p : Params)
    (hr : s.zeroRttRejected = some s1) (h0 : State.new c = some s0) :
    (s1.setParams p).proj =
      { (s0.setParams p).proj with
        maxData := Nat.max s.maxData p.initialMaxData, unackedData := s.unackedData } := by
  rw [rejected_proj hr p, fresh_proj h0 p]

theorem rejected_is_fresh_iff {c : Config} {s s1 s0 : State} (p : Params)
    (hr : s.zeroRttRejected = some s1) (h0 : State.new c = some s0) :
    (s1.setParams p).proj = (s0.setParams p).proj ↔ (s.maxData ≤ p.initialMaxData ∧ s.unackedData = 0) := by
  rw [rejected_proj hr p, fresh_proj h0 p]
  simp only [Proj.mk.injEq, true_and, and_true, natMax_eq]
  omega

/-- none of the streams opened during the rejected 0-RTT phase survives in the send map -/
theorem rejected_no_local_streams {s s' : State} (h : s.zeroRttRejected = some s') (d : Dir) (j : Nat)
    (hj : j < s.next.get d) : s'.send.find? (sidNew s.side d j) = none :=
  zeroRttRejected_no_local h d j hj

/-- F10 + F11 witnesses refute the full statement -/
theorem rejected_is_fresh_counterexample : ¬ rejected_is_fresh_statement := by
  intro hst
  have r := reach_start ⟨.client, 0, 0, 1000000, 1000000, 1000000⟩
    ⟨100000, 100000, 100000, 10, 10, 1000000⟩ (by decide)
  have := hst _ _ _ ((State.zeroRttRejected _).get (by decide)) ((State.new _).get (by decide))
    ⟨100000, 100000, 100000, 10, 10, 2000⟩ r (Option.some_get _).symm (Option.some_get _).symm
  revert this
  decide

/-- F11 alone: same parameters before and after, 13 bytes written in the rejected phase -/
theorem rejected_unacked_counterexample :
    (runOps State.initial [] F11_ops).map (fun r => (r.1.proj.unackedData, r.1.proj.dataSent, r.1.proj.next)) =
      some (13, 0, ⟨0, 0⟩) := by decide

/-- after `retransmit_all_for_0rtt` every stream the client opened that has unacknowledged data or a
    pending FIN has nothing marked as sent: all of it will be transmitted again -/
theorem retry_retransmits_all {s s' : State} (h : s.retransmitAllFor0rtt = some s') (d : Dir) (j : Nat)
    (hj : j < s.next.get d) (x' : Send) (hf : s'.send.find? (sidNew .client d j) = some (some x'))
    (hna : (x'.pending.isFullyAcked && !x'.finPending) = false) : x'.pending.unsent = 0 :=
  rtx0_nothing_unsent h d j hj x' hf hna

/-- a 0-RTT history with 13 bytes in flight -/
def retryWitness : Option State :=
  (runOps State.initial [] [.new ⟨.client, 0, 0, 1000, 1000, 1000⟩,
    .params ⟨100, 100, 100, 10, 10, 1000⟩, .open_ .bi, .write 0 13, .transmit 1200 true]).map (·.1)

-- non-vacuity: before the Retry 13 bytes are marked as sent, afterwards none
example : (retryWitness.bind fun s => (s.send.find? 0).map fun x => x.map fun x => (x.pending.offset, x.pending.unsent)) =
    some (some (13, 13)) ∧
  ((retryWitness.bind State.retransmitAllFor0rtt).bind fun s =>
      (s.send.find? (sidNew .client .bi 0)).map fun x => x.map fun x => (x.pending.offset, x.pending.unsent)) =
    some (some (13, 0)) := by decide

end QM.Props.C17
