import QuinnModel.Lemmas.FrameRules
/-
C03 (growth) — frames from a hostile but authenticated peer: the frame admissibility / error-class table
(`Conn/FrameRules.lean`; mirrors `Connection::process_early_payload` / `process_payload` and the error-deciding prefix
of the handlers they call; every code is extracted from the check's own source text, `Gen/FrameRules.lean`).
Property theorems only; proofs in `Lemmas/FrameRules.lean`.  All statements quantify over ALL frames and ALL fact values.
-/
namespace QM.Props.C03_frames
open QM QM.Wire QM.FrameRules

/-- (1) totality: for every receiver side, packet space and decoded frame (fields in varint range) and all facts in the range of
    the implementation's counters (remote-CID ring invariant — preserved along every run by `C03.cidq_no_panic` —, bytes
    received < 2^63) the table never reaches the panic outcome of a reused handler model (u64 overflow in flow-control
    accounting, `expect`s of the CID ring, the datagram eviction loop): the verdict is ok / ignore / error / may -/
theorem verdict_never_panics (server : Bool) (sp : Space) (fl : ConnFlags) (f : Frame) (hf : FlagsOk fl)
    (hw : Frame.wellFormed f) : verdict server sp fl f ≠ .panic :=
  verdict_no_panic server sp fl f hf hw

/-- (2) RFC 9000 §12.4: in Initial and Handshake packets every frame type outside {PADDING, PING, ACK, CRYPTO,
    CONNECTION_CLOSE} yields exactly PROTOCOL_VIOLATION, whatever the state — with ONE deviation of the code, stated next -/
theorem early_space_forbidden_frame_is_protocol_violation (server : Bool) (sp : Space) (fl : ConnFlags) (f : Frame)
    (hsp : sp ≠ .data) (hk : rfcEarly (kindOf f) = false) (hd : kindOf f ≠ .closeApp) :
    verdict server sp fl f = .error [Gen.frProtocolViolation] :=
  early_forbidden server sp fl f hsp (by simp [earlyAccepted, hk, hd])

/-- the deviation: CONNECTION_CLOSE of type 0x1d (application close) is accepted in Initial / Handshake packets
    (`Frame::Close(_)` matches both forms); §12.4 allows it only in 0-RTT / 1-RTT packets.  Laxer than the RFC, harmless
    (the connection ends as closed by the peer). -/
theorem early_space_application_close_accepted (server : Bool) (sp : Space) (fl : ConnFlags) (c : Nat) (r : Bytes) :
    verdict server sp fl (.closeApp c r) = .ok := by
  cases sp <;> rfl

/-- frames of the §12.4 set are judged by their own rules in every space; 1-RTT packets admit every frame type -/
theorem admitted_frames_use_their_own_rule (server : Bool) (sp : Space) (fl : ConnFlags) (f : Frame)
    (hk : sp = .data ∨ rfcEarly (kindOf f) = true) : verdict server sp fl f = dataVerdict server sp fl f := by
  rcases hk with h | h
  · subst h; rfl
  · exact early_accepted server sp fl f (by simp [earlyAccepted, h])

/-- (3a) the frame loop over ANY connection state type, fact projection and effect function: if the loop is ended by an error,
    it is the error of the FIRST frame that does not pass, judged in the state reached by applying exactly the frames before
    it, all of which passed; the state returned is that state (nothing after the offending frame is applied, and the
    offending frame itself is not applied) -/
theorem sequence_verdict_is_first_offender {σ : Type} (server : Bool) (sp : Space) (flagsOf : σ → Frame → ConnFlags)
    (apply : σ → Frame → σ) (fs : List Frame) (s : σ) (cs : List Code)
    (h : (processSeq server sp flagsOf apply s fs).2 = some cs) :
    ∃ pre f post, fs = pre ++ f :: post ∧
      (processSeq server sp flagsOf apply s pre).2 = none ∧
      (processSeq server sp flagsOf apply s fs).1 = pre.foldl apply s ∧
      (verdict server sp (flagsOf (pre.foldl apply s) f) f = .error cs ∨
        (verdict server sp (flagsOf (pre.foldl apply s) f) f = .panic ∧ cs = [])) :=
  processSeq_some server sp flagsOf apply fs s cs h

/-- (3b) if no frame is rejected every frame is applied, in order -/
theorem sequence_without_error_applies_all {σ : Type} (server : Bool) (sp : Space) (flagsOf : σ → Frame → ConnFlags)
    (apply : σ → Frame → σ) (fs : List Frame) (s : σ) (h : (processSeq server sp flagsOf apply s fs).2 = none) :
    (processSeq server sp flagsOf apply s fs).1 = fs.foldl apply s :=
  processSeq_none server sp flagsOf apply fs s h

/-- (4a) error (and may) verdicts name at least one code and only codes from the list RFC 9000 gives for that frame type
    (plus PROTOCOL_VIOLATION in Initial / Handshake packets) -/
theorem error_codes_only_from_the_frame_types_list (server : Bool) (sp : Space) (fl : ConnFlags) (f : Frame)
    (hI : CidQueue.Inv fl.cid.q) (hw : Frame.wellFormed f) (cs : List Code)
    (h : verdict server sp fl f = .error cs ∨ verdict server sp fl f = .may cs) :
    cs ≠ [] ∧ ∀ c ∈ cs, c ∈ allowedCodes sp (kindOf f) :=
  verdict_codes server sp fl f hI hw cs h

/-- every listed code is an RFC 9000 transport error code or the TLS-alert class -/
theorem listed_codes_are_rfc_codes (sp : Space) (k : Kind) : ∀ c ∈ allowedCodes sp k, c ∈ allCodes :=
  allowedCodes_rfc sp k

/-- (4b) a datagram all of whose injected frames get ok / ignore admits no error code at all: the receiver must not close -/
theorem ok_and_ignore_produce_no_error (server : Bool) (its : List Item)
    (h : ∀ it ∈ its, (itemVerdict server it).1 = .ok ∨ (itemVerdict server it).1 = .ignore) :
    admissible server its = ([], true) :=
  admissible_all_pass server its h

/-! ### non-vacuity -/

/-- facts of a freshly established client: CID ring with the initial CID, nothing received -/
def fl0 : ConnFlags :=
  { nextPn := 7, skipped := some 3, cryptoExpected := 2, cryptoRead := 100, cryptoBuf := 4096, recvKind := 1, recvEnd := 0,
    recvFinal := none, recvReset := false, recvStopped := false, recvSentMax := 0, sendKind := 0, nextLocal := 1, maxRemote := 2,
    dataRecvd := 0, localMaxData := 1000, streamRecvWindow := 500, cid := ⟨CidQueue.new [1], [], false⟩, localCidLen := 8,
    issued := 4, dgramWindow := some 100, ackFreqLast := none, challenge := none }

example : FlagsOk fl0 := ⟨CidQueue.new_inv [1], by decide⟩
-- HANDSHAKE_DONE: a server rejects it, a client accepts it; STREAM in a Handshake packet; MAX_STREAM_DATA beyond the limit
example : verdict true .data fl0 .handshakeDone = .error [Gen.frProtocolViolation] := by decide
example : verdict false .data fl0 .handshakeDone = .ok := by decide
example : verdict false .handshake fl0 (.stream 1 0 false [1]) = .error [Gen.frProtocolViolation] := by decide
example : verdict false .data fl0 (.maxStreamData 41 5) = .error [Gen.frStreamLimitError] := by decide
-- stream 1 (server-initiated bidi, index 0 < limit 2): inside the window ok, beyond it FLOW_CONTROL_ERROR; index 2 STREAM_LIMIT_ERROR
example : verdict false .data fl0 (.stream 1 0 false [1, 2, 3]) = .ok := by decide
example : verdict false .data fl0 (.stream 1 499 false [1, 2, 3]) = .error [Gen.frFlowControlError] := by decide
example : verdict false .data fl0 (.stream 9 0 false [1]) = .error [Gen.frStreamLimitError] := by decide
-- ACK of an unsent packet / of the skipped packet number / legal
example : verdict false .data fl0 (.ack 7 0 0 [] none) = .error [Gen.frProtocolViolation] := by decide
example : verdict false .data fl0 (.ack 5 0 3 [] none) = .error [Gen.frProtocolViolation] := by decide
example : verdict false .data fl0 (.ack 6 0 2 [] none) = .ok := by decide
-- a sequence: the third frame is the first offender, the state is the one after two applications
example : processSeq false .data (fun _ _ => fl0) (fun (n : Nat) _ => n + 1) 0
    [.ping, .maxData 5, .stream 9 0 false [1], .ping] = (2, some [Gen.frStreamLimitError]) := by decide

end QM.Props.C03_frames
