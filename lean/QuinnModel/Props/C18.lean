import QuinnModel.Lemmas.Wake
/-
C18 — Async API: no lost wakeups, cancellation-safe registrations, clean teardown.   (property theorems only)
Model: QuinnModel/Async/Wake.lean — the locked wake protocol of the `quinn` crate (application poll = check and,
on failure, register under the same lock; driver step = apply events, then wake-and-remove the waiters of every
condition that became true; terminate wakes and removes all; drops remove registrations), for any number of
tasks and conditions, conditions that become false again, and `slot` conditions (per-stream waker maps
`blocked_readers`/`blocked_writers`, whose entry outlives a dropped future until the stream handle is dropped or
the stream is woken) versus `Notified` conditions (deregistered when the future is dropped).
Every theorem quantifies over ALL interleavings: arbitrary event lists from the initial state, every `slot`.
The model is tied to the Rust text by the shape anchors in Gen/C18.lean and to its behaviour by the `asyncsim`
harness (real quinn futures under a deterministic executor); it is NOT compared with the code line by line.
-/
namespace QM.Props.C18
open QM QM.Wake

/-- whenever a task's last poll on condition `c` returned Pending and `c` holds now (or the connection is
    lost), the task's waker has been invoked since that poll -/
theorem no_lost_wakeup (slot : Cond → Bool) (evs : List Ev) (t : Task) (c : Cond)
    (hw : (run slot init evs).waiting t = some c)
    (hc : (run slot init evs).holds c = true ∨ (run slot init evs).dead = true) :
    (run slot init evs).woken t = true :=
  no_lost_wakeup_lem slot evs t c hw hc

/-- … and the poll that any scheduler eventually gives a woken task completes -/
theorem woken_task_completes (slot : Cond → Bool) (s : St) (t : Task) (c : Cond) (consume : Bool)
    (hw : s.waiting t = some c) (hc : s.holds c = true ∨ s.dead = true) :
    (s.poll slot t c consume).2 = true :=
  poll_ready_of_true slot s t c consume hw hc

/-- `terminate` leaves no registration and has woken every task that was Pending -/
theorem terminate_wakes_all (slot : Cond → Bool) (evs : List Ev) :
    (step slot (run slot init evs) .terminate).regs = [] ∧
    (step slot (run slot init evs) .terminate).dead = true ∧
    ∀ t c, (run slot init evs).waiting t = some c → (step slot (run slot init evs) .terminate).woken t = true :=
  terminate_lem slot evs

/-- after `terminate`, whatever happens next, nothing is ever registered again and every poll completes -/
theorem after_terminate_nothing_pends (slot : Cond → Bool) (evs evs' : List Ev) :
    (run slot (step slot (run slot init evs) .terminate) evs').regs = [] ∧
    ∀ t c consume, ((run slot (step slot (run slot init evs) .terminate) evs').poll slot t c consume).2 = true :=
  after_terminate_lem slot evs evs'

/-- dropping a pending future leaves no registration on a `Notified` condition … -/
theorem drop_leaves_no_registration (slot : Cond → Bool) (evs : List Ev) (t : Task) (c : Cond) (hs : slot c = false) :
    (c, t) ∉ (step slot (run slot init evs) (.dropFut t)).regs :=
  dropFut_lem slot evs t c hs

/-- … on a waker-map condition the one entry that may stay is recorded as a leftover … -/
theorem drop_future_leftover_recorded (slot : Cond → Bool) (evs : List Ev) (t : Task) (c : Cond)
    (hr : (c, t) ∈ (step slot (run slot init evs) (.dropFut t)).regs) :
    slot c = true ∧ (step slot (run slot init evs) (.dropFut t)).left t c = true :=
  dropFut_slot_lem slot evs t c hr

/-- … which dropping the stream handle removes, and which a single wake of that stream uses up -/
theorem drop_handle_leaves_no_registration (slot : Cond → Bool) (s : St) (t : Task) (c : Cond) :
    (c, t) ∉ (step slot s (.dropHandle t c)).regs ∧ (step slot s (.dropHandle t c)).left t c = false :=
  dropHandle_lem slot s t c

theorem leftover_woken_at_most_once (s : St) (c : Cond) (t : Task) :
    (s.wakeCond c).left t c = false ∧ (c, t) ∉ (s.wakeCond c).regs :=
  wake_clears_left s c t

/-- a poll that completes leaves the task unregistered for that condition and not waiting -/
theorem poll_ready_clears_registration (slot : Cond → Bool) (evs : List Ev) (t : Task) (c : Cond) (consume : Bool)
    (hr : ((run slot init evs).poll slot t c consume).2 = true) :
    (c, t) ∉ ((run slot init evs).poll slot t c consume).1.regs ∧
    ((run slot init evs).poll slot t c consume).1.waiting t = none :=
  poll_ready_lem slot evs t c consume hr

/-- every registration belongs to a task that is waiting on exactly that condition, or is a recorded
    waker-map leftover of a dropped future (never on a `Notified` condition) -/
theorem registrations_only_of_pending_tasks (slot : Cond → Bool) (evs : List Ev) (t : Task) (c : Cond)
    (hr : (c, t) ∈ (run slot init evs).regs) :
    (run slot init evs).waiting t = some c ∨ (slot c = true ∧ (run slot init evs).left t c = true) :=
  regs_owned_lem slot evs t c hr

/-- registrations exist only for conditions that do not hold, on a connection that is not lost: every change
    of a condition to true wakes and removes its waiters in the same locked step -/
theorem registered_only_while_false (slot : Cond → Bool) (evs : List Ev) (t : Task) (c : Cond)
    (hr : (c, t) ∈ (run slot init evs).regs) :
    (run slot init evs).holds c = false ∧ (run slot init evs).dead = false :=
  regs_false_lem slot evs t c hr

/-- the leftover record is exact: a recorded leftover is a waker-map entry that is still registered -/
theorem leftover_is_registered (slot : Cond → Bool) (evs : List Ev) (t : Task) (c : Cond)
    (hl : (run slot init evs).left t c = true) :
    slot c = true ∧ (c, t) ∈ (run slot init evs).regs :=
  left_lem slot evs t c hl

/-- several waiters on one condition: at every reachable state no task is both Pending and unregistered unless
    its waker has fired since its last poll … -/
theorem pending_is_registered_or_woken (slot : Cond → Bool) (evs : List Ev) (t : Task) (c : Cond)
    (hw : (run slot init evs).waiting t = some c) :
    (run slot init evs).woken t = true ∨ (c, t) ∈ (run slot init evs).regs :=
  pending_registered_lem slot evs t c hw

/-- … because every poll that returns Pending registers the task again — in particular the poll of a woken
    "loser" that finds the condition already consumed by another task (the retry loop of `poll_accept`,
    `poll_open`, `ReadDatagram`, `SendDatagram`, `Accept`: a fresh `Notified` is POLLED before Pending is returned) … -/
theorem loser_reregisters (slot : Cond → Bool) (s : St) (t : Task) (c : Cond) (consume : Bool)
    (hr : (s.poll slot t c consume).2 = false) :
    (c, t) ∈ (s.poll slot t c consume).1.regs ∧ (s.poll slot t c consume).1.waiting t = some c ∧
    (s.poll slot t c consume).1.woken t = false :=
  poll_pending_lem slot s t c consume hr

/-- … and a wake of a condition reaches every task registered for it, however many (`notify_waiters`) -/
theorem wake_reaches_every_waiter (s : St) (c : Cond) (t : Task) (hr : (c, t) ∈ s.regs) :
    (s.wakeCond c).woken t = true :=
  wake_reaches_all s c t hr

/-- `SendStream::reset` (an APPLICATION call, not a driver event) makes the `stopped` condition of its stream
    hold: in the same locked step every task pending in `stopped()` on that stream is woken and unregistered.
    (`St.appSet` takes what `reset` does from the source, `Gen.c18ResetNotifiesStopped`; with a `reset` that
    does not notify this theorem, `no_lost_wakeup` and `registered_only_while_false` all fail to check.) -/
theorem local_reset_wakes_stopped_waiters (slot : Cond → Bool) (evs : List Ev) (t : Task) (c : Cond)
    (hw : (run slot init evs).waiting t = some c) :
    (step slot (run slot init evs) (.appSet c)).holds c = true ∧
    (step slot (run slot init evs) (.appSet c)).woken t = true ∧
    (c, t) ∉ (step slot (run slot init evs) (.appSet c)).regs :=
  appSet_lem slot evs t c hw

/-- dropping the handle of a REJECTED 0-RTT stream touches no registration: the waker that a stream opened after
    the handshake registered under the same stream id stays (`Gen.c18RejectedDropKeepsWaker`) -/
theorem rejected_drop_keeps_registrations (slot : Cond → Bool) (s : St) (c : Cond) :
    step slot s (.dropRejected c) = s :=
  dropRejected_eq s c

/-- endpoint scope (`Endpoint::accept` on `incoming`, `Endpoint::wait_idle` on `idle`), all interleavings of
    polls, driver steps, dropped futures and the LOSS OF THE ENDPOINT DRIVER (fatal socket error): a task whose
    last poll returned Pending and whose condition holds now — or whose endpoint has lost its driver — has been
    woken since that poll -/
theorem endpoint_no_lost_wakeup (evs : List EpEv) (t : Task) (c : EpCond)
    (hw : (epRun init evs).waiting t = some c.code)
    (hc : (epRun init evs).holds c.code = true ∨ (epRun init evs).dead = true) :
    (epRun init evs).woken t = true :=
  ep_no_lost_wakeup_lem evs t c.code hw hc

/-- `Drop for EndpointDriver` (what it notifies is read from the source): no registration is left and every task
    pending in `accept()` or `wait_idle()` has been woken -/
theorem endpoint_driver_loss_wakes_all (evs : List EpEv) :
    (epStep (epRun init evs) .driverLost).regs = [] ∧
    (epStep (epRun init evs) .driverLost).dead = true ∧
    ∀ t c, (epRun init evs).waiting t = some c → (epStep (epRun init evs) .driverLost).woken t = true :=
  ep_driver_lost_lem evs

-- non-vacuity. Conditions 0,1 are waker-map slots (streams), 2.. are Notified conditions; tasks 7, 8.
def slotEx : Cond → Bool := fun c => c < 2

/-- task 7 reads stream 0 (Pending), data arrives, another reader (8) consumes it, 7 is woken and pends again,
    data arrives again -/
def histA : List Ev := [.poll 7 0 true, .drive [0] [], .poll 8 0 true, .poll 7 0 true, .drive [0, 3] [1]]
example : (run slotEx init histA).waiting 7 = some 0 ∧ (run slotEx init histA).holds 0 = true ∧
    (run slotEx init histA).woken 7 = true ∧ (run slotEx init histA).regs = [] := by decide
example : (run slotEx init (histA.take 4)).waiting 7 = some 0 ∧ (run slotEx init (histA.take 4)).holds 0 = false ∧
    (run slotEx init (histA.take 4)).woken 7 = false ∧ (run slotEx init (histA.take 4)).regs = [(0, 7)] := by decide
/-- pending accept (cond 2) and pending read (cond 1) at terminate -/
def histB : List Ev := [.poll 7 2 false, .poll 8 1 true]
example : (run slotEx init histB).waiting 7 = some 2 ∧ (run slotEx init histB).waiting 8 = some 1 ∧
    (run slotEx init histB).regs = [(1, 8), (2, 7)] ∧
    (step slotEx (run slotEx init histB) .terminate).woken 7 = true ∧
    (step slotEx (run slotEx init histB) .terminate).woken 8 = true := by decide
/-- dropped futures: the Notified registration (cond 2) goes, the waker-map entry (cond 1) stays as a leftover
    until the handle is dropped or the stream is woken once -/
example : (step slotEx (run slotEx init histB) (.dropFut 7)).regs = [(1, 8)] ∧
    (step slotEx (run slotEx init histB) (.dropFut 8)).regs = [(1, 8), (2, 7)] ∧
    (step slotEx (run slotEx init histB) (.dropFut 8)).left 8 1 = true ∧
    (run slotEx init (histB ++ [.dropFut 8, .dropHandle 8 1])).regs = [(2, 7)] ∧
    (run slotEx init (histB ++ [.dropFut 8, .drive [1] []])).woken 8 = true ∧
    (run slotEx init (histB ++ [.dropFut 8, .drive [1] []])).left 8 1 = false := by decide
/-- a completing poll -/
example : ((run slotEx init [.poll 7 0 true, .drive [0] []]).poll slotEx 7 0 true).2 = true ∧
    ((run slotEx init [.poll 7 0 true, .drive [0] []]).poll slotEx 7 0 true).1.holds 0 = false := by decide
/-- the protocol matters: a driver that sets the condition WITHOUT waking loses the wakeup (state not reachable) -/
example : ({ (run slotEx init [.poll 7 0 true]) with holds := fun _ => true } : St).woken 7 = false := by decide
/-- two acceptors (7, 8) wait on the same Notified condition 2; a stream arrives: both are woken; 7 wins and
    consumes it; the loser 8 polls, finds nothing, is registered again; the next stream wakes it -/
def histC : List Ev := [.poll 7 2 true, .poll 8 2 true, .drive [2] [], .poll 7 2 true, .poll 8 2 true]
example : (run slotEx init (histC.take 3)).woken 7 = true ∧ (run slotEx init (histC.take 3)).woken 8 = true ∧
    (run slotEx init (histC.take 3)).regs = [] ∧
    (run slotEx init histC).waiting 7 = none ∧ (run slotEx init histC).holds 2 = false ∧
    (run slotEx init histC).waiting 8 = some 2 ∧ (run slotEx init histC).woken 8 = false ∧
    (run slotEx init histC).regs = [(2, 8)] ∧
    (run slotEx init (histC ++ [.drive [2] []])).woken 8 = true := by decide
example : anchors.length = 23 := by decide
/-- stopped() of stream 5 pending in tasks 7 and 8 (one shared Notify), the owner resets the stream -/
def histD : List Ev := [.poll 7 5 false, .poll 8 5 false]
example : (run slotEx init histD).waiting 7 = some 5 ∧ (run slotEx init histD).regs = [(5, 8), (5, 7)] ∧
    (step slotEx (run slotEx init histD) (.appSet 5)).woken 7 = true ∧
    (step slotEx (run slotEx init histD) (.appSet 5)).woken 8 = true ∧
    (step slotEx (run slotEx init histD) (.appSet 5)).regs = [] ∧
    ((step slotEx (run slotEx init histD) (.appSet 5)).poll slotEx 7 5 false).2 = true := by decide
/-- … a `reset` that only changes the state (the code before the repair) leaves both parked for ever -/
example : ({ (run slotEx init histD) with holds := upd (run slotEx init histD).holds 5 true } : St).woken 7 = false ∧
    ({ (run slotEx init histD) with holds := upd (run slotEx init histD).holds 5 true } : St).regs = [(5, 8), (5, 7)] := by decide
/-- accept() (task 7) and wait_idle() (tasks 8, 9) parked, the endpoint driver is lost -/
def histE : List EpEv := [.poll 7 .incoming true, .poll 8 .idle false, .poll 9 .idle false]
example : (epRun init histE).waiting 8 = some EpCond.idle.code ∧ (epRun init histE).regs = [(1, 9), (1, 8), (0, 7)] ∧
    (epStep (epRun init histE) .driverLost).woken 7 = true ∧ (epStep (epRun init histE) .driverLost).woken 8 = true ∧
    (epStep (epRun init histE) .driverLost).woken 9 = true ∧
    ((epStep (epRun init histE) .driverLost).poll noSlot 8 EpCond.idle.code false).2 = true := by decide
example : (epRun init (histE ++ [.driverLost])).dead = true ∧ (epRun init (histE ++ [.driverLost])).waiting 8 = some 1 ∧
    (epRun init (histE ++ [.driverLost])).woken 8 = true := by decide
/-- … a `Drop for EndpointDriver` that notifies `incoming` only (the code before the repair): the endpoint is dead,
    a fresh wait_idle() completes, the parked ones are never woken -/
example : ((epRun init histE).lose [EpCond.incoming.code]).dead = true ∧
    ((epRun init histE).lose [EpCond.incoming.code]).woken 7 = true ∧
    ((epRun init histE).lose [EpCond.incoming.code]).woken 8 = false ∧
    ((epRun init histE).lose [EpCond.incoming.code]).regs = [(1, 9), (1, 8)] := by decide
/-- a writer (task 8) of the stream opened after a 0-RTT rejection is parked on slot 1; the rejected early handle
    of the same stream id is dropped: nothing changes; removing the slot entry (the code before the repair) would
    leave the writer Pending, unregistered and not woken -/
example : (run slotEx init [.poll 8 1 true, .dropRejected 1]).regs = [(1, 8)] ∧
    ({ (run slotEx init [.poll 8 1 true]) with regs := (run slotEx init [.poll 8 1 true]).regs.filter (fun r => r.1 != 1) } : St).regs = [] ∧
    (run slotEx init [.poll 8 1 true]).waiting 8 = some 1 ∧ (run slotEx init [.poll 8 1 true]).woken 8 = false := by decide

end QM.Props.C18
