import QuinnModel.Lemmas.StreamsC06Main
/-
C06 — state-level decision facts, "no delivery after an error", MAX_STREAMS credit, F12 witness.
-/
namespace QM.Streams
set_option pp.structureInstances false

/-- a peer-initiated stream id at or beyond the advertised stream count is refused -/
theorem validate_over_limit {s : State} {id : Nat} (hr : sidInitiator id ≠ s.side)
    (hi : s.maxRemote.get (sidDir id) ≤ sidIndex id) : s.validateReceiveId id = some .streamLimit := by
  unfold State.validateReceiveId
  have : ¬ s.side = sidInitiator id := fun h => hr h.symm
  simp only [this, ↓reduceIte]
  split
  · rfl
  · omega

theorem received_over_limit {s : State} {id off len : Nat} {fin : Bool} (hr : sidInitiator id ≠ s.side)
    (hi : s.maxRemote.get (sidDir id) ≤ sidIndex id) :
    s.received id off len fin = some (s, .error .streamLimit) := by
  unfold State.received; rw [validate_over_limit hr hi]

theorem receivedReset_over_limit {s : State} {id code fo : Nat} (hr : sidInitiator id ≠ s.side)
    (hi : s.maxRemote.get (sidDir id) ≤ sidIndex id) :
    s.receivedReset id code fo = some (s, .error .streamLimit) := by
  unfold State.receivedReset; rw [validate_over_limit hr hi]

/-- MAX_STREAM_DATA for a peer-initiated bidirectional stream at or beyond the advertised stream count
    is refused with STREAM_LIMIT_ERROR and changes nothing -/
theorem receivedMaxStreamData_over_limit {s : State} {id n : Nat} (hr : sidInitiator id ≠ s.side)
    (hd : sidDir id = .bi) (hi : s.maxRemote.get (sidDir id) ≤ sidIndex id) :
    s.receivedMaxStreamData id n = some (s, some .streamLimit) := by
  unfold State.receivedMaxStreamData
  have h1 : (decide (sidInitiator id ≠ s.side) && sidDir id == Dir.uni) = false := by simp [hd]
  have h2 : (Gen.maxsdChecksRemoteLimit && decide (sidInitiator id ≠ s.side) &&
      decide (sidIndex id ≥ s.maxRemote.get (sidDir id))) = true := by
    simp only [Gen.maxsdChecksRemoteLimit, Bool.true_and, Bool.and_eq_true, decide_eq_true_eq]
    exact ⟨hr, hi⟩
  simp only [h1, h2, Bool.false_eq_true, ↓reduceIte]

/-- the announcement test of `queue_max_stream_id`: a raise of the stream limit is announced as soon as
    it amounts to an eighth of the concurrency limit, and any raise at all when that eighth is below one -/
theorem maxStreamsSignificant_of {diff count : Nat} (h1 : 0 < diff) (h2 : count / 8 ≤ diff) :
    Gen.maxStreamsSignificant diff count = true := by
  simp only [Gen.maxStreamsSignificant, Bool.and_eq_true, decide_eq_true_eq]; exact ⟨h1, h2⟩

/-- a RESET_STREAM repeating the final size of a stream that is already reset changes nothing and is
    not an error, whatever the flow-control state is -/
theorem receivedReset_duplicate {s : State} {id code fo c : Nat} {rs : Recv}
    (hv : s.validateReceiveId id = none) (hf : s.recv.find? id = some (some rs))
    (hst : rs.state = .resetRecvd fo c) : s.receivedReset id code fo = some (s, .ok false) := by
  have hg : s.getOrInsertRecv id = some (rs, s) := by simp [State.getOrInsertRecv, hf]
  have hr : rs.reset code fo s.dataRecvd s.localMaxData = some (.ok (false, rs)) := by
    unfold Recv.reset Recv.resetSizeErr Recv.resetTail
    simp [Recv.finalOffset, Recv.isReceiving, hst, Gen.resetDuplicateBeforeCredit]
  unfold State.receivedReset
  simp only [hv, hg, hr]

/-- on an existing, still receiving half `received` reports exactly `ingest`'s verdict -/
theorem received_follows_ingest {s s' : State} {id off len : Nat} {fin : Bool} {rs : Recv} {e : TErr}
    (hv : s.validateReceiveId id = none) (hf : s.recv.find? id = some (some rs)) (hrcv : rs.isReceiving = true) :
    s.received id off len fin = some (s', .error e) ↔
      (s' = s ∧ rs.ingest off len fin s.dataRecvd s.localMaxData = some (.error e)) := by
  have hg : s.getOrInsertRecv id = some (rs, s) := by simp only [State.getOrInsertRecv, hf]
  constructor
  · intro h
    unfold State.received at h
    simp only [hv, hg, hrcv, Bool.not_true, Bool.false_eq_true, ↓reduceIte] at h
    osplit h
    have he := Except.error.inj h.2
    subst he
    exact ⟨h.1.symm, by assumption⟩
  · rintro ⟨rfl, hing⟩
    unfold State.received
    simp only [hv, hg, hrcv, Bool.not_true, Bool.false_eq_true, ↓reduceIte, hing]

/-- a STREAM frame that is refused delivers nothing: the receive accounting is unchanged and every
    receiving half is as before (the addressed half may have been instantiated, empty) -/
theorem received_error_no_delivery {s s' : State} {id off len : Nat} {fin : Bool} {e : TErr}
    (h : s.received id off len fin = some (s', .error e)) :
    s'.rcore = s.rcore ∧ ∀ k r, s'.rv k = some r → s.rv k = some r ∨ r = Recv.new s.streamReceiveWindow := by
  unfold State.received at h
  osplit h
  all_goals try (obtain ⟨rfl, _⟩ := h; exact ⟨rfl, fun k r hk => Or.inl hk⟩)
  all_goals
    have hg := ‹State.getOrInsertRecv _ _ = some _›
    obtain ⟨hc1, _, hrv1, hor⟩ := getOrInsertRecv_spec hg
    obtain ⟨rfl, _⟩ := h
    refine ⟨hc1, fun k r hk => ?_⟩
    rw [hrv1 k] at hk
    split at hk
    · simp only [Option.some.injEq] at hk; subst hk
      rename_i hki; subst hki
      rcases hor with hh | ⟨_, hh⟩
      · exact Or.inl hh
      · exact Or.inr hh
    · exact Or.inl hk

theorem receivedReset_error_no_delivery {s s' : State} {id code fo : Nat} {e : TErr}
    (h : s.receivedReset id code fo = some (s', .error e)) :
    s'.rcore = s.rcore ∧ ∀ k r, s'.rv k = some r → s.rv k = some r ∨ r = Recv.new s.streamReceiveWindow := by
  unfold State.receivedReset at h
  osplit h
  all_goals try (obtain ⟨rfl, _⟩ := h; exact ⟨rfl, fun k r hk => Or.inl hk⟩)
  all_goals
    have hg := ‹State.getOrInsertRecv _ _ = some _›
    obtain ⟨hc1, _, hrv1, hor⟩ := getOrInsertRecv_spec hg
    obtain ⟨rfl, _⟩ := h
    refine ⟨hc1, fun k r hk => ?_⟩
    rw [hrv1 k] at hk
    split at hk
    · simp only [Option.some.injEq] at hk; subst hk
      rename_i hki; subst hki
      rcases hor with hh | ⟨_, hh⟩
      · exact Or.inl hh
      · exact Or.inr hh
    · exact Or.inl hk

/-- new stream-count credit (growth of `max_remote`) is issued by `stream_freed` only for a peer
    stream whose other half is already gone (or that has a single half) -/
theorem freeRemote_credit {s s' : State} {id : Nat} {half : Half} (h : s.freeRemote id half = some s')
    (hne : s'.maxRemote ≠ s.maxRemote) :
    sidInitiator id ≠ s.side ∧ s.fullyFree id half = true := by
  unfold State.freeRemote at h
  by_cases hr : sidInitiator id ≠ s.side
  · rw [if_pos hr] at h
    by_cases hff : s.fullyFree id half = true
    · exact ⟨hr, hff⟩
    · rw [if_neg hff] at h
      simp only [Option.some.injEq] at h
      subst h; exact absurd rfl hne
  · rw [if_neg hr] at h
    simp only [Option.some.injEq] at h
    subst h; exact absurd rfl hne

/-! ### running with the receiver ghosts -/

/-- run operations keeping the consumed-bytes ghost and the largest configured window -/
def runR : State → Nat → Nat → List Op → Option (State × Nat × Nat)
  | s, C, W, [] => some (s, C, W)
  | s, C, W, o :: os =>
    match step s o with
    | none => none
    | some (s', out) =>
      runR s' (C + discarded s o out) (Nat.max W (match o with | .recvWindow n => n | _ => 0)) os

/-- the former F12 history: window 64 shrunk to 0, then raised to 2522, then 2555 bytes at once -/
def F12_ops : List Op :=
  [ .params ⟨20642, 0, 1073741824, 0, 2, 176⟩, .recvWindow 0, .recvWindow 2522, .stream 6 0 2555 true ]

def F12_config : Config := ⟨.server, 10, 2, 38, 64, 4611686018427387901⟩

/-- the former F14 history: 14 bytes received, the stream stopped (credited), then reset with final
    size 14, then 39 bytes on another stream -/
def F14_ops : List Op :=
  [ .params ⟨100, 100, 100, 2, 2, 100⟩, .stream 0 0 14 false, .stop 0 7, .rst 0 9 14, .stream 4 0 39 false ]

def F14_config : Config := ⟨.server, 2, 2, 100, 25, 1000⟩

/-- the former F15 history: 59 bytes received, the stream reset with final size 59 (credited), then
    stopped by the application, then 118 bytes on another stream -/
def F15_ops : List Op :=
  [ .params ⟨100, 100, 100, 2, 2, 100⟩, .stream 0 0 59 false, .rst 0 24 59, .stop 0 35, .stream 4 0 118 false ]

def F15_config : Config := ⟨.server, 2, 2, 100, 59, 2002⟩

instance (s : State) : Decidable (Unsat s) := by unfold Unsat; exact inferInstance

/-- every state along the run is unsaturated -/
def runU : State → List Op → Bool
  | _, [] => true
  | s, o :: os =>
    match step s o with
    | none => false
    | some (s', _) => decide (Unsat s') && runU s' os

theorem reachR_runR {c : Config} : ∀ (ops : List Op) {s s' : State} {C C' W W' : Nat} {U : Prop},
    ReachR c s C W U → (∀ o ∈ ops, o.isRestart = false) → runR s C W ops = some (s', C', W') →
    runU s ops = true → ∃ U', ReachR c s' C' W' U' ∧ (U → U') := by
  intro ops
  induction ops with
  | nil =>
    intro s s' C C' W W' U r _ hr _
    simp only [runR, Option.some.injEq, Prod.mk.injEq] at hr
    obtain ⟨rfl, rfl, rfl⟩ := hr
    exact ⟨U, r, id⟩
  | cons o os ih =>
    intro s s' C C' W W' U r hp hr hu
    unfold runR at hr
    unfold runU at hu
    split at hr
    · contradiction
    · rename_i s1 out hs
      simp only [hs, Bool.and_eq_true, decide_eq_true_eq] at hu
      have r1 := ReachR.step r (hp o (List.mem_cons_self ..)) hs
      obtain ⟨U', r', hU⟩ := ih r1 (fun o' ho' => hp o' (List.mem_cons_of_mem _ ho')) hr hu.2
      exact ⟨U', r', fun u => hU ⟨u, hu.1⟩⟩

end QM.Streams
