import QuinnModel.Streams.State
/-
Helper lemmas for the stream-layer model: association-list laws and the *sender frame*:
which parts of the state an operation leaves alone as far as the sender's flow-control
accounting (C05) is concerned.
-/
namespace QM.Streams

/-- split every `if`/`match` of a hypothesis `h : f … = some _`, drop the impossible branches and
    reduce `some a = some b` to `a = b` -/
syntax "osplit " ident : tactic
macro_rules
  | `(tactic| osplit $h:ident) =>
    `(tactic| ((try dsimp only at $h:ident); repeat' (split at $h:ident)) <;> (try contradiction) <;>
        (try (simp only [Option.some.injEq, Prod.mk.injEq] at $h:ident)) <;> (try contradiction) <;>
        (try (simp only [reduceCtorEq, false_and, and_false] at $h:ident; done)))

/-- `via t`: close the goal with `t`, elaborated without the goal as expected type -/
macro "via " t:term : tactic => `(tactic| (have f := $t; exact f))

/-- `queueMaxIf` either does nothing or is `queue_max_stream_id` with its result dropped -/
theorem queueMaxIf_cases {s s' : State} {c : Bool} (h : s.queueMaxIf c = some s') :
    s' = s ∨ ∃ b, s.queueMaxStreamId = some (s', b) := by
  unfold State.queueMaxIf at h
  split at h
  · split at h
    · contradiction
    · next s'' b hq =>
      simp only [Option.some.injEq] at h
      subst h
      exact Or.inr ⟨b, hq⟩
  · simp only [Option.some.injEq] at h
    exact Or.inl h.symm

theorem natMax_eq (a b : Nat) : Nat.max a b = max a b := rfl
theorem natMin_eq (a b : Nat) : Nat.min a b = min a b := rfl

theorem Two.get_set {α} (t : Two α) (d d' : Dir) (v : α) :
    (t.set d v).get d' = if d = d' then v else t.get d' := by
  cases d <;> cases d' <;> rfl

/-! ### association lists -/

@[simp] theorem Map.find?_nil {α} (k : Nat) : Map.find? ([] : Map α) k = none := rfl

theorem Map.find?_cons {α} (m : Map α) (a k : Nat) (b : α) :
    Map.find? ((a, b) :: m) k = if a = k then some b else Map.find? m k := rfl

theorem Map.find?_set {α} (m : Map α) (k k' : Nat) (v : α) :
    (m.set k v).find? k' = if k' = k then (if m.contains k then some v else none) else m.find? k' := by
  induction m with
  | nil => simp [Map.set, Map.find?, Map.contains]
  | cons hd tl ih =>
    obtain ⟨a, b⟩ := hd
    grind [Map.set, Map.contains, Map.find?]

theorem Map.find?_set_self {α} (m : Map α) (k : Nat) (v w : α) (h : m.find? k = some w) :
    (m.set k v).find? k = some v := by
  rw [Map.find?_set]; simp [Map.contains, h]

theorem Map.find?_set_ne {α} (m : Map α) (k k' : Nat) (v : α) (h : k' ≠ k) :
    (m.set k v).find? k' = m.find? k' := by
  rw [Map.find?_set]; simp [h]

theorem Map.find?_erase_ne {α} (m : Map α) (k k' : Nat) (h : k' ≠ k) :
    (m.erase k).find? k' = m.find? k' := by
  induction m with
  | nil => rfl
  | cons hd tl ih =>
    obtain ⟨a, b⟩ := hd
    grind [Map.erase, Map.find?]

theorem Map.find?_erase_self {α} (m : Map α) (k : Nat) : (m.erase k).find? k = none := by
  induction m with
  | nil => rfl
  | cons hd tl ih =>
    obtain ⟨a, b⟩ := hd
    grind [Map.erase, Map.find?]

theorem Map.find?_insertNew {α} (m m' : Map α) (k k' : Nat) (v : α) (h : m.insertNew k v = some m') :
    m'.find? k' = if k = k' then some v else m.find? k' := by
  unfold Map.insertNew at h
  split at h
  · simp at h
  · simp only [Option.some.injEq] at h; subst h; rfl

theorem Map.insertNew_absent {α} (m m' : Map α) (k : Nat) (v : α) (h : m.insertNew k v = some m') :
    m.find? k = none := by
  unfold Map.insertNew Map.contains at h
  cases hf : m.find? k <;> simp_all

/-! ### the sender's core accounting and the frame relation -/

/-- the scalar part of the state that C05 speaks about -/
structure Core where
  side : Side
  maxData : Nat
  dataSent : Nat
  max : Two Nat
  next : Two Nat
  iu : Nat
  ibl : Nat
  ibr : Nat
deriving DecidableEq

def State.core (s : State) : Core :=
  ⟨s.side, s.maxData, s.dataSent, s.max, s.next, s.initialMaxStreamDataUni,
   s.initialMaxStreamDataBidiLocal, s.initialMaxStreamDataBidiRemote⟩

/-- (bytes written so far, peer-granted stream limit) -/
def Send.credit (x : Send) : Nat × Nat := (x.pending.offset, x.maxData)

theorem maxSendData_core (s s' : State) (h : s'.core = s.core) (id : Nat) :
    s'.maxSendData id = s.maxSendData id := by
  simp only [State.core, Core.mk.injEq] at h
  simp [State.maxSendData, h]

/-- credit of the instantiated sending half stored under `id`, if any -/
def State.cv (s : State) (id : Nat) : Option (Nat × Nat) :=
  match s.send.find? id with
  | some (some x) => some x.credit
  | _ => none

/-- the sender view: core scalars and the credit of every instantiated sending half -/
structure SView where
  core : Core
  cv : Nat → Option (Nat × Nat)

def State.vw (s : State) : SView := ⟨s.core, s.cv⟩

/-- `maxSendData` as a function of the core -/
def Core.maxSendData (c : Core) (id : Nat) : Nat :=
  match sidDir id with
  | .uni => c.iu
  | .bi => if c.side != sidInitiator id then c.ibl else c.ibr

theorem maxSendData_eq (s : State) (id : Nat) : s.maxSendData id = s.core.maxSendData id := rfl

/-- every instantiated sending half of `v'` either existed in `v` with the same offset and limit,
    or is fresh: nothing written, limit = the transport parameter for that kind of stream -/
structure FrameV (v v' : SView) : Prop where
  core : v'.core = v.core
  rel : ∀ id c, v'.cv id = some c → v.cv id = some c ∨ c = (0, v.core.maxSendData id)

theorem FrameV.refl (v : SView) : FrameV v v := ⟨rfl, fun _ _ h => Or.inl h⟩

theorem FrameV.trans {v v' v'' : SView} (h1 : FrameV v v') (h2 : FrameV v' v'') : FrameV v v'' := by
  refine ⟨h2.core.trans h1.core, ?_⟩
  intro id c hc
  rcases h2.rel id c hc with h | h
  · exact h1.rel id c h
  · right; rw [h, h1.core]

/-- sender frame between two states -/
structure Frame (s s' : State) : Prop where
  v : FrameV s.vw s'.vw

theorem Frame.refl (s : State) : Frame s s := ⟨FrameV.refl _⟩

theorem Frame.trans {s s' s'' : State} (h1 : Frame s s') (h2 : Frame s' s'') : Frame s s'' :=
  ⟨FrameV.trans h1.v h2.v⟩

theorem Frame.after {s s1 s' : State} (f2 : Frame s1 s') (f1 : Frame s s1) : Frame s s' := f1.trans f2

theorem Frame.of_vw {s s' : State} (h : s'.vw = s.vw) : Frame s s' := by
  constructor; rw [h]; exact FrameV.refl _

theorem vw_of_eq {s s' : State} (hc : s'.core = s.core) (hs : s'.send = s.send) : s'.vw = s.vw := by
  have : s'.cv = s.cv := by funext k; simp only [State.cv, hs]
  simp only [State.vw, hc, this]

theorem Frame.of_eq {s s' : State} (hc : s'.core = s.core) (hs : s'.send = s.send) : Frame s s' :=
  Frame.of_vw (vw_of_eq hc hs)

theorem Frame.pre {s s1 s' : State} (f : Frame s1 s') (hc : s1.core = s.core) (hs : s1.send = s.send) :
    Frame s s' := (Frame.of_eq hc hs).trans f

theorem Frame.post {s s1 s' : State} (f : Frame s s1) (hc : s'.core = s1.core) (hs : s'.send = s1.send) :
    Frame s s' := f.trans (Frame.of_eq hc hs)

end QM.Streams
