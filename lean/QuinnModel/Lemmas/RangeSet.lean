import QuinnModel.Data.RangeSet
/-
`RangeSet` refines finite sets of `Nat`: representation invariant `WF` (sorted, non-empty,
non-adjacent ranges), `insert` = union, `pop_min` = remove the least range.
-/
namespace QM.RangeSet

/-- representation invariant: every range non-empty, each range ends strictly before the next starts -/
def WF (s : RS) : Prop := s.Pairwise (fun p q => p.2 < q.1) ∧ ∀ p ∈ s, p.1 < p.2

theorem WF_nil : WF [] := ⟨List.Pairwise.nil, by simp⟩

theorem WF.tail {p : Nat × Nat} {t : RS} (h : WF (p :: t)) : WF t :=
  ⟨(List.pairwise_cons.mp h.1).2, fun q hq => h.2 q (List.mem_cons_of_mem _ hq)⟩

theorem WF.head_lt {p : Nat × Nat} {t : RS} (h : WF (p :: t)) : p.1 < p.2 :=
  h.2 p (List.mem_cons_self)

theorem WF.head_sep {p : Nat × Nat} {t : RS} (h : WF (p :: t)) : ∀ q ∈ t, p.2 < q.1 :=
  (List.pairwise_cons.mp h.1).1

theorem WF.cons {p : Nat × Nat} {t : RS} (hp : p.1 < p.2) (hs : ∀ q ∈ t, p.2 < q.1) (ht : WF t) :
    WF (p :: t) :=
  ⟨List.pairwise_cons.mpr ⟨hs, ht.1⟩, by
    intro q hq
    rcases List.mem_cons.mp hq with h | h
    · subst h; exact hp
    · exact ht.2 q h⟩

theorem mem_nil (x : Nat) : ¬ mem x [] := by
  intro h; rcases h with ⟨p, hp, _⟩; simp at hp

theorem mem_cons (x : Nat) (p : Nat × Nat) (t : RS) :
    mem x (p :: t) ↔ (p.1 ≤ x ∧ x < p.2) ∨ mem x t := by
  unfold mem
  constructor
  · rintro ⟨q, hq, h⟩
    rcases List.mem_cons.mp hq with e | e
    · subst e; exact Or.inl h
    · exact Or.inr ⟨q, e, h⟩
  · rintro (h | ⟨q, hq, h⟩)
    · exact ⟨p, List.mem_cons_self, h⟩
    · exact ⟨q, List.mem_cons_of_mem _ hq, h⟩

theorem mem_append (x : Nat) (s t : RS) : mem x (s ++ t) ↔ mem x s ∨ mem x t := by
  unfold mem
  constructor
  · rintro ⟨q, hq, h⟩
    rcases List.mem_append.mp hq with e | e
    · exact Or.inl ⟨q, e, h⟩
    · exact Or.inr ⟨q, e, h⟩
  · rintro (⟨q, hq, h⟩ | ⟨q, hq, h⟩)
    · exact ⟨q, List.mem_append.mpr (Or.inl hq), h⟩
    · exact ⟨q, List.mem_append.mpr (Or.inr hq), h⟩

/-- the classical one-pass formulation of inserting a range into a sorted list of ranges -/
def ins : RS → Nat → Nat → RS
  | [], xs, xe => [(xs, xe)]
  | (a, b) :: t, xs, xe =>
    if b < xs then (a, b) :: ins t xs xe
    else if xe < a then (xs, xe) :: (a, b) :: t
    else ins t (Nat.min a xs) (Nat.max b xe)

theorem ins_lower (s : RS) : ∀ (xs xe lb : Nat), (∀ p ∈ s, lb < p.1) → lb < xs →
    ∀ p ∈ ins s xs xe, lb < p.1 := by
  induction s with
  | nil => intro xs xe lb _ h p hp; simp [ins] at hp; subst hp; exact h
  | cons q t ih =>
    obtain ⟨a, b⟩ := q
    intro xs xe lb hs h p hp
    have ha : lb < a := hs (a, b) List.mem_cons_self
    have ht : ∀ p ∈ t, lb < p.1 := fun p hp => hs p (List.mem_cons_of_mem _ hp)
    unfold ins at hp
    split at hp
    · rcases List.mem_cons.mp hp with e | e
      · subst e; exact ha
      · exact ih xs xe lb ht h p e
    · split at hp
      · rcases List.mem_cons.mp hp with e | e
        · subst e; exact h
        · exact hs p e
      · exact ih _ _ lb ht (by simp only [Nat.min_def]; split <;> omega) p hp

theorem ins_WF (s : RS) : ∀ (xs xe : Nat), WF s → xs < xe → WF (ins s xs xe) := by
  induction s with
  | nil =>
    intro xs xe _ h
    exact WF.cons h (by simp) WF_nil
  | cons q t ih =>
    obtain ⟨a, b⟩ := q
    intro xs xe hw h
    have hab : a < b := hw.head_lt
    have hsep := hw.head_sep
    unfold ins
    split
    · rename_i hb
      exact WF.cons hab (fun p hp => ins_lower t xs xe b hsep hb p hp) (ih xs xe hw.tail h)
    · split
      · rename_i hb hx
        refine WF.cons h ?_ hw
        intro p hp
        rcases List.mem_cons.mp hp with e | e
        · subst e; exact hx
        · have := hsep p e; simp only at hx ⊢; omega
      · exact ih _ _ hw.tail (by simp only [Nat.min_def, Nat.max_def]; split <;> split <;> omega)

theorem ins_mem (s : RS) : ∀ (xs xe x : Nat), (∀ p ∈ s, p.1 < p.2) → xs < xe →
    (mem x (ins s xs xe) ↔ mem x s ∨ (xs ≤ x ∧ x < xe)) := by
  induction s with
  | nil =>
    intro xs xe x _ _
    simp only [ins, mem_cons, mem_nil, or_false, false_or]
  | cons q t ih =>
    obtain ⟨a, b⟩ := q
    intro xs xe x hne h
    have hab : a < b := hne (a, b) List.mem_cons_self
    have hnt : ∀ p ∈ t, p.1 < p.2 := fun p hp => hne p (List.mem_cons_of_mem _ hp)
    unfold ins
    split
    · rw [mem_cons, mem_cons, ih xs xe x hnt h]
      simp only; grind
    · split
      · simp only [mem_cons]; grind
      · rename_i h1 h2
        rw [ih _ _ x hnt (by simp only [Nat.min_def, Nat.max_def]; split <;> split <;> omega), mem_cons]
        simp only [Nat.min_def, Nat.max_def]
        grind

/-! ### `insert` (the mirror of the Rust) computes `ins` on well-formed sets -/

theorem pred_mem (s : RS) (x : Nat) (p : Nat × Nat) (h : pred s x = some p) : p ∈ s ∧ p.1 ≤ x := by
  induction s with
  | nil => simp [pred] at h
  | cons q t ih =>
    obtain ⟨a, b⟩ := q
    unfold pred at h
    split at h
    · rename_i ha
      cases hp : pred t x with
      | none => simp only [hp] at h; cases h; exact ⟨List.mem_cons_self, ha⟩
      | some r =>
        simp only [hp] at h; cases h
        exact ⟨List.mem_cons_of_mem _ (ih hp).1, (ih hp).2⟩
    · exact ⟨List.mem_cons_of_mem _ (ih h).1, (ih h).2⟩

theorem pred_none_of_gt (s : RS) (x : Nat) (h : ∀ p ∈ s, x < p.1) : pred s x = none := by
  induction s with
  | nil => rfl
  | cons q t ih =>
    obtain ⟨a, b⟩ := q
    have ha : x < a := h (a, b) List.mem_cons_self
    unfold pred
    rw [if_neg (by omega)]
    exact ih (fun p hp => h p (List.mem_cons_of_mem _ hp))

theorem del_of_ne (t : RS) (k : Nat) (h : ∀ p ∈ t, p.1 ≠ k) : del t k = t := by
  unfold del
  apply List.filter_eq_self.mpr
  intro p hp
  simp [h p hp]

theorem del_head (a b : Nat) (t : RS) (h : ∀ p ∈ t, p.1 ≠ a) : del ((a, b) :: t) a = t := by
  have : del ((a, b) :: t) a = del t a := by simp [del]
  rw [this, del_of_ne t a h]

theorem del_cons_ne (a b k : Nat) (t : RS) (h : a ≠ k) : del ((a, b) :: t) k = (a, b) :: del t k := by
  simp [del, h]

/-- after the predecessor was handled every remaining key is greater than `xs`: the loop + final
    `BTreeMap::insert` is `ins` -/
theorem absorb_put (t : RS) : ∀ (xs xe : Nat), (∀ p ∈ t, xs < p.1) → (∀ p ∈ t, p.1 < p.2) →
    put (absorb t xs xe).1 xs (absorb t xs xe).2 = ins t xs xe := by
  induction t with
  | nil => intro xs xe _ _; rfl
  | cons q t ih =>
    obtain ⟨a, b⟩ := q
    intro xs xe hk hne
    have ha : xs < a := hk (a, b) List.mem_cons_self
    have hab : a < b := hne (a, b) List.mem_cons_self
    have hkt : ∀ p ∈ t, xs < p.1 := fun p hp => hk p (List.mem_cons_of_mem _ hp)
    have hnt : ∀ p ∈ t, p.1 < p.2 := fun p hp => hne p (List.mem_cons_of_mem _ hp)
    have e1 : ¬ a ≤ xs := by omega
    have e2 : ¬ b < xs := by omega
    by_cases hx : a > xe
    · have e3 : xe < a := hx
      simp only [absorb, ins, if_neg e1, if_neg e2, if_pos hx, put, if_pos ha]
    · have e3 : ¬ xe < a := hx
      have hm : Nat.min a xs = xs := by simp only [Nat.min_def]; split <;> omega
      simp only [absorb, ins, if_neg e1, if_neg e2, if_neg hx, hm]
      exact ih xs (max b xe) hkt hnt

theorem ins_self (a b : Nat) (t : RS) (h : WF ((a, b) :: t)) : ins t a b = (a, b) :: t := by
  cases t with
  | nil => rfl
  | cons q t =>
    obtain ⟨c, d⟩ := q
    have h1 : b < c := h.head_sep (c, d) List.mem_cons_self
    have h2 : c < d := h.tail.head_lt
    have h3 : a < b := h.head_lt
    have e1 : ¬ d < a := by omega
    simp only [ins, if_neg e1, if_pos h1]

theorem absorb_skip (a b : Nat) (t : RS) (xs xe : Nat) (h : a ≤ xs) :
    absorb ((a, b) :: t) xs xe = ((a, b) :: (absorb t xs xe).1, (absorb t xs xe).2) := by
  simp only [absorb, if_pos h]

theorem put_skip (a b : Nat) (t : RS) (k v : Nat) (h : a < k) :
    put ((a, b) :: t) k v = (a, b) :: put t k v := by
  have e1 : ¬ k < a := by omega
  have e2 : ¬ k = a := by omega
  simp only [put, if_neg e1, if_neg e2]

/-- an entry lying strictly before the new range is left alone -/
theorem insert_skip (a b : Nat) (t : RS) (xs xe : Nat) (hw : WF ((a, b) :: t)) (hb : b < xs) :
    (insert ((a, b) :: t) xs xe).1 = (a, b) :: (insert t xs xe).1 := by
  have hab : a < b := hw.head_lt
  have hsep := hw.head_sep
  have ha : a ≤ xs := by omega
  unfold insert
  by_cases hx : xe ≤ xs
  · simp only [if_pos hx]
  · simp only [if_neg hx]
    cases hpt : pred t xs with
    | some r =>
      obtain ⟨c, d⟩ := r
      have hr := pred_mem t xs (c, d) hpt
      have hc : b < c := hsep (c, d) hr.1
      have hp : pred ((a, b) :: t) xs = some (c, d) := by simp only [pred, if_pos ha, hpt]
      rw [hp]
      simp only
      by_cases h1 : d ≥ xe
      · simp only [if_pos h1]
      · simp only [if_neg h1]
        by_cases h2 : d ≥ xs
        · simp only [if_pos h2]
          rw [del_cons_ne a b c t (by omega), absorb_skip a b _ c xe (by omega)]
          exact put_skip a b _ c _ (by omega)
        · simp only [if_neg h2]
          rw [absorb_skip a b _ xs xe ha]
          exact put_skip a b _ xs _ (by omega)
    | none =>
      have hp : pred ((a, b) :: t) xs = some (a, b) := by simp only [pred, if_pos ha, hpt]
      rw [hp]
      have e1 : ¬ b ≥ xe := by omega
      have e2 : ¬ b ≥ xs := by omega
      simp only [if_neg e1, if_neg e2]
      rw [absorb_skip a b _ xs xe ha]
      exact put_skip a b _ xs _ (by omega)

theorem insert_eq_ins (s : RS) : ∀ (xs xe : Nat), WF s → xs < xe → (insert s xs xe).1 = ins s xs xe := by
  induction s with
  | nil =>
    intro xs xe _ h
    have e : ¬ xe ≤ xs := by omega
    simp only [insert, if_neg e, pred, absorb, put, ins]
  | cons q t ih =>
    obtain ⟨a, b⟩ := q
    intro xs xe hw h
    have hab : a < b := hw.head_lt
    have hsep := hw.head_sep
    have hnt : ∀ p ∈ t, p.1 < p.2 := hw.tail.2
    by_cases hb : b < xs
    · rw [insert_skip a b t xs xe hw hb, ih xs xe hw.tail h]
      conv => rhs; unfold ins
      rw [if_pos hb]
    · conv => rhs; unfold ins
      rw [if_neg hb]
      by_cases hx : xe < a
      · rw [if_pos hx]
        have hp : pred ((a, b) :: t) xs = none := pred_none_of_gt _ _ (by
          intro p hp
          rcases List.mem_cons.mp hp with e | e
          · subst e; simp only; omega
          · have := hsep p e; simp only at this; omega)
        unfold insert
        rw [if_neg (by omega), hp]
        simp only
        have e1 : absorb ((a, b) :: t) xs xe = ((a, b) :: t, xe) := by
          conv => lhs; unfold absorb
          rw [if_neg (by omega), if_pos (by omega)]
        rw [e1]
        simp only [put]
        rw [if_pos (by omega)]
      · rw [if_neg hx]
        by_cases ha : a ≤ xs
        · have hpt : pred t xs = none := pred_none_of_gt _ _ (by
            intro p hp; have := hsep p hp; simp only at this; omega)
          have hp : pred ((a, b) :: t) xs = some (a, b) := by
            conv => lhs; unfold pred
            rw [if_pos ha, hpt]
          unfold insert
          rw [if_neg (by omega), hp]
          simp only
          have hm : Nat.min a xs = a := by simp only [Nat.min_def]; split <;> omega
          by_cases h1 : b ≥ xe
          · rw [if_pos h1]
            have hM : Nat.max b xe = b := by simp only [Nat.max_def]; split <;> omega
            rw [hm, hM, ins_self a b t hw]
          · rw [if_neg h1, if_pos (by omega)]
            have hM : Nat.max b xe = xe := by simp only [Nat.max_def]; split <;> omega
            rw [hm, hM]
            rw [del_head a b t (by intro p hp; have := hsep p hp; simp only at this; omega)]
            exact absorb_put t a xe (by intro p hp; have := hsep p hp; simp only at this; omega) hnt
        · have hp : pred ((a, b) :: t) xs = none := pred_none_of_gt _ _ (by
            intro p hp
            rcases List.mem_cons.mp hp with e | e
            · subst e; simp only; omega
            · have := hsep p e; simp only at this; omega)
          unfold insert
          rw [if_neg (by omega), hp]
          simp only
          have e1 : absorb ((a, b) :: t) xs xe = absorb t xs (max b xe) := by
            conv => lhs; unfold absorb
            rw [if_neg ha, if_neg (by omega)]
          rw [e1]
          have hm : Nat.min a xs = xs := by simp only [Nat.min_def]; split <;> omega
          rw [hm]
          exact absorb_put t xs (max b xe)
            (by intro p hp; have := hsep p hp; simp only at this; omega) hnt

/-- `insert` of an empty (or inverted) range does nothing -/
theorem insert_empty (s : RS) (xs xe : Nat) (h : xe ≤ xs) : (insert s xs xe).1 = s := by
  unfold insert; rw [if_pos h]

/-- `RangeSet::insert` is set union and keeps the representation invariant -/
theorem insert_WF (s : RS) (xs xe : Nat) (hw : WF s) : WF (insert s xs xe).1 := by
  by_cases h : xs < xe
  · rw [insert_eq_ins s xs xe hw h]; exact ins_WF s xs xe hw h
  · rw [insert_empty s xs xe (by omega)]; exact hw

theorem insert_mem (s : RS) (xs xe x : Nat) (hw : WF s) :
    mem x (insert s xs xe).1 ↔ mem x s ∨ (xs ≤ x ∧ x < xe) := by
  by_cases h : xs < xe
  · rw [insert_eq_ins s xs xe hw h]; exact ins_mem s xs xe x hw.2 h
  · rw [insert_empty s xs xe (by omega)]
    constructor
    · exact Or.inl
    · rintro (h1 | h1)
      · exact h1
      · omega

/-- every range of a well-formed set lies inside the hull of its points -/
theorem bounds_of_mem (s : RS) (hw : WF s) (lo hi : Nat) (h : ∀ x, mem x s → lo ≤ x ∧ x < hi) :
    ∀ p ∈ s, lo ≤ p.1 ∧ p.2 ≤ hi := by
  intro p hp
  have hlt := hw.2 p hp
  have h1 := h p.1 ⟨p, hp, Nat.le_refl _, hlt⟩
  have h2 := h (p.2 - 1) ⟨p, hp, by omega, by omega⟩
  omega

theorem mem_bounds (s : RS) (lo hi : Nat) (h : ∀ p ∈ s, lo ≤ p.1 ∧ p.2 ≤ hi) :
    ∀ x, mem x s → lo ≤ x ∧ x < hi := by
  rintro x ⟨p, hp, h1, h2⟩
  have := h p hp
  omega

theorem insert_bounds (s : RS) (xs xe lo hi : Nat) (hw : WF s)
    (h : ∀ p ∈ s, lo ≤ p.1 ∧ p.2 ≤ hi) (h1 : lo ≤ xs) (h2 : xe ≤ hi) :
    ∀ p ∈ (insert s xs xe).1, lo ≤ p.1 ∧ p.2 ≤ hi := by
  apply bounds_of_mem _ (insert_WF s xs xe hw)
  intro x hx
  rcases (insert_mem s xs xe x hw).mp hx with hm | hm
  · exact mem_bounds s lo hi h x hm
  · omega

/-! ### `replace` on well-formed sets: reported duplicates = intersection, new set = union -/

/-- `s ∩ [lo, hi)` as ascending ranges -/
def cut : RS → Nat → Nat → List (Nat × Nat)
  | [], _, _ => []
  | (a, b) :: t, lo, hi =>
    (if Nat.max a lo < Nat.min b hi then [(Nat.max a lo, Nat.min b hi)] else []) ++ cut t lo hi

theorem cut_nil_of_ge (t : RS) (lo hi : Nat) (h : ∀ p ∈ t, hi ≤ p.1) : cut t lo hi = [] := by
  induction t with
  | nil => rfl
  | cons q t ih =>
    obtain ⟨a, b⟩ := q
    have ha : hi ≤ a := h (a, b) List.mem_cons_self
    have e : ¬ Nat.max a lo < Nat.min b hi := by simp only [Nat.max_def, Nat.min_def]; split <;> split <;> omega
    simp only [cut, if_neg e, List.nil_append]
    exact ih (fun p hp => h p (List.mem_cons_of_mem _ hp))

theorem cut_lo (t : RS) (lo lo' hi : Nat) (h : ∀ p ∈ t, lo' ≤ p.1) (hl : lo ≤ lo') :
    cut t lo hi = cut t lo' hi := by
  induction t with
  | nil => rfl
  | cons q t ih =>
    obtain ⟨a, b⟩ := q
    have ha : lo' ≤ a := h (a, b) List.mem_cons_self
    have e1 : Nat.max a lo = a := by simp only [Nat.max_def]; split <;> omega
    have e2 : Nat.max a lo' = a := by simp only [Nat.max_def]; split <;> omega
    simp only [cut, e1, e2]
    rw [ih (fun p hp => h p (List.mem_cons_of_mem _ hp))]

theorem drain_stop (t : RS) (start e : Nat) (h : ∀ p ∈ t, start < p.1 ∧ e < p.1) :
    drain t start e = ([], t, e) := by
  cases t with
  | nil => rfl
  | cons q t =>
    obtain ⟨a, b⟩ := q
    have := h (a, b) List.mem_cons_self
    have e1 : ¬ a ≤ start := by simp only at this; omega
    have e2 : a > e := by simp only at this; omega
    simp only [drain, if_neg e1, if_pos e2]

/-- after the predecessor was handled (all remaining keys are greater than `start`): the consumer's
    loop yields `cut`, and the drop glue leaves `ins` -/
theorem drain_cut (t : RS) : ∀ (start lo re : Nat), WF t → (∀ p ∈ t, start < p.1 ∧ lo ≤ p.1) → start < re →
    (drain t start re).1 = cut t lo re ∧
    put (drain (drain t start re).2.1 start (drain t start re).2.2).2.1 start
        (drain (drain t start re).2.1 start (drain t start re).2.2).2.2 = ins t start re := by
  induction t with
  | nil => intro start lo re _ _ _; exact ⟨rfl, rfl⟩
  | cons q t ih =>
    obtain ⟨a, b⟩ := q
    intro start lo re hw hk hsr
    have hab : a < b := hw.head_lt
    have hsep := hw.head_sep
    have hka := hk (a, b) List.mem_cons_self
    simp only at hka
    have hkt : ∀ p ∈ t, start < p.1 ∧ lo ≤ p.1 := fun p hp => hk p (List.mem_cons_of_mem _ hp)
    have e1 : ¬ a ≤ start := by omega
    have emax : Nat.max a lo = a := by simp only [Nat.max_def]; split <;> omega
    have ebs : ¬ b < start := by omega
    by_cases hx : a > re
    · -- `return None` at once
      have hd : drain ((a, b) :: t) start re = ([], (a, b) :: t, re) := by
        simp only [drain, if_neg e1, if_pos hx]
      rw [hd]
      simp only
      rw [hd]
      simp only
      have ec : ¬ Nat.max a lo < Nat.min b re := by
        rw [emax]; simp only [Nat.min_def]; split <;> omega
      have hct : cut t lo re = [] := cut_nil_of_ge t lo re (by
        intro p hp; have := hsep p hp; simp only at this; omega)
      refine ⟨by simp only [cut, if_neg ec, hct, List.append_nil], ?_⟩
      have hra : re < a := hx
      simp only [put, if_pos (show start < a by omega), ins, if_neg ebs, if_pos hra]
    · have hgt' : ∀ p ∈ t, start < p.1 ∧ b < p.1 := by
        intro p hp
        have := hsep p hp
        have := (hkt p hp).1
        simp only at *
        exact ⟨by omega, by omega⟩
      by_cases hadj : a = Nat.min re b
      · -- adjacent range: removed without a report, iteration ends
        have hare : a = re := by
          simp only [Nat.min_def] at hadj; split at hadj <;> omega
        have hd : drain ((a, b) :: t) start re = ([], t, Nat.max re b) := by
          simp only [drain, if_neg e1, if_neg hx, if_pos hadj]
        rw [hd]
        simp only
        have hM : Nat.max re b = b := by simp only [Nat.max_def]; split <;> omega
        rw [hM, drain_stop t start b hgt']
        simp only
        have ec : ¬ Nat.max a lo < Nat.min b re := by
          rw [emax]; simp only [Nat.min_def]; split <;> omega
        have hct : cut t lo re = [] := cut_nil_of_ge t lo re (by
          intro p hp; have := hsep p hp; simp only at this; omega)
        refine ⟨by simp only [cut, if_neg ec, hct, List.append_nil], ?_⟩
        have e3 : ¬ re < a := by omega
        have hm : Nat.min a start = start := by simp only [Nat.min_def]; split <;> omega
        have hM' : Nat.max b re = b := by simp only [Nat.max_def]; split <;> omega
        simp only [ins, if_neg ebs, if_neg e3, hm, hM']
        have hwf : WF ((start, b) :: t) := WF.cons (by simp only; omega) (fun p hp => by
          have := hsep p hp; simp only at *; omega) hw.tail
        rw [ins_self start b t hwf]
        cases t with
        | nil => rfl
        | cons q2 t2 =>
          obtain ⟨c, d⟩ := q2
          have := (hgt' (c, d) List.mem_cons_self).1
          simp only [put, if_pos this]
      · have hlt : a < Nat.min re b := by
          simp only [Nat.min_def] at hadj ⊢; split at hadj <;> split <;> omega
        have hd : drain ((a, b) :: t) start re =
            ((a, Nat.min re b) :: (drain t start (Nat.max re b)).1,
             (drain t start (Nat.max re b)).2.1, (drain t start (Nat.max re b)).2.2) := by
          simp only [drain, if_neg e1, if_neg hx, if_neg hadj]
        rw [hd]
        simp only
        have hsr' : start < Nat.max re b := by simp only [Nat.max_def]; split <;> omega
        obtain ⟨ih1, ih2⟩ := ih start lo (Nat.max re b) hw.tail hkt hsr'
        have hmin : Nat.min b re = Nat.min re b := by simp only [Nat.min_def]; split <;> split <;> omega
        have ec : Nat.max a lo < Nat.min b re := by rw [emax, hmin]; exact hlt
        have hcut : cut t lo (Nat.max re b) = cut t lo re := by
          by_cases hbr : b < re
          · have : Nat.max re b = re := by simp only [Nat.max_def]; split <;> omega
            rw [this]
          · have h1 : cut t lo (Nat.max re b) = [] := cut_nil_of_ge t lo _ (by
              intro p hp; have := (hgt' p hp).2
              simp only [Nat.max_def]; split <;> omega)
            have h2 : cut t lo re = [] := cut_nil_of_ge t lo re (by
              intro p hp; have := hsep p hp; simp only at this; omega)
            rw [h1, h2]
        refine ⟨?_, ?_⟩
        · simp only [cut, emax, hmin, ih1, hcut, if_pos hlt, List.cons_append, List.nil_append]
        · rw [ih2]
          have e3 : ¬ re < a := by omega
          have hm : Nat.min a start = start := by simp only [Nat.min_def]; split <;> omega
          have hM' : Nat.max b re = Nat.max re b := by simp only [Nat.max_def]; split <;> split <;> omega
          simp only [ins, if_neg ebs, if_neg e3, hm, hM']

/-- the part of `replace` after the predecessor was handled -/
def replaceFrom (s1 : RS) (start e : Nat) (pd : List (Nat × Nat)) : List (Nat × Nat) × RS :=
  (pd ++ (drain s1 start e).1,
   put (drain (drain s1 start e).2.1 start (drain s1 start e).2.2).2.1 start
       (drain (drain s1 start e).2.1 start (drain s1 start e).2.2).2.2)

theorem replace_eq (s : RS) (rs re : Nat) :
    replace s rs re = match pred s rs with
      | some (ps, pe) =>
        if pe ≥ rs then replaceFrom (del s ps) (Nat.min rs ps) (Nat.max re pe)
            (if rs ≠ Nat.min re pe then [(rs, Nat.min re pe)] else [])
        else replaceFrom s rs re []
      | none => replaceFrom s rs re [] := by
  unfold replace replaceFrom
  cases pred s rs with
  | none => rfl
  | some p =>
    obtain ⟨ps, pe⟩ := p
    simp only
    split <;> rfl

theorem drain_skip (a b : Nat) (t : RS) (start e : Nat) (h : a ≤ start) :
    drain ((a, b) :: t) start e =
      ((drain t start e).1, (a, b) :: (drain t start e).2.1, (drain t start e).2.2) := by
  simp only [drain, if_pos h]

theorem replaceFrom_skip (a b : Nat) (t : RS) (start e : Nat) (pd : List (Nat × Nat)) (h : a < start) :
    replaceFrom ((a, b) :: t) start e pd =
      ((replaceFrom t start e pd).1, (a, b) :: (replaceFrom t start e pd).2) := by
  unfold replaceFrom
  rw [drain_skip a b t start e (by omega)]
  simp only
  rw [drain_skip a b _ start _ (by omega)]
  simp only
  rw [put_skip a b _ start _ h]

theorem replaceFrom_cut (t : RS) (start lo e : Nat) (pd : List (Nat × Nat)) (hw : WF t)
    (hk : ∀ p ∈ t, start < p.1 ∧ lo ≤ p.1) (hs : start < e) :
    replaceFrom t start e pd = (pd ++ cut t lo e, ins t start e) := by
  unfold replaceFrom
  obtain ⟨h1, h2⟩ := drain_cut t start lo e hw hk hs
  rw [h1, h2]

theorem replace_skip (a b : Nat) (t : RS) (rs re : Nat) (hw : WF ((a, b) :: t)) (hb : b < rs) :
    replace ((a, b) :: t) rs re = ((replace t rs re).1, (a, b) :: (replace t rs re).2) := by
  have hab : a < b := hw.head_lt
  have hsep := hw.head_sep
  have ha : a ≤ rs := by omega
  rw [replace_eq, replace_eq t]
  cases hpt : pred t rs with
  | some r =>
    obtain ⟨c, d⟩ := r
    have hr := pred_mem t rs (c, d) hpt
    have hc : b < c := hsep (c, d) hr.1
    have hp : pred ((a, b) :: t) rs = some (c, d) := by simp only [pred, if_pos ha, hpt]
    rw [hp]
    simp only
    by_cases h1 : d ≥ rs
    · rw [if_pos h1, if_pos h1, del_cons_ne a b c t (by omega)]
      have hm : Nat.min rs c = c := by simp only [Nat.min_def]; have := hr.2; simp only at this; split <;> omega
      rw [hm]
      exact replaceFrom_skip a b _ c _ _ (by omega)
    · rw [if_neg h1, if_neg h1]
      exact replaceFrom_skip a b _ rs _ _ (by omega)
  | none =>
    have hp : pred ((a, b) :: t) rs = some (a, b) := by simp only [pred, if_pos ha, hpt]
    rw [hp]
    simp only
    rw [if_neg (by omega)]
    exact replaceFrom_skip a b _ rs _ _ (by omega)

/-- on a well-formed set `replace(rs..re)` reports `s ∩ [rs, re)` and leaves `s ∪ [rs, re)` -/
theorem replace_eq_cut_ins (s : RS) : ∀ (rs re : Nat), WF s → rs < re →
    replace s rs re = (cut s rs re, ins s rs re) := by
  induction s with
  | nil =>
    intro rs re _ h
    rw [replace_eq]
    simp only [pred]
    exact replaceFrom_cut [] rs rs re [] WF_nil (by simp) h
  | cons q t ih =>
    obtain ⟨a, b⟩ := q
    intro rs re hw h
    have hab : a < b := hw.head_lt
    have hsep := hw.head_sep
    by_cases hb : b < rs
    · rw [replace_skip a b t rs re hw hb, ih rs re hw.tail h]
      have ec : ¬ Nat.max a rs < Nat.min b re := by
        simp only [Nat.max_def, Nat.min_def]; split <;> split <;> omega
      simp only [cut, if_neg ec, List.nil_append, ins, if_pos hb]
    · by_cases ha : a ≤ rs
      · -- (a, b) is the predecessor and touches the new range
        have hpt : pred t rs = none := pred_none_of_gt _ _ (by
          intro p hp; have := hsep p hp; simp only at this; omega)
        have hp : pred ((a, b) :: t) rs = some (a, b) := by simp only [pred, if_pos ha, hpt]
        rw [replace_eq, hp]
        simp only
        rw [if_pos (by omega), del_head a b t (by intro p hp; have := hsep p hp; simp only at this; omega)]
        have hm : Nat.min rs a = a := by simp only [Nat.min_def]; split <;> omega
        rw [hm]
        have hk : ∀ p ∈ t, a < p.1 ∧ rs ≤ p.1 := by
          intro p hp; have := hsep p hp; simp only at this; exact ⟨by omega, by omega⟩
        rw [replaceFrom_cut t a rs (Nat.max re b) _ hw.tail hk (by simp only [Nat.max_def]; split <;> omega)]
        have hcut : cut t rs (Nat.max re b) = cut t rs re := by
          by_cases hbr : b < re
          · have : Nat.max re b = re := by simp only [Nat.max_def]; split <;> omega
            rw [this]
          · have h1 : cut t rs (Nat.max re b) = [] := cut_nil_of_ge t rs _ (by
              intro p hp; have := hsep p hp; simp only at this
              simp only [Nat.max_def]; split <;> omega)
            have h2 : cut t rs re = [] := cut_nil_of_ge t rs re (by
              intro p hp; have := hsep p hp; simp only at this; omega)
            rw [h1, h2]
        have emax : Nat.max a rs = rs := by simp only [Nat.max_def]; split <;> omega
        have hmin : Nat.min b re = Nat.min re b := by simp only [Nat.min_def]; split <;> split <;> omega
        have e3 : ¬ re < a := by omega
        have hm2 : Nat.min a rs = a := by simp only [Nat.min_def]; split <;> omega
        have hM : Nat.max b re = Nat.max re b := by simp only [Nat.max_def]; split <;> split <;> omega
        simp only [cut, ins, if_neg hb, if_neg e3, emax, hmin, hm2, hM, hcut]
        congr 1
        by_cases hne : rs ≠ Nat.min re b
        · have : rs < Nat.min re b := by
            simp only [Nat.min_def] at hne ⊢; split at hne <;> split <;> omega
          rw [if_pos hne, if_pos this]
        · have : ¬ rs < Nat.min re b := by omega
          rw [if_neg hne, if_neg this]
      · -- no predecessor reaches the new range
        have hp : pred ((a, b) :: t) rs = none := pred_none_of_gt _ _ (by
          intro p hp
          rcases List.mem_cons.mp hp with e | e
          · subst e; simp only; omega
          · have := hsep p e; simp only at this; omega)
        rw [replace_eq, hp]
        simp only
        have hk : ∀ p ∈ (a, b) :: t, rs < p.1 ∧ rs ≤ p.1 := by
          intro p hp
          rcases List.mem_cons.mp hp with e | e
          · subst e; simp only; omega
          · have := hsep p e; simp only at this; exact ⟨by omega, by omega⟩
        rw [replaceFrom_cut _ rs rs re [] hw hk h]
        simp only [List.nil_append]

theorem replace_WF (s : RS) (rs re : Nat) (hw : WF s) (h : rs < re) : WF (replace s rs re).2 := by
  rw [replace_eq_cut_ins s rs re hw h]; exact ins_WF s rs re hw h

theorem replace_mem (s : RS) (rs re x : Nat) (hw : WF s) (h : rs < re) :
    mem x (replace s rs re).2 ↔ mem x s ∨ (rs ≤ x ∧ x < re) := by
  rw [replace_eq_cut_ins s rs re hw h]; exact ins_mem s rs re x hw.2 h

/-- `dups` lists, in ascending order, exactly the parts of `[lo, hi)` that belong to `s` -/
def DupsOK (s : RS) : List (Nat × Nat) → Nat → Nat → Prop
  | [], lo, hi => ∀ x, lo ≤ x → x < hi → ¬ mem x s
  | (ds, de) :: t, lo, hi => lo ≤ ds ∧ ds < de ∧ de ≤ hi ∧ (∀ x, lo ≤ x → x < ds → ¬ mem x s) ∧
      (∀ x, ds ≤ x → x < de → mem x s) ∧ DupsOK s t de hi

theorem DupsOK_congr (s s' : RS) (d : List (Nat × Nat)) : ∀ (lo hi : Nat),
    (∀ x, lo ≤ x → (mem x s ↔ mem x s')) → DupsOK s d lo hi → DupsOK s' d lo hi := by
  induction d with
  | nil =>
    intro lo hi hc h x h1 h2 hm
    exact h x h1 h2 ((hc x h1).mpr hm)
  | cons q t ih =>
    obtain ⟨ds, de⟩ := q
    intro lo hi hc h
    obtain ⟨h1, h2, h3, h4, h5, h6⟩ := h
    refine ⟨h1, h2, h3, ?_, ?_, ?_⟩
    · intro x hx1 hx2 hm; exact h4 x hx1 hx2 ((hc x hx1).mpr hm)
    · intro x hx1 hx2; exact (hc x (by omega)).mp (h5 x hx1 hx2)
    · exact ih de hi (fun x hx => hc x (by omega)) h6

theorem not_mem_of_lt (s : RS) (x : Nat) (h : ∀ p ∈ s, x < p.1) : ¬ mem x s := by
  rintro ⟨p, hp, h1, _⟩
  have := h p hp; omega

theorem cut_DupsOK (s : RS) : ∀ (lo hi : Nat), WF s → lo ≤ hi → DupsOK s (cut s lo hi) lo hi := by
  induction s with
  | nil => intro lo hi _ _ x _ _; exact mem_nil x
  | cons q t ih =>
    obtain ⟨a, b⟩ := q
    intro lo hi hw hle
    have hab : a < b := hw.head_lt
    have hsep := hw.head_sep
    by_cases h1 : b ≤ lo
    · have ec : ¬ Nat.max a lo < Nat.min b hi := by
        simp only [Nat.max_def, Nat.min_def]; split <;> split <;> omega
      simp only [cut, if_neg ec, List.nil_append]
      apply DupsOK_congr t _ _ lo hi _ (ih lo hi hw.tail hle)
      intro x hx
      rw [mem_cons]
      simp only
      constructor
      · exact Or.inr
      · rintro (h | h)
        · omega
        · exact h
    · by_cases h2 : hi ≤ a
      · have ec : ¬ Nat.max a lo < Nat.min b hi := by
          simp only [Nat.max_def, Nat.min_def]; split <;> split <;> omega
        have hct : cut t lo hi = [] := cut_nil_of_ge t lo hi (by
          intro p hp; have := hsep p hp; simp only at this; omega)
        simp only [cut, if_neg ec, List.nil_append, hct]
        intro x _ hx2
        apply not_mem_of_lt
        intro p hp
        rcases List.mem_cons.mp hp with e | e
        · subst e; simp only; omega
        · have := hsep p e; simp only at this; omega
      · by_cases h3 : lo = hi
        · subst h3
          have ec : ¬ Nat.max a lo < Nat.min b lo := by
            simp only [Nat.max_def, Nat.min_def]; split <;> (try split) <;> omega
          have hct : cut t lo lo = [] := cut_nil_of_ge t lo lo (by
            intro p hp; have := hsep p hp; simp only at this; omega)
          simp only [cut, if_neg ec, List.nil_append, hct]
          intro x hx1 hx2; omega
        · have ec : Nat.max a lo < Nat.min b hi := by
            simp only [Nat.max_def, Nat.min_def]; split <;> split <;> omega
          simp only [cut, if_pos ec, List.cons_append, List.nil_append]
          refine ⟨by simp only [Nat.max_def]; split <;> omega, ec,
            by simp only [Nat.min_def]; split <;> omega, ?_, ?_, ?_⟩
          · intro x hx1 hx2
            apply not_mem_of_lt
            intro p hp
            simp only [Nat.max_def] at hx2
            rcases List.mem_cons.mp hp with e | e
            · subst e; simp only; split at hx2 <;> omega
            · have := hsep p e; simp only at this; split at hx2 <;> omega
          · intro x hx1 hx2
            refine ⟨(a, b), List.mem_cons_self, ?_, ?_⟩
            · simp only [Nat.max_def] at hx1; simp only; split at hx1 <;> omega
            · simp only [Nat.min_def] at hx2; simp only; split at hx2 <;> omega
          · by_cases hbh : b < hi
            · have hm : Nat.min b hi = b := by simp only [Nat.min_def]; split <;> omega
              rw [hm, cut_lo t lo b hi (by intro p hp; have := hsep p hp; simp only at this; omega) (by omega)]
              apply DupsOK_congr t _ _ b hi _ (ih b hi hw.tail (by omega))
              intro x hx
              rw [mem_cons]
              simp only
              constructor
              · exact Or.inr
              · rintro (h | h)
                · omega
                · exact h
            · have hm : Nat.min b hi = hi := by simp only [Nat.min_def]; split <;> omega
              have hct : cut t lo hi = [] := cut_nil_of_ge t lo hi (by
                intro p hp; have := hsep p hp; simp only at this; omega)
              rw [hm, hct]
              intro x hx1 hx2; omega

/-- on a well-formed set the consumer of `replace(rs..re)` sees exactly `s ∩ [rs, re)` -/
theorem replace_dups (s : RS) (rs re : Nat) (hw : WF s) (h : rs < re) :
    DupsOK s (replace s rs re).1 rs re := by
  rw [replace_eq_cut_ins s rs re hw h]; exact cut_DupsOK s rs re hw (by omega)

/-! ### an empty range inside or right after a received range leaves the set alone -/

theorem WF_tri (s : RS) (hw : WF s) : ∀ p ∈ s, ∀ q ∈ s, p = q ∨ p.2 < q.1 ∨ q.2 < p.1 := by
  induction s with
  | nil => intro p hp; simp at hp
  | cons h t ih =>
    intro p hp q hq
    rcases List.mem_cons.mp hp with e1 | e1 <;> rcases List.mem_cons.mp hq with e2 | e2
    · left; rw [e1, e2]
    · subst e1; right; left; exact hw.head_sep q e2
    · subst e2; right; right; exact hw.head_sep p e1
    · exact ih hw.tail p e1 q e2

theorem drain_noop (t : RS) (start e : Nat) (hk : ∀ p ∈ t, p.1 ≤ start ∨ e < p.1) :
    drain t start e = ([], t, e) := by
  induction t with
  | nil => rfl
  | cons q t ih =>
    obtain ⟨a, b⟩ := q
    by_cases ha : a ≤ start
    · rw [drain_skip a b t start e ha, ih (fun p hp => hk p (List.mem_cons_of_mem _ hp))]
    · have := hk (a, b) List.mem_cons_self
      have hx : a > e := by simp only at this; omega
      simp only [drain, if_neg ha, if_pos hx]

theorem put_del (s : RS) (ps pe : Nat) (hw : WF s) (hm : (ps, pe) ∈ s) : put (del s ps) ps pe = s := by
  induction s with
  | nil => simp at hm
  | cons q t ih =>
    obtain ⟨a, b⟩ := q
    have hsep := hw.head_sep
    have hab : a < b := hw.head_lt
    rcases List.mem_cons.mp hm with e | e
    · simp only [Prod.mk.injEq] at e
      obtain ⟨rfl, rfl⟩ := e
      rw [del_head ps pe t (by intro p hp; have := hsep p hp; simp only at this; omega)]
      cases t with
      | nil => rfl
      | cons q2 t2 =>
        obtain ⟨c, d⟩ := q2
        have : ps < c := by have := hsep (c, d) List.mem_cons_self; simp only at this; omega
        simp only [put, if_pos this]
    · have h1 : b < ps := hsep (ps, pe) e
      rw [del_cons_ne a b ps t (by omega), put_skip a b _ ps pe (by omega), ih hw.tail e]

theorem replace_empty_inside (s : RS) (o ps pe : Nat) (hw : WF s) (hp : pred s o = some (ps, pe))
    (hge : pe ≥ o) : replace s o o = ([], s) := by
  have hm := pred_mem s o (ps, pe) hp
  have hlt : ps < pe := hw.2 (ps, pe) hm.1
  rw [replace_eq, hp]
  simp only
  rw [if_pos hge]
  have e1 : Nat.min o ps = ps := by simp only [Nat.min_def]; have := hm.2; simp only at this; split <;> omega
  have e2 : Nat.max o pe = pe := by simp only [Nat.max_def]; split <;> omega
  have e3 : ¬ (o ≠ Nat.min o pe) := by simp only [Nat.min_def]; split <;> omega
  rw [e1, e2, if_neg e3]
  have hk : ∀ p ∈ del s ps, p.1 ≤ ps ∨ pe < p.1 := by
    intro p hpd
    have hps : p ∈ s := (List.mem_filter.mp hpd).1
    have hne : p.1 ≠ ps := by
      have := (List.mem_filter.mp hpd).2
      simpa using this
    rcases WF_tri s hw p hps (ps, pe) hm.1 with h | h | h
    · rw [h] at hne; exact absurd rfl hne
    · left; have := hw.2 p hps; simp only at h; omega
    · right; exact h
  unfold replaceFrom
  rw [drain_noop _ ps pe hk]
  simp only
  rw [drain_noop _ ps pe hk]
  simp only [List.nil_append]
  rw [put_del s ps pe hw hm.1]

end QM.RangeSet
