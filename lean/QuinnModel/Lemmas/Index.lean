import QuinnModel.Lemmas.IndexOps
/-
C09 lemmas over histories: `Sound` along every run, routing correctness and completeness, nothing stale
after `Drained`, slot reuse.
-/
namespace QM.Index

/-! ### side conditions on histories -/

/-- `P` holds of every call of a history at the state in which it is made -/
def Along (P : State → Op → Prop) : State → List Op → Prop
  | _, [] => True
  | s, op :: ops => P s op ∧ match step s op with
    | some s' => Along P s' ops
    | none => True

theorem along_mono {P Q : State → Op → Prop} (hpq : ∀ s op, P s op → Q s op) :
    ∀ {s : State} {ops : List Op}, Along P s ops → Along Q s ops := by
  intro s ops
  induction ops generalizing s with
  | nil => intro _; trivial
  | cons op ops ih =>
    intro h
    refine ⟨hpq _ _ h.1, ?_⟩
    have h2 := h.2
    split
    · rename_i s' hs'; rw [hs'] at h2; exact ih h2
    · trivial

/-- an invariant preserved by every permitted call holds after every permitted history -/
theorem inv_runFrom {P : State → Op → Prop} {Inv : State → Prop}
    (hstep : ∀ s op s', Inv s → P s op → step s op = some s' → Inv s') :
    ∀ {ops : List Op} {s0 s : State}, Inv s0 → Along P s0 ops → runFrom s0 ops = some s → Inv s := by
  intro ops
  induction ops with
  | nil =>
    intro s0 s h0 _ hr
    simp only [runFrom, Option.some.injEq] at hr; subst hr; exact h0
  | cons op ops ih =>
    intro s0 s h0 hal hr
    unfold runFrom at hr
    split at hr
    · simp at hr
    · rename_i s1 hs1
      have h2 := hal.2
      rw [hs1] at h2
      exact ih (hstep _ _ _ h0 hal.1 hs1) h2 hr

/-! ### `Sound` along histories -/

theorem sound_step {s s' : State} {op : Op} (hs : Sound s) (h : step s op = some s') : Sound s' := by
  cases op with
  | connect r i t c =>
    simp only [step, Option.map_eq_some_iff] at h
    obtain ⟨⟨s1, res⟩, h1, rfl⟩ := h
    exact sound_connect hs h1
  | first a d b =>
    simp only [step, Option.map_eq_some_iff] at h
    obtain ⟨⟨s1, res⟩, h1, rfl⟩ := h
    exact sound_firstPacket hs h1
  | accept i m c =>
    simp only [step, Option.map_eq_some_iff] at h
    obtain ⟨⟨s1, res⟩, h1, rfl⟩ := h
    exact sound_accept hs h1
  | cleanUp i => exact sound_cleanUp hs h
  | refuse i c => exact sound_refuse hs h
  | event ch c ev =>
    simp only [step, Option.map_eq_some_iff] at h
    obtain ⟨⟨s1, res⟩, h1, rfl⟩ := h
    cases ev with
    | needIdentifiers n =>
      simp only [handleEvent] at h1
      split at h1
      · simp at h1
      · rename_i s2 ids c2 hsend
        simp only [Option.some.injEq, Prod.mk.injEq] at h1; obtain ⟨rfl, -⟩ := h1
        exact sound_sendNewIdentifiers n hs hsend
    | resetToken remote token =>
      simp only [handleEvent, Option.map_eq_some_iff] at h1
      obtain ⟨s2, h2, h3⟩ := h1
      simp only [Prod.mk.injEq] at h3; obtain ⟨rfl, -⟩ := h3
      exact sound_resetToken hs h2
    | retireConnectionId seq allow => exact sound_retire hs h1
    | drained =>
      simp only [handleEvent, Option.map_eq_some_iff] at h1
      obtain ⟨s2, h2, h3⟩ := h1
      simp only [Prod.mk.injEq] at h3; obtain ⟨rfl, -⟩ := h3
      exact sound_drained hs h2

theorem along_true (s : State) (ops : List Op) : Along (fun _ _ => True) s ops := by
  induction ops generalizing s with
  | nil => trivial
  | cons op ops ih => exact ⟨trivial, by split <;> first | exact ih _ | trivial⟩

theorem sound_runFrom {ops : List Op} {s0 s : State} (h0 : Sound s0) (hr : runFrom s0 ops = some s) : Sound s :=
  inv_runFrom (P := fun _ _ => True) (fun _ _ _ hs _ h => sound_step hs h) h0 (along_true _ _) hr

theorem sound_run {cidLen : Nat} {pref : Bool} {ops : List Op} {s : State}
    (hr : run cidLen pref ops = some s) : Sound s :=
  sound_runFrom (sound_init cidLen pref) hr

/-! ### routing -/

/-- the datagram is addressed to the connection described by `m` -/
def Owns (m : Meta) (a : FourTuple) (d : Dgram) : Prop :=
  (d.dstCid ≠ [] ∧ ∃ q, alookup q m.locCids = some d.dstCid) ∨
  (d.initialOr0rtt = true ∧ d.dstCid ≠ [] ∧ m.side = .server ∧ m.initCid = d.dstCid) ∨
  (d.dstCid = [] ∧ m.side = .server ∧ m.addresses = a) ∨
  (d.dstCid = [] ∧ m.side = .client ∧ m.addresses.remote = a.remote) ∨
  (Gen.cidxResetTokenSize ≤ d.data.length ∧
    m.resetToken = some (a.remote, d.data.drop (d.data.length - Gen.cidxResetTokenSize)))

theorem route_conn_owns {s : State} (hs : Sound s) {a : FourTuple} {d : Dgram} {h : Nat}
    (hr : route s a d = some (.connection h)) : ∃ m, s.conns.get h = some m ∧ Owns m a d := by
  unfold route Index.get at hr
  split at hr
  · rename_i ch h1
    simp only [Option.some.injEq, RouteTo.connection.injEq] at hr; subst hr
    split at h1
    · rename_i hne
      obtain ⟨m, q, g1, g2⟩ := hs.ids_sound _ _ h1
      exact ⟨m, g1, Or.inl ⟨by simpa using hne, q, g2⟩⟩
    · simp at h1
  · split at hr
    · rename_i r h2
      simp only [Option.some.injEq] at hr; subst hr
      split at h2
      · rename_i hk
        obtain ⟨m, g1, g2, g3⟩ := hs.init_conn _ _ h2
        have hne : d.dstCid ≠ [] := by
          intro e; rw [e, hs.init_nonempty] at h2; cases h2
        exact ⟨m, g1, Or.inr (Or.inl ⟨hk, hne, g2, g3⟩)⟩
      · simp at h2
    · split at hr
      · rename_i ch h3
        simp only [Option.some.injEq, RouteTo.connection.injEq] at hr; subst hr
        split at h3
        · rename_i he
          obtain ⟨m, g1, g2, g3⟩ := hs.in_sound _ _ h3
          exact ⟨m, g1, Or.inr (Or.inr (Or.inl ⟨by simpa using he, g2, g3⟩))⟩
        · simp at h3
      · split at hr
        · rename_i ch h4
          simp only [Option.some.injEq, RouteTo.connection.injEq] at hr; subst hr
          split at h4
          · rename_i he
            obtain ⟨m, g1, g2, g3⟩ := hs.out_sound _ _ h4
            exact ⟨m, g1, Or.inr (Or.inr (Or.inr (Or.inl ⟨by simpa using he, g2, g3⟩)))⟩
          · simp at h4
        · split at hr
          · simp at hr
          · rename_i hlen
            split at hr
            · rename_i ch h5
              simp only [Option.some.injEq, RouteTo.connection.injEq] at hr; subst hr
              obtain ⟨m, g1, g2⟩ := hs.tok_sound _ _ h5
              exact ⟨m, g1, Or.inr (Or.inr (Or.inr (Or.inr ⟨Nat.le_of_not_lt hlen, g2⟩)))⟩
            · simp at hr

theorem route_incoming_pending {s : State} (hs : Sound s) {a : FourTuple} {d : Dgram} {i : Nat}
    (hr : route s a d = some (.incoming i)) :
    d.initialOr0rtt = true ∧ ∃ p, s.incoming.get i = some p ∧ p.dcid = d.dstCid := by
  unfold route Index.get at hr
  split at hr
  · simp at hr
  · split at hr
    · rename_i r h2
      simp only [Option.some.injEq] at hr; subst hr
      split at h2
      · rename_i hk; exact ⟨hk, hs.init_inc _ _ h2⟩
      · simp at h2
    · split at hr
      · simp at hr
      · split at hr
        · simp at hr
        · split at hr
          · simp at hr
          · split at hr <;> simp at hr

/-- a datagram carrying a CID that a live connection was issued and has not retired reaches it, whatever
    its source address, packet type and payload -/
theorem route_issued_cid {s : State} (hs : Sound s) {h q : Nat} {m : Meta} {c : Cid}
    (hm : s.conns.get h = some m) (hq : alookup q m.locCids = some c) (hne : c ≠ [])
    (a : FourTuple) (k : Bool) (data : Bytes) : route s a ⟨k, c, data⟩ = some (.connection h) := by
  have := hs.ids_complete h m q c hm hq hne
  have he : c.isEmpty = false := by simpa using hne
  unfold route Index.get
  simp [he, this]

/-! ### nothing stale -/

/-- some table mentions handle `h` -/
def Mentions (s : State) (h : Nat) : Prop :=
  (∃ d, alookup d s.index.idsInitial = some (.connection h)) ∨ (∃ c, alookup c s.index.ids = some h) ∨
  (∃ a, alookup a s.index.inRemotes = some h) ∨ (∃ r, alookup r s.index.outRemotes = some h) ∨
  (∃ k, alookup k s.index.tokens = some h)

theorem not_mentions_of_vacant {s : State} (hs : Sound s) {h : Nat} (hv : s.conns.get h = none) :
    ¬ Mentions s h := by
  intro hm
  rcases hm with ⟨d, e⟩ | ⟨c, e⟩ | ⟨a, e⟩ | ⟨r, e⟩ | ⟨k, e⟩
  · obtain ⟨m, g, _⟩ := hs.init_conn _ _ e; rw [hv] at g; cases g
  · obtain ⟨m, q, g, _⟩ := hs.ids_sound _ _ e; rw [hv] at g; cases g
  · obtain ⟨m, g, _⟩ := hs.in_sound _ _ e; rw [hv] at g; cases g
  · obtain ⟨m, g, _⟩ := hs.out_sound _ _ e; rw [hv] at g; cases g
  · obtain ⟨m, g, _⟩ := hs.tok_sound _ _ e; rw [hv] at g; cases g

theorem drained_vacates {s s' : State} {ch : Nat} (h : evDrained s ch = some s') :
    s'.conns.get ch = none ∧ (∀ m, s.conns.get ch = some m → s'.conns.next = ch) := by
  unfold evDrained at h
  split at h
  · rename_i conn conns htr
    split at h
    · simp at h
    · simp only [Option.some.injEq] at h; subst h
      refine ⟨(Slab.tryRemove_some htr).2.1, ?_⟩
      intro m _
      unfold Slab.tryRemove at htr
      split at htr
      · simp only [Prod.mk.injEq] at htr; rw [← htr.2]
      · simp at htr
  · rename_i htr
    simp only [Option.some.injEq] at h; subst h
    have := (Slab.tryRemove_none (by rw [htr])).2
    exact ⟨this, fun m hm => by rw [this] at hm; cases hm⟩

theorem no_stale_after_drained {s s' : State} {ch : Nat} (hs : Sound s) (h : evDrained s ch = some s') :
    ¬ Mentions s' ch :=
  not_mentions_of_vacant (sound_drained hs h) (drained_vacates h).1

end QM.Index
