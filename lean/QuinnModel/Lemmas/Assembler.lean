import QuinnModel.Data.Assembler
import QuinnModel.Lemmas.RangeSet
/-
`Assembler` under the consistency hypothesis "every inserted frame carries the bytes of the ground
stream `g` at its offset". Runs are lists of calls together with the implementation's observed
choices; a run stops (`none`) when a choice is not allowed by the model or the code panics, so the
theorems speak about every behaviour the correspondence check accepts.
-/
namespace QM.Assembler
open QM QM.RangeSet

/-! ### the ground stream -/

/-- `n` bytes of the stream `g` starting at offset `a` -/
def stream (g : Nat → Nat) : Nat → Nat → Bytes
  | _, 0 => []
  | a, n + 1 => g a :: stream g (a + 1) n

theorem stream_length (g : Nat → Nat) (n : Nat) : ∀ a, (stream g a n).length = n := by
  induction n with
  | zero => intro a; rfl
  | succ n ih => intro a; simp [stream, ih]

theorem stream_append (g : Nat → Nat) (n m : Nat) : ∀ a, stream g a n ++ stream g (a + n) m = stream g a (n + m) := by
  induction n with
  | zero => intro a; simp [stream]
  | succ n ih =>
    intro a
    have e : n + 1 + m = (n + m) + 1 := by omega
    rw [e]
    simp only [stream, List.cons_append]
    have := ih (a + 1)
    rw [show a + 1 + n = a + (n + 1) by omega] at this
    rw [this]

theorem stream_getElem? (g : Nat → Nat) (n : Nat) : ∀ a i, i < n → (stream g a n)[i]? = some (g (a + i)) := by
  induction n with
  | zero => intro a i h; omega
  | succ n ih =>
    intro a i h
    cases i with
    | zero => simp [stream]
    | succ i =>
      simp only [stream, List.getElem?_cons_succ]
      rw [ih (a + 1) i (by omega)]
      congr 2; omega

theorem stream_drop (g : Nat → Nat) (n : Nat) : ∀ a k, (stream g a n).drop k = stream g (a + k) (n - k) := by
  induction n with
  | zero => intro a k; simp [stream]
  | succ n ih =>
    intro a k
    cases k with
    | zero => simp
    | succ k =>
      simp only [stream, List.drop_succ_cons]
      rw [ih (a + 1) k]
      have e1 : a + 1 + k = a + (k + 1) := by omega
      have e2 : n + 1 - (k + 1) = n - k := by omega
      rw [e1, e2]

theorem stream_take (g : Nat → Nat) (n : Nat) : ∀ a k, k ≤ n → (stream g a n).take k = stream g a k := by
  induction n with
  | zero => intro a k h; have : k = 0 := by omega
            subst this; simp [stream]
  | succ n ih =>
    intro a k h
    cases k with
    | zero => simp [stream]
    | succ k =>
      simp only [stream, List.take_succ_cons]
      rw [ih (a + 1) k (by omega)]

/-- every buffered chunk carries ground-stream bytes -/
def Cons (g : Nat → Nat) (d : List (Nat × Bytes)) : Prop := ∀ c ∈ d, c.2 = stream g c.1 c.2.length

theorem lookup_cons (g : Nat → Nat) (d : List (Nat × Bytes)) (hc : Cons g d) (x v : Nat)
    (h : lookup d x = some v) : v = g x := by
  induction d with
  | nil => simp [lookup] at h
  | cons c t ih =>
    obtain ⟨o, b⟩ := c
    unfold lookup at h
    split at h
    · rename_i hin
      have hb := hc (o, b) List.mem_cons_self
      simp only at hb
      rw [hb, stream_getElem? g b.length o (x - o) (by omega)] at h
      simp only [Option.some.injEq] at h
      rw [← h]; congr 1; omega
    · exact ih (fun c hc' => hc c (List.mem_cons_of_mem _ hc')) h

theorem readBytes_cons (g : Nat → Nat) (d : List (Nat × Bytes)) (hc : Cons g d) (n : Nat) :
    ∀ off bs, readBytes d off n = some bs → bs = stream g off n := by
  induction n with
  | zero => intro off bs h; simp [readBytes] at h; subst h; rfl
  | succ n ih =>
    intro off bs h
    unfold readBytes at h
    split at h
    · rename_i v r hv hr
      cases h
      rw [lookup_cons g d hc off v hv, ih (off + 1) r hr]
      rfl
    · cases h

/-! ### coverage helpers -/

theorem covers_mem (s : RS) (a b : Nat) (h : covers s a b = true) :
    ∀ x, a ≤ x → x < b → mem x s := by
  intro x h1 h2
  simp only [covers, List.any_eq_true, Bool.and_eq_true, decide_eq_true_eq] at h
  obtain ⟨p, hp, ⟨hp1, hp2⟩, _⟩ := h
  exact ⟨p, hp, by omega, by omega⟩

theorem covers_mem_start (s : RS) (a b : Nat) (h : covers s a b = true) : mem a s := by
  simp only [covers, List.any_eq_true, Bool.and_eq_true, decide_eq_true_eq] at h
  obtain ⟨p, hp, ⟨hp1, _⟩, hp3⟩ := h
  exact ⟨p, hp, hp1, hp3⟩

theorem not_covers_self (s : RS) (a : Nat) (h : covers s a a = false) : ¬ mem a s := by
  rintro ⟨p, hp, h1, h2⟩
  have : covers s a a = true := by
    simp only [covers, List.any_eq_true, Bool.and_eq_true, decide_eq_true_eq]
    exact ⟨p, hp, ⟨h1, by omega⟩, h2⟩
  rw [h] at this; cases this

theorem clipFrom_mem (s : RS) (r x : Nat) : mem x (clipFrom s r) ↔ mem x s ∧ r ≤ x := by
  unfold mem clipFrom
  constructor
  · rintro ⟨q, hq, h1, h2⟩
    obtain ⟨p, hp, hpq⟩ := List.mem_filterMap.mp hq
    split at hpq
    · cases hpq
      simp only [Nat.max_def] at h1 h2
      refine ⟨⟨p, hp, ?_, h2⟩, ?_⟩ <;> (split at h1 <;> omega)
    · cases hpq
  · rintro ⟨⟨p, hp, h1, h2⟩, h3⟩
    refine ⟨(Nat.max p.1 r, p.2), List.mem_filterMap.mpr ⟨p, hp, ?_⟩, ?_, h2⟩
    · rw [if_pos (by omega)]
    · simp only [Nat.max_def]; split <;> omega

theorem clipFrom_lower (s : RS) (r lb : Nat) (h : ∀ p ∈ s, lb < p.1) : ∀ p ∈ clipFrom s r, lb < p.1 := by
  intro q hq
  obtain ⟨p, hp, hpq⟩ := List.mem_filterMap.mp hq
  split at hpq
  · cases hpq
    have := h p hp
    simp only [Nat.max_def]; split <;> omega
  · cases hpq

theorem clipFrom_WF (s : RS) (r : Nat) (hw : WF s) : WF (clipFrom s r) := by
  induction s with
  | nil => exact WF_nil
  | cons q t ih =>
    obtain ⟨a, b⟩ := q
    have hab : a < b := hw.head_lt
    have hsep := hw.head_sep
    have iht := ih hw.tail
    have hlow : ∀ p ∈ clipFrom t r, b < p.1 := clipFrom_lower t r b hsep
    by_cases h : b > r
    · have e : clipFrom ((a, b) :: t) r = (Nat.max a r, b) :: clipFrom t r := by
        simp only [clipFrom, List.filterMap_cons, if_pos h]
      rw [e]
      exact WF.cons (by simp only [Nat.max_def]; split <;> omega) hlow iht
    · have e : clipFrom ((a, b) :: t) r = clipFrom t r := by
        simp only [clipFrom, List.filterMap_cons, if_neg h]
      rw [e]; exact iht

theorem removeRange_mem (s : RS) (a b x : Nat) :
    mem x (removeRange s a b) ↔ mem x s ∧ ¬ (a ≤ x ∧ x < b) := by
  induction s with
  | nil => simp [removeRange, mem_nil]
  | cons q t ih =>
    obtain ⟨p, q⟩ := q
    unfold removeRange
    by_cases hab : b ≤ a
    · rw [if_pos hab]
      constructor
      · intro h; exact ⟨h, by omega⟩
      · intro h; exact h.1
    · rw [if_neg hab, mem_append, mem_append, ih, mem_cons]
      simp only
      constructor
      · rintro ((h | h) | h)
        · split at h
          · rw [mem_cons] at h
            simp only [Nat.min_def] at h
            rcases h with h | h
            · refine ⟨Or.inl ?_, ?_⟩ <;> (split at h <;> omega)
            · exact absurd h (mem_nil x)
          · exact absurd h (mem_nil x)
        · split at h
          · rw [mem_cons] at h
            simp only [Nat.max_def] at h
            rcases h with h | h
            · refine ⟨Or.inl ?_, ?_⟩ <;> (split at h <;> omega)
            · exact absurd h (mem_nil x)
          · exact absurd h (mem_nil x)
        · exact ⟨Or.inr h.1, h.2⟩
      · rintro ⟨h1 | h1, h2⟩
        · by_cases hxa : x < a
          · left; left
            rw [if_pos (by simp only [Nat.min_def]; split <;> omega), mem_cons]
            left; simp only [Nat.min_def]; split <;> omega
          · left; right
            rw [if_pos (by simp only [Nat.max_def]; split <;> omega), mem_cons]
            left; simp only [Nat.max_def]; split <;> omega
        · exact Or.inr ⟨h1, h2⟩

theorem removeRange_lower (s : RS) (a b lb : Nat) (h : ∀ p ∈ s, lb < p.1) :
    ∀ p ∈ removeRange s a b, lb < p.1 := by
  induction s with
  | nil => intro p hp; simp [removeRange] at hp
  | cons q t ih =>
    obtain ⟨p0, q0⟩ := q
    have h0 : lb < p0 := h (p0, q0) List.mem_cons_self
    have ht : ∀ p ∈ t, lb < p.1 := fun p hp => h p (List.mem_cons_of_mem _ hp)
    intro p hp
    unfold removeRange at hp
    split at hp
    · exact h p hp
    · rcases List.mem_append.mp hp with hp | hp
      · rcases List.mem_append.mp hp with hp | hp
        · split at hp
          · simp only [List.mem_singleton] at hp; subst hp; exact h0
          · simp at hp
        · split at hp
          · simp only [List.mem_singleton] at hp; subst hp
            simp only [Nat.max_def]; split <;> omega
          · simp at hp
      · exact ih ht p hp

theorem removeRange_WF (s : RS) (a b : Nat) (hw : WF s) : WF (removeRange s a b) := by
  induction s with
  | nil => exact WF_nil
  | cons q t ih =>
    obtain ⟨p0, q0⟩ := q
    have h0 : p0 < q0 := hw.head_lt
    have hsep := hw.head_sep
    have iht := ih hw.tail
    unfold removeRange
    by_cases hab : b ≤ a
    · rw [if_pos hab]; exact hw
    · rw [if_neg hab]
      have hlow : ∀ p ∈ removeRange t a b, q0 < p.1 := removeRange_lower t a b q0 hsep
      by_cases h1 : p0 < Nat.min q0 a
      · rw [if_pos h1]
        by_cases h2 : Nat.max p0 b < q0
        · rw [if_pos h2]
          simp only [List.cons_append, List.nil_append]
          refine WF.cons h1 ?_ (WF.cons h2 hlow iht)
          intro p hp
          rcases List.mem_cons.mp hp with e | e
          · subst e; simp only [Nat.min_def, Nat.max_def] at *; split <;> split <;> omega
          · have := hlow p e; simp only [Nat.min_def]; split <;> omega
        · rw [if_neg h2]
          simp only [List.cons_append, List.nil_append, List.append_nil]
          refine WF.cons h1 ?_ iht
          intro p hp
          have := hlow p hp; simp only [Nat.min_def]; split <;> omega
      · rw [if_neg h1]
        by_cases h2 : Nat.max p0 b < q0
        · rw [if_pos h2]
          simp only [List.nil_append, List.cons_append]
          exact WF.cons h2 hlow iht
        · rw [if_neg h2]
          simp only [List.nil_append]
          exact iht

/-- `recvd` when unordered mode is entered -/
theorem fold_insert (l : RS) : ∀ (acc : RS), WF acc →
    WF (l.foldl (fun acc p => (RangeSet.insert acc p.1 p.2).1) acc) ∧
    ∀ x, mem x (l.foldl (fun acc p => (RangeSet.insert acc p.1 p.2).1) acc) ↔ mem x acc ∨ mem x l := by
  induction l with
  | nil => intro acc h; exact ⟨h, fun x => by simp [mem_nil]⟩
  | cons p t ih =>
    intro acc h
    simp only [List.foldl_cons]
    obtain ⟨h1, h2⟩ := ih (RangeSet.insert acc p.1 p.2).1 (insert_WF acc p.1 p.2 h)
    refine ⟨h1, fun x => ?_⟩
    rw [h2 x, insert_mem acc p.1 p.2 x h, mem_cons]
    constructor
    · rintro ((h | h) | h)
      · exact Or.inl h
      · exact Or.inr (Or.inl h)
      · exact Or.inr (Or.inr h)
    · rintro (h | h | h)
      · exact Or.inl (Or.inl h)
      · exact Or.inl (Or.inr h)
      · exact Or.inr h

/-! ### runs with ghost state -/

structure Sys where
  a : Asm
  /-- concatenation of everything returned by ordered reads -/
  out : Bytes
  /-- every chunk handed to the application: (ordered?, offset, bytes), latest first -/
  chunks : List (Bool × Nat × Bytes)
  /-- ranges inserted while in ordered mode since the last `clear` -/
  ins : List (Nat × Nat)

def Sys.init : Sys := ⟨{}, [], [], []⟩

inductive Op where
  | insert (off : Nat) (bytes : Bytes) (alloc : Nat) (tooMany : Bool)
  | read (max : Nat) (ordered : Bool) (obs : Obs)
  | ensure (ordered : Bool)
  | clear

/-- the frame carries ground-stream bytes -/
def Op.consistent (g : Nat → Nat) : Op → Prop
  | .insert off bytes _ _ => bytes = stream g off bytes.length
  | _ => True

/-- one call. `read` is `ensure_ordering(ordered)?; read(max, ordered)` as in `Chunks::new`/`next`.
    `none`: the observed choice is not allowed by the model, or the code panics. -/
def step (s : Sys) : Op → Option Sys
  | .insert off bytes alloc tm =>
    match insert s.a off bytes alloc tm with
    | (a', .ok) => some { s with a := a', ins := if s.a.unordered then s.ins else (off, off + bytes.length) :: s.ins }
    | (a', .tooMany) => some { s with a := a', ins := if s.a.unordered then s.ins else (off, off + bytes.length) :: s.ins }
    | (_, .panic) => none
    | (_, .invalid) => none
  | .read max ordered obs =>
    match ensureOrdering s.a ordered with
    | (a1, false) => some { s with a := a1 }
    | (a1, true) =>
      match read a1 max ordered obs with
      | (a2, .none) => some { s with a := a2 }
      | (a2, .chunk off bytes) =>
        some { s with a := a2, out := if ordered then s.out ++ bytes else s.out,
                      chunks := (ordered, off, bytes) :: s.chunks }
      | (_, .invalid) => none
  | .ensure ordered => some { s with a := (ensureOrdering s.a ordered).1 }
  | .clear => some { s with a := clear s.a, ins := [] }

def run : Sys → List Op → Option Sys
  | s, [] => some s
  | s, op :: ops => match step s op with
    | some s' => run s' ops
    | none => none

/-- the range of a delivered chunk -/
def rangeOf (c : Bool × Nat × Bytes) : Nat × Nat := (c.2.1, c.2.1 + c.2.2.length)

def disj (r q : Nat × Nat) : Prop := ∀ x, ¬ (r.1 ≤ x ∧ x < r.2 ∧ q.1 ≤ x ∧ x < q.2)

/-! ### `insert` keeps the buffered chunks consistent -/

theorem Cons_push (g : Nat → Nat) (s : Asm) (off : Nat) (bytes : Bytes) (hc : Cons g s.data)
    (hb : bytes = stream g off bytes.length) : Cons g (push s off bytes).data := by
  intro c hc'
  simp only [push] at hc'
  rcases List.mem_cons.mp hc' with e | e
  · subst e; exact hb
  · exact hc c e

theorem push_cov (s : Asm) (off : Nat) (bytes : Bytes) (hw : WF s.cov) :
    WF (push s off bytes).cov ∧
    ∀ x, mem x (push s off bytes).cov ↔ mem x s.cov ∨ (off ≤ x ∧ x < off + bytes.length) :=
  ⟨insert_WF _ _ _ hw, fun x => insert_mem _ _ _ x hw⟩

theorem take_stream (g : Nat → Nat) (off : Nat) (bytes : Bytes) (k : Nat) (hk : k ≤ bytes.length)
    (hb : bytes = stream g off bytes.length) :
    bytes.take k = stream g off (bytes.take k).length := by
  rw [List.length_take, Nat.min_eq_left hk]
  conv => lhs; rw [hb]
  exact stream_take g bytes.length off k hk

theorem drop_stream (g : Nat → Nat) (off : Nat) (bytes : Bytes) (k : Nat)
    (hb : bytes = stream g off bytes.length) :
    bytes.drop k = stream g (off + k) (bytes.drop k).length := by
  rw [List.length_drop]
  conv => lhs; rw [hb]
  exact stream_drop g bytes.length off k

theorem dupLoop_inv (g : Nat → Nat) (dups : List (Nat × Nat)) :
    ∀ (s : Asm) (off : Nat) (bytes : Bytes) (s' : Asm) (off' : Nat) (bytes' : Bytes),
      Cons g s.data → WF s.cov → bytes = stream g off bytes.length →
      dupLoop dups s off bytes = some (s', off', bytes') →
      Cons g s'.data ∧ WF s'.cov ∧ bytes' = stream g off' bytes'.length ∧
      s'.unordered = s.unordered ∧ s'.bytesRead = s.bytesRead ∧ s'.recvd = s.recvd ∧ s'.end_ = s.end_ := by
  induction dups with
  | nil =>
    intro s off bytes s' off' bytes' hc hw hb h
    simp only [dupLoop, Option.some.injEq, Prod.mk.injEq] at h
    obtain ⟨rfl, rfl, rfl⟩ := h
    exact ⟨hc, hw, hb, rfl, rfl, rfl, rfl⟩
  | cons d t ih =>
    obtain ⟨ds, de⟩ := d
    intro s off bytes s' off' bytes' hc hw hb h
    unfold dupLoop at h
    split at h
    · rename_i hgt
      split at h
      · cases h
      · split at h
        · cases h
        · split at h
          · cases h
          · rename_i h1 h2 h3
            have hp := Cons_push g s off (bytes.take (ds - off)) hc (take_stream g off bytes _ (by omega) hb)
            have hb1 := drop_stream g off bytes (ds - off) hb
            have hb2 := drop_stream g (off + (ds - off)) (bytes.drop (ds - off)) (de - ds) hb1
            have e : off + (ds - off) + (de - ds) = de := by omega
            rw [e] at hb2
            have := ih (push s off (bytes.take (ds - off))) de _ s' off' bytes' hp
              (push_cov s off _ hw).1 hb2 h
            exact this
    · split at h
      · cases h
      · split at h
        · cases h
        · rename_i h1 h2 h3
          have hb1 := drop_stream g off bytes (de - off) hb
          have e : off + (de - off) = de := by omega
          rw [e] at hb1
          exact ih s de _ s' off' bytes' hc hw hb1 h

theorem finishInsert_inv (g : Nat → Nat) (s : Asm) (off : Nat) (bytes : Bytes) (tm : Bool)
    (hc : Cons g s.data) (hw : WF s.cov) (hb : bytes = stream g off bytes.length) :
    Cons g (finishInsert s off bytes tm).1.data ∧ WF (finishInsert s off bytes tm).1.cov ∧
    (finishInsert s off bytes tm).1.unordered = s.unordered ∧
    (finishInsert s off bytes tm).1.bytesRead = s.bytesRead ∧
    (∀ x, mem x (finishInsert s off bytes tm).1.cov ↔ mem x s.cov ∨ (off ≤ x ∧ x < off + bytes.length)) := by
  unfold finishInsert
  by_cases he : bytes.isEmpty = true
  · rw [if_pos he]
    have : bytes.length = 0 := by
      cases bytes with
      | nil => rfl
      | cons _ _ => simp at he
    refine ⟨hc, hw, rfl, rfl, fun x => ?_⟩
    constructor
    · exact Or.inl
    · rintro (h | h)
      · exact h
      · omega
  · rw [if_neg he]
    have hp := Cons_push g s off bytes hc hb
    have hv := push_cov s off bytes hw
    split
    · exact ⟨hp, hv.1, rfl, rfl, hv.2⟩
    · split
      · exact ⟨hp, hv.1, rfl, rfl, hv.2⟩
      · exact ⟨hp, hv.1, rfl, rfl, hv.2⟩

/-- `insert` in any mode: consistency, coverage stays well formed, mode and read index unchanged -/
theorem insert_inv (g : Nat → Nat) (s : Asm) (off : Nat) (bytes : Bytes) (alloc : Nat) (tm : Bool)
    (hc : Cons g s.data) (hw : WF s.cov) (hb : bytes = stream g off bytes.length) :
    Cons g (insert s off bytes alloc tm).1.data ∧ WF (insert s off bytes alloc tm).1.cov ∧
    (insert s off bytes alloc tm).1.unordered = s.unordered ∧
    (insert s off bytes alloc tm).1.bytesRead = s.bytesRead := by
  unfold insert
  split
  · exact ⟨hc, hw, rfl, rfl⟩
  · split
    · exact ⟨hc, hw, rfl, rfl⟩
    · split
      · exact ⟨hc, hw, rfl, rfl⟩
      · split
        · split
          · exact ⟨hc, hw, rfl, rfl⟩
          · rename_i s1 off1 bytes1 hd
            have h1 := dupLoop_inv g _ _ off bytes s1 off1 bytes1 (by exact hc) (by exact hw) hb hd
            have h2 := finishInsert_inv g s1 off1 bytes1 tm h1.1 h1.2.1 h1.2.2.1
            exact ⟨h2.1, h2.2.1, by rw [h2.2.2.1, h1.2.2.2.1], by rw [h2.2.2.2.1, h1.2.2.2.2.1]⟩
        · split
          · split
            · exact ⟨hc, hw, rfl, rfl⟩
            · rename_i hlt hnle
              have hb1 := drop_stream g off bytes (s.bytesRead - off) hb
              have e : off + (s.bytesRead - off) = s.bytesRead := by omega
              rw [e] at hb1
              have h2 := finishInsert_inv g { s with end_ := Nat.max s.end_ (off + bytes.length) }
                s.bytesRead _ tm hc hw hb1
              exact ⟨h2.1, h2.2.1, h2.2.2.1, h2.2.2.2.1⟩
          · have h2 := finishInsert_inv g { s with end_ := Nat.max s.end_ (off + bytes.length) }
              off bytes tm hc hw hb
            exact ⟨h2.1, h2.2.1, h2.2.2.1, h2.2.2.2.1⟩

/-- an empty frame changes nothing but `end` (it returns before `recvd` is touched) -/
theorem insert_empty_frame (s : Asm) (off alloc : Nat) (tm : Bool) :
    (insert s off [] alloc tm).1.recvd = s.recvd ∧ (insert s off [] alloc tm).1.cov = s.cov ∧
    (insert s off [] alloc tm).1.data = s.data := by
  unfold insert
  split
  · exact ⟨rfl, rfl, rfl⟩
  · split
    · exact ⟨rfl, rfl, rfl⟩
    · simp

/-- `insert` in ordered mode adds exactly the part of the frame at or after the read index -/
theorem insert_ordered_cov (g : Nat → Nat) (s : Asm) (off : Nat) (bytes : Bytes) (alloc : Nat) (tm : Bool)
    (hc : Cons g s.data) (hw : WF s.cov) (hb : bytes = stream g off bytes.length)
    (ho : s.unordered = false)
    (hok : (insert s off bytes alloc tm).2 = .ok ∨ (insert s off bytes alloc tm).2 = .tooMany) :
    ∀ x, mem x (insert s off bytes alloc tm).1.cov ↔
      mem x s.cov ∨ (off ≤ x ∧ s.bytesRead ≤ x ∧ x < off + bytes.length) := by
  unfold insert at hok ⊢
  split
  · rename_i h; rw [if_pos h] at hok; simp at hok
  · rename_i h1
    rw [if_neg h1] at hok
    split
    · rename_i h; rw [if_pos h] at hok; simp at hok
    · rename_i h2
      rw [if_neg h2] at hok
      split
      · rename_i he
        have : bytes.length = 0 := by
          cases bytes with
          | nil => rfl
          | cons _ _ => simp at he
        intro x
        constructor
        · exact Or.inl
        · rintro (h | h)
          · exact h
          · omega
      · have hf : ¬ (s.unordered = true) := by rw [ho]; simp
        rw [if_neg hf]
        split
        · split
          · rename_i hlt hle
            intro x
            constructor
            · exact Or.inl
            · rintro (h | h)
              · exact h
              · omega
          · rename_i hlt hnle
            have hb1 := drop_stream g off bytes (s.bytesRead - off) hb
            have e : off + (s.bytesRead - off) = s.bytesRead := by omega
            rw [e] at hb1
            have h3 := (finishInsert_inv g { s with end_ := Nat.max s.end_ (off + bytes.length) }
              s.bytesRead _ tm hc hw hb1).2.2.2.2
            intro x
            rw [h3 x, List.length_drop]
            constructor
            · rintro (h | h)
              · exact Or.inl h
              · right; omega
            · rintro (h | h)
              · exact Or.inl h
              · right; omega
        · rename_i hnlt
          have h3 := (finishInsert_inv g { s with end_ := Nat.max s.end_ (off + bytes.length) }
            off bytes tm hc hw hb).2.2.2.2
          intro x
          rw [h3 x]
          constructor
          · rintro (h | h)
            · exact Or.inl h
            · right; omega
          · rintro (h | h)
            · exact Or.inl h
            · right; omega

/-! ### `ensure_ordering` and `read` -/

theorem ensure_spec (a : Asm) (ordered : Bool) (hw : WF a.cov) :
    (ensureOrdering a ordered).1.data = a.data ∧ WF (ensureOrdering a ordered).1.cov ∧
    (∀ x, mem x (ensureOrdering a ordered).1.cov → mem x a.cov) ∧
    (∀ x, a.bytesRead ≤ x → (mem x (ensureOrdering a ordered).1.cov ↔ mem x a.cov)) ∧
    (ensureOrdering a ordered).1.bytesRead = a.bytesRead ∧
    ((ensureOrdering a ordered).2 = true → (ensureOrdering a ordered).1.unordered = !ordered) ∧
    ((ensureOrdering a ordered).2 = false →
      (ensureOrdering a ordered).1 = a ∧ a.unordered = true ∧ ordered = true) ∧
    (a.unordered = true → (ensureOrdering a ordered).1 = a) := by
  have hclip : ∀ x, mem x (clipFrom a.cov a.bytesRead) → mem x a.cov :=
    fun x hx => ((clipFrom_mem a.cov a.bytesRead x).mp hx).1
  have hclip2 : ∀ x, a.bytesRead ≤ x → (mem x (clipFrom a.cov a.bytesRead) ↔ mem x a.cov) :=
    fun x hx => ⟨hclip x, fun h => (clipFrom_mem a.cov a.bytesRead x).mpr ⟨h, hx⟩⟩
  have hcw := clipFrom_WF a.cov a.bytesRead hw
  unfold ensureOrdering
  cases ordered <;> cases hu : a.unordered <;> simp [hu, hw] <;> exact ⟨hcw, hclip, hclip2⟩

/-- a validated ordered read -/
theorem read_ordered_spec (g : Nat → Nat) (a a2 : Asm) (max : Nat) (obs : Obs) (ro : ReadOut)
    (h : read a max true obs = (a2, ro)) (hc : Cons g a.data) (hw : WF a.cov) :
    a2.data = a.data ∧ a2.unordered = a.unordered ∧ a2.recvd = a.recvd ∧
    match ro with
    | .invalid => True
    | .none => a2 = a ∧ ¬ mem a.bytesRead a.cov
    | .chunk off bytes => off = a.bytesRead ∧ a2.bytesRead = a.bytesRead + bytes.length ∧
        bytes = stream g off bytes.length ∧ bytes.length ≤ max ∧
        (∀ x, off ≤ x → x < off + bytes.length → mem x a.cov) ∧
        WF a2.cov ∧ (∀ x, a2.bytesRead ≤ x → (mem x a2.cov ↔ mem x a.cov)) ∧ (∀ x, mem x a2.cov → mem x a.cov) := by
  unfold read at h
  cases obs with
  | none =>
    simp only [if_true] at h
    split at h
    · cases h; exact ⟨rfl, rfl, rfl, trivial⟩
    · rename_i hcov
      cases h
      exact ⟨rfl, rfl, rfl, rfl, not_covers_self a.cov a.bytesRead (by simpa using hcov)⟩
  | chunk off len =>
    simp only at h
    split at h
    · cases h; exact ⟨rfl, rfl, rfl, trivial⟩
    · rename_i hv
      split at h
      · cases h; exact ⟨rfl, rfl, rfl, trivial⟩
      · rename_i bytes hrb
        simp only [if_true] at h
        split at h
        · cases h; exact ⟨rfl, rfl, rfl, trivial⟩
        · rename_i hoff
          cases h
          have hbs := readBytes_cons g a.data hc len off bytes hrb
          have hlen : bytes.length = len := by rw [hbs, stream_length]
          have hcv : covers a.cov off (off + len) = true := by
            cases hcc : covers a.cov off (off + len) with
            | true => rfl
            | false => exfalso; apply hv; right; right; simp [hcc]
          have hmax : ¬ len > max := fun hh => hv (Or.inl hh)
          refine ⟨rfl, rfl, rfl, by omega, by simp only [hlen], by rw [hlen]; exact hbs, by omega, ?_,
            clipFrom_WF _ _ hw, ?_, ?_⟩
          · rw [hlen]; exact covers_mem a.cov off (off + len) hcv
          · intro x hx
            constructor
            · intro hm; exact ((clipFrom_mem _ _ x).mp hm).1
            · intro hm; exact (clipFrom_mem _ _ x).mpr ⟨hm, hx⟩
          · intro x hm; exact ((clipFrom_mem _ _ x).mp hm).1

/-- a validated unordered read -/
theorem read_unordered_spec (g : Nat → Nat) (a a2 : Asm) (max : Nat) (obs : Obs) (ro : ReadOut)
    (h : read a max false obs = (a2, ro)) (hc : Cons g a.data) :
    a2.data = a.data ∧ a2.unordered = a.unordered ∧ a2.recvd = a.recvd ∧
    match ro with
    | .invalid => True
    | .none => a2 = a ∧ a.cov = []
    | .chunk off bytes => a2.bytesRead = a.bytesRead + bytes.length ∧
        bytes = stream g off bytes.length ∧ bytes.length ≤ max ∧
        (∀ x, off ≤ x → x < off + bytes.length → mem x a.cov) ∧
        a2.cov = removeRange a.cov off (off + bytes.length) := by
  unfold read at h
  cases obs with
  | none =>
    simp only [Bool.false_eq_true, if_false] at h
    split at h
    · rename_i he
      cases h
      refine ⟨rfl, rfl, rfl, rfl, ?_⟩
      cases hcv : a.cov with
      | nil => rfl
      | cons _ _ => rw [hcv] at he; simp at he
    · cases h; exact ⟨rfl, rfl, rfl, trivial⟩
  | chunk off len =>
    simp only at h
    split at h
    · cases h; exact ⟨rfl, rfl, rfl, trivial⟩
    · rename_i hv
      split at h
      · cases h; exact ⟨rfl, rfl, rfl, trivial⟩
      · rename_i bytes hrb
        simp only [Bool.false_eq_true, if_false] at h
        cases h
        have hbs := readBytes_cons g a.data hc len off bytes hrb
        have hlen : bytes.length = len := by rw [hbs, stream_length]
        have hcv : covers a.cov off (off + len) = true := by
          cases hcc : covers a.cov off (off + len) with
          | true => rfl
          | false => exfalso; apply hv; right; right; simp [hcc]
        have hmax : ¬ len > max := fun hh => hv (Or.inl hh)
        refine ⟨rfl, rfl, rfl, by simp only [hlen], by rw [hlen]; exact hbs, by omega, ?_, by rw [hlen]⟩
        rw [hlen]; exact covers_mem a.cov off (off + len) hcv

/-! ### ordered mode: prefix, no loss -/

structure InvO (g : Nat → Nat) (s : Sys) : Prop where
  cons : Cons g s.a.data
  wfc : WF s.a.cov
  content : ∀ c ∈ s.chunks, c.2.2 = stream g c.2.1 c.2.2.length
  out_eq : s.out = stream g 0 s.out.length
  out_len : s.a.unordered = false → s.out.length = s.a.bytesRead
  noloss : s.a.unordered = false → ∀ x, mem x s.ins → s.a.bytesRead ≤ x → mem x s.a.cov

theorem invO_init (g : Nat → Nat) : InvO g Sys.init :=
  ⟨by intro c hc; simp [Sys.init] at hc, WF_nil, by intro c hc; simp [Sys.init] at hc, rfl, fun _ => rfl,
   by intro _ x hx; exact absurd hx (mem_nil x)⟩

theorem clear_invO (g : Nat → Nat) (s : Sys) (h : InvO g s) : InvO g { s with a := clear s.a, ins := [] } :=
  ⟨by intro c hc; simp [clear] at hc, WF_nil, h.content, h.out_eq, h.out_len,
   by intro _ x hx; exact absurd hx (mem_nil x)⟩

theorem ensure_invO (g : Nat → Nat) (s : Sys) (h : InvO g s) (ordered : Bool) :
    InvO g { s with a := (ensureOrdering s.a ordered).1 } := by
  obtain ⟨e1, e2, e3, e4, e5, e6, e7, e8⟩ := ensure_spec s.a ordered h.wfc
  have hmode : (ensureOrdering s.a ordered).1.unordered = false → s.a.unordered = false := by
    intro hu
    cases hs : s.a.unordered with
    | false => rfl
    | true => rw [e8 hs] at hu; rw [hs] at hu; cases hu
  refine ⟨by show Cons g (ensureOrdering s.a ordered).1.data; rw [e1]; exact h.cons, e2, h.content, h.out_eq, ?_, ?_⟩
  · intro hu
    show s.out.length = (ensureOrdering s.a ordered).1.bytesRead
    rw [e5]
    exact h.out_len (hmode hu)
  · intro hu x hx hr
    have hr' : s.a.bytesRead ≤ x := by
      have : (ensureOrdering s.a ordered).1.bytesRead ≤ x := hr
      rw [e5] at this; exact this
    show mem x (ensureOrdering s.a ordered).1.cov
    rw [e4 x hr']
    exact h.noloss (hmode hu) x hx hr'

theorem step_invO (g : Nat → Nat) (s s' : Sys) (op : Op) (h : InvO g s) (hop : op.consistent g)
    (hs : step s op = some s') : InvO g s' := by
  cases op with
  | insert off bytes alloc tm =>
    simp only [Op.consistent] at hop
    have hi := insert_inv g s.a off bytes alloc tm h.cons h.wfc hop
    simp only [step] at hs
    have key : ∀ a', (insert s.a off bytes alloc tm) = (a', InsertOut.ok) ∨
        (insert s.a off bytes alloc tm) = (a', InsertOut.tooMany) →
        InvO g { s with a := a', ins := if s.a.unordered then s.ins else (off, off + bytes.length) :: s.ins } := by
      intro a' hins
      have ea : a' = (insert s.a off bytes alloc tm).1 := by rcases hins with e | e <;> rw [e]
      have hok : (insert s.a off bytes alloc tm).2 = .ok ∨ (insert s.a off bytes alloc tm).2 = .tooMany := by
        rcases hins with e | e <;> rw [e] <;> simp
      subst ea
      refine ⟨hi.1, hi.2.1, h.content, h.out_eq, ?_, ?_⟩
      · intro hu
        show s.out.length = (insert s.a off bytes alloc tm).1.bytesRead
        rw [hi.2.2.2]; apply h.out_len; rw [← hi.2.2.1]; exact hu
      · intro hu x hx hr
        have hu' : s.a.unordered = false := by rw [← hi.2.2.1]; exact hu
        have hr' : s.a.bytesRead ≤ x := by
          have : (insert s.a off bytes alloc tm).1.bytesRead ≤ x := hr
          rw [hi.2.2.2] at this; exact this
        have hcov := insert_ordered_cov g s.a off bytes alloc tm h.cons h.wfc hop hu' hok x
        show mem x (insert s.a off bytes alloc tm).1.cov
        rw [hcov]
        have hx' : mem x ((off, off + bytes.length) :: s.ins) := by
          have : mem x (if s.a.unordered then s.ins else (off, off + bytes.length) :: s.ins) := hx
          rw [hu'] at this; simpa using this
        rcases (mem_cons x _ _).mp hx' with h1 | h1
        · right; simp only at h1; omega
        · left; exact h.noloss hu' x h1 hr'
    split at hs
    · rename_i a' hins; cases hs; exact key a' (Or.inl hins)
    · rename_i a' hins; cases hs; exact key a' (Or.inr hins)
    · cases hs
    · cases hs
  | read max ordered obs =>
    simp only [step] at hs
    have he := ensure_invO g s h ordered
    obtain ⟨e1, e2, e3, e4, e5, e6, e7, e8⟩ := ensure_spec s.a ordered h.wfc
    split at hs
    · rename_i a1 hens
      cases hs
      have : a1 = (ensureOrdering s.a ordered).1 := by rw [hens]
      subst this; exact he
    · rename_i a1 hens
      have ha1 : a1 = (ensureOrdering s.a ordered).1 := by rw [hens]
      have hb : (ensureOrdering s.a ordered).2 = true := by rw [hens]
      have hmode := e6 hb
      subst ha1
      cases ordered with
      | true =>
        simp only [Bool.not_true] at hmode
        split at hs
        · rename_i a2 hrd
          cases hs
          have sp := read_ordered_spec g _ a2 max obs .none hrd he.cons he.wfc
          obtain ⟨d1, d2, d3, d4, d5⟩ := sp
          subst d4; exact he
        · rename_i a2 off bytes hrd
          cases hs
          have sp := read_ordered_spec g _ a2 max obs (.chunk off bytes) hrd he.cons he.wfc
          obtain ⟨d1, d2, d3, d4, d5, d6, d7, d8, d9, d10, d11⟩ := sp
          have hol := he.out_len hmode
          have hol' : s.out.length = (ensureOrdering s.a true).1.bytesRead := hol
          refine ⟨by show Cons g a2.data; rw [d1]; exact he.cons, d9, ?_, ?_, ?_, ?_⟩
          · intro ch hch
            rcases List.mem_cons.mp hch with e | e
            · subst e; exact d6
            · exact h.content ch e
          · show s.out ++ bytes = stream g 0 (s.out ++ bytes).length
            rw [List.length_append]
            have h1 := h.out_eq
            rw [← stream_append g s.out.length bytes.length 0, ← h1]
            congr 1
            rw [Nat.zero_add, hol', ← d4]; exact d6
          · intro _
            show (s.out ++ bytes).length = a2.bytesRead
            rw [List.length_append, d5, hol']
          · intro _ x hx hr
            have hr2 : a2.bytesRead ≤ x := hr
            have hr' : (ensureOrdering s.a true).1.bytesRead ≤ x := by rw [d5] at hr2; omega
            show mem x a2.cov
            rw [d10 x hr2]; exact he.noloss hmode x hx hr'
        · cases hs
      | false =>
        simp only [Bool.not_false] at hmode
        split at hs
        · rename_i a2 hrd
          cases hs
          have sp := read_unordered_spec g _ a2 max obs .none hrd he.cons
          obtain ⟨d1, d2, d3, d4, d5⟩ := sp
          subst d4; exact he
        · rename_i a2 off bytes hrd
          cases hs
          have sp := read_unordered_spec g _ a2 max obs (.chunk off bytes) hrd he.cons
          obtain ⟨d1, d2, d3, d4, d5, d6, d7, d8⟩ := sp
          have hu2 : a2.unordered = true := by rw [d2]; exact hmode
          refine ⟨by show Cons g a2.data; rw [d1]; exact he.cons,
            by show WF a2.cov; rw [d8]; exact removeRange_WF _ _ _ he.wfc, ?_, h.out_eq, ?_, ?_⟩
          · intro ch hch
            rcases List.mem_cons.mp hch with e | e
            · subst e; exact d5
            · exact h.content ch e
          · intro hu; have : a2.unordered = false := hu
            rw [hu2] at this; cases this
          · intro hu; have : a2.unordered = false := hu
            rw [hu2] at this; cases this
        · cases hs
  | ensure ordered =>
    simp only [step] at hs
    cases hs
    exact ensure_invO g s h ordered
  | clear =>
    simp only [step] at hs
    cases hs
    exact clear_invO g s h

theorem run_invO (g : Nat → Nat) (ops : List Op) : ∀ (s s' : Sys), InvO g s → (∀ op ∈ ops, op.consistent g) →
    run s ops = some s' → InvO g s' := by
  induction ops with
  | nil => intro s s' h _ hr; simp only [run] at hr; cases hr; exact h
  | cons op ops ih =>
    intro s s' h hc hr
    simp only [run] at hr
    split at hr
    · rename_i s1 hs
      exact ih s1 s' (step_invO g s s1 op h (hc op List.mem_cons_self) hs)
        (fun o ho => hc o (List.mem_cons_of_mem _ ho)) hr
    · cases hr

/-! ### unordered mode -/

/-- the duplicate loop pushes exactly the parts of the frame that were not received before -/
theorem dupLoop_cov (S : RS) (dups : List (Nat × Nat)) :
    ∀ (a : Asm) (off re : Nat) (bytes : Bytes), DupsOK S dups off re → off ≤ re →
      bytes.length = re - off → WF a.cov →
      ∃ a' off' bytes', dupLoop dups a off bytes = some (a', off', bytes') ∧ off ≤ off' ∧ off' ≤ re ∧
        bytes'.length = re - off' ∧
        (∀ x, mem x a'.cov ↔ mem x a.cov ∨ (off ≤ x ∧ x < off' ∧ ¬ mem x S)) ∧
        (∀ x, off' ≤ x → x < re → ¬ mem x S) := by
  induction dups with
  | nil =>
    intro a off re bytes hd hle hlen _
    refine ⟨a, off, bytes, rfl, Nat.le_refl _, hle, hlen, ?_, hd⟩
    intro x
    constructor
    · exact Or.inl
    · rintro (h | h)
      · exact h
      · omega
  | cons q t ih =>
    obtain ⟨ds, de⟩ := q
    intro a off re bytes hd hle hlen hw
    obtain ⟨h1, h2, h3, h4, h5, h6⟩ := hd
    unfold dupLoop
    by_cases hgt : ds > off
    · rw [if_pos hgt]
      have c1 : ¬ ds - off > bytes.length := by omega
      have c2 : ¬ de < ds := by omega
      have c3 : ¬ de - ds > bytes.length - (ds - off) := by omega
      rw [if_neg c1, if_neg c2, if_neg c3]
      have hpc := push_cov a off (bytes.take (ds - off)) hw
      have htl : (bytes.take (ds - off)).length = ds - off := by rw [List.length_take]; omega
      obtain ⟨a', off', bytes', e1, e2, e3, e4, e5, e6⟩ :=
        ih (push a off (bytes.take (ds - off))) de re ((bytes.drop (ds - off)).drop (de - ds)) h6 h3
          (by rw [List.length_drop, List.length_drop]; omega) hpc.1
      refine ⟨a', off', bytes', e1, by omega, e3, e4, ?_, e6⟩
      intro x
      rw [e5 x, hpc.2 x, htl]
      constructor
      · rintro ((h | h) | h)
        · exact Or.inl h
        · exact Or.inr ⟨h.1, by omega, h4 x h.1 (by omega)⟩
        · exact Or.inr ⟨by omega, h.2.1, h.2.2⟩
      · rintro (h | ⟨hx1, hx2, hx3⟩)
        · exact Or.inl (Or.inl h)
        · by_cases hxd : x < ds
          · exact Or.inl (Or.inr ⟨hx1, by omega⟩)
          · by_cases hxe : x < de
            · exact absurd (h5 x (by omega) hxe) hx3
            · exact Or.inr ⟨by omega, hx2, hx3⟩
    · rw [if_neg hgt]
      have c1 : ¬ de < off := by omega
      have c2 : ¬ de - off > bytes.length := by omega
      rw [if_neg c1, if_neg c2]
      obtain ⟨a', off', bytes', e1, e2, e3, e4, e5, e6⟩ :=
        ih a de re (bytes.drop (de - off)) h6 h3 (by rw [List.length_drop]; omega) hw
      refine ⟨a', off', bytes', e1, by omega, e3, e4, ?_, e6⟩
      intro x
      rw [e5 x]
      constructor
      · rintro (h | h)
        · exact Or.inl h
        · exact Or.inr ⟨by omega, h.2.1, h.2.2⟩
      · rintro (h | ⟨hx1, hx2, hx3⟩)
        · exact Or.inl h
        · by_cases hxe : x < de
          · exact absurd (h5 x (by omega) hxe) hx3
          · exact Or.inr ⟨by omega, hx2, hx3⟩

/-- `insert` of a non-empty frame in unordered mode with a well-formed `recvd` -/
theorem insert_unordered_spec (g : Nat → Nat) (a : Asm) (off : Nat) (bytes : Bytes) (alloc : Nat) (tm : Bool)
    (hu : a.unordered = true) (hwr : WF a.recvd) (hwc : WF a.cov) (hne : bytes ≠ [])
    (hc : Cons g a.data) (hb : bytes = stream g off bytes.length)
    (hok : (insert a off bytes alloc tm).2 = .ok ∨ (insert a off bytes alloc tm).2 = .tooMany) :
    WF (insert a off bytes alloc tm).1.recvd ∧
    (∀ x, mem x (insert a off bytes alloc tm).1.recvd ↔ mem x a.recvd ∨ (off ≤ x ∧ x < off + bytes.length)) ∧
    (∀ x, mem x (insert a off bytes alloc tm).1.cov ↔
      mem x a.cov ∨ (off ≤ x ∧ x < off + bytes.length ∧ ¬ mem x a.recvd)) := by
  have hlen : 0 < bytes.length := by
    cases bytes with
    | nil => exact absurd rfl hne
    | cons _ _ => simp
  have hlt : off < off + bytes.length := by omega
  unfold insert at hok ⊢
  split
  · rename_i h; rw [if_pos h] at hok; simp at hok
  · rename_i h1
    rw [if_neg h1] at hok
    split
    · rename_i h; rw [if_pos h] at hok; simp at hok
    · rename_i h2
      have hie : ¬ (bytes.isEmpty = true) := by
        cases bytes with
        | nil => exact absurd rfl hne
        | cons _ _ => simp
      rw [if_neg h2, if_neg hie, if_pos hu] at hok
      rw [if_neg hie]
      have hd := replace_dups a.recvd off (off + bytes.length) hwr hlt
      obtain ⟨a1, off1, bytes1, e1, e2, e3, e4, e5, e6⟩ :=
        dupLoop_cov a.recvd (RangeSet.replace a.recvd off (off + bytes.length)).1
          { a with end_ := Nat.max a.end_ (off + bytes.length),
                   recvd := (RangeSet.replace a.recvd off (off + bytes.length)).2 }
          off (off + bytes.length) bytes hd (by omega) (by omega) hwc
      rw [e1] at hok ⊢
      simp only at hok ⊢
      have hinv := dupLoop_inv g _ _ off bytes a1 off1 bytes1 (by exact hc) (by exact hwc) hb e1
      have hrec : a1.recvd = (RangeSet.replace a.recvd off (off + bytes.length)).2 := hinv.2.2.2.2.2.1
      have hwc1 : WF a1.cov := hinv.2.1
      -- the tail of `insert`
      have hfin : (finishInsert a1 off1 bytes1 tm).1.recvd = a1.recvd ∧
          (∀ x, mem x (finishInsert a1 off1 bytes1 tm).1.cov ↔
            mem x a1.cov ∨ (off1 ≤ x ∧ x < off1 + bytes1.length)) := by
        unfold finishInsert
        by_cases he : bytes1.isEmpty = true
        · rw [if_pos he]
          have : bytes1.length = 0 := by
            cases bytes1 with
            | nil => rfl
            | cons _ _ => simp at he
          refine ⟨rfl, fun x => ?_⟩
          constructor
          · exact Or.inl
          · rintro (h | h)
            · exact h
            · omega
        · rw [if_neg he]
          have hv := push_cov a1 off1 bytes1 hwc1
          split
          · exact ⟨rfl, hv.2⟩
          · split
            · exact ⟨rfl, hv.2⟩
            · exact ⟨rfl, hv.2⟩
      refine ⟨?_, ?_, ?_⟩
      · rw [hfin.1, hrec]; exact replace_WF a.recvd off _ hwr hlt
      · intro x; rw [hfin.1, hrec]; exact replace_mem a.recvd off _ x hwr hlt
      · intro x
        rw [hfin.2 x, e5 x, e4]
        have e7 : off1 + (off + bytes.length - off1) = off + bytes.length := by omega
        rw [e7]
        constructor
        · rintro ((h | h) | h)
          · exact Or.inl h
          · exact Or.inr ⟨h.1, by omega, h.2.2⟩
          · exact Or.inr ⟨by omega, h.2, e6 x h.1 h.2⟩
        · rintro (h | ⟨hx1, hx2, hx3⟩)
          · exact Or.inl (Or.inl h)
          · by_cases hxo : x < off1
            · exact Or.inl (Or.inr ⟨hx1, hxo, hx3⟩)
            · exact Or.inr ⟨by omega, hx2⟩

/-! ### exactly once: no offset is handed to the application twice -/

/-- ranges handed to the application so far -/
def delivered (s : Sys) : List (Nat × Nat) := s.chunks.map rangeOf

structure InvX (s : Sys) : Prop where
  px : (delivered s).Pairwise disj
  ord : s.a.unordered = false → ∀ x, mem x (delivered s) → x < s.a.bytesRead
  wfr : s.a.unordered = true → WF s.a.recvd
  dr : s.a.unordered = true → ∀ x, mem x (delivered s) → mem x s.a.recvd
  cr : s.a.unordered = true → ∀ x, mem x s.a.cov → mem x s.a.recvd
  cd : s.a.unordered = true → ∀ x, mem x s.a.cov → ¬ mem x (delivered s)

theorem invX_init : InvX Sys.init :=
  ⟨List.Pairwise.nil, (by intro _ x hx; exact absurd hx (mem_nil x)), (by intro h; cases h),
   (by intro h; cases h), (by intro h; cases h), (by intro h; cases h)⟩

theorem ensure_true (a : Asm) : (ensureOrdering a true).1 = a := by
  unfold ensureOrdering
  cases a.unordered <;> simp

/-- entering unordered mode: only offsets at or after the read index stay buffered (`defragment`
    starts at `bytes_read`), `recvd` = everything read so far plus everything still buffered -/
theorem ensure_switch (a : Asm) (hu : a.unordered = false) (hw : WF a.cov) :
    (ensureOrdering a false).1.unordered = true ∧ WF (ensureOrdering a false).1.recvd ∧
    (∀ x, mem x (ensureOrdering a false).1.recvd ↔ x < a.bytesRead ∨ mem x (clipFrom a.cov a.bytesRead)) ∧
    (ensureOrdering a false).1.cov = clipFrom a.cov a.bytesRead := by
  unfold ensureOrdering
  simp only [Bool.false_and, Bool.false_eq_true, if_false, Bool.not_false, Bool.true_and, hu, Bool.not_false,
    if_true]
  have h0 := insert_WF [] 0 a.bytesRead WF_nil
  have hf := fold_insert (clipFrom a.cov a.bytesRead) (RangeSet.insert [] 0 a.bytesRead).1 h0
  refine ⟨trivial, hf.1, ?_, trivial⟩
  intro x
  rw [hf.2 x, insert_mem [] 0 a.bytesRead x WF_nil]
  constructor
  · rintro ((h | h) | h)
    · exact absurd h (mem_nil x)
    · exact Or.inl h.2
    · exact Or.inr h
  · rintro (h | h)
    · exact Or.inl (Or.inr ⟨Nat.zero_le _, h⟩)
    · exact Or.inr h

theorem ensure_invX (s : Sys) (h : InvX s) (hw : WF s.a.cov) (ordered : Bool) :
    InvX { s with a := (ensureOrdering s.a ordered).1 } := by
  cases ordered with
  | true => rw [ensure_true]; exact h
  | false =>
    cases hu : s.a.unordered with
    | true =>
      have := (ensure_spec s.a false hw).2.2.2.2.2.2.2 hu
      rw [this]; exact h
    | false =>
      obtain ⟨s1, s2, s3, s4⟩ := ensure_switch s.a hu hw
      have hcov : ∀ x, mem x (ensureOrdering s.a false).1.cov → mem x s.a.cov ∧ s.a.bytesRead ≤ x := by
        intro x hx; rw [s4] at hx; exact (clipFrom_mem _ _ x).mp hx
      refine ⟨h.px, ?_, fun _ => s2, ?_, ?_, ?_⟩
      · intro hc
        have : (ensureOrdering s.a false).1.unordered = false := hc
        rw [s1] at this; cases this
      · intro _ x hx
        show mem x (ensureOrdering s.a false).1.recvd
        rw [s3 x]; exact Or.inl (h.ord hu x hx)
      · intro _ x hx
        have hx' : mem x (ensureOrdering s.a false).1.cov := hx
        show mem x (ensureOrdering s.a false).1.recvd
        rw [s3 x]; right; rw [← s4]; exact hx'
      · intro _ x hx hd
        have := (hcov x hx).2
        have := h.ord hu x hd
        omega

theorem step_invX (g : Nat → Nat) (s s' : Sys) (op : Op) (ho : InvO g s) (h : InvX s)
    (hop : op.consistent g) (hs : step s op = some s') : InvX s' := by
  cases op with
  | insert off bytes alloc tm =>
    simp only [Op.consistent] at hop
    have hi := insert_inv g s.a off bytes alloc tm ho.cons ho.wfc hop
    simp only [step] at hs
    have key : ∀ a' (insl : List (Nat × Nat)), (insert s.a off bytes alloc tm) = (a', InsertOut.ok) ∨
        (insert s.a off bytes alloc tm) = (a', InsertOut.tooMany) →
        InvX { s with a := a', ins := insl } := by
      intro a' insl hins
      have ea : a' = (insert s.a off bytes alloc tm).1 := by rcases hins with e | e <;> rw [e]
      have hok : (insert s.a off bytes alloc tm).2 = .ok ∨ (insert s.a off bytes alloc tm).2 = .tooMany := by
        rcases hins with e | e <;> rw [e] <;> simp
      subst ea
      cases hu : s.a.unordered with
      | false =>
        have hu' : (insert s.a off bytes alloc tm).1.unordered = false := by rw [hi.2.2.1]; exact hu
        refine ⟨h.px, ?_, ?_, ?_, ?_, ?_⟩
        · intro _ x hx
          show x < (insert s.a off bytes alloc tm).1.bytesRead
          rw [hi.2.2.2]; exact h.ord hu x hx
        all_goals (intro hc; have : (insert s.a off bytes alloc tm).1.unordered = true := hc
                   rw [hu'] at this; cases this)
      | true =>
        by_cases hne : bytes = []
        · -- empty frame: returns before `recvd` is touched
          subst hne
          obtain ⟨v1, v2, _⟩ := insert_empty_frame s.a off alloc tm
          refine ⟨h.px, ?_, ?_, ?_, ?_, ?_⟩
          · intro hc
            have : (insert s.a off [] alloc tm).1.unordered = false := hc
            rw [hi.2.2.1, hu] at this; cases this
          · intro _; show WF (insert s.a off [] alloc tm).1.recvd; rw [v1]; exact h.wfr hu
          · intro _ x hx; show mem x (insert s.a off [] alloc tm).1.recvd; rw [v1]; exact h.dr hu x hx
          · intro _ x hx
            have hx' : mem x (insert s.a off [] alloc tm).1.cov := hx
            show mem x (insert s.a off [] alloc tm).1.recvd
            rw [v1]; rw [v2] at hx'; exact h.cr hu x hx'
          · intro _ x hx hd
            have hx' : mem x (insert s.a off [] alloc tm).1.cov := hx
            rw [v2] at hx'; exact h.cd hu x hx' hd
        obtain ⟨u1, u2, u3⟩ := insert_unordered_spec g s.a off bytes alloc tm hu (h.wfr hu) ho.wfc hne
          ho.cons hop hok
        refine ⟨h.px, ?_, fun _ => u1, ?_, ?_, ?_⟩
        · intro hc
          have : (insert s.a off bytes alloc tm).1.unordered = false := hc
          rw [hi.2.2.1, hu] at this; cases this
        · intro _ x hx
          show mem x (insert s.a off bytes alloc tm).1.recvd
          rw [u2 x]; exact Or.inl (h.dr hu x hx)
        · intro _ x hx
          have hx' : mem x (insert s.a off bytes alloc tm).1.cov := hx
          show mem x (insert s.a off bytes alloc tm).1.recvd
          rw [u2 x]
          rcases (u3 x).mp hx' with h1 | h1
          · exact Or.inl (h.cr hu x h1)
          · exact Or.inr ⟨h1.1, h1.2.1⟩
        · intro _ x hx hd
          have hx' : mem x (insert s.a off bytes alloc tm).1.cov := hx
          rcases (u3 x).mp hx' with h1 | h1
          · exact h.cd hu x h1 hd
          · exact h1.2.2 (h.dr hu x hd)
    split at hs
    · rename_i a' hins; cases hs; exact key a' _ (Or.inl hins)
    · rename_i a' hins; cases hs; exact key a' _ (Or.inr hins)
    · cases hs
    · cases hs
  | read max ordered obs =>
    simp only [step] at hs
    have he := ensure_invX s h ho.wfc ordered
    have heo := ensure_invO g s ho ordered
    obtain ⟨e1, e2, e3, e4, e5, e6, e7, e8⟩ := ensure_spec s.a ordered ho.wfc
    split at hs
    · rename_i a1 hens
      cases hs
      have : a1 = (ensureOrdering s.a ordered).1 := by rw [hens]
      subst this; exact he
    · rename_i a1 hens
      have ha1 : a1 = (ensureOrdering s.a ordered).1 := by rw [hens]
      have hb : (ensureOrdering s.a ordered).2 = true := by rw [hens]
      have hmode := e6 hb
      subst ha1
      cases ordered with
      | true =>
        simp only [Bool.not_true] at hmode
        split at hs
        · rename_i a2 hrd
          cases hs
          have sp := read_ordered_spec g _ a2 max obs .none hrd heo.cons heo.wfc
          obtain ⟨d1, d2, d3, d4, d5⟩ := sp
          subst d4; exact he
        · rename_i a2 off bytes hrd
          cases hs
          have sp := read_ordered_spec g _ a2 max obs (.chunk off bytes) hrd heo.cons heo.wfc
          obtain ⟨d1, d2, d3, d4, d5, d6, d7, d8, d9, d10, d11⟩ := sp
          have hu2 : a2.unordered = false := by rw [d2]; exact hmode
          have hbr : ∀ x, mem x (delivered s) → x < (ensureOrdering s.a true).1.bytesRead := he.ord hmode
          refine ⟨?_, ?_, ?_, ?_, ?_, ?_⟩
          · show ((rangeOf (true, off, bytes)) :: delivered s).Pairwise disj
            refine List.pairwise_cons.mpr ⟨?_, he.px⟩
            intro q hq x hx
            simp only [rangeOf] at hx
            have := hbr x ⟨q, hq, hx.2.2.1, hx.2.2.2⟩
            omega
          · intro _ x hx
            show x < a2.bytesRead
            have hx' : mem x (rangeOf (true, off, bytes) :: delivered s) := hx
            rw [d5]
            rcases (mem_cons x _ _).mp hx' with h1 | h1
            · simp only [rangeOf] at h1; omega
            · have := hbr x h1; omega
          all_goals (intro hc; have : a2.unordered = true := hc
                     rw [hu2] at this; cases this)
        · cases hs
      | false =>
        simp only [Bool.not_false] at hmode
        split at hs
        · rename_i a2 hrd
          cases hs
          have sp := read_unordered_spec g _ a2 max obs .none hrd heo.cons
          obtain ⟨d1, d2, d3, d4, d5⟩ := sp
          subst d4; exact he
        · rename_i a2 off bytes hrd
          cases hs
          have sp := read_unordered_spec g _ a2 max obs (.chunk off bytes) hrd heo.cons
          obtain ⟨d1, d2, d3, d4, d5, d6, d7, d8⟩ := sp
          have hu2 : a2.unordered = true := by rw [d2]; exact hmode
          have hcov2 : ∀ x, mem x a2.cov → mem x (ensureOrdering s.a false).1.cov ∧ ¬ (off ≤ x ∧ x < off + bytes.length) := by
            intro x hx; rw [d8] at hx; exact (removeRange_mem _ _ _ x).mp hx
          refine ⟨?_, ?_, ?_, ?_, ?_, ?_⟩
          · show ((rangeOf (false, off, bytes)) :: delivered s).Pairwise disj
            refine List.pairwise_cons.mpr ⟨?_, he.px⟩
            intro q hq x hx
            simp only [rangeOf] at hx
            exact he.cd hmode x (d7 x hx.1 hx.2.1) ⟨q, hq, hx.2.2.1, hx.2.2.2⟩
          · intro hc; have : a2.unordered = false := hc
            rw [hu2] at this; cases this
          · intro _; show WF a2.recvd; rw [d3]; exact he.wfr hmode
          · intro _ x hx
            show mem x a2.recvd
            rw [d3]
            have hx' : mem x (rangeOf (false, off, bytes) :: delivered s) := hx
            rcases (mem_cons x _ _).mp hx' with h1 | h1
            · simp only [rangeOf] at h1; exact he.cr hmode x (d7 x h1.1 h1.2)
            · exact he.dr hmode x h1
          · intro _ x hx
            show mem x a2.recvd
            rw [d3]; exact he.cr hmode x (hcov2 x hx).1
          · intro _ x hx hd
            have hx' : mem x (rangeOf (false, off, bytes) :: delivered s) := hd
            rcases (mem_cons x _ _).mp hx' with h1 | h1
            · simp only [rangeOf] at h1; exact (hcov2 x hx).2 h1
            · exact he.cd hmode x (hcov2 x hx).1 h1
        · cases hs
  | ensure ordered =>
    simp only [step] at hs
    cases hs
    exact ensure_invX s h ho.wfc ordered
  | clear =>
    simp only [step] at hs
    cases hs
    refine ⟨h.px, h.ord, h.wfr, h.dr, ?_, ?_⟩
    · intro _ x hx; exact absurd hx (mem_nil x)
    · intro _ x hx; exact absurd hx (mem_nil x)

theorem run_inv (g : Nat → Nat) (ops : List Op) : ∀ (s s' : Sys), InvO g s → InvX s →
    (∀ op ∈ ops, op.consistent g) → run s ops = some s' → InvO g s' ∧ InvX s' := by
  induction ops with
  | nil => intro s s' h1 h2 _ hr; simp only [run] at hr; cases hr; exact ⟨h1, h2⟩
  | cons op ops ih =>
    intro s s' h1 h2 hc hr
    simp only [run] at hr
    split at hr
    · rename_i s1 hs
      have hop := hc op List.mem_cons_self
      exact ih s1 s' (step_invO g s s1 op h1 hop hs) (step_invX g s s1 op h1 h2 hop hs)
        (fun o ho => hc o (List.mem_cons_of_mem _ ho)) hr
    · cases hr

/-! ### `bytes_read ≤ end`: the subtraction `self.end - self.bytes_read` in `insert` cannot underflow -/

def lenSum (l : List (Nat × Nat)) : Nat := (l.map (fun r => r.2 - r.1)).sum

def inR (r : Nat × Nat) (x : Nat) : Bool := decide (r.1 ≤ x) && decide (x < r.2)

def inL (l : List (Nat × Nat)) (x : Nat) : Bool := l.any (fun r => inR r x)

theorem count_range (r : Nat × Nat) (N : Nat) :
    ((List.range N).filter (inR r)).length = Nat.min r.2 N - Nat.min r.1 N := by
  induction N with
  | zero => simp
  | succ N ih =>
    rw [List.range_succ, List.filter_append, List.length_append, ih]
    simp only [List.filter_cons, List.filter_nil, inR]
    by_cases h1 : r.1 ≤ N <;> by_cases h2 : N < r.2 <;>
      simp [h1, h2, Nat.min_def] <;> (repeat' split) <;> omega

theorem filter_or_length (l : List Nat) (p q : Nat → Bool) (h : ∀ x ∈ l, ¬ (p x = true ∧ q x = true)) :
    (l.filter (fun x => p x || q x)).length = (l.filter p).length + (l.filter q).length := by
  induction l with
  | nil => rfl
  | cons a t ih =>
    have ha := h a List.mem_cons_self
    have iht := ih (fun x hx => h x (List.mem_cons_of_mem _ hx))
    simp only [List.filter_cons]
    cases hp : p a <;> cases hq : q a <;> simp [iht] <;> first | omega | (exfalso; exact ha ⟨hp, hq⟩)

/-- pairwise disjoint ranges inside `[0, N)` have total length at most `N` -/
theorem lenSum_le (l : List (Nat × Nat)) (N : Nat) (hd : l.Pairwise disj)
    (hb : ∀ r ∈ l, r.1 < r.2 → r.2 ≤ N) : lenSum l ≤ N := by
  have key : lenSum l = ((List.range N).filter (inL l)).length := by
    induction l with
    | nil =>
      have : (List.range N).filter (inL []) = [] := by
        apply List.filter_eq_nil_iff.mpr
        intro x _; simp [inL]
      rw [this]; rfl
    | cons r t ih =>
      have hdt := (List.pairwise_cons.mp hd).2
      have hdr := (List.pairwise_cons.mp hd).1
      have iht := ih hdt (fun q hq => hb q (List.mem_cons_of_mem _ hq))
      have hfun : (fun x => inL (r :: t) x) = (fun x => inR r x || inL t x) := by
        funext x; simp [inL]
      have hcount := count_range r N
      have hr := hb r List.mem_cons_self
      have hlen : ((List.range N).filter (inR r)).length = r.2 - r.1 := by
        rw [hcount]; simp only [Nat.min_def]; (repeat' split) <;> omega
      show lenSum (r :: t) = ((List.range N).filter (fun x => inL (r :: t) x)).length
      rw [hfun, filter_or_length _ _ _ ?_, hlen, ← iht]
      · simp [lenSum]
      · intro x _ hx
        simp only [inR, inL, Bool.and_eq_true, decide_eq_true_eq, List.any_eq_true] at hx
        obtain ⟨⟨h1, h2⟩, q, hq, h3, h4⟩ := hx
        exact hdr q hq x ⟨h1, h2, h3, h4⟩
  rw [key]
  have := List.length_filter_le (inL l) (List.range N)
  simpa using this

theorem insert_end (s : Asm) (off : Nat) (bytes : Bytes) (alloc : Nat) (tm : Bool) :
    s.end_ ≤ (insert s off bytes alloc tm).1.end_ ∧
    ((insert s off bytes alloc tm).2 = .ok ∨ (insert s off bytes alloc tm).2 = .tooMany →
      off + bytes.length ≤ (insert s off bytes alloc tm).1.end_) := by
  have hmax : s.end_ ≤ Nat.max s.end_ (off + bytes.length) ∧ off + bytes.length ≤ Nat.max s.end_ (off + bytes.length) := by
    simp only [Nat.max_def]; split <;> omega
  have hfin : ∀ (a : Asm) (o : Nat) (b : Bytes), (finishInsert a o b tm).1.end_ = a.end_ := by
    intro a o b; unfold finishInsert; split
    · rfl
    · split
      · rfl
      · split <;> rfl
  have hdup : ∀ (dups : List (Nat × Nat)) (a : Asm) (o : Nat) (b : Bytes) (a' : Asm) (o' : Nat) (b' : Bytes),
      dupLoop dups a o b = some (a', o', b') → a'.end_ = a.end_ := by
    intro dups
    induction dups with
    | nil => intro a o b a' o' b' h; simp only [dupLoop, Option.some.injEq, Prod.mk.injEq] at h; rw [← h.1]
    | cons d t ih =>
      obtain ⟨ds, de⟩ := d
      intro a o b a' o' b' h
      unfold dupLoop at h
      split at h
      · split at h
        · cases h
        · split at h
          · cases h
          · split at h
            · cases h
            · have := ih _ _ _ _ _ _ h; exact this
      · split at h
        · cases h
        · split at h
          · cases h
          · exact ih _ _ _ _ _ _ h
  unfold insert
  split
  · exact ⟨Nat.le_refl _, by intro h; rcases h with h | h <;> cases h⟩
  · split
    · exact ⟨Nat.le_refl _, by intro h; rcases h with h | h <;> cases h⟩
    · split
      · exact ⟨hmax.1, fun _ => hmax.2⟩
      · split
        · split
          · exact ⟨Nat.le_refl _, by intro h; rcases h with h | h <;> cases h⟩
          · rename_i s1 off1 bytes1 hd
            have := hdup _ _ _ _ _ _ _ hd
            rw [hfin, this]
            exact ⟨hmax.1, fun _ => hmax.2⟩
        · split
          · split
            · exact ⟨hmax.1, fun _ => hmax.2⟩
            · rw [hfin]; exact ⟨hmax.1, fun _ => hmax.2⟩
          · rw [hfin]; exact ⟨hmax.1, fun _ => hmax.2⟩

theorem read_end (a : Asm) (max : Nat) (ordered : Bool) (obs : Obs) : (read a max ordered obs).1.end_ = a.end_ := by
  unfold read
  cases obs with
  | none => cases ordered <;> simp <;> split <;> rfl
  | chunk off len =>
    simp only
    split
    · rfl
    · split
      · rfl
      · cases ordered
        · rfl
        · simp only [if_true]; split <;> rfl

theorem ensure_end (a : Asm) (ordered : Bool) : (ensureOrdering a ordered).1.end_ = a.end_ := by
  unfold ensureOrdering
  cases ordered <;> cases a.unordered <;> simp

structure InvB (s : Sys) : Prop where
  sumEq : s.a.bytesRead = lenSum (delivered s)
  covB : ∀ x, mem x s.a.cov → x < s.a.end_
  delB : ∀ r ∈ delivered s, r.1 < r.2 → r.2 ≤ s.a.end_

theorem invB_init : InvB Sys.init :=
  ⟨rfl, (by intro x hx; exact absurd hx (mem_nil x)), (by intro r hr; simp [delivered, Sys.init] at hr)⟩

theorem step_invB (g : Nat → Nat) (s s' : Sys) (op : Op) (ho : InvO g s) (hx : InvX s) (h : InvB s)
    (hop : op.consistent g) (hs : step s op = some s') : InvB s' := by
  cases op with
  | insert off bytes alloc tm =>
    simp only [Op.consistent] at hop
    have hi := insert_inv g s.a off bytes alloc tm ho.cons ho.wfc hop
    have hend := insert_end s.a off bytes alloc tm
    simp only [step] at hs
    have key : ∀ a' (insl : List (Nat × Nat)), (insert s.a off bytes alloc tm) = (a', InsertOut.ok) ∨
        (insert s.a off bytes alloc tm) = (a', InsertOut.tooMany) →
        InvB { s with a := a', ins := insl } := by
      intro a' insl hins
      have ea : a' = (insert s.a off bytes alloc tm).1 := by rcases hins with e | e <;> rw [e]
      have hok : (insert s.a off bytes alloc tm).2 = .ok ∨ (insert s.a off bytes alloc tm).2 = .tooMany := by
        rcases hins with e | e <;> rw [e] <;> simp
      subst ea
      have he2 := hend.2 hok
      refine ⟨?_, ?_, ?_⟩
      · show (insert s.a off bytes alloc tm).1.bytesRead = lenSum (delivered s)
        rw [hi.2.2.2]; exact h.sumEq
      · intro x hxm
        have hxm' : mem x (insert s.a off bytes alloc tm).1.cov := hxm
        show x < (insert s.a off bytes alloc tm).1.end_
        cases hu : s.a.unordered with
        | false =>
          rcases (insert_ordered_cov g s.a off bytes alloc tm ho.cons ho.wfc hop hu hok x).mp hxm' with h1 | h1
          · have := h.covB x h1; omega
          · omega
        | true =>
          by_cases hne : bytes = []
          · subst hne
            rw [(insert_empty_frame s.a off alloc tm).2.1] at hxm'
            have := h.covB x hxm'; omega
          · obtain ⟨_, _, u3⟩ := insert_unordered_spec g s.a off bytes alloc tm hu (hx.wfr hu) ho.wfc hne
              ho.cons hop hok
            rcases (u3 x).mp hxm' with h1 | h1
            · have := h.covB x h1; omega
            · omega
      · intro r hr hlt
        have := h.delB r hr hlt
        show r.2 ≤ (insert s.a off bytes alloc tm).1.end_
        omega
    split at hs
    · rename_i a' hins; cases hs; exact key a' _ (Or.inl hins)
    · rename_i a' hins; cases hs; exact key a' _ (Or.inr hins)
    · cases hs
    · cases hs
  | read max ordered obs =>
    simp only [step] at hs
    have heo := ensure_invO g s ho ordered
    obtain ⟨e1, e2, e3, e4, e5, e6, e7, e8⟩ := ensure_spec s.a ordered ho.wfc
    have hee := ensure_end s.a ordered
    have hbase : InvB { s with a := (ensureOrdering s.a ordered).1 } := by
      refine ⟨?_, ?_, ?_⟩
      · show (ensureOrdering s.a ordered).1.bytesRead = lenSum (delivered s); rw [e5]; exact h.sumEq
      · intro x hxm
        show x < (ensureOrdering s.a ordered).1.end_
        rw [hee]; exact h.covB x (e3 x hxm)
      · intro r hr hlt
        show r.2 ≤ (ensureOrdering s.a ordered).1.end_
        rw [hee]; exact h.delB r hr hlt
    split at hs
    · rename_i a1 hens
      cases hs
      have : a1 = (ensureOrdering s.a ordered).1 := by rw [hens]
      subst this; exact hbase
    · rename_i a1 hens
      have ha1 : a1 = (ensureOrdering s.a ordered).1 := by rw [hens]
      subst ha1
      have hre := read_end (ensureOrdering s.a ordered).1 max ordered obs
      -- a returned chunk lies in the buffered coverage, the coverage only shrinks
      have hchunk : ∀ a2 off bytes, read (ensureOrdering s.a ordered).1 max ordered obs = (a2, .chunk off bytes) →
          a2.bytesRead = (ensureOrdering s.a ordered).1.bytesRead + bytes.length ∧
          (∀ x, off ≤ x → x < off + bytes.length → mem x (ensureOrdering s.a ordered).1.cov) ∧
          (∀ x, mem x a2.cov → mem x (ensureOrdering s.a ordered).1.cov) := by
        intro a2 off bytes hrd
        cases ordered with
        | true =>
          have sp := read_ordered_spec g _ a2 max obs (.chunk off bytes) hrd heo.cons heo.wfc
          obtain ⟨_, _, _, _, d5, _, _, d8, _, _, d11⟩ := sp
          exact ⟨d5, d8, d11⟩
        | false =>
          have sp := read_unordered_spec g _ a2 max obs (.chunk off bytes) hrd heo.cons
          obtain ⟨_, _, _, d4, _, _, d7, d8⟩ := sp
          refine ⟨d4, d7, ?_⟩
          intro x hxm; rw [d8] at hxm; exact ((removeRange_mem _ _ _ x).mp hxm).1
      have hnone : ∀ a2, read (ensureOrdering s.a ordered).1 max ordered obs = (a2, .none) →
          a2 = (ensureOrdering s.a ordered).1 := by
        intro a2 hrd
        cases ordered with
        | true => exact (read_ordered_spec g _ a2 max obs .none hrd heo.cons heo.wfc).2.2.2.1
        | false => exact (read_unordered_spec g _ a2 max obs .none hrd heo.cons).2.2.2.1
      split at hs
      · rename_i a2 hrd
        cases hs
        rw [hnone a2 hrd]; exact hbase
      · rename_i a2 off bytes hrd
        cases hs
        obtain ⟨c1, c2, c3⟩ := hchunk a2 off bytes hrd
        have hend2 : a2.end_ = s.a.end_ := by
          have : (read (ensureOrdering s.a ordered).1 max ordered obs).1.end_ = _ := hre
          rw [hrd] at this; rw [this, hee]
        refine ⟨?_, ?_, ?_⟩
        · show a2.bytesRead = lenSum (rangeOf (ordered, off, bytes) :: delivered s)
          rw [c1]
          have := hbase.sumEq
          have hb' : (ensureOrdering s.a ordered).1.bytesRead = lenSum (delivered s) := this
          rw [hb']
          simp [lenSum, rangeOf]; omega
        · intro x hxm
          show x < a2.end_
          rw [hend2]
          have := hbase.covB x (c3 x hxm)
          have hq : x < (ensureOrdering s.a ordered).1.end_ := this
          rw [hee] at hq; exact hq
        · intro r hr hlt
          show r.2 ≤ a2.end_
          rw [hend2]
          have hr' : r ∈ rangeOf (ordered, off, bytes) :: delivered s := hr
          rcases List.mem_cons.mp hr' with e | e
          · subst e
            simp only [rangeOf] at hlt ⊢
            have hm := c2 (off + bytes.length - 1) (by omega) (by omega)
            have := hbase.covB _ hm
            have hq : off + bytes.length - 1 < (ensureOrdering s.a ordered).1.end_ := this
            rw [hee] at hq; omega
          · exact h.delB r e hlt
      · cases hs
  | ensure ordered =>
    simp only [step] at hs
    cases hs
    obtain ⟨e1, e2, e3, e4, e5, e6, e7, e8⟩ := ensure_spec s.a ordered ho.wfc
    have hee := ensure_end s.a ordered
    refine ⟨?_, ?_, ?_⟩
    · show (ensureOrdering s.a ordered).1.bytesRead = lenSum (delivered s); rw [e5]; exact h.sumEq
    · intro x hxm
      show x < (ensureOrdering s.a ordered).1.end_
      rw [hee]; exact h.covB x (e3 x hxm)
    · intro r hr hlt
      show r.2 ≤ (ensureOrdering s.a ordered).1.end_
      rw [hee]; exact h.delB r hr hlt
  | clear =>
    simp only [step] at hs
    cases hs
    exact ⟨h.sumEq, (by intro x hxm; exact absurd hxm (mem_nil x)), h.delB⟩

theorem run_invB (g : Nat → Nat) (ops : List Op) : ∀ (s s' : Sys), InvO g s → InvX s → InvB s →
    (∀ op ∈ ops, op.consistent g) → run s ops = some s' → InvB s' ∧ InvX s' := by
  induction ops with
  | nil => intro s s' _ h2 h3 _ hr; simp only [run] at hr; cases hr; exact ⟨h3, h2⟩
  | cons op ops ih =>
    intro s s' h1 h2 h3 hc hr
    simp only [run] at hr
    split at hr
    · rename_i s1 hs
      have hop := hc op List.mem_cons_self
      exact ih s1 s' (step_invO g s s1 op h1 hop hs) (step_invX g s s1 op h1 h2 hop hs)
        (step_invB g s s1 op h1 h2 h3 hop hs) (fun o ho => hc o (List.mem_cons_of_mem _ ho)) hr
    · cases hr

/-- the number of bytes handed to the application never exceeds the highest offset received -/
theorem bytesRead_le_end (g : Nat → Nat) (ops : List Op) (s : Sys) (hc : ∀ op ∈ ops, op.consistent g)
    (h : run Sys.init ops = some s) : s.a.bytesRead ≤ s.a.end_ := by
  obtain ⟨hb, hx⟩ := run_invB g ops _ _ (invO_init g) invX_init invB_init hc h
  rw [hb.sumEq]
  exact lenSum_le _ _ hx.px hb.delB

theorem finishInsert_no_panic (a : Asm) (off : Nat) (bytes : Bytes) (tm : Bool) (h : a.bytesRead ≤ a.end_) :
    (finishInsert a off bytes tm).2 ≠ .panic := by
  unfold finishInsert
  split
  · split <;> simp
  · rw [if_neg (by omega)]
    split
    · split <;> simp
    · simp

/-- `insert` of a frame with `len ≤ allocation_size` and `offset + len < 2^64` never panics -/
theorem insert_no_panic (g : Nat → Nat) (s : Sys) (ho : InvO g s) (hx : InvX s) (hle : s.a.bytesRead ≤ s.a.end_)
    (off : Nat) (bytes : Bytes) (alloc : Nat) (tm : Bool) (hb : bytes = stream g off bytes.length)
    (h1 : bytes.length ≤ alloc) (h2 : off + bytes.length < 2^64) :
    (insert s.a off bytes alloc tm).2 ≠ .panic := by
  have hmax : s.a.end_ ≤ Nat.max s.a.end_ (off + bytes.length) := by
    simp only [Nat.max_def]; split <;> omega
  unfold insert
  rw [if_neg (by omega), if_neg (by omega)]
  split
  · split <;> simp
  · rename_i hne
    split
    · rename_i hu
      have hne' : bytes ≠ [] := by intro e; rw [e] at hne; simp at hne
      have hlen : 0 < bytes.length := by
        cases bytes with
        | nil => exact absurd rfl hne'
        | cons _ _ => simp
      have hd := replace_dups s.a.recvd off (off + bytes.length) (hx.wfr hu) (by omega)
      obtain ⟨a1, off1, bytes1, e1, _⟩ :=
        dupLoop_cov s.a.recvd (RangeSet.replace s.a.recvd off (off + bytes.length)).1
          { s.a with end_ := Nat.max s.a.end_ (off + bytes.length),
                     recvd := (RangeSet.replace s.a.recvd off (off + bytes.length)).2 }
          off (off + bytes.length) bytes hd (by omega) (by omega) ho.wfc
      rw [e1]
      simp only
      have hinv := dupLoop_inv g _ _ off bytes a1 off1 bytes1 (by exact ho.cons) (by exact ho.wfc) hb e1
      apply finishInsert_no_panic
      rw [hinv.2.2.2.2.1, hinv.2.2.2.2.2.2]
      exact Nat.le_trans hle hmax
    · split
      · split
        · split <;> simp
        · exact finishInsert_no_panic _ _ _ _ (Nat.le_trans hle hmax)
      · exact finishInsert_no_panic _ _ _ _ (Nat.le_trans hle hmax)

/-! ### ordered read after an unordered one -/

theorem illegal_ordered (s : Sys) (hu : s.a.unordered = true) (max : Nat) (obs : Obs) :
    (ensureOrdering s.a true).2 = false ∧ step s (.read max true obs) = some s := by
  have h1 : ensureOrdering s.a true = (s.a, false) := by
    unfold ensureOrdering; simp [hu]
  refine ⟨by rw [h1], ?_⟩
  simp only [step, h1]

/-! ### regression: the call sequences that used to re-deliver data (corpus/asm/A1-*.ops, A2-*.ops) -/

/-- ground stream of the examples: byte at offset `o` is `o` -/
def gId : Nat → Nat := fun o => o

/-- formerly A1: `0..10` and the overlapping `2..6` arrive, an ordered read returns `0..10` (the chunk
    `2..6` stays in the heap), then the application switches to unordered reads: nothing is left -/
def formerA1 : List Op :=
  [.insert 0 (stream gId 0 10) 10 false, .insert 2 (stream gId 2 4) 4 false,
   .read 100 true (.chunk 0 10), .read 100 false .none]

/-- formerly A2: unordered mode; an empty frame at 20, data `25..30` (read), then the re-framed
    `15..30`: only `15..25` is new -/
def formerA2 : List Op :=
  [.ensure false, .insert 20 [] 0 false, .insert 25 (stream gId 25 5) 5 false,
   .read 100 false (.chunk 25 5), .insert 15 (stream gId 15 15) 15 false,
   .read 100 false (.chunk 15 10), .read 100 false .none]

theorem formerA1_delivered : (run Sys.init formerA1).map delivered = some [(0, 10)] := by decide

theorem formerA2_delivered : (run Sys.init formerA2).map delivered = some [(15, 25), (25, 30)] := by decide

end QM.Assembler
