import QuinnModel.Conn.Amplification
namespace QM.Amp

/-- the loop emits, from index i with `acc` bytes already produced by earlier datagrams of this call
    (acc ≤ seg*i), a list whose total keeps "budget remained before the last datagram" -/
theorem emit_bound (p : Path) (seg M : Nat) (hseg : seg ≤ M) (hv : p.validated = false) :
    ∀ (sizes : List Nat) (i acc : Nat), acc ≤ seg * i → (∀ s ∈ sizes, s ≤ seg) →
      (emit p seg i sizes = [] ∨ p.sent + acc + (emit p seg i sizes).sum + 1 ≤ 3 * p.recvd + M) := by
  intro sizes
  induction sizes with
  | nil => intro i acc _ _; left; rfl
  | cons s rest ih =>
    intro i acc hacc hs
    unfold emit
    by_cases hb : Gen.antiAmpBlocked p.validated p.sent p.recvd (Gen.antiAmpGateArg seg i) = true
    · left; simp [hb]
    · right
      simp only [hb, Bool.false_eq_true, if_false, List.sum_cons]
      have hs0 : s ≤ seg := hs s (by simp)
      have hgate : p.sent + (seg * i + 1) ≤ p.recvd * 3 := by
        simp [Gen.antiAmpBlocked, Gen.antiAmpGateArg, hv] at hb
        have hb' := of_decide_eq_false hb
        omega
      rcases ih (i+1) (acc + s) (by rw [Nat.mul_succ]; omega) (fun x hx => hs x (by simp [hx])) with h | h
      · rw [h]; simp; omega
      · omega

/-- the invariant: an unvalidated path has been sent at most 3× what it sent us, plus the documented
    allowance of completing one datagram (M = largest datagram) -/
def Inv (M : Nat) (p : Path) : Prop := p.validated = false → p.sent + 1 ≤ 3 * p.recvd + M

theorem step_inv (M : Nat) (hM : 0 < M) (p : Path) (e : Ev) (hw : e.wf M) (h : Inv M p) : Inv M (step p e) := by
  cases e with
  | recv n => intro hv; have := h hv; simp only [step] at *; omega
  | foreign n => exact h
  | handshakePacketProcessed => intro hv; simp [step] at hv
  | tokenValidated => intro hv; simp [step] at hv
  | pathResponseMatched => intro hv; simp [step] at hv
  | migrate n => intro _; simp only [step]; omega
  | poll seg sizes =>
    intro hv
    simp only [step] at hv ⊢
    obtain ⟨hseg, hs⟩ := hw
    rcases emit_bound p seg M hseg hv sizes 0 0 (by omega) hs with h0 | h0
    · rw [h0]; simpa using h hv
    · omega

theorem run_inv (M : Nat) (hM : 0 < M) (evs : List Ev) : ∀ (p : Path), (∀ e ∈ evs, e.wf M) → Inv M p → Inv M (run p evs) := by
  induction evs with
  | nil => intro p _ h; exact h
  | cons e rest ih =>
    intro p hw h
    exact ih (step p e) (fun x hx => hw x (by simp [hx])) (step_inv M hM p e (hw e (by simp)) h)

/-- per-datagram form of the gate (what the simulator's oracle checks on the real code): when a datagram is
    started, strictly less than 3× the received bytes had been sent, counting the earlier datagrams of the
    same call -/
theorem emit_gate (p : Path) (seg : Nat) (hv : p.validated = false) :
    ∀ (sizes : List Nat) (i acc : Nat), acc ≤ seg * i → (∀ s ∈ sizes, s ≤ seg) →
      ∀ k, k < (emit p seg i sizes).length →
        p.sent + acc + ((emit p seg i sizes).take k).sum < 3 * p.recvd := by
  intro sizes
  induction sizes with
  | nil => intro i acc _ _ k hk; simp [emit] at hk
  | cons s rest ih =>
    intro i acc hacc hs k hk
    unfold emit at hk ⊢
    by_cases hb : Gen.antiAmpBlocked p.validated p.sent p.recvd (Gen.antiAmpGateArg seg i) = true
    · simp [hb] at hk
    · simp only [hb, Bool.false_eq_true, if_false] at hk ⊢
      have hgate : p.sent + (seg * i + 1) ≤ p.recvd * 3 := by
        simp [Gen.antiAmpBlocked, Gen.antiAmpGateArg, hv] at hb
        have hb' := of_decide_eq_false hb
        omega
      cases k with
      | zero => simp; omega
      | succ k =>
        simp only [List.take_succ_cons, List.sum_cons]
        have hs0 : s ≤ seg := hs s (by simp)
        have := ih (i+1) (acc + s) (by rw [Nat.mul_succ]; omega) (fun x hx => hs x (by simp [hx])) k
          (by simpa using hk)
        omega

/-- one step turns the flag on only if the event is one of the causes -/
theorem step_validated_cause (p : Path) (e : Ev) (h : (step p e).validated = true) :
    p.validated = true ∨ e.isCause = true := by
  cases e <;> simp_all [step, Ev.isCause]

/-- a migration always leaves an unvalidated path -/
theorem step_migrate_unvalidated (p : Path) (n : Nat) : (step p (.migrate n)).validated = false := rfl

/-- without a cause among the events the flag never turns on -/
theorem run_no_cause (evs : List Ev) : ∀ (p : Path), p.validated = false → (∀ e ∈ evs, e.isCause = false) →
    (run p evs).validated = false := by
  induction evs with
  | nil => intro p h _; exact h
  | cons e rest ih =>
    intro p h hc
    have he : e.isCause = false := hc e (by simp)
    have hs : (step p e).validated = false := by
      cases hv : (step p e).validated with
      | false => rfl
      | true =>
        rcases step_validated_cause p e hv with h1 | h1
        · rw [h] at h1; cases h1
        · rw [he] at h1; cases h1
    exact ih (step p e) hs (fun x hx => hc x (by simp [hx]))

/-- a run that ends validated either started validated and never migrated, or contains a cause with no migration
    after it -/
theorem run_validated_cause' (evs : List Ev) : ∀ (p : Path), (run p evs).validated = true →
    (p.validated = true ∧ ∀ e ∈ evs, ∀ n, e ≠ .migrate n) ∨
    ∃ pre c post, evs = pre ++ c :: post ∧ c.isCause = true ∧ ∀ e ∈ post, ∀ n, e ≠ .migrate n := by
  induction evs with
  | nil => intro p hr; left; exact ⟨hr, by intro e he; cases he⟩
  | cons e rest ih =>
    intro p hr
    have hrun : run p (e :: rest) = run (step p e) rest := rfl
    rw [hrun] at hr
    rcases ih (step p e) hr with ⟨hv, hm⟩ | ⟨pre, c, post, he, hc, hp⟩
    · rcases step_validated_cause p e hv with h1 | h1
      · left
        refine ⟨h1, ?_⟩
        intro x hx n hxe
        rcases List.mem_cons.mp hx with hx | hx
        · subst hx; subst hxe; simp [step] at hv
        · exact hm x hx n hxe
      · right; exact ⟨[], e, rest, rfl, h1, hm⟩
    · right; exact ⟨e :: pre, c, post, by simp [he], hc, hp⟩

theorem run_validated_cause (evs : List Ev) (p : Path) (h : p.validated = false) (hr : (run p evs).validated = true) :
    ∃ pre c post, evs = pre ++ c :: post ∧ c.isCause = true ∧ ∀ e ∈ post, ∀ n, e ≠ .migrate n := by
  rcases run_validated_cause' evs p hr with ⟨hv, _⟩ | h'
  · rw [h] at hv; cases hv
  · exact h'

/-- the verdict on one datagram is sound for the events it stands for: "stays unvalidated" is issued only when the
    datagram stands for no cause (and then the events leave the flag off), "validated" only for a path that was -/
theorem rxVerdict_sound (p : Path) (hs pr : Bool) (b : Bool)
    (h : rxVerdict p.validated hs pr = some b) :
    (b = false → hs = false ∧ pr = false ∧ (run p (rxEvents hs pr)).validated = false) ∧ (b = true → p.validated = true) := by
  unfold rxVerdict at h
  cases hv : p.validated <;> cases hs <;> cases pr <;> simp_all [rxEvents, run]

/-- with a cause the verdict leaves the outcome open, and the events it stands for do validate -/
theorem rxVerdict_open (p : Path) (hs pr : Bool) (hv : p.validated = false) (hc : (hs || pr) = true) :
    rxVerdict p.validated hs pr = none ∧ (run p (rxEvents hs pr)).validated = true := by
  unfold rxVerdict
  cases hs <;> cases pr <;> simp_all [rxEvents, run, step]

end QM.Amp
