import QuinnModel.Recovery.Mtud
/-
Proofs about the MtuDiscovery model (C13).
-/
namespace QM.Mtud
open QM

/-! ### runs: a panic aborts the process, so a run stops at the first panic -/

/-- state after a sequence of calls (frozen before the first panicking call) -/
def exec (s : State) : List Op → State
  | [] => s
  | op :: ops => if (step s op).2 = .panic then s else exec (step s op).1 ops

/-- (call, result) of every completed call of a run -/
def trace (s : State) : List Op → List (Op × Out)
  | [] => []
  | op :: ops => if (step s op).2 = .panic then [] else (op, (step s op).2) :: trace (step s op).1 ops

/-- generic induction principle: an invariant of non-panicking steps holds after every run -/
theorem exec_induct (P : State → Prop) (hstep : ∀ s op, P s → (step s op).2 ≠ .panic → P (step s op).1)
    (ops : List Op) : ∀ s, P s → P (exec s ops) := by
  induction ops with
  | nil => intro s h; exact h
  | cons op ops ih =>
    intro s h
    simp only [exec]
    split
    · exact h
    · rename_i hp; exact ih _ (hstep s op h hp)

/-- the same with a contract on the calls that may depend on the current state -/
def okRun (C : State → Op → Prop) (s : State) : List Op → Prop
  | [] => True
  | op :: ops => C s op ∧ ((step s op).2 ≠ .panic → okRun C (step s op).1 ops)

instance okRunDec (C : State → Op → Prop) [inst : ∀ s op, Decidable (C s op)] :
    (s : State) → (ops : List Op) → Decidable (okRun C s ops)
  | _, [] => isTrue trivial
  | s, op :: ops =>
    have := okRunDec C (step s op).1 ops
    show Decidable (C s op ∧ ((step s op).2 ≠ .panic → okRun C (step s op).1 ops)) from inferInstance

theorem exec_induct_c (C : State → Op → Prop) (P : State → Prop)
    (hstep : ∀ s op, P s → C s op → (step s op).2 ≠ .panic → P (step s op).1)
    (ops : List Op) : ∀ s, P s → okRun C s ops → P (exec s ops) := by
  induction ops with
  | nil => intro s h _; exact h
  | cons op ops ih =>
    intro s h hc
    simp only [exec]
    split
    · exact h
    · rename_i hp; exact ih _ (hstep s op h hc.1 hp) (hc.2 hp)

/-! ### general invariant (no assumption on configuration or caller): bounds of a search never exceed the
peer's max_udp_payload_size; the suspicious-burst table is bounded -/

structure GOk (pm : Nat) (st : SearchState) : Prop where
  lo : st.lowerBound ≤ pm
  up : st.upperBound ≤ pm
  last : st.lastProbedMtu ≤ pm

theorem clamp_some (x lo hi : Nat) (h : lo ≤ hi) :
    ∃ u, clamp x lo hi = some u ∧ lo ≤ u ∧ u ≤ hi ∧ (lo < u → u ≤ x) ∧ (u = lo ∨ u = Nat.min x hi) := by
  unfold clamp
  have : ¬ lo > hi := by omega
  simp only [this, if_false]
  by_cases h1 : x < lo
  · exact ⟨lo, by simp [h1], by omega, h, by omega, Or.inl rfl⟩
  · by_cases h2 : x > hi
    · refine ⟨hi, by simp [h1, h2], h, by omega, by omega, Or.inr ?_⟩
      simp only [Nat.min_def]; split <;> omega
    · refine ⟨x, by simp [h1, h2], by omega, by omega, by omega, Or.inr ?_⟩
      simp only [Nat.min_def]; split <;> omega

/-- `SearchState::new` never hits the `clamp` assertion -/
theorem new_some (cur pm : Nat) (cfg : Config) :
    ∃ st, SearchState.new cur pm cfg = some st
      ∧ st.lowerBound = Nat.min cur pm ∧ st.lastProbedMtu = Nat.min cur pm ∧ st.inFlightProbe = none
      ∧ st.lostProbeCount = 0 ∧ st.minimumChange = cfg.minimumChange
      ∧ st.lowerBound ≤ st.upperBound ∧ st.upperBound ≤ pm
      ∧ (st.lowerBound < st.upperBound → st.upperBound ≤ cfg.upperBound) := by
  have hle : Nat.min cur pm ≤ pm := Nat.min_le_right _ _
  obtain ⟨u, hu, h1, h2, h3, _⟩ := clamp_some cfg.upperBound (Nat.min cur pm) pm hle
  refine ⟨{ inFlightProbe := none, lostProbeCount := 0, lowerBound := Nat.min cur pm, upperBound := u,
            minimumChange := cfg.minimumChange, lastProbedMtu := Nat.min cur pm }, ?_, rfl, rfl, rfl, rfl, rfl, h1, h2, h3⟩
  simp only [SearchState.new, Gen.mtudSearchLower, hu]

theorem new_gok (cur pm : Nat) (cfg : Config) (st : SearchState) (h : SearchState.new cur pm cfg = some st) :
    GOk pm st := by
  obtain ⟨st', h', hl, hla, _, _, _, hlu, hup, _⟩ := new_some cur pm cfg
  rw [h] at h'; cases h'
  have : Nat.min cur pm ≤ pm := Nat.min_le_right _ _
  exact ⟨by omega, hup, by omega⟩

theorem pick_fst (s : SearchState) : s.pick.1 = s := by
  unfold SearchState.pick; simp only; split
  · split <;> rfl
  · rfl

/-- what `pick` returns: the upper bound (last step), nothing (search finished) or the midpoint -/
theorem pick_snd (s : SearchState) :
    (s.pick.2 = some s.upperBound
        ∧ Gen.mtudStop (Gen.mtudMidpoint s.lowerBound s.upperBound) s.lastProbedMtu s.minimumChange = true
        ∧ Gen.mtudProbeUpper s.upperBound s.lastProbedMtu s.minimumChange = true)
    ∨ (s.pick.2 = none
        ∧ Gen.mtudStop (Gen.mtudMidpoint s.lowerBound s.upperBound) s.lastProbedMtu s.minimumChange = true
        ∧ Gen.mtudProbeUpper s.upperBound s.lastProbedMtu s.minimumChange = false)
    ∨ (s.pick.2 = some (Gen.mtudMidpoint s.lowerBound s.upperBound)
        ∧ Gen.mtudStop (Gen.mtudMidpoint s.lowerBound s.upperBound) s.lastProbedMtu s.minimumChange = false) := by
  unfold SearchState.pick; simp only
  cases h1 : Gen.mtudStop (Gen.mtudMidpoint s.lowerBound s.upperBound) s.lastProbedMtu s.minimumChange
  · right; right; simp
  · cases h2 : Gen.mtudProbeUpper s.upperBound s.lastProbedMtu s.minimumChange
    · right; left; simp
    · left; simp

theorem pick_gok (pm : Nat) (s : SearchState) (hg : GOk pm s) : ∀ p, s.pick.2 = some p → p ≤ pm := by
  intro p hp
  rcases pick_snd s with ⟨h, _⟩ | ⟨h, _⟩ | ⟨h, _⟩
  · rw [h] at hp; cases hp; exact hg.up
  · rw [h] at hp; cases hp
  · rw [h] at hp; cases hp
    have := hg.lo; have := hg.up
    simp only [Gen.mtudMidpoint]; omega

theorem nextMtu_gok (pm : Nat) (st : SearchState) (succ : Bool) (hg : GOk pm st) (st' : SearchState) (r : Option Nat)
    (h : st.nextMtuToProbe succ = some (st', r)) : GOk pm st' ∧ ∀ p, r = some p → p ≤ pm := by
  unfold SearchState.nextMtuToProbe at h
  split at h
  · simp at h
  · cases succ with
    | true =>
      simp only [if_true, Option.some.injEq] at h
      have hg' : GOk pm { st with lowerBound := st.lastProbedMtu } := ⟨hg.last, hg.up, hg.last⟩
      have h1 := pick_fst { st with lowerBound := st.lastProbedMtu }
      have h2 := pick_gok pm _ hg'
      rw [h] at h1 h2
      simp only at h1 h2
      exact ⟨by rw [h1]; exact hg', h2⟩
    | false =>
      simp only [Bool.false_eq_true, if_false] at h
      split at h
      · simp at h
      · simp only [Option.some.injEq] at h
        have hu : Gen.mtudUpperAfterLoss st.lastProbedMtu ≤ pm := by
          have := hg.last; simp only [Gen.mtudUpperAfterLoss]; omega
        have hg' : GOk pm { st with upperBound := Gen.mtudUpperAfterLoss st.lastProbedMtu } := ⟨hg.lo, hu, hg.last⟩
        have h1 := pick_fst { st with upperBound := Gen.mtudUpperAfterLoss st.lastProbedMtu }
        have h2 := pick_gok pm _ hg'
        rw [h] at h1 h2
        simp only at h1 h2
        exact ⟨by rw [h1]; exact hg', h2⟩

/-! ### case analysis of `EnabledMtuDiscovery::poll_transmit` while searching -/

theorem nextMtu_succ (st : SearchState) (h : st.inFlightProbe = none) :
    st.nextMtuToProbe true
      = some ({ st with lowerBound := st.lastProbedMtu }, (SearchState.pick { st with lowerBound := st.lastProbedMtu }).2) := by
  obtain ⟨lo, up, mc, last, fl, lost⟩ := st
  simp only at h; subst h
  have := pick_fst ({ lowerBound := last, upperBound := up, minimumChange := mc, lastProbedMtu := last,
                      inFlightProbe := none, lostProbeCount := lost } : SearchState)
  simp only [SearchState.nextMtuToProbe, Option.isSome_none, Bool.false_eq_true, if_false, if_true, Option.some.injEq]
  exact Prod.ext this rfl

theorem nextMtu_fail (st : SearchState) (h : st.inFlightProbe = none) (h0 : st.lastProbedMtu ≠ 0) :
    st.nextMtuToProbe false
      = some ({ st with upperBound := Gen.mtudUpperAfterLoss st.lastProbedMtu },
              (SearchState.pick { st with upperBound := Gen.mtudUpperAfterLoss st.lastProbedMtu }).2) := by
  obtain ⟨lo, up, mc, last, fl, lost⟩ := st
  simp only at h h0; subst h
  have := pick_fst ({ lowerBound := lo, upperBound := Gen.mtudUpperAfterLoss last, minimumChange := mc, lastProbedMtu := last,
                      inFlightProbe := none, lostProbeCount := lost } : SearchState)
  simp only [SearchState.nextMtuToProbe, Option.isSome_none, Bool.false_eq_true, if_false, h0, Option.some.injEq]
  exact Prod.ext this rfl

theorem retransmit_iff (n : Nat) : Gen.mtudRetransmit n = true ↔ 0 < n ∧ n < Gen.mtudMaxProbeRetransmits := by
  simp [Gen.mtudRetransmit]

/-- the five ways `poll_transmit` can go while searching -/
theorem pollSearching_cases (e : Enabled) (st : SearchState) (now pn : Nat) :
    -- a probe is in flight: nothing to do
    ((∃ q, st.inFlightProbe = some q) ∧ e.pollSearching st now pn = ({ e with phase := .searching st }, some none))
    -- retransmission of the lost probe
    ∨ (st.inFlightProbe = none ∧ 0 < st.lostProbeCount ∧ st.lostProbeCount < Gen.mtudMaxProbeRetransmits
        ∧ e.pollSearching st now pn =
            ({ e with phase := .searching { st with inFlightProbe := some pn } }, some (some st.lastProbedMtu)))
    -- the last probe succeeded (or none was sent yet): raise the lower bound
    ∨ (st.inFlightProbe = none ∧ st.lostProbeCount = 0
        ∧ ((∃ p, (SearchState.pick { st with lowerBound := st.lastProbedMtu }).2 = some p
              ∧ e.pollSearching st now pn =
                ({ e with phase := .searching { st with lowerBound := st.lastProbedMtu, inFlightProbe := some pn, lastProbedMtu := p } },
                 some (some p)))
          ∨ ((SearchState.pick { st with lowerBound := st.lastProbedMtu }).2 = none
              ∧ e.pollSearching st now pn = ({ e with phase := .complete (now + e.config.interval) }, some none))))
    -- the probe is given up, but `last_probed_mtu - 1` underflows
    ∨ (st.inFlightProbe = none ∧ Gen.mtudMaxProbeRetransmits ≤ st.lostProbeCount ∧ st.lastProbedMtu = 0
        ∧ e.pollSearching st now pn = ({ e with phase := .searching { st with lostProbeCount := 0, inFlightProbe := none } }, none))
    -- the probe is given up: lower the upper bound
    ∨ (st.inFlightProbe = none ∧ Gen.mtudMaxProbeRetransmits ≤ st.lostProbeCount ∧ st.lastProbedMtu ≠ 0
        ∧ ((∃ p, (SearchState.pick { st with lostProbeCount := 0, upperBound := Gen.mtudUpperAfterLoss st.lastProbedMtu }).2 = some p
              ∧ e.pollSearching st now pn =
                ({ e with phase := .searching { st with lostProbeCount := 0, upperBound := Gen.mtudUpperAfterLoss st.lastProbedMtu,
                                                        inFlightProbe := some pn, lastProbedMtu := p } },
                 some (some p)))
          ∨ ((SearchState.pick { st with lostProbeCount := 0, upperBound := Gen.mtudUpperAfterLoss st.lastProbedMtu }).2 = none
              ∧ e.pollSearching st now pn = ({ e with phase := .complete (now + e.config.interval) }, some none)))) := by
  obtain ⟨lo, up, mc, last, fl, lost⟩ := st
  cases fl with
  | some q => left; exact ⟨⟨q, rfl⟩, by simp [Enabled.pollSearching]⟩
  | none =>
    right
    dsimp only
    by_cases hr : Gen.mtudRetransmit lost = true
    · left
      obtain ⟨h1, h2⟩ := (retransmit_iff _).1 hr
      exact ⟨rfl, h1, h2, by simp [Enabled.pollSearching, hr]⟩
    · right
      have hr' : Gen.mtudRetransmit lost = false := by simpa using hr
      have hnr : ¬ (0 < lost ∧ lost < Gen.mtudMaxProbeRetransmits) := fun h => hr ((retransmit_iff _).2 h)
      by_cases hl : lost = 0
      · left
        refine ⟨rfl, hl, ?_⟩
        have hs : Gen.mtudLastProbeSucceeded lost = true := by simp [Gen.mtudLastProbeSucceeded, hl]
        have hn := nextMtu_succ ⟨lo, up, mc, last, none, lost⟩ rfl
        dsimp only at hn
        cases hp : (SearchState.pick ⟨last, up, mc, last, none, lost⟩).2 with
        | some p =>
          left; refine ⟨p, rfl, ?_⟩
          rw [hp] at hn
          simp [Enabled.pollSearching, hr', hs, hn]
        | none =>
          right; refine ⟨rfl, ?_⟩
          rw [hp] at hn
          simp [Enabled.pollSearching, hr', hs, hn]
      · right
        have hge : Gen.mtudMaxProbeRetransmits ≤ lost := by omega
        have hs : Gen.mtudLastProbeSucceeded lost = false := by simp [Gen.mtudLastProbeSucceeded, hl]
        by_cases h0 : last = 0
        · left
          refine ⟨rfl, hge, h0, ?_⟩
          simp [Enabled.pollSearching, hr', hs, SearchState.nextMtuToProbe, h0]
        · right
          refine ⟨rfl, hge, h0, ?_⟩
          have hn := nextMtu_fail ⟨lo, up, mc, last, none, 0⟩ rfl h0
          dsimp only at hn
          cases hp : (SearchState.pick ⟨lo, Gen.mtudUpperAfterLoss last, mc, last, none, 0⟩).2 with
          | some p =>
            left; refine ⟨p, rfl, ?_⟩
            rw [hp] at hn
            simp [Enabled.pollSearching, hr', hs, hn]
          | none =>
            right; refine ⟨rfl, ?_⟩
            rw [hp] at hn
            simp [Enabled.pollSearching, hr', hs, hn]

/-! ### the search invariant (needs `minimum_change ≥ 3` and the caller contract) -/

/-- termination measure of one binary search (see `Props.C13.search_terminates`) -/
def measure (st : SearchState) : Nat :=
  if st.inFlightProbe = none ∧ st.lostProbeCount = 0 then 4 * (st.upperBound - st.lastProbedMtu) + 3
  else if st.inFlightProbe = none ∧ Gen.mtudMaxProbeRetransmits ≤ st.lostProbeCount then
    4 * (st.lastProbedMtu - 1 - st.lowerBound) + 3
  else 4 * (st.upperBound - st.lowerBound) + (3 - st.lostProbeCount)

structure SOk (cur pm : Nat) (cfg : Config) (st : SearchState) : Prop where
  mc : st.minimumChange = cfg.minimumChange
  lo_last : st.lowerBound ≤ st.lastProbedMtu
  last_up : st.lastProbedMtu ≤ st.upperBound
  up_pm : st.upperBound ≤ pm
  up_cfg : st.lowerBound < st.upperBound → st.upperBound ≤ cfg.upperBound
  /-- nothing outstanding: the last probed size is the (peer-clamped) current MTU -/
  idle : st.inFlightProbe = none → st.lostProbeCount = 0 → st.lastProbedMtu = Nat.min cur pm
  /-- a probe is outstanding or was lost: it is larger than the current MTU, which is the lower bound -/
  busy : (st.inFlightProbe ≠ none ∨ st.lostProbeCount ≠ 0) → st.lowerBound = cur ∧ cur < st.lastProbedMtu
  lost_fl : st.inFlightProbe ≠ none → st.lostProbeCount ≤ 2
  lost3 : st.lostProbeCount ≤ 3

theorem pick_some (s : SearchState) (p : Nat) (h : s.pick.2 = some p) :
    (p = s.upperBound ∧ s.minimumChange ≤ s.upperBound - s.lastProbedMtu)
    ∨ (p = (s.lowerBound + s.upperBound) / 2
        ∧ s.minimumChange ≤ (if p ≤ s.lastProbedMtu then s.lastProbedMtu - p else p - s.lastProbedMtu)) := by
  rcases pick_snd s with ⟨h1, _, h3⟩ | ⟨h1, _⟩ | ⟨h1, h2⟩
  · rw [h1] at h; cases h
    left; refine ⟨rfl, ?_⟩
    simpa [Gen.mtudProbeUpper] using h3
  · rw [h1] at h; cases h
  · rw [h1] at h; cases h
    right; refine ⟨by simp [Gen.mtudMidpoint], ?_⟩
    simp only [Gen.mtudStop, Gen.mtudMidpoint] at h2 ⊢
    exact Nat.le_of_not_lt (of_decide_eq_false h2)

theorem new_sok (cur pm : Nat) (cfg : Config) (st : SearchState) (h : SearchState.new cur pm cfg = some st) :
    SOk cur pm cfg st := by
  obtain ⟨st', h', hl, hla, hfl, hlost, hmc, hlu, hup, hcfg⟩ := new_some cur pm cfg
  rw [h] at h'; cases h'
  exact ⟨hmc, by omega, by omega, hup, hcfg, fun _ _ => hla,
    fun hb => by rcases hb with hb | hb <;> first | exact absurd hfl hb | exact absurd hlost hb,
    fun hb => absurd hfl hb, by omega⟩

theorem measure_new (cur pm : Nat) (cfg : Config) (st : SearchState) (h : SearchState.new cur pm cfg = some st) :
    measure st = 4 * (st.upperBound - st.lowerBound) + 3 := by
  obtain ⟨st', h', hl, hla, hfl, hlost, _⟩ := new_some cur pm cfg
  rw [h] at h'; cases h'
  simp only [measure, hfl, hlost, and_self, if_true, hl, hla]

/-- one `poll_transmit` while searching, under the invariant: no panic; a probe is emitted only when none is in
    flight, it is larger than the current MTU and within both upper bounds; the invariant is kept; the measure
    does not grow -/
theorem pollSearching_ok (e : Enabled) (st : SearchState) (now pn cur : Nat) (h3 : 3 ≤ e.config.minimumChange)
    (hs : SOk cur e.peerMax e.config st) :
    ∃ e' r, e.pollSearching st now pn = (e', some r) ∧ e'.peerMax = e.peerMax ∧ e'.config = e.config
      ∧ ((∃ st', e'.phase = .searching st' ∧ SOk cur e.peerMax e.config st' ∧ measure st' = measure st
            ∧ (∀ p, r = some p → st.inFlightProbe = none ∧ st'.inFlightProbe = some pn ∧ st'.lastProbedMtu = p
                  ∧ cur < p ∧ p ≤ e.config.upperBound ∧ p ≤ e.peerMax)
            ∧ (r = none → st' = st ∧ ∃ q, st.inFlightProbe = some q))
        ∨ (e'.phase = .complete (now + e.config.interval) ∧ r = none ∧ st.inFlightProbe = none)) := by
  have hmc := hs.mc
  rcases pollSearching_cases e st now pn with
    ⟨⟨q, hq⟩, h⟩ | ⟨hfl, hl0, hl3, h⟩ | ⟨hfl, hl0, hsub⟩ | ⟨hfl, hge, h0, h⟩ | ⟨hfl, hge, h0, hsub⟩
  · -- in flight
    refine ⟨_, _, h, rfl, rfl, Or.inl ⟨st, rfl, hs, rfl, fun p hp => (by cases hp), fun _ => ⟨rfl, q, hq⟩⟩⟩
  · -- retransmit
    have hb := hs.busy (Or.inr (by omega))
    have hlu := hs.last_up; have hup := hs.up_pm
    refine ⟨_, _, h, rfl, rfl, Or.inl ⟨_, rfl, ?_, ?_, ?_, fun hr => by cases hr⟩⟩
    · exact ⟨hs.mc, hs.lo_last, hs.last_up, hs.up_pm, hs.up_cfg, fun hh => by simp at hh, fun _ => hb,
        fun _ => by simp only [Gen.mtudMaxProbeRetransmits] at hl3; dsimp only; omega, hs.lost3⟩
    · simp only [Gen.mtudMaxProbeRetransmits] at hl3
      have h1 : ¬ st.lostProbeCount = 0 := by omega
      have h2 : ¬ 3 ≤ st.lostProbeCount := by omega
      simp [measure, hfl, h1, h2, Gen.mtudMaxProbeRetransmits]
    · intro p hp
      cases hp
      have hcfg := hs.up_cfg (by omega)
      exact ⟨hfl, rfl, rfl, hb.2, by omega, by omega⟩
  · -- last probe succeeded
    have hidle := hs.idle hfl hl0
    have hlu := hs.last_up; have hup := hs.up_pm; have hll := hs.lo_last
    have hminle : Nat.min cur e.peerMax ≤ cur := Nat.min_le_left _ _
    rcases hsub with ⟨p, hp, h⟩ | ⟨hp, h⟩
    · have hpk := pick_some _ p hp
      simp only at hpk
      -- the probe is above the last probed size and at most the upper bound
      have hgt : st.lastProbedMtu < p ∧ p ≤ st.upperBound := by
        rcases hpk with ⟨h1, h2⟩ | ⟨h1, h2⟩
        · omega
        · split at h2 <;> omega
      -- hence the current MTU is below the peer limit and equals the last probed size
      have hcur : st.lastProbedMtu = cur := by
        rw [hidle]
        simp only [Nat.min_def]; split
        · rfl
        · rw [hidle] at hgt; simp only [Nat.min_def] at hgt; split at hgt <;> omega
      have hcfg := hs.up_cfg (by omega)
      refine ⟨_, _, h, rfl, rfl, Or.inl ⟨_, rfl, ?_, ?_, ?_, fun hr => by cases hr⟩⟩
      · exact ⟨hs.mc, by simp only; omega, by simp only; omega, hs.up_pm, fun hh => by simp only at hh ⊢; exact hs.up_cfg (by omega),
          fun hh => by simp at hh, fun _ => ⟨by simp only; exact hcur, by simp only; omega⟩,
          fun _ => by simp only; omega, by simp only; omega⟩
      · simp [measure, hfl, hl0]
      · intro p' hp'
        cases hp'
        exact ⟨hfl, rfl, rfl, by omega, by omega, by omega⟩
    · exact ⟨_, _, h, rfl, rfl, Or.inr ⟨rfl, rfl, hfl⟩⟩
  · -- underflow is impossible: a lost probe is larger than the current MTU
    simp only [Gen.mtudMaxProbeRetransmits] at hge
    have hb := hs.busy (Or.inr (by omega))
    omega
  · -- the probe is given up
    simp only [Gen.mtudMaxProbeRetransmits] at hge
    have hb := hs.busy (Or.inr (by omega))
    have hlu := hs.last_up; have hup := hs.up_pm; have hll := hs.lo_last
    rcases hsub with ⟨p, hp, h⟩ | ⟨hp, h⟩
    · have hpk := pick_some _ p hp
      simp only [Gen.mtudUpperAfterLoss] at hpk
      have hgt : cur < p ∧ p ≤ st.lastProbedMtu - 1 := by
        rcases hpk with ⟨h1, h2⟩ | ⟨h1, h2⟩
        · omega
        · split at h2 <;> omega
      have hcfg := hs.up_cfg (by omega)
      refine ⟨_, _, h, rfl, rfl, Or.inl ⟨_, rfl, ?_, ?_, ?_, fun hr => by cases hr⟩⟩
      · exact ⟨hs.mc, by simp only; omega, by simp only [Gen.mtudUpperAfterLoss]; omega,
          by simp only [Gen.mtudUpperAfterLoss]; omega,
          fun hh => by simp only [Gen.mtudUpperAfterLoss] at hh ⊢; omega,
          fun hh => by simp at hh, fun _ => ⟨by simp only; exact hb.1, by simp only; omega⟩,
          fun _ => by simp only; omega, by simp only; omega⟩
      · have h1 : ¬ st.lostProbeCount = 0 := by omega
        simp [measure, hfl, h1, hge, Gen.mtudMaxProbeRetransmits, Gen.mtudUpperAfterLoss]
      · intro p' hp'
        cases hp'
        exact ⟨hfl, rfl, rfl, by omega, by omega, by omega⟩
    · exact ⟨_, _, h, rfl, rfl, Or.inr ⟨rfl, rfl, hfl⟩⟩

/-! ### black hole detector: bounded table, `min_mtu` constant -/

theorem replaceFirst_length (m new : Nat) (l : List Nat) : (replaceFirst m new l).length = l.length := by
  induction l with
  | nil => rfl
  | cons x xs ih => simp only [replaceFirst]; split <;> simp [ih]

theorem finish_facts (d : Detector) :
    d.finishLossBurst.minMtu = d.minMtu ∧ d.finishLossBurst.current = none
    ∧ (d.bursts.length ≤ Gen.mtudBlackHoleThreshold + 1 → d.finishLossBurst.bursts.length ≤ Gen.mtudBlackHoleThreshold + 1) := by
  cases hc : d.current with
  | none =>
    have : d.finishLossBurst = d := by simp only [Detector.finishLossBurst, hc]
    rw [this]; exact ⟨rfl, hc, id⟩
  | some b =>
    cases hb : Gen.mtudBenign b.smallest b.latest d.minMtu d.largestPostLoss d.ackedMtu with
    | true =>
      have : d.finishLossBurst = { d with current := none } := by simp only [Detector.finishLossBurst, hc, hb, if_true]
      rw [this]; exact ⟨rfl, rfl, id⟩
    | false =>
      cases hr : Gen.mtudHasRoom d.bursts.length with
      | true =>
        have hroom : d.bursts.length ≤ Gen.mtudBlackHoleThreshold := by simpa [Gen.mtudHasRoom] using hr
        refine ⟨?_, ?_, ?_⟩ <;> cases hi : Gen.mtudInvalidates b.latest d.largestPostLoss <;>
          simp only [Detector.finishLossBurst, hc, hb, hi, hr, if_true, Bool.false_eq_true, if_false,
            List.length_append, List.length_cons, List.length_nil] <;> intro _ <;> omega
      | false =>
        cases hm : minOf d.bursts with
        | none =>
          refine ⟨?_, ?_, ?_⟩ <;> cases hi : Gen.mtudInvalidates b.latest d.largestPostLoss <;>
            simp only [Detector.finishLossBurst, hc, hb, hi, hr, hm, if_true, Bool.false_eq_true, if_false] <;>
            intro h <;> exact h
        | some m =>
          refine ⟨?_, ?_, ?_⟩ <;> cases hp : Gen.mtudReplaces m b.smallest <;>
            cases hi : Gen.mtudInvalidates b.latest d.largestPostLoss <;>
            simp only [Detector.finishLossBurst, hc, hb, hi, hr, hm, hp, if_true, Bool.false_eq_true, if_false,
              replaceFirst_length] <;> intro h <;> exact h

theorem detector_bhd_facts (d : Detector) :
    d.blackHoleDetected.1.minMtu = d.minMtu ∧ d.blackHoleDetected.1.current = none
    ∧ (d.bursts.length ≤ Gen.mtudBlackHoleThreshold + 1 → d.blackHoleDetected.1.bursts.length ≤ Gen.mtudBlackHoleThreshold + 1)
    ∧ (d.blackHoleDetected.2 = true → d.blackHoleDetected.1.bursts = [])
    ∧ (d.blackHoleDetected.2 = true ↔ Gen.mtudBlackHoleThreshold < d.finishLossBurst.bursts.length) := by
  obtain ⟨h1, h2, h3⟩ := finish_facts d
  cases hn : Gen.mtudNoBlackHole d.finishLossBurst.bursts.length with
  | true =>
    have hle : d.finishLossBurst.bursts.length ≤ Gen.mtudBlackHoleThreshold := by simpa [Gen.mtudNoBlackHole] using hn
    simp only [Detector.blackHoleDetected, hn, if_true]
    exact ⟨h1, h2, h3, fun h => by simp at h, ⟨fun h => by simp at h, fun h => by omega⟩⟩
  | false =>
    have hgt : Gen.mtudBlackHoleThreshold < d.finishLossBurst.bursts.length := by
      have := of_decide_eq_false hn; omega
    simp only [Detector.blackHoleDetected, hn, Bool.false_eq_true, if_false]
    exact ⟨h1, h2, fun _ => by simp, fun _ => trivial, ⟨fun _ => hgt, fun _ => trivial⟩⟩

theorem detector_lost_facts (d d' : Detector) (pn len : Nat) (h : d.onNonProbeLost pn len = some d') :
    d'.minMtu = d.minMtu
    ∧ (d.bursts.length ≤ Gen.mtudBlackHoleThreshold + 1 → d'.bursts.length ≤ Gen.mtudBlackHoleThreshold + 1) := by
  obtain ⟨h1, _, h3⟩ := finish_facts d
  unfold Detector.onNonProbeLost at h
  cases hc : d.current with
  | none => simp only [hc, Option.some.injEq] at h; subst h; exact ⟨rfl, fun h => h⟩
  | some c =>
    simp only [hc] at h
    split at h
    · simp at h
    · simp only [Option.some.injEq] at h; subst h
      split
      · exact ⟨h1, h3⟩
      · exact ⟨rfl, fun h => h⟩

theorem detector_acked_facts (d : Detector) (pn len : Nat) :
    (d.onProbeAcked pn len).minMtu = d.minMtu ∧ (d.onProbeAcked pn len).bursts = []
    ∧ (d.onNonProbeAcked pn len).minMtu = d.minMtu
    ∧ (d.onNonProbeAcked pn len).bursts.length ≤ d.bursts.length := by
  refine ⟨rfl, rfl, ?_, ?_⟩
  · unfold Detector.onNonProbeAcked; split <;> rfl
  · unfold Detector.onNonProbeAcked; split
    · exact Nat.le_refl _
    · exact List.length_filter_le _ _

/-! ### `EnabledMtuDiscovery::poll_transmit` as a whole -/

theorem pollTransmit_ok (e : Enabled) (now cur pn : Nat) (h3 : 3 ≤ e.config.minimumChange)
    (hs : ∀ st, e.phase = .searching st → SOk cur e.peerMax e.config st) :
    ∃ e' r, e.pollTransmit now cur pn = (e', some r) ∧ e'.peerMax = e.peerMax ∧ e'.config = e.config
      ∧ (∀ st', e'.phase = .searching st' → SOk cur e.peerMax e.config st')
      ∧ (∀ p, r = some p → cur < p ∧ p ≤ e.config.upperBound ∧ p ≤ e.peerMax
            ∧ (∀ st, e.phase = .searching st → st.inFlightProbe = none)
            ∧ ∃ st', e'.phase = .searching st' ∧ st'.inFlightProbe = some pn ∧ st'.lastProbedMtu = p)
      ∧ (∀ st st', e.phase = .searching st → e'.phase = .searching st' → measure st' = measure st)
      ∧ (r = none → ∀ st, e.phase = .searching st → st.inFlightProbe = none → ∃ t, e'.phase = .complete t) := by
  -- common part: run `pollSearching` on a search state that satisfies the invariant
  have main : ∀ st, SOk cur e.peerMax e.config st → (∀ st0, e.phase = .searching st0 → st0 = st) →
      ∃ e' r, e.pollSearching st now pn = (e', some r) ∧ e'.peerMax = e.peerMax ∧ e'.config = e.config
      ∧ (∀ st', e'.phase = .searching st' → SOk cur e.peerMax e.config st')
      ∧ (∀ p, r = some p → cur < p ∧ p ≤ e.config.upperBound ∧ p ≤ e.peerMax
            ∧ (∀ st, e.phase = .searching st → st.inFlightProbe = none)
            ∧ ∃ st', e'.phase = .searching st' ∧ st'.inFlightProbe = some pn ∧ st'.lastProbedMtu = p)
      ∧ (∀ st st', e.phase = .searching st → e'.phase = .searching st' → measure st' = measure st)
      ∧ (r = none → ∀ st, e.phase = .searching st → st.inFlightProbe = none → ∃ t, e'.phase = .complete t) := by
    intro st hsok huniq
    obtain ⟨e', r, hp, hpm, hcfg, hor⟩ := pollSearching_ok e st now pn cur h3 hsok
    refine ⟨e', r, hp, hpm, hcfg, ?_⟩
    rcases hor with ⟨st', hph, hsok', hmeas, hprobe, hnone⟩ | ⟨hph, hr, hfl⟩
    · refine ⟨?_, ?_, ?_, ?_⟩
      · intro st'' h; rw [hph] at h; cases h; exact hsok'
      · intro p hpr
        obtain ⟨h1, h2, h3', h4, h5, h6⟩ := hprobe p hpr
        exact ⟨h4, h5, h6, fun st0 h0 => by rw [huniq st0 h0]; exact h1, st', hph, h2, h3'⟩
      · intro st0 st'' h0 h'
        rw [hph] at h'; cases h'; rw [huniq st0 h0]; exact hmeas
      · intro hr st0 h0 hfl0
        obtain ⟨_, q, hq⟩ := hnone hr
        rw [huniq st0 h0] at hfl0; rw [hfl0] at hq; cases hq
    · refine ⟨?_, ?_, ?_, ?_⟩
      · intro st'' h; rw [hph] at h; cases h
      · intro p hpr; rw [hr] at hpr; cases hpr
      · intro st0 st'' _ h'; rw [hph] at h'; cases h'
      · intro _ _ _ _; exact ⟨_, hph⟩
  cases hph : e.phase with
  | initial =>
    obtain ⟨st0, hnew, _⟩ := new_some cur e.peerMax e.config
    have := main st0 (new_sok _ _ _ _ hnew) (fun st h => by rw [hph] at h; cases h)
    simpa [Enabled.pollTransmit, hph, hnew] using this
  | complete t =>
    by_cases hny : Gen.mtudNotYet now t = true
    · refine ⟨e, none, by simp [Enabled.pollTransmit, hph, hny], rfl, rfl, ?_, ?_, ?_, ?_⟩
      · intro st h; first | cases h | (rw [hph] at h; cases h)
      · intro p h; cases h
      · intro st st' h; first | cases h | (rw [hph] at h; cases h)
      · intro _ st h; first | cases h | (rw [hph] at h; cases h)
    · have hny' : Gen.mtudNotYet now t = false := by simpa using hny
      obtain ⟨st0, hnew, _⟩ := new_some cur e.peerMax e.config
      have := main st0 (new_sok _ _ _ _ hnew) (fun st h => by rw [hph] at h; cases h)
      simpa [Enabled.pollTransmit, hph, hnew, hny'] using this
  | searching st =>
    have := main st (hs st hph) (fun st0 h => by rw [hph] at h; cases h; rfl)
    simpa [Enabled.pollTransmit, hph] using this

/-! ### step equations at the `MtuDiscovery` level -/

theorem inFlight_iff (s : State) (pn : Nat) :
    inFlightMtuProbe s = some pn ↔ ∃ e st, s.state = some e ∧ e.phase = .searching st ∧ st.inFlightProbe = some pn := by
  unfold inFlightMtuProbe
  cases hs : s.state with
  | none => simp
  | some e =>
    obtain ⟨ph, pm, cfg⟩ := e
    cases ph with
    | initial => simp
    | complete t => simp
    | searching st => simp

theorem step_poll_disabled (s : State) (now pn : Nat) (h : s.state = none) :
    step s (.poll now pn) = (s, .probe none) := by simp [step, pollTransmit, h]

theorem step_poll_some (s : State) (now pn : Nat) (e e' : Enabled) (r : Option Nat) (h : s.state = some e)
    (hp : e.pollTransmit now s.currentMtu pn = (e', some r)) :
    step s (.poll now pn) = ({ s with state := some e' }, .probe r) := by simp [step, pollTransmit, h, hp]

theorem step_poll_panic (s : State) (now pn : Nat) (e e' : Enabled) (h : s.state = some e)
    (hp : e.pollTransmit now s.currentMtu pn = (e', none)) :
    step s (.poll now pn) = ({ s with state := some e' }, .panic) := by simp [step, pollTransmit, h, hp]

theorem onProbeAcked_some (e : Enabled) (pn : Nat) (e' : Enabled) (m : Nat) (h : e.onProbeAcked pn = some (e', m)) :
    ∃ st, e.phase = .searching st ∧ st.inFlightProbe = some pn
      ∧ e' = { e with phase := .searching { st with inFlightProbe := none, lostProbeCount := 0 } } ∧ m = st.lastProbedMtu := by
  unfold Enabled.onProbeAcked at h
  cases hph : e.phase with
  | initial => simp [hph] at h
  | complete t => simp [hph] at h
  | searching st =>
    simp only [hph] at h
    split at h
    · rename_i hfl
      simp only [Option.some.injEq, Prod.mk.injEq] at h
      exact ⟨st, rfl, hfl, h.1.symm, h.2.symm⟩
    · simp at h

theorem onProbeAcked_none (e : Enabled) (pn : Nat) (h : e.onProbeAcked pn = none) :
    ∀ st, e.phase = .searching st → st.inFlightProbe ≠ some pn := by
  intro st hph hfl
  simp [Enabled.onProbeAcked, hph, hfl] at h

/-- the three ways `on_acked` can go -/
theorem step_acked_cases (s : State) (isData : Bool) (pn len : Nat) :
    (isData = false ∧ step s (.acked isData pn len) = (s, .bool false))
    ∨ (isData = true ∧ (∀ e st, s.state = some e → e.phase = .searching st → st.inFlightProbe ≠ some pn)
        ∧ step s (.acked isData pn len) = ({ s with det := s.det.onNonProbeAcked pn len }, .bool false))
    ∨ (isData = true ∧ ∃ e st, s.state = some e ∧ e.phase = .searching st ∧ st.inFlightProbe = some pn
        ∧ step s (.acked isData pn len) =
            ({ s with currentMtu := st.lastProbedMtu,
                      state := some { e with phase := .searching { st with inFlightProbe := none, lostProbeCount := 0 } },
                      det := s.det.onProbeAcked pn len }, .bool true)) := by
  cases isData with
  | false => left; simp [step, onAcked]
  | true =>
    right
    cases hb : s.state.bind (fun e => e.onProbeAcked pn) with
    | none =>
      left
      refine ⟨rfl, ?_, by simp [step, onAcked, hb]⟩
      intro e st he hph
      rw [he] at hb
      exact onProbeAcked_none e pn (by simpa using hb) st hph
    | some r =>
      right
      obtain ⟨e', m⟩ := r
      cases hs : s.state with
      | none => rw [hs] at hb; simp at hb
      | some e =>
        rw [hs] at hb
        simp only [Option.bind_some] at hb
        obtain ⟨st, hph, hfl, he', hm⟩ := onProbeAcked_some e pn e' m hb
        refine ⟨rfl, e, st, rfl, hph, hfl, ?_⟩
        simp only [step, onAcked, hs, Option.bind_some, hb, Bool.not_true, Bool.false_eq_true, if_false, he', hm]

theorem reset_enabled (s : State) (c m : Nat) (e : Enabled) (h : s.state = some e) :
    reset s c m = { currentMtu := Gen.mtudPeerClamp c e.peerMax, state := some ⟨.initial, e.peerMax, e.config⟩,
                    det := Detector.new m, peerMax := e.peerMax } := by
  simp [reset, h, onPeerMax, Enabled.new]

theorem reset_disabled (s : State) (c m : Nat) (h : s.state = none) :
    reset s c m = { currentMtu := Gen.mtudResetClamp c s.peerMax, state := none, det := Detector.new m,
                    peerMax := s.peerMax } := by
  simp [reset, h]

/-- `on_peer_max_udp_payload_size_received`: the deliberate panic, exactly while a search is running -/
theorem peerMax_cases (s : State) (v : Nat) :
    (s.state = none ∧ onPeerMax s v = ({ s with currentMtu := Gen.mtudPeerClamp s.currentMtu v, peerMax := v }, .unit))
    ∨ (∃ e st, s.state = some e ∧ e.phase = .searching st
        ∧ onPeerMax s v = ({ s with currentMtu := Gen.mtudPeerClamp s.currentMtu v, peerMax := v }, .panic))
    ∨ (∃ e, s.state = some e ∧ (∀ st, e.phase ≠ .searching st)
        ∧ onPeerMax s v = ({ s with currentMtu := Gen.mtudPeerClamp s.currentMtu v, peerMax := v,
                                    state := some { e with peerMax := v } }, .unit)) := by
  cases hs : s.state with
  | none => left; simp [onPeerMax, hs]
  | some e =>
    right
    cases hph : e.phase with
    | searching st => left; exact ⟨e, st, rfl, hph, by simp [onPeerMax, hs, hph]⟩
    | initial => right; exact ⟨e, rfl, fun st h => by simp [hph] at h, by simp [onPeerMax, hs, hph]⟩
    | complete t => right; exact ⟨e, rfl, fun st h => by simp [hph] at h, by simp [onPeerMax, hs, hph]⟩

theorem bhd_cases (s : State) (now : Nat) :
    (s.det.blackHoleDetected.2 = false
        ∧ step s (.blackHole now) = ({ s with det := s.det.blackHoleDetected.1 }, .bool false))
    ∨ (s.det.blackHoleDetected.2 = true
        ∧ step s (.blackHole now) =
            ({ s with currentMtu := Gen.mtudBlackHoleMtu s.currentMtu s.det.blackHoleDetected.1.minMtu,
                      state := s.state.map (fun e => e.onBlackHoleDetected now),
                      det := s.det.blackHoleDetected.1 }, .bool true)) := by
  cases h : s.det.blackHoleDetected with
  | mk d b =>
    cases b with
    | false => left; simp [step, blackHoleDetected, h]
    | true => right; simp [step, blackHoleDetected, h]

/-! ### the general invariant at the `MtuDiscovery` level -/

theorem pollSearching_g (e : Enabled) (st : SearchState) (now pn : Nat) (hg : GOk e.peerMax st) :
    ∀ e' r, e.pollSearching st now pn = (e', r) → e'.peerMax = e.peerMax ∧ e'.config = e.config
      ∧ (∀ st', e'.phase = .searching st' → GOk e.peerMax st') ∧ (∀ p, r = some (some p) → p ≤ e.peerMax) := by
  intro e' r heq
  rcases pollSearching_cases e st now pn with
    ⟨_, h⟩ | ⟨_, _, _, h⟩ | ⟨_, _, hsub⟩ | ⟨_, _, _, h⟩ | ⟨_, _, _, hsub⟩
  · rw [h] at heq; cases heq
    exact ⟨rfl, rfl, fun st' h' => (by cases h'; exact hg), fun p hp => (by cases hp)⟩
  · rw [h] at heq; cases heq
    refine ⟨rfl, rfl, fun st' h' => ?_, fun p hp => ?_⟩
    · cases h'; exact ⟨hg.lo, hg.up, hg.last⟩
    · cases hp; exact hg.last
  · have hg1 : GOk e.peerMax { st with lowerBound := st.lastProbedMtu } := ⟨hg.last, hg.up, hg.last⟩
    rcases hsub with ⟨p, hp, h⟩ | ⟨_, h⟩
    · have hle := pick_gok _ _ hg1 p hp
      rw [h] at heq; cases heq
      refine ⟨rfl, rfl, fun st' h' => ?_, fun p' hp' => ?_⟩
      · cases h'; exact ⟨hg.last, hg.up, hle⟩
      · cases hp'; exact hle
    · rw [h] at heq; cases heq
      exact ⟨rfl, rfl, fun st' h' => (by cases h'), fun p hp => (by cases hp)⟩
  · rw [h] at heq; cases heq
    refine ⟨rfl, rfl, fun st' h' => ?_, fun p hp => by cases hp⟩
    cases h'; exact ⟨hg.lo, hg.up, hg.last⟩
  · have hu : Gen.mtudUpperAfterLoss st.lastProbedMtu ≤ e.peerMax := by
      have := hg.last; simp only [Gen.mtudUpperAfterLoss]; omega
    have hg1 : GOk e.peerMax { st with lostProbeCount := 0, upperBound := Gen.mtudUpperAfterLoss st.lastProbedMtu } :=
      ⟨hg.lo, hu, hg.last⟩
    rcases hsub with ⟨p, hp, h⟩ | ⟨_, h⟩
    · have hle := pick_gok _ _ hg1 p hp
      rw [h] at heq; cases heq
      refine ⟨rfl, rfl, fun st' h' => ?_, fun p' hp' => ?_⟩
      · cases h'; exact ⟨hg.lo, hu, hle⟩
      · cases hp'; exact hle
    · rw [h] at heq; cases heq
      exact ⟨rfl, rfl, fun st' h' => (by cases h'), fun p hp => (by cases hp)⟩

theorem pollTransmit_g (e : Enabled) (now cur pn : Nat) (hg : ∀ st, e.phase = .searching st → GOk e.peerMax st) :
    ∀ e' r, e.pollTransmit now cur pn = (e', r) → e'.peerMax = e.peerMax ∧ e'.config = e.config
      ∧ (∀ st', e'.phase = .searching st' → GOk e.peerMax st') ∧ (∀ p, r = some (some p) → p ≤ e.peerMax) := by
  intro e' r heq
  cases hph : e.phase with
  | initial =>
    obtain ⟨st0, hnew, _⟩ := new_some cur e.peerMax e.config
    simp only [Enabled.pollTransmit, hph, hnew] at heq
    exact pollSearching_g e st0 now pn (new_gok _ _ _ _ hnew) e' r heq
  | complete t =>
    by_cases hny : Gen.mtudNotYet now t = true
    · simp only [Enabled.pollTransmit, hph, hny, if_true] at heq
      cases heq
      exact ⟨rfl, rfl, fun st' h' => hg st' h', fun p hp => by cases hp⟩
    · have hny' : Gen.mtudNotYet now t = false := by simpa using hny
      obtain ⟨st0, hnew, _⟩ := new_some cur e.peerMax e.config
      simp only [Enabled.pollTransmit, hph, hny', Bool.false_eq_true, if_false, hnew] at heq
      exact pollSearching_g e st0 now pn (new_gok _ _ _ _ hnew) e' r heq
  | searching st =>
    simp only [Enabled.pollTransmit, hph] at heq
    exact pollSearching_g e st now pn (hg st hph) e' r heq

/-- bounds of a running search never exceed the peer limit; the burst table holds at most THRESHOLD + 1 entries -/
def GInv0 (s : State) : Prop :=
  (∀ e, s.state = some e → ∀ st, e.phase = .searching st → GOk e.peerMax st)
  ∧ s.det.bursts.length ≤ Gen.mtudBlackHoleThreshold + 1

/-- … and the limit stored in the discovery state is the one remembered at the top level -/
def GInv (s : State) : Prop :=
  (∀ e, s.state = some e → ∀ st, e.phase = .searching st → GOk e.peerMax st)
  ∧ s.det.bursts.length ≤ Gen.mtudBlackHoleThreshold + 1
  ∧ (∀ e, s.state = some e → e.peerMax = s.peerMax)

theorem step_ginv0 (s : State) (op : Op) (hg : GInv0 s) (hp : (step s op).2 ≠ .panic) : GInv0 (step s op).1 := by
  obtain ⟨hs, hd⟩ := hg
  cases op with
  | poll now pn =>
    cases hst : s.state with
    | none => rw [step_poll_disabled s now pn hst]; exact ⟨hs, hd⟩
    | some e =>
      cases hpt : e.pollTransmit now s.currentMtu pn with
      | mk e' r =>
        obtain ⟨hpm, _, hg', _⟩ := pollTransmit_g e now s.currentMtu pn (hs e hst) e' r hpt
        cases r with
        | none => rw [step_poll_panic s now pn e e' hst hpt] at hp; simp at hp
        | some r =>
          rw [step_poll_some s now pn e e' r hst hpt]
          refine ⟨fun e'' he'' => ?_, hd⟩
          simp only [Option.some.injEq] at he''; subst he''
          intro st' h'; rw [hpm]; exact hg' st' h'
  | acked isData pn len =>
    rcases step_acked_cases s isData pn len with ⟨_, h⟩ | ⟨_, _, h⟩ | ⟨_, e, st, he, hph, _, h⟩
    · rw [h]; exact ⟨hs, hd⟩
    · rw [h]; exact ⟨hs, Nat.le_trans (detector_acked_facts s.det pn len).2.2.2 hd⟩
    · rw [h]
      refine ⟨fun e'' he'' => ?_, by simp [(detector_acked_facts s.det pn len).2.1]⟩
      simp only [Option.some.injEq] at he''; subst he''
      intro st' h'; simp only [Phase.searching.injEq] at h'; subst h'
      have := hs e he st hph
      exact ⟨this.lo, this.up, this.last⟩
  | probeLost =>
    simp only [step, onProbeLost]
    refine ⟨fun e'' he'' => ?_, hd⟩
    cases hst : s.state with
    | none => simp [hst] at he''
    | some e =>
      simp only [hst, Option.map_some, Option.some.injEq] at he''; subst he''
      intro st' h'
      unfold Enabled.onProbeLost at h' ⊢
      cases hph : e.phase with
      | searching st =>
        simp only [hph, Phase.searching.injEq] at h' ⊢; subst h'
        have := hs e hst st hph
        exact ⟨this.lo, this.up, this.last⟩
      | initial => simp [hph] at h'
      | complete t => simp [hph] at h'
  | nonProbeLost pn len =>
    simp only [step, onNonProbeLost] at hp ⊢
    cases hl : s.det.onNonProbeLost pn len with
    | none => simp [hl] at hp
    | some d' => simp only [hl]; exact ⟨hs, (detector_lost_facts s.det d' pn len hl).2 hd⟩
  | blackHole now =>
    obtain ⟨_, _, hlen, hclr, _⟩ := detector_bhd_facts s.det
    rcases bhd_cases s now with ⟨_, h⟩ | ⟨ht, h⟩
    · rw [h]; exact ⟨hs, hlen hd⟩
    · rw [h]
      refine ⟨fun e'' he'' => ?_, by simp [hclr ht]⟩
      cases hst : s.state with
      | none => simp [hst] at he''
      | some e =>
        simp only [hst, Option.map_some, Option.some.injEq] at he''; subst he''
        intro st' h'; simp [Enabled.onBlackHoleDetected] at h'
  | peerMax v =>
    simp only [step] at hp ⊢
    rcases peerMax_cases s v with ⟨hn, h⟩ | ⟨e, st, _, _, h⟩ | ⟨e, he, hns, h⟩
    · rw [h]; exact ⟨fun e' he' => by simp [hn] at he', hd⟩
    · rw [h] at hp; simp at hp
    · rw [h]
      refine ⟨fun e'' he'' => ?_, hd⟩
      simp only [Option.some.injEq] at he''; subst he''
      intro st' h'; exact absurd h' (hns st')
  | reset c m =>
    simp only [step]
    cases hst : s.state with
    | none => rw [reset_disabled s c m hst]; exact ⟨fun e' he' => by simp at he', by simp [Detector.new]⟩
    | some e =>
      rw [reset_enabled s c m e hst]
      refine ⟨fun e'' he'' => ?_, by simp [Detector.new]⟩
      simp only [Option.some.injEq] at he''; subst he''
      intro st' h'; simp at h'

theorem step_pmeq (s : State) (op : Op) (hg : GInv0 s) (hq : ∀ e, s.state = some e → e.peerMax = s.peerMax)
    (hp : (step s op).2 ≠ .panic) : ∀ e, (step s op).1.state = some e → e.peerMax = (step s op).1.peerMax := by
  cases op with
  | poll now pn =>
    cases hst : s.state with
    | none => rw [step_poll_disabled s now pn hst]; exact hq
    | some e =>
      cases hpt : e.pollTransmit now s.currentMtu pn with
      | mk e' r =>
        obtain ⟨hpm, _⟩ := pollTransmit_g e now s.currentMtu pn (hg.1 e hst) e' r hpt
        cases r with
        | none => rw [step_poll_panic s now pn e e' hst hpt] at hp; simp at hp
        | some r =>
          rw [step_poll_some s now pn e e' r hst hpt]
          intro e'' he''
          simp only [Option.some.injEq] at he''; subst he''
          rw [hpm]; exact hq e hst
  | acked isData pn len =>
    rcases step_acked_cases s isData pn len with ⟨_, h⟩ | ⟨_, _, h⟩ | ⟨_, e, st, he, hph, hfl, h⟩
    · rw [h]; exact hq
    · rw [h]; exact hq
    · rw [h]
      intro e'' he''
      simp only [Option.some.injEq] at he''; subst he''
      exact hq e he
  | probeLost =>
    simp only [step, onProbeLost]
    intro e'' he''
    cases hst : s.state with
    | none => simp [hst] at he''
    | some e =>
      simp only [hst, Option.map_some, Option.some.injEq] at he''; subst he''
      have : (Enabled.onProbeLost e).peerMax = e.peerMax := by unfold Enabled.onProbeLost; split <;> rfl
      rw [this]; exact hq e hst
  | nonProbeLost pn len =>
    simp only [step, onNonProbeLost] at hp ⊢
    cases hl : s.det.onNonProbeLost pn len with
    | none => simp [hl] at hp
    | some d' => simp only [hl]; exact hq
  | blackHole now =>
    rcases bhd_cases s now with ⟨_, h⟩ | ⟨_, h⟩
    · rw [h]; exact hq
    · rw [h]
      intro e'' he''
      cases hst : s.state with
      | none => simp [hst] at he''
      | some e =>
        simp only [hst, Option.map_some, Option.some.injEq] at he''; subst he''
        exact hq e hst
  | peerMax v =>
    simp only [step] at hp ⊢
    rcases peerMax_cases s v with ⟨hn, h⟩ | ⟨e, st, _, _, h⟩ | ⟨e, he, hns, h⟩
    · rw [h]; intro e' he'; simp [hn] at he'
    · rw [h] at hp; simp at hp
    · rw [h]
      intro e'' he''
      simp only [Option.some.injEq] at he''; subst he''
      rfl
  | reset c m =>
    simp only [step]
    cases hst : s.state with
    | none => rw [reset_disabled s c m hst]; intro e' he'; simp at he'
    | some e =>
      rw [reset_enabled s c m e hst]
      intro e'' he''
      simp only [Option.some.injEq] at he''; subst he''
      rfl

theorem step_ginv (s : State) (op : Op) (hg : GInv s) (hp : (step s op).2 ≠ .panic) : GInv (step s op).1 :=
  have h0 := step_ginv0 s op ⟨hg.1, hg.2.1⟩ hp
  ⟨h0.1, h0.2, step_pmeq s op ⟨hg.1, hg.2.1⟩ hg.2.2 hp⟩

/-- every probe size returned by `poll_transmit` is at most the peer's max_udp_payload_size (no assumptions) -/
theorem poll_probe_le_peer (s : State) (hg : GInv s) (now pn p : Nat) (h : (step s (.poll now pn)).2 = .probe (some p)) :
    ∃ e, s.state = some e ∧ p ≤ e.peerMax := by
  cases hst : s.state with
  | none => rw [step_poll_disabled s now pn hst] at h; simp at h
  | some e =>
    cases hpt : e.pollTransmit now s.currentMtu pn with
    | mk e' r =>
      obtain ⟨_, _, _, hle⟩ := pollTransmit_g e now s.currentMtu pn (hg.1 e hst) e' r hpt
      cases r with
      | none => rw [step_poll_panic s now pn e e' hst hpt] at h; simp at h
      | some r =>
        rw [step_poll_some s now pn e e' r hst hpt] at h
        simp only [Out.probe.injEq] at h
        exact ⟨e, rfl, hle p (by rw [h])⟩

/-! ### the search invariant at the `MtuDiscovery` level -/

/-- `minimum_change ≥ 3` and every running search satisfies `SOk` -/
def SInv (s : State) : Prop :=
  ∀ e, s.state = some e → 3 ≤ e.config.minimumChange
    ∧ ∀ st, e.phase = .searching st → SOk s.currentMtu e.peerMax e.config st

/-- what `Connection::detect_lost_packets` guarantees: `on_probe_lost` is only called for the in-flight probe -/
def Contract (s : State) : Op → Prop
  | .probeLost => (inFlightMtuProbe s).isSome = true
  | _ => True

instance (s : State) (op : Op) : Decidable (Contract s op) := by
  cases op <;> simp only [Contract] <;> infer_instance

theorem step_sinv (s : State) (op : Op) (hi : SInv s) (hc : Contract s op) (hp : (step s op).2 ≠ .panic) :
    SInv (step s op).1 := by
  cases op with
  | poll now pn =>
    cases hst : s.state with
    | none => rw [step_poll_disabled s now pn hst]; exact hi
    | some e =>
      obtain ⟨h3, hs⟩ := hi e hst
      obtain ⟨e', r, hpt, hpm, hcfg, hsok, _⟩ := pollTransmit_ok e now s.currentMtu pn h3 hs
      rw [step_poll_some s now pn e e' r hst hpt]
      intro e'' he''
      simp only [Option.some.injEq] at he''; subst he''
      exact ⟨by rw [hcfg]; exact h3, fun st' h' => by rw [hpm, hcfg]; exact hsok st' h'⟩
  | acked isData pn len =>
    rcases step_acked_cases s isData pn len with ⟨_, h⟩ | ⟨_, _, h⟩ | ⟨_, e, st, he, hph, hfl, h⟩
    · rw [h]; exact hi
    · rw [h]; exact hi
    · rw [h]
      obtain ⟨h3, hs⟩ := hi e he
      have hk := hs st hph
      intro e'' he''
      simp only [Option.some.injEq] at he''; subst he''
      refine ⟨h3, fun st' h' => ?_⟩
      simp only [Phase.searching.injEq] at h'; subst h'
      have h1 := hk.last_up; have h2 := hk.up_pm
      refine ⟨hk.mc, hk.lo_last, hk.last_up, hk.up_pm, hk.up_cfg, fun _ _ => ?_, fun hb => ?_, fun hb => ?_, by simp⟩
      · simp only [Nat.min_def]; split <;> omega
      · simp at hb
      · simp at hb
  | probeLost =>
    obtain ⟨q, hq⟩ := Option.isSome_iff_exists.1 hc
    obtain ⟨e, st, he, hph, hfl⟩ := (inFlight_iff s q).1 hq
    obtain ⟨h3, hs⟩ := hi e he
    have hk := hs st hph
    simp only [step, onProbeLost]
    intro e'' he''
    simp only [he, Option.map_some, Option.some.injEq] at he''; subst he''
    simp only [Enabled.onProbeLost, hph]
    refine ⟨h3, fun st' h' => ?_⟩
    simp only [Phase.searching.injEq] at h'; subst h'
    have hb := hk.busy (Or.inl (by rw [hfl]; simp))
    have hl := hk.lost_fl (by rw [hfl]; simp)
    exact ⟨hk.mc, hk.lo_last, hk.last_up, hk.up_pm, hk.up_cfg, fun _ h0 => by simp at h0, fun _ => hb,
      fun hb' => by simp at hb', by simp only; omega⟩
  | nonProbeLost pn len =>
    simp only [step, onNonProbeLost] at hp ⊢
    cases hl : s.det.onNonProbeLost pn len with
    | none => simp [hl] at hp
    | some d' => simp only [hl]; exact hi
  | blackHole now =>
    rcases bhd_cases s now with ⟨_, h⟩ | ⟨_, h⟩
    · rw [h]; exact hi
    · rw [h]
      intro e'' he''
      cases hst : s.state with
      | none => simp [hst] at he''
      | some e =>
        simp only [hst, Option.map_some, Option.some.injEq] at he''; subst he''
        exact ⟨(hi e hst).1, fun st' h' => by simp [Enabled.onBlackHoleDetected] at h'⟩
  | peerMax v =>
    simp only [step] at hp ⊢
    rcases peerMax_cases s v with ⟨hn, h⟩ | ⟨e, st, _, _, h⟩ | ⟨e, he, hns, h⟩
    · rw [h]; intro e' he'; simp [hn] at he'
    · rw [h] at hp; simp at hp
    · rw [h]
      intro e'' he''
      simp only [Option.some.injEq] at he''; subst he''
      exact ⟨(hi e he).1, fun st' h' => absurd h' (hns st')⟩
  | reset c m =>
    simp only [step]
    cases hst : s.state with
    | none => rw [reset_disabled s c m hst]; intro e' he'; simp at he'
    | some e =>
      rw [reset_enabled s c m e hst]
      intro e'' he''
      simp only [Option.some.injEq] at he''; subst he''
      exact ⟨(hi e hst).1, fun st' h' => by simp at h'⟩

/-- under the invariant: no panic, probes strictly above the current MTU and within both upper bounds, only
    when no probe is in flight -/
theorem poll_ok (s : State) (hi : SInv s) (now pn : Nat) :
    (step s (.poll now pn)).2 ≠ .panic
    ∧ ∀ p, (step s (.poll now pn)).2 = .probe (some p) →
        ∃ e, s.state = some e ∧ s.currentMtu < p ∧ p ≤ e.config.upperBound ∧ p ≤ e.peerMax
          ∧ inFlightMtuProbe s = none ∧ inFlightMtuProbe (step s (.poll now pn)).1 = some pn := by
  cases hst : s.state with
  | none => rw [step_poll_disabled s now pn hst]; simp
  | some e =>
    obtain ⟨h3, hs⟩ := hi e hst
    obtain ⟨e', r, hpt, hpm, hcfg, _, hprobe, _⟩ := pollTransmit_ok e now s.currentMtu pn h3 hs
    rw [step_poll_some s now pn e e' r hst hpt]
    refine ⟨by simp, fun p hp => ?_⟩
    simp only [Out.probe.injEq] at hp
    obtain ⟨h1, h2, h3', h4, st', hph', hfl', _⟩ := hprobe p hp
    refine ⟨e, rfl, h1, h2, h3', ?_, ?_⟩
    · cases hfl : inFlightMtuProbe s with
      | none => rfl
      | some q =>
        obtain ⟨e0, st0, he0, hph0, hq⟩ := (inFlight_iff s q).1 hfl
        rw [hst] at he0; cases he0
        rw [h4 st0 hph0] at hq; cases hq
    · exact (inFlight_iff _ pn).2 ⟨e', st', rfl, hph', hfl'⟩

/-! ### how `current_mtu` can change -/

theorem step_poll_mtu (s : State) (now pn : Nat) : (step s (.poll now pn)).1.currentMtu = s.currentMtu
    ∧ (step s (.poll now pn)).1.det = s.det := by
  cases hst : s.state with
  | none => rw [step_poll_disabled s now pn hst]; exact ⟨rfl, rfl⟩
  | some e =>
    cases hpt : e.pollTransmit now s.currentMtu pn with
    | mk e' r =>
      cases r with
      | none => rw [step_poll_panic s now pn e e' hst hpt]; exact ⟨rfl, rfl⟩
      | some r => rw [step_poll_some s now pn e e' r hst hpt]; exact ⟨rfl, rfl⟩

/-- `current_mtu` changes only by: the ack of the in-flight probe (to exactly the probed size), a peer limit
    (down to that limit), a detected black hole (down to `min_mtu`), or `reset` -/
theorem mtu_change (s : State) (op : Op) (hne : (step s op).1.currentMtu ≠ s.currentMtu) :
    (∃ pn len e st, op = .acked true pn len ∧ s.state = some e ∧ e.phase = .searching st
        ∧ st.inFlightProbe = some pn ∧ (step s op).1.currentMtu = st.lastProbedMtu ∧ (step s op).2 = .bool true)
    ∨ (∃ v, op = .peerMax v ∧ (step s op).1.currentMtu = v ∧ v < s.currentMtu)
    ∨ (∃ now, op = .blackHole now ∧ (step s op).2 = .bool true ∧ (step s op).1.currentMtu = s.det.minMtu
        ∧ s.det.minMtu < s.currentMtu)
    ∨ (∃ c m, op = .reset c m) := by
  cases op with
  | poll now pn => exact absurd (step_poll_mtu s now pn).1 hne
  | acked isData pn len =>
    rcases step_acked_cases s isData pn len with ⟨_, h⟩ | ⟨_, _, h⟩ | ⟨hd, e, st, he, hph, hfl, h⟩
    · rw [h] at hne; exact absurd rfl hne
    · rw [h] at hne; exact absurd rfl hne
    · left; subst hd; exact ⟨pn, len, e, st, rfl, he, hph, hfl, by rw [h], by rw [h]⟩
  | probeLost => simp only [step, onProbeLost] at hne; exact absurd rfl hne
  | nonProbeLost pn len =>
    simp only [step, onNonProbeLost] at hne
    cases hl : s.det.onNonProbeLost pn len <;> simp [hl] at hne
  | blackHole now =>
    rcases bhd_cases s now with ⟨_, h⟩ | ⟨_, h⟩
    · rw [h] at hne; exact absurd rfl hne
    · right; right; left
      have hmin := (detector_bhd_facts s.det).1
      rw [h] at hne ⊢
      simp only [hmin, Gen.mtudBlackHoleMtu, Nat.min_def] at hne ⊢
      split at hne
      · exact absurd rfl hne
      · rename_i hgt
        refine ⟨now, rfl, ?_⟩
        simp only [hgt, if_false, true_and]
        omega
  | peerMax v =>
    right; left
    refine ⟨v, rfl, ?_⟩
    have hcur : (step s (.peerMax v)).1.currentMtu = Gen.mtudPeerClamp s.currentMtu v := by
      simp only [step]
      rcases peerMax_cases s v with ⟨_, h⟩ | ⟨_, _, _, _, h⟩ | ⟨_, _, _, h⟩ <;> rw [h]
    rw [hcur] at hne ⊢
    simp only [Gen.mtudPeerClamp, Nat.min_def] at hne ⊢
    split at hne
    · exact absurd rfl hne
    · split <;> omega
  | reset c m => right; right; right; exact ⟨c, m, rfl⟩

/-- under the search invariant the ack of the in-flight probe RAISES `current_mtu` -/
theorem acked_raises (s : State) (hi : SInv s) (e : Enabled) (st : SearchState) (pn : Nat) (he : s.state = some e)
    (hph : e.phase = .searching st) (hfl : st.inFlightProbe = some pn) : s.currentMtu < st.lastProbedMtu :=
  (((hi e he).2 st hph).busy (Or.inl (by rw [hfl]; simp))).2

/-! ### floor and ceiling -/

/-- `current_mtu ≥ min(min_mtu, peer max_udp_payload_size)` -/
def Floor (s : State) : Prop := Nat.min s.det.minMtu s.peerMax ≤ s.currentMtu

/-- what `PathData::reset` guarantees: the MTU it resets to is `max(initial_mtu, min_mtu) ≥ min_mtu` -/
def ResetContract (_ : State) : Op → Prop
  | .reset c m => m ≤ c
  | _ => True

/-- additional assumption for the floor as a STATE invariant: a later peer limit is not larger than an earlier one
    (otherwise the floor itself rises above an estimate that was clamped by the earlier limit) -/
def PeerMonotone (s : State) : Op → Prop
  | .peerMax v => v ≤ s.peerMax
  | _ => True

/-- a step that LOWERS `current_mtu` never lands below the floor of the resulting state -/
theorem fall_not_below_floor (s : State) (op : Op) (hi : SInv s) (hr : ResetContract s op)
    (hlt : (step s op).1.currentMtu < s.currentMtu) :
    Nat.min (step s op).1.det.minMtu (step s op).1.peerMax ≤ (step s op).1.currentMtu := by
  rcases mtu_change s op (by omega) with ⟨pn, len, e, st, _, h2, h3, h4, h5, _⟩ | ⟨v, h1, h2, _⟩ | ⟨now, h1, _, h3, _⟩ | ⟨c, m, h1⟩
  · have := acked_raises s hi e st pn h2 h3 h4; omega
  · subst h1
    have hpm : (step s (.peerMax v)).1.peerMax = v := by
      simp only [step]
      rcases peerMax_cases s v with ⟨_, h⟩ | ⟨_, _, _, _, h⟩ | ⟨_, _, _, h⟩ <;> rw [h]
    rw [hpm, h2]; exact Nat.min_le_right _ _
  · subst h1
    have hmin : (step s (.blackHole now)).1.det.minMtu = s.det.minMtu := by
      rcases bhd_cases s now with ⟨_, h⟩ | ⟨_, h⟩ <;> rw [h] <;> exact (detector_bhd_facts s.det).1
    rw [hmin, h3]; exact Nat.min_le_left _ _
  · subst h1
    have hmc : m ≤ c := hr
    simp only [step]
    cases hst : s.state with
    | none =>
      rw [reset_disabled s c m hst]
      simp only [Gen.mtudResetClamp, Detector.new, Nat.min_def]
      split <;> split <;> omega
    | some e =>
      rw [reset_enabled s c m e hst]
      simp only [Gen.mtudPeerClamp, Detector.new, Nat.min_def]
      split <;> split <;> omega

theorem step_floor (s : State) (op : Op) (hi : SInv s) (hf : Floor s) (hc : Contract s op) (hr : ResetContract s op)
    (hm : PeerMonotone s op) (hp : (step s op).2 ≠ .panic) : Floor (step s op).1 := by
  unfold Floor at hf ⊢
  by_cases hlt : (step s op).1.currentMtu < s.currentMtu
  · exact fall_not_below_floor s op hi hr hlt
  · -- the estimate did not fall: the floor can only move through `reset` (handled above or below) or a peer limit
    cases op with
    | poll now pn =>
      have hpoll := step_poll_mtu s now pn
      have hpm : (step s (.poll now pn)).1.peerMax = s.peerMax := by
        cases hst : s.state with
        | none => rw [step_poll_disabled s now pn hst]
        | some e =>
          cases hpt : e.pollTransmit now s.currentMtu pn with
          | mk e' r =>
            cases r with
            | none => rw [step_poll_panic s now pn e e' hst hpt]
            | some r => rw [step_poll_some s now pn e e' r hst hpt]
      rw [hpoll.1, hpoll.2, hpm]; exact hf
    | acked isData pn len =>
      rcases step_acked_cases s isData pn len with ⟨_, h⟩ | ⟨_, _, h⟩ | ⟨_, e, st, he, hph, hfl, h⟩
      · rw [h]; exact hf
      · rw [h]; simp only [(detector_acked_facts s.det pn len).2.2.1]; exact hf
      · rw [h] at hlt ⊢
        simp only [(detector_acked_facts s.det pn len).1] at hlt ⊢
        omega
    | probeLost => simp only [step, onProbeLost]; exact hf
    | nonProbeLost pn len =>
      simp only [step, onNonProbeLost] at hp ⊢
      cases hl : s.det.onNonProbeLost pn len with
      | none => simp [hl] at hp
      | some d' => simp only [hl, (detector_lost_facts s.det d' pn len hl).1]; exact hf
    | blackHole now =>
      have hmin := (detector_bhd_facts s.det).1
      rcases bhd_cases s now with ⟨_, h⟩ | ⟨_, h⟩
      · rw [h]; simp only [hmin]; exact hf
      · rw [h] at hlt ⊢
        simp only [hmin, Gen.mtudBlackHoleMtu, Nat.min_def] at hlt hf ⊢
        split at hf <;> split <;> split <;> omega
    | peerMax v =>
      have hv : v ≤ s.peerMax := hm
      simp only [step] at hp hlt ⊢
      rcases peerMax_cases s v with ⟨_, h⟩ | ⟨_, _, _, _, h⟩ | ⟨_, _, _, h⟩
      · rw [h] at hlt ⊢
        simp only [Gen.mtudPeerClamp, Nat.min_def] at hlt hf ⊢
        split at hf <;> split <;> split <;> omega
      · rw [h] at hp; simp at hp
      · rw [h] at hlt ⊢
        simp only [Gen.mtudPeerClamp, Nat.min_def] at hlt hf ⊢
        split at hf <;> split <;> split <;> omega
    | reset c m =>
      have hmc : m ≤ c := hr
      simp only [step]
      cases hst : s.state with
      | none =>
        rw [reset_disabled s c m hst]
        simp only [Gen.mtudResetClamp, Detector.new, Nat.min_def]
        split <;> split <;> omega
      | some e =>
        rw [reset_enabled s c m e hst]
        simp only [Gen.mtudPeerClamp, Detector.new, Nat.min_def]
        split <;> split <;> omega

/-- `current_mtu ≤ peer max_udp_payload_size` (the limit as remembered by the component) -/
def Ceil (s : State) : Prop := s.currentMtu ≤ s.peerMax

theorem step_ceil (s : State) (op : Op) (hg : GInv s) (hc : Ceil s) (hp : (step s op).2 ≠ .panic) :
    Ceil (step s op).1 := by
  unfold Ceil at hc ⊢
  cases op with
  | poll now pn =>
    have hpoll := step_poll_mtu s now pn
    have hpm : (step s (.poll now pn)).1.peerMax = s.peerMax := by
      cases hst : s.state with
      | none => rw [step_poll_disabled s now pn hst]
      | some e =>
        cases hpt : e.pollTransmit now s.currentMtu pn with
        | mk e' r =>
          cases r with
          | none => rw [step_poll_panic s now pn e e' hst hpt]
          | some r => rw [step_poll_some s now pn e e' r hst hpt]
    rw [hpoll.1, hpm]; exact hc
  | acked isData pn len =>
    rcases step_acked_cases s isData pn len with ⟨_, h⟩ | ⟨_, _, h⟩ | ⟨_, e, st, he, hph, hfl, h⟩
    · rw [h]; exact hc
    · rw [h]; exact hc
    · rw [h]
      have h1 := (hg.1 e he st hph).last
      have h2 := hg.2.2 e he
      simp only; omega
  | probeLost => simp only [step, onProbeLost]; exact hc
  | nonProbeLost pn len =>
    simp only [step, onNonProbeLost] at hp ⊢
    cases hl : s.det.onNonProbeLost pn len with
    | none => simp [hl] at hp
    | some d' => simp only [hl]; exact hc
  | blackHole now =>
    rcases bhd_cases s now with ⟨_, h⟩ | ⟨_, h⟩
    · rw [h]; exact hc
    · rw [h]
      have : Gen.mtudBlackHoleMtu s.currentMtu s.det.blackHoleDetected.1.minMtu ≤ s.currentMtu := Nat.min_le_left _ _
      simp only; omega
  | peerMax v =>
    simp only [step] at hp ⊢
    rcases peerMax_cases s v with ⟨_, h⟩ | ⟨_, _, _, _, h⟩ | ⟨_, _, _, h⟩
    · rw [h]; exact Nat.min_le_right _ _
    · rw [h] at hp; simp at hp
    · rw [h]; exact Nat.min_le_right _ _
  | reset c m =>
    simp only [step]
    cases hst : s.state with
    | none => rw [reset_disabled s c m hst]; exact Nat.min_le_right _ _
    | some e => rw [reset_enabled s c m e hst]; exact Nat.min_le_right _ _

/-! ### at most one probe outstanding (bookkeeping by the caller agrees with the component) -/

/-- the in-flight slot of a search: (packet number, probed size) -/
def slotE (e : Enabled) : Option (Nat × Nat) :=
  match e.phase with
  | .searching st => st.inFlightProbe.map (fun pn => (pn, st.lastProbedMtu))
  | _ => none

def slot (s : State) : Option (Nat × Nat) :=
  match s.state with
  | some e => slotE e
  | none => none

/-- what a caller that only sees calls and results believes is outstanding -/
def ghostStep (g : Option (Nat × Nat)) (op : Op) (out : Out) : Option (Nat × Nat) :=
  match op, out with
  | .poll _ pn, .probe (some p) => some (pn, p)
  | .acked _ _ _, .bool true => none
  | .probeLost, _ => none
  | .reset _ _, _ => none
  | .blackHole _, .bool true => none
  | _, _ => g

def ghost (g : Option (Nat × Nat)) : List (Op × Out) → Option (Nat × Nat)
  | [] => g
  | (op, out) :: t => ghost (ghostStep g op out) t

theorem pollSearching_slot (e : Enabled) (st : SearchState) (now pn : Nat) :
    ∀ e' r, e.pollSearching st now pn = (e', some r) →
      (∀ p, r = some p → slotE e' = some (pn, p))
      ∧ (r = none → slotE e' = st.inFlightProbe.map (fun q => (q, st.lastProbedMtu))) := by
  intro e' r heq
  rcases pollSearching_cases e st now pn with
    ⟨⟨q, hq⟩, h⟩ | ⟨_, _, _, h⟩ | ⟨hfl, _, hsub⟩ | ⟨_, _, _, h⟩ | ⟨hfl, _, _, hsub⟩
  · rw [h] at heq; cases heq
    exact ⟨fun p hp => (by cases hp), fun _ => by simp [slotE]⟩
  · rw [h] at heq; cases heq
    exact ⟨fun p hp => (by cases hp; simp [slotE]), fun hr => (by cases hr)⟩
  · rcases hsub with ⟨p, _, h⟩ | ⟨_, h⟩
    · rw [h] at heq; cases heq
      exact ⟨fun p' hp => (by cases hp; simp [slotE]), fun hr => (by cases hr)⟩
    · rw [h] at heq; cases heq
      exact ⟨fun p hp => (by cases hp), fun _ => by simp [slotE, hfl]⟩
  · rw [h] at heq; cases heq
  · rcases hsub with ⟨p, _, h⟩ | ⟨_, h⟩
    · rw [h] at heq; cases heq
      exact ⟨fun p' hp => (by cases hp; simp [slotE]), fun hr => (by cases hr)⟩
    · rw [h] at heq; cases heq
      exact ⟨fun p hp => (by cases hp), fun _ => by simp [slotE, hfl]⟩

theorem pollTransmit_slot (e : Enabled) (now cur pn : Nat) :
    ∀ e' r, e.pollTransmit now cur pn = (e', some r) →
      (∀ p, r = some p → slotE e' = some (pn, p)) ∧ (r = none → slotE e' = slotE e) := by
  intro e' r heq
  cases hph : e.phase with
  | initial =>
    obtain ⟨st0, hnew, _, _, hfl, _⟩ := new_some cur e.peerMax e.config
    simp only [Enabled.pollTransmit, hph, hnew] at heq
    have := pollSearching_slot e st0 now pn e' r heq
    simpa [slotE, hph, hfl] using this
  | complete t =>
    by_cases hny : Gen.mtudNotYet now t = true
    · simp only [Enabled.pollTransmit, hph, hny, if_true] at heq
      cases heq
      exact ⟨fun p hp => (by cases hp), fun _ => rfl⟩
    · have hny' : Gen.mtudNotYet now t = false := by simpa using hny
      obtain ⟨st0, hnew, _, _, hfl, _⟩ := new_some cur e.peerMax e.config
      simp only [Enabled.pollTransmit, hph, hny', Bool.false_eq_true, if_false, hnew] at heq
      have := pollSearching_slot e st0 now pn e' r heq
      simpa [slotE, hph, hfl] using this
  | searching st =>
    simp only [Enabled.pollTransmit, hph] at heq
    have := pollSearching_slot e st now pn e' r heq
    simpa [slotE, hph] using this

/-- the caller's bookkeeping and the component's in-flight slot stay equal, step by step -/
theorem ghost_step (s : State) (op : Op) (hp : (step s op).2 ≠ .panic) :
    ghostStep (slot s) op (step s op).2 = slot (step s op).1 := by
  cases op with
  | poll now pn =>
    cases hst : s.state with
    | none => rw [step_poll_disabled s now pn hst]; simp [ghostStep]
    | some e =>
      cases hpt : e.pollTransmit now s.currentMtu pn with
      | mk e' r =>
        cases r with
        | none => rw [step_poll_panic s now pn e e' hst hpt] at hp; simp at hp
        | some r =>
          obtain ⟨h1, h2⟩ := pollTransmit_slot e now s.currentMtu pn e' r hpt
          rw [step_poll_some s now pn e e' r hst hpt]
          cases r with
          | some p => simp [ghostStep, slot, h1 p rfl]
          | none => simp [ghostStep, slot, hst, h2 rfl]
  | acked isData pn len =>
    rcases step_acked_cases s isData pn len with ⟨_, h⟩ | ⟨_, _, h⟩ | ⟨_, e, st, he, hph, hfl, h⟩
    · rw [h]; simp [ghostStep]
    · rw [h]; simp [ghostStep, slot]
    · rw [h]; simp [ghostStep, slot, slotE]
  | probeLost =>
    simp only [step, onProbeLost, ghostStep]
    cases hst : s.state with
    | none => simp [slot]
    | some e =>
      simp only [slot, Option.map_some, slotE, Enabled.onProbeLost]
      cases hph : e.phase <;> simp [hph]
  | nonProbeLost pn len =>
    simp only [step, onNonProbeLost] at hp ⊢
    cases hl : s.det.onNonProbeLost pn len with
    | none => simp [hl] at hp
    | some d' => simp [hl, ghostStep, slot]
  | blackHole now =>
    rcases bhd_cases s now with ⟨_, h⟩ | ⟨_, h⟩
    · rw [h]; simp [ghostStep, slot]
    · rw [h]
      cases hst : s.state with
      | none => simp [ghostStep, slot]
      | some e => simp [ghostStep, slot, slotE, Enabled.onBlackHoleDetected]
  | peerMax v =>
    simp only [step] at hp ⊢
    rcases peerMax_cases s v with ⟨hn, h⟩ | ⟨e, st, _, _, h⟩ | ⟨e, he, hns, h⟩
    · rw [h]; simp [ghostStep, slot, hn]
    · rw [h] at hp; simp at hp
    · rw [h]
      have : slotE e = none := by
        unfold slotE; cases hph : e.phase with
        | searching st => exact absurd hph (hns st)
        | initial => rfl
        | complete t => rfl
      have h2 : slotE { e with peerMax := v } = none := by
        unfold slotE; cases hph : e.phase with
        | searching st => exact absurd hph (hns st)
        | initial => simp [hph]
        | complete t => simp [hph]
      simp [ghostStep, slot, he, this, h2]
  | reset c m =>
    simp only [step, ghostStep]
    cases hst : s.state with
    | none => rw [reset_disabled s c m hst]; simp [slot]
    | some e => rw [reset_enabled s c m e hst]; simp [slot, slotE]

theorem ghost_trace (ops : List Op) : ∀ s, ghost (slot s) (trace s ops) = slot (exec s ops) := by
  induction ops with
  | nil => intro s; rfl
  | cons op ops ih =>
    intro s
    simp only [trace, exec]
    split
    · rfl
    · rename_i hp
      simp only [ghost]
      rw [ghost_step s op hp]
      exact ih _

theorem slot_inflight (s : State) : (slot s).map (·.1) = inFlightMtuProbe s := by
  unfold slot inFlightMtuProbe slotE
  cases hs : s.state with
  | none => rfl
  | some e =>
    obtain ⟨ph, pm, cfg⟩ := e
    cases ph with
    | initial => rfl
    | complete t => rfl
    | searching st => cases h : st.inFlightProbe <;> simp [h]

/-- `poll_transmit` never returns a probe while one is in flight (no assumptions) -/
theorem probe_only_when_idle (s : State) (now pn p : Nat) (h : (step s (.poll now pn)).2 = .probe (some p)) :
    slot s = none ∧ slot (step s (.poll now pn)).1 = some (pn, p) := by
  cases hst : s.state with
  | none => rw [step_poll_disabled s now pn hst] at h; simp at h
  | some e =>
    cases hpt : e.pollTransmit now s.currentMtu pn with
    | mk e' r =>
      cases r with
      | none => rw [step_poll_panic s now pn e e' hst hpt] at h; simp at h
      | some r =>
        rw [step_poll_some s now pn e e' r hst hpt] at h ⊢
        simp only [Out.probe.injEq] at h; subst h
        refine ⟨?_, by simpa [slot] using (pollTransmit_slot e now s.currentMtu pn e' _ hpt).1 p rfl⟩
        -- a probe in flight makes poll_transmit return None
        simp only [slot, hst, slotE]
        cases hph : e.phase with
        | initial => rfl
        | complete t => rfl
        | searching st =>
          cases hfl : st.inFlightProbe with
          | none => simp [hfl]
          | some q =>
            simp only [Enabled.pollTransmit, hph] at hpt
            rcases pollSearching_cases e st now pn with
              ⟨_, h'⟩ | ⟨hn, _⟩ | ⟨hn, _⟩ | ⟨hn, _⟩ | ⟨hn, _⟩
            · rw [h'] at hpt; simp at hpt
            all_goals (rw [hfl] at hn; cases hn)

/-! ### termination of one binary search -/

/-- the running search, if any -/
def searchOf (s : State) : Option SearchState :=
  match s.state with
  | some e => (match e.phase with
    | .searching st => some st
    | _ => none)
  | none => none

theorem searchOf_iff (s : State) (st : SearchState) :
    searchOf s = some st ↔ ∃ e, s.state = some e ∧ e.phase = .searching st := by
  unfold searchOf
  cases hs : s.state with
  | none => simp
  | some e => cases hph : e.phase <;> simp [hph]

/-- a probe result: the ack of the in-flight probe, or its loss -/
def isProbeResult (op : Op) (out : Out) : Bool :=
  match op, out with
  | .acked _ _ _, .bool true => true
  | .probeLost, _ => true
  | _, _ => false

/-- within one search no call increases the measure and every probe result strictly decreases it -/
theorem measure_step (s : State) (op : Op) (hi : SInv s) (hc : Contract s op) (hp : (step s op).2 ≠ .panic)
    (st st' : SearchState) (h : searchOf s = some st) (h' : searchOf (step s op).1 = some st') :
    measure st' ≤ measure st ∧ (isProbeResult op (step s op).2 = true → measure st' < measure st) := by
  obtain ⟨e, he, hph⟩ := (searchOf_iff s st).1 h
  obtain ⟨h3, hs⟩ := hi e he
  have hk := hs st hph
  cases op with
  | poll now pn =>
    obtain ⟨e', r, hpt, _, _, _, _, hmeas, _⟩ := pollTransmit_ok e now s.currentMtu pn h3 hs
    rw [step_poll_some s now pn e e' r he hpt] at h' ⊢
    obtain ⟨e'', he'', hph'⟩ := (searchOf_iff _ st').1 h'
    simp only [Option.some.injEq] at he''; subst he''
    have := hmeas st st' hph hph'
    exact ⟨by omega, fun hr => by simp [isProbeResult] at hr⟩
  | acked isData pn len =>
    rcases step_acked_cases s isData pn len with ⟨_, hh⟩ | ⟨_, _, hh⟩ | ⟨_, e0, st0, he0, hph0, hfl, hh⟩
    · rw [hh] at h' ⊢; rw [h] at h'; cases h'
      exact ⟨Nat.le_refl _, fun hr => by simp [isProbeResult] at hr⟩
    · rw [hh] at h' ⊢
      have : searchOf { s with det := s.det.onNonProbeAcked pn len } = searchOf s := rfl
      rw [this, h] at h'; cases h'
      exact ⟨Nat.le_refl _, fun hr => by simp [isProbeResult] at hr⟩
    · rw [he] at he0; cases he0
      rw [hph] at hph0; cases hph0
      rw [hh] at h' ⊢
      simp only [searchOf, Option.some.injEq] at h'; subst h'
      have hb := hk.busy (Or.inl (by rw [hfl]; simp))
      have hlu := hk.last_up
      have hlt : measure { st with inFlightProbe := none, lostProbeCount := 0 } < measure st := by
        simp only [measure, hfl, and_self, if_true, reduceCtorEq, false_and, if_false]
        omega
      exact ⟨by omega, fun _ => hlt⟩
  | probeLost =>
    obtain ⟨q, hq⟩ := Option.isSome_iff_exists.1 hc
    obtain ⟨e0, st0, he0, hph0, hfl⟩ := (inFlight_iff s q).1 hq
    rw [he] at he0; cases he0
    rw [hph] at hph0; cases hph0
    have hb := hk.busy (Or.inl (by rw [hfl]; simp))
    have hl := hk.lost_fl (by rw [hfl]; simp)
    have hlu := hk.last_up
    simp only [step, onProbeLost] at h' ⊢
    simp only [searchOf, he, Option.map_some, Enabled.onProbeLost, hph, Option.some.injEq] at h'; subst h'
    have hlt : measure { st with inFlightProbe := none, lostProbeCount := st.lostProbeCount + 1 } < measure st := by
      simp only [measure, hfl, Gen.mtudMaxProbeRetransmits, true_and, reduceCtorEq, false_and, if_false]
      split <;> omega
    exact ⟨by omega, fun _ => hlt⟩
  | nonProbeLost pn len =>
    simp only [step, onNonProbeLost] at hp h' ⊢
    cases hl : s.det.onNonProbeLost pn len with
    | none => simp [hl] at hp
    | some d' =>
      simp only [hl] at h' ⊢
      have : searchOf { s with det := d' } = searchOf s := rfl
      rw [this, h] at h'; cases h'
      exact ⟨Nat.le_refl _, fun hr => by simp [isProbeResult] at hr⟩
  | blackHole now =>
    rcases bhd_cases s now with ⟨_, hh⟩ | ⟨_, hh⟩
    · rw [hh] at h' ⊢
      have : searchOf { s with det := s.det.blackHoleDetected.1 } = searchOf s := rfl
      rw [this, h] at h'; cases h'
      exact ⟨Nat.le_refl _, fun hr => by simp [isProbeResult] at hr⟩
    · rw [hh] at h'
      simp [searchOf, he, Enabled.onBlackHoleDetected] at h'
  | peerMax v =>
    simp only [step] at hp
    rcases peerMax_cases s v with ⟨hn, _⟩ | ⟨_, _, _, _, hh⟩ | ⟨e0, he0, hns, _⟩
    · rw [he] at hn; cases hn
    · rw [hh] at hp; simp at hp
    · rw [he] at he0; cases he0; exact absurd hph (hns st)
  | reset c m =>
    simp only [step] at h'
    rw [reset_enabled s c m e he] at h'
    simp [searchOf] at h'

/-- progress: while searching with nothing in flight, `poll_transmit` emits a probe or finishes the search -/
theorem poll_progress (s : State) (hi : SInv s) (now pn : Nat) (st : SearchState) (h : searchOf s = some st)
    (hfl : st.inFlightProbe = none) :
    (∃ p, (step s (.poll now pn)).2 = .probe (some p))
    ∨ ((step s (.poll now pn)).2 = .probe none ∧ searchOf (step s (.poll now pn)).1 = none) := by
  obtain ⟨e, he, hph⟩ := (searchOf_iff s st).1 h
  obtain ⟨h3, hs⟩ := hi e he
  obtain ⟨e', r, hpt, _, _, _, _, _, hdone⟩ := pollTransmit_ok e now s.currentMtu pn h3 hs
  rw [step_poll_some s now pn e e' r he hpt]
  cases r with
  | some p => left; exact ⟨p, rfl⟩
  | none =>
    right
    obtain ⟨t, ht⟩ := hdone rfl st hph hfl
    exact ⟨rfl, by simp [searchOf, ht]⟩

/-- the measure of a fresh search is `4 * (upper_bound − lower_bound) + 3` -/
theorem measure_bound (st : SearchState) : measure st ≤ 4 * (st.upperBound + st.lastProbedMtu) + 3 := by
  unfold measure; split
  · omega
  · split <;> omega

/-! ### black hole -/

/-- a detected black hole: `current_mtu = min_mtu`, burst table cleared, search suspended for the cooldown -/
theorem black_hole_effects (s : State) (now : Nat) (h : (step s (.blackHole now)).2 = .bool true) :
    (step s (.blackHole now)).1.currentMtu = Nat.min s.currentMtu s.det.minMtu
    ∧ (step s (.blackHole now)).1.peerMax = s.peerMax
    ∧ (step s (.blackHole now)).1.det.minMtu = s.det.minMtu
    ∧ (step s (.blackHole now)).1.det.bursts = []
    ∧ (step s (.blackHole now)).1.det.current = none
    ∧ (∀ e, s.state = some e →
        (step s (.blackHole now)).1.state = some { e with phase := .complete (now + e.config.blackHoleCooldown) })
    ∧ (s.state = none → (step s (.blackHole now)).1.state = none)
    ∧ Gen.mtudBlackHoleThreshold < s.det.finishLossBurst.bursts.length := by
  obtain ⟨hmin, hcur, _, hclr, hiff⟩ := detector_bhd_facts s.det
  rcases bhd_cases s now with ⟨_, hh⟩ | ⟨ht, hh⟩
  · rw [hh] at h; simp at h
  · rw [hh]
    refine ⟨by simp only [hmin, Gen.mtudBlackHoleMtu], rfl, hmin, hclr ht, hcur,
      fun e he => by simp [he, Enabled.onBlackHoleDetected], fun hn => by simp [hn], hiff.1 ht⟩

/-- and it is detected exactly when, after closing the current burst, more than THRESHOLD bursts are suspicious -/
theorem black_hole_iff (s : State) (now : Nat) :
    (step s (.blackHole now)).2 = .bool true ↔ Gen.mtudBlackHoleThreshold < s.det.finishLossBurst.bursts.length := by
  obtain ⟨_, _, _, _, hiff⟩ := detector_bhd_facts s.det
  rcases bhd_cases s now with ⟨hf, hh⟩ | ⟨ht, hh⟩
  · rw [hh]; simp only [Out.bool.injEq, Bool.false_eq_true, false_iff]
    intro hgt; have := hiff.2 hgt; rw [hf] at this; cases this
  · rw [hh]; simp only [true_iff]; exact hiff.1 ht

/-! ### panics, exactly -/

theorem peerMax_panics_iff (s : State) (v : Nat) :
    (step s (.peerMax v)).2 = .panic ↔ ∃ st, searchOf s = some st := by
  simp only [step]
  rcases peerMax_cases s v with ⟨hn, h⟩ | ⟨e, st, he, hph, h⟩ | ⟨e, he, hns, h⟩
  · rw [h]; simp [searchOf, hn]
  · rw [h]; simp only [true_iff]; exact ⟨st, (searchOf_iff s st).2 ⟨e, he, hph⟩⟩
  · rw [h]; simp only [reduceCtorEq, false_iff]
    rintro ⟨st, hst⟩
    obtain ⟨e0, he0, hph0⟩ := (searchOf_iff s st).1 hst
    rw [he] at he0; cases he0; exact hns st hph0

theorem nonProbeLost_panics_iff (s : State) (pn len : Nat) :
    (step s (.nonProbeLost pn len)).2 = .panic ↔ ∃ c, s.det.current = some c ∧ pn < c.latest := by
  simp only [step, onNonProbeLost, Detector.onNonProbeLost]
  cases hc : s.det.current with
  | none => simp
  | some c =>
    by_cases hlt : pn < c.latest
    · simp [hlt]
    · simp [hlt]

theorem new_panics_iff (i m : Nat) (p : Option Nat) (cfg : Config) : Mtud.new i m p cfg = none ↔ i < m := by
  unfold Mtud.new
  by_cases h : i < m
  · have : Gen.mtudNewOk i m = false := by simp [Gen.mtudNewOk]; omega
    simp [this, h]
  · have : Gen.mtudNewOk i m = true := by simp [Gen.mtudNewOk]; omega
    simp only [this, Bool.not_true, Bool.false_eq_true, if_false, h, iff_false]
    cases p <;> simp

/-! ### initial states and whole runs -/

/-- how an `MtuDiscovery` comes into being: `new` (not panicking) or `disabled` -/
def Start (s0 : State) : Prop :=
  (∃ i m p cfg, Mtud.new i m p cfg = some s0) ∨ (∃ i m, s0 = disabled i m)

theorem new_eq (i m : Nat) (p : Option Nat) (cfg : Config) (s : State) (h : Mtud.new i m p cfg = some s) :
    m ≤ i ∧ s.det = Detector.new m
    ∧ ((p = none ∧ s.currentMtu = i ∧ s.peerMax = Gen.maxUdpPayload ∧ s.state = some ⟨.initial, Gen.maxUdpPayload, cfg⟩)
      ∨ (∃ v, p = some v ∧ s.currentMtu = Nat.min i v ∧ s.peerMax = v ∧ s.state = some ⟨.initial, v, cfg⟩)) := by
  have hle : m ≤ i := by
    cases hlt : decide (i < m) with
    | true => have := (new_panics_iff i m p cfg).2 (of_decide_eq_true hlt); rw [this] at h; cases h
    | false => have := of_decide_eq_false hlt; omega
  have hok : Gen.mtudNewOk i m = true := by simp [Gen.mtudNewOk]; omega
  cases p with
  | none =>
    simp only [Mtud.new, hok, Bool.not_true, Bool.false_eq_true, if_false, Option.some.injEq] at h
    subst h
    exact ⟨hle, rfl, Or.inl ⟨rfl, rfl, rfl, rfl⟩⟩
  | some v =>
    simp only [Mtud.new, hok, Bool.not_true, Bool.false_eq_true, if_false, Option.some.injEq] at h
    subst h
    exact ⟨hle, by simp [onPeerMax, withState, Enabled.new], Or.inr ⟨v, rfl, by simp [onPeerMax, withState, Enabled.new, Gen.mtudPeerClamp],
      by simp [onPeerMax, withState, Enabled.new], by simp [onPeerMax, withState, Enabled.new]⟩⟩

theorem start_ginv (s0 : State) (h : Start s0) : GInv s0 := by
  rcases h with ⟨i, m, p, cfg, h⟩ | ⟨i, m, h⟩
  · obtain ⟨_, hd, hor⟩ := new_eq i m p cfg s0 h
    refine ⟨fun e he st hph => ?_, by rw [hd]; simp [Detector.new], fun e he => ?_⟩
    · rcases hor with ⟨_, _, _, hs⟩ | ⟨v, _, _, _, hs⟩ <;> (rw [hs] at he; cases he; cases hph)
    · rcases hor with ⟨_, _, hpm, hs⟩ | ⟨v, _, _, hpm, hs⟩ <;> (rw [hs] at he; cases he; rw [hpm])
  · subst h
    exact ⟨fun e he => by simp [disabled, withState] at he, by simp [disabled, withState, Detector.new],
      fun e he => by simp [disabled, withState] at he⟩

theorem start_slot (s0 : State) (h : Start s0) : slot s0 = none := by
  rcases h with ⟨i, m, p, cfg, h⟩ | ⟨i, m, h⟩
  · obtain ⟨_, _, hor⟩ := new_eq i m p cfg s0 h
    rcases hor with ⟨_, _, _, hs⟩ | ⟨v, _, _, _, hs⟩ <;> simp [slot, hs, slotE]
  · subst h; simp [slot, disabled, withState]

/-- the configuration in force (`none` when discovery is disabled) -/
def configOf (s : State) : Option Config := s.state.map (·.config)

theorem start_sinv (s0 : State) (h : Start s0) (h3 : ∀ cfg, configOf s0 = some cfg → 3 ≤ cfg.minimumChange) : SInv s0 := by
  intro e he
  refine ⟨h3 e.config (by simp [configOf, he]), fun st hph => ?_⟩
  rcases h with ⟨i, m, p, cfg, h⟩ | ⟨i, m, h⟩
  · obtain ⟨_, _, hor⟩ := new_eq i m p cfg s0 h
    rcases hor with ⟨_, _, _, hs⟩ | ⟨v, _, _, _, hs⟩ <;> (rw [hs] at he; cases he; cases hph)
  · subst h; simp [disabled, withState] at he

/-- as `Start`, with what `PathData::new` guarantees for `disabled` too: the initial MTU is at least `min_mtu`
    (`new` asserts it) -/
def StartOk (s0 : State) : Prop :=
  (∃ i m p cfg, Mtud.new i m p cfg = some s0) ∨ (∃ i m, m ≤ i ∧ s0 = disabled i m)

theorem StartOk.start {s0 : State} (h : StartOk s0) : Start s0 := by
  rcases h with h | ⟨i, m, _, h⟩
  · exact Or.inl h
  · exact Or.inr ⟨i, m, h⟩

theorem start_floor (s0 : State) (h : StartOk s0) : Floor s0 := by
  unfold Floor
  rcases h with ⟨i, m, p, cfg, h⟩ | ⟨i, m, hle, h⟩
  · obtain ⟨hle, hd, hor⟩ := new_eq i m p cfg s0 h
    rcases hor with ⟨_, hc, hpm, _⟩ | ⟨v, _, hc, hpm, _⟩
    · rw [hd, hc, hpm]; simp only [Detector.new, Nat.min_def]; split <;> omega
    · rw [hd, hc, hpm]; simp only [Detector.new, Nat.min_def]; split <;> split <;> omega
  · subst h; simp only [disabled, withState, Detector.new, Nat.min_def]; split <;> omega

/-- the ceiling holds from the start if the initial MTU is a possible UDP payload size (≤ 65527), … -/
theorem start_ceil (s0 : State) (h : Start s0) (hi : s0.currentMtu ≤ Gen.maxUdpPayload) : Ceil s0 := by
  unfold Ceil
  rcases h with ⟨i, m, p, cfg, h⟩ | ⟨i, m, h⟩
  · obtain ⟨_, _, hor⟩ := new_eq i m p cfg s0 h
    rcases hor with ⟨_, hc, hpm, _⟩ | ⟨v, _, hc, hpm, _⟩
    · rw [hpm]; exact hi
    · rw [hc, hpm]; exact Nat.min_le_right _ _
  · subst h; exact hi

/-- … and in any case from the moment a peer limit has been received -/
theorem peerMax_ceil (s : State) (v : Nat) : Ceil (step s (.peerMax v)).1 := by
  unfold Ceil
  simp only [step]
  rcases peerMax_cases s v with ⟨_, h⟩ | ⟨_, _, _, _, h⟩ | ⟨_, _, _, h⟩ <;> rw [h] <;> exact Nat.min_le_right _ _

theorem exec_ginv (s0 : State) (h : GInv s0) (ops : List Op) : GInv (exec s0 ops) :=
  exec_induct GInv (fun s op hg hp => step_ginv s op hg hp) ops s0 h

theorem exec_sinv (s0 : State) (h : SInv s0) (ops : List Op) (hc : okRun Contract s0 ops) : SInv (exec s0 ops) :=
  exec_induct_c Contract SInv (fun s op hi hc hp => step_sinv s op hi hc hp) ops s0 h hc

/-- the caller assumptions for the floor as a state invariant -/
def FloorRun (s : State) (op : Op) : Prop := Contract s op ∧ ResetContract s op ∧ PeerMonotone s op

theorem exec_floor (s0 : State) (h : SInv s0) (hf : Floor s0) (ops : List Op) (hc : okRun FloorRun s0 ops) :
    Floor (exec s0 ops) :=
  (exec_induct_c FloorRun (fun s => SInv s ∧ Floor s)
    (fun s op hi hc hp => ⟨step_sinv s op hi.1 hc.1 hp, step_floor s op hi.1 hi.2 hc.1 hc.2.1 hc.2.2 hp⟩) ops s0 ⟨h, hf⟩ hc).2

theorem exec_ceil (s0 : State) (h : GInv s0) (hc : Ceil s0) (ops : List Op) : Ceil (exec s0 ops) :=
  (exec_induct (fun s => GInv s ∧ Ceil s)
    (fun s op hi hp => ⟨step_ginv s op hi.1 hp, step_ceil s op hi.1 hi.2 hp⟩) ops s0 ⟨h, hc⟩).2

/-! ### widths: every size handled by a search fits `u16`, so the `as u16` casts of the Rust never truncate -/

/-- the peer limit stored by the component is a `u16` -/
def PmInv (s : State) : Prop := ∀ e, s.state = some e → e.peerMax < 65536

/-- callers pass `u16` values to `on_peer_max_udp_payload_size_received` -/
def U16Args (_ : State) : Op → Prop
  | .peerMax v => v < 65536
  | _ => True

theorem step_pminv (s : State) (op : Op) (hg : GInv s) (hi : PmInv s) (hc : U16Args s op) (hp : (step s op).2 ≠ .panic) :
    PmInv (step s op).1 := by
  cases op with
  | poll now pn =>
    cases hst : s.state with
    | none => rw [step_poll_disabled s now pn hst]; exact hi
    | some e =>
      cases hpt : e.pollTransmit now s.currentMtu pn with
      | mk e' r =>
        obtain ⟨hpm, _⟩ := pollTransmit_g e now s.currentMtu pn (hg.1 e hst) e' r hpt
        cases r with
        | none => rw [step_poll_panic s now pn e e' hst hpt] at hp; simp at hp
        | some r =>
          rw [step_poll_some s now pn e e' r hst hpt]
          intro e'' he''
          simp only [Option.some.injEq] at he''; subst he''
          rw [hpm]; exact hi e hst
  | acked isData pn len =>
    rcases step_acked_cases s isData pn len with ⟨_, h⟩ | ⟨_, _, h⟩ | ⟨_, e, st, he, hph, hfl, h⟩
    · rw [h]; exact hi
    · rw [h]; exact hi
    · rw [h]
      intro e'' he''
      simp only [Option.some.injEq] at he''; subst he''
      exact hi e he
  | probeLost =>
    simp only [step, onProbeLost]
    intro e'' he''
    cases hst : s.state with
    | none => simp [hst] at he''
    | some e =>
      simp only [hst, Option.map_some, Option.some.injEq] at he''; subst he''
      have : (Enabled.onProbeLost e).peerMax = e.peerMax := by unfold Enabled.onProbeLost; split <;> rfl
      rw [this]; exact hi e hst
  | nonProbeLost pn len =>
    simp only [step, onNonProbeLost] at hp ⊢
    cases hl : s.det.onNonProbeLost pn len with
    | none => simp [hl] at hp
    | some d' => simp only [hl]; exact hi
  | blackHole now =>
    rcases bhd_cases s now with ⟨_, h⟩ | ⟨_, h⟩
    · rw [h]; exact hi
    · rw [h]
      intro e'' he''
      cases hst : s.state with
      | none => simp [hst] at he''
      | some e =>
        simp only [hst, Option.map_some, Option.some.injEq] at he''; subst he''
        exact hi e hst
  | peerMax v =>
    simp only [step] at hp ⊢
    rcases peerMax_cases s v with ⟨hn, h⟩ | ⟨e, st, _, _, h⟩ | ⟨e, he, hns, h⟩
    · rw [h]; intro e' he'; simp [hn] at he'
    · rw [h] at hp; simp at hp
    · rw [h]
      intro e'' he''
      simp only [Option.some.injEq] at he''; subst he''
      exact hc
  | reset c m =>
    simp only [step]
    cases hst : s.state with
    | none => rw [reset_disabled s c m hst]; intro e' he'; simp at he'
    | some e =>
      rw [reset_enabled s c m e hst]
      intro e'' he''
      simp only [Option.some.injEq] at he''; subst he''
      exact hi e hst

theorem exec_u16 (s0 : State) (hg : GInv s0) (hi : PmInv s0) (ops : List Op) (hc : okRun U16Args s0 ops) :
    ∀ e st, (exec s0 ops).state = some e → e.phase = .searching st →
      st.lowerBound < 65536 ∧ st.upperBound < 65536 ∧ st.lastProbedMtu < 65536 := by
  have := exec_induct_c U16Args (fun s => GInv s ∧ PmInv s)
    (fun s op h hc hp => ⟨step_ginv s op h.1 hp, step_pminv s op h.1 h.2 hc hp⟩) ops s0 ⟨hg, hi⟩ hc
  intro e st he hph
  have h1 := this.1.1 e he st hph
  have h2 := this.2 e he
  exact ⟨by have := h1.lo; omega, by have := h1.up; omega, by have := h1.last; omega⟩

theorem start_pminv (s0 : State) (h : (∃ i m p cfg, Mtud.new i m p cfg = some s0 ∧ ∀ v, p = some v → v < 65536) ∨ (∃ i m, s0 = disabled i m)) :
    PmInv s0 := by
  intro e he
  rcases h with ⟨i, m, p, cfg, h, hp⟩ | ⟨i, m, h⟩
  · obtain ⟨_, _, hor⟩ := new_eq i m p cfg s0 h
    rcases hor with ⟨_, _, _, hs⟩ | ⟨v, hv, _, _, hs⟩
    · rw [hs] at he; cases he; show Gen.maxUdpPayload < 65536; decide
    · rw [hs] at he; cases he; exact hp v hv
  · subst h; simp [disabled, withState] at he

/-! ### minimum_change = 0: the search never ends (configuration finding F8) -/

def cfg0 : Config := Config.make 0 1200 0 0

/-- searching between 1200 and 1200 with `minimum_change = 0`, nothing in flight -/
def stuck (d : Detector) : State :=
  { currentMtu := 1200, state := some ⟨.searching ⟨1200, 1200, 0, 1200, none, 0⟩, Gen.maxUdpPayload, cfg0⟩, det := d,
    peerMax := Gen.maxUdpPayload }

/-- one round: poll (returns a probe), then that probe is acknowledged -/
def round (s : State) (pn : Nat) : State := (step (step s (.poll 0 pn)).1 (.acked true pn 1200)).1

theorem stuck_round (d : Detector) (pn : Nat) :
    (step (stuck d) (.poll 0 pn)).2 = .probe (some 1200) ∧ round (stuck d) pn = stuck (d.onProbeAcked pn 1200) := by
  have h1 : step (stuck d) (.poll 0 pn) =
      ({ currentMtu := 1200, state := some ⟨.searching ⟨1200, 1200, 0, 1200, some pn, 0⟩, Gen.maxUdpPayload, cfg0⟩, det := d,
         peerMax := Gen.maxUdpPayload },
       .probe (some 1200)) := by
    simp [step, stuck, pollTransmit, Enabled.pollTransmit, Enabled.pollSearching, Gen.mtudRetransmit,
      Gen.mtudLastProbeSucceeded, SearchState.nextMtuToProbe, SearchState.pick, Gen.mtudMidpoint, Gen.mtudStop]
  refine ⟨by rw [h1], ?_⟩
  unfold round
  rw [h1]
  simp [step, onAcked, Enabled.onProbeAcked, stuck]

def rounds : Nat → State → State
  | 0, s => s
  | n + 1, s => rounds n (round s n)

theorem stuck_forever (n : Nat) : ∀ d, ∃ d', rounds n (stuck d) = stuck d' := by
  induction n with
  | zero => intro d; exact ⟨d, rfl⟩
  | succ n ih => intro d; simp only [rounds, (stuck_round d n).2]; exact ih _

end QM.Mtud
