import QuinnModel.Lemmas.StreamsC11
/-
C11, "Opened / Readable only for streams the peer actually used": the view `uw s` = the queued `Readable`
events and the `opened` flags.  Only the frame handlers (through `on_stream_frame`) and `poll` change it.
(The lemmas mirror Lemmas/StreamsEvents.lean.)
-/
namespace QM.Streams
set_option pp.structureInstances false

def isRd : Event → Bool
  | .readable _ | .opened _ => true
  | _ => false

/-- the queued Readable (and Opened: there never are any) events, in order, and the `opened` flags -/
def State.uw (s : State) : List Event × Two Bool := (s.events.filter isRd, s.opened)

theorem uw_of_events {s s' : State} (h : s'.events = s.events) (h2 : s'.opened = s.opened) : s'.uw = s.uw := by
  simp only [State.uw, h, h2]

theorem uw_insert {s s' : State} {r : Bool} {id : Nat} (h : s.insert r id = some s') : s'.uw = s.uw := by
  unfold State.insert at h
  osplit h
  subst h
  rfl

theorem uw_insertRemoteRange (n : Nat) : ∀ {s s' : State} {d : Dir} {st i : Nat},
    s.insertRemoteRange d st n i = some s' → s'.uw = s.uw := by
  induction n with
  | zero => intro s s' d st i h; simp [State.insertRemoteRange] at h; subst h; rfl
  | succ n ih =>
    intro s s' d st i h
    unfold State.insertRemoteRange at h
    split at h
    · simp at h
    · rename_i s1 h1
      exact (ih h).trans (uw_insert h1)

theorem uw_ensureRemoteStreams {s s' : State} {d : Dir} (h : s.ensureRemoteStreams d = some s') :
    s'.uw = s.uw := by
  unfold State.ensureRemoteStreams at h
  osplit h
  subst h
  via uw_insertRemoteRange _ ‹State.insertRemoteRange _ _ _ _ _ = some _›

/-- effect of a frame of the peer that names stream `id`: at most `Readable id` is queued (only by the
    frames that carry data or end the stream: `b`) and the `opened` flag of the stream's direction raised -/
def Used (b : Bool) (id : Nat) (s s' : State) : Prop :=
  (s'.uw.1 = s.uw.1 ∨ (b = true ∧ s'.uw.1 = s.uw.1 ++ [.readable id])) ∧
  (s'.uw.2 = s.uw.2 ∨ s'.uw.2 = s.uw.2.set (sidDir id) true)

theorem Used.of_eq {b : Bool} {id : Nat} {s s' : State} (h : s'.uw = s.uw) : Used b id s s' := by
  unfold Used; rw [h]; exact ⟨Or.inl rfl, Or.inl rfl⟩

theorem Used.pre {b : Bool} {id : Nat} {s s1 s' : State} (u : Used b id s1 s') (h : s1.uw = s.uw) :
    Used b id s s' := by
  unfold Used at u ⊢; rw [h] at u; exact u

theorem Used.post {b : Bool} {id : Nat} {s s1 s' : State} (u : Used b id s s1) (h : s'.uw = s1.uw) :
    Used b id s s' := by
  unfold Used at u ⊢; rw [h]; exact u

theorem Used.mono {b : Bool} {id : Nat} {s s' : State} (u : Used b id s s') : Used true id s s' := by
  unfold Used at u ⊢
  refine ⟨?_, u.2⟩
  rcases u.1 with h | ⟨_, h⟩
  · exact Or.inl h
  · exact Or.inr ⟨rfl, h⟩

theorem uw_onStreamFrame (s : State) (b : Bool) (id : Nat) : Used b id s (s.onStreamFrame b id) := by
  unfold State.onStreamFrame Used
  split
  · split
    · rename_i hb
      exact ⟨Or.inr ⟨hb, by simp [State.uw, List.filter_append, isRd]⟩, Or.inl rfl⟩
    · exact ⟨Or.inl rfl, Or.inl rfl⟩
  · dsimp only
    split
    · exact ⟨Or.inl rfl, Or.inr rfl⟩
    · split
      · rename_i hb
        exact ⟨Or.inr ⟨hb, by simp [State.uw, List.filter_append, isRd]⟩, Or.inl rfl⟩
      · exact ⟨Or.inl rfl, Or.inl rfl⟩

theorem uw_freeRemote {s s' : State} {id : Nat} {hf : Half} (h : s.freeRemote id hf = some s') :
    s'.uw = s.uw := by
  unfold State.freeRemote at h
  osplit h
  all_goals first
    | (subst h; rfl)
    | via uw_ensureRemoteStreams h

theorem uw_streamFreed {s s' : State} {id : Nat} {hf : Half} (h : s.streamFreed id hf = some s') :
    s'.uw = s.uw := by
  unfold State.streamFreed at h
  osplit h
  all_goals
    subst h
    via uw_freeRemote ‹State.freeRemote _ _ _ = some _›

theorem uw_getOrInsertSend {s s' : State} {id : Nat} {x : Send}
    (h : s.getOrInsertSend id = some (x, s')) : s'.uw = s.uw := by
  unfold State.getOrInsertSend at h
  osplit h
  all_goals
    rw [← h.2]
    try rfl

theorem uw_queueMaxStreamId {s s' : State} {b : Bool} (h : s.queueMaxStreamId = some (s', b)) :
    s'.uw = s.uw := by
  unfold State.queueMaxStreamId at h
  osplit h
  all_goals
    rw [← h.1]
    try rfl

theorem uw_queueMaxIf {s s' : State} {c : Bool} (h : s.queueMaxIf c = some s') : s'.uw = s.uw := by
  rcases queueMaxIf_cases h with rfl | ⟨b, hq⟩
  · rfl
  · exact uw_queueMaxStreamId hq

/-! ### sender-side operations -/

theorem uw_write {s s' : State} {id n : Nat} {r : Except WriteErr Nat} (h : s.write id n = some (s', r)) :
    s'.uw = s.uw := by
  unfold State.write at h
  osplit h
  all_goals
    obtain ⟨rfl, _⟩ := h
    first
      | rfl
      | (have hg := uw_getOrInsertSend ‹State.getOrInsertSend _ _ = some _›; exact hg)

theorem uw_finish {s s' : State} {id : Nat} {r : Except WriteErr Unit} (h : s.finish id = (s', r)) :
    s'.uw = s.uw := by
  unfold State.finish at h
  osplit h
  all_goals
    obtain ⟨rfl, _⟩ := h
    first
      | rfl
      | (have hg := uw_getOrInsertSend ‹State.getOrInsertSend _ _ = some _›; exact hg)

theorem uw_reset {s s' : State} {id code : Nat} {b : Bool} (h : s.reset id code = some (s', b)) :
    s'.uw = s.uw := by
  unfold State.reset at h
  osplit h
  all_goals
    obtain ⟨rfl, _⟩ := h
    first
      | rfl
      | (have hg := uw_getOrInsertSend ‹State.getOrInsertSend _ _ = some _›; exact hg)

theorem uw_setPriority {s s' : State} {id : Nat} {p : Int} {b : Bool} (h : s.setPriority id p = (s', b)) :
    s'.uw = s.uw := by
  unfold State.setPriority at h
  osplit h
  all_goals
    obtain ⟨rfl, _⟩ := h
    first
      | rfl
      | (have hg := uw_getOrInsertSend ‹State.getOrInsertSend _ _ = some _›; exact hg)

theorem uw_receivedStopSending (s : State) (id code : Nat) : Used false id s (s.receivedStopSending id code) := by
  unfold State.receivedStopSending
  split
  · exact Used.of_eq rfl
  · rename_i x s1 h1
    have hg := uw_getOrInsertSend h1
    dsimp only
    split
    · refine Used.pre (Used.pre (uw_onStreamFrame _ false id) ?_) hg
      simp [State.uw, State.putSend, List.filter_append, isRd]
    · exact Used.of_eq hg

theorem uw_resetAcked {s s' : State} {id : Nat} (h : s.resetAcked id = some s') : s'.uw = s.uw := by
  unfold State.resetAcked at h
  osplit h
  all_goals first
    | (subst h; rfl)
    | via uw_streamFreed h

theorem uw_receivedAckOf {s s' : State} {id a e : Nat} {fin : Bool}
    (h : s.receivedAckOf id a e fin = some s') : s'.uw = s.uw := by
  unfold State.receivedAckOf at h
  osplit h
  all_goals first
    | (subst h; rfl)
    | (have hf := ‹State.streamFreed _ _ _ = some _›
       have e1 := uw_streamFreed hf
       subst h
       simp only [State.uw, List.filter_append] at e1 ⊢
       simp only [Prod.mk.injEq] at e1
       rw [e1.1, e1.2]; simp [isRd, State.putSend])

theorem uw_retransmit {s s' : State} {id a e : Nat} {fin : Bool}
    (h : s.retransmit id a e fin = some s') : s'.uw = s.uw := by
  unfold State.retransmit at h
  osplit h
  all_goals (subst h; rfl)

theorem uw_rtx0Loop (dir : Dir) : ∀ (n : Nat) {s s' : State} {i : Nat},
    s.rtx0Loop dir n i = some s' → s'.uw = s.uw := by
  intro n
  induction n with
  | zero => intro s s' i h; simp [State.rtx0Loop] at h; subst h; rfl
  | succ n ih =>
    intro s s' i h
    unfold State.rtx0Loop at h
    osplit h
    all_goals first
      | exact ih h
      | via ih h

theorem uw_retransmitAllFor0rtt {s s' : State} (h : s.retransmitAllFor0rtt = some s') : s'.uw = s.uw := by
  unfold State.retransmitAllFor0rtt at h
  osplit h
  exact (uw_rtx0Loop _ _ h).trans (uw_rtx0Loop _ _ ‹State.rtx0Loop _ _ _ _ = some _›)

theorem uw_pollBlocked : ∀ (fuel : Nat) {s s' : State} {e : Option Event},
    s.pollBlocked fuel = some (s', e) → s'.uw = s.uw := by
  intro fuel
  induction fuel with
  | zero => intro s s' e h; simp [State.pollBlocked] at h; rw [← h.1]
  | succ n ih =>
    intro s s' e h
    unfold State.pollBlocked at h
    osplit h
    all_goals first
      | (obtain ⟨rfl, _⟩ := h; rfl)
      | via ih h

theorem uw_pollBlocked_out : ∀ (n : Nat) {s s' : State} {e : Event},
    s.pollBlocked n = some (s', some e) → ∃ id, e = .writable id := by
  intro n
  induction n with
  | zero => intro s s' e h; simp [State.pollBlocked] at h
  | succ n ih =>
    intro s s' e h
    unfold State.pollBlocked at h
    osplit h
    all_goals first
      | exact ⟨_, rfl⟩
      | (obtain ⟨_, h2⟩ := h; cases h2; exact ⟨_, rfl⟩)
      | (obtain ⟨_, h2⟩ := h; cases h2)
      | exact ih h

/-- `poll` reports `Opened` only when the flag of the direction is raised, and `Readable` only from the queue -/
theorem uw_poll {s s' : State} {e : Option Event} (h : s.poll = some (s', e)) :
    (∃ d, e = some (.opened d) ∧ s.opened.get d = true ∧ s'.uw.1 = s.uw.1 ∧ s'.opened = s.opened.set d false) ∨
    (s'.uw.2 = s.uw.2 ∧
      (match e with | some ev => [ev] | none => []).filter isRd ++ s'.uw.1 = s.uw.1) := by
  unfold State.poll at h
  split at h
  · rename_i hb
    simp only [Option.some.injEq, Prod.mk.injEq] at h; obtain ⟨rfl, rfl⟩ := h
    exact Or.inl ⟨.bi, rfl, hb, rfl, rfl⟩
  · split at h
    · rename_i hu
      simp only [Option.some.injEq, Prod.mk.injEq] at h; obtain ⟨rfl, rfl⟩ := h
      exact Or.inl ⟨.uni, rfl, hu, rfl, rfl⟩
    · right
      split at h
      · contradiction
      · rename_i wl _
        have hpb : ∀ s1 e1, s.pollBlockedIf (decide (wl > 0)) = some (s1, e1) →
            s1.uw = s.uw ∧ ∀ ev, e1 = some ev → ∃ id, ev = .writable id := by
          intro s1 e1 hh
          unfold State.pollBlockedIf at hh
          split at hh
          · refine ⟨uw_pollBlocked _ hh, fun ev he => ?_⟩
            subst he; exact uw_pollBlocked_out _ hh
          · simp only [Option.some.injEq, Prod.mk.injEq] at hh
            exact ⟨by rw [← hh.1], fun ev he => by rw [← hh.2] at he; cases he⟩
        split at h
        · contradiction
        · rename_i s1 ev hp
          simp only [Option.some.injEq, Prod.mk.injEq] at h; obtain ⟨rfl, rfl⟩ := h
          obtain ⟨a, b⟩ := hpb _ _ hp
          obtain ⟨id, rfl⟩ := b ev rfl
          exact ⟨by rw [a], by simp [List.filter, isRd, a]⟩
        · rename_i s1 hp
          obtain ⟨a, _⟩ := hpb _ _ hp
          split at h
          · simp only [Option.some.injEq, Prod.mk.injEq] at h; obtain ⟨rfl, rfl⟩ := h
            exact ⟨by rw [a], by simp [a]⟩
          · rename_i ev rest hev
            simp only [Option.some.injEq, Prod.mk.injEq] at h; obtain ⟨rfl, rfl⟩ := h
            refine ⟨by rw [← a]; rfl, ?_⟩
            rw [← a]
            simp only [State.uw, hev, List.filter_cons, List.filter_nil]
            split <;> simp

theorem uw_writeStreamFrames (maxBuf : Nat) (fair : Bool) : ∀ (fuel : Nat) {s s' : State}
    {bl bl' : Nat} {acc fs : List SentFrame},
    s.writeStreamFrames maxBuf fair fuel bl acc = some (s', bl', fs) → s'.uw = s.uw := by
  intro fuel
  induction fuel with
  | zero => intro s s' bl bl' acc fs h; simp [State.writeStreamFrames] at h; rw [← h.1]
  | succ n ih =>
    intro s s' bl bl' acc fs h
    unfold State.writeStreamFrames at h
    osplit h
    all_goals first
      | (obtain ⟨rfl, _⟩ := h; rfl)
      | via ih h

theorem uw_open {s s' : State} {d : Dir} {r : Option Nat} (h : s.open_ d = some (s', r)) :
    s'.uw = s.uw := by
  unfold State.open_ at h
  osplit h
  all_goals first
    | (obtain ⟨rfl, _⟩ := h; rfl)
    | (have f := uw_insert ‹State.insert _ _ _ = some _›
       obtain ⟨rfl, _⟩ := h; exact f)

theorem uw_accept (s : State) (d : Dir) : (s.accept d).1.uw = s.uw := by
  unfold State.accept
  split
  · rfl
  · dsimp only; split <;> rfl

theorem uw_afterUnblock (s : State) (b : Bool) (id : Nat) (x' : Send) (wl : Nat) :
    (s.afterUnblock b id x' wl).uw = s.uw := by
  unfold State.afterUnblock
  split
  · split
    · simp [State.uw, List.filter_append, isRd]
    · split <;> rfl
  · rfl

theorem uw_receivedMaxStreamData {s s' : State} {id n : Nat} {e : Option TErr}
    (h : s.receivedMaxStreamData id n = some (s', e)) : Used false id s s' := by
  unfold State.receivedMaxStreamData at h
  osplit h
  all_goals first
    | (obtain ⟨rfl, _⟩ := h; exact Used.of_eq rfl)
    | (obtain ⟨rfl, _⟩ := h; exact uw_onStreamFrame _ _ _)
    | (have hg := uw_getOrInsertSend ‹State.getOrInsertSend _ _ = some _›
       obtain ⟨rfl, _⟩ := h
       exact Used.pre (uw_onStreamFrame _ _ _) ((uw_afterUnblock _ _ _ _ _).trans hg))

theorem uw_receivedMaxStreams (s : State) (d : Dir) (n : Nat) : (s.receivedMaxStreams d n).1.uw = s.uw := by
  unfold State.receivedMaxStreams
  split
  · rfl
  · split
    · simp [State.uw, List.filter_append, isRd]
    · rfl

theorem uw_setParams (s : State) (p : Params) : (s.setParams p).uw = s.uw := rfl

theorem uw_setMaxConcurrent {s s' : State} {d : Dir} {n : Nat} (h : s.setMaxConcurrent d n = some s') :
    s'.uw = s.uw := by
  unfold State.setMaxConcurrent at h
  via uw_ensureRemoteStreams h

/-! ### receiver-side helpers and operations (mirror of Lemmas/StreamsFrame*.lean) -/

theorem uw_addReadCredits {s s' : State} {c : Nat} {t : Bool}
    (h : s.addReadCredits c = some (s', t)) : s'.uw = s.uw := by
  have hs : s' = s.applyCredits c := by
    unfold State.addReadCredits at h
    dsimp only at h
    split at h
    · simp only [Option.some.injEq, Prod.mk.injEq] at h; exact h.1.symm
    · split at h
      · contradiction
      · simp only [Option.some.injEq, Prod.mk.injEq] at h; exact h.1.symm
  rw [hs]; unfold State.applyCredits; split <;> rfl

theorem uw_creditAndQueue {s s' : State} {c : Nat} {t : Bool}
    (h : s.creditAndQueue c = some (s', t)) : s'.uw = s.uw := by
  unfold State.creditAndQueue at h
  osplit h
  all_goals
    obtain ⟨rfl, rfl⟩ := h
    have f := uw_addReadCredits ‹State.addReadCredits _ _ = some _›
    exact f


theorem uw_streamRecvFreed {s s' : State} {id : Nat} (h : s.streamRecvFreed id = some s') :
    s'.uw = s.uw := uw_streamFreed h

theorem uw_freeRecvIf {s s' : State} {c : Bool} {id : Nat} (h : s.freeRecvIf c id = some s') :
    s'.uw = s.uw := by
  unfold State.freeRecvIf at h
  osplit h
  all_goals first
    | (subst h; rfl)
    | via uw_streamRecvFreed h

theorem uw_freeIf {s s' : State} {c : Bool} {id : Nat} (h : s.freeIf c id = some s') :
    s'.uw = s.uw := by
  unfold State.freeIf at h
  osplit h
  all_goals first
    | (subst h; rfl)
    | via uw_streamRecvFreed h

theorem uw_getOrInsertRecv {s s' : State} {id : Nat} {r : Recv}
    (h : s.getOrInsertRecv id = some (r, s')) : s'.uw = s.uw := by
  unfold State.getOrInsertRecv at h
  osplit h
  all_goals
    rw [← h.2]
    try rfl


theorem uw_received {s s' : State} {id off len : Nat} {fin : Bool} {r : Except TErr Bool}
    (h : s.received id off len fin = some (s', r)) : Used true id s s' := by
  unfold State.received at h
  osplit h
  all_goals obtain ⟨rfl, rfl⟩ := h
  all_goals first
    | exact Used.of_eq rfl
    | (have f1 := uw_getOrInsertRecv ‹State.getOrInsertRecv _ _ = some _›
       first
        | exact Used.of_eq f1
        | exact Used.pre (uw_onStreamFrame _ _ _) f1
        | (have f2 := uw_freeRecvIf ‹State.freeRecvIf _ _ _ = some _›
           have f3 := uw_creditAndQueue ‹State.creditAndQueue _ _ = some _›
           exact Used.of_eq (f3.trans (f2.trans f1))))

theorem uw_receivedReset {s s' : State} {id code fo : Nat} {r : Except TErr Bool}
    (h : s.receivedReset id code fo = some (s', r)) : Used true id s s' := by
  unfold State.receivedReset at h
  osplit h
  all_goals obtain ⟨rfl, rfl⟩ := h
  all_goals first
    | exact Used.of_eq rfl
    | (have f1 := uw_getOrInsertRecv ‹State.getOrInsertRecv _ _ = some _›
       first
        | exact Used.of_eq f1
        | (have f2 := uw_freeRecvIf ‹State.freeRecvIf _ _ _ = some _›
           first
            | exact Used.mono (Used.pre (uw_onStreamFrame _ _ _) (f2.trans f1))
            | (have f3 := uw_creditAndQueue ‹State.creditAndQueue _ _ = some _›
               exact Used.mono (Used.post (Used.pre (uw_onStreamFrame _ _ _) (f2.trans f1)) f3))))

theorem uw_finalizeReadable {s s' : State} {id : Nat} {rs : Recv} {fr t0 t : Bool}
    (h : s.finalizeReadable id rs fr t0 = some (s', t)) : s'.uw = s.uw := by
  unfold State.finalizeReadable at h
  osplit h
  all_goals
    rw [← h.1]
    try rfl

theorem uw_read {s s' : State} {id budget : Nat} {r : ReadRes}
    (h : s.read id budget = some (s', r)) : s'.uw = s.uw := by
  unfold State.read at h
  osplit h
  all_goals obtain ⟨rfl, rfl⟩ := h
  all_goals first
    | rfl
    | (have f1 := uw_getOrInsertRecv ‹State.getOrInsertRecv _ _ = some _›
       first
        | exact f1
        | (have f2 := uw_freeIf ‹State.freeIf _ _ _ = some _›
           have f3 := uw_queueMaxStreamId ‹State.queueMaxStreamId _ = some _›
           have f4 := uw_finalizeReadable ‹State.finalizeReadable _ _ _ _ _ = some _›
           have f5 := uw_addReadCredits ‹State.addReadCredits _ _ = some _›
           exact f5.trans (f4.trans (f3.trans (f2.trans f1)))))

theorem uw_queueStopSending (s : State) (c : Bool) (id code : Nat) :
    (s.queueStopSending c id code).uw = s.uw := by
  unfold State.queueStopSending; split <;> rfl

theorem uw_stop {s s' : State} {id code : Nat} {b : Bool}
    (h : s.stop id code = some (s', b)) : s'.uw = s.uw := by
  unfold State.stop at h
  osplit h
  all_goals obtain ⟨rfl, rfl⟩ := h
  all_goals first
    | rfl
    | (have f1 := uw_getOrInsertRecv ‹State.getOrInsertRecv _ _ = some _›
       first
        | exact f1
        | (have f2 := uw_freeRecvIf ‹State.freeRecvIf _ _ _ = some _›
           have f2q := uw_queueMaxIf ‹State.queueMaxIf _ _ = some _›
           have f3 := uw_creditAndQueue ‹State.creditAndQueue _ _ = some _›
           exact f3.trans (f2q.trans (f2.trans ((uw_queueStopSending _ _ _ _).trans f1)))))

theorem uw_recvReceivedReset {s s' : State} {id : Nat} {r : Option (Option Nat)}
    (h : s.recvReceivedReset id = some (s', r)) : s'.uw = s.uw := by
  unfold State.recvReceivedReset at h
  osplit h
  all_goals obtain ⟨rfl, rfl⟩ := h
  all_goals first
    | rfl
    | (have f2 := uw_streamRecvFreed ‹State.streamRecvFreed _ _ = some _›
       have f3 := uw_queueMaxStreamId ‹State.queueMaxStreamId _ = some _›
       exact f3.trans f2)


theorem uw_setReceiveWindow (s : State) (n : Nat) : (s.setReceiveWindow n).1.uw = s.uw := by
  unfold State.setReceiveWindow
  split <;> rfl


theorem uw_ctrlMsd : ∀ (l : List Nat) {s s' : State} {acc fs : List CtrlFrame},
    s.ctrlMsd l acc = some (s', fs) → s'.uw = s.uw := by
  intro l
  induction l with
  | nil => intro s s' acc fs h; simp [State.ctrlMsd] at h; rw [← h.1]
  | cons id rest ih =>
    intro s s' acc fs h
    unfold State.ctrlMsd at h
    osplit h
    all_goals first
      | exact ih h
      | via ih h

theorem uw_ctrlMaxData (s : State) : s.ctrlMaxData.1.uw = s.uw := by
  unfold State.ctrlMaxData; split <;> rfl

theorem uw_ctrlMaxStreams (s : State) (d : Dir) : (s.ctrlMaxStreams d).1.uw = s.uw := by
  unfold State.ctrlMaxStreams; split <;> rfl

theorem uw_ctrlMoveBlocked (s : State) (d : Dir) : (s.ctrlMoveBlocked d).uw = s.uw := by
  unfold State.ctrlMoveBlocked; split <;> rfl

theorem uw_ctrlStreamsBlocked (s : State) (d : Dir) : (s.ctrlStreamsBlocked d).1.uw = s.uw := by
  unfold State.ctrlStreamsBlocked
  dsimp only
  split
  · exact uw_ctrlMoveBlocked s d
  · exact uw_ctrlMoveBlocked s d

theorem uw_writeControlFrames {s s' : State} {fs : List CtrlFrame}
    (h : s.writeControlFrames = some (s', fs)) : s'.uw = s.uw := by
  unfold State.writeControlFrames at h
  dsimp only at h
  split at h
  · contradiction
  · simp only [Option.some.injEq, Prod.mk.injEq] at h
    rw [← h.1]
    have f := uw_ctrlMsd _ ‹State.ctrlMsd _ _ _ = some _›
    refine (uw_ctrlStreamsBlocked _ _).trans ((uw_ctrlStreamsBlocked _ _).trans
      ((uw_ctrlMaxStreams _ _).trans ((uw_ctrlMaxStreams _ _).trans (f.trans ?_))))
    exact uw_ctrlMaxData _


end QM.Streams
