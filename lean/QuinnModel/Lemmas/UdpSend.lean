import QuinnModel.Lemmas.Udp
import QuinnModel.Udp.Send
/-
Lemmas for C19 about the segmentation decision (`effective_segment_size`), the send/receive round trip
for every (len, segment size), and the decision table of the Linux send path (`Udp/Send.lean`).
-/
namespace QM.Udp

theorem effective_some_iff (seg : Option Nat) (len s : Nat) :
    effectiveSegmentSize seg len = some s ↔ (seg = some s ∧ s < len) := by
  cases seg with
  | none => simp [effectiveSegmentSize]
  | some x =>
    by_cases h : x ≥ len
    · simp only [effectiveSegmentSize, h, if_true]
      constructor
      · intro h'; cases h'
      · rintro ⟨h1, h2⟩; cases h1; omega
    · simp only [effectiveSegmentSize, h, if_false, Option.some.injEq]
      constructor
      · intro h'; subst h'; exact ⟨rfl, by omega⟩
      · rintro ⟨h1, _⟩; exact h1

/-- the stride the receiving socket reports for what one send put on the wire: the segment size for a
    (coalesced) segmented send, the datagram length otherwise (`RecvMeta::stride` defaults to `len`) -/
def recvStride (eff : Option Nat) (len : Nat) : Nat :=
  match eff with
  | none => len
  | some s => s

theorem split_single {α : Type} (stride : Nat) (data : List α) (hne : data ≠ []) (hle : data.length ≤ stride) :
    splitByStride stride data.length data = [data] := by
  have hpos : 0 < data.length := List.length_pos_iff.mpr hne
  have h := split_concat stride (by omega) [data] data.length (by rw [WF_single]; exact ⟨hpos, hle⟩) (by simp)
  simpa using h

/-- the whole send-side decision and the receive-side split, for EVERY (len, segment size) -/
theorem segmentation_roundtrip {α : Type} (s : Nat) (hs : 0 < s) (contents : List α) (hc : contents ≠ []) :
    wireDatagrams contents (effectiveSegmentSize (some s) contents.length)
        = splitByStride s contents.length contents
    ∧ (wireDatagrams contents (effectiveSegmentSize (some s) contents.length)).flatten = contents
    ∧ splitByStride (recvStride (effectiveSegmentSize (some s) contents.length) contents.length)
        contents.length contents
        = wireDatagrams contents (effectiveSegmentSize (some s) contents.length) := by
  by_cases h : s ≥ contents.length
  · have he : effectiveSegmentSize (some s) contents.length = none := by
      simp [effectiveSegmentSize, h]
    rw [he]
    simp only [wireDatagrams, recvStride]
    refine ⟨(split_single s contents hc h).symm, by simp, split_single _ contents hc (Nat.le_refl _)⟩
  · have he : effectiveSegmentSize (some s) contents.length = some s := by
      simp [effectiveSegmentSize, h]
    rw [he]
    simp only [wireDatagrams, recvStride]
    exact ⟨trivial, (split_spec s hs contents.length contents hc (Nat.le_refl _)).1, trivial⟩

/-! ### the send decision table -/

theorem chunkLens_zero (seg fuel : Nat) : chunkLens seg fuel 0 = [] := by
  cases fuel <;> simp [chunkLens]

theorem chunkLens_single (seg len fuel : Nat) (h0 : 0 < len) (hle : len ≤ seg) (hf : 0 < fuel) :
    chunkLens seg fuel len = [len] := by
  cases fuel with
  | zero => omega
  | succ f =>
    have hm : Nat.min seg len = len := Nat.min_eq_right hle
    have hne : ¬ len = 0 := by omega
    simp only [chunkLens, hne, if_false, hm, Nat.sub_self, chunkLens_zero]

theorem wire_eq_described (t : Tx) (e : Bool) (hv : t.valid) : wireOf (prepare t e) = described t := by
  obtain ⟨hl, hsg⟩ := hv
  cases hseg : t.seg with
  | none => simp [wireOf, prepare, described, hseg, effectiveSegmentSize]
  | some s =>
    by_cases h : s ≥ t.len
    · simp only [wireOf, prepare, described, hseg, effectiveSegmentSize, h, if_true]
      exact (chunkLens_single s t.len t.len hl h hl).symm
    · simp only [wireOf, prepare, described, hseg, effectiveSegmentSize, h, if_false]

theorem sendPlain_ok (k : Kernel) (v4 : Bool) (len : Nat) :
    ∀ (fuel : Nat) (st : SockSt) (calls : Nat),
      (sendPlain k v4 len fuel st calls).ret = none → (sendPlain k v4 len fuel st calls).wire = [len] := by
  intro fuel
  induction fuel with
  | zero => intro st calls h; simp [sendPlain] at h
  | succ f ih =>
    intro st calls h
    simp only [sendPlain] at h ⊢
    cases hk : k ⟨none, !(v4 && st.einval), len⟩ calls <;> simp only [hk] at h ⊢
    · exact ih _ _ h
    · cases h
    · split at h
      · split
        · exact ih _ _ h
        · contradiction
      · cases h
    · cases h

theorem sendChunks_ok (k : Kernel) (v4 : Bool) (fuel : Nat) :
    ∀ (cs : List Nat) (st : SockSt) (calls : Nat),
      (sendChunks k v4 fuel st calls cs).ret = none → (sendChunks k v4 fuel st calls cs).wire = cs := by
  intro cs
  induction cs with
  | nil => intro st calls _; rfl
  | cons c rest ih =>
    intro st calls h
    simp only [sendChunks] at h ⊢
    cases hr : (sendPlain k v4 c fuel st calls).ret with
    | some e => simp only [hr] at h; cases h
    | none =>
      simp only [hr] at h ⊢
      rw [sendPlain_ok k v4 c fuel st calls hr, ih _ _ h]
      rfl

/-- `send` returning Ok means every datagram the transmit describes was accepted by the kernel, in order:
    nothing lost, merged or truncated -/
theorem send_ok (k : Kernel) (t : Tx) (hv : t.valid) :
    ∀ (fuel : Nat) (st : SockSt) (calls : Nat),
      (send k t fuel st calls).ret = none → (send k t fuel st calls).wire = described t := by
  intro fuel
  induction fuel with
  | zero => intro st calls h; simp [send] at h
  | succ f ih =>
    intro st calls h
    simp only [send] at h ⊢
    cases hk : k (prepare t st.einval) calls <;> simp only [hk] at h ⊢
    · exact wire_eq_described t st.einval hv
    · exact ih _ _ h
    · cases h
    · cases hs : (prepare t st.einval).segs with
      | some s =>
        simp only [hs] at h ⊢
        rw [sendChunks_ok k t.v4 f _ _ _ h]
        have := wire_eq_described t st.einval hv
        simp only [wireOf, hs] at this
        have hl : (prepare t st.einval).len = t.len := rfl
        rw [hl] at this
        exact this
      | none =>
        simp only [hs] at h ⊢
        split at h
        · split
          · exact ih _ _ h
          · contradiction
        · cases h
    · cases h

theorem haltGso_einval (st : SockSt) : (haltGso st).einval = st.einval := by
  unfold haltGso; split <;> rfl

theorem haltGso_maxGso (st : SockSt) : (haltGso st).maxGso ≤ 1 := by
  unfold haltGso; split
  · exact Nat.le_refl 1
  · omega

/-! #### a kernel path without segmentation offload -/

theorem sendPlain_refusesGso (k : Kernel) (hk : refusesGso k) (v4 : Bool) (len fuel : Nat) (st : SockSt) (calls : Nat) :
    sendPlain k v4 len (fuel + 1) st calls = ⟨st, calls + 1, [len], !(v4 && st.einval), none⟩ := by
  simp only [sendPlain, hk.2 ⟨none, !(v4 && st.einval), len⟩ calls rfl]

theorem sendChunks_refusesGso (k : Kernel) (hk : refusesGso k) (v4 : Bool) (fuel : Nat) :
    ∀ (cs : List Nat) (st : SockSt) (calls : Nat),
      (sendChunks k v4 (fuel + 1) st calls cs).st = st
      ∧ (sendChunks k v4 (fuel + 1) st calls cs).ret = none
      ∧ (sendChunks k v4 (fuel + 1) st calls cs).wire = cs
      ∧ (st.einval = false → (sendChunks k v4 (fuel + 1) st calls cs).ecnOk = true) := by
  intro cs
  induction cs with
  | nil => intro st calls; exact ⟨rfl, rfl, rfl, fun _ => rfl⟩
  | cons c rest ih =>
    intro st calls
    simp only [sendChunks, sendPlain_refusesGso k hk]
    obtain ⟨h1, h2, h3, h4⟩ := ih st (calls + 1)
    refine ⟨h1, h2, ?_, ?_⟩
    · rw [h3]; rfl
    · intro he; rw [h4 he, he]; simp

/-- degradation: on a kernel path that refuses UDP_SEGMENT the transmit is re-sent datagram by datagram:
    `send` returns Ok, exactly the described datagrams are on the wire, the `sendmsg_einval` mode is not
    entered, the ECN codepoint is attached to every datagram, and offload is halted for later transmits -/
theorem send_refusesGso (k : Kernel) (hk : refusesGso k) (t : Tx) (hv : t.valid) (fuel : Nat) (st : SockSt) (calls : Nat) :
    (send k t (fuel + 2) st calls).ret = none
    ∧ (send k t (fuel + 2) st calls).wire = described t
    ∧ (send k t (fuel + 2) st calls).st.einval = st.einval
    ∧ (st.einval = false → (send k t (fuel + 2) st calls).ecnOk = true)
    ∧ ((effectiveSegmentSize t.seg t.len).isSome = true → (send k t (fuel + 2) st calls).st.maxGso ≤ 1) := by
  have hret : (send k t (fuel + 2) st calls).ret = none := by
    simp only [send]
    cases hs : (prepare t st.einval).segs with
    | some s =>
      rw [hk.1 (prepare t st.einval) calls (by rw [hs]; rfl)]
      simp only
      exact (sendChunks_refusesGso k hk t.v4 fuel _ _ _).2.1
    | none => rw [hk.2 (prepare t st.einval) calls hs]
  refine ⟨hret, send_ok k t hv _ _ _ hret, ?_, ?_, ?_⟩
  · simp only [send]
    cases hs : (prepare t st.einval).segs with
    | some s =>
      rw [hk.1 (prepare t st.einval) calls (by rw [hs]; rfl)]
      simp only
      rw [(sendChunks_refusesGso k hk t.v4 fuel _ _ _).1, haltGso_einval]
    | none => rw [hk.2 (prepare t st.einval) calls hs]
  · intro he
    simp only [send]
    cases hs : (prepare t st.einval).segs with
    | some s =>
      rw [hk.1 (prepare t st.einval) calls (by rw [hs]; rfl)]
      simp only
      exact (sendChunks_refusesGso k hk t.v4 fuel _ _ _).2.2.2 (by rw [haltGso_einval]; exact he)
    | none =>
      rw [hk.2 (prepare t st.einval) calls hs]
      simp [prepare, he]
  · intro heff
    have hs : ∃ s, (prepare t st.einval).segs = some s := Option.isSome_iff_exists.mp heff
    obtain ⟨s, hs⟩ := hs
    simp only [send]
    rw [hk.1 (prepare t st.einval) calls (by rw [hs]; rfl)]
    simp only [hs]
    rw [(sendChunks_refusesGso k hk t.v4 fuel _ _ _).1]
    exact haltGso_maxGso st

/-! #### the GSO fallback never disables ECN -/

theorem sendPlain_einval (k : Kernel) (hk : ∀ m n, m.segs = none → k m n ≠ .refused) (v4 : Bool) (len : Nat) :
    ∀ (fuel : Nat) (st : SockSt) (calls : Nat), (sendPlain k v4 len fuel st calls).st.einval = st.einval := by
  intro fuel
  induction fuel with
  | zero => intro st calls; rfl
  | succ f ih =>
    intro st calls
    simp only [sendPlain]
    cases hx : k ⟨none, !(v4 && st.einval), len⟩ calls <;> simp only
    · exact ih _ _
    · exact absurd hx (hk _ _ rfl)

theorem sendChunks_einval (k : Kernel) (hk : ∀ m n, m.segs = none → k m n ≠ .refused) (v4 : Bool) (fuel : Nat) :
    ∀ (cs : List Nat) (st : SockSt) (calls : Nat), (sendChunks k v4 fuel st calls cs).st.einval = st.einval := by
  intro cs
  induction cs with
  | nil => intro st calls; rfl
  | cons c rest ih =>
    intro st calls
    simp only [sendChunks]
    split
    · exact sendPlain_einval k hk v4 c fuel st calls
    · simp only; rw [ih, sendPlain_einval k hk v4 c fuel st calls]

/-- whatever the kernel answers to messages carrying UDP_SEGMENT, as long as it never answers EIO|EINVAL
    to a PLAIN message the socket never enters the `sendmsg_einval` mode (in which IPv4 sends omit IP_TOS) -/
theorem send_einval (k : Kernel) (hk : ∀ m n, m.segs = none → k m n ≠ .refused) (t : Tx) :
    ∀ (fuel : Nat) (st : SockSt) (calls : Nat), (send k t fuel st calls).st.einval = st.einval := by
  intro fuel
  induction fuel with
  | zero => intro st calls; rfl
  | succ f ih =>
    intro st calls
    simp only [send]
    cases hx : k (prepare t st.einval) calls <;> simp only
    · exact ih _ _
    · cases hs : (prepare t st.einval).segs with
      | some s => simp only; rw [sendChunks_einval k hk, haltGso_einval]
      | none => exact absurd hx (hk _ _ hs)

/-! #### the code before the repair -/

/-- the property clause "when an offload is unsupported the layer degrades to plain sends without losing,
    merging or truncating datagrams" (and keeps conveying ECN), for a send function -/
def degrades_statement (sendF : Kernel → Tx → Nat → SockSt → Nat → Run) : Prop :=
  ∀ (k : Kernel) (t : Tx) (st : SockSt), refusesGso k → t.valid →
    (sendF k t 8 st 0).ret = none ∧ (sendF k t 8 st 0).wire = described t
    ∧ (sendF k t 8 st 0).st.einval = st.einval

/-- witness: three 100-byte segments to an IPv4 peer on a fresh socket -/
def oldSendWitness : Tx := ⟨true, some 100, 300⟩

theorem gsoRefusingKernel_refusesGso : refusesGso gsoRefusingKernel := by
  constructor
  · intro m n h; simp [gsoRefusingKernel, h]
  · intro m n h; simp [gsoRefusingKernel, h]

theorem oldSendWitness_run :
    sendOld gsoRefusingKernel oldSendWitness 8 ⟨64, false⟩ 0 = ⟨⟨1, true⟩, 2, [], true, some .refused⟩ := by
  decide

theorem sendOld_not_degrades : ¬ degrades_statement sendOld := by
  intro h
  have := (h gsoRefusingKernel oldSendWitness ⟨64, false⟩ gsoRefusingKernel_refusesGso
    ⟨by decide, by intro s hs; cases hs; decide⟩).1
  rw [oldSendWitness_run] at this
  cases this

theorem send_degrades : degrades_statement send := by
  intro k t st hk hv
  obtain ⟨h1, h2, h3, _, _⟩ := send_refusesGso k hk t hv 6 st 0
  exact ⟨h1, h2, h3⟩

end QM.Udp
