import QuinnModel.Data.CidQueue
/-! Which reset token `CidQueue` reports when the CID in use changes (C04: a stateless reset must carry exactly the token the peer issued for the connection ID in use). -/
namespace QM.CidQueue

theorem mem_iter {b : Buf} {c i : Nat} {e : Entry} (h : (i, e) ∈ iter b c) : get b (c + i) = some e := by
  unfold iter at h
  rw [List.mem_filterMap] at h
  obtain ⟨step, _, hs⟩ := h
  cases hg : get b (c + step) with
  | none => simp [hg] at hs
  | some e' =>
    simp [hg] at hs
    obtain ⟨h1, h2⟩ := hs
    subst h1; subst h2; exact hg

theorem head_iter {b : Buf} {c i : Nat} {e : Entry} (h : (iter b c).head? = some (i, e)) : get b (c + i) = some e :=
  mem_iter (List.mem_of_head? h)

/-- the entry under the cursor -/
def activeEntry (q : CidQueue) : Option Entry := get q.buffer q.cursor

theorem get_mod (b : Buf) (i : Nat) : get b (i % LEN) = get b i := by
  unfold get; simp

theorem insertTail_token (q : CidQueue) (rpt rc : Nat) (b2 : Buf) (q' : CidQueue) (a z : Nat) (t : Bytes)
    (h : insertTail q rpt rc b2 = (q', .retired a z t)) :
    ∃ e, activeEntry q' = some e ∧ e.token = some t := by
  unfold insertTail at h
  by_cases h1 : q.cursor + rc ≥ U64
  · rw [if_pos h1] at h; simp at h
  · rw [if_neg h1] at h
    simp only at h
    cases hhd : (iter b2 ((q.cursor + rc) % LEN)).head? with
    | none => rw [hhd] at h; simp at h
    | some ie =>
      obtain ⟨i, e⟩ := ie
      rw [hhd] at h
      simp only at h
      by_cases h2 : rpt + i ≥ U64
      · rw [if_pos h2] at h; simp at h
      · rw [if_neg h2] at h
        by_cases h3 : q.offset + LEN ≥ U64
        · rw [if_pos h3] at h; simp at h
        · rw [if_neg h3] at h
          cases ht : e.token with
          | none => rw [ht] at h; simp at h
          | some t' =>
            rw [ht] at h
            simp only [Prod.mk.injEq, InsertOut.retired.injEq] at h
            obtain ⟨hq, _, _, htt⟩ := h
            subst hq; subst htt
            refine ⟨e, ?_, ht⟩
            have := head_iter hhd
            unfold activeEntry
            simp only
            rw [get_mod]
            rw [← this]

theorem insert_token (q : CidQueue) (seq rpt : Nat) (cid tok : Bytes) (q' : CidQueue) (a z : Nat) (t : Bytes)
    (h : insert q seq rpt cid tok = (q', .retired a z t)) :
    ∃ e, activeEntry q' = some e ∧ e.token = some t := by
  unfold insert at h
  by_cases h0 : seq < q.offset
  · rw [if_pos h0] at h; simp at h
  · rw [if_neg h0] at h
    simp only at h
    by_cases h1 : LEN + (rpt - q.offset) ≥ U64
    · rw [if_pos h1] at h; simp at h
    · rw [if_neg h1] at h
      cases h2 : Gen.cidqExceedsLimit (seq - q.offset) (rpt - q.offset) with
      | true => rw [h2] at h; simp at h
      | false =>
        rw [h2] at h
        simp only [Bool.false_eq_true, if_false] at h
        by_cases h3 : q.cursor + (seq - q.offset) ≥ U64
        · rw [if_pos h3] at h; simp at h
        · rw [if_neg h3] at h
          by_cases h4 : rpt - q.offset = 0
          · rw [if_pos h4] at h; simp at h
          · rw [if_neg h4] at h
            exact insertTail_token _ _ _ _ _ _ _ _ h

theorem iter_steps_sorted (b : Buf) (c : Nat) : (iter b c).Pairwise (fun x y => x.1 < y.1) := by
  unfold iter
  apply List.Pairwise.filterMap (R := fun a b : Nat => a < b)
  · intro a a' h bb hb bb' hb'
    cases hg : get b (c + a) with
    | none => simp [hg] at hb
    | some e =>
      cases hg' : get b (c + a') with
      | none => simp [hg'] at hb'
      | some e' =>
        simp [hg] at hb; simp [hg'] at hb'
        subst hb; subst hb'; exact h
  · exact List.pairwise_lt_range

theorem iter_step_lt {b : Buf} {c i : Nat} {e : Entry} (h : (i, e) ∈ iter b c) : i < LEN := by
  unfold iter at h
  rw [List.mem_filterMap] at h
  obtain ⟨step, hr, hs⟩ := h
  cases hg : get b (c + step) with
  | none => simp [hg] at hs
  | some e' =>
    simp [hg] at hs
    rw [← hs.1]; exact List.mem_range.mp hr

theorem second_step_pos {b : Buf} {c i : Nat} {e : Entry} (h : (iter b c)[1]? = some (i, e)) : 1 ≤ i := by
  have hs := iter_steps_sorted b c
  match hl : iter b c with
  | [] => rw [hl] at h; simp at h
  | [x] => rw [hl] at h; simp at h
  | x :: y :: r =>
    rw [hl] at h hs
    simp at h
    have := (List.pairwise_cons.mp hs).1 y (by simp)
    rw [h] at this
    simp at this
    omega

theorem next_token (q q' : CidQueue) (t : Bytes) (a z : Nat) (h : next q = (q', .ok t a z)) :
    ∃ e, activeEntry q' = some e ∧ e.token = some t := by
  unfold next at h
  cases hhd : (iter q.buffer q.cursor)[1]? with
  | none => rw [hhd] at h; simp at h
  | some ie =>
    obtain ⟨i, e⟩ := ie
    rw [hhd] at h
    simp only at h
    by_cases hc : q.cursor < LEN
    · rw [dif_pos hc] at h
      by_cases h2 : q.offset + i ≥ U64
      · rw [if_pos h2] at h; simp at h
      · rw [if_neg h2] at h
        cases ht : e.token with
        | none => rw [ht] at h; simp at h
        | some t' =>
          rw [ht] at h
          simp only [Prod.mk.injEq, NextOut.ok.injEq] at h
          obtain ⟨hq, htt, _, _⟩ := h
          subst hq; subst htt
          refine ⟨e, ?_, ht⟩
          have hm : (i, e) ∈ iter q.buffer q.cursor := List.mem_of_getElem? hhd
          have hi := iter_step_lt hm
          have h1 := second_step_pos hhd
          have hg := mem_iter hm
          unfold activeEntry
          simp only
          rw [get_mod, ← hg]
          unfold get
          have hne : q.cursor ≠ (q.cursor + i) % LEN := by
            intro heq
            by_cases hlt : q.cursor + i < LEN
            · rw [Nat.mod_eq_of_lt hlt] at heq; omega
            · have : (q.cursor + i) % LEN = q.cursor + i - LEN := by
                rw [Nat.mod_eq_sub_mod (by omega)]; exact Nat.mod_eq_of_lt (by omega)
              rw [this] at heq; omega
          rw [Vector.getElem_set_ne _ _ hne]
    · rw [dif_neg hc] at h; simp at h

end QM.CidQueue
