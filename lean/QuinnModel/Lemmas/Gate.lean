import QuinnModel.Recovery.Gate
namespace QM.Gate

theorem admitted_iff (inFlight bytesToSend window : Nat) :
    admitted inFlight bytesToSend window = true ↔ inFlight + bytesToSend < window := by
  simp only [admitted, Gen.congestionBlocked, Bool.not_eq_true', decide_eq_false_iff_not]
  omega

/-- a datagram admitted by the gate, whatever its final size up to the assumed `bytesToSend`, leaves the
    bytes in flight strictly below the window; and a datagram that is refused would have reached it -/
theorem gate_guarantee (inFlight bytesToSend window size : Nat) (hs : size ≤ bytesToSend) :
    (admitted inFlight bytesToSend window = true → inFlight + size < window) ∧
    (admitted inFlight bytesToSend window = false → window ≤ inFlight + bytesToSend) := by
  constructor
  · intro h; have := (admitted_iff _ _ _).1 h; omega
  · intro h
    have : ¬ (admitted inFlight bytesToSend window = true) := by simp [h]
    rw [admitted_iff] at this; omega

/-- sending stops before the window is reached: from any state below the window, any sequence of admitted
    datagrams (each tracked with at most the size the gate assumed) keeps in-flight below the window, as long
    as nothing else moves the window down -/
theorem admitted_run (window : Nat) (sizes : List (Nat × Nat)) (inFlight : Nat)
    (hall : ∀ p ∈ sizes, p.1 ≤ p.2) :
    ∀ final, (sizes.foldl (fun (acc : Option Nat) p =>
        match acc with
        | some f => if admitted f p.2 window then some (f + p.1) else none
        | none => none) (some inFlight)) = some final → sizes ≠ [] → final < window := by
  induction sizes generalizing inFlight with
  | nil => intro final _ hne; exact absurd rfl hne
  | cons p t ih =>
    intro final hf _
    simp only [List.foldl_cons] at hf
    by_cases ha : admitted inFlight p.2 window = true
    · simp only [ha, if_true] at hf
      have hp := hall p (by simp)
      have hlt : inFlight + p.1 < window := (gate_guarantee inFlight p.2 window p.1 hp).1 ha
      cases t with
      | nil => simp only [List.foldl_nil, Option.some.injEq] at hf; omega
      | cons q t' =>
        exact ih (inFlight + p.1) (fun x hx => hall x (by simp [hx])) final hf (by simp)
    · simp only [ha, Bool.false_eq_true, if_false] at hf
      exfalso
      have : ∀ l : List (Nat × Nat), l.foldl (fun (acc : Option Nat) p =>
          match acc with
          | some f => if admitted f p.2 window then some (f + p.1) else none
          | none => none) none = none := by
        intro l; induction l with
        | nil => rfl
        | cons x xs ihx => simp only [List.foldl_cons]; exact ihx
      rw [this t] at hf; cases hf

end QM.Gate
