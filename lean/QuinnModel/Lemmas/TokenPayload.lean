import QuinnModel.Lemmas.TokenCodec
/- Token payload coding: decode ∘ encode = id (on the wire form), and decoding is canonical. -/
namespace QM.Token
open QM

def Ip.Valid : Ip → Prop
  | .v4 o => o.length = 4
  | .v6 o => o.length = 16

def Addr.Valid (a : Addr) : Prop := a.ip.Valid ∧ a.port < 2 ^ 16

/-- what the token keeps of a socket address: ip and port (flowinfo / scope id are not encoded) -/
def Addr.wire (a : Addr) : Addr := Addr.new a.ip a.port

/-- payloads the server can issue: well-formed addresses, connection IDs of at most `MAX_CID_SIZE`
    bytes, issue times representable as a `SystemTime` -/
def Payload.Valid : Payload → Prop
  | .retry a c i => a.Valid ∧ c.length ≤ Gen.maxCidSize ∧ i < 2 ^ 63
  | .validation ip i => ip.Valid ∧ i < 2 ^ 63

def Payload.wire : Payload → Payload
  | .retry a c i => .retry a.wire c i
  | .validation ip i => .validation ip i

@[simp] theorem Addr.new_ip (ip : Ip) (p : Nat) : (Addr.new ip p).ip = ip := by cases ip <;> rfl
@[simp] theorem Addr.new_port (ip : Ip) (p : Nat) : (Addr.new ip p).port = p := by cases ip <;> rfl
@[simp] theorem Addr.wire_new (ip : Ip) (p : Nat) : (Addr.new ip p).wire = Addr.new ip p := by
  simp [Addr.wire]
@[simp] theorem Addr.wire_ip (a : Addr) : a.wire.ip = a.ip := by simp [Addr.wire]
@[simp] theorem Addr.wire_port (a : Addr) : a.wire.port = a.port := by simp [Addr.wire]
@[simp] theorem Addr.wire_wire (a : Addr) : a.wire.wire = a.wire := by simp [Addr.wire]
theorem Addr.wire_v4 (o : Bytes) (p : Nat) : (Addr.v4 o p).wire = .v4 o p := rfl
theorem Addr.wire_v6 (o : Bytes) (p f s : Nat) : (Addr.v6 o p f s).wire = .v6 o p 0 0 := rfl
@[simp] theorem Payload.wire_wire (p : Payload) : p.wire.wire = p.wire := by cases p <;> simp [Payload.wire]

theorem secs_ok (i : Nat) : i * SysTime.nsPerSec < SysTime.limit ↔ i < 2 ^ 63 := by
  unfold SysTime.limit SysTime.nsPerSec; omega

/-- the encoding does not depend on flowinfo / scope id -/
theorem encodePayload_wire (p : Payload) : encodePayload p.wire = encodePayload p := by
  cases p <;> simp [Payload.wire, encodePayload, encodeAddr]

/-! ### decode ∘ encode -/

theorem decodeIp_encodeIp (ip : Ip) (hv : ip.Valid) (r : Bytes) : decodeIp (encodeIp ip ++ r) = some (ip, r) := by
  cases ip with
  | v4 o =>
    have hl : o.length = 4 := hv
    simp [encodeIp, decodeIp, Gen.tokenIpTagV4, hl, List.take_left' hl, List.drop_left' hl]
  | v6 o =>
    have hl : o.length = 16 := hv
    simp [encodeIp, decodeIp, Gen.tokenIpTagV4, Gen.tokenIpTagV6, hl, List.take_left' hl, List.drop_left' hl]

theorem decodeAddr_encodeAddr (a : Addr) (hv : a.Valid) (r : Bytes) :
    decodeAddr (encodeAddr a ++ r) = some (a.wire, r) := by
  unfold decodeAddr encodeAddr
  rw [List.append_assoc, decodeIp_encodeIp a.ip hv.1]
  have hl : (beBytes 2 a.port).length = 2 := beBytes_length 2 a.port
  have hp : a.port % 256 ^ 2 = a.port := Nat.mod_eq_of_lt (by have := hv.2; omega)
  simp [hl, List.take_left' hl, List.drop_left' hl, beVal_beBytes, hp, Addr.wire]

theorem decodeCid_encodeCid (c : Bytes) (hc : c.length ≤ Gen.maxCidSize) (r : Bytes) :
    decodeCid (encodeCid c ++ r) = some (c, r) := by
  have h1 : ¬ (c.length > Gen.maxCidSize ∨ (c ++ r).length < c.length) := by
    simp only [List.length_append]; omega
  simp only [encodeCid, List.cons_append, decodeCid, h1, if_false, List.take_left, List.drop_left]

theorem decodeSecs_encodeSecs (i : Nat) (hi : i < 2 ^ 63) (r : Bytes) :
    decodeSecs (encodeSecs i ++ r) = .ok (i, r) := by
  have hl : (beBytes 8 i).length = 8 := beBytes_length 8 i
  have hm : i % 256 ^ 8 = i := Nat.mod_eq_of_lt (by omega)
  unfold decodeSecs encodeSecs
  have h1 : ¬ (beBytes 8 i ++ r).length < 8 := by simp only [List.length_append, hl]; omega
  simp only [h1, if_false, List.take_left' hl, List.drop_left' hl, beVal_beBytes, hm, (secs_ok i).mpr hi, if_true]

/-- payload round trip (both kinds, every address, CIDs up to 20 bytes, every representable time) -/
theorem decodePayload_retry (r r1 r2 c : Bytes) (a : Addr) (i : Nat) (h1 : decodeAddr r = some (a, r1))
    (h2 : decodeCid r1 = some (c, r2)) (h3 : decodeSecs r2 = .ok (i, [])) :
    decodePayload (Gen.tokenTypeRetry :: r) = .ok (.retry a c i) := by
  simp only [decodePayload, if_true, h1, h2, h3, List.isEmpty_nil]

theorem decodePayload_validation (r r1 : Bytes) (ip : Ip) (i : Nat) (h1 : decodeIp r = some (ip, r1))
    (h3 : decodeSecs r1 = .ok (i, [])) :
    decodePayload (Gen.tokenTypeValidation :: r) = .ok (.validation ip i) := by
  have hne : ¬ (Gen.tokenTypeValidation = Gen.tokenTypeRetry) := by decide
  simp only [decodePayload, if_true, hne, if_false, h1, h3, List.isEmpty_nil]

theorem decodePayload_encodePayload (p : Payload) (hv : p.Valid) : decodePayload (encodePayload p) = .ok p.wire := by
  cases p with
  | retry a c i =>
    obtain ⟨ha, hc, hi⟩ := hv
    have h3 := decodeSecs_encodeSecs i hi []
    rw [List.append_nil] at h3
    have h1 := decodeAddr_encodeAddr a ha (encodeCid c ++ encodeSecs i)
    have h2 := decodeCid_encodeCid c hc (encodeSecs i)
    rw [← List.append_assoc] at h1
    exact decodePayload_retry _ _ _ _ _ _ h1 h2 h3
  | validation ip i =>
    obtain ⟨hip, hi⟩ := hv
    have h3 := decodeSecs_encodeSecs i hi []
    rw [List.append_nil] at h3
    have h1 := decodeIp_encodeIp ip hip (encodeSecs i)
    exact decodePayload_validation _ _ _ _ h1 h3

/-! ### canonicity: what decodes is exactly an encoding -/

theorem decodeIp_sound (b : Bytes) (ip : Ip) (r : Bytes) (h : decodeIp b = some (ip, r)) :
    b = encodeIp ip ++ r ∧ ip.Valid := by
  cases b with
  | nil => simp [decodeIp] at h
  | cons t r0 =>
    simp only [decodeIp] at h
    by_cases h4 : t = Gen.tokenIpTagV4
    · rw [if_pos h4] at h
      by_cases hl : r0.length < 4
      · simp [hl] at h
      · simp only [hl, if_false, Option.some.injEq, Prod.mk.injEq] at h
        obtain ⟨rfl, rfl⟩ := h
        refine ⟨?_, ?_⟩
        · simp [encodeIp, h4, List.take_append_drop]
        · show (r0.take 4).length = 4
          rw [List.length_take]; omega
    · rw [if_neg h4] at h
      by_cases h6 : t = Gen.tokenIpTagV6
      · rw [if_pos h6] at h
        by_cases hl : r0.length < 16
        · simp [hl] at h
        · simp only [hl, if_false, Option.some.injEq, Prod.mk.injEq] at h
          obtain ⟨rfl, rfl⟩ := h
          refine ⟨?_, ?_⟩
          · simp [encodeIp, h6, List.take_append_drop]
          · show (r0.take 16).length = 16
            rw [List.length_take]; omega
      · simp [h6] at h

theorem decodeAddr_sound (b : Bytes) (hw : WF b) (a : Addr) (r : Bytes) (h : decodeAddr b = some (a, r)) :
    b = encodeAddr a ++ r ∧ a.Valid ∧ a.wire = a := by
  unfold decodeAddr at h
  cases hip : decodeIp b with
  | none => simp [hip] at h
  | some p =>
    obtain ⟨ip, r1⟩ := p
    have ⟨hb, hv⟩ := decodeIp_sound b ip r1 hip
    simp only [hip] at h
    by_cases hl : r1.length < 2
    · simp [hl] at h
    · simp only [hl, if_false, Option.some.injEq, Prod.mk.injEq] at h
      obtain ⟨rfl, rfl⟩ := h
      have hw1 : WF r1 := by
        intro x hx; apply hw; rw [hb]; exact List.mem_append_right _ hx
      have hlen : (r1.take 2).length = 2 := by rw [List.length_take]; omega
      have hport := beVal_lt (r1.take 2) (WF_take 2 hw1)
      rw [hlen] at hport
      have hcanon := beBytes_beVal (r1.take 2) (WF_take 2 hw1)
      rw [hlen] at hcanon
      refine ⟨?_, ⟨by simpa using hv, by simpa using hport⟩, by simp⟩
      rw [hb]
      simp only [encodeAddr, Addr.new_ip, Addr.new_port, hcanon, List.append_assoc, List.take_append_drop]

theorem decodeCid_sound (b : Bytes) (c r : Bytes) (h : decodeCid b = some (c, r)) :
    b = encodeCid c ++ r ∧ c.length ≤ Gen.maxCidSize := by
  cases b with
  | nil => simp [decodeCid] at h
  | cons len r0 =>
    simp only [decodeCid] at h
    by_cases hc : len > Gen.maxCidSize ∨ r0.length < len
    · simp [hc] at h
    · simp only [hc, if_false, Option.some.injEq, Prod.mk.injEq] at h
      obtain ⟨rfl, rfl⟩ := h
      have hl : (r0.take len).length = len := by rw [List.length_take]; omega
      refine ⟨?_, by omega⟩
      simp [encodeCid, hl, List.take_append_drop]

theorem decodeSecs_sound (b : Bytes) (hw : WF b) (i : Nat) (r : Bytes) (h : decodeSecs b = .ok (i, r)) :
    b = encodeSecs i ++ r ∧ i < 2 ^ 63 := by
  unfold decodeSecs at h
  by_cases hl : b.length < 8
  · simp [hl] at h
  · simp only [hl, if_false] at h
    by_cases hs : beVal (b.take 8) * SysTime.nsPerSec < SysTime.limit
    · simp only [hs, if_true, Res.ok.injEq, Prod.mk.injEq] at h
      obtain ⟨rfl, rfl⟩ := h
      have hlen : (b.take 8).length = 8 := by rw [List.length_take]; omega
      have hcanon := beBytes_beVal (b.take 8) (WF_take 8 hw)
      rw [hlen] at hcanon
      refine ⟨?_, (secs_ok _).mp hs⟩
      simp only [encodeSecs, hcanon, List.take_append_drop]
    · simp [hs] at h

/-- a plaintext that decodes is the encoding of the decoded payload, which is well formed and in wire form -/
theorem decodePayload_sound (pt : Bytes) (hw : WF pt) (p : Payload) (h : decodePayload pt = .ok p) :
    pt = encodePayload p ∧ p.Valid ∧ p.wire = p := by
  cases pt with
  | nil => simp [decodePayload] at h
  | cons ty r =>
    have hwr : WF r := WF_tail hw
    simp only [decodePayload] at h
    by_cases hR : ty = Gen.tokenTypeRetry
    · rw [if_pos hR] at h
      cases ha : decodeAddr r with
      | none => simp [ha] at h
      | some pa =>
        obtain ⟨a, r1⟩ := pa
        have ⟨hb1, hva, hwa⟩ := decodeAddr_sound r hwr a r1 ha
        have hw1 : WF r1 := by intro x hx; apply hwr; rw [hb1]; exact List.mem_append_right _ hx
        simp only [ha] at h
        cases hc : decodeCid r1 with
        | none => simp [hc] at h
        | some pc =>
          obtain ⟨c, r2⟩ := pc
          have ⟨hb2, hvc⟩ := decodeCid_sound r1 c r2 hc
          have hw2 : WF r2 := by intro x hx; apply hw1; rw [hb2]; exact List.mem_append_right _ hx
          simp only [hc] at h
          cases hs : decodeSecs r2 with
          | panic => simp [hs] at h
          | none => simp [hs] at h
          | ok ps =>
            obtain ⟨i, r3⟩ := ps
            have ⟨hb3, hvi⟩ := decodeSecs_sound r2 hw2 i r3 hs
            simp only [hs] at h
            by_cases he : r3.isEmpty = true
            · simp only [he, if_true, Res.ok.injEq] at h
              subst h
              have : r3 = [] := List.isEmpty_iff.mp he
              subst this
              refine ⟨?_, ⟨hva, hvc, hvi⟩, by simp [Payload.wire, hwa]⟩
              rw [hR, hb1, hb2, hb3]
              simp [encodePayload]
            · simp [he] at h
    · rw [if_neg hR] at h
      by_cases hV : ty = Gen.tokenTypeValidation
      · rw [if_pos hV] at h
        cases hip : decodeIp r with
        | none => simp [hip] at h
        | some pa =>
          obtain ⟨ip, r1⟩ := pa
          have ⟨hb1, hvip⟩ := decodeIp_sound r ip r1 hip
          have hw1 : WF r1 := by intro x hx; apply hwr; rw [hb1]; exact List.mem_append_right _ hx
          simp only [hip] at h
          cases hs : decodeSecs r1 with
          | panic => simp [hs] at h
          | none => simp [hs] at h
          | ok ps =>
            obtain ⟨i, r3⟩ := ps
            have ⟨hb3, hvi⟩ := decodeSecs_sound r1 hw1 i r3 hs
            simp only [hs] at h
            by_cases he : r3.isEmpty = true
            · simp only [he, if_true, Res.ok.injEq] at h
              subst h
              have : r3 = [] := List.isEmpty_iff.mp he
              subst this
              refine ⟨?_, ⟨hvip, hvi⟩, rfl⟩
              rw [hV, hb1, hb3]
              simp [encodePayload]
            · simp [he] at h
      · simp [hV] at h

end QM.Token
