import QuinnModel.Wire.Parser
import QuinnModel.Lemmas.VarInt
import QuinnModel.Lemmas.PacketNumber
/-
Proof kit for the reader/writer primitives:
 * `encB x`: the bytes of the varint `x` as a total function (proof-side only), with
   `wVar x (some b) = some (b ++ encB x)` and `getVar e (encB x ++ r) = ok (x, r)` for x < 2^62;
 * `Mono p`: a successful reader returns a suffix of its input (never reads past the buffer);
 * `Adv p`: … and a strictly shorter one.
-/
namespace QM.Wire
open QM QM.Wire.P

/-- proof-side total version of `VarInt.encode` -/
def encB (x : Nat) : Bytes :=
  match VarInt.encode x with
  | some e => e
  | none => []

theorem encode_eq {x : Nat} (h : x < 2^62) : VarInt.encode x = some (encB x) := by
  obtain ⟨e, he, _⟩ := VarInt.decode_encode x [] h
  simp [encB, he]

theorem decode_encB {x : Nat} (h : x < 2^62) (r : Bytes) : VarInt.decode (encB x ++ r) = some (x, r) := by
  obtain ⟨e, he, hd⟩ := VarInt.decode_encode x r h
  simp [encB, he, hd]

theorem encB_length {x : Nat} (h : x < 2^62) : 1 ≤ (encB x).length ∧ (encB x).length ≤ 8 := by
  obtain ⟨e, s, he, hs, hl⟩ := VarInt.size_eq_encode_length x h
  have : encB x = e := by simp [encB, he]
  rw [this, hl]
  unfold VarInt.size at hs
  repeat' split at hs
  all_goals simp at hs
  all_goals omega

theorem encB_ne_nil {x : Nat} (h : x < 2^62) : encB x ≠ [] := by
  intro hc
  have := (encB_length h).1
  rw [hc] at this
  simp at this

/-- `VarInt.size` of a representable value, as a number -/
theorem size_eq_length {x : Nat} (h : x < 2^62) : VarInt.size x = some (encB x).length := by
  obtain ⟨e, s, he, hs, hl⟩ := VarInt.size_eq_encode_length x h
  have : encB x = e := by simp [encB, he]
  rw [this, hl, hs]

theorem encB_length_eq {x : Nat} (h : x < 2^62) :
    (encB x).length = if x < 2^6 then 1 else if x < 2^14 then 2 else if x < 2^30 then 4 else 8 := by
  have h1 := size_eq_length h
  unfold VarInt.size at h1
  simp only [Gen.varintSizeT1, Gen.varintSizeT2, Gen.varintSizeT4, Gen.varintSizeT8] at h1
  by_cases c1 : x < 2^6
  · simp only [c1, if_true, Option.some.injEq] at h1 ⊢; exact h1.symm
  · by_cases c2 : x < 2^14
    · simp only [c1, c2, if_true, if_false, Option.some.injEq] at h1 ⊢; exact h1.symm
    · by_cases c3 : x < 2^30
      · simp only [c1, c2, c3, if_true, if_false, Option.some.injEq] at h1 ⊢; exact h1.symm
      · simp only [c1, c2, c3, h, if_true, if_false, Option.some.injEq] at h1 ⊢; exact h1.symm

/-- the length of a varint grows with the value -/
theorem encB_length_mono {x y : Nat} (hy : y < 2^62) (hxy : x ≤ y) : (encB x).length ≤ (encB y).length := by
  have hx : x < 2^62 := by omega
  rw [encB_length_eq hx, encB_length_eq hy]
  repeat' split
  all_goals omega

/-! ### writers -/

theorem wVar_some {x : Nat} (h : x < 2^62) (b : Bytes) : wVar x (some b) = some (b ++ encB x) := by
  simp [wVar, encode_eq h]

@[simp] theorem wBytes_some (d b : Bytes) : wBytes d (some b) = some (b ++ d) := rfl
@[simp] theorem wU8_some (x : Nat) (b : Bytes) : wU8 x (some b) = some (b ++ [x % 256]) := rfl
@[simp] theorem wU16_some (x : Nat) (b : Bytes) : wU16 x (some b) = some (b ++ beBytes 2 x) := rfl
@[simp] theorem wU32_some (x : Nat) (b : Bytes) : wU32 x (some b) = some (b ++ beBytes 4 x) := rfl
@[simp] theorem wU64_some (x : Nat) (b : Bytes) : wU64 x (some b) = some (b ++ beBytes 8 x) := rfl

/-! ### readers on what the writers produced -/

@[simp] theorem bind_apply {ε α β} (p : P ε α) (f : α → P ε β) (bs : Bytes) :
    (p >>= f) bs = match p bs with
      | .ok (a, r) => f a r
      | .error e => .error e := rfl

theorem bind_ok {ε α β} {p : P ε α} {f : α → P ε β} {bs r : Bytes} {a : α} (h : p bs = .ok (a, r)) :
    (p >>= f) bs = f a r := by simp [h]

@[simp] theorem pure_apply {ε α} (a : α) (bs : Bytes) : (pure a : P ε α) bs = .ok (a, bs) := rfl

@[simp] theorem fail_apply {ε α} (e : ε) (bs : Bytes) : (fail e : P ε α) bs = .error e := rfl

@[simp] theorem remaining_apply {ε} (bs : Bytes) : (remaining : P ε Nat) bs = .ok (bs.length, bs) := rfl

@[simp] theorem takeAll_apply {ε} (bs : Bytes) : (takeAll : P ε Bytes) bs = .ok (bs, []) := rfl

theorem ite_apply' {ε α} (c : Prop) [Decidable c] (p q : P ε α) (bs : Bytes) :
    (if c then p else q) bs = if c then p bs else q bs := by
  split <;> rfl

theorem getVar_enc {ε} (e : ε) {x : Nat} (h : x < 2^62) (r : Bytes) :
    getVar e (encB x ++ r) = .ok (x, r) := by
  simp [getVar, decode_encB h]

@[simp] theorem getU8_cons {ε} (e : ε) (b : Nat) (r : Bytes) : getU8 e (b :: r) = .ok (b, r) := rfl

theorem takeN_append {ε} (e : ε) (d r : Bytes) : takeN e d.length (d ++ r) = .ok (d, r) := by
  simp [takeN]

theorem takeN_append' {ε} (e : ε) (n : Nat) (d r : Bytes) (h : d.length = n) : takeN e n (d ++ r) = .ok (d, r) := by
  subst h; exact takeN_append e d r

theorem getU16_be {ε} (e : ε) {x : Nat} (h : x < 2^16) (r : Bytes) : getU16 e (beBytes 2 x ++ r) = .ok (x, r) := by
  have hl := PacketNumber.beBytes_length 2 x
  have hv := PacketNumber.beVal_beBytes 2 x
  simp only [getU16, List.length_append, hl]
  rw [if_neg (by omega)]
  rw [List.take_left' hl, List.drop_left' hl, hv]
  congr 2
  simp only [Nat.reducePow] at *; omega

theorem getU32_be {ε} (e : ε) {x : Nat} (h : x < 2^32) (r : Bytes) : getU32 e (beBytes 4 x ++ r) = .ok (x, r) := by
  have hl := PacketNumber.beBytes_length 4 x
  have hv := PacketNumber.beVal_beBytes 4 x
  simp only [getU32, List.length_append, hl]
  rw [if_neg (by omega)]
  rw [List.take_left' hl, List.drop_left' hl, hv]
  congr 2
  simp only [Nat.reducePow] at *; omega

theorem getU64_be {ε} (e : ε) {x : Nat} (h : x < 2^64) (r : Bytes) : getU64 e (beBytes 8 x ++ r) = .ok (x, r) := by
  have hl := PacketNumber.beBytes_length 8 x
  have hv := PacketNumber.beVal_beBytes 8 x
  simp only [getU64, List.length_append, hl]
  rw [if_neg (by omega)]
  rw [List.take_left' hl, List.drop_left' hl, hv]
  congr 2
  simp only [Nat.reducePow] at *; omega

/-! ### never reading past the buffer -/

/-- a successful run returns a suffix of the input -/
structure Mono {ε α} (p : P ε α) : Prop where
  suffix : ∀ bs a r, p bs = .ok (a, r) → r <:+ bs

/-- a successful run returns a strictly shorter suffix of the input -/
structure Adv {ε α} (p : P ε α) : Prop where
  suffix : ∀ bs a r, p bs = .ok (a, r) → r <:+ bs ∧ r.length < bs.length

theorem Adv.mono {ε α} {p : P ε α} (h : Adv p) : Mono p := ⟨fun bs a r hp => (h.suffix bs a r hp).1⟩

theorem Mono.pure {ε α} (a : α) : Mono (pure a : P ε α) :=
  ⟨fun bs a' r h => by simp at h; rw [← h.2]; exact List.suffix_refl _⟩

theorem Mono.fail {ε α} (e : ε) : Mono (fail e : P ε α) := ⟨fun bs a r h => by simp at h⟩

theorem Mono.remaining {ε} : Mono (remaining : P ε Nat) :=
  ⟨fun bs a r h => by simp at h; rw [← h.2]; exact List.suffix_refl _⟩

theorem Mono.takeAll {ε} : Mono (takeAll : P ε Bytes) :=
  ⟨fun bs a r h => by simp at h; rw [h.2]; exact List.nil_suffix⟩

theorem Mono.bind {ε α β} {p : P ε α} {f : α → P ε β} (hp : Mono p) (hf : ∀ a, Mono (f a)) : Mono (p >>= f) := by
  refine ⟨fun bs b r h => ?_⟩
  simp only [bind_apply] at h
  split at h
  · rename_i a r' hp'
    exact List.IsSuffix.trans ((hf a).suffix _ _ _ h) (hp.suffix _ _ _ hp')
  · simp at h

theorem Mono.ite {ε α} (c : Prop) [Decidable c] {p q : P ε α} (hp : Mono p) (hq : Mono q) :
    Mono (if c then p else q) := by
  split <;> assumption

theorem varint_decode_suffix (bs : Bytes) (v : Nat) (r : Bytes) (hd : VarInt.decode bs = some (v, r)) :
    r <:+ bs ∧ r.length < bs.length := by
  unfold VarInt.decode at hd
  match bs, hd with
  | b0 :: rest, hd =>
    simp only at hd
    repeat' split at hd
    all_goals simp only [Option.some.injEq, Prod.mk.injEq, reduceCtorEq] at hd
    all_goals obtain ⟨_, rfl⟩ := hd
    all_goals refine ⟨?_, ?_⟩
    all_goals first
      | exact List.suffix_cons _ _
      | exact List.IsSuffix.trans (List.drop_suffix _ _) (List.suffix_cons _ _)
      | (simp only [List.length_cons, List.length_drop]; omega)

theorem Adv.getVar {ε} (e : ε) : Adv (getVar e) := by
  refine ⟨fun bs a r h => ?_⟩
  unfold P.getVar at h
  split at h
  · rename_i v r' hd
    simp only [Except.ok.injEq, Prod.mk.injEq] at h
    obtain ⟨_, rfl⟩ := h
    exact varint_decode_suffix bs v r' hd
  · simp at h

theorem Mono.getVar {ε} (e : ε) : Mono (getVar e) := (Adv.getVar e).mono

theorem Adv.getU8 {ε} (e : ε) : Adv (getU8 e) := by
  refine ⟨fun bs a r h => ?_⟩
  unfold P.getU8 at h
  split at h
  · simp at h
  · simp only [Except.ok.injEq, Prod.mk.injEq] at h
    obtain ⟨_, rfl⟩ := h
    exact ⟨List.suffix_cons _ _, by simp⟩

theorem Mono.getU8 {ε} (e : ε) : Mono (getU8 e) := (Adv.getU8 e).mono

theorem Mono.takeN {ε} (e : ε) (n : Nat) : Mono (takeN e n) := by
  refine ⟨fun bs a r h => ?_⟩
  unfold P.takeN at h
  split at h
  · simp at h
  · simp only [Except.ok.injEq, Prod.mk.injEq] at h
    obtain ⟨_, rfl⟩ := h
    exact List.drop_suffix _ _

theorem Mono.getU16 {ε} (e : ε) : Mono (getU16 e) := by
  refine ⟨fun bs a r h => ?_⟩
  unfold P.getU16 at h
  split at h
  · simp at h
  · simp only [Except.ok.injEq, Prod.mk.injEq] at h
    obtain ⟨_, rfl⟩ := h
    exact List.drop_suffix _ _

theorem Mono.getU32 {ε} (e : ε) : Mono (getU32 e) := by
  refine ⟨fun bs a r h => ?_⟩
  unfold P.getU32 at h
  split at h
  · simp at h
  · simp only [Except.ok.injEq, Prod.mk.injEq] at h
    obtain ⟨_, rfl⟩ := h
    exact List.drop_suffix _ _

theorem Mono.getU64 {ε} (e : ε) : Mono (getU64 e) := by
  refine ⟨fun bs a r h => ?_⟩
  unfold P.getU64 at h
  split at h
  · simp at h
  · simp only [Except.ok.injEq, Prod.mk.injEq] at h
    obtain ⟨_, rfl⟩ := h
    exact List.drop_suffix _ _

/-- an advancing reader followed by a non-retreating one advances -/
theorem Adv.bind {ε α β} {p : P ε α} {f : α → P ε β} (hp : Adv p) (hf : ∀ a, Mono (f a)) : Adv (p >>= f) := by
  refine ⟨fun bs b r h => ?_⟩
  simp only [bind_apply] at h
  split at h
  · rename_i a r' hp'
    have h1 := (hf a).suffix _ _ _ h
    have h2 := hp.suffix _ _ _ hp'
    exact ⟨List.IsSuffix.trans h1 h2.1, Nat.lt_of_le_of_lt h1.length_le h2.2⟩
  · simp at h

/-- syntax-directed proof of `Mono` for readers built from the primitives -/
macro "mono_tac" : tactic => `(tactic|
  repeat' (first
    | exact Mono.pure _
    | exact Mono.fail _
    | exact Mono.getVar _
    | exact Mono.getU8 _
    | exact Mono.getU16 _
    | exact Mono.getU32 _
    | exact Mono.getU64 _
    | exact Mono.takeN _ _
    | exact Mono.takeAll
    | exact Mono.remaining
    | assumption
    | refine Mono.bind ?_ (fun _ => ?_)
    | apply Mono.ite
    | split))

/-! ### a given error is never produced -/

/-- the reader never fails with `bad` -/
structure Never {ε α} (bad : ε) (p : P ε α) : Prop where
  nv : ∀ bs, p bs ≠ .error bad

theorem Never.pure {ε α} (bad : ε) (a : α) : Never bad (pure a : P ε α) := ⟨fun bs h => by simp at h⟩
theorem Never.fail {ε α} {bad e : ε} (h : e ≠ bad) : Never bad (fail e : P ε α) :=
  ⟨fun bs h' => by simp at h'; exact h h'⟩
theorem Never.remaining {ε} (bad : ε) : Never bad (remaining : P ε Nat) := ⟨fun bs h => by simp at h⟩
theorem Never.takeAll {ε} (bad : ε) : Never bad (takeAll : P ε Bytes) := ⟨fun bs h => by simp at h⟩
theorem Never.getVar {ε} {bad e : ε} (h : e ≠ bad) : Never bad (getVar e) :=
  ⟨fun bs h' => by
    unfold P.getVar at h'
    split at h'
    · simp at h'
    · simp only [Except.error.injEq] at h'; exact h h'⟩
theorem Never.getU8 {ε} {bad e : ε} (h : e ≠ bad) : Never bad (getU8 e) :=
  ⟨fun bs h' => by
    unfold P.getU8 at h'
    split at h'
    · simp only [Except.error.injEq] at h'; exact h h'
    · simp at h'⟩
theorem Never.getU16 {ε} {bad e : ε} (h : e ≠ bad) : Never bad (getU16 e) :=
  ⟨fun bs h' => by
    unfold P.getU16 at h'
    split at h'
    · simp only [Except.error.injEq] at h'; exact h h'
    · simp at h'⟩
theorem Never.getU32 {ε} {bad e : ε} (h : e ≠ bad) : Never bad (getU32 e) :=
  ⟨fun bs h' => by
    unfold P.getU32 at h'
    split at h'
    · simp only [Except.error.injEq] at h'; exact h h'
    · simp at h'⟩
theorem Never.getU64 {ε} {bad e : ε} (h : e ≠ bad) : Never bad (getU64 e) :=
  ⟨fun bs h' => by
    unfold P.getU64 at h'
    split at h'
    · simp only [Except.error.injEq] at h'; exact h h'
    · simp at h'⟩
theorem Never.takeN {ε} {bad e : ε} (h : e ≠ bad) (n : Nat) : Never bad (takeN e n) :=
  ⟨fun bs h' => by
    unfold P.takeN at h'
    split at h'
    · simp only [Except.error.injEq] at h'; exact h h'
    · simp at h'⟩
theorem Never.bind {ε α β} {bad : ε} {p : P ε α} {f : α → P ε β} (hp : Never bad p) (hf : ∀ a, Never bad (f a)) :
    Never bad (p >>= f) := by
  refine ⟨fun bs h => ?_⟩
  simp only [bind_apply] at h
  split at h
  · exact (hf _).nv _ h
  · rename_i e he
    simp only [Except.error.injEq] at h
    subst h
    exact hp.nv _ he
theorem Never.ite {ε α} {bad : ε} (c : Prop) [Decidable c] {p q : P ε α} (hp : Never bad p) (hq : Never bad q) :
    Never bad (if c then p else q) := by
  split <;> assumption

/-- `if remaining < n' { Err(e) } else { take n }` with `n ≤ n'`: the unchecked take cannot fail -/
theorem Never.guardedTake {ε α} {bad e : ε} (he : e ≠ bad) (c : Nat → Prop) [DecidablePred c] (n : Nat)
    (hc : ∀ rem, ¬ c rem → n ≤ rem) {k : Bytes → P ε α} (hk : ∀ d, Never bad (k d)) :
    Never bad (do let rem ← P.remaining; if c rem then P.fail e else (P.takeN bad n >>= k) : P ε α) := by
  refine ⟨fun bs h => ?_⟩
  simp only [bind_apply, remaining_apply, ite_apply', fail_apply] at h
  split at h
  · simp only [Except.error.injEq] at h; exact he h
  · rename_i hcond
    have := hc _ hcond
    simp only [P.takeN] at h
    rw [if_neg (by omega)] at h
    exact (hk _).nv _ h

/-- syntax-directed proof of `Never bad p` for readers built from the primitives (error constants are
    compared with `decide`) -/
macro "never_tac" : tactic => `(tactic|
  repeat' (first
    | exact Never.pure _ _
    | exact Never.fail (by decide)
    | exact Never.getVar (by decide)
    | exact Never.getU8 (by decide)
    | exact Never.getU16 (by decide)
    | exact Never.getU32 (by decide)
    | exact Never.getU64 (by decide)
    | exact Never.takeN (by decide) _
    | exact Never.takeAll _
    | exact Never.remaining _
    | assumption
    | refine Never.bind ?_ (fun _ => ?_)
    | apply Never.ite))

/-- `bad` is never produced on inputs satisfying `pre` -/
structure NeverIf {ε α} (pre : Bytes → Prop) (bad : ε) (p : P ε α) : Prop where
  nv : ∀ bs, pre bs → p bs ≠ .error bad

theorem NeverIf.of_never {ε α} {pre : Bytes → Prop} {bad : ε} {p : P ε α} (h : Never bad p) : NeverIf pre bad p :=
  ⟨fun bs _ => h.nv bs⟩

theorem NeverIf.ite {ε α} {pre : Bytes → Prop} {bad : ε} (c : Prop) [Decidable c] {p q : P ε α}
    (hp : NeverIf pre bad p) (hq : NeverIf pre bad q) : NeverIf pre bad (if c then p else q) := by
  split <;> assumption

end QM.Wire
