import QuinnModel.Lemmas.IndexTuple
/-
What the repaired `ConnectionIndex::remove` guarantees for ALL histories (no side condition):
draining a connection changes no table entry of another connection, and the address-tuple entry of a
connection stays in place from the moment the connection is established until it drains or a newer
connection is established on the same key.
-/
namespace QM.Index

/-! ### effect of `Drained` on the entries of other handles -/

theorem drained_lookups {s s' : State} {ch : Nat} (hs : Sound s) (h : evDrained s ch = some s') :
    (∀ a h', alookup a s.index.inRemotes = some h' → h' ≠ ch → alookup a s'.index.inRemotes = some h') ∧
    (∀ r h', alookup r s.index.outRemotes = some h' → h' ≠ ch → alookup r s'.index.outRemotes = some h') ∧
    (∀ c h', c ≠ [] → alookup c s.index.ids = some h' → h' ≠ ch → alookup c s'.index.ids = some h') ∧
    (∀ d h', alookup d s.index.idsInitial = some (.connection h') → h' ≠ ch →
      alookup d s'.index.idsInitial = some (.connection h')) ∧
    (∀ d i, alookup d s.index.idsInitial = some (.incoming i) →
      alookup d s'.index.idsInitial = some (.incoming i)) ∧
    (∀ a, alookup a s.index.inRemotes = none → alookup a s'.index.inRemotes = none) ∧
    (∀ r, alookup r s.index.outRemotes = none → alookup r s'.index.outRemotes = none) := by
  unfold evDrained at h
  split at h
  · rename_i conn conns htr
    split at h
    · simp at h
    · rename_i ix' hrem
      simp only [Option.some.injEq] at h; subst h
      obtain ⟨g0, g1, g2⟩ := Slab.tryRemove_some htr
      obtain ⟨r1, r2, r3, r4, r5⟩ := remove_spec hrem
      have mv := fun c (hc : c ∈ conn.locCids.map (fun e => e.2)) =>
        exists_alookup_of_mem_vals (hs.loc_nodup _ _ g0) hc
      refine ⟨?_, ?_, ?_, ?_, ?_, ?_, ?_⟩ <;> simp only []
      · intro a h' hl hne; rw [r3, hl]
        have : ¬ (some h' = some ch) := by simpa using hne
        simp [this]
      · intro r h' hl hne; rw [r4, hl]
        have : ¬ (some h' = some ch) := by simpa using hne
        simp [this]
      · intro c h' hce hl hne
        rw [r2]
        split
        · rename_i hmem
          obtain ⟨q, hq⟩ := mv c hmem
          have := hs.ids_complete ch conn q c g0 hq hce
          rw [this] at hl; cases hl; exact absurd rfl hne
        · exact hl
      · intro d h' hl hne
        rw [r1]
        split
        · rename_i hc
          obtain ⟨hsv, hne0, rfl⟩ := hc
          have := hs.conn_init ch conn g0 hsv hne0
          rw [this] at hl; cases hl; exact absurd rfl hne
        · exact hl
      · intro d i hl
        rw [r1]
        split
        · rename_i hc
          obtain ⟨hsv, hne0, rfl⟩ := hc
          have := hs.conn_init ch conn g0 hsv hne0
          rw [this] at hl; cases hl
        · exact hl
      · intro a hl; rw [r3, hl]; simp
      · intro r hl; rw [r4, hl]; simp
  · simp only [Option.some.injEq] at h; subst h
    exact ⟨fun _ _ h _ => h, fun _ _ h _ => h, fun _ _ _ h _ => h, fun _ _ h _ => h, fun _ _ h => h,
      fun _ h => h, fun _ h => h⟩

/-! ### effect of `connect` / `accept` on the tuple tables -/

theorem connect_lookups {s s' : State} {remote : Addr} {initCid : Cid} {tls : Bool} {cands : List Cid}
    {res : ConnectResult} (h : connect s remote initCid tls cands = some (s', res)) :
    (∀ a, alookup a s'.index.inRemotes = alookup a s.index.inRemotes) ∧
    (∀ r, remote ≠ r → alookup r s'.index.outRemotes = alookup r s.index.outRemotes) ∧
    (s.cidLen = 0 → ∀ ch, res = .ok ch → alookup remote s'.index.outRemotes = some ch) := by
  unfold connect at h
  split at h
  · simp only [Option.some.injEq, Prod.mk.injEq] at h; obtain ⟨rfl, rfl⟩ := h
    exact ⟨fun _ => rfl, fun _ _ => rfl, fun _ _ hc => by cases hc⟩
  · split at h
    · simp only [Option.some.injEq, Prod.mk.injEq] at h; obtain ⟨rfl, rfl⟩ := h
      exact ⟨fun _ => rfl, fun _ _ => rfl, fun _ _ hc => by cases hc⟩
    · dsimp only at h
      split at h
      · simp at h
      · rename_i loc s1 c1 hnew
        obtain ⟨n1, n2, n3, n4, n5, n6, n7⟩ := newCid_same hnew
        split at h
        · simp only [Option.some.injEq, Prod.mk.injEq] at h; obtain ⟨rfl, rfl⟩ := h
          refine ⟨fun _ => ?_, fun _ _ => ?_, fun _ _ hc => by cases hc⟩
          · show alookup _ s1.index.inRemotes = _; rw [n5]
          · show alookup _ s1.index.outRemotes = _; rw [n6]
        · split at h
          · simp at h
          · rename_i s2 hadd
            simp only [Option.some.injEq, Prod.mk.injEq] at h; obtain ⟨rfl, rfl⟩ := h
            obtain ⟨a1, a2, a3, a4, a5, a6, a7, a8⟩ := addConnection_spec hadd
            by_cases hl : loc.length = 0
            · simp only [Index.insertConn, hl, if_true] at a8
              rw [a8]
              refine ⟨fun _ => by simp only [n5], fun r hr => ?_, fun _ ch hc => ?_⟩
              · simp only [alookup_ainsert, hr, if_false, n6]
              · simp only [ConnectResult.ok.injEq] at hc; subst hc
                simp [alookup_ainsert]
            · simp only [Index.insertConn, hl, if_false] at a8
              rw [a8]
              refine ⟨fun _ => by simp only [n5], fun r hr => by simp only [n6], fun h0 _ _ => ?_⟩
              exact absurd (by rw [n7 h0]; rfl) hl

theorem accept_lookups {s s' : State} {idx : Nat} {mode : AcceptMode} {cands : List Cid} {res : AcceptResult}
    (hs : Sound s) (h : accept s idx mode cands = some (s', res)) :
    ∃ p, s.incoming.get idx = some p ∧
      (∀ a, p.addresses ≠ a → alookup a s'.index.inRemotes = alookup a s.index.inRemotes) ∧
      (∀ r, alookup r s'.index.outRemotes = alookup r s.index.outRemotes) ∧
      (s.cidLen = 0 → ∀ ch, res = .ok ch → alookup p.addresses s'.index.inRemotes = some ch) := by
  unfold accept at h
  split at h
  · simp at h
  · rename_i p inc hrem
    have hp : s.incoming.get idx = some p := (Slab.remove_spec hrem).1
    refine ⟨p, hp, ?_⟩
    have hfail : ∀ r0 : AcceptResult, (∀ ch, r0 ≠ .ok ch) →
        (match ({ s with incoming := inc } : State).index.removeInitial p.dcid with
          | none => none
          | some ix => some ({ ({ s with incoming := inc } : State) with index := ix }, r0)) = some (s', res) →
        (∀ a, p.addresses ≠ a → alookup a s'.index.inRemotes = alookup a s.index.inRemotes) ∧
        (∀ r, alookup r s'.index.outRemotes = alookup r s.index.outRemotes) ∧
        (s.cidLen = 0 → ∀ ch, res = .ok ch → alookup p.addresses s'.index.inRemotes = some ch) := by
      intro r0 hr0 hf
      split at hf
      · simp at hf
      · rename_i ix hri
        simp only [Option.some.injEq, Prod.mk.injEq] at hf; obtain ⟨rfl, rfl⟩ := hf
        obtain ⟨-, e2, e3, -, -⟩ := removeInitial_spec hri
        exact ⟨fun _ _ => by simp only [e2], fun _ => by simp only [e3],
          fun _ ch hc => absurd hc (hr0 ch)⟩
    dsimp only at h
    split at h
    · exact hfail _ (by intro ch; simp) h
    · split at h
      · split at h
        · simp at h
        · exact hfail _ (by intro ch; simp) h
      · split at h
        · exact hfail _ (by intro ch; simp) h
        · split at h
          · simp at h
          · rename_i loc s1 c1 hnew
            obtain ⟨n1, n2, n3, n4, n5, n6, n7⟩ := newCid_same hnew
            simp only [] at n1 n2 n3 n4 n5 n6 n7
            split at h
            · simp at h
            · rename_i pref s2 c2 hp2
              have h12 : s2.conns = s1.conns ∧ s2.cidLen = s1.cidLen ∧
                  s2.index.inRemotes = s1.index.inRemotes ∧ s2.index.outRemotes = s1.index.outRemotes := by
                split at hp2
                · split at hp2
                  · simp at hp2
                  · rename_i cid s2' c2' hn2
                    simp only [Option.some.injEq, Prod.mk.injEq] at hp2
                    obtain ⟨-, rfl, -⟩ := hp2
                    obtain ⟨k1, k2, k3, k4, k5, k6, k7⟩ := newCid_same hn2
                    exact ⟨k1, k3, k5, k6⟩
                · simp only [Option.some.injEq, Prod.mk.injEq] at hp2
                  obtain ⟨-, rfl, -⟩ := hp2
                  exact ⟨rfl, rfl, rfl, rfl⟩
              obtain ⟨q1, q2, q3, q4⟩ := h12
              split at h
              · simp at h
              · rename_i s3 hadd
                obtain ⟨a1, a2, a3, a4, a5, a6, a7, a8⟩ := addConnection_spec hadd
                rw [q1, n1] at a2
                -- the tables right after `insert_initial`
                have hin4 : ∀ a, p.addresses ≠ a →
                    alookup a (s3.index.insertInitial p.dcid s.conns.vacantKey).inRemotes =
                      alookup a s.index.inRemotes := by
                  intro a ha
                  rw [(insertInitial_tuples _ _ _).1, a8]
                  unfold Index.insertConn
                  split <;> simp only [alookup_ainsert, ha, if_false, q3, n5]
                have hout4 : ∀ r, alookup r (s3.index.insertInitial p.dcid s.conns.vacantKey).outRemotes =
                    alookup r s.index.outRemotes := by
                  intro r
                  rw [(insertInitial_tuples _ _ _).2, a8]
                  unfold Index.insertConn
                  split <;> simp only [q4, n6]
                have hreg : s.cidLen = 0 →
                    alookup p.addresses (s3.index.insertInitial p.dcid s.conns.vacantKey).inRemotes =
                      some s.conns.vacantKey := by
                  intro h0
                  rw [(insertInitial_tuples _ _ _).1, a8, n7 h0]
                  simp [Index.insertConn, alookup_ainsert]
                split at h
                · split at h
                  · rename_i s5 _ hdr _
                    simp only [Option.some.injEq, Prod.mk.injEq] at h; obtain ⟨rfl, rfl⟩ := h
                    -- `Drained` of the half-built connection: needs `Sound` of the intermediate state
                    have hpref : (pref = none ∧ s2 = s1) ∨
                        (∃ cid c2, pref = some cid ∧ newCid s1 s.conns.vacantKey c1 = some (cid, s2, c2)) := by
                      split at hp2
                      · split at hp2
                        · simp at hp2
                        · rename_i cid s2' c2' hn2
                          simp only [Option.some.injEq, Prod.mk.injEq] at hp2
                          obtain ⟨rfl, rfl, rfl⟩ := hp2
                          exact Or.inr ⟨cid, _, rfl, hn2⟩
                      · simp only [Option.some.injEq, Prod.mk.injEq] at hp2
                        obtain ⟨rfl, rfl, rfl⟩ := hp2
                        exact Or.inl ⟨rfl, rfl⟩
                    have hs4 := sound_add_server hs hrem hnew hpref hadd
                    obtain ⟨d1, d2, -, -, -, d6, d7⟩ := drained_lookups hs4 hdr
                    simp only [] at d1 d2 d6 d7
                    refine ⟨fun a ha => ?_, fun r => ?_, fun _ ch hc => by cases hc⟩
                    · cases hv : alookup a s.index.inRemotes with
                      | none => exact d6 a (by rw [hin4 a ha]; exact hv)
                      | some h' =>
                        have hne : h' ≠ s.conns.vacantKey := by
                          intro e; subst e
                          obtain ⟨m, g, _⟩ := hs.in_sound _ _ hv
                          rw [a2] at g; cases g
                        exact d1 a h' (by rw [hin4 a ha]; exact hv) hne
                    · cases hv : alookup r s.index.outRemotes with
                      | none => exact d7 r (by rw [hout4 r]; exact hv)
                      | some h' =>
                        have hne : h' ≠ s.conns.vacantKey := by
                          intro e; subst e
                          obtain ⟨m, g, _⟩ := hs.out_sound _ _ hv
                          rw [a2] at g; cases g
                        exact d2 r h' (by rw [hout4 r]; exact hv) hne
                  · simp at h
                · simp only [Option.some.injEq, Prod.mk.injEq] at h; obtain ⟨rfl, rfl⟩ := h
                  refine ⟨hin4, hout4, fun h0 ch hc => ?_⟩
                  simp only [AcceptResult.ok.injEq] at hc; subst hc
                  exact hreg h0

/-! ### the entry of a tuple stays with its owner until the owner drains or is superseded -/

/-- the call neither drains connection `h` nor establishes a newer incoming connection on tuple `a` -/
def KeepsIn (a : FourTuple) (h : Nat) (s : State) : Op → Prop
  | .accept idx _ _ => ∀ p, s.incoming.get idx = some p → p.addresses ≠ a
  | .event ch _ .drained => ch ≠ h
  | _ => True

/-- the call neither drains connection `h` nor establishes a newer outgoing connection to remote `r` -/
def KeepsOut (r : Addr) (h : Nat) (_ : State) : Op → Prop
  | .connect remote _ _ _ => remote ≠ r
  | .event ch _ .drained => ch ≠ h
  | _ => True

/-- every call leaves the tuple tables alone except `connect`, `accept` and `Drained` -/
theorem tuple_tables_step {s s' : State} {op : Op} (hs : Sound s) (h : step s op = some s') :
    (∀ a hh, alookup a s.index.inRemotes = some hh → KeepsIn a hh s op →
      alookup a s'.index.inRemotes = some hh) ∧
    (∀ r hh, alookup r s.index.outRemotes = some hh → KeepsOut r hh s op →
      alookup r s'.index.outRemotes = some hh) := by
  cases op with
  | connect r i t c =>
    simp only [step, Option.map_eq_some_iff] at h
    obtain ⟨⟨s1, res⟩, h1, rfl⟩ := h
    obtain ⟨c1, c2, -⟩ := connect_lookups h1
    exact ⟨fun a hh hl _ => by rw [c1 a]; exact hl, fun r' hh hl hk => by rw [c2 r' hk]; exact hl⟩
  | first a d b =>
    simp only [step, Option.map_eq_some_iff] at h
    obtain ⟨⟨s1, res⟩, h1, rfl⟩ := h
    have f := frame_firstPacket h1
    exact ⟨fun a hh hl _ => by rw [f.inR]; exact hl, fun r hh hl _ => by rw [f.outR]; exact hl⟩
  | accept i m c =>
    simp only [step, Option.map_eq_some_iff] at h
    obtain ⟨⟨s1, res⟩, h1, rfl⟩ := h
    obtain ⟨p, hp, c1, c2, -⟩ := accept_lookups hs h1
    exact ⟨fun a hh hl hk => by rw [c1 a (hk p hp)]; exact hl, fun r hh hl _ => by rw [c2 r]; exact hl⟩
  | cleanUp i =>
    have f := frame_cleanUp h
    exact ⟨fun a hh hl _ => by rw [f.inR]; exact hl, fun r hh hl _ => by rw [f.outR]; exact hl⟩
  | refuse i c =>
    simp only [step, refuse] at h
    split at h
    · simp at h
    · rename_i s1 h1
      split at h
      · simp at h
      · simp only [Option.some.injEq] at h; subst h
        have f := frame_cleanUp h1
        exact ⟨fun a hh hl _ => by rw [f.inR]; exact hl, fun r hh hl _ => by rw [f.outR]; exact hl⟩
  | event ch c ev =>
    simp only [step, Option.map_eq_some_iff] at h
    obtain ⟨⟨s1, res⟩, h1, rfl⟩ := h
    cases ev with
    | needIdentifiers n =>
      simp only [handleEvent] at h1
      split at h1
      · simp at h1
      · rename_i s2 ids c2 hsend
        simp only [Option.some.injEq, Prod.mk.injEq] at h1; obtain ⟨rfl, -⟩ := h1
        have f := frame_sendNewIdentifiers n hsend
        exact ⟨fun a hh hl _ => by rw [f.inR]; exact hl, fun r hh hl _ => by rw [f.outR]; exact hl⟩
    | resetToken remote token =>
      simp only [handleEvent, Option.map_eq_some_iff] at h1
      obtain ⟨s2, h2, h3⟩ := h1
      simp only [Prod.mk.injEq] at h3; obtain ⟨rfl, -⟩ := h3
      have f := frame_resetToken h2
      exact ⟨fun a hh hl _ => by rw [f.inR]; exact hl, fun r hh hl _ => by rw [f.outR]; exact hl⟩
    | retireConnectionId seq allow =>
      have f := frame_retire h1
      exact ⟨fun a hh hl _ => by rw [f.inR]; exact hl, fun r hh hl _ => by rw [f.outR]; exact hl⟩
    | drained =>
      simp only [handleEvent, Option.map_eq_some_iff] at h1
      obtain ⟨s2, h2, h3⟩ := h1
      simp only [Prod.mk.injEq] at h3; obtain ⟨rfl, -⟩ := h3
      obtain ⟨d1, d2, -⟩ := drained_lookups hs h2
      exact ⟨fun a hh hl hk => d1 a hh hl (Ne.symm hk), fun r hh hl hk => d2 r hh hl (Ne.symm hk)⟩

theorem in_entry_stable {a : FourTuple} {h : Nat} {ops : List Op} {s0 s : State} (hs : Sound s0)
    (hl : alookup a s0.index.inRemotes = some h) (hk : Along (KeepsIn a h) s0 ops)
    (hr : runFrom s0 ops = some s) : alookup a s.index.inRemotes = some h :=
  (inv_runFrom (Inv := fun s => Sound s ∧ alookup a s.index.inRemotes = some h)
    (fun _ _ _ hi hp hst => ⟨sound_step hi.1 hst, (tuple_tables_step hi.1 hst).1 a h hi.2 hp⟩)
    ⟨hs, hl⟩ hk hr).2

theorem out_entry_stable {r : Addr} {h : Nat} {ops : List Op} {s0 s : State} (hs : Sound s0)
    (hl : alookup r s0.index.outRemotes = some h) (hk : Along (KeepsOut r h) s0 ops)
    (hr : runFrom s0 ops = some s) : alookup r s.index.outRemotes = some h :=
  (inv_runFrom (Inv := fun s => Sound s ∧ alookup r s.index.outRemotes = some h)
    (fun _ _ _ hi hp hst => ⟨sound_step hi.1 hst, (tuple_tables_step hi.1 hst).2 r h hi.2 hp⟩)
    ⟨hs, hl⟩ hk hr).2

/-! ### a failed `connect` leaves nothing behind -/

theorem connect_failed_same {s s' : State} {remote : Addr} {initCid : Cid} {tls : Bool} {cands : List Cid}
    {res : ConnectResult} (h : connect s remote initCid tls cands = some (s', res))
    (hfail : ∀ ch, res ≠ .ok ch) : s'.conns = s.conns ∧ ∀ hh, Mentions s' hh → Mentions s hh := by
  unfold connect at h
  split at h
  · simp only [Option.some.injEq, Prod.mk.injEq] at h; obtain ⟨rfl, -⟩ := h; exact ⟨rfl, fun _ hm => hm⟩
  · split at h
    · simp only [Option.some.injEq, Prod.mk.injEq] at h; obtain ⟨rfl, -⟩ := h; exact ⟨rfl, fun _ hm => hm⟩
    · dsimp only at h
      split at h
      · simp at h
      · rename_i loc s1 c1 hnew
        split at h
        · simp only [Option.some.injEq, Prod.mk.injEq] at h; obtain ⟨rfl, -⟩ := h
          rcases newCid_spec hnew with ⟨rfl, -, rfl⟩ | ⟨-, -, -, rfl⟩
          · refine ⟨rfl, ?_⟩
            intro hh hm
            rcases hm with e | ⟨c, e⟩ | e | e | e
            · exact Or.inl e
            · simp only [Index.retire, alookup_aerase] at e
              split at e
              · simp at e
              · exact Or.inr (Or.inl ⟨c, e⟩)
            · exact Or.inr (Or.inr (Or.inl e))
            · exact Or.inr (Or.inr (Or.inr (Or.inl e)))
            · exact Or.inr (Or.inr (Or.inr (Or.inr e)))
          · refine ⟨rfl, ?_⟩
            intro hh hm
            rcases hm with e | ⟨c, e⟩ | e | e | e
            · exact Or.inl e
            · simp only [Index.retire, alookup_aerase, alookup_ainsert] at e
              split at e
              · simp at e
              · exact Or.inr (Or.inl ⟨c, by first | exact e | (split at e <;> first | exact e | contradiction)⟩)
            · exact Or.inr (Or.inr (Or.inl e))
            · exact Or.inr (Or.inr (Or.inr (Or.inl e)))
            · exact Or.inr (Or.inr (Or.inr (Or.inr e)))
        · split at h
          · simp at h
          · simp only [Option.some.injEq, Prod.mk.injEq] at h; obtain ⟨-, rfl⟩ := h
            exact absurd rfl (hfail _)

end QM.Index
