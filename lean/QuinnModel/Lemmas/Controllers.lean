import QuinnModel.Recovery.Controllers
/-
Window floors of the built-in controllers: `window() ≥ 2 · current_mtu` after every call of the
`Controller` trait, for ALL call histories and ALL values of the float-derived (observed) inputs.
-/
namespace QM.Controllers

theorem natMax_eq (a b : Nat) : Nat.max a b = max a b := rfl
theorem natMin_eq (a b : Nat) : Nat.min a b = min a b := rfl

/-! ### NewReno -/

inductive RenoOp where
  | sent
  | ack (sent bytes : Nat) (appLimited : Bool)
  | endAcks
  | cong (now sent : Nat) (persistent ecn : Bool) (lost : Nat)
  | spurious
  | mtu (m : Nat)

/-- one trait call (the state reached is the same whether or not the call ended in an overflow panic) -/
def Reno.step (c : Reno) : RenoOp → Reno
  | .sent => c
  | .ack sent bytes app => (c.onAck sent bytes app).1
  | .endAcks => c
  | .cong now sent persistent _ _ => c.onCongestionEvent now sent persistent
  | .spurious => c
  | .mtu m => c.onMtuUpdate m

def Reno.run (c : Reno) (ops : List RenoOp) : Reno := ops.foldl Reno.step c

def Reno.Floor (c : Reno) : Prop := 2 * c.mtu ≤ c.window

theorem reno_onAck_floor (c : Reno) (sent bytes : Nat) (app : Bool) (h : c.Floor) :
    (c.onAck sent bytes app).1.Floor := by
  unfold Reno.onAck Reno.Floor at *
  split
  · exact h
  · split
    · split
      · exact h
      · dsimp only
        split <;> (first | omega | (dsimp only; omega))
    · split
      · exact h
      · dsimp only
        split
        · split <;> (first | omega | (dsimp only; omega))
        · exact h

theorem reno_cong_floor (c : Reno) (now sent : Nat) (p : Bool) (h : c.Floor) :
    (c.onCongestionEvent now sent p).Floor := by
  unfold Reno.onCongestionEvent Reno.Floor Reno.minimumWindow at *
  simp only [Gen.newRenoMinWindowFactor, natMax_eq]
  split
  · exact h
  · split <;> (first | omega | (dsimp only; omega))

theorem reno_mtu_floor (c : Reno) (m : Nat) : (c.onMtuUpdate m).Floor := by
  unfold Reno.onMtuUpdate Reno.Floor Reno.minimumWindow
  simp only [Gen.newRenoMtuWindow, Gen.newRenoMinWindowFactor, natMax_eq]
  omega

theorem reno_step_floor (c : Reno) (op : RenoOp) (h : c.Floor) : (c.step op).Floor := by
  cases op with
  | sent => exact h
  | ack s b a => exact reno_onAck_floor c s b a h
  | endAcks => exact h
  | cong n s p e l => exact reno_cong_floor c n s p h
  | spurious => exact h
  | mtu m => exact reno_mtu_floor c m

theorem reno_run_floor (ops : List RenoOp) (c : Reno) (h : c.Floor) : (c.run ops).Floor := by
  induction ops generalizing c with
  | nil => exact h
  | cons op t ih => exact ih (c.step op) (reno_step_floor c op h)

/-! ### Cubic -/

inductive CubicOp where
  | sent
  | ack (now sent bytes : Nat) (appLimited : Bool) (obs : Option CubicAckObs)
  | endAcks
  | cong (now sent : Nat) (persistent ecn : Bool) (lost : Nat) (obs : Option CubicCongObs)
  | spurious
  | mtu (m : Nat)

def Cubic.step (c : Cubic) : CubicOp → Cubic
  | .sent => c
  | .ack now sent bytes app obs => (c.onAck now sent bytes app obs).1
  | .endAcks => c
  | .cong now sent persistent ecn _ obs => (c.onCongestionEvent now sent persistent ecn obs).1
  | .spurious => c.onSpurious
  | .mtu m => c.onMtuUpdate m

def Cubic.run (c : Cubic) (ops : List CubicOp) : Cubic := ops.foldl Cubic.step c

def Cubic.Floor (c : Cubic) : Prop := 2 * c.mtu ≤ c.st.window

theorem cubic_caUpdate_floor (c1 : Cubic) (obs : Option CubicAckObs) (h : c1.Floor) :
    (c1.caUpdate obs).1.Floor := by
  unfold Cubic.caUpdate Cubic.Floor at *
  split
  · exact h
  · split
    · exact h
    · (try dsimp only)
      split
      · split <;> (first | omega | (dsimp only; omega))
      · first | omega | (dsimp only; omega)

theorem cubic_onAck_floor (c : Cubic) (now sent bytes : Nat) (app : Bool) (obs : Option CubicAckObs)
    (h : c.Floor) : (c.onAck now sent bytes app obs).1.Floor := by
  unfold Cubic.onAck
  split
  · exact h
  · split
    · split
      · exact h
      · unfold Cubic.Floor at *; first | omega | (dsimp only; omega)
    · apply cubic_caUpdate_floor
      unfold Cubic.Floor at *
      split <;> (first | omega | (dsimp only; omega))

theorem cubic_cong_floor (c : Cubic) (now sent : Nat) (p e : Bool) (obs : Option CubicCongObs) (h : c.Floor) :
    (c.onCongestionEvent now sent p e obs).1.Floor := by
  unfold Cubic.onCongestionEvent Cubic.Floor Cubic.minimumWindow at *
  simp only [Gen.cubicMinWindowFactor, natMax_eq]
  split
  · exact h
  · split
    · exact h
    · split
      · split
        · (try dsimp only); split <;> (first | omega | (dsimp only; omega))
        · (try dsimp only); split <;> (first | omega | (dsimp only; omega))
      · (try dsimp only); split <;> (first | omega | (dsimp only; omega))

theorem cubic_spurious_floor (c : Cubic) (h : c.Floor) : c.onSpurious.Floor := by
  unfold Cubic.onSpurious Cubic.Floor at *
  split
  · dsimp only
    split
    · dsimp only; omega
    · exact h
  · exact h

theorem cubic_mtu_floor (c : Cubic) (m : Nat) : (c.onMtuUpdate m).Floor := by
  unfold Cubic.onMtuUpdate Cubic.Floor Cubic.minimumWindow
  simp only [Gen.cubicMtuWindow, Gen.cubicMinWindowFactor, natMax_eq]
  omega

theorem cubic_step_floor (c : Cubic) (op : CubicOp) (h : c.Floor) : (c.step op).Floor := by
  cases op with
  | sent => exact h
  | ack n s b a o => exact cubic_onAck_floor c n s b a o h
  | endAcks => exact h
  | cong n s p e l o => exact cubic_cong_floor c n s p e o h
  | spurious => exact cubic_spurious_floor c h
  | mtu m => exact cubic_mtu_floor c m

theorem cubic_run_floor (ops : List CubicOp) (c : Cubic) (h : c.Floor) : (c.run ops).Floor := by
  induction ops generalizing c with
  | nil => exact h
  | cons op t ih => exact ih (c.step op) (cubic_step_floor c op h)


/-! ### BBR -/

inductive BbrOp where
  | sent (pn : Nat)
  | ack (bytes : Nat)
  | endAcks (inFlight : Nat) (largest : Option Nat) (o : BbrEndObs)
  | cong (lost : Nat)
  | spurious
  | mtu (m : Nat)

def Bbr.step (c : Bbr) : BbrOp → Bbr × Out
  | .sent pn => (c.onSent pn, .ok)
  | .ack bytes => c.onAck bytes
  | .endAcks inFlight largest o => c.onEndAcks inFlight largest o
  | .cong lost => c.onCongestionEvent lost
  | .spurious => (c, .ok)
  | .mtu m => (c.onMtuUpdate m, .ok)

/-- the state after a history in which no call ended in an overflow panic (a debug build stops there);
    `none` otherwise -/
def Bbr.run (c : Bbr) : List BbrOp → Option Bbr
  | [] => some c
  | op :: t =>
    match c.step op with
    | (c', .ok) => c'.run t
    | _ => none

structure Bbr.Inv (c : Bbr) : Prop where
  minCwnd : c.minCwnd = 4 * c.mtu
  cwnd : 2 * c.mtu ≤ c.cwnd
  initCwnd : 2 * c.mtu ≤ c.initCwnd
  rw : c.recovery.inRecovery = true → 2 * c.mtu ≤ c.recoveryWindow

theorem bbr_newWith_inv (initialWindow mtu : Nat) : (Bbr.newWith initialWindow mtu).Inv := by
  refine ⟨?_, ?_, ?_, ?_⟩
  · simp [Bbr.newWith, Gen.bbrInitialMinCwnd]
  · simp only [Bbr.newWith, Gen.bbrInitialCwnd, natMax_eq]; omega
  · simp only [Bbr.newWith, Gen.bbrInitialInitCwnd, natMax_eq]; omega
  · intro hr; simp [Bbr.newWith, Recovery.inRecovery] at hr

/-- what `window()` returns is at least two datagrams whenever the invariant holds -/
theorem bbr_window_floor (c : Bbr) (hi : c.Inv) (tc : Option Nat) (w : Nat) (hw : c.window tc = some w) :
    2 * c.mtu ≤ w := by
  obtain ⟨h1, h2, h3, h4⟩ := hi
  unfold Bbr.window at hw
  simp only [natMax_eq, natMin_eq] at hw
  split at hw
  · split at hw
    · simp only [Option.some.injEq] at hw
      subst hw
      split <;> omega
    · cases hw
  · split at hw
    · rename_i hr
      simp only [Option.some.injEq] at hw
      have := h4 hr.1
      omega
    · simp only [Option.some.injEq] at hw; omega

theorem bbr_updateRecoveryState_frame (c : Bbr) (b : Bool) :
    (c.updateRecoveryState b).mtu = c.mtu ∧ (c.updateRecoveryState b).minCwnd = c.minCwnd ∧
    (c.updateRecoveryState b).cwnd = c.cwnd ∧ (c.updateRecoveryState b).initCwnd = c.initCwnd := by
  unfold Bbr.updateRecoveryState
  dsimp only
  split <;> split <;> (try split) <;> (try split) <;> simp

theorem bbr_calculateCwnd_spec (c : Bbr) (ba : Nat) (tw : Option Nat) (g : Option Bool) (c' : Bbr)
    (h : c.calculateCwnd ba tw g = (c', .ok)) :
    c'.mtu = c.mtu ∧ c'.minCwnd = c.minCwnd ∧ c'.initCwnd = c.initCwnd ∧ c'.recovery = c.recovery ∧
    c'.recoveryWindow = c.recoveryWindow ∧ c'.lostBytes = c.lostBytes ∧
    (c'.cwnd = c.cwnd ∨ c.minCwnd ≤ c'.cwnd) := by
  unfold Bbr.calculateCwnd at h
  split at h
  · cases h; simp
  · split at h
    · (try dsimp only at h)
      split at h
      · cases h
      · cases h
        refine ⟨rfl, rfl, rfl, rfl, rfl, rfl, Or.inr ?_⟩
        (try dsimp only)
        split <;> omega
    · cases h

theorem bbr_calculateRecoveryWindow_spec (c : Bbr) (ba bl inf : Nat) (c' : Bbr)
    (h : c.calculateRecoveryWindow ba bl inf = (c', .ok)) :
    c'.mtu = c.mtu ∧ c'.minCwnd = c.minCwnd ∧ c'.initCwnd = c.initCwnd ∧ c'.recovery = c.recovery ∧
    c'.cwnd = c.cwnd ∧ (c.recovery.inRecovery = true → c.minCwnd ≤ c'.recoveryWindow) := by
  unfold Bbr.calculateRecoveryWindow at h
  simp only [natMax_eq] at h
  split at h
  · rename_i hr
    cases h
    refine ⟨rfl, rfl, rfl, rfl, rfl, ?_⟩
    intro hr2; simp [hr2] at hr
  · split at h
    · cases h
    · split at h
      · cases h
        refine ⟨rfl, rfl, rfl, rfl, rfl, fun _ => ?_⟩
        first | omega | (dsimp only; omega)
      · (try dsimp only at h)
        generalize (if c.recoveryWindow ≥ bl then c.recoveryWindow - bl else c.mtu) = rw1 at h
        split at h
        · cases h
        · cases h
          refine ⟨rfl, rfl, rfl, rfl, rfl, fun _ => ?_⟩
          first | omega | (dsimp only; omega)

theorem bbr_startRound_frame (c : Bbr) (lg : Option Nat) (ba : Nat) :
    (c.startRound lg ba).1.mtu = c.mtu ∧ (c.startRound lg ba).1.minCwnd = c.minCwnd ∧
    (c.startRound lg ba).1.cwnd = c.cwnd ∧ (c.startRound lg ba).1.initCwnd = c.initCwnd := by
  unfold Bbr.startRound
  cases lg <;> dsimp only <;> split <;> simp

theorem bbr_recalc_inv (c4 : Bbr) (ba inf : Nat) (tw : Option Nat) (g : Option Bool) (c' : Bbr)
    (i1 : c4.minCwnd = 4 * c4.mtu) (i2 : 2 * c4.mtu ≤ c4.cwnd) (i3 : 2 * c4.mtu ≤ c4.initCwnd)
    (h : c4.recalc ba inf tw g = (c', .ok)) : c'.Inv := by
  unfold Bbr.recalc at h
  cases h5 : c4.calculateCwnd ba tw g with
  | mk c5 out5 =>
    rw [h5] at h
    cases out5 with
    | panic => cases h
    | badObs => cases h
    | ok =>
      dsimp only at h
      obtain ⟨a1, a2, a3, a4, a5, a6, a7⟩ := bbr_calculateCwnd_spec _ _ _ _ _ h5
      cases h6 : c5.calculateRecoveryWindow ba c5.lostBytes inf with
      | mk c6 out6 =>
        rw [h6] at h
        cases out6 with
        | panic => cases h
        | badObs => cases h
        | ok =>
          dsimp only at h
          cases h
          obtain ⟨b1, b2, b3, b4, b5, b6⟩ := bbr_calculateRecoveryWindow_spec _ _ _ _ _ h6
          refine ⟨?_, ?_, ?_, ?_⟩
          · show c6.minCwnd = 4 * c6.mtu
            rw [b2, b1, a2, a1]; exact i1
          · show 2 * c6.mtu ≤ c6.cwnd
            rw [b5, b1, a1]
            rcases a7 with a7 | a7
            · rw [a7]; exact i2
            · omega
          · show 2 * c6.mtu ≤ c6.initCwnd
            rw [b3, b1, a3, a1]; exact i3
          · show c6.recovery.inRecovery = true → 2 * c6.mtu ≤ c6.recoveryWindow
            intro hr
            rw [b4] at hr
            have := b6 hr
            rw [b1, a1]
            rw [a2] at this
            omega

theorem bbr_onEndAcks_inv (c : Bbr) (inf : Nat) (lg : Option Nat) (o : BbrEndObs) (c' : Bbr) (hi : c.Inv)
    (h : c.onEndAcks inf lg o = (c', .ok)) : c'.Inv := by
  unfold Bbr.onEndAcks at h
  dsimp only at h
  obtain ⟨i1, i2, i3, _⟩ := hi
  obtain ⟨s1, s2, s3, s4⟩ := bbr_startRound_frame c lg o.bytesAcked
  obtain ⟨f1, f2, f3, f4⟩ := bbr_updateRecoveryState_frame (c.startRound lg o.bytesAcked).1 (c.startRound lg o.bytesAcked).2
  refine bbr_recalc_inv _ _ _ _ _ _ ?_ ?_ ?_ h
  · show Bbr.minCwnd _ = 4 * Bbr.mtu _
    rw [f2, f1, s2, s1]; exact i1
  · show 2 * Bbr.mtu _ ≤ Bbr.cwnd _
    rw [f3, f1, s3, s1]; exact i2
  · show 2 * Bbr.mtu _ ≤ Bbr.initCwnd _
    rw [f4, f1, s4, s1]; exact i3

theorem bbr_step_inv (c : Bbr) (op : BbrOp) (c' : Bbr) (hi : c.Inv) (h : c.step op = (c', .ok)) : c'.Inv := by
  obtain ⟨i1, i2, i3, i4⟩ := hi
  cases op with
  | sent pn => simp only [Bbr.step, Bbr.onSent] at h; cases h; exact ⟨i1, i2, i3, i4⟩
  | ack b =>
    simp only [Bbr.step, Bbr.onAck] at h
    split at h
    · cases h
    · cases h; exact ⟨i1, i2, i3, i4⟩
  | endAcks inf lg o => exact bbr_onEndAcks_inv c inf lg o c' ⟨i1, i2, i3, i4⟩ h
  | cong l =>
    simp only [Bbr.step, Bbr.onCongestionEvent] at h
    split at h
    · cases h
    · cases h; exact ⟨i1, i2, i3, i4⟩
  | spurious => simp only [Bbr.step] at h; cases h; exact ⟨i1, i2, i3, i4⟩
  | mtu m =>
    -- `on_mtu_update` raises min_cwnd, init_cwnd, cwnd AND recovery_window to the new floor
    simp only [Bbr.step, Bbr.onMtuUpdate] at h
    cases h
    refine ⟨?_, ?_, ?_, ?_⟩
    · simp [calculateMinWindow, Gen.bbrMinWindowFactor]
    · simp only [Gen.bbrMtuCwnd, calculateMinWindow, Gen.bbrMinWindowFactor, natMax_eq]; omega
    · simp only [Gen.bbrMtuInitCwnd, calculateMinWindow, Gen.bbrMinWindowFactor, natMax_eq]; omega
    · intro _
      simp only [Gen.bbrMtuRecoveryWindow, calculateMinWindow, Gen.bbrMinWindowFactor, natMax_eq]; omega

theorem bbr_run_inv (ops : List BbrOp) (c c' : Bbr) (hi : c.Inv) (h : c.run ops = some c') : c'.Inv := by
  induction ops generalizing c with
  | nil => simp only [Bbr.run, Option.some.injEq] at h; subst h; exact hi
  | cons op t ih =>
    simp only [Bbr.run] at h
    cases hst : c.step op with
    | mk c1 out =>
      rw [hst] at h
      cases out with
      | ok =>
        dsimp only at h
        exact ih c1 (bbr_step_inv c op c1 hi hst) h
      | panic => cases h
      | badObs => cases h

/-! ### the floor statement for BBR -/

/-- the former F7 witness (= /verif/corpus/cc/F7.ops with the observed values the real code produced), kept
    as a regression history: two packets acked, first `on_end_acks` enters PROBE_RTT; a loss; next round start
    enters recovery, full bandwidth, PROBE_BW with `recovery_window = min_cwnd = 4800`; then the MTU grows from
    1200 to 9000.  Before the fix `window()` was 4800 afterwards. -/
def f7Witness : List BbrOp :=
  [.sent 1, .sent 2, .ack 1200, .ack 1200,
   .endAcks 0 (some 2) ⟨2400, .probeRtt, false, none, none⟩,
   .sent 3, .cong 1200, .sent 4, .ack 1200,
   .endAcks 0 (some 4) ⟨1200, .probeBw, true, some 120000, some true⟩,
   .mtu 9000]

theorem f7_window : ((Bbr.new 1200).run f7Witness).bind (fun c => c.window none) = some 36000 := by decide

theorem f7_state : ((Bbr.new 1200).run f7Witness).map (fun c => (c.mtu, c.recovery, c.mode, c.recoveryWindow, c.cwnd))
    = some (9000, .conservation, .probeBw, 36000, 120000) := by decide

theorem bbr_floor' (initialWindow mtu0 : Nat) (ops : List BbrOp) (c : Bbr) (tc : Option Nat) (w : Nat)
    (hr : (Bbr.newWith initialWindow mtu0).run ops = some c) (hw : c.window tc = some w) : 2 * c.mtu ≤ w :=
  bbr_window_floor c (bbr_run_inv ops _ c (bbr_newWith_inv initialWindow mtu0) hr) tc w hw

theorem reno_newWith_floor (initialWindow mtu : Nat) : (Reno.newWith initialWindow mtu).Floor := by
  simp only [Reno.Floor, Reno.newWith, Gen.newRenoInitialWindow, natMax_eq]; omega

theorem cubic_newWith_floor (initialWindow mtu : Nat) : (Cubic.newWith initialWindow mtu).Floor := by
  simp only [Cubic.Floor, Cubic.newWith, Gen.cubicInitialWindow, natMax_eq]; omega

end QM.Controllers
