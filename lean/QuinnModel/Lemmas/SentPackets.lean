import QuinnModel.Recovery.SentPackets
/-
Lemmas about the `SentPackets` ring: it refines a finite map from packet numbers to packets.
-/
namespace QM.SentPackets

/-- present entries with their packet numbers, in slot order -/
def entriesFrom : Nat → List (Option Pkt) → List (Nat × Pkt)
  | _, [] => []
  | o, none :: t => entriesFrom (o + 1) t
  | o, some v :: t => (o, v) :: entriesFrom (o + 1) t

def entries (r : Ring) : List (Nat × Pkt) := entriesFrom r.offset r.slots

/-- the abstraction: the finite map a ring stands for -/
def absSlots (off : Nat) (slots : List (Option Pkt)) (pn : Nat) : Option Pkt :=
  if pn < off then none else (slots[pn - off]?).join

def abs (r : Ring) : Nat → Option Pkt := absSlots r.offset r.slots

theorem entriesFrom_append (a b : List (Option Pkt)) (o : Nat) :
    entriesFrom o (a ++ b) = entriesFrom o a ++ entriesFrom (o + a.length) b := by
  induction a generalizing o with
  | nil => simp [entriesFrom]
  | cons x t ih =>
    cases x with
    | none => simp only [List.cons_append, entriesFrom, ih, List.length_cons]; congr 2; omega
    | some v => simp only [List.cons_append, entriesFrom, ih, List.length_cons]; congr 3; omega

theorem entriesFrom_replicate_none (k o : Nat) : entriesFrom o (List.replicate k none) = [] := by
  induction k generalizing o with
  | zero => simp [entriesFrom]
  | succ k ih => simp [List.replicate_succ, entriesFrom, ih]

theorem mem_entriesFrom (l : List (Option Pkt)) (o pn : Nat) (v : Pkt) :
    (pn, v) ∈ entriesFrom o l ↔ o ≤ pn ∧ l[pn - o]? = some (some v) := by
  induction l generalizing o with
  | nil => simp [entriesFrom]
  | cons x t ih =>
    cases x with
    | none =>
      simp only [entriesFrom, ih]
      constructor
      · rintro ⟨h1, h2⟩
        refine ⟨by omega, ?_⟩
        have : pn - o = (pn - (o + 1)) + 1 := by omega
        rw [this, List.getElem?_cons_succ]; exact h2
      · rintro ⟨h1, h2⟩
        by_cases he : pn = o
        · subst he; simp at h2
        · refine ⟨by omega, ?_⟩
          have : pn - o = (pn - (o + 1)) + 1 := by omega
          rw [this, List.getElem?_cons_succ] at h2; exact h2
    | some w =>
      simp only [entriesFrom, List.mem_cons, ih, Prod.mk.injEq]
      constructor
      · rintro (⟨h1, h2⟩ | ⟨h1, h2⟩)
        · subst h1 h2; simp
        · refine ⟨by omega, ?_⟩
          have : pn - o = (pn - (o + 1)) + 1 := by omega
          rw [this, List.getElem?_cons_succ]; exact h2
      · rintro ⟨h1, h2⟩
        by_cases he : pn = o
        · subst he; simp at h2; left; exact ⟨rfl, h2.symm⟩
        · right
          refine ⟨by omega, ?_⟩
          have : pn - o = (pn - (o + 1)) + 1 := by omega
          rw [this, List.getElem?_cons_succ] at h2; exact h2

theorem entriesFrom_ge (l : List (Option Pkt)) (o : Nat) : ∀ e ∈ entriesFrom o l, o ≤ e.1 := by
  intro e he
  have := (mem_entriesFrom l o e.1 e.2).1 he
  exact this.1

theorem entriesFrom_lt (l : List (Option Pkt)) (o : Nat) : ∀ e ∈ entriesFrom o l, e.1 < o + l.length := by
  intro e he
  have h := (mem_entriesFrom l o e.1 e.2).1 he
  have : e.1 - o < l.length := by
    rcases Nat.lt_or_ge (e.1 - o) l.length with h' | h'
    · exact h'
    · have h2 := h.2
      rw [List.getElem?_eq_none h'] at h2; simp at h2
  have := h.1
  omega

theorem entriesFrom_sorted (l : List (Option Pkt)) (o : Nat) :
    (entriesFrom o l).Pairwise (fun a b => a.1 < b.1) := by
  induction l generalizing o with
  | nil => simp [entriesFrom]
  | cons x t ih =>
    cases x with
    | none => simp only [entriesFrom]; exact ih _
    | some w =>
      simp only [entriesFrom, List.pairwise_cons]
      refine ⟨?_, ih _⟩
      intro e he
      have := entriesFrom_ge t (o + 1) e he
      show o < e.1
      omega

theorem entriesFrom_reclaim (o : Nat) (l : List (Option Pkt)) :
    entriesFrom (reclaim o l).1 (reclaim o l).2 = entriesFrom o l := by
  fun_induction reclaim o l with
  | case1 off t ih => simp only [entriesFrom]; exact ih
  | case2 off l h => rfl

theorem absSlots_cons_none (o : Nat) (t : List (Option Pkt)) (pn : Nat) :
    absSlots o (none :: t) pn = absSlots (o + 1) t pn := by
  unfold absSlots
  by_cases h1 : pn < o
  · have : pn < o + 1 := by omega
    simp [h1, this]
  · by_cases h2 : pn = o
    · subst h2; simp
    · have h3 : ¬ pn < o + 1 := by omega
      have : pn - o = (pn - (o + 1)) + 1 := by omega
      simp only [h1, h3, if_false]
      rw [this, List.getElem?_cons_succ]

theorem absSlots_reclaim (o : Nat) (l : List (Option Pkt)) (pn : Nat) :
    absSlots (reclaim o l).1 (reclaim o l).2 pn = absSlots o l pn := by
  fun_induction reclaim o l with
  | case1 off t ih => rw [absSlots_cons_none]; exact ih
  | case2 off l h => rfl

/-- taking a present entry out of its slot: the entry list loses exactly that entry -/
theorem entriesFrom_set_none (l : List (Option Pkt)) (o i : Nat) (v : Pkt) (h : l[i]? = some (some v)) :
    ∃ a b, entriesFrom o l = a ++ (o + i, v) :: b ∧ entriesFrom o (l.set i none) = a ++ b := by
  induction l generalizing o i with
  | nil => simp at h
  | cons x t ih =>
    cases i with
    | zero =>
      simp at h; subst h
      exact ⟨[], entriesFrom (o + 1) t, by simp [entriesFrom], by simp [entriesFrom]⟩
    | succ j =>
      simp only [List.getElem?_cons_succ] at h
      obtain ⟨a, b, h1, h2⟩ := ih (o + 1) j h
      have e : o + 1 + j = o + (j + 1) := by omega
      cases x with
      | none =>
        refine ⟨a, b, ?_, ?_⟩
        · simp only [entriesFrom, h1, e]
        · simp only [List.set_cons_succ, entriesFrom, h2]
      | some w =>
        refine ⟨(o, w) :: a, b, ?_, ?_⟩
        · simp only [entriesFrom, h1, e, List.cons_append]
        · simp only [List.set_cons_succ, entriesFrom, h2, List.cons_append]


/-! ### entry-level behaviour of the ring operations -/

theorem entries_sorted (r : Ring) : (entries r).Pairwise (fun a b => a.1 < b.1) :=
  entriesFrom_sorted _ _

theorem abs_eq_some_iff (r : Ring) (q : Nat) (w : Pkt) : abs r q = some w ↔ (q, w) ∈ entries r := by
  unfold abs absSlots entries
  rw [mem_entriesFrom]
  by_cases h : q < r.offset
  · simp only [h, if_true]
    constructor
    · intro h'; cases h'
    · intro h'; omega
  · simp only [h, if_false]
    constructor
    · intro h'
      refine ⟨by omega, ?_⟩
      cases hh : r.slots[q - r.offset]? with
      | none => rw [hh] at h'; simp at h'
      | some x => rw [hh] at h'; simp at h'; rw [h']
    · intro h'; rw [h'.2]; rfl

theorem get_eq_abs (r : Ring) (pn : Nat) : get r pn = abs r pn := by
  unfold get abs absSlots
  by_cases h : pn < r.offset
  · simp [h]
  · simp only [h, if_false]
    cases hh : r.slots[pn - r.offset]? with
    | none => rfl
    | some x => cases x <;> rfl

theorem entries_insert (r : Ring) (pn : Nat) (v : Pkt) (h : (insert r pn v).2 = .ok ()) :
    entries (insert r pn v).1 = entries r ++ [(pn, v)] := by
  unfold insert at h ⊢
  by_cases he : r.slots.isEmpty = true
  · simp only [he, if_true]
    have : r.slots = [] := List.isEmpty_iff.mp he
    simp [entries, entriesFrom, this]
  · simp only [he] at h ⊢
    by_cases hp : pn < r.offset + r.slots.length
    · simp [hp] at h
    · simp only [hp, if_false, Bool.false_eq_true]
      simp only [entries, entriesFrom_append, entriesFrom_replicate_none, List.append_nil, entriesFrom,
        List.length_append, List.length_replicate]
      congr 3
      omega

theorem insert_bounds (r : Ring) (pn : Nat) (v : Pkt) (h : (insert r pn v).2 = .ok ()) :
    ∀ e ∈ entries r, e.1 < pn := by
  unfold insert at h
  by_cases he : r.slots.isEmpty = true
  · have : r.slots = [] := List.isEmpty_iff.mp he
    simp [entries, entriesFrom, this]
  · simp only [he] at h
    by_cases hp : pn < r.offset + r.slots.length
    · simp [hp] at h
    · intro e hm
      have := entriesFrom_lt _ _ e hm
      omega

/-- `insert` commutes with the abstraction -/
theorem abs_insert (r : Ring) (pn : Nat) (v : Pkt) (h : (insert r pn v).2 = .ok ()) (q : Nat) :
    abs (insert r pn v).1 q = if q = pn then some v else abs r q := by
  apply Option.ext
  intro w
  rw [abs_eq_some_iff, entries_insert r pn v h]
  simp only [List.mem_append, List.mem_singleton, Prod.mk.injEq]
  by_cases hq : q = pn
  · subst hq
    simp only [if_true, Option.some.injEq]
    constructor
    · rintro (hm | ⟨_, hw⟩)
      · have := insert_bounds r q v h _ hm
        simp at this
      · exact hw.symm
    · intro hw; right; exact ⟨trivial, hw.symm⟩
  · simp only [hq, if_false, false_and, or_false]
    exact (abs_eq_some_iff r q w).symm

/-- what `remove` does to the entry list -/
theorem entries_remove (r : Ring) (pn : Nat) :
    match (remove r pn).2 with
    | .panic => True
    | .ok none => (remove r pn).1 = r ∧ abs r pn = none
    | .ok (some v) => ∃ a b, entries r = a ++ (pn, v) :: b ∧ entries (remove r pn).1 = a ++ b := by
  unfold remove
  by_cases h : pn < r.offset
  · simp [h, abs, absSlots]
  · simp only [h, if_false]
    cases hh : r.slots[pn - r.offset]? with
    | none => simp [abs, absSlots, h, hh]
    | some x =>
      cases x with
      | none => simp [abs, absSlots, h, hh]
      | some v =>
        simp only
        by_cases hp : v.size ≠ 0 ∧ r.inFlight = 0
        · simp [hp]
        · simp only [hp, if_false]
          obtain ⟨a, b, h1, h2⟩ := entriesFrom_set_none r.slots r.offset (pn - r.offset) v hh
          refine ⟨a, b, ?_, ?_⟩
          · have : r.offset + (pn - r.offset) = pn := by omega
            rw [this] at h1; exact h1
          · simp only [entries]
            rw [entriesFrom_reclaim]; exact h2

theorem remove_inFlight (r : Ring) (pn : Nat) (v : Pkt) (h : (remove r pn).2 = .ok (some v)) :
    (remove r pn).1.inFlight = r.inFlight - (if v.size ≠ 0 then 1 else 0) ∧ (v.size ≠ 0 → r.inFlight ≠ 0) := by
  unfold remove at h ⊢
  by_cases h0 : pn < r.offset
  · simp [h0] at h
  · simp only [h0, if_false] at h ⊢
    cases hh : r.slots[pn - r.offset]? with
    | none => simp [hh] at h
    | some x =>
      cases x with
      | none => simp [hh] at h
      | some w =>
        simp only [hh] at h ⊢
        by_cases hp : w.size ≠ 0 ∧ r.inFlight = 0
        · simp [hp] at h
        · simp only [hp, if_false] at h ⊢
          simp only [R.ok.injEq, Option.some.injEq] at h
          subst h
          constructor
          · split <;> simp_all
          · intro hs hi; exact hp ⟨hs, hi⟩

/-- `remove` commutes with the abstraction, returns what the map held, and `get` afterwards is `none` -/
theorem abs_remove (r : Ring) (pn : Nat) (h : (remove r pn).2 ≠ .panic) :
    (remove r pn).2 = .ok (abs r pn) ∧
    ∀ q, abs (remove r pn).1 q = if q = pn then none else abs r q := by
  have hr := entries_remove r pn
  cases hres : (remove r pn).2 with
  | panic => exact absurd hres h
  | ok x =>
    rw [hres] at hr
    cases x with
    | none =>
      simp only at hr
      refine ⟨by rw [hr.2], ?_⟩
      intro q; rw [hr.1]
      by_cases hq : q = pn
      · subst hq; simp [hr.2]
      · simp [hq]
    | some v =>
      simp only at hr
      obtain ⟨a, b, h1, h2⟩ := hr
      have hs := entries_sorted r
      rw [h1] at hs
      have hmem : (pn, v) ∈ entries r := by rw [h1]; simp
      have habs : abs r pn = some v := (abs_eq_some_iff r pn v).2 hmem
      refine ⟨by rw [habs], ?_⟩
      intro q
      apply Option.ext
      intro w
      rw [abs_eq_some_iff, h2]
      rw [List.pairwise_append] at hs
      obtain ⟨_, hs2, hs3⟩ := hs
      rw [List.pairwise_cons] at hs2
      by_cases hq : q = pn
      · subst hq
        simp only [if_true, List.mem_append]
        constructor
        · rintro (hm | hm)
          · have := hs3 _ hm (q, v) (by simp); simp at this
          · have := hs2.1 _ hm; simp at this
        · intro hw; cases hw
      · simp only [hq, if_false]
        rw [abs_eq_some_iff, h1]
        simp only [List.mem_append, List.mem_cons, Prod.mk.injEq, hq, false_and, false_or]


/-! ### iteration = ascending filter -/

theorem pick_nil (i o : Nat) : pick i o [] = none := by simp [pick]

theorem pick_cons_succ (i o : Nat) (x : Option Pkt) (t : List (Option Pkt)) :
    pick (1 + i) o (x :: t) = pick i (o + 1) t := by
  unfold pick
  have : 1 + i = i + 1 := by omega
  rw [this, List.getElem?_cons_succ]
  have : o + (i + 1) = o + 1 + i := by omega
  rw [this]

theorem filterMap_pick_shift (s k o : Nat) (x : Option Pkt) (t : List (Option Pkt)) :
    (List.range' (1 + s) k).filterMap (fun i => pick i o (x :: t))
      = (List.range' s k).filterMap (fun i => pick i (o + 1) t) := by
  rw [← List.map_add_range' (a := 1), List.filterMap_map]
  congr 1
  funext i
  exact pick_cons_succ i o x t

theorem range_core (l : List (Option Pkt)) (o s k : Nat) :
    (List.range' s k).filterMap (fun i => pick i o l)
      = (entriesFrom o l).filter (fun e => decide (o + s ≤ e.1 ∧ e.1 < o + s + k)) := by
  induction l generalizing o s k with
  | nil =>
    simp only [entriesFrom, List.filter_nil, List.filterMap_eq_nil_iff]
    intro a _; exact pick_nil a o
  | cons x t ih =>
    cases s with
    | zero =>
      cases k with
      | zero =>
        simp only [List.range'_zero, List.filterMap_nil]
        symm
        rw [List.filter_eq_nil_iff]
        intro e he
        have := entriesFrom_ge _ _ e he
        simp only [decide_eq_true_eq]; omega
      | succ k =>
        rw [List.range'_succ, List.filterMap_cons]
        have h1 : (0 : Nat) + 1 = 1 + 0 := by omega
        rw [h1, filterMap_pick_shift 0 k o x t, ih (o + 1) 0 k]
        have hc : (entriesFrom (o + 1) t).filter (fun e => decide (o + 1 + 0 ≤ e.1 ∧ e.1 < o + 1 + 0 + k))
            = (entriesFrom (o + 1) t).filter (fun e => decide (o + 0 ≤ e.1 ∧ e.1 < o + 0 + (k + 1))) := by
          apply List.filter_congr
          intro e he
          have := entriesFrom_ge _ _ e he
          simp only [decide_eq_decide]; omega
        rw [hc]
        cases x with
        | none => simp [pick, entriesFrom]
        | some v => simp [pick, entriesFrom]
    | succ s =>
      have h1 : s + 1 = 1 + s := by omega
      rw [h1, filterMap_pick_shift s k o x t, ih (o + 1) s k]
      have hc : (entriesFrom (o + 1) t).filter (fun e => decide (o + 1 + s ≤ e.1 ∧ e.1 < o + 1 + s + k))
          = (entriesFrom (o + 1) t).filter (fun e => decide (o + (1 + s) ≤ e.1 ∧ e.1 < o + (1 + s) + k)) := by
        apply List.filter_congr
        intro e _
        simp only [decide_eq_decide]; omega
      rw [hc]
      cases x with
      | none => simp [entriesFrom]
      | some v =>
        simp only [entriesFrom, List.filter_cons]
        have : ¬ (o + (1 + s) ≤ o ∧ o < o + (1 + s) + k) := by omega
        simp [this]

def Bound.lowerOk : Bound → Nat → Bool
  | .incl n, p => decide (n ≤ p)
  | .excl n, p => decide (n < p)
  | .unb, _ => true

def Bound.upperOk : Bound → Nat → Bool
  | .incl n, p => decide (p ≤ n)
  | .excl n, p => decide (p < n)
  | .unb, _ => true

/-- bounds below `u64::MAX` (where `saturating_add(1)` is `+ 1`); packet numbers are < 2^62 -/
def Bound.small : Bound → Prop
  | .incl n => n < U64MAX
  | .excl n => n < U64MAX
  | .unb => True

theorem natMax_eq (a b : Nat) : Nat.max a b = max a b := rfl
theorem natMin_eq (a b : Nat) : Nat.min a b = min a b := rfl

/-- `range` with its bounds already resolved to numbers (inclusive lower, exclusive upper) -/
def rangeRaw (r : Ring) (lv hv : Nat) : R (List (Nat × Pkt)) :=
  let end_ := r.offset + r.slots.length
  let lo' := Nat.max lv r.offset
  let hi' := Nat.min hv end_
  let start := lo' - r.offset
  let stop := Nat.max (hi' - r.offset) start
  if start < stop ∧ r.slots.length < stop then .panic
  else .ok ((List.range' start (stop - start)).filterMap (fun i => pick i r.offset r.slots))

def loVal (r : Ring) : Bound → Nat
  | .incl n => n
  | .excl n => satAdd1 n
  | .unb => r.offset

def hiVal (r : Ring) : Bound → Nat
  | .incl n => satAdd1 n
  | .excl n => n
  | .unb => r.offset + r.slots.length

theorem range_eq_raw (r : Ring) (lo hi : Bound) : range r lo hi = rangeRaw r (loVal r lo) (hiVal r hi) := by
  cases lo <;> cases hi <;> rfl

theorem rangeRaw_eq (r : Ring) (lv hv : Nat) :
    rangeRaw r lv hv = .ok ((entries r).filter (fun e => decide (lv ≤ e.1 ∧ e.1 < hv))) := by
  unfold rangeRaw
  simp only [natMax_eq, natMin_eq]
  split
  · rename_i hp; omega
  · simp only [R.ok.injEq]
    rw [range_core]
    unfold entries
    apply List.filter_congr
    intro e he
    have h1 := entriesFrom_ge _ _ e he
    have h2 := entriesFrom_lt _ _ e he
    simp only [decide_eq_decide]
    omega

theorem satAdd1_small (n : Nat) (h : n < U64MAX) : satAdd1 n = n + 1 := by
  unfold satAdd1; split
  · omega
  · rfl

theorem lo_ok (r : Ring) (lo : Bound) (h : lo.small) (p : Nat) (hp : r.offset ≤ p) :
    decide (loVal r lo ≤ p) = lo.lowerOk p := by
  cases lo with
  | incl n => rfl
  | excl n =>
    simp only [loVal, Bound.lowerOk, satAdd1_small n h, decide_eq_decide]; omega
  | unb => simp [loVal, Bound.lowerOk, hp]

theorem hi_ok (r : Ring) (hi : Bound) (h : hi.small) (p : Nat) (hp : p < r.offset + r.slots.length) :
    decide (p < hiVal r hi) = hi.upperOk p := by
  cases hi with
  | incl n =>
    simp only [hiVal, Bound.upperOk, satAdd1_small n h, decide_eq_decide]; omega
  | excl n => rfl
  | unb => simp [hiVal, Bound.upperOk, hp]

/-- `range` never indexes out of bounds and yields exactly the entries inside the bounds, ascending -/
theorem range_eq_filter (r : Ring) (lo hi : Bound) (hlo : lo.small) (hhi : hi.small) :
    range r lo hi = .ok ((entries r).filter (fun e => lo.lowerOk e.1 && hi.upperOk e.1)) := by
  rw [range_eq_raw, rangeRaw_eq]
  simp only [R.ok.injEq]
  apply List.filter_congr
  intro e he
  have h1 := entriesFrom_ge _ _ e he
  have h2 := entriesFrom_lt _ _ e he
  rw [Bool.decide_and, lo_ok r lo hlo e.1 h1, hi_ok r hi hhi e.1 h2]

theorem range_no_panic (r : Ring) (lo hi : Bound) : range r lo hi ≠ .panic := by
  rw [range_eq_raw, rangeRaw_eq]; intro h; cases h


/-! ### the in-flight counter of the ring -/

def nz (e : Nat × Pkt) : Bool := decide (e.2.size ≠ 0)

/-- `in_flight` = number of present entries with `size != 0` -/
def RingWF (r : Ring) : Prop := r.inFlight = (entries r).countP nz

theorem ringWF_default : RingWF {} := by simp [RingWF, entries, entriesFrom]

theorem insert_inFlight (r : Ring) (pn : Nat) (v : Pkt) (h : (insert r pn v).2 = .ok ()) :
    (insert r pn v).1.inFlight = r.inFlight + (if v.size ≠ 0 then 1 else 0) := by
  unfold insert at h ⊢
  by_cases he : r.slots.isEmpty = true
  · simp [he]
  · simp only [he] at h ⊢
    by_cases hp : pn < r.offset + r.slots.length
    · simp [hp] at h
    · simp [hp]

theorem ringWF_insert (r : Ring) (pn : Nat) (v : Pkt) (hw : RingWF r) (h : (insert r pn v).2 = .ok ()) :
    RingWF (insert r pn v).1 := by
  unfold RingWF at hw ⊢
  rw [insert_inFlight r pn v h, entries_insert r pn v h, List.countP_append, hw]
  simp only [List.countP_cons, List.countP_nil, nz, Nat.zero_add]
  congr 1
  by_cases hs : v.size = 0 <;> simp [hs]

theorem remove_no_panic (r : Ring) (pn : Nat) (hw : RingWF r) : (remove r pn).2 ≠ .panic := by
  unfold remove
  by_cases h0 : pn < r.offset
  · simp [h0]
  · simp only [h0, if_false]
    cases hh : r.slots[pn - r.offset]? with
    | none => simp
    | some x =>
      cases x with
      | none => simp
      | some v =>
        simp only
        by_cases hp : v.size ≠ 0 ∧ r.inFlight = 0
        · exfalso
          have hm : (pn, v) ∈ entries r := (mem_entriesFrom _ _ _ _).2 ⟨by omega, hh⟩
          have : 0 < (entries r).countP nz := List.countP_pos_iff.2 ⟨(pn, v), hm, by simp [nz, hp.1]⟩
          unfold RingWF at hw
          omega
        · simp [hp]

theorem ringWF_remove (r : Ring) (pn : Nat) (hw : RingWF r) : RingWF (remove r pn).1 := by
  have hr := entries_remove r pn
  cases hres : (remove r pn).2 with
  | panic => exact absurd hres (remove_no_panic r pn hw)
  | ok x =>
    rw [hres] at hr
    cases x with
    | none => simp only at hr; rw [hr.1]; exact hw
    | some v =>
      simp only at hr
      obtain ⟨a, b, h1, h2⟩ := hr
      have hi := remove_inFlight r pn v hres
      unfold RingWF at hw ⊢
      rw [hi.1, h2, hw, h1]
      simp only [List.countP_append, List.countP_cons, nz]
      by_cases hs : v.size = 0 <;> simp [hs] <;> omega

theorem values_eq (r : Ring) : values r = (entries r).map (·.2) := by
  unfold values entries
  generalize r.offset = o
  induction r.slots generalizing o with
  | nil => rfl
  | cons x t ih => cases x <;> simp [entriesFrom] <;> exact ih _

theorem hasInFlight_iff (r : Ring) (hw : RingWF r) :
    hasInFlight r = true ↔ ∃ e ∈ entries r, e.2.size ≠ 0 := by
  unfold hasInFlight RingWF at *
  rw [hw]
  simp only [ne_eq, decide_not, Bool.not_eq_true', decide_eq_false_iff_not]
  rw [← ne_eq, ← Nat.pos_iff_ne_zero, List.countP_pos_iff]
  simp [nz]


/-! ### what `PacketSpace::{take,sent}` do to the set of tracked packets -/

theorem values_insert (r : Ring) (pn : Nat) (v : Pkt) (h : (insert r pn v).2 = .ok ()) :
    values (insert r pn v).1 = values r ++ [v] := by
  rw [values_eq, values_eq, entries_insert r pn v h]; simp

theorem values_remove (r : Ring) (pn : Nat) :
    match (remove r pn).2 with
    | .panic => True
    | .ok none => (remove r pn).1 = r
    | .ok (some v) => ∃ a b, values r = a ++ v :: b ∧ values (remove r pn).1 = a ++ b := by
  have hr := entries_remove r pn
  cases hres : (remove r pn).2 with
  | panic => trivial
  | ok x =>
    rw [hres] at hr
    cases x with
    | none => exact hr.1
    | some v =>
      obtain ⟨a, b, h1, h2⟩ := hr
      exact ⟨a.map (·.2), b.map (·.2), by rw [values_eq, h1]; simp, by rw [values_eq, h2]; simp⟩

theorem take_spec (s : Space) (pn : Nat) (s' : Space) (res : R (Option Pkt)) (h : s.take pn = (s', res)) :
    match res with
    | .panic => True
    | .ok none => s' = s
    | .ok (some v) => (∃ a b, values s.ring = a ++ v :: b ∧ values s'.ring = a ++ b)
        ∧ s'.largestAe = s.largestAe := by
  have hr := values_remove s.ring pn
  unfold Space.take at h
  cases hres : remove s.ring pn with
  | mk ring rr =>
    rw [hres] at hr h
    cases rr with
    | panic => simp only at h; cases h; trivial
    | ok x =>
      cases x with
      | none => simp only at hr h; cases h; simp only; rw [hr]
      | some v =>
        simp only at hr h
        split at h
        · split at h
          · cases h; trivial
          · cases h; exact ⟨hr, rfl⟩
        · cases h; exact ⟨hr, rfl⟩

theorem ins_spec (s : Space) (pn : Nat) (v : Pkt) (fg : Option Pkt) (s' : Space) (res : R (Option Pkt))
    (h : Space.ins s pn v fg = (s', res)) :
    match res with
    | .panic => True
    | .ok x => x = fg ∧ values s'.ring = values s.ring ++ [v] ∧ s'.tail = s.tail ∧ s'.largestAe = s.largestAe
        ∧ (insert s.ring pn v).2 = .ok () ∧ s'.ring = (insert s.ring pn v).1 := by
  unfold Space.ins at h
  have hv := values_insert s.ring pn v
  cases hres : insert s.ring pn v with
  | mk ring rr =>
    rw [hres] at hv h
    cases rr with
    | panic => simp only at h; cases h; trivial
    | ok u => simp only at h; cases h; exact ⟨rfl, hv rfl, rfl, rfl, rfl, rfl⟩

theorem sent_spec (s : Space) (pn : Nat) (v : Pkt) (s' : Space) (res : R (Option Pkt))
    (h : s.sent pn v = (s', res)) :
    match res with
    | .panic => True
    | .ok none => values s'.ring = values s.ring ++ [v]
    | .ok (some p) => ∃ a b, values s.ring = a ++ p :: b ∧ values s'.ring = a ++ b ++ [v] ∧ p.ae = false := by
  unfold Space.sent at h
  split at h
  · have := ins_spec _ _ _ _ _ _ h
    cases res with
    | panic => trivial
    | ok x => obtain ⟨h1, h2, _⟩ := this; subst h1; exact h2
  · split at h
    · split at h
      · cases h; trivial
      · cases h; trivial
      · rename_i opn p0 rest hrange
        have hr := values_remove s.ring opn
        cases hres : remove s.ring opn with
        | mk ring rr =>
          rw [hres] at hr h
          cases rr with
          | panic => simp only at h; cases h; trivial
          | ok x =>
            cases x with
            | none => simp only at h; cases h; trivial
            | some p =>
              simp only at hr h
              split at h
              · cases h; trivial
              · rename_i hpae
                obtain ⟨a, b, h1, h2⟩ := hr
                have := ins_spec _ _ _ _ _ _ h
                cases res with
                | panic => trivial
                | ok x =>
                  obtain ⟨hx, hv, _⟩ := this
                  subst hx
                  refine ⟨a, b, h1, ?_, by simpa using hpae⟩
                  rw [hv]; simp only; rw [h2]
    · have := ins_spec _ _ _ _ _ _ h
      cases res with
      | panic => trivial
      | ok x => obtain ⟨h1, h2, _⟩ := this; subst h1; exact h2


/-! ### when `insert` is allowed, and where the ring ends -/

theorem insert_ok_of (r : Ring) (pn : Nat) (v : Pkt) (h : r.slots = [] ∨ r.offset + r.slots.length ≤ pn) :
    (insert r pn v).2 = .ok () := by
  unfold insert
  by_cases he : r.slots.isEmpty = true
  · simp [he]
  · have hne : r.slots ≠ [] := fun hh => he (by simp [hh])
    have hle : r.offset + r.slots.length ≤ pn := by
      rcases h with h | h
      · exact absurd h hne
      · exact h
    have : ¬ pn < r.offset + r.slots.length := by omega
    simp [he, this]

theorem insert_end (r : Ring) (pn : Nat) (v : Pkt) (h : (insert r pn v).2 = .ok ()) :
    (insert r pn v).1.slots ≠ [] ∧ (insert r pn v).1.offset + (insert r pn v).1.slots.length = pn + 1 := by
  unfold insert at h ⊢
  by_cases he : r.slots.isEmpty = true
  · simp [he]
  · simp only [he] at h ⊢
    by_cases hp : pn < r.offset + r.slots.length
    · simp [hp] at h
    · simp only [hp, if_false, Bool.false_eq_true]
      refine ⟨by simp, ?_⟩
      simp only [List.length_append, List.length_replicate, List.length_cons, List.length_nil]
      omega

theorem reclaim_end (o : Nat) (l : List (Option Pkt)) :
    (reclaim o l).1 + (reclaim o l).2.length = o + l.length := by
  fun_induction reclaim o l with
  | case1 off t ih => rw [ih]; simp only [List.length_cons]; omega
  | case2 off l h => rfl

theorem remove_end (r : Ring) (pn : Nat) :
    (remove r pn).1.offset + (remove r pn).1.slots.length = r.offset + r.slots.length := by
  unfold remove
  by_cases h0 : pn < r.offset
  · simp [h0]
  · simp only [h0, if_false]
    cases hh : r.slots[pn - r.offset]? with
    | none => simp
    | some x =>
      cases x with
      | none => simp
      | some v =>
        simp only
        by_cases hp : v.size ≠ 0 ∧ r.inFlight = 0
        · simp [hp]
        · simp only [hp, if_false]
          rw [reclaim_end]; simp

theorem remove_some_of_mem (r : Ring) (pn : Nat) (v : Pkt) (hw : RingWF r) (hm : (pn, v) ∈ entries r) :
    (remove r pn).2 = .ok (some v) := by
  have h1 := (abs_remove r pn (remove_no_panic r pn hw)).1
  rw [h1, (abs_eq_some_iff r pn v).2 hm]

end QM.SentPackets
