import QuinnModel.Lemmas.StreamsC06Inv
/-
C06 — receiver-side operations preserve the receiver invariant and the credit balance.
-/
namespace QM.Streams
set_option pp.structureInstances false

/-- bytes of stream data the application consumed or discarded through this operation
    (read; stop discards what is buffered unread — nothing if the stream was reset before, all of it
    having been discarded on arrival of the reset; data arriving on a stopped stream and everything
    beyond the read offset of a reset stream — beyond its high-water mark if it was stopped before,
    the rest having been discarded by `stop` — are discarded on arrival) -/
def discarded (s : State) : Op → Out → Nat
  | .read _ _, .read k _ _ => k
  | .stop id _, .ok =>
    match s.recv.find? id with
    | some (some r) => if r.isReceiving then r.end_ - r.assembler.bytesRead else 0
    | _ => 0
  | .stream id off len _, .okFlag _ =>
    match s.recv.find? id with
    | some (some r) => if r.stopped && r.isReceiving then off + len - r.end_ else 0
    | _ => 0
  | .rst id _ fo, .okFlag _ =>
    match s.recv.find? id with
    | some (some r) =>
      if r.isReceiving then fo - (if r.stopped then r.end_ else r.assembler.bytesRead) else 0
    | some none => fo
    | none => 0
  | _, _ => 0

theorem rv_eq_some {s : State} {id : Nat} {r : Recv} : s.rv id = some r ↔ s.recv.find? id = some (some r) := by
  simp only [State.rv]
  split
  · rename_i x hx; simp [hx]
  · rename_i hn
    constructor
    · intro h; contradiction
    · intro h; exact absurd h (hn r)

theorem subU_eq {a b c : Nat} (h : subU a b = some c) : c = a - b ∧ b ≤ a := by
  unfold subU at h
  split at h
  · simp only [Option.some.injEq] at h; exact ⟨h.symm, ‹_›⟩
  · contradiction

theorem satAdd_exact (a b : Nat) (h : a + b < 2 ^ 64) : satAdd a b = a + b := by
  simp only [satAdd, natMin_eq]; omega

/-- the receive-side effect of `freeRecvIf` -/
theorem freeRecvIf_rv {s s' : State} {c : Bool} {id : Nat} (h : s.freeRecvIf c id = some s') :
    s'.rcore = s.rcore ∧ ∀ k, s'.rv k = if c = true ∧ k = id then none else s.rv k := by
  unfold State.freeRecvIf at h
  osplit h
  · have hc := ‹c = true›
    have f := rvw_streamFreed h
    refine ⟨congrArg RView.core f, ?_⟩
    intro k
    have := congrFun (congrArg RView.rv f) k
    simp only [State.rvw] at this
    rw [this, rv_erase]; simp [hc]
  · have hc := ‹¬c = true›
    subst h; exact ⟨rfl, fun k => by simp [hc]⟩

theorem received_step {s s' : State} {id off len : Nat} {fin : Bool} {r : Except TErr Bool}
    (h : s.received id off len fin = some (s', r)) (i : RInv s) :
    RInv s' ∧ ∀ C, Bal s C → Unsat s' → Bal s' (C + discarded s (.stream id off len fin) (outT r)) := by
  unfold State.received at h
  split at h
  · -- illegal id
    simp only [Option.some.injEq, Prod.mk.injEq] at h
    obtain ⟨rfl, rfl⟩ := h
    exact ⟨i, fun C b _ => by simpa [discarded, outT] using b⟩
  · split at h
    · -- closed stream
      rename_i hg
      simp only [Option.some.injEq, Prod.mk.injEq] at h
      obtain ⟨rfl, rfl⟩ := h
      refine ⟨i, fun C b _ => ?_⟩
      have hn : s.recv.find? id = none := by
        unfold State.getOrInsertRecv at hg
        split at hg <;> simp_all
      simp only [discarded, outT, hn, Nat.add_zero]; exact b
    · rename_i rs s1 hg
      obtain ⟨hc1, _, hrv1, hor⟩ := getOrInsertRecv_spec hg
      simp only [State.rcore, RCore.mk.injEq] at hc1
      -- every instantiated half of s1 is an old one or fresh
      have hrv1' : ∀ k r, s1.rv k = some r → s.rv k = some r ∨ RecvOk s.streamReceiveWindow r := by
        intro k r hk
        rw [hrv1 k] at hk
        by_cases hki : k = id
        · subst hki
          simp only [↓reduceIte, Option.some.injEq] at hk; subst hk
          rcases hor with hh | ⟨_, hh⟩
          · exact Or.inl hh
          · right; rw [hh]; exact recvOk_new _
        · simp only [hki, ↓reduceIte] at hk; exact Or.inl hk
      have i1 : RInv s1 := i.step hc1.2.2.2.2 (by rw [hc1.2.1]; exact i.lmd_u64)
        (by rw [hc1.1, hc1.2.1]; exact i.recvd_le) hrv1'
      have hrsok : RecvOk s.streamReceiveWindow rs := by
        rcases hor with hh | ⟨_, hh⟩
        · exact i.streams id rs hh
        · rw [hh]; exact recvOk_new _
      split at h
      · -- finished stream: frame dropped
        rename_i hnr
        simp only [Option.some.injEq, Prod.mk.injEq] at h
        obtain ⟨rfl, rfl⟩ := h
        refine ⟨i1, fun C b _ => ?_⟩
        have hd : discarded s (.stream id off len fin) (outT (.ok false)) = 0 := by
          simp only [discarded, outT]
          rcases hor with hh | ⟨hh, hnew⟩
          · rw [rv_eq_some.mp hh]
            have : rs.isReceiving = false := by simpa using hnr
            simp [this]
          · rw [hh]
        rw [hd]; unfold Bal at *; omega
      · split at h
        · contradiction
        · -- error: nothing delivered
          simp only [Option.some.injEq, Prod.mk.injEq] at h
          obtain ⟨rfl, rfl⟩ := h
          refine ⟨i1, fun C b _ => ?_⟩
          simp only [discarded, outT, Nat.add_zero]; unfold Bal at *; omega
        · rename_i nb closed rs' hing
          have hsrw1 : s1.streamReceiveWindow = s.streamReceiveWindow := hc1.2.2.2.2
          obtain ⟨ok', hnb, hcred, hst, hcl⟩ := ingest_ok_recvOk hrsok hing
          have hlmd := i.lmd_u64
          have hrl := i.recvd_le
          simp only [State.rvw, State.rcore] at hlmd hrl
          have hdr : satAdd s1.dataRecvd nb = s1.dataRecvd + nb := by
            apply satAdd_exact; rw [hc1.1]; rw [hc1.1, hc1.2.1] at hcred; omega
          split at h
          · -- open stream: data buffered, no credit yet
            rename_i hns
            simp only [Option.some.injEq, Prod.mk.injEq] at h
            obtain ⟨rfl, rfl⟩ := h
            have hv := rvw_onStreamFrame ({ (s1.putRecv id rs') with dataRecvd := satAdd s1.dataRecvd nb }) true id
            constructor
            · apply RInv.of_rvw hv
              refine i.step hsrw1 (by simp only [State.putRecv]; rw [hc1.2.1]; exact hlmd)
                (by simp only [State.putRecv]; rw [hdr, hc1.1, hc1.2.1]; rw [hc1.1, hc1.2.1] at hcred; exact hcred) ?_
              intro k r hk
              have hput : ({ (s1.putRecv id rs') with dataRecvd := satAdd s1.dataRecvd nb } : State).rv k =
                  (s1.putRecv id rs').rv k := rfl
              rw [hput, rv_putRecv ‹∃ w, _›.choose_spec] at hk
              by_cases hki : k = id
              · subst hki; simp only [↓reduceIte, Option.some.injEq] at hk; subst hk; exact Or.inr ok'
              · simp only [hki, ↓reduceIte] at hk; exact hrv1' k r hk
            · intro C b _
              have hd : discarded s (.stream id off len fin) (outT (.ok false)) = 0 := by
                simp only [discarded, outT]
                rcases hor with hh | ⟨hh, hnew⟩
                · rw [rv_eq_some.mp hh]
                  have : rs.stopped = false := by rw [← hst]; simpa using hns
                  simp [this]
                · rw [hh]
              rw [hd]
              apply Bal.of_rvw hv
              unfold Bal at *; simp only [State.putRecv]; omega
          · -- stopped stream: discarded on arrival, credit issued at once
            rename_i hstop
            have hstopped : rs'.stopped = true := by simpa using hstop
            dsimp only at h
            split at h
            · contradiction
            · rename_i s3 hfree
              split at h
              · contradiction
              · rename_i s4 t hcq
                simp only [Option.some.injEq, Prod.mk.injEq] at h
                obtain ⟨rfl, rfl⟩ := h
                obtain ⟨hc3, hrv3⟩ := freeRecvIf_rv hfree
                simp only [State.rcore, RCore.mk.injEq, State.putRecv] at hc3
                obtain ⟨q1, q2, q3, q4, q5, q6, q7⟩ := creditAndQueue_spec hcq
                have hl3 : s3.localMaxData < 2 ^ 64 := by rw [hc3.2.1, hc1.2.1]; exact hlmd
                constructor
                · refine i.step (by rw [q4, hc3.2.2.2.2, hsrw1]) (q5 hl3).2 ?_ ?_
                  · have := (q5 hl3).1
                    rw [q2, hc3.1, hdr]
                    rw [hc3.2.1, hc1.2.1] at this
                    rw [hc1.1, hc1.2.1] at hcred
                    rw [hc1.1]
                    omega
                  · intro k r hk
                    have : s4.rv k = s3.rv k := by simp only [State.rv, q1]
                    rw [this, hrv3 k] at hk
                    split at hk
                    · contradiction
                    · have hput : ({ (s1.putRecv id rs') with dataRecvd := satAdd s1.dataRecvd nb } : State).rv k =
                          (s1.putRecv id rs').rv k := rfl
                      rw [hput, rv_putRecv ‹∃ w, _›.choose_spec] at hk
                      by_cases hki : k = id
                      · subst hki; simp only [↓reduceIte, Option.some.injEq] at hk; subst hk; exact Or.inr ok'
                      · simp only [hki, ↓reduceIte] at hk; exact hrv1' k r hk
                · intro C b u
                  have hbal := q6 u
                  -- the half was there before (a fresh one is not stopped)
                  have hold : s.recv.find? id = some (some rs) := by
                    rcases hor with hh | ⟨_, hnew⟩
                    · exact rv_eq_some.mp hh
                    · rw [hnew] at hst; rw [hst] at hstopped; simp [Recv.new] at hstopped
                  have hrecv : rs.isReceiving = true := by
                    have := ‹¬(!rs.isReceiving) = true›; simpa using this
                  have hd : discarded s (.stream id off len fin) (outT (.ok t)) = nb := by
                    simp only [discarded, outT, hold]
                    rw [← hst, hstopped, hrecv]; simp [hnb]
                  rw [hd]
                  unfold Bal at *
                  rw [q3, hc3.2.2.1, hc1.2.2.1]
                  rw [hc3.2.1, hc3.2.2.2.1, hc1.2.1, hc1.2.2.2.1] at hbal
                  omega

/-- common prefix of the receiver operations: look the half up, instantiating it if needed -/
theorem goir_inv {s s1 : State} {id : Nat} {rs : Recv} (hg : s.getOrInsertRecv id = some (rs, s1)) (i : RInv s) :
    RInv s1 ∧ s1.rcore = s.rcore ∧ RecvOk s.streamReceiveWindow rs ∧ (∃ w, s1.recv.find? id = some w) ∧
    (∀ k r, s1.rv k = some r → s.rv k = some r ∨ RecvOk s.streamReceiveWindow r) ∧
    (∀ k, s1.rv k = if k = id then some rs else s.rv k) ∧
    (s.recv.find? id = some (some rs) ∨ (s.recv.find? id = some none ∧ rs = Recv.new s.streamReceiveWindow)) := by
  obtain ⟨hc1, hw, hrv1, hor⟩ := getOrInsertRecv_spec hg
  have hc1' := hc1
  simp only [State.rcore, RCore.mk.injEq] at hc1'
  have hrv1' : ∀ k r, s1.rv k = some r → s.rv k = some r ∨ RecvOk s.streamReceiveWindow r := by
    intro k r hk
    rw [hrv1 k] at hk
    by_cases hki : k = id
    · subst hki
      simp only [↓reduceIte, Option.some.injEq] at hk; subst hk
      rcases hor with hh | ⟨_, hh⟩
      · exact Or.inl hh
      · right; rw [hh]; exact recvOk_new _
    · simp only [hki, ↓reduceIte] at hk; exact Or.inl hk
  refine ⟨i.step hc1'.2.2.2.2 (by rw [hc1'.2.1]; exact i.lmd_u64)
    (by rw [hc1'.1, hc1'.2.1]; exact i.recvd_le) hrv1', hc1, ?_, hw, hrv1', hrv1, ?_⟩
  · rcases hor with hh | ⟨_, hh⟩
    · exact i.streams id rs hh
    · rw [hh]; exact recvOk_new _
  · rcases hor with hh | hh
    · exact Or.inl (rv_eq_some.mp hh)
    · exact Or.inr hh

theorem rvw_streamRecvFreed {s s' : State} {id : Nat} (h : s.streamRecvFreed id = some s') :
    s'.rvw = s.rvw := rvw_streamFreed h

theorem queueMaxStreamId_spec {s s' : State} {b : Bool} (h : s.queueMaxStreamId = some (s', b)) :
    s'.rvw = s.rvw := rvw_queueMaxStreamId h

theorem rvw_freeIf {s s' : State} {c : Bool} {id : Nat} (h : s.freeIf c id = some s') : s'.rvw = s.rvw := by
  unfold State.freeIf at h
  osplit h
  all_goals first
    | (subst h; rfl)
    | via rvw_streamFreed h

theorem finalizeReadable_rv {s s' : State} {id : Nat} {rs1 : Recv} {freed t0 t : Bool}
    (h : s.finalizeReadable id rs1 freed t0 = some (s', t)) :
    s'.rcore = s.rcore ∧ ∀ k, s'.rv k = if freed = false ∧ k = id then some rs1 else s.rv k := by
  unfold State.finalizeReadable at h
  osplit h
  · have hf := ‹freed = true›
    obtain ⟨rfl, _⟩ := h
    exact ⟨rfl, fun k => by simp [hf]⟩
  all_goals
    have hf := ‹¬freed = true›
    obtain ⟨rfl, _⟩ := h
    refine ⟨rfl, fun k => ?_⟩
    have := rv_cons s id k rs1
    simp only [State.rv] at this ⊢
    rw [this]; simp [hf]

theorem read_step {s s' : State} {id budget : Nat} {r : ReadRes}
    (h : s.read id budget = some (s', r)) (i : RInv s) :
    RInv s' ∧ ∀ C, Bal s C → Unsat s' → Bal s'
      (C + discarded s (.read id budget) (match r with | .closedStream => .errClosed | .ok k e t => .read k e t)) := by
  unfold State.read at h
  split at h
  · simp only [Option.some.injEq, Prod.mk.injEq] at h
    obtain ⟨rfl, rfl⟩ := h
    exact ⟨i, fun C b _ => by simpa [discarded] using b⟩
  · rename_i rs s1 hg
    obtain ⟨i1, hc1, hrsok, hw, hrv1', hrv1, hor⟩ := goir_inv hg i
    have hc1' := hc1
    simp only [State.rcore, RCore.mk.injEq] at hc1'
    split at h
    · simp only [Option.some.injEq, Prod.mk.injEq] at h
      obtain ⟨rfl, rfl⟩ := h
      refine ⟨i1, fun C b _ => ?_⟩
      simp only [discarded, Nat.add_zero]; unfold Bal at *; omega
    · dsimp only at h
      split at h
      · contradiction
      · rename_i end_ freed hre
        split at h
        · contradiction
        · rename_i s3 hfree
          split at h
          · contradiction
          · rename_i s4 t0 hq
            split at h
            · contradiction
            · rename_i s5 t01 hfin
              split at h
              · contradiction
              · rename_i s6 t2 harc
                simp only [Option.some.injEq, Prod.mk.injEq] at h
                obtain ⟨rfl, rfl⟩ := h
                -- the consumed half
                have hk : Nat.min budget rs.assembler.available ≤ rs.assembler.available := by
                  simp only [natMin_eq]; omega
                obtain ⟨hbr, hbuf⟩ := consume_ok rs.assembler _ rs.end_ hk hrsok.buf_le
                have hav := available_le rs.assembler rs.end_ hrsok.buf_le hrsok.read_le
                have ok1 : RecvOk s.streamReceiveWindow
                    { rs with assembler := rs.assembler.consume (Nat.min budget rs.assembler.available) } :=
                  ⟨hrsok.end_le, by simp only [hbr]; have := hrsok.sent_le; omega,
                   by simp only [hbr]; omega, hbuf, hrsok.fin_le⟩
                have f3 := rvw_freeIf hfree
                have f4 := rvw_queueMaxStreamId hq
                obtain ⟨hc5, hrv5⟩ := finalizeReadable_rv hfin
                obtain ⟨q1, q2, q3, q4, q5, q6, q7⟩ := addReadCredits_spec harc
                have hc4 : s4.rcore = s1.rcore := by
                  have := congrArg RView.core (f4.trans f3); exact this
                have hc5' : s5.rcore = s.rcore := hc5.trans (hc4.trans hc1)
                simp only [State.rcore, RCore.mk.injEq] at hc5'
                have hl5 : s5.localMaxData < 2 ^ 64 := by rw [hc5'.2.1]; exact i.lmd_u64
                have hrl := i.recvd_le
                simp only [State.rvw, State.rcore] at hrl
                constructor
                · refine i.step (by simp only; rw [q4, hc5'.2.2.2.2]) (by simp only; exact (q5 hl5).2) ?_ ?_
                  · simp only; have := (q5 hl5).1; rw [q2, hc5'.1]; rw [hc5'.2.1] at this; omega
                  · intro k r hk
                    have e6 : ({ s6 with rtx := { s6.rtx with maxData := s6.rtx.maxData || t2 } } : State).rv k = s5.rv k := by
                      simp only [State.rv, q1]
                    rw [e6, hrv5 k] at hk
                    split at hk
                    · simp only [Option.some.injEq] at hk; subst hk; exact Or.inr ok1
                    · rename_i hne
                      have e4 : s4.rv k = ({ s1 with recv := s1.recv.erase id } : State).rv k :=
                        congrFun (congrArg RView.rv (f4.trans f3)) k
                      rw [e4, rv_erase] at hk
                      split at hk
                      · contradiction
                      · exact hrv1' k r hk
                · intro C b u
                  have hbal := q6 u
                  simp only [discarded]
                  unfold Bal at *
                  simp only
                  rw [q3, hc5'.2.2.1]
                  rw [hc5'.2.1, hc5'.2.2.2.1] at hbal
                  omega

theorem rvw_queueStopSending (s : State) (c : Bool) (id code : Nat) :
    (s.queueStopSending c id code).rvw = s.rvw := by
  unfold State.queueStopSending; split <;> rfl

theorem stop_step {s s' : State} {id code : Nat} {b : Bool}
    (h : s.stop id code = some (s', b)) (i : RInv s) :
    RInv s' ∧ ∀ C, Bal s C → Unsat s' → Bal s'
      (C + discarded s (.stop id code) (if b then .ok else .errClosed)) := by
  unfold State.stop at h
  split at h
  · simp only [Option.some.injEq, Prod.mk.injEq] at h
    obtain ⟨rfl, rfl⟩ := h
    exact ⟨i, fun C b _ => by simpa [discarded] using b⟩
  · rename_i rs s1 hg
    obtain ⟨i1, hc1, hrsok, hw, hrv1', hrv1, hor⟩ := goir_inv hg i
    have hc1' := hc1
    simp only [State.rcore, RCore.mk.injEq] at hc1'
    split at h
    · contradiction
    · -- already stopped
      simp only [Option.some.injEq, Prod.mk.injEq] at h
      obtain ⟨rfl, rfl⟩ := h
      refine ⟨i1, fun C b _ => ?_⟩
      simp only [discarded, Bool.false_eq_true, ↓reduceIte, Nat.add_zero]; unfold Bal at *; omega
    · rename_i credits stopSending rs' hst
      -- what `Recv::stop` returned
      have hst' : rs.stopped = false ∧
          credits = (if rs.isReceiving then rs.end_ - rs.assembler.bytesRead else 0) ∧
          rs' = { rs with stopped := true, assembler := rs.assembler.clear } := by
        unfold Recv.stop at hst
        split at hst
        · simp at hst
        · rename_i hns
          split at hst
          · contradiction
          · rename_i c hsub
            simp only [Option.some.injEq, Prod.mk.injEq] at hst
            simp only [Gen.stopCreditsOnlyReceiving, Bool.true_and] at hsub
            refine ⟨by simpa using hns, ?_, hst.2.2.symm⟩
            rw [← hst.1]
            cases hrcv : rs.isReceiving
            · simp only [hrcv, Bool.not_false, ↓reduceIte, Option.some.injEq] at hsub
              simp [← hsub]
            · simp only [hrcv, Bool.not_true, Bool.false_eq_true, ↓reduceIte] at hsub
              simp [(subU_eq hsub).1]
      obtain ⟨hns, hcr, hrs'⟩ := hst'
      have ok' : RecvOk s.streamReceiveWindow rs' := by
        rw [hrs']
        exact ⟨hrsok.end_le, hrsok.sent_le, hrsok.read_le, by intro a b hab; simp [Asm.clear] at hab,
          hrsok.fin_le⟩
      split at h
      · contradiction
      · rename_i s4a hfree
        split at h
        · contradiction
        · rename_i s4 hqm
          split at h
          · contradiction
          · rename_i s5 t hcq
            simp only [Option.some.injEq, Prod.mk.injEq] at h
            obtain ⟨rfl, rfl⟩ := h
            -- announcing the freed slot (`queue_max_stream_id`) does not touch the receive side's accounting
            have hqv := rvw_queueMaxIf hqm
            obtain ⟨hc4a, hrv4a⟩ := freeRecvIf_rv hfree
            have hc4 : s4.rcore = _ := (congrArg RView.core hqv).trans hc4a
            have hrv4 : ∀ k, s4.rv k = _ := fun k => (congrFun (congrArg RView.rv hqv) k).trans (hrv4a k)
            have hq := rvw_queueStopSending (s1.putRecv id rs') stopSending id code
            have hc4' : s4.rcore = s.rcore := by
              rw [hc4]; exact (congrArg RView.core hq).trans hc1
            simp only [State.rcore, RCore.mk.injEq] at hc4'
            obtain ⟨q1, q2, q3, q4, q5, q6, q7⟩ := creditAndQueue_spec hcq
            have hl4 : s4.localMaxData < 2 ^ 64 := by rw [hc4'.2.1]; exact i.lmd_u64
            have hrl := i.recvd_le
            simp only [State.rvw, State.rcore] at hrl
            constructor
            · refine i.step (by rw [q4, hc4'.2.2.2.2]) (q5 hl4).2 ?_ ?_
              · have := (q5 hl4).1; rw [q2, hc4'.1]; rw [hc4'.2.1] at this; omega
              · intro k r hk
                have e5 : s5.rv k = s4.rv k := by simp only [State.rv, q1]
                rw [e5, hrv4 k] at hk
                split at hk
                · contradiction
                · have e1 : ((s1.putRecv id rs').queueStopSending stopSending id code).rv k =
                      (s1.putRecv id rs').rv k := congrFun (congrArg RView.rv hq) k
                  rw [e1, rv_putRecv hw.choose_spec] at hk
                  by_cases hki : k = id
                  · subst hki; simp only [↓reduceIte, Option.some.injEq] at hk; subst hk; exact Or.inr ok'
                  · simp only [hki, ↓reduceIte] at hk; exact hrv1' k r hk
            · intro C b u
              have hbal := q6 u
              have hd : discarded s (.stop id code) .ok = credits := by
                simp only [discarded]
                rcases hor with hh | ⟨hh, hnew⟩
                · rw [hh, hcr]
                · rw [hh, hcr, hnew]; simp [Recv.new]
              simp only [↓reduceIte, hd]
              unfold Bal at *
              rw [q3, hc4'.2.2.1]
              rw [hc4'.2.1, hc4'.2.2.2.1] at hbal
              omega

theorem recvReceivedReset_step {s s' : State} {id : Nat} {r : Option (Option Nat)}
    (h : s.recvReceivedReset id = some (s', r)) (i : RInv s) :
    RInv s' ∧ ∀ C, Bal s C → Bal s' C := by
  -- dropping the entry of a stream keeps everything else
  have key : ∀ s2 : State, s2.rvw = ({ s with recv := s.recv.erase id } : State).rvw →
      RInv s2 ∧ ∀ C, Bal s C → Bal s2 C := by
    intro s2 hv
    have hc : s2.rcore = s.rcore := congrArg RView.core hv
    simp only [State.rcore, RCore.mk.injEq] at hc
    constructor
    · refine i.step hc.2.2.2.2 (by rw [hc.2.1]; exact i.lmd_u64) (by rw [hc.1, hc.2.1]; exact i.recvd_le) ?_
      intro k r hk
      have e : s2.rv k = ({ s with recv := s.recv.erase id } : State).rv k := congrFun (congrArg RView.rv hv) k
      rw [e, rv_erase] at hk
      split at hk
      · contradiction
      · exact Or.inl hk
    · intro C b; unfold Bal at *; omega
  unfold State.recvReceivedReset at h
  osplit h
  all_goals first
    | (obtain ⟨rfl, _⟩ := h; exact ⟨i, fun C b => b⟩)
    | (have hf := rvw_streamRecvFreed ‹State.streamRecvFreed _ _ = some _›
       have hq := rvw_queueMaxStreamId ‹State.queueMaxStreamId _ = some _›
       obtain ⟨rfl, _⟩ := h
       exact key _ (hq.trans hf))

theorem setReceiveWindow_step (s : State) (n : Nat) (i : RInv s) :
    RInv (s.setReceiveWindow n).1 ∧ ∀ C, Bal s C → Unsat (s.setReceiveWindow n).1 → Bal (s.setReceiveWindow n).1 C := by
  have hl := i.lmd_u64
  have hr := i.recvd_le
  simp only [State.rvw, State.rcore] at hl hr
  unfold State.setReceiveWindow
  split
  · rename_i hgt
    dsimp only
    constructor
    · refine i.step rfl (by simp only [satAdd, natMin_eq]; omega) (by simp only [satAdd, natMin_eq]; omega)
        (fun k r hk => Or.inl hk)
    · intro C b u
      simp only [Bal, Unsat, satAdd, natMin_eq, Gen.recvWindowCancelled] at *
      omega
  · rename_i hle
    constructor
    · exact i.step rfl hl hr (fun k r hk => Or.inl hk)
    · intro C b u
      simp only [Bal, Unsat, satAdd, natMin_eq] at *
      omega

/-- configured window plus unpaid shrink debt never exceeds the largest window configured so far -/
theorem setReceiveWindow_wd (s : State) (n W : Nat)
    (h : s.receiveWindow + s.receiveWindowShrinkDebt ≤ W) :
    (s.setReceiveWindow n).1.receiveWindow + (s.setReceiveWindow n).1.receiveWindowShrinkDebt ≤ Nat.max W n := by
  unfold State.setReceiveWindow
  split
  · dsimp only
    simp only [Gen.recvWindowCancelled, natMin_eq, natMax_eq]; omega
  · simp only [satAdd, natMin_eq, natMax_eq]; omega

theorem receivedReset_step {s s' : State} {id code fo : Nat} {r : Except TErr Bool}
    (h : s.receivedReset id code fo = some (s', r)) (i : RInv s) :
    RInv s' ∧ ∀ C, Bal s C → Unsat s' → Bal s' (C + discarded s (.rst id code fo) (outT r)) := by
  unfold State.receivedReset at h
  split at h
  · simp only [Option.some.injEq, Prod.mk.injEq] at h
    obtain ⟨rfl, rfl⟩ := h
    exact ⟨i, fun C b _ => by simpa [discarded, outT] using b⟩
  · split at h
    · rename_i hg
      simp only [Option.some.injEq, Prod.mk.injEq] at h
      obtain ⟨rfl, rfl⟩ := h
      refine ⟨i, fun C b _ => ?_⟩
      have hn : s.recv.find? id = none := by
        unfold State.getOrInsertRecv at hg
        split at hg <;> simp_all
      simp only [discarded, outT, hn, Nat.add_zero]; exact b
    · rename_i rs s1 hg
      obtain ⟨i1, hc1, hrsok, hw, hrv1', hrv1, hor⟩ := goir_inv hg i
      have hc1' := hc1
      simp only [State.rcore, RCore.mk.injEq] at hc1'
      have hlmd := i.lmd_u64
      have hrl := i.recvd_le
      simp only [State.rvw, State.rcore] at hlmd hrl
      split at h
      · contradiction
      · -- error
        simp only [Option.some.injEq, Prod.mk.injEq] at h
        obtain ⟨rfl, rfl⟩ := h
        refine ⟨i1, fun C b _ => ?_⟩
        simp only [discarded, outT, Nat.add_zero]; unfold Bal at *; omega
      · -- redundant reset
        rename_i rsx hres
        simp only [Option.some.injEq, Prod.mk.injEq] at h
        obtain ⟨rfl, rfl⟩ := h
        refine ⟨i1, fun C b _ => ?_⟩
        have hnr : rs.isReceiving = false := by
          rcases reset_cases hres with ⟨_, _, _, he⟩ | ⟨_, _, he⟩ | ⟨_, _, he⟩ | ⟨_, _, _, hh⟩
          · contradiction
          · contradiction
          · contradiction
          · rcases hh with ⟨sz, c, hst, _⟩ | ⟨sz, hst, he⟩
            · simp [Recv.isReceiving, hst]
            · simp at he
        have hd : discarded s (.rst id code fo) (outT (.ok false)) = 0 := by
          simp only [discarded, outT]
          rcases hor with hh | ⟨hh, hnew⟩
          · rw [hh]; simp [hnr]
          · rw [hnew] at hnr; simp [Recv.new, Recv.isReceiving] at hnr
        rw [hd]; unfold Bal at *; omega
      · rename_i rs' hres
        -- the reset took effect
        have hfacts : rs.isReceiving = true ∧ fo ≤ rs.sentMaxStreamData ∧
            s1.dataRecvd + (fo - rs.end_) ≤ s1.localMaxData ∧
            rs' = { rs with state := .resetRecvd fo code, assembler := rs.assembler.clear } ∧
            rs.end_ ≤ fo := by
          rcases reset_cases hres with ⟨_, _, _, he⟩ | ⟨_, _, he⟩ | ⟨_, _, he⟩ | ⟨hse, h3, h4, hh⟩
          · contradiction
          · contradiction
          · contradiction
          · rcases hh with ⟨sz, c, hst, he⟩ | ⟨sz, hst, he⟩
            · simp at he
            · simp only [Except.ok.injEq, Prod.mk.injEq, true_and] at he
              have hrc : rs.isReceiving = true := by simp [Recv.isReceiving, hst]
              refine ⟨hrc, h3 hrc, h4 hrc, he, ?_⟩
              unfold Recv.resetSizeErr at hse
              cases hfo' : rs.finalOffset with
              | none =>
                simp only [hfo'] at hse
                split at hse
                · contradiction
                · omega
              | some f =>
                simp only [hfo'] at hse
                split at hse
                · contradiction
                · rename_i hne
                  have : f = fo := Decidable.byContradiction hne
                  have := hrsok.fin_le f hfo'
                  omega
        obtain ⟨hrecv, hfo, hcred, hrs', hendfo⟩ := hfacts
        have ok' : RecvOk s.streamReceiveWindow rs' := by
          rw [hrs']
          exact ⟨hrsok.end_le, hrsok.sent_le, hrsok.read_le, by intro a b hab; simp [Asm.clear] at hab,
            by intro f hf; simp only [Recv.finalOffset, Option.some.injEq] at hf; subst hf; exact hendfo⟩
        have hbr : rs'.assembler.bytesRead = rs.assembler.bytesRead := by rw [hrs']; rfl
        have hend : rs'.end_ = rs.end_ := by rw [hrs']
        dsimp only at h
        split at h
        · contradiction
        · rename_i s3 hfree
          obtain ⟨hc3, hrv3⟩ := freeRecvIf_rv hfree
          have hc3' : s3.rcore = s.rcore := hc3.trans hc1
          simp only [State.rcore, RCore.mk.injEq] at hc3'
          have hv4 := rvw_onStreamFrame s3 (!rs'.stopped) id
          have hrv4 : ∀ k r, (s3.onStreamFrame (!rs'.stopped) id).rv k = some r →
              s.rv k = some r ∨ RecvOk s.streamReceiveWindow r := by
            intro k r hk
            have e4 : (s3.onStreamFrame (!rs'.stopped) id).rv k = s3.rv k := congrFun (congrArg RView.rv hv4) k
            rw [e4, hrv3 k] at hk
            split at hk
            · contradiction
            · rw [rv_putRecv hw.choose_spec] at hk
              by_cases hki : k = id
              · subst hki; simp only [↓reduceIte, Option.some.injEq] at hk; subst hk; exact Or.inr ok'
              · simp only [hki, ↓reduceIte] at hk; exact hrv1' k r hk
          have hc4 : (s3.onStreamFrame (!rs'.stopped) id).rcore = s.rcore :=
            (congrArg RView.core hv4).trans (hc3.trans hc1)
          have hc4' := hc4
          simp only [State.rcore, RCore.mk.injEq] at hc4'
          -- what the specification says was discarded
          have hstp : rs'.stopped = rs.stopped := by rw [hrs']
          have hcrd : Gen.resetCredited rs'.stopped rs'.end_ rs'.assembler.bytesRead =
              (if rs.stopped then rs.end_ else rs.assembler.bytesRead) := by
            simp only [Gen.resetCredited, hstp, hend, hbr]
          have hcle : (if rs.stopped then rs.end_ else rs.assembler.bytesRead) ≤ rs.end_ := by
            split
            · exact Nat.le_refl _
            · exact hrsok.read_le
          have hd : ∀ t, discarded s (.rst id code fo) (outT (.ok t)) =
              fo - (if rs.stopped then rs.end_ else rs.assembler.bytesRead) := by
            intro t
            simp only [discarded, outT]
            rcases hor with hh | ⟨hh, hnew⟩
            · rw [hh]; simp [hrecv]
            · rw [hh, hnew]; simp [Recv.new]
          split at h
          · rename_i hne
            split at h
            · contradiction
            · rename_i d hd1
              split at h
              · contradiction
              · rename_i credits hd2
                split at h
                · contradiction
                · rename_i s6 t hcq
                  simp only [Option.some.injEq, Prod.mk.injEq] at h
                  obtain ⟨rfl, rfl⟩ := h
                  have hdv : d = fo - rs.end_ ∧ rs.end_ ≤ fo := by
                    unfold subU at hd1; split at hd1
                    · simp only [Option.some.injEq] at hd1; rw [hend] at hd1; rw [hend] at *; omega
                    · contradiction
                  have hcv : credits = fo - (if rs.stopped then rs.end_ else rs.assembler.bytesRead) := by
                    rw [hcrd] at hd2
                    exact (subU_eq hd2).1
                  obtain ⟨q1, q2, q3, q4, q5, q6, q7⟩ := creditAndQueue_spec hcq
                  have hexact : satAdd (s3.onStreamFrame (!rs'.stopped) id).dataRecvd d =
                      s.dataRecvd + (fo - rs.end_) := by
                    rw [hc4'.1, hdv.1]; apply satAdd_exact
                    rw [hc1'.1, hc1'.2.1] at hcred; omega
                  have hl5 : (s3.onStreamFrame (!rs'.stopped) id).localMaxData < 2 ^ 64 := by
                    rw [hc4'.2.1]; exact hlmd
                  constructor
                  · refine i.step (by rw [q4]; exact hc4'.2.2.2.2) (q5 hl5).2 ?_ ?_
                    · have := (q5 hl5).1
                      rw [q2]; simp only; rw [hexact]
                      simp only at this
                      rw [hc4'.2.1] at this
                      rw [hc1'.1, hc1'.2.1] at hcred; omega
                    · intro k r hk
                      have e6 : s6.rv k = (s3.onStreamFrame (!rs'.stopped) id).rv k := by
                        simp only [State.rv, q1]
                      rw [e6] at hk; exact hrv4 k r hk
                  · intro C b u
                    have hbal := q6 u
                    rw [hd t, ← hcv]
                    unfold Bal at *
                    rw [q3]; simp only at hbal ⊢
                    rw [hc4'.2.2.1]
                    rw [hc4'.2.1, hc4'.2.2.2.1] at hbal
                    omega
          · -- everything had been read already: nothing to account
            rename_i heq
            simp only [Option.some.injEq, Prod.mk.injEq] at h
            obtain ⟨rfl, rfl⟩ := h
            have heq' : (if rs.stopped then rs.end_ else rs.assembler.bytesRead) = fo := by
              rw [← hcrd]; exact Decidable.byContradiction heq
            constructor
            · exact i.step hc4'.2.2.2.2 (by rw [hc4'.2.1]; exact hlmd) (by rw [hc4'.1, hc4'.2.1]; exact hrl) hrv4
            · intro C b _
              rw [hd false, heq', Nat.sub_self, Nat.add_zero]
              unfold Bal at *; omega

theorem ctrlMsd_inv : ∀ (l : List Nat) {s s' : State} {acc fs : List CtrlFrame},
    s.ctrlMsd l acc = some (s', fs) → RInv s → RInv s' ∧ s'.rcore = s.rcore := by
  intro l
  induction l with
  | nil => intro s s' acc fs h i; simp [State.ctrlMsd] at h; rw [← h.1]; exact ⟨i, rfl⟩
  | cons id rest ih =>
    intro s s' acc fs h i
    unfold State.ctrlMsd at h
    split at h
    · rename_i rs hfind
      split at h
      · exact ih h i
      · split at h
        · contradiction
        · rename_i mx t hmsd
          have hmx : mx = rs.assembler.bytesRead + s.streamReceiveWindow := by
            unfold Recv.maxStreamData at hmsd
            dsimp only at hmsd
            split at hmsd
            · contradiction
            · simp only [Option.some.injEq, Prod.mk.injEq] at hmsd; exact hmsd.1.symm
          have hok := i.streams id rs (rv_eq_some.mpr hfind)
          simp only [State.rvw, State.rcore] at hok
          have ok' : RecvOk s.streamReceiveWindow (rs.recordSentMaxStreamData mx) := by
            unfold Recv.recordSentMaxStreamData
            split
            · exact ⟨by simp only; have := hok.end_le; omega, by simp only; omega, hok.read_le, hok.buf_le,
                hok.fin_le⟩
            · exact hok
          have i2 : RInv (s.putRecv id (rs.recordSentMaxStreamData mx)) := by
            refine i.step rfl i.lmd_u64 i.recvd_le ?_
            intro k r hk
            rw [rv_putRecv hfind] at hk
            by_cases hki : k = id
            · subst hki; simp only [↓reduceIte, Option.some.injEq] at hk; subst hk; exact Or.inr ok'
            · simp only [hki, ↓reduceIte] at hk; exact Or.inl hk
          split at h
          · obtain ⟨i3, hc3⟩ := ih h i2
            exact ⟨i3, hc3⟩
          · contradiction
    · exact ih h i

theorem writeControlFrames_step {s s' : State} {fs : List CtrlFrame}
    (h : s.writeControlFrames = some (s', fs)) (i : RInv s) :
    RInv s' ∧ s'.rcore = s.rcore := by
  unfold State.writeControlFrames at h
  dsimp only at h
  split at h
  · contradiction
  · rename_i s3 msd hm
    simp only [Option.some.injEq, Prod.mk.injEq] at h
    rw [← h.1]
    have hv0 : ({ ((({ s with rtx := { s.rtx with resetStream := [], stopSending := [] } }) : State).ctrlMaxData.1) with
        rtx := { ((({ s with rtx := { s.rtx with resetStream := [], stopSending := [] } }) : State).ctrlMaxData.1).rtx with
          maxStreamData := [] } } : State).rvw = s.rvw := by
      unfold State.ctrlMaxData; split <;> rfl
    obtain ⟨i3, hc3⟩ := ctrlMsd_inv _ hm (RInv.of_rvw hv0 i)
    have hv : (((s3.ctrlMaxStreams .bi).1.ctrlMaxStreams .uni).1.ctrlStreamsBlocked .bi).1.ctrlStreamsBlocked .uni
        |>.1.rvw = s3.rvw := by
      have e1 : ∀ (x : State) (d : Dir), (x.ctrlMaxStreams d).1.rvw = x.rvw := by
        intro x d; unfold State.ctrlMaxStreams; split <;> rfl
      have e2 : ∀ (x : State) (d : Dir), (x.ctrlStreamsBlocked d).1.rvw = x.rvw := by
        intro x d; unfold State.ctrlStreamsBlocked State.ctrlMoveBlocked
        dsimp only; split <;> split <;> rfl
      rw [e2, e2, e1, e1]
    exact ⟨RInv.of_rvw hv i3, (congrArg RView.core hv).trans (hc3.trans (congrArg RView.core hv0))⟩

/-! ### configured window and unpaid shrink debt -/

/-- (configured connection receive window, shrink debt not yet paid off) -/
def State.wdv (s : State) : Nat × Nat := (s.receiveWindow, s.receiveWindowShrinkDebt)

/-- the configured window is unchanged and the unpaid shrink debt did not grow -/
def WDV (a b : Nat × Nat) : Prop := b.1 = a.1 ∧ b.2 ≤ a.2

theorem WDV.refl (a : Nat × Nat) : WDV a a := ⟨rfl, Nat.le_refl _⟩
theorem WDV.trans {a b c : Nat × Nat} (h1 : WDV a b) (h2 : WDV b c) : WDV a c :=
  ⟨h2.1.trans h1.1, Nat.le_trans h2.2 h1.2⟩
theorem WDV.of_eq {a b : Nat × Nat} (h : b = a) : WDV a b := h ▸ WDV.refl a

theorem wdv_of_rcore {s s' : State} (h : s'.rcore = s.rcore) : s'.wdv = s.wdv := by
  simp only [State.rcore, RCore.mk.injEq] at h
  simp only [State.wdv, h.2.2.1, h.2.2.2.1]

theorem wdv_of_rvw {s s' : State} (h : s'.rvw = s.rvw) : s'.wdv = s.wdv :=
  wdv_of_rcore (congrArg RView.core h)

theorem wdv_credit {s s' : State} {c : Nat} {t : Bool} (h : s.creditAndQueue c = some (s', t)) :
    WDV s.wdv s'.wdv := by
  obtain ⟨_, _, q3, _, _, _, q7⟩ := creditAndQueue_spec h
  exact ⟨q3, q7⟩

theorem wdv_addReadCredits {s s' : State} {c : Nat} {t : Bool} (h : s.addReadCredits c = some (s', t)) :
    WDV s.wdv s'.wdv := by
  obtain ⟨_, _, q3, _, _, _, q7⟩ := addReadCredits_spec h
  exact ⟨q3, q7⟩

theorem wdv_getOrInsertRecv {s s1 : State} {id : Nat} {rs : Recv} (h : s.getOrInsertRecv id = some (rs, s1)) :
    s1.wdv = s.wdv := wdv_of_rcore (getOrInsertRecv_spec h).1

theorem wdv_freeRecvIf {s s' : State} {c : Bool} {id : Nat} (h : s.freeRecvIf c id = some s') :
    s'.wdv = s.wdv := wdv_of_rcore (freeRecvIf_rv h).1

theorem wdv_received {s s' : State} {id off len : Nat} {fin : Bool} {r : Except TErr Bool}
    (h : s.received id off len fin = some (s', r)) : WDV s.wdv s'.wdv := by
  unfold State.received at h
  osplit h
  all_goals first
    | (obtain ⟨rfl, _⟩ := h; exact WDV.refl _)
    | (have hg := wdv_getOrInsertRecv ‹State.getOrInsertRecv _ _ = some _›
       first
        | (obtain ⟨rfl, _⟩ := h; exact WDV.of_eq hg)
        | (obtain ⟨rfl, _⟩ := h
           exact WDV.of_eq ((wdv_of_rvw (rvw_onStreamFrame _ _ _)).trans hg))
        | (have hf := wdv_freeRecvIf ‹State.freeRecvIf _ _ _ = some _›
           have hc := wdv_credit ‹State.creditAndQueue _ _ = some _›
           obtain ⟨rfl, _⟩ := h
           exact (WDV.of_eq (hf.trans hg)).trans hc))

theorem wdv_receivedReset {s s' : State} {id code fo : Nat} {r : Except TErr Bool}
    (h : s.receivedReset id code fo = some (s', r)) : WDV s.wdv s'.wdv := by
  unfold State.receivedReset at h
  osplit h
  all_goals first
    | (obtain ⟨rfl, _⟩ := h; exact WDV.refl _)
    | (have hg := wdv_getOrInsertRecv ‹State.getOrInsertRecv _ _ = some _›
       first
        | (obtain ⟨rfl, _⟩ := h; exact WDV.of_eq hg)
        | (have hf := wdv_freeRecvIf ‹State.freeRecvIf _ _ _ = some _›
           first
            | (obtain ⟨rfl, _⟩ := h
               exact WDV.of_eq ((wdv_of_rvw (rvw_onStreamFrame _ _ _)).trans (hf.trans hg)))
            | (have hc := wdv_credit ‹State.creditAndQueue _ _ = some _›
               obtain ⟨rfl, _⟩ := h
               exact (WDV.of_eq ((wdv_of_rvw (rvw_onStreamFrame _ _ _)).trans (hf.trans hg))).trans hc)))

theorem wdv_read {s s' : State} {id budget : Nat} {r : ReadRes}
    (h : s.read id budget = some (s', r)) : WDV s.wdv s'.wdv := by
  unfold State.read at h
  osplit h
  all_goals first
    | (obtain ⟨rfl, _⟩ := h; exact WDV.refl _)
    | (have hg := wdv_getOrInsertRecv ‹State.getOrInsertRecv _ _ = some _›
       first
        | (obtain ⟨rfl, _⟩ := h; exact WDV.of_eq hg)
        | (have f2 := wdv_of_rvw (rvw_freeIf ‹State.freeIf _ _ _ = some _›)
           have f3 := wdv_of_rvw (rvw_queueMaxStreamId ‹State.queueMaxStreamId _ = some _›)
           have f4 := wdv_of_rcore (finalizeReadable_rv ‹State.finalizeReadable _ _ _ _ _ = some _›).1
           have f5 := wdv_addReadCredits ‹State.addReadCredits _ _ = some _›
           obtain ⟨rfl, _⟩ := h
           exact (WDV.of_eq (f4.trans (f3.trans (f2.trans hg)))).trans f5))

theorem wdv_stop {s s' : State} {id code : Nat} {b : Bool}
    (h : s.stop id code = some (s', b)) : WDV s.wdv s'.wdv := by
  unfold State.stop at h
  osplit h
  all_goals first
    | (obtain ⟨rfl, _⟩ := h; exact WDV.refl _)
    | (have hg := wdv_getOrInsertRecv ‹State.getOrInsertRecv _ _ = some _›
       first
        | (obtain ⟨rfl, _⟩ := h; exact WDV.of_eq hg)
        | (have hf := wdv_freeRecvIf ‹State.freeRecvIf _ _ _ = some _›
           have hm := wdv_of_rvw (rvw_queueMaxIf ‹State.queueMaxIf _ _ = some _›)
           have hc := wdv_credit ‹State.creditAndQueue _ _ = some _›
           obtain ⟨rfl, _⟩ := h
           exact (WDV.of_eq (hm.trans (hf.trans ((wdv_of_rvw (rvw_queueStopSending _ _ _ _)).trans hg)))).trans hc))

theorem wdv_recvReceivedReset {s s' : State} {id : Nat} {r : Option (Option Nat)}
    (h : s.recvReceivedReset id = some (s', r)) : WDV s.wdv s'.wdv := by
  unfold State.recvReceivedReset at h
  osplit h
  all_goals first
    | (obtain ⟨rfl, _⟩ := h; exact WDV.refl _)
    | (have hf := wdv_of_rvw (rvw_streamRecvFreed ‹State.streamRecvFreed _ _ = some _›)
       have hq := wdv_of_rvw (rvw_queueMaxStreamId ‹State.queueMaxStreamId _ = some _›)
       obtain ⟨rfl, _⟩ := h
       exact WDV.of_eq (hq.trans hf))

end QM.Streams
