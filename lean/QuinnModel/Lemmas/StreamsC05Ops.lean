import QuinnModel.Lemmas.StreamsC05
/- C05: the operations that convey or consume credit preserve the invariant. -/
namespace QM.Streams
set_option pp.structureInstances false

theorem inv_maxData {side : Side} {h : Hist} {s : State} (i : InvV side h s.vw) (n : Nat) (out : Out) :
    InvV side ((.maxData n, out) :: h) (s.receivedMaxData n).vw := by
  obtain ⟨i1, i2, i3, i4, i5, i6, i7, i8⟩ := i
  simp only [State.vw, State.core] at i1 i2 i3 i4 i5 i6 i8
  refine ⟨i1, ?_, i3, i4, ?_, i6, i7, i8⟩
  · simp only [State.vw, State.core, State.receivedMaxData, peerMaxData, i2, Nat.max_comm]
  · simp only [State.vw, State.core, State.receivedMaxData]
    exact Nat.le_trans i5 (Nat.le_max_left _ _)

theorem Two.set_max_eq (t : Two Nat) (d : Dir) (n : Nat) (h : ¬ n > t.get d) :
    t.set d (Nat.max n (t.get d)) = t := by
  cases d <;> cases t <;> simp [Two.get, Two.set, natMax_eq] at h ⊢ <;> omega

theorem receivedMaxStreams_vw (s : State) (d : Dir) (n : Nat) :
    (s.receivedMaxStreams d n).1.vw =
      if (s.receivedMaxStreams d n).2.isSome then s.vw
      else ⟨{ s.core with max := s.core.max.set d (Nat.max n (s.core.max.get d)) }, s.cv⟩ := by
  unfold State.receivedMaxStreams
  by_cases h1 : Gen.maxStreamsUnrepresentable n = true
  · simp [h1]
  · by_cases h2 : n > s.max.get d
    · simp only [h1, h2, Bool.false_eq_true, ↓reduceIte, Option.isSome_none]
      simp only [State.vw, State.core, SView.mk.injEq, Core.mk.injEq, true_and, and_true]
      refine ⟨?_, rfl⟩
      have : Nat.max n (s.max.get d) = n := by simp only [natMax_eq]; omega
      rw [this]
    · simp only [h1, h2, Bool.false_eq_true, ↓reduceIte, Option.isSome_none]
      simp only [State.vw, State.core, SView.mk.injEq, Core.mk.injEq, true_and, and_true]
      exact (Two.set_max_eq _ _ _ h2).symm

theorem inv_maxStreams {side : Side} {h : Hist} {s s' : State} {d : Dir} {n : Nat} {out : Out}
    (i : InvV side h s.vw) (hs : step s (.maxStreams d n) = some (s', out)) :
    InvV side ((.maxStreams d n, out) :: h) s'.vw := by
  obtain ⟨i1, i2, i3, i4, i5, i6, i7, i8⟩ := i
  unstep hs
  obtain ⟨rfl, rfl⟩ := hs
  rw [receivedMaxStreams_vw]
  cases he : (s.receivedMaxStreams d n).2 with
  | some e =>
    simp only [Option.isSome_some, ↓reduceIte]
    exact ⟨i1, i2, i3, i4, i5, i6, i7, i8⟩
  | none =>
    simp only [Option.isSome_none, Bool.false_eq_true, ↓reduceIte]
    refine ⟨i1, i2, ?_, i4, i5, ?_, i7, i8⟩
    · intro d'
      simp only [peerMaxStreams, Two.get_set]
      have h3 := i3 d'
      by_cases hd : d = d'
      · subst hd; simp only [↓reduceIte]; rw [← h3]; rfl
      · simp only [hd, ↓reduceIte]; exact h3
    · intro d'
      simp only [Two.get_set]
      have h6 := i6 d'
      by_cases hd : d = d'
      · subst hd; simp only [↓reduceIte, natMax_eq]
        simp only [State.vw] at h6; omega
      · simp only [hd, ↓reduceIte]; exact h6

theorem inv_open {side : Side} {h : Hist} {s s' : State} {d : Dir} {out : Out}
    (i : InvV side h s.vw) (hs : step s (.open_ d) = some (s', out)) :
    InvV side ((.open_ d, out) :: h) s'.vw := by
  unstep hs
  obtain ⟨s1, r, h1, rfl, _⟩ := hs
  unfold State.open_ at h1
  osplit h1
  · rw [← h1.1]; exact i.frame (FrameV.refl _) _ _ rfl
  · rw [← h1.1]; exact i.frame (Frame.of_vw (s := s) rfl).v _ _ rfl
  · have hex := ‹¬Gen.openExhausted _ _ = true›
    have hins := ‹State.insert _ _ _ = some _›
    rename_i s2 _
    rw [← h1.1]
    have hv := vw_insert hins
    have hlt : s.next.get d < s.max.get d := by
      simp only [Gen.openExhausted, decide_eq_true_eq] at hex; omega
    obtain ⟨g1, g2, g3, g4⟩ := ghosts_other (.open_ d) out h rfl
    obtain ⟨i1, i2, i3, i4, i5, i6, i7, i8⟩ := i
    have hcore : ({ s2 with sendStreams := s2.sendStreams + 1 } : State).vw =
        ⟨{ s.core with next := s.next.set d (s.next.get d + 1) }, s.cv⟩ := by
      have : ({ s2 with sendStreams := s2.sendStreams + 1 } : State).vw = s2.vw := rfl
      rw [this, hv]; rfl
    rw [hcore]
    refine ⟨i1, by rw [g1]; exact i2, fun d' => by rw [g2]; exact i3 d', by rw [g4]; exact i4, i5, ?_,
      fun id c hc => by rw [g3]; exact i7 id c hc, fun id => by rw [g3]; exact i8 id⟩
    intro d'
    simp only [Two.get_set]
    have h6 := i6 d'
    by_cases hd : d = d'
    · subst hd; simp only [↓reduceIte]; exact hlt
    · simp only [hd, ↓reduceIte]; exact h6

theorem cv_putSend {s : State} {id : Nat} {x x' : Send} (hx : s.send.find? id = some (some x)) (k : Nat) :
    (s.putSend id x').cv k = if k = id then some x'.credit else s.cv k := by
  simp only [State.cv, State.putSend]
  by_cases hk : k = id
  · subst hk; rw [Map.find?_set_self _ _ _ _ hx]; simp
  · rw [Map.find?_set_ne _ _ _ _ hk]; simp [hk]

theorem find_putSend_self {s : State} {id : Nat} {x x' : Send} (hx : s.send.find? id = some (some x)) :
    (s.putSend id x').send.find? id = some (some x') := by
  simp only [State.putSend]; exact Map.find?_set_self _ _ _ _ hx

theorem Send.increaseMaxData_credit (x : Send) (n : Nat) :
    (x.increaseMaxData n).1.credit = x.credit ∨
    (x.maxData < n ∧ (x.increaseMaxData n).1.credit = (x.pending.offset, n)) := by
  unfold Send.increaseMaxData
  split
  · exact Or.inl rfl
  · rename_i hh
    simp only [Bool.or_eq_true, decide_eq_true_eq, not_or, Nat.not_le] at hh
    exact Or.inr ⟨hh.1, rfl⟩

theorem vw_afterUnblock {s : State} {id : Nat} {x' : Send} (b : Bool) (wl : Nat)
    (hx : s.send.find? id = some (some x')) : (s.afterUnblock b id x' wl).vw = s.vw := by
  unfold State.afterUnblock
  split
  · split
    · rfl
    · split
      · exact (vw_putSend hx rfl : (s.putSend id { x' with connectionBlocked := true }).vw = s.vw)
      · rfl
  · rfl

/-- effect of MAX_STREAM_DATA on the sender view -/
theorem receivedMaxStreamData_view {s s' : State} {id n : Nat} {e : Option TErr}
    (h : s.receivedMaxStreamData id n = some (s', e)) :
    (e.isSome ∧ s' = s) ∨
    (e = none ∧ s'.core = s.core ∧ ∀ k c, s'.cv k = some c →
      s.cv k = some c ∨ c = (0, s.maxSendData k) ∨
      (k = id ∧ ∃ off md, (s.cv id = some (off, md) ∨ (off = 0 ∧ md = s.maxSendData id)) ∧ md < n ∧ c = (off, n))) := by
  unfold State.receivedMaxStreamData at h
  osplit h
  · exact Or.inl ⟨by rw [← h.2]; rfl, h.1.symm⟩
  · exact Or.inl ⟨by rw [← h.2]; rfl, h.1.symm⟩
  · -- a sending half exists
    have hg := ‹State.getOrInsertSend _ _ = some _›
    rename_i x s1 _
    obtain ⟨f1, hx1, hor⟩ := getOrInsertSend_spec hg
    right
    have hvw : s'.vw = (s1.putSend id (x.increaseMaxData n).1).vw := by
      rw [← h.1]
      exact (vw_onStreamFrame _ _ _).trans (vw_afterUnblock _ _ (find_putSend_self hx1))
    refine ⟨h.2.symm, ?_, ?_⟩
    · exact (congrArg SView.core hvw).trans f1.v.core
    · intro k c hc
      have h2 := congrFun (congrArg SView.cv hvw) k
      simp only [State.vw] at h2
      rw [h2, cv_putSend hx1] at hc
      by_cases hk : k = id
      · subst hk
        simp only [↓reduceIte, Option.some.injEq] at hc
        -- credit of the half before the frame
        have hxc : s.cv k = some x.credit ∨ x.credit = (0, s.maxSendData k) := by
          rcases hor with hh | ⟨_, hh⟩
          · left; simp only [State.cv, hh]
          · right; rw [hh]; rfl
        rcases Send.increaseMaxData_credit x n with hsame | ⟨hlt, hnew⟩
        · rw [hsame] at hc; subst hc
          rcases hxc with hh | hh
          · exact Or.inl hh
          · exact Or.inr (Or.inl hh)
        · rw [hnew] at hc; subst hc
          refine Or.inr (Or.inr ⟨rfl, x.pending.offset, x.maxData, ?_, hlt, rfl⟩)
          rcases hxc with hh | hh
          · exact Or.inl hh
          · right; simp only [Send.credit, Prod.mk.injEq] at hh; exact hh
      · simp only [hk, ↓reduceIte] at hc
        rcases f1.v.rel k c hc with hh | hh
        · exact Or.inl hh
        · exact Or.inr (Or.inl hh)
  · exact Or.inl ⟨by rw [← h.2]; rfl, h.1.symm⟩
  · right
    refine ⟨h.2.symm, ?_, ?_⟩
    · rw [← h.1]; exact congrArg SView.core (vw_onStreamFrame s false id)
    · intro k c hc
      rw [← h.1] at hc
      have h2 := congrFun (congrArg SView.cv (vw_onStreamFrame s false id)) k
      simp only [State.vw] at h2
      rw [h2] at hc; exact Or.inl hc


theorem inv_maxStreamData {side : Side} {h : Hist} {s s' : State} {id n : Nat} {out : Out}
    (i : InvV side h s.vw) (hs : step s (.maxStreamData id n) = some (s', out)) :
    InvV side ((.maxStreamData id n, out) :: h) s'.vw := by
  unstep hs
  obtain ⟨s1, e, h1, rfl, rfl⟩ := hs
  obtain ⟨i1, i2, i3, i4, i5, i6, i7, i8⟩ := i
  rcases receivedMaxStreamData_view h1 with ⟨he, rfl⟩ | ⟨rfl, hcore, hcv⟩
  · cases e with
    | none => simp at he
    | some e' =>
      refine ⟨i1, i2, i3, i4, i5, i6, ?_, ?_⟩
      · intro k c hc; simpa [peerStreamLimit] using i7 k c hc
      · intro k; simpa [peerStreamLimit] using i8 k
  · have hmono : ∀ k, peerStreamLimit side k h ≤ peerStreamLimit side k ((.maxStreamData id n, .ok) :: h) := by
      intro k; simp only [peerStreamLimit]; split
      · simp only [natMax_eq]; omega
      · exact Nat.le_refl _
    simp only [State.vw] at i1 i2 i3 i4 i5 i6 i8 ⊢
    refine ⟨by rw [hcore]; exact i1, by rw [hcore]; exact i2, fun d => by rw [hcore]; exact i3 d,
      by rw [hcore]; exact i4, by rw [hcore]; exact i5, fun d => by rw [hcore]; exact i6 d, ?_, ?_⟩
    · intro k c hc
      rcases hcv k c hc with hh | hh | ⟨rfl, off, md, hsrc, hlt, rfl⟩
      · have := i7 k c hh; exact ⟨this.1, Nat.le_trans this.2 (hmono k)⟩
      · subst hh; exact ⟨Nat.zero_le _, Nat.le_trans (i8 k) (hmono k)⟩
      · have hoff : off ≤ md := by
          rcases hsrc with hh | ⟨rfl, _⟩
          · exact (i7 k (off, md) hh).1
          · exact Nat.zero_le _
        refine ⟨by simp only; omega, ?_⟩
        simp only [peerStreamLimit, ↓reduceIte, natMax_eq]; omega
    · intro k; rw [hcore]; exact Nat.le_trans (i8 k) (hmono k)

theorem Send.write_ok {x x' : Send} {n limit k : Nat} (h : x.write n limit = some (.ok (k, x'))) :
    x.isWritable = true ∧ x.stopReason = none ∧ x.pending.offset ≤ x.maxData ∧
    0 < x.maxData - x.pending.offset ∧
    k = Nat.min n (Nat.min limit (x.maxData - x.pending.offset)) ∧
    x' = { x with pending := x.pending.write k } := by
  unfold Send.write at h
  osplit h
  have hw := ‹¬(!x.isWritable) = true›
  have hsr := ‹x.stopReason = none›
  have hle := ‹x.pending.offset ≤ x.maxData›
  have hb := ‹¬Gen.sendBudget _ _ = 0›
  simp only [Except.ok.injEq, Prod.mk.injEq] at h
  refine ⟨by simpa using hw, hsr, hle, ?_, h.1.symm, ?_⟩
  · simp only [Gen.sendBudget] at hb; omega
  · rw [← h.2, ← h.1]

/-- an accepted write -/
theorem write_ok {s s' : State} {id n k : Nat} (h : s.write id n = some (s', .ok k)) :
    ∃ x s1, s.getOrInsertSend id = some (x, s1) ∧ s.connClosed = false ∧ s.dataSent ≤ s.maxData ∧
      x.isWritable = true ∧ x.stopReason = none ∧ x.pending.offset ≤ x.maxData ∧
      0 < Gen.writeLimit s.maxData s.dataSent s.sendWindow s.unackedData ∧
      0 < x.maxData - x.pending.offset ∧
      k = Nat.min n (Nat.min (Gen.writeLimit s.maxData s.dataSent s.sendWindow s.unackedData)
            (x.maxData - x.pending.offset)) ∧
      s'.core = { s1.core with dataSent := s1.dataSent + k } ∧
      (∀ j, s'.cv j = if j = id then some (x.pending.offset + k, x.maxData) else s1.cv j) ∧
      s'.unackedData = s1.unackedData + k := by
  unfold State.write at h
  osplit h
  all_goals try (simp only [reduceCtorEq, and_false] at h)
  all_goals
    have hg := ‹State.getOrInsertSend _ _ = some _›
    have hw := ‹Send.write _ _ _ = some _›
    have hl := ‹State.writeLimit _ = some _›
    obtain ⟨_, hx1, _⟩ := getOrInsertSend_spec hg
    obtain ⟨w1, w2, w3, w4, w5, w6⟩ := Send.write_ok hw
    unfold State.writeLimit at hl
    osplit hl
    simp only [Except.ok.injEq] at h
    obtain ⟨rfl, rfl⟩ := h
    refine ⟨_, _, hg, by simpa using ‹¬s.connClosed = true›, ‹s.dataSent ≤ s.maxData›, w1, w2, w3, ?_, w4, ?_, rfl, ?_, rfl⟩
    · rw [hl]; exact Nat.pos_of_ne_zero ‹_›
    · rw [hl]; exact w5
    · intro j
      have := cv_putSend (x' := ‹Send›) hx1 j
      subst w6
      simp only [State.cv] at this ⊢
      exact this

/-- a refused write only instantiates the half or marks it connection-blocked -/
theorem write_err {s s' : State} {id n : Nat} {e : WriteErr} (h : s.write id n = some (s', .error e)) :
    Frame s s' := by
  unfold State.write at h
  osplit h
  all_goals first
    | (rw [← h.1]; exact Frame.refl _)
    | (have hg := ‹State.getOrInsertSend _ _ = some _›
       rw [← h.1]
       first
        | exact (getOrInsertSend_spec hg).1
        | exact frame_gput hg rfl rfl rfl)

theorem inv_write {side : Side} {h : Hist} {s s' : State} {id n : Nat} {out : Out}
    (i : InvV side h s.vw) (hs : step s (.write id n) = some (s', out)) :
    InvV side ((.write id n, out) :: h) s'.vw := by
  unstep hs
  obtain ⟨s1, r, h1, rfl, rfl⟩ := hs
  cases r with
  | error e =>
    have f := write_err h1
    obtain ⟨i1, i2, i3, i4, i5, i6, i7, i8⟩ := i
    have hc := f.v.core
    refine ⟨by rw [hc]; exact i1, by rw [hc]; exact i2, fun d => by rw [hc]; exact i3 d,
      by rw [hc]; exact i4, by rw [hc]; exact i5, fun d => by rw [hc]; exact i6 d, ?_, ?_⟩
    · intro k c hk
      rcases f.v.rel k c hk with hh | hh
      · exact i7 k c hh
      · subst hh; exact ⟨Nat.zero_le _, i8 k⟩
    · intro k; rw [hc]; exact i8 k
  | ok k =>
    obtain ⟨x, s0, hg, _, hle, _, _, hoff, _, _, hk, hcore, hcv, _⟩ := write_ok h1
    obtain ⟨f0, hx0, hor⟩ := getOrInsertSend_spec hg
    obtain ⟨i1, i2, i3, i4, i5, i6, i7, i8⟩ := i
    have hc0 := f0.v.core
    simp only [State.vw] at hc0 i1 i2 i3 i4 i5 i6 i8 ⊢
    have hk1 : k ≤ x.maxData - x.pending.offset := by
      rw [hk]; simp only [natMin_eq]; omega
    have hk2 : k ≤ s.maxData - s.dataSent := by
      rw [hk]; simp only [natMin_eq, Gen.writeLimit]; omega
    -- credit of the half before the write
    have hxc : x.pending.offset ≤ x.maxData ∧ x.maxData ≤ peerStreamLimit side id h := by
      rcases hor with hh | ⟨_, hh⟩
      · have := i7 id x.credit (by simp only [State.vw, State.cv, hh])
        exact this
      · subst hh; exact ⟨Nat.zero_le _, i8 id⟩
    have hds : s0.dataSent = s.dataSent := congrArg Core.dataSent hc0
    have hmd : s0.maxData = s.maxData := congrArg Core.maxData hc0
    refine ⟨?_, ?_, ?_, ?_, ?_, ?_, ?_, ?_⟩
    · rw [hcore]; exact (congrArg Core.side hc0).trans i1
    · rw [hcore]; simp only [peerMaxData]; exact (congrArg Core.maxData hc0).trans i2
    · intro d; rw [hcore]; simp only [peerMaxStreams]
      exact (congrArg (fun c => c.max.get d) hc0).trans (i3 d)
    · rw [hcore]; simp only [totalAccepted, State.core]
      rw [hds]; simp only [State.core] at i4; omega
    · rw [hcore]; simp only [State.core]; rw [hds, hmd]; simp only [State.core] at i5; omega
    · intro d; rw [hcore]
      have e1 : s0.next.get d = s.next.get d := congrArg (fun c => c.next.get d) hc0
      have e2 : s0.max.get d = s.max.get d := congrArg (fun c => c.max.get d) hc0
      have := i6 d
      simp only [State.core] at this ⊢
      omega
    · intro j c hj
      simp only [peerStreamLimit]
      simp only [] at hj
      rw [hcv j] at hj
      by_cases hji : j = id
      · subst hji
        simp only [↓reduceIte, Option.some.injEq] at hj; subst hj
        exact ⟨by simp only; omega, hxc.2⟩
      · simp only [hji, ↓reduceIte] at hj
        rcases f0.v.rel j c hj with hh | hh
        · exact i7 j c hh
        · subst hh; exact ⟨Nat.zero_le _, i8 j⟩
    · intro j; simp only [peerStreamLimit]
      have : s1.core.maxSendData j = s.core.maxSendData j := by
        rw [hcore]
        have := congrArg (fun c => c.maxSendData j) hc0
        simpa [Core.maxSendData, State.core] using this
      rw [this]; exact i8 j

theorem sidInitiator_sidNew (sd : Side) (d : Dir) (j : Nat) : sidInitiator (sidNew sd d j) = sd := by
  cases sd <;> cases d <;> simp [sidInitiator, sidNew, Side.toNat, Dir.toNat] <;> omega

theorem sidDir_sidNew (sd : Side) (d : Dir) (j : Nat) : sidDir (sidNew sd d j) = d := by
  cases sd <;> cases d <;> simp [sidDir, sidNew, Side.toNat, Dir.toNat] <;> omega

theorem sidIndex_sidNew (sd : Side) (d : Dir) (j : Nat) : sidIndex (sidNew sd d j) = j := by
  cases sd <;> cases d <;> simp [sidIndex, sidNew, Side.toNat, Dir.toNat] <;> omega

theorem setParamsLoop_find (side : Side) (v : Nat) : ∀ (n : Nat) (send : Map (Option Send)) (i k : Nat) (x' : Send),
    (setParamsLoop side v send n i).find? k = some (some x') →
    ∃ x, send.find? k = some (some x) ∧
      (x' = x ∨ (x' = { x with maxData := v } ∧ sidInitiator k = side.not ∧ sidDir k = .bi)) := by
  intro n
  induction n with
  | zero => intro send i k x' h; exact ⟨x', h, Or.inl rfl⟩
  | succ n ih =>
    intro send i k x' h
    unfold setParamsLoop at h
    dsimp only at h
    obtain ⟨x1, h1, hx1⟩ := ih _ _ _ _ h
    split at h1
    · rename_i snd hs
      by_cases hk : k = sidNew side.not .bi i
      · subst hk
        rw [Map.find?_set_self _ _ _ _ hs] at h1
        simp only [Option.some.injEq] at h1; subst h1
        refine ⟨snd, hs, Or.inr ⟨?_, sidInitiator_sidNew _ _ _, sidDir_sidNew _ _ _⟩⟩
        rcases hx1 with rfl | ⟨rfl, _⟩ <;> rfl
      · rw [Map.find?_set_ne _ _ _ _ hk] at h1
        exact ⟨x1, h1, hx1⟩
    · exact ⟨x1, h1, hx1⟩

/-- `set_params` is admissible in state `s`: it does not lower a stream-count limit, and it does not
    put the limit of a peer-initiated bidirectional stream below what was already written on it
    (at the real call sites no such stream has been used yet) -/
structure ParamsOk (s : State) (p : Params) : Prop where
  streams : ∀ d, s.max.get d ≤ p.maxStreams d
  remoteBidi : ∀ id x, s.send.find? id = some (some x) → sidInitiator id = s.side.not → sidDir id = .bi →
    x.pending.offset ≤ p.initialMaxStreamDataBidiLocal

theorem side_ne_not (a b : Side) : (a != b) = true ↔ b = a.not := by
  cases a <;> cases b <;> simp [Side.not]

theorem inv_params {side : Side} {h : Hist} {s : State} {p : Params} (out : Out)
    (i : InvV side h s.vw) (ok : ParamsOk s p) :
    InvV side ((.params p, out) :: h) (s.setParams p).vw := by
  obtain ⟨i1, i2, i3, i4, i5, i6, i7, i8⟩ := i
  simp only [State.vw, State.core] at i1 i2 i3 i4 i5 i6 i8
  have hlim : ∀ k, (s.setParams p).core.maxSendData k = p.limitFor side k := by
    intro k
    simp only [State.setParams, State.receivedMaxData, State.core, Core.maxSendData, Params.limitFor, i1]
    rfl
  refine ⟨i1, ?_, ?_, i4, ?_, ?_, ?_, ?_⟩
  · simp only [State.vw, State.core, State.setParams, State.receivedMaxData, peerMaxData, i2, Nat.max_comm]
  · intro d
    simp only [State.vw, State.core, State.setParams, State.receivedMaxData, peerMaxStreams]
    have := ok.streams d
    have h3 := i3 d
    cases d <;> simp only [Two.get, Params.maxStreams, natMax_eq] at this h3 ⊢ <;> omega
  · simp only [State.vw, State.core, State.setParams, State.receivedMaxData, natMax_eq]; omega
  · intro d
    simp only [State.vw, State.core, State.setParams, State.receivedMaxData]
    have := ok.streams d
    have h6 := i6 d
    cases d <;> simp only [Two.get, Params.maxStreams] at this h6 ⊢ <;> omega
  · intro k c hc
    simp only [State.vw, State.cv, State.setParams, State.receivedMaxData] at hc
    split at hc
    · rename_i x' hx'
      simp only [Option.some.injEq] at hc; subst hc
      obtain ⟨x, hx, hor⟩ := setParamsLoop_find _ _ _ _ _ _ _ hx'
      have hold := i7 k x.credit (by simp only [State.vw, State.cv, hx])
      simp only [peerStreamLimit, natMax_eq]
      rcases hor with rfl | ⟨rfl, hi, hd⟩
      · exact ⟨hold.1, by omega⟩
      · have hoff := ok.remoteBidi k x hx hi hd
        have hl : p.limitFor side k = p.initialMaxStreamDataBidiLocal := by
          simp only [Params.limitFor, hd, hi, ← i1]
          cases s.side <;> simp [Side.not]
        simp only [Send.credit]
        exact ⟨hoff, by omega⟩
    · simp at hc
  · intro k
    simp only [State.vw]
    rw [hlim k]
    simp only [peerStreamLimit, natMax_eq]; omega

end QM.Streams
