import QuinnModel.Conn.FrameRules
import QuinnModel.Lemmas.CidQueue
import QuinnModel.Lemmas.CidState
import QuinnModel.Lemmas.AckFrequency
/- Proofs about the frame admissibility / error-class table (C03). -/
namespace QM.FrameRules
open QM QM.Wire QM.Streams

/-! ### §12.4: frames outside the set of Initial / Handshake packets -/

theorem early_forbidden (server : Bool) (sp : Space) (fl : ConnFlags) (f : Frame) (hsp : sp ≠ .data)
    (hk : earlyAccepted (kindOf f) = false) : verdict server sp fl f = .error [Gen.frProtocolViolation] := by
  cases sp with
  | data => exact absurd rfl hsp
  | initial => simp only [verdict, hk]; rfl
  | handshake => simp only [verdict, hk]; rfl

theorem early_accepted (server : Bool) (sp : Space) (fl : ConnFlags) (f : Frame)
    (hk : earlyAccepted (kindOf f) = true) : verdict server sp fl f = dataVerdict server sp fl f := by
  cases sp <;> simp [verdict, hk]

theorem data_space_all (server : Bool) (fl : ConnFlags) (f : Frame) :
    verdict server .data fl f = dataVerdict server .data fl f := rfl

/-! ### the frame loop -/

section seq
variable {σ : Type} (server : Bool) (sp : Space) (flagsOf : σ → Frame → ConnFlags) (apply : σ → Frame → σ)

/-- the frame is not rejected: the loop goes on -/
def Passes (s : σ) (f : Frame) : Prop :=
  (∀ cs, verdict server sp (flagsOf s f) f ≠ .error cs) ∧ verdict server sp (flagsOf s f) f ≠ .panic

theorem processSeq_pass (s : σ) (f : Frame) (rest : List Frame) (hp : Passes server sp flagsOf s f) :
    processSeq server sp flagsOf apply s (f :: rest) = processSeq server sp flagsOf apply (apply s f) rest := by
  conv => lhs; unfold processSeq
  cases hv : verdict server sp (flagsOf s f) f with
  | error cs => exact absurd hv (hp.1 cs)
  | panic => exact absurd hv hp.2
  | ok => rfl
  | ignore => rfl
  | may cs => rfl

theorem processSeq_reject (s : σ) (f : Frame) (rest : List Frame) (cs : List Code)
    (hv : verdict server sp (flagsOf s f) f = .error cs) :
    processSeq server sp flagsOf apply s (f :: rest) = (s, some cs) := by
  conv => lhs; unfold processSeq
  rw [hv]

theorem passes_or_rejected (s : σ) (f : Frame) :
    Passes server sp flagsOf s f ∨ (∃ cs, verdict server sp (flagsOf s f) f = .error cs) ∨
      verdict server sp (flagsOf s f) f = .panic := by
  cases hv : verdict server sp (flagsOf s f) f with
  | error cs => exact Or.inr (Or.inl ⟨cs, rfl⟩)
  | panic => exact Or.inr (Or.inr rfl)
  | ok => exact Or.inl ⟨fun cs h => by simp [hv] at h, by simp [hv]⟩
  | ignore => exact Or.inl ⟨fun cs h => by simp [hv] at h, by simp [hv]⟩
  | may cs => exact Or.inl ⟨fun cs h => by simp [hv] at h, by simp [hv]⟩

/-- the loop ran to the end: every frame was applied, in order -/
theorem processSeq_none : ∀ (fs : List Frame) (s : σ),
    (processSeq server sp flagsOf apply s fs).2 = none →
    (processSeq server sp flagsOf apply s fs).1 = fs.foldl apply s
  | [], _, _ => rfl
  | f :: rest, s, h => by
    rcases passes_or_rejected server sp flagsOf s f with hp | ⟨cs, hv⟩ | hv
    · rw [processSeq_pass server sp flagsOf apply s f rest hp] at h ⊢
      exact processSeq_none rest (apply s f) h
    · rw [processSeq_reject server sp flagsOf apply s f rest cs hv] at h; simp at h
    · have hr : processSeq server sp flagsOf apply s (f :: rest) = (s, some []) := by
        conv => lhs; unfold processSeq
        rw [hv]
      rw [hr] at h; simp at h

/-- the loop was ended by an error: it is the error of the FIRST frame that does not pass, judged in the state reached by
    applying exactly the frames before it; nothing after it is applied -/
theorem processSeq_some : ∀ (fs : List Frame) (s : σ) (cs : List Code),
    (processSeq server sp flagsOf apply s fs).2 = some cs →
    ∃ pre f post, fs = pre ++ f :: post ∧
      (processSeq server sp flagsOf apply s pre).2 = none ∧
      (processSeq server sp flagsOf apply s fs).1 = pre.foldl apply s ∧
      (verdict server sp (flagsOf (pre.foldl apply s) f) f = .error cs ∨
        (verdict server sp (flagsOf (pre.foldl apply s) f) f = .panic ∧ cs = []))
  | [], s, cs, h => by simp [processSeq] at h
  | f :: rest, s, cs, h => by
    rcases passes_or_rejected server sp flagsOf s f with hp | ⟨cs', hv⟩ | hv
    · rw [processSeq_pass server sp flagsOf apply s f rest hp] at h
      obtain ⟨pre, g, post, he, hn, hs, hv⟩ := processSeq_some rest (apply s f) cs h
      refine ⟨f :: pre, g, post, by simp [he], ?_, ?_, ?_⟩
      · rw [processSeq_pass server sp flagsOf apply s f pre hp]; exact hn
      · rw [processSeq_pass server sp flagsOf apply s f rest hp]; simpa using hs
      · simpa using hv
    · rw [processSeq_reject server sp flagsOf apply s f rest cs' hv] at h
      have : cs' = cs := by simpa using h
      subst this
      exact ⟨[], f, rest, rfl, rfl, by rw [processSeq_reject server sp flagsOf apply s f rest cs' hv]; rfl, Or.inl hv⟩
    · have hr : processSeq server sp flagsOf apply s (f :: rest) = (s, some []) := by
        conv => lhs; unfold processSeq
        rw [hv]
      rw [hr] at h
      have : cs = [] := by simpa using h.symm
      subst this
      exact ⟨[], f, rest, rfl, rfl, by rw [hr]; rfl, Or.inr ⟨hv, rfl⟩⟩

end seq

/-! ### error codes: only codes from the list of the frame kind -/

/-- `v` yields no code outside `l`, and an error / may verdict names at least one code -/
def CodesIn (v : Verdict) (l : List Code) : Prop :=
  ∀ cs, (v = .error cs ∨ v = .may cs) → cs ≠ [] ∧ ∀ c ∈ cs, c ∈ l

theorem codesIn_ok (l : List Code) : CodesIn .ok l := fun cs h => by rcases h with h | h <;> simp at h
theorem codesIn_ignore (l : List Code) : CodesIn .ignore l := fun cs h => by rcases h with h | h <;> simp at h
theorem codesIn_panic (l : List Code) : CodesIn .panic l := fun cs h => by rcases h with h | h <;> simp at h
theorem codesIn_error1 (c : Code) (l : List Code) (h : c ∈ l) : CodesIn (.error [c]) l := fun cs hc => by
  rcases hc with hc | hc
  · injection hc with hc; subst hc; exact ⟨by simp, by simpa using h⟩
  · simp at hc

theorem terr_stream (e : TErr) : codeOfTErr e ∈ kindCodes .stream := by
  cases e <;> simp [codeOfTErr, kindCodes]

theorem streamV_codes (server : Bool) (fl : ConnFlags) (id off len : Nat) (fin : Bool) :
    CodesIn (streamV server fl id off len fin) (kindCodes .stream) := by
  unfold streamV
  split
  · exact codesIn_error1 _ _ (terr_stream _)
  · split
    · exact codesIn_ignore _
    · split
      · exact codesIn_ignore _
      · split
        · exact codesIn_panic _
        · exact codesIn_error1 _ _ (terr_stream _)
        · exact codesIn_ok _

theorem resetV_codes (server : Bool) (fl : ConnFlags) (id code fo : Nat) :
    CodesIn (resetV server fl id code fo) (kindCodes .resetStream) := by
  unfold resetV
  split
  · exact codesIn_error1 _ _ (terr_stream _)
  · split
    · exact codesIn_ignore _
    · split
      · exact codesIn_panic _
      · exact codesIn_error1 _ _ (terr_stream _)
      · exact codesIn_ignore _
      · exact codesIn_ok _

theorem maxStreamDataV_codes (server : Bool) (fl : ConnFlags) (id : Nat) :
    CodesIn (maxStreamDataV server fl id) (kindCodes .maxStreamData) := by
  unfold maxStreamDataV
  split
  · exact codesIn_error1 _ _ (by decide)
  · split
    · exact codesIn_error1 _ _ (by decide)
    · split
      · exact codesIn_ok _
      · split
        · exact codesIn_error1 _ _ (by decide)
        · exact codesIn_ignore _

theorem stopSendingV_codes (server : Bool) (fl : ConnFlags) (id : Nat) :
    CodesIn (stopSendingV server fl id) (kindCodes .stopSending) := by
  unfold stopSendingV
  split
  · split
    · exact codesIn_error1 _ _ (by decide)
    · split
      · exact codesIn_ok _
      · exact codesIn_ignore _
  · split
    · exact codesIn_error1 _ _ (by decide)
    · split
      · exact codesIn_ok _
      · exact codesIn_ignore _

theorem ackV_codes (sp : Space) (fl : ConnFlags) (largest first : Nat) (blocks : List (Nat × Nat)) :
    CodesIn (ackV sp fl largest first blocks) (kindCodes .ack) := by
  unfold ackV
  split
  · exact codesIn_error1 _ _ (by decide)
  · split
    · split
      · exact codesIn_error1 _ _ (by decide)
      · exact codesIn_ok _
    · exact codesIn_ok _

theorem cryptoV_codes (sp : Space) (fl : ConnFlags) (off len : Nat) :
    CodesIn (cryptoV sp fl off len) (kindCodes .crypto) := by
  unfold cryptoV
  simp only
  split
  · exact codesIn_error1 _ _ (by decide)
  · split
    · exact codesIn_error1 _ _ (by decide)
    · split
      · exact codesIn_ok _
      · intro cs h
        rcases h with h | h
        · simp at h
        · injection h with h; subst h; exact ⟨by simp, by decide⟩

theorem retireCidV_codes (fl : ConnFlags) (seq : Nat) : CodesIn (retireCidV fl seq) (kindCodes .retireConnectionId) := by
  unfold retireCidV
  split
  · exact codesIn_ok _
  · rename_i c k h
    have := (CidState.onCidRetirement_err _ seq 0 _ c k (Prod.ext rfl h)).2
    subst this
    exact codesIn_error1 _ _ (by decide)

theorem datagramV_codes (fl : ConnFlags) (d : Bytes) : CodesIn (datagramV fl d) (kindCodes .datagram) := by
  unfold datagramV
  split
  · exact codesIn_ok _
  · exact codesIn_error1 _ _ (by decide)
  · exact codesIn_error1 _ _ (by decide)
  · exact codesIn_panic _

theorem ackFrequencyV_codes (fl : ConnFlags) (seq aet req reord : Nat) :
    CodesIn (ackFrequencyV fl seq aet req reord) (kindCodes .ackFrequency) := by
  unfold ackFrequencyV
  rw [AckFrequency.recv_decision]
  by_cases h1 : ∃ h, (⟨none, 0, 0, fl.ackFreqLast, 0⟩ : AckFrequency.State).lastFrame = some h ∧ seq ≤ h
  · simp only [h1, if_true]; exact codesIn_ignore _
  · simp only [h1, if_false]
    by_cases h2 : req * 1000 < Gen.timerGranularityNs
    · simp only [h2, if_true]; exact codesIn_error1 _ _ (by decide)
    · simp only [h2, if_false]; exact codesIn_ok _

/-- NEW_CONNECTION_ID: under the ring invariant (which `cidq_no_panic` shows to hold along every run) -/
theorem newCidV_codes (fl : ConnFlags) (hI : CidQueue.Inv fl.cid.q) (seq rpt : Nat) (cid tok : Bytes) (h2 : seq < 2 ^ 62) :
    CodesIn (newCidV fl seq rpt cid tok) (kindCodes .newConnectionId) ∧ newCidV fl seq rpt cid tok ≠ .panic := by
  obtain ⟨a, ha⟩ := CidQueue.active_some fl.cid.q hI
  have hd := CidQueue.onNewConnectionId_decision fl.cid hI seq rpt cid tok h2 a ha
  unfold newCidV
  rw [hd]
  unfold CidQueue.ncidSpec
  constructor
  · split
    · exact codesIn_ok _
    · exact codesIn_ignore _
    · rename_i c k h
      have hc : c = Gen.frProtocolViolation ∨ c = Gen.frConnectionIdLimitError := by
        revert h
        repeat' split
        all_goals (intro h; first | (injection h with h1 _; subst h1; first | exact Or.inl rfl | exact Or.inr rfl) | simp at h)
      rcases hc with hc | hc <;> subst hc <;> exact codesIn_error1 _ _ (by decide)
    · exact codesIn_panic _
  · have hp := (CidQueue.onNewConnectionId_inv fl.cid hI seq rpt cid tok h2).1
    rw [hd] at hp
    unfold CidQueue.ncidSpec at hp
    intro hv
    split at hv <;> simp_all

theorem codesIn_mono {v : Verdict} {l l' : List Code} (h : CodesIn v l) (hs : ∀ c ∈ l, c ∈ l') : CodesIn v l' :=
  fun cs hc => ⟨(h cs hc).1, fun c hm => hs c ((h cs hc).2 c hm)⟩

theorem rms_err (s : State) (d : Dir) (c : Nat) (e : TErr) (h : (s.receivedMaxStreams d c).2 = some e) :
    codeOfTErr e = Gen.frFrameEncodingError := by
  unfold State.receivedMaxStreams at h
  split at h
  · simp at h; subst h; rfl
  · split at h <;> simp at h

theorem dataVerdict_codes (server : Bool) (sp : Space) (fl : ConnFlags) (f : Frame) (hI : CidQueue.Inv fl.cid.q)
    (hw : Frame.wellFormed f) : CodesIn (dataVerdict server sp fl f) (kindCodes (kindOf f)) := by
  cases f with
  | padding => exact codesIn_ok _
  | ping => exact codesIn_ok _
  | ack largest delay first blocks ecn => exact ackV_codes sp fl largest first blocks
  | resetStream id code fo => exact resetV_codes server fl id code fo
  | stopSending id code => exact stopSendingV_codes server fl id
  | crypto off d => exact cryptoV_codes sp fl off d.length
  | newToken token =>
    simp only [dataVerdict, kindOf]
    split
    · exact codesIn_error1 _ _ (by decide)
    · split
      · exact codesIn_error1 _ _ (by decide)
      · exact codesIn_ok _
  | stream id off fin d => exact streamV_codes server fl id off d.length fin
  | maxData v => exact codesIn_ok _
  | maxStreamData id off => exact maxStreamDataV_codes server fl id
  | maxStreams uni count =>
    simp only [dataVerdict, kindOf]
    split
    · rename_i e h
      rw [rms_err _ _ _ e h]
      exact codesIn_error1 _ _ (by decide)
    · exact codesIn_ok _
  | dataBlocked v => exact codesIn_ok _
  | streamDataBlocked id off =>
    simp only [dataVerdict, kindOf]
    split
    · exact codesIn_error1 _ _ (by decide)
    · exact codesIn_ok _
  | streamsBlocked uni limit =>
    simp only [dataVerdict, kindOf]
    split
    · exact codesIn_error1 _ _ (by decide)
    · exact codesIn_ok _
  | newConnectionId seq rpt cid tok => exact (newCidV_codes fl hI seq rpt cid tok hw.1).1
  | retireConnectionId seq => exact retireCidV_codes fl seq
  | pathChallenge t => exact codesIn_ok _
  | pathResponse t =>
    simp only [dataVerdict]
    split
    · exact codesIn_ok _
    · exact codesIn_ignore _
  | closeConn c ft r => exact codesIn_ok _
  | closeApp c r => exact codesIn_ok _
  | datagram d => exact datagramV_codes fl d
  | ackFrequency a b c d => exact ackFrequencyV_codes fl a b c d
  | immediateAck => exact codesIn_ok _
  | handshakeDone =>
    simp only [dataVerdict, kindOf]
    split
    · exact codesIn_error1 _ _ (by decide)
    · exact codesIn_ok _

theorem verdict_codes (server : Bool) (sp : Space) (fl : ConnFlags) (f : Frame) (hI : CidQueue.Inv fl.cid.q)
    (hw : Frame.wellFormed f) : CodesIn (verdict server sp fl f) (allowedCodes sp (kindOf f)) := by
  cases sp with
  | data => exact dataVerdict_codes server .data fl f hI hw
  | initial =>
    simp only [verdict, allowedCodes]
    split
    · exact codesIn_mono (dataVerdict_codes server .initial fl f hI hw) (fun c h => List.mem_cons_of_mem _ h)
    · exact codesIn_error1 _ _ (by simp; left; rfl)
  | handshake =>
    simp only [verdict, allowedCodes]
    split
    · exact codesIn_mono (dataVerdict_codes server .handshake fl f hI hw) (fun c h => List.mem_cons_of_mem _ h)
    · exact codesIn_error1 _ _ (by simp; left; rfl)

/-- every code the table can produce is an RFC 9000 transport error code (or the TLS-alert class) -/
theorem allowedCodes_rfc (sp : Space) (k : Kind) : ∀ c ∈ allowedCodes sp k, c ∈ allCodes := by
  cases sp <;> cases k <;> decide

/-! ### ok / ignore never produce a code -/

theorem admissible_all_pass (server : Bool) : ∀ (its : List Item),
    (∀ it ∈ its, (itemVerdict server it).1 = .ok ∨ (itemVerdict server it).1 = .ignore) →
    admissible server its = ([], true)
  | [], _ => rfl
  | it :: rest, h => by
    have hr := admissible_all_pass server rest (fun x hx => h x (List.mem_cons_of_mem _ hx))
    have h0 := h it (List.mem_cons_self ..)
    unfold admissible
    rcases hv : itemVerdict server it with ⟨v, stop⟩
    rw [hv] at h0
    rcases h0 with h0 | h0 <;> simp only at h0 <;> subst h0 <;> cases stop <;> simp [hr]

/-! ### no panic outcome -/

theorem creditConsumedBy_some (r : Recv) (offset received maxData : Nat) (ho : offset < 2 ^ 62) (hr : received < 2 ^ 63) :
    r.creditConsumedBy offset received maxData ≠ none := by
  unfold Recv.creditConsumedBy
  simp only [Gen.creditNewBytes, addU]
  split
  · simp
  · have : received + (offset - r.end_) < 2 ^ 64 := by omega
    simp only [this, if_true]
    split <;> simp

theorem ingest_some (r : Recv) (off len : Nat) (fin : Bool) (received maxData : Nat) (hr : received < 2 ^ 63) :
    r.ingest off len fin received maxData ≠ none := by
  unfold Recv.ingest
  split
  · simp
  · rename_i hb
    split
    · simp
    · unfold Recv.ingestTail
      simp only [Gen.ingestEndBound, ge_iff_le, Nat.not_le] at hb
      have hc := creditConsumedBy_some r (off + len) received maxData hb hr
      simp only
      split
      · rename_i h; exact absurd h hc
      · simp
      · simp

theorem reset_some (r : Recv) (code fo received maxData : Nat) (hf : fo < 2 ^ 62) (hr : received < 2 ^ 63) :
    r.reset code fo received maxData ≠ none := by
  unfold Recv.reset
  split
  · simp
  · unfold Recv.resetTail
    have hc := creditConsumedBy_some r fo received maxData hf hr
    split
    · simp
    split
    · rename_i h; exact absurd h hc
    · simp
    · split <;> simp

theorem datagram_received_decided (d : Bytes) (w : Option Nat) :
    (∃ b, (Datagrams.received Datagrams.init d w).2 = .rcvOk b) ∨ (∃ e, (Datagrams.received Datagrams.init d w).2 = .rcvErr e) := by
  unfold Datagrams.received
  cases w with
  | none => exact Or.inr ⟨_, rfl⟩
  | some w =>
    simp only [Gen.dgOversized]
    by_cases h : d.length > w
    · simp only [h, decide_true, if_true]; exact Or.inr ⟨_, rfl⟩
    · simp only [h, decide_false, Bool.false_eq_true, if_false]
      by_cases hc : Gen.dgCostTooBig (Datagrams.recvCost d) w = true
      · simp only [hc, if_true]; exact Or.inl ⟨_, rfl⟩
      · have hc' : Gen.dgCostTooBig (Datagrams.recvCost d) w = false := by simpa using hc
        have hcw : Datagrams.recvCost d ≤ w := by simpa [Gen.dgCostTooBig] using hc'
        have hm : Gen.dgMustEvict (Datagrams.recvCost d) Datagrams.init.recvBuffered w = false := by
          simp only [Gen.dgMustEvict, Datagrams.init]; simp; omega
        simp only [hc', Bool.false_eq_true, if_false]
        simp only [Datagrams.init, List.length_nil, Nat.zero_add, Datagrams.evict] at hm ⊢
        simp only [hm, Bool.false_eq_true, if_false]
        exact Or.inl ⟨_, rfl⟩

/-- facts in the range the implementation's `u64` counters and the varint decoder guarantee -/
structure FlagsOk (fl : ConnFlags) : Prop where
  cid : CidQueue.Inv fl.cid.q
  dataRecvd : fl.dataRecvd < 2 ^ 63

theorem dataVerdict_no_panic (server : Bool) (sp : Space) (fl : ConnFlags) (f : Frame) (hf : FlagsOk fl)
    (hw : Frame.wellFormed f) : dataVerdict server sp fl f ≠ .panic := by
  cases f with
  | stream id off fin d =>
    simp only [dataVerdict, streamV]
    have := ingest_some (recvOf fl) off d.length fin fl.dataRecvd fl.localMaxData hf.dataRecvd
    repeat' split
    all_goals simp_all
  | resetStream id code fo =>
    simp only [dataVerdict, resetV]
    have := reset_some (recvOf fl) code fo fl.dataRecvd fl.localMaxData hw.2.2 hf.dataRecvd
    repeat' split
    all_goals simp_all
  | newConnectionId seq rpt cid tok => exact (newCidV_codes fl hf.cid seq rpt cid tok hw.1).2
  | datagram d =>
    simp only [dataVerdict, datagramV]
    rcases datagram_received_decided d fl.dgramWindow with ⟨b, h⟩ | ⟨e, h⟩
    · rw [h]; simp
    · rw [h]; cases e <;> simp
  | ack largest delay first blocks ecn =>
    simp only [dataVerdict, ackV]
    split
    · simp
    · split
      · split <;> simp
      · simp
  | crypto off d =>
    simp only [dataVerdict, cryptoV]
    split
    · simp
    · split
      · simp
      · split <;> simp
  | stopSending id code =>
    simp only [dataVerdict, stopSendingV]
    split
    · split
      · simp
      · split <;> simp
    · split
      · simp
      · split <;> simp
  | maxStreamData id off =>
    simp only [dataVerdict, maxStreamDataV]
    split
    · simp
    · split
      · simp
      · split
        · simp
        · split <;> simp
  | retireConnectionId seq => simp only [dataVerdict, retireCidV]; split <;> simp
  | ackFrequency a b c d => simp only [dataVerdict, ackFrequencyV]; split <;> simp
  | maxStreams uni count => simp only [dataVerdict]; split <;> simp
  | streamDataBlocked id off => simp only [dataVerdict]; split <;> simp
  | streamsBlocked uni limit => simp only [dataVerdict]; split <;> simp
  | pathResponse t => simp only [dataVerdict]; split <;> simp
  | newToken token =>
    simp only [dataVerdict]
    split
    · simp
    · split <;> simp
  | handshakeDone => simp only [dataVerdict]; split <;> simp
  | padding => simp [dataVerdict]
  | ping => simp [dataVerdict]
  | maxData v => simp [dataVerdict]
  | dataBlocked v => simp [dataVerdict]
  | pathChallenge t => simp [dataVerdict]
  | closeConn c ft r => simp [dataVerdict]
  | closeApp c r => simp [dataVerdict]
  | immediateAck => simp [dataVerdict]

theorem verdict_no_panic (server : Bool) (sp : Space) (fl : ConnFlags) (f : Frame) (hf : FlagsOk fl)
    (hw : Frame.wellFormed f) : verdict server sp fl f ≠ .panic := by
  cases sp with
  | data => exact dataVerdict_no_panic server .data fl f hf hw
  | initial => simp only [verdict]; split; exact dataVerdict_no_panic server .initial fl f hf hw; simp
  | handshake => simp only [verdict]; split; exact dataVerdict_no_panic server .handshake fl f hf hw; simp

end QM.FrameRules
