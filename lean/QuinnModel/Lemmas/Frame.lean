import QuinnModel.Lemmas.Parser
import QuinnModel.Wire.Frame
/-
Proofs about the frame model: round trip for every kind, totality / suffix property of the decoder,
absence of decoder panics, termination of the iteration, close truncation, size bounds.
-/
namespace QM.Wire.Frame
open QM QM.Wire QM.Wire.P

attribute [local simp] Gen.ftPadding Gen.ftPing Gen.ftAck Gen.ftAckEcn Gen.ftResetStream Gen.ftStopSending Gen.ftCrypto
  Gen.ftNewToken Gen.ftMaxData Gen.ftMaxStreamData Gen.ftMaxStreamsBidi Gen.ftMaxStreamsUni Gen.ftDataBlocked
  Gen.ftStreamDataBlocked Gen.ftStreamsBlockedBidi Gen.ftStreamsBlockedUni Gen.ftNewConnectionId
  Gen.ftRetireConnectionId Gen.ftPathChallenge Gen.ftPathResponse Gen.ftConnectionClose Gen.ftApplicationClose
  Gen.ftHandshakeDone Gen.ftAckFrequency Gen.ftImmediateAck
  Gen.streamTysLo Gen.streamTysHi Gen.datagramTysLo Gen.datagramTysHi Gen.streamFinMask Gen.streamLenMask
  Gen.streamOffMask Gen.datagramLenMask Gen.streamEncOffBit Gen.streamEncLenBit Gen.streamEncFinBit
  Gen.datagramEncLenBit

/-- the statement proved for every kind -/
def RT (f : Frame) : Prop :=
  ∀ r : Bytes, ∃ e, encode f = some e ∧ decodeOne (e ++ r) = .ok (f, r)

/-! ### simple kinds -/

/-- `∃ e, enc = some e ∧ dec (e ++ r) = ok ..`: compute the encoding (assigning `e`), then run the decoder -/
macro "rt_go" : tactic => `(tactic|
  (refine Exists.intro ?_ (And.intro ?_ ?_)
   rotate_left
   · simp [encode, encodeLast, encodeWith, streamTy, datagramTy, wEcn, wVar_some, *]
     rfl
   · simp [decodeOne, decodeBody, streamInfo, datagramInfo, takeLen, getVar_enc, takeN_append, getU64_be, *]))

macro "rt_simple" : tactic => `(tactic| (intro r; rt_go))

theorem rt_padding : RT .padding := by rt_simple
theorem rt_ping : RT .ping := by rt_simple
theorem rt_immediateAck : RT .immediateAck := by rt_simple
theorem rt_handshakeDone : RT .handshakeDone := by rt_simple

theorem rt_resetStream (id code fo : Nat) (h1 : id < 2^62) (h2 : code < 2^62) (h3 : fo < 2^62) :
    RT (.resetStream id code fo) := by rt_simple

theorem rt_stopSending (id code : Nat) (h1 : id < 2^62) (h2 : code < 2^62) : RT (.stopSending id code) := by
  rt_simple

theorem rt_crypto (off : Nat) (d : Bytes) (h1 : off < 2^62) (h2 : d.length < 2^62) : RT (.crypto off d) := by
  rt_simple

theorem rt_newToken (t : Bytes) (h : t.length < 2^62) : RT (.newToken t) := by rt_simple

theorem rt_maxData (v : Nat) (h : v < 2^62) : RT (.maxData v) := by rt_simple

theorem rt_maxStreamData (id off : Nat) (h1 : id < 2^62) (h2 : off < 2^62) : RT (.maxStreamData id off) := by
  rt_simple

theorem rt_maxStreams (uni : Bool) (c : Nat) (h : c < 2^62) : RT (.maxStreams uni c) := by
  cases uni <;> rt_simple

theorem rt_dataBlocked (off : Nat) (h : off < 2^62) : RT (.dataBlocked off) := by rt_simple

theorem rt_streamDataBlocked (id off : Nat) (h1 : id < 2^62) (h2 : off < 2^62) :
    RT (.streamDataBlocked id off) := by rt_simple

theorem rt_streamsBlocked (uni : Bool) (c : Nat) (h : c < 2^62) : RT (.streamsBlocked uni c) := by
  cases uni <;> rt_simple

theorem rt_retireConnectionId (s : Nat) (h : s < 2^62) : RT (.retireConnectionId s) := by rt_simple

theorem rt_pathChallenge (t : Nat) (h : t < 2^64) : RT (.pathChallenge t) := by rt_simple

theorem rt_pathResponse (t : Nat) (h : t < 2^64) : RT (.pathResponse t) := by rt_simple

theorem rt_ackFrequency (s t d q : Nat) (h1 : s < 2^62) (h2 : t < 2^62) (h3 : d < 2^62) (h4 : q < 2^62) :
    RT (.ackFrequency s t d q) := by rt_simple

theorem rt_datagram (d : Bytes) (h : d.length < 2^62) : RT (.datagram d) := by rt_simple

theorem rt_datagram_last (d : Bytes) :
    ∃ e, encodeLast (.datagram d) = some e ∧ decodeOne e = .ok (.datagram d, []) := by rt_go

/-! ### NEW_CONNECTION_ID -/

theorem takeGuarded_append (c n : Nat) (tok r : Bytes) (h : tok.length = n) (hc : c ≤ n) :
    takeGuarded c n (tok ++ r) = .ok (tok, r) := by
  have h1 : ¬ (tok.length + r.length < c) := by omega
  simp [takeGuarded, h1, takeN_append' _ n tok r h]

theorem decodeBody_ncid : decodeBody Gen.ftNewConnectionId = (do
    let seq ← getVar E
    let retire ← getVar E
    if retire > seq then fail .malformed else do
      let length ← getU8 E
      if length > Gen.wireMaxCidSize ∨ length = 0 then fail .malformed else do
        let id ← takeN E length
        let token ← takeGuarded Gen.ncidTokenCheckLen Gen.wireResetTokenSize
        pure (.newConnectionId seq retire id token)) := by
  simp [decodeBody]

theorem rt_newConnectionId (seq retire : Nat) (id tok : Bytes) (h1 : seq < 2^62) (h2 : retire ≤ seq)
    (h3 : 1 ≤ id.length) (h4 : id.length ≤ 20) (h5 : tok.length = 16) :
    RT (.newConnectionId seq retire id tok) := by
  intro r
  have hr : retire < 2^62 := by omega
  have hm : id.length % 256 = id.length := by omega
  have hc : ¬ (id.length > Gen.wireMaxCidSize ∨ id.length = 0) := by unfold Gen.wireMaxCidSize; omega
  have hs : ¬ (retire > seq) := by omega
  have hg := takeGuarded_append Gen.ncidTokenCheckLen Gen.wireResetTokenSize tok r
    (by simpa [Gen.wireResetTokenSize] using h5) (by decide)
  have ht : Gen.ftNewConnectionId < 2^62 := by decide
  refine Exists.intro ?_ (And.intro ?_ ?_)
  rotate_left
  · simp only [encode, encodeWith, wVar_some ht, wVar_some h1, wVar_some hr, wU8_some, wBytes_some, hm]
    rfl
  · simp only [List.append_assoc, List.nil_append, List.cons_append]
    unfold decodeOne
    rw [bind_ok (getVar_enc _ ht _), decodeBody_ncid, bind_ok (getVar_enc _ h1 _), bind_ok (getVar_enc _ hr _),
      ite_apply', if_neg hs, bind_ok (getU8_cons _ _ _), ite_apply', if_neg hc, bind_ok (takeN_append _ _ _),
      bind_ok hg]
    rfl

/-! ### STREAM -/

theorem rt_stream (id off : Nat) (fin : Bool) (d : Bytes) (h1 : id < 2^62) (h2 : off < 2^62)
    (h3 : d.length < 2^62) : RT (.stream id off fin d) := by
  intro r
  by_cases ho : off = 0 <;> cases fin <;> rt_go

theorem rt_stream_last (id off : Nat) (fin : Bool) (d : Bytes) (h1 : id < 2^62) (h2 : off < 2^62) :
    ∃ e, encodeLast (.stream id off fin d) = some e ∧ decodeOne e = .ok (.stream id off fin d, []) := by
  by_cases ho : off = 0 <;> cases fin <;> rt_go

/-! ### CONNECTION_CLOSE / APPLICATION_CLOSE with truncation -/

theorem sizeOf62_eq {x : Nat} (h : x < 2^62) : sizeOf62 x = some (encB x).length := by
  simp [sizeOf62, VarInt.fromU64, Gen.varintFromU64Bound, h, size_eq_length h]

theorem closeBudget_some {maxLen ov s : Nat} (h : ov + s ≤ maxLen) :
    closeBudget maxLen ov s = some (maxLen - ov - s) := by
  unfold closeBudget
  rw [if_neg (by omega)]

theorem closeBudget_none {maxLen ov s : Nat} (h : maxLen < ov + s) : closeBudget maxLen ov s = none := by
  unfold closeBudget
  rw [if_pos h]

theorem codeBudget_off (code : Nat) : codeBudget 0 code = some 0 := by simp [codeBudget]

theorem codeBudget_on {code : Nat} (h : code < 2^62) : codeBudget 1 code = some (encB code).length := by
  simp [codeBudget, size_eq_length h]

/-- bytes `ConnectionClose::encode` reserves besides the reason: type + (2 for the code) + frame type + length -/
def connFixed (ty : Nat) (reason : Bytes) : Nat := 3 + ((encB ty).length + (encB reason.length).length)

/-- bytes `ApplicationClose::encode` reserves besides the reason: type + error code + length -/
def appFixed (code : Nat) (reason : Bytes) : Nat := 1 + ((encB code).length + (encB reason.length).length)

/-- number of reason bytes `ConnectionClose::encode` keeps under `max_len` -/
def connKeep (maxLen : Nat) (ty : Nat) (reason : Bytes) : Nat :=
  min reason.length (maxLen - connFixed ty reason)

/-- number of reason bytes `ApplicationClose::encode` keeps under `max_len` -/
def appKeep (maxLen code : Nat) (reason : Bytes) : Nat :=
  min reason.length (maxLen - appFixed code reason)

theorem ftRaw_lt (ft : Option Nat) (hft : ∀ x, ft = some x → x < 2^62 ∧ x ≠ 0) : ftRaw ft < 2^62 := by
  cases ft with
  | none => simp [ftRaw]
  | some x => simpa [ftRaw] using (hft x rfl).1

/-- the bytes `ConnectionClose::encode` writes when the budget does not underflow -/
theorem closeConn_enc (withLen : Bool) (maxLen code : Nat) (ft : Option Nat) (reason : Bytes)
    (hc : code < 2^62) (hl : reason.length < 2^62) (hty : ftRaw ft < 2^62)
    (hm : connFixed (ftRaw ft) reason ≤ maxLen) :
    encodeWith withLen maxLen (.closeConn code ft reason) =
      some (encB Gen.ftConnectionClose ++ (encB code ++ (encB (ftRaw ft) ++
        (encB (connKeep maxLen (ftRaw ft) reason) ++ reason.take (connKeep maxLen (ftRaw ft) reason))))) := by
  have hk : connKeep maxLen (ftRaw ft) reason < 2^62 := by unfold connKeep; omega
  have hm' : 3 + (0 + ((encB (ftRaw ft)).length + (encB reason.length).length)) ≤ maxLen := by
    unfold connFixed at hm; omega
  simp only [encodeWith, Gen.closeConnBudgetsCodeSize, codeBudget_off, sizeOf62_eq hty, sizeOf62_eq hl,
    Gen.closeConnOverhead]
  rw [closeBudget_some hm']
  simp only [wVar_some (show Gen.ftConnectionClose < 2^62 by decide), wVar_some hc, wVar_some hty]
  have hkeep : min reason.length (maxLen - 3 - (0 + ((encB (ftRaw ft)).length + (encB reason.length).length)))
      = connKeep maxLen (ftRaw ft) reason := by unfold connKeep connFixed; omega
  simp only [hkeep, wVar_some hk, wBytes_some, List.nil_append, List.append_assoc]

theorem closeConn_none (withLen : Bool) (maxLen code : Nat) (ft : Option Nat) (reason : Bytes)
    (hl : reason.length < 2^62) (hty : ftRaw ft < 2^62) (hm : ¬ connFixed (ftRaw ft) reason ≤ maxLen) :
    encodeWith withLen maxLen (.closeConn code ft reason) = none := by
  have hm' : maxLen < 3 + (0 + ((encB (ftRaw ft)).length + (encB reason.length).length)) := by
    unfold connFixed at hm; omega
  simp only [encodeWith, Gen.closeConnBudgetsCodeSize, codeBudget_off, sizeOf62_eq hty, sizeOf62_eq hl,
    Gen.closeConnOverhead]
  rw [closeBudget_none hm']

/-- the bytes `ApplicationClose::encode` writes when the budget does not underflow -/
theorem closeApp_enc (withLen : Bool) (maxLen code : Nat) (reason : Bytes)
    (hc : code < 2^62) (hl : reason.length < 2^62) (hm : appFixed code reason ≤ maxLen) :
    encodeWith withLen maxLen (.closeApp code reason) =
      some (encB Gen.ftApplicationClose ++ (encB code ++
        (encB (appKeep maxLen code reason) ++ reason.take (appKeep maxLen code reason)))) := by
  have hk : appKeep maxLen code reason < 2^62 := by unfold appKeep; omega
  have hm' : 1 + ((encB code).length + (encB reason.length).length) ≤ maxLen := by
    unfold appFixed at hm; omega
  simp only [encodeWith, Gen.closeAppBudgetsCodeSize, codeBudget_on hc, sizeOf62_eq hl, Gen.closeAppOverhead]
  rw [closeBudget_some hm']
  simp only [wVar_some (show Gen.ftApplicationClose < 2^62 by decide), wVar_some hc]
  have hkeep : min reason.length (maxLen - 1 - ((encB code).length + (encB reason.length).length))
      = appKeep maxLen code reason := by unfold appKeep appFixed; omega
  simp only [hkeep, wVar_some hk, wBytes_some, List.nil_append, List.append_assoc]

theorem closeApp_none (withLen : Bool) (maxLen code : Nat) (reason : Bytes)
    (hc : code < 2^62) (hl : reason.length < 2^62) (hm : ¬ appFixed code reason ≤ maxLen) :
    encodeWith withLen maxLen (.closeApp code reason) = none := by
  have hm' : maxLen < 1 + ((encB code).length + (encB reason.length).length) := by
    unfold appFixed at hm; omega
  simp only [encodeWith, Gen.closeAppBudgetsCodeSize, codeBudget_on hc, sizeOf62_eq hl, Gen.closeAppOverhead]
  rw [closeBudget_none hm']

theorem closeConn_trunc (withLen : Bool) (maxLen code : Nat) (ft : Option Nat) (reason : Bytes)
    (hc : code < 2^62) (hl : reason.length < 2^62) (hft : ∀ x, ft = some x → x < 2^62 ∧ x ≠ 0)
    (hm : connFixed (ftRaw ft) reason ≤ maxLen) (r : Bytes) :
    ∃ e, encodeWith withLen maxLen (.closeConn code ft reason) = some e ∧
      decodeOne (e ++ r) = .ok (.closeConn code ft (reason.take (connKeep maxLen (ftRaw ft) reason)), r) := by
  have hty := ftRaw_lt ft hft
  have hk : connKeep maxLen (ftRaw ft) reason < 2^62 := by unfold connKeep; omega
  have hkl : (reason.take (connKeep maxLen (ftRaw ft) reason)).length = connKeep maxLen (ftRaw ft) reason := by
    rw [List.length_take]; unfold connKeep; omega
  refine ⟨_, closeConn_enc withLen maxLen code ft reason hc hl hty hm, ?_⟩
  have hnone : (if ftRaw ft = 0 then none else some (ftRaw ft)) = ft := by
    cases ft with
    | none => simp [ftRaw]
    | some x => simp [ftRaw, (hft x rfl).2]
  have hx := takeN_append' E _ _ r hkl
  simp [decodeOne, decodeBody, takeLen, getVar_enc, hc, hty, hk, hnone, hx]

theorem closeApp_trunc (withLen : Bool) (maxLen code : Nat) (reason : Bytes)
    (hc : code < 2^62) (hl : reason.length < 2^62) (hm : appFixed code reason ≤ maxLen) (r : Bytes) :
    ∃ e, encodeWith withLen maxLen (.closeApp code reason) = some e ∧
      decodeOne (e ++ r) = .ok (.closeApp code (reason.take (appKeep maxLen code reason)), r) := by
  have hk : appKeep maxLen code reason < 2^62 := by unfold appKeep; omega
  have hkl : (reason.take (appKeep maxLen code reason)).length = appKeep maxLen code reason := by
    rw [List.length_take]; unfold appKeep; omega
  refine ⟨_, closeApp_enc withLen maxLen code reason hc hl hm, ?_⟩
  have hx := takeN_append' E _ _ r hkl
  simp [decodeOne, decodeBody, takeLen, getVar_enc, hc, hk, hx]

theorem rt_closeConn (code : Nat) (ft : Option Nat) (reason : Bytes)
    (hc : code < 2^62) (hl : reason.length < 2^62) (hft : ∀ x, ft = some x → x < 2^62 ∧ x ≠ 0) :
    RT (.closeConn code ft reason) := by
  intro r
  have hty := ftRaw_lt ft hft
  have l1 := (encB_length hty).2
  have l2 := (encB_length hl).2
  have hm : connFixed (ftRaw ft) reason ≤ usizeMax := by unfold connFixed usizeMax; omega
  obtain ⟨e, he, hd⟩ := closeConn_trunc true usizeMax code ft reason hc hl hft hm r
  refine ⟨e, he, ?_⟩
  have : connKeep usizeMax (ftRaw ft) reason = reason.length := by
    unfold connKeep connFixed usizeMax; omega
  rw [hd, this, List.take_length]

theorem rt_closeApp (code : Nat) (reason : Bytes) (hc : code < 2^62) (hl : reason.length < 2^62) :
    RT (.closeApp code reason) := by
  intro r
  have l1 := (encB_length hc).2
  have l2 := (encB_length hl).2
  have hm : appFixed code reason ≤ usizeMax := by unfold appFixed usizeMax; omega
  obtain ⟨e, he, hd⟩ := closeApp_trunc true usizeMax code reason hc hl hm r
  refine ⟨e, he, ?_⟩
  have : appKeep usizeMax code reason = reason.length := by
    unfold appKeep appFixed usizeMax; omega
  rw [hd, this, List.take_length]

/-! ### ACK -/

def encBlocks : List (Nat × Nat) → Bytes
  | [] => []
  | (g, l) :: rest => encB g ++ (encB l ++ encBlocks rest)

theorem wAckBlocks_some (bl : List (Nat × Nat)) : ∀ (s : Nat) (b : Bytes), ackChain s bl →
    wAckBlocks bl (some b) = some (b ++ encBlocks bl) := by
  induction bl with
  | nil => intro s b _; simp [wAckBlocks, encBlocks]
  | cons p rest ih =>
    intro s b h
    obtain ⟨g, l⟩ := p
    obtain ⟨hg, hl, _, hrest⟩ := h
    simp only [wAckBlocks, wVar_some hg, wVar_some hl]
    rw [ih _ _ hrest]
    simp [encBlocks]

theorem scanBlocks_enc (bl : List (Nat × Nat)) : ∀ (s : Nat) (r : Bytes), ackChain s bl →
    scanBlocks bl.length s (encBlocks bl ++ r) = .ok (bl, r) := by
  induction bl with
  | nil => intro s r _; simp [scanBlocks, encBlocks]
  | cons p rest ih =>
    intro s r h
    obtain ⟨g, l⟩ := p
    obtain ⟨hg, hl, hs, hrest⟩ := h
    have h1 : ¬ s < g + 2 := by omega
    have h2 : ¬ s - (g + 2) < l := by omega
    simp only [List.length_cons, scanBlocks, encBlocks, List.append_assoc, bind_apply, getVar_enc _ hg]
    simp only [if_neg h1, bind_apply, getVar_enc _ hl, if_neg h2, ih _ r hrest, pure_apply]

theorem rt_ack (largest delay first : Nat) (bl : List (Nat × Nat)) (ecn : Option (Nat × Nat × Nat))
    (h1 : largest < 2^62) (h2 : delay < 2^62) (h3 : first < 2^62) (h4 : first ≤ largest)
    (h5 : bl.length < 2^62) (h6 : ackChain (largest - first) bl)
    (h7 : ∀ e, ecn = some e → e.1 < 2^62 ∧ e.2.1 < 2^62 ∧ e.2.2 < 2^62) :
    RT (.ack largest delay first bl ecn) := by
  intro r
  have hnl : ¬ largest < first := by omega
  cases ecn with
  | none =>
    refine Exists.intro ?_ (And.intro ?_ ?_)
    rotate_left
    · simp [encode, encodeWith, wVar_some, wAckBlocks_some bl _ _ h6, *]
      rfl
    · simp [decodeOne, decodeBody, scanAck, getVar_enc, scanBlocks_enc bl _ _ h6, *]
  | some e =>
    obtain ⟨a, b, c⟩ := e
    obtain ⟨ha, hb, hc⟩ := h7 _ rfl
    simp only at ha hb hc
    refine Exists.intro ?_ (And.intro ?_ ?_)
    rotate_left
    · simp [encode, encodeWith, wEcn, wVar_some, wAckBlocks_some bl _ _ h6, *]
      rfl
    · simp [decodeOne, decodeBody, scanAck, getVar_enc, scanBlocks_enc bl _ _ h6, *]

/-! ### all kinds -/

theorem roundtrip (f : Frame) (h : wellFormed f) : RT f := by
  cases f <;> simp only [wellFormed, V] at h
  case padding => exact rt_padding
  case ping => exact rt_ping
  case ack l d fst bl ecn =>
    obtain ⟨a, b, c, d', e, g, i⟩ := h
    exact rt_ack _ _ _ _ _ a b c d' e g i
  case resetStream => exact rt_resetStream _ _ _ h.1 h.2.1 h.2.2
  case stopSending => exact rt_stopSending _ _ h.1 h.2
  case crypto => exact rt_crypto _ _ h.1 h.2
  case newToken => exact rt_newToken _ h
  case stream => exact rt_stream _ _ _ _ h.1 h.2.1 h.2.2
  case maxData => exact rt_maxData _ h
  case maxStreamData => exact rt_maxStreamData _ _ h.1 h.2
  case maxStreams => exact rt_maxStreams _ _ h
  case dataBlocked => exact rt_dataBlocked _ h
  case streamDataBlocked => exact rt_streamDataBlocked _ _ h.1 h.2
  case streamsBlocked => exact rt_streamsBlocked _ _ h
  case newConnectionId => exact rt_newConnectionId _ _ _ _ h.1 h.2.1 h.2.2.1 h.2.2.2.1 h.2.2.2.2
  case retireConnectionId => exact rt_retireConnectionId _ h
  case pathChallenge => exact rt_pathChallenge _ h
  case pathResponse => exact rt_pathResponse _ h
  case closeConn => exact rt_closeConn _ _ _ h.1 h.2.1 h.2.2
  case closeApp => exact rt_closeApp _ _ h.1 h.2
  case datagram => exact rt_datagram _ h
  case ackFrequency => exact rt_ackFrequency _ _ _ _ h.1 h.2.1 h.2.2.1 h.2.2.2
  case immediateAck => exact rt_immediateAck
  case handshakeDone => exact rt_handshakeDone

/-- `encodeLast` differs from `encode` only for STREAM and DATAGRAM -/
theorem encodeLast_eq (f : Frame) (h1 : ∀ a b c d, f ≠ .stream a b c d) (h2 : ∀ d, f ≠ .datagram d) :
    encodeLast f = encode f := by
  cases f <;> first
    | rfl
    | exact absurd rfl (h1 _ _ _ _)
    | exact absurd rfl (h2 _)

theorem roundtrip_last (f : Frame) (h : wellFormed f) :
    ∃ e, encodeLast f = some e ∧ decodeOne e = .ok (f, []) := by
  by_cases hs : ∃ a b c d, f = .stream a b c d
  · obtain ⟨a, b, c, d, rfl⟩ := hs
    simp only [wellFormed, V] at h
    exact rt_stream_last _ _ _ _ h.1 h.2.1
  · by_cases hd : ∃ d, f = .datagram d
    · obtain ⟨d, rfl⟩ := hd
      exact rt_datagram_last d
    · obtain ⟨e, he, hdec⟩ := roundtrip f h []
      refine ⟨e, ?_, by simpa using hdec⟩
      rw [encodeLast_eq f (fun a b c d hf => hs ⟨a, b, c, d, hf⟩) (fun d hf => hd ⟨d, hf⟩)]
      exact he

/-! ### the decoder never reads past the buffer, and always advances -/

theorem takeLen_mono : Mono takeLen := by unfold takeLen; mono_tac

theorem takeGuarded_mono (c n : Nat) : Mono (takeGuarded c n) := by unfold takeGuarded; mono_tac

theorem scanBlocks_mono : ∀ (n s : Nat), Mono (scanBlocks n s) := by
  intro n
  induction n with
  | zero => intro s; unfold scanBlocks; mono_tac
  | succ k ih =>
    intro s
    unfold scanBlocks
    have := ih
    refine Mono.bind (Mono.getVar _) (fun gap => ?_)
    apply Mono.ite
    · exact Mono.fail _
    · refine Mono.bind (Mono.getVar _) (fun block => ?_)
      apply Mono.ite
      · exact Mono.fail _
      · exact Mono.bind (ih _) (fun _ => Mono.pure _)

theorem scanAck_mono (l n : Nat) : Mono (scanAck l n) := by
  unfold scanAck
  refine Mono.bind (Mono.getVar _) (fun first => ?_)
  apply Mono.ite
  · exact Mono.fail _
  · exact Mono.bind (scanBlocks_mono _ _) (fun _ => Mono.pure _)

theorem decodeBody_mono (ty : Nat) : Mono (decodeBody ty) := by
  unfold decodeBody
  have h1 := takeLen_mono
  have h2 := fun l n => scanAck_mono l n
  have h3 := fun c n => takeGuarded_mono c n
  repeat' (first
    | exact Mono.pure _
    | exact Mono.fail _
    | exact Mono.getVar _
    | exact Mono.getU8 _
    | exact Mono.getU64 _
    | exact Mono.takeN _ _
    | exact Mono.takeAll
    | exact h1
    | exact h2 _ _
    | exact h3 _ _
    | refine Mono.bind ?_ (fun _ => ?_)
    | apply Mono.ite
    | split)

theorem decodeOne_adv : Adv decodeOne := by
  unfold decodeOne
  exact Adv.bind (Adv.getVar _) decodeBody_mono

/-- for ALL byte strings: an error, or a frame and a strictly shorter suffix of the input -/
theorem decode_total (bs : Bytes) :
    (∃ e, decodeOne bs = .error e) ∨
    (∃ f r, decodeOne bs = .ok (f, r) ∧ r.length < bs.length ∧ r <:+ bs) := by
  cases h : decodeOne bs with
  | error e => exact Or.inl ⟨e, rfl⟩
  | ok p =>
    obtain ⟨f, r⟩ := p
    have := decodeOne_adv.suffix bs f r h
    exact Or.inr ⟨f, r, rfl, this.2, this.1⟩

/-! ### the decoder never panics -/

structure NoPanic {α} (p : P FrameErr α) : Prop where
  np : ∀ bs, p bs ≠ .error .panic

theorem NoPanic.pure {α} (a : α) : NoPanic (pure a : P FrameErr α) := ⟨fun bs h => by simp at h⟩
theorem NoPanic.fail {α} {e : FrameErr} (h : e ≠ .panic) : NoPanic (fail e : P FrameErr α) :=
  ⟨fun bs h' => by simp at h'; exact h h'⟩
theorem NoPanic.remaining : NoPanic (remaining : P FrameErr Nat) := ⟨fun bs h => by simp at h⟩
theorem NoPanic.takeAll : NoPanic (takeAll : P FrameErr Bytes) := ⟨fun bs h => by simp at h⟩
theorem NoPanic.getVar {e : FrameErr} (h : e ≠ .panic) : NoPanic (getVar e) :=
  ⟨fun bs h' => by
    unfold P.getVar at h'
    split at h'
    · simp at h'
    · simp only [Except.error.injEq] at h'; exact h h'⟩
theorem NoPanic.getU8 {e : FrameErr} (h : e ≠ .panic) : NoPanic (getU8 e) :=
  ⟨fun bs h' => by
    unfold P.getU8 at h'
    split at h'
    · simp only [Except.error.injEq] at h'; exact h h'
    · simp at h'⟩
theorem NoPanic.getU64 {e : FrameErr} (h : e ≠ .panic) : NoPanic (getU64 e) :=
  ⟨fun bs h' => by
    unfold P.getU64 at h'
    split at h'
    · simp only [Except.error.injEq] at h'; exact h h'
    · simp at h'⟩
theorem NoPanic.takeN {e : FrameErr} (h : e ≠ .panic) (n : Nat) : NoPanic (takeN e n) :=
  ⟨fun bs h' => by
    unfold P.takeN at h'
    split at h'
    · simp only [Except.error.injEq] at h'; exact h h'
    · simp at h'⟩
theorem NoPanic.bind {α β} {p : P FrameErr α} {f : α → P FrameErr β} (hp : NoPanic p) (hf : ∀ a, NoPanic (f a)) :
    NoPanic (p >>= f) := by
  refine ⟨fun bs h => ?_⟩
  simp only [bind_apply] at h
  split at h
  · exact (hf _).np _ h
  · rename_i e he
    simp only [Except.error.injEq] at h
    subst h
    exact hp.np _ he
theorem NoPanic.ite {α} (c : Prop) [Decidable c] {p q : P FrameErr α} (hp : NoPanic p) (hq : NoPanic q) :
    NoPanic (if c then p else q) := by
  split <;> assumption

/-- the guard in front of the unchecked `copy_to_slice` is strong enough -/
theorem takeGuarded_noPanic (c n : Nat) (h : n ≤ c) : NoPanic (takeGuarded c n) := by
  refine ⟨fun bs hp => ?_⟩
  simp only [takeGuarded, bind_apply, remaining_apply, ite_apply', fail_apply, P.takeN] at hp
  split at hp
  · simp [E] at hp
  · split at hp
    · omega
    · simp at hp

theorem scanBlocks_noPanic : ∀ (n s : Nat), NoPanic (scanBlocks n s) := by
  intro n
  induction n with
  | zero => intro s; unfold scanBlocks; exact NoPanic.pure _
  | succ k ih =>
    intro s
    unfold scanBlocks
    refine NoPanic.bind (NoPanic.getVar (by decide)) (fun gap => ?_)
    apply NoPanic.ite
    · exact NoPanic.fail (by decide)
    · refine NoPanic.bind (NoPanic.getVar (by decide)) (fun block => ?_)
      apply NoPanic.ite
      · exact NoPanic.fail (by decide)
      · exact NoPanic.bind (ih _) (fun _ => NoPanic.pure _)

theorem scanAck_noPanic (l n : Nat) : NoPanic (scanAck l n) := by
  unfold scanAck
  refine NoPanic.bind (NoPanic.getVar (by decide)) (fun first => ?_)
  apply NoPanic.ite
  · exact NoPanic.fail (by decide)
  · exact NoPanic.bind (scanBlocks_noPanic _ _) (fun _ => NoPanic.pure _)

theorem takeLen_noPanic : NoPanic takeLen := by
  unfold takeLen
  exact NoPanic.bind (NoPanic.getVar (by decide)) (fun _ => NoPanic.takeN (by decide) _)

theorem decodeBody_noPanic (ty : Nat) : NoPanic (decodeBody ty) := by
  unfold decodeBody
  have h1 := takeLen_noPanic
  have h2 := fun l n => scanAck_noPanic l n
  have h3 : NoPanic (takeGuarded Gen.ncidTokenCheckLen Gen.wireResetTokenSize) :=
    takeGuarded_noPanic _ _ (by decide)
  repeat' (first
    | exact NoPanic.pure _
    | exact NoPanic.fail (by decide)
    | exact NoPanic.getVar (by decide)
    | exact NoPanic.getU8 (by decide)
    | exact NoPanic.getU64 (by decide)
    | exact NoPanic.takeN (by decide) _
    | exact NoPanic.takeAll
    | exact h1
    | exact h2 _ _
    | exact h3
    | refine NoPanic.bind ?_ (fun _ => ?_)
    | apply NoPanic.ite
    | split)

theorem decode_no_panic (bs : Bytes) : decodeOne bs ≠ .error .panic := by
  unfold decodeOne
  exact (NoPanic.bind (NoPanic.getVar (by decide)) decodeBody_noPanic).np bs

/-! ### iteration terminates within `payload.length` steps -/

theorem iter_fuel_suffices : ∀ (fuel : Nat) (bs : Bytes), bs.length ≤ fuel → (iterFuel fuel bs).outOfFuel = false := by
  intro fuel
  induction fuel with
  | zero =>
    intro bs h
    have : bs = [] := List.eq_nil_of_length_eq_zero (by omega)
    simp [iterFuel, this]
  | succ k ih =>
    intro bs h
    unfold iterFuel
    split
    · rfl
    · split
      · rfl
      · rename_i f rest hd
        have := (decodeOne_adv.suffix bs f rest hd).2
        exact ih rest (by omega)

/-- every frame produced by the iteration, and the iteration as a whole, stays inside the payload:
    the decoded frames' encodings are consumed front to back (each step is `decodeOne` on the remainder) -/
theorem iter_never_out_of_fuel (payload : Bytes) (res : IterResult) (h : iter payload = some res) :
    res.outOfFuel = false := by
  unfold iter at h
  split at h
  · simp at h
  · simp only [Option.some.injEq] at h
    rw [← h]
    exact iter_fuel_suffices _ _ (Nat.le_refl _)

/-! ### size bounds -/

theorem encB_len_one {x : Nat} (h : x < 64) : (encB x).length = 1 := by
  rw [encB_length_eq (by omega)]
  simp; omega

attribute [local simp] Gen.sizeBoundConnectionClose Gen.sizeBoundApplicationClose Gen.sizeBoundStream
  Gen.sizeBoundResetStream Gen.sizeBoundStopSending Gen.sizeBoundNewConnectionId Gen.sizeBoundDatagram
  Gen.sizeBoundCrypto Gen.sizeBoundRetireConnectionId

theorem size_resetStream (wl : Bool) (m id code fo : Nat) (e : Bytes) (h1 : id < 2^62) (h2 : code < 2^62)
    (h3 : fo < 2^62) (he : encodeWith wl m (.resetStream id code fo) = some e) :
    e.length ≤ Gen.sizeBoundResetStream := by
  simp [encodeWith, wVar_some, *] at he
  subst he
  have := (encB_length h1).2; have := (encB_length h2).2; have := (encB_length h3).2
  have := encB_len_one (show 4 < 64 by decide)
  simp [List.length_append]; omega

theorem size_stopSending (wl : Bool) (m id code : Nat) (e : Bytes) (h1 : id < 2^62) (h2 : code < 2^62)
    (he : encodeWith wl m (.stopSending id code) = some e) : e.length ≤ Gen.sizeBoundStopSending := by
  simp [encodeWith, wVar_some, *] at he
  subst he
  have := (encB_length h1).2; have := (encB_length h2).2
  have := encB_len_one (show 5 < 64 by decide)
  simp [List.length_append]; omega

theorem size_retire (wl : Bool) (m s : Nat) (e : Bytes) (h1 : s < 2^62)
    (he : encodeWith wl m (.retireConnectionId s) = some e) : e.length ≤ Gen.sizeBoundRetireConnectionId := by
  simp [encodeWith, wVar_some, *] at he
  subst he
  have := (encB_length h1).2
  have := encB_len_one (show 25 < 64 by decide)
  simp [List.length_append]; omega

theorem size_crypto (wl : Bool) (m off : Nat) (d e : Bytes) (h1 : off < 2^62) (h2 : d.length < 2^62)
    (he : encodeWith wl m (.crypto off d) = some e) : e.length ≤ Gen.sizeBoundCrypto + d.length := by
  simp [encodeWith, wVar_some, *] at he
  subst he
  have := (encB_length h1).2; have := (encB_length h2).2
  have := encB_len_one (show 6 < 64 by decide)
  simp [List.length_append]; omega

theorem size_ncid (wl : Bool) (m seq retire : Nat) (id tok e : Bytes) (h1 : seq < 2^62) (h2 : retire ≤ seq)
    (h4 : id.length ≤ 20) (h5 : tok.length = 16)
    (he : encodeWith wl m (.newConnectionId seq retire id tok) = some e) :
    e.length ≤ Gen.sizeBoundNewConnectionId := by
  have hr : retire < 2^62 := by omega
  simp [encodeWith, wVar_some, *] at he
  subst he
  have := (encB_length h1).2; have := (encB_length hr).2
  have := encB_len_one (show 24 < 64 by decide)
  simp [List.length_append]; omega

theorem size_datagram (wl : Bool) (m : Nat) (d e : Bytes) (h2 : d.length < 2^62)
    (he : encodeWith wl m (.datagram d) = some e) : e.length ≤ Gen.sizeBoundDatagram + d.length := by
  have := (encB_length h2).2
  have := encB_len_one (show 48 < 64 by decide)
  have := encB_len_one (show 49 < 64 by decide)
  cases wl <;> simp [encodeWith, datagramTy, wVar_some, *] at he <;> subst he <;>
    simp [List.length_append] <;> omega

theorem size_stream (wl : Bool) (m id off : Nat) (fin : Bool) (d e : Bytes) (h1 : id < 2^62) (h2 : off < 2^62)
    (h3 : d.length < 2^62) (he : encodeWith wl m (.stream id off fin d) = some e) :
    e.length ≤ Gen.sizeBoundStream + d.length := by
  have := (encB_length h1).2; have := (encB_length h2).2; have := (encB_length h3).2
  have := encB_len_one (show 8 < 64 by decide); have := encB_len_one (show 9 < 64 by decide)
  have := encB_len_one (show 10 < 64 by decide); have := encB_len_one (show 11 < 64 by decide)
  have := encB_len_one (show 12 < 64 by decide); have := encB_len_one (show 13 < 64 by decide)
  have := encB_len_one (show 14 < 64 by decide); have := encB_len_one (show 15 < 64 by decide)
  by_cases ho : off = 0 <;> cases fin <;> cases wl <;>
    simp [encodeWith, streamTy, wVar_some, *] at he <;> subst he <;>
    simp [List.length_append] <;> omega

theorem closeConn_length (wl : Bool) (m code : Nat) (ft : Option Nat) (reason e : Bytes)
    (hc : code < 2^62) (hl : reason.length < 2^62) (hty : ftRaw ft < 2^62)
    (he : encodeWith wl m (.closeConn code ft reason) = some e) :
    connFixed (ftRaw ft) reason ≤ m ∧
    e.length = 1 + (encB code).length + (encB (ftRaw ft)).length +
      (encB (connKeep m (ftRaw ft) reason)).length + connKeep m (ftRaw ft) reason := by
  by_cases hm : connFixed (ftRaw ft) reason ≤ m
  · refine ⟨hm, ?_⟩
    rw [closeConn_enc wl m code ft reason hc hl hty hm] at he
    simp only [Option.some.injEq] at he
    subst he
    have := encB_len_one (show Gen.ftConnectionClose < 64 by decide)
    have hkl : (reason.take (connKeep m (ftRaw ft) reason)).length = connKeep m (ftRaw ft) reason := by
      rw [List.length_take]; unfold connKeep; omega
    simp only [List.length_append, hkl]
    omega
  · rw [closeConn_none wl m code ft reason hl hty hm] at he
    simp at he

theorem closeApp_length (wl : Bool) (m code : Nat) (reason e : Bytes)
    (hc : code < 2^62) (hl : reason.length < 2^62)
    (he : encodeWith wl m (.closeApp code reason) = some e) :
    appFixed code reason ≤ m ∧
    e.length = 1 + (encB code).length + (encB (appKeep m code reason)).length + appKeep m code reason := by
  by_cases hm : appFixed code reason ≤ m
  · refine ⟨hm, ?_⟩
    rw [closeApp_enc wl m code reason hc hl hm] at he
    simp only [Option.some.injEq] at he
    subst he
    have := encB_len_one (show Gen.ftApplicationClose < 64 by decide)
    have hkl : (reason.take (appKeep m code reason)).length = appKeep m code reason := by
      rw [List.length_take]; unfold appKeep; omega
    simp only [List.length_append, hkl]
    omega
  · rw [closeApp_none wl m code reason hc hl hm] at he
    simp at he

theorem size_closeConn (wl : Bool) (m code : Nat) (ft : Option Nat) (reason e : Bytes)
    (hc : code < 2^62) (hl : reason.length < 2^62) (hft : ∀ x, ft = some x → x < 2^62 ∧ x ≠ 0)
    (he : encodeWith wl m (.closeConn code ft reason) = some e) :
    e.length ≤ Gen.sizeBoundConnectionClose + reason.length := by
  have hty := ftRaw_lt ft hft
  obtain ⟨_, hlen⟩ := closeConn_length wl m code ft reason e hc hl hty he
  have hk2 : connKeep m (ftRaw ft) reason ≤ reason.length := by unfold connKeep; omega
  have hk : connKeep m (ftRaw ft) reason < 2^62 := by omega
  have := (encB_length hc).2; have := (encB_length hty).2; have := (encB_length hk).2
  simp only [Gen.sizeBoundConnectionClose]; omega

theorem size_closeApp (wl : Bool) (m code : Nat) (reason e : Bytes)
    (hc : code < 2^62) (hl : reason.length < 2^62)
    (he : encodeWith wl m (.closeApp code reason) = some e) :
    e.length ≤ Gen.sizeBoundApplicationClose + reason.length := by
  obtain ⟨_, hlen⟩ := closeApp_length wl m code reason e hc hl he
  have hk2 : appKeep m code reason ≤ reason.length := by unfold appKeep; omega
  have hk : appKeep m code reason < 2^62 := by omega
  have := (encB_length hc).2; have := (encB_length hk).2
  simp only [Gen.sizeBoundApplicationClose]; omega

theorem encoded_size_le_bound (f : Frame) (wl : Bool) (m : Nat) (e : Bytes) (b : Nat) (hw : wellFormed f)
    (he : encodeWith wl m f = some e) (hb : sizeBound f = some b) : e.length ≤ b + payloadLen f := by
  cases f <;> simp only [sizeBound, Option.some.injEq, reduceCtorEq] at hb <;> subst hb <;>
    simp only [wellFormed, V] at hw <;> simp only [payloadLen, Nat.add_zero]
  case resetStream => exact size_resetStream _ _ _ _ _ _ hw.1 hw.2.1 hw.2.2 he
  case stopSending => exact size_stopSending _ _ _ _ _ hw.1 hw.2 he
  case crypto => exact size_crypto _ _ _ _ _ hw.1 hw.2 he
  case stream => exact size_stream _ _ _ _ _ _ _ hw.1 hw.2.1 hw.2.2 he
  case newConnectionId => exact size_ncid _ _ _ _ _ _ _ hw.1 hw.2.1 hw.2.2.2.1 hw.2.2.2.2 he
  case retireConnectionId => exact size_retire _ _ _ _ hw he
  case closeConn => exact size_closeConn _ _ _ _ _ _ hw.1 hw.2.1 hw.2.2 he
  case closeApp => exact size_closeApp _ _ _ _ _ hw.1 hw.2 he
  case datagram => exact size_datagram _ _ _ _ hw he

/-- APPLICATION_CLOSE written under `max_len` occupies at most `max_len` bytes (the budget accounts for
    the real size of the error code) -/
theorem closeApp_fits (wl : Bool) (m code : Nat) (reason e : Bytes)
    (hc : code < 2^62) (hl : reason.length < 2^62)
    (he : encodeWith wl m (.closeApp code reason) = some e) : e.length ≤ m := by
  obtain ⟨hm, hlen⟩ := closeApp_length wl m code reason e hc hl he
  have hk2 : appKeep m code reason ≤ reason.length := by unfold appKeep; omega
  have hk3 : appKeep m code reason ≤ m - appFixed code reason := by unfold appKeep; omega
  have := encB_length_mono hl hk2
  unfold appFixed at hm hk3
  omega

/-- CONNECTION_CLOSE written under `max_len` occupies at most `max_len` bytes when the transport error code
    needs at most two bytes (the constant 3 of the budget = frame type + 2) -/
theorem closeConn_fits (wl : Bool) (m code : Nat) (ft : Option Nat) (reason e : Bytes)
    (hc : code < 2^14) (hl : reason.length < 2^62) (hft : ∀ x, ft = some x → x < 2^62 ∧ x ≠ 0)
    (he : encodeWith wl m (.closeConn code ft reason) = some e) : e.length ≤ m := by
  have hc' : code < 2^62 := by omega
  have hty := ftRaw_lt ft hft
  obtain ⟨hm, hlen⟩ := closeConn_length wl m code ft reason e hc' hl hty he
  have hk2 : connKeep m (ftRaw ft) reason ≤ reason.length := by unfold connKeep; omega
  have hk3 : connKeep m (ftRaw ft) reason ≤ m - connFixed (ftRaw ft) reason := by unfold connKeep; omega
  have := encB_length_mono hl hk2
  have : (encB code).length ≤ 2 := by
    rw [encB_length_eq hc']
    repeat' split
    all_goals omega
  unfold connFixed at hm hk3
  omega

/-- the caller's check `buf.len() + SIZE_BOUND < max_size` guarantees the budget cannot underflow -/
theorem closeApp_no_underflow (m code : Nat) (reason : Bytes) (hc : code < 2^62) (hl : reason.length < 2^62)
    (hm : Gen.sizeBoundApplicationClose ≤ m) : appFixed code reason ≤ m := by
  have := (encB_length hc).2; have := (encB_length hl).2
  simp only [Gen.sizeBoundApplicationClose] at hm
  unfold appFixed; omega

theorem closeConn_no_underflow (m ty : Nat) (reason : Bytes) (hty : ty < 2^62) (hl : reason.length < 2^62)
    (hm : Gen.sizeBoundConnectionClose ≤ m) : connFixed ty reason ≤ m := by
  have := (encB_length hty).2; have := (encB_length hl).2
  simp only [Gen.sizeBoundConnectionClose] at hm
  unfold connFixed; omega

end QM.Wire.Frame
