import QuinnModel.Data.Dedup
namespace QM.Dedup

/-- abstract: set of seen packet numbers -/
structure Inv (d : Dedup) (seen : Nat → Prop) : Prop where
  lt_next : ∀ q, seen q → q < d.next
  bounded : d.window < W
  top : 0 < d.next → seen (d.next - 1)
  -- every seen packet inside the window has its bit set
  complete : ∀ q, seen q → q + 1 < d.next → d.next - 2 - q < 128 → d.window.testBit (d.next - 2 - q) = true

theorem insert_not_dup_fresh (d : Dedup) (seen : Nat → Prop) (h : Inv d seen) (p : Nat)
    (hnd : (insert d p).2 = false) : ¬ seen p := by
  intro hs
  have hlt := h.lt_next p hs
  unfold insert at hnd; simp only [Gen.dedupWindowSize] at hnd
  have : ¬ d.next ≤ p := by omega
  simp only [this, if_false] at hnd
  split at hnd
  · split at hnd
    · simp at hnd
    · rename_i hd hz
      simp only at hnd
      have hb := h.complete p hs (by omega) (by omega)
      have : d.next - 1 - p - 1 = d.next - 2 - p := by omega
      rw [this] at hnd
      rw [hb] at hnd
      simp at hnd
  · simp at hnd


theorem testBit_mod_W (x i : Nat) (hi : i < 128) : (x % W).testBit i = x.testBit i := by
  unfold W
  rw [Nat.testBit_mod_two_pow]
  simp [hi]

theorem insert_preserves (d : Dedup) (seen : Nat → Prop) (h : Inv d seen) (p : Nat) :
    Inv (insert d p).1 (fun q => seen q ∨ q = p) := by
  unfold insert; simp only [Gen.dedupWindowSize]
  by_cases hp : d.next ≤ p
  · simp only [hp, if_true]
    refine ⟨?_, ?_, ?_, ?_⟩
    · intro q hq
      rcases hq with hq | hq
      · have := h.lt_next q hq; simp; omega
      · simp; omega
    · simp only
      split
      · exact Nat.mod_lt _ (by unfold W; exact Nat.two_pow_pos 128)
      · unfold W; exact Nat.two_pow_pos 128
    · intro _; right; simp
    · intro q hq hq1 hq2
      simp only at hq1 hq2 ⊢
      have hqp : q < p := by omega
      have hseen : seen q := by
        rcases hq with hq | hq
        · exact hq
        · omega
      have hqn := h.lt_next q hseen
      -- distance
      have hdiff : p - d.next < 128 := by omega
      simp only [hdiff, if_true]
      rw [testBit_mod_W _ _ (by omega)]
      rw [Nat.testBit_shiftLeft]
      have hge : p + 1 - 2 - q ≥ p - d.next := by omega
      simp only [hge, decide_true, Bool.true_and]
      -- index into w1
      have hidx : p + 1 - 2 - q - (p - d.next) = d.next - 1 - q := by omega
      rw [hidx]
      rw [Nat.testBit_or]
      by_cases hz : d.next - 1 - q = 0
      · rw [hz]; simp
      · have hpos : 0 < d.next - 1 - q := Nat.pos_of_ne_zero hz
        rw [testBit_mod_W _ _ (by omega)]
        rw [Nat.testBit_shiftLeft]
        have : d.next - 1 - q ≥ 1 := hpos
        simp only [this, decide_true, Bool.true_and]
        have hc := h.complete q hseen (by omega) (by omega)
        have : d.next - 1 - q - 1 = d.next - 2 - q := by omega
        rw [this, hc]; simp
  · simp only [hp, if_false]
    have hlt : p < d.next := by omega
    split
    · split
      · -- p = highest: already seen
        rename_i hd hz
        refine ⟨?_, h.bounded, ?_, ?_⟩
        · intro q hq; rcases hq with hq | hq
          · exact h.lt_next q hq
          · dsimp only; omega
        · intro hn; left; exact h.top hn
        · intro q hq hq1 hq2
          dsimp only at hq1 hq2 ⊢
          rcases hq with hq | hq
          · exact h.complete q hq hq1 hq2
          · omega
      · rename_i hd hz
        refine ⟨?_, ?_, ?_, ?_⟩
        · intro q hq; rcases hq with hq | hq
          · exact h.lt_next q hq
          · simp; omega
        · simp only
          have hb := h.bounded
          have h2 : (1 <<< (d.next - 1 - p - 1)) < W := by
            unfold W; rw [Nat.one_shiftLeft]; exact Nat.pow_lt_pow_right (by omega) (by omega)
          unfold W at *
          exact Nat.or_lt_two_pow hb h2
        · intro hn; left; exact h.top hn
        · intro q hq hq1 hq2
          simp only at hq1 hq2 ⊢
          rw [Nat.testBit_or]
          rcases hq with hq | hq
          · rw [h.complete q hq hq1 hq2]; simp
          · subst hq
            have : d.next - 1 - q - 1 = d.next - 2 - q := by omega
            rw [this, Nat.one_shiftLeft, Nat.testBit_two_pow_self]; simp
    · -- left of window
      refine ⟨?_, h.bounded, ?_, ?_⟩
      · intro q hq; rcases hq with hq | hq
        · exact h.lt_next q hq
        · dsimp only; omega
      · intro hn; left; exact h.top hn
      · intro q hq hq1 hq2
        dsimp only at hq1 hq2 ⊢
        rcases hq with hq | hq
        · exact h.complete q hq hq1 hq2
        · omega



/-- packet numbers accepted (reported "not a duplicate") by a run of inserts, in order -/
def accepted (d : Dedup) : List Nat → List Nat
  | [] => []
  | p :: ps => if (insert d p).2 then accepted (insert d p).1 ps else p :: accepted (insert d p).1 ps

theorem accepted_fresh (ps : List Nat) : ∀ (d : Dedup) (seen : Nat → Prop), Inv d seen →
    (accepted d ps).Nodup ∧ ∀ q ∈ accepted d ps, ¬ seen q := by
  induction ps with
  | nil => intro d seen _; simp [accepted]
  | cons p ps ih =>
    intro d seen h
    have hp := insert_preserves d seen h p
    have ⟨ih1, ih2⟩ := ih (insert d p).1 (fun q => seen q ∨ q = p) hp
    unfold accepted
    by_cases hd : (insert d p).2 = true
    · simp only [hd, if_true]
      exact ⟨ih1, fun q hq hs => ih2 q hq (Or.inl hs)⟩
    · have hd' : (insert d p).2 = false := by simpa using hd
      simp only [hd', Bool.false_eq_true, if_false]
      refine ⟨List.nodup_cons.mpr ⟨fun hm => ih2 p hm (Or.inr rfl), ih1⟩, ?_⟩
      intro q hq hs
      rcases List.mem_cons.mp hq with rfl | hq
      · exact insert_not_dup_fresh d seen h q hd' hs
      · exact ih2 q hq (Or.inl hs)

theorem init_inv : Inv init (fun _ => False) := by
  refine ⟨?_, ?_, ?_, ?_⟩ <;> simp [init, W]

end QM.Dedup
