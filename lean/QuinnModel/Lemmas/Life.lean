import QuinnModel.Async.Life
import QuinnModel.Lemmas.Wake
/-
Proofs for QuinnModel/Async/Life.lean (C18 end-of-life rules).
-/
namespace QM.Life

/-! ### endpoint close -/

def EpInv (s : Ep) : Prop := s.closed = true → ∀ h, h ∈ s.senders → s.told h = true

theorem insertFlag : (Gen.c18InsertAfterCloseSendsClose == 1) = true := by decide
theorem closeFlag : (Gen.c18EndpointCloseTellsAll == 1) = true := by decide

theorem epInv_init : EpInv Ep.init := by
  intro h; simp [Ep.init] at h

theorem epInv_step (s : Ep) (e : EpEv) (hi : EpInv s) : EpInv (s.step e) := by
  cases e with
  | insert h =>
    intro hc x hx
    simp only [Ep.step] at hc hx ⊢
    by_cases hxh : x = h
    · simp [hxh, hc, insertFlag]
    · simp only [if_neg hxh]
      rcases List.mem_cons.mp hx with h1 | h1
      · exact absurd h1 hxh
      · exact hi hc x (List.mem_filter.mp h1).1
  | close =>
    intro _ x hx
    simp only [Ep.step] at hx ⊢
    simp only [closeFlag, Bool.true_and, Bool.or_eq_true, List.contains_eq_mem, decide_eq_true_eq]
    exact Or.inr hx
  | drained h =>
    intro hc x hx
    simp only [Ep.step] at hc hx ⊢
    exact hi hc x (List.mem_filter.mp hx).1

theorem epInv_run (evs : List EpEv) : ∀ s : Ep, EpInv s → EpInv (s.run evs) := by
  induction evs with
  | nil => intro s h; exact h
  | cons e es ih => intro s h; exact ih _ (epInv_step s e h)

theorem ep_told_lem (evs : List EpEv) (h : Nat) (hc : (Ep.init.run evs).closed = true)
    (hm : h ∈ (Ep.init.run evs).senders) : (Ep.init.run evs).told h = true :=
  epInv_run evs Ep.init epInv_init hc h hm

theorem closed_step (s : Ep) (e : EpEv) (h : s.closed = true) : (s.step e).closed = true := by
  cases e <;> simp [Ep.step, h]

theorem closed_run (evs : List EpEv) : ∀ s : Ep, s.closed = true → (s.run evs).closed = true := by
  induction evs with
  | nil => intro s h; exact h
  | cons e es ih => intro s h; exact ih _ (closed_step s e h)

theorem connPoll_told (slot : Wake.Cond → Bool) (s : Wake.St) :
    connPoll slot true s = Wake.step slot s .terminate := by
  have : (Gen.c18ConnCloseEventCloses == 1) = true := by decide
  simp [connPoll, this]

/-! ### waker table -/

def TabInv (s : Tab) : Prop := ∀ id g t, s.tab id = some (g, t) → g = s.cur

theorem drainFlag : Gen.c18RejectionDrainsWakerTables = 1 := by decide
theorem dropFlag : Gen.c18StaleDropKeepsTable = 1 := by decide
theorem stopFlag : Gen.c18StaleStopKeepsTable = 1 := by decide

theorem tabInv_init : TabInv Tab.init := by
  intro id g t h; simp [Tab.init] at h

theorem tabInv_remove (s : Tab) (id : Id) (hi : TabInv s) : TabInv (s.remove id) := by
  intro x g t h
  simp only [Tab.remove] at h ⊢
  by_cases hx : x = id
  · simp [hx] at h
  · simp only [if_neg hx] at h; exact hi x g t h

theorem tabInv_step (s : Tab) (e : TabEv) (hi : TabInv s) : TabInv (s.step e) := by
  cases e with
  | poll id g t =>
    simp only [Tab.step]
    by_cases hg : g = s.cur
    · simp only [if_pos hg]
      intro x g' t' h
      by_cases hx : x = id
      · simp only [if_pos hx, Option.some.injEq, Prod.mk.injEq] at h
        rw [← h.1]; exact hg
      · simp only [if_neg hx] at h; exact hi x g' t' h
    · simp only [if_neg hg]; exact hi
  | wake id => exact tabInv_remove s id hi
  | reject =>
    simp only [Tab.step, if_pos drainFlag]
    intro x g t h; simp at h
  | drop id g =>
    simp only [Tab.step]
    split
    · exact hi
    · exact tabInv_remove s id hi
  | stop id g =>
    simp only [Tab.step]
    split
    · exact hi
    · exact tabInv_remove s id hi

theorem tabInv_run (evs : List TabEv) : ∀ s : Tab, TabInv s → TabInv (s.run evs) := by
  induction evs with
  | nil => intro s h; exact h
  | cons e es ih => intro s h; exact ih _ (tabInv_step s e h)

theorem tab_reach (evs : List TabEv) : TabInv (Tab.init.run evs) := tabInv_run evs Tab.init tabInv_init

theorem drop_other_gen_lem (evs : List TabEv) (id : Id) (g g' : Gn) (t : Tk)
    (hg : g ≤ (Tab.init.run evs).cur) (hr : (Tab.init.run evs).tab id = some (g', t)) (hne : g ≠ g') :
    ((Tab.init.run evs).step (.drop id g)).tab id = some (g', t) ∧
    ((Tab.init.run evs).step (.stop id g)).tab id = some (g', t) := by
  have hc : g' = (Tab.init.run evs).cur := tab_reach evs id g' t hr
  have hlt : g < (Tab.init.run evs).cur := Nat.lt_of_le_of_ne hg (by rw [← hc]; exact hne)
  simp only [Tab.step, if_pos (And.intro hlt dropFlag), if_pos (And.intro hlt stopFlag)]
  exact ⟨hr, hr⟩

theorem drop_elsewhere_lem (s : Tab) (id id' : Id) (g : Gn) (hne : id' ≠ id) :
    (s.step (.drop id g)).tab id' = s.tab id' ∧ (s.step (.stop id g)).tab id' = s.tab id' := by
  simp only [Tab.step]
  constructor <;> (split <;> simp [Tab.remove, hne])

theorem reject_clears_lem (s : Tab) (id : Id) : (s.step .reject).tab id = none ∧ (s.step .reject).cur = s.cur + 1 := by
  simp [Tab.step, drainFlag]

end QM.Life
