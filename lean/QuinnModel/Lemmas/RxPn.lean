import QuinnModel.Conn.RxPn
/- proofs for Props/C03_total.lean: the packet number a received packet is processed under -/
namespace QM.RxPn
open QM QM.PacketNumber

theorem winOf_cases (l : Nat) : winOf l = 256 ∨ winOf l = 65536 ∨ winOf l = 16777216 ∨ winOf l = 4294967296 := by
  unfold winOf; split <;> simp

/-- `expand` does not overflow while the receiver state is a legal packet number, and its result is at most
    `expected + win` -/
theorem expandW_ok (win t e : Nat) (hw : win = 256 ∨ win = 65536 ∨ win = 16777216 ∨ win = 4294967296)
    (ht : t < win) (he : e ≤ 2 ^ 62) : ∃ n, expandW win t e = some n ∧ n ≤ e + win := by
  unfold expandW
  rcases hw with rfl | rfl | rfl | rfl
  all_goals
    simp only []
    split
    · exfalso; omega
    · split
      · split
        · exfalso; omega
        · exact ⟨_, rfl, by omega⟩
      · split
        · exact ⟨_, rfl, by omega⟩
        · exact ⟨_, rfl, by omega⟩

/-- the receive path never panics and never processes a number above the bound, if the code has a bound -/
theorem rxNumber_spec (b : Nat) (hb : Gen.rxPnBound = some b) (p : Nat × Nat) (rx : Nat) (hp : wire p) (hrx : rx < 2 ^ 62) :
    rxNumber p rx = .drop ∨ ∃ n, rxNumber p rx = .accept n ∧ n ≤ b := by
  obtain ⟨n, hn, _⟩ := expandW_ok (winOf p.1) p.2 (rx + 1) (winOf_cases p.1) hp.2.2 (by omega)
  unfold rxNumber
  have h64 : ¬ (18446744073709551616 ≤ rx + 1) := by omega
  simp only [h64, ↓reduceIte, expand, hn, hb]
  by_cases h : n > b
  · left; simp [h]
  · right; exact ⟨n, by simp [h], by omega⟩

theorem advance_le (b rx : Nat) (o : Out) (hrx : rx ≤ b) (ho : ∀ n, o = .accept n → n ≤ b) : advance rx o ≤ b := by
  unfold advance
  cases o with
  | accept n => have := ho n rfl; simp only; split <;> omega
  | drop => exact hrx
  | panic => exact hrx

/-- over every history of received packets: no panic, the largest processed number stays within the bound -/
theorem run_bounded (b : Nat) (hb : Gen.rxPnBound = some b) (hb62 : b < 2 ^ 62) (ps : List (Nat × Nat)) :
    ∀ rx, rx ≤ b → (∀ p ∈ ps, wire p) → ∃ rx', run rx ps = some rx' ∧ rx' ≤ b := by
  induction ps with
  | nil => intro rx hrx _; exact ⟨rx, rfl, hrx⟩
  | cons p ps ih =>
    intro rx hrx hw
    have hp := hw p (by simp)
    have hw' : ∀ q ∈ ps, wire q := fun q hq => hw q (by simp [hq])
    rcases rxNumber_spec b hb p rx hp (by omega) with h | ⟨n, h, hn⟩
    · simp only [run, h]
      exact ih _ (advance_le b rx .drop hrx (by intro n hn; cases hn)) hw'
    · simp only [run, h]
      exact ih _ (advance_le b rx (.accept n) hrx (by intro m hm; cases hm; exact hn)) hw'

theorem accepted_bounded (b : Nat) (hb : Gen.rxPnBound = some b) (hb62 : b < 2 ^ 62) (ps : List (Nat × Nat)) :
    ∀ rx, rx ≤ b → (∀ p ∈ ps, wire p) → ∀ n ∈ accepted rx ps, n ≤ b := by
  induction ps with
  | nil => intro rx _ _ n hn; simp [accepted] at hn
  | cons p ps ih =>
    intro rx hrx hw n hn
    have hp := hw p (by simp)
    have hw' : ∀ q ∈ ps, wire q := fun q hq => hw q (by simp [hq])
    rcases rxNumber_spec b hb p rx hp (by omega) with h | ⟨m, h, hm⟩
    · simp only [accepted, h] at hn
      exact ih _ (advance_le b rx .drop hrx (by intro n hn; cases hn)) hw' n hn
    · simp only [accepted, h, List.mem_cons] at hn
      rcases hn with rfl | hn
      · exact hm
      · exact ih _ (advance_le b rx (.accept m) hrx (by intro k hk; cases hk; exact hm)) hw' n hn

end QM.RxPn
