import QuinnModel.Endpoint.Reset
namespace QM.Reset

/-- a stateless reset is strictly smaller than the datagram that provoked it, for every rng draw in range -/
theorem resetSize_lt (inciting draw n : Nat)
    (hdraw : Gen.resetIdealMinPaddingLen ≤ draw ∧ draw < inciting - Gen.resetTokenSize - 1)
    (h : resetSize inciting draw = some n) : n < inciting := by
  unfold resetSize at h
  split at h
  · simp at h
  · split at h
    · simp only [Option.some.injEq] at h
      first
        | (split at h <;>
            (simp only [Gen.resetTokenSize, Gen.resetMinPaddingLen, Gen.resetIdealMinPaddingLen] at *; omega))
        | (simp only [Gen.resetTokenSize, Gen.resetMinPaddingLen, Gen.resetIdealMinPaddingLen] at *; omega)
    · simp at h

/-- when the draw is not needed (small inciting datagrams) the bound holds whatever `draw` is -/
theorem resetSize_lt_small (inciting draw n : Nat)
    (hsmall : inciting - Gen.resetTokenSize - 1 ≤ Gen.resetIdealMinPaddingLen)
    (h : resetSize inciting draw = some n) : n < inciting := by
  unfold resetSize at h
  split at h
  · simp at h
  · split at h
    · simp only [Option.some.injEq] at h
      first
        | (split at h <;>
            (simp only [Gen.resetTokenSize, Gen.resetMinPaddingLen, Gen.resetIdealMinPaddingLen] at *; omega))
        | (simp only [Gen.resetTokenSize, Gen.resetMinPaddingLen, Gen.resetIdealMinPaddingLen] at *; omega)
    · simp at h

/-- nothing is sent for datagrams of at most token+min-padding bytes -/
theorem resetSize_none_small (inciting draw : Nat) (h : inciting ≤ Gen.resetTokenSize + Gen.resetMinPaddingLen) :
    resetSize inciting draw = none := by
  unfold resetSize
  split
  · rfl
  · split
    · simp only [Gen.resetTokenSize, Gen.resetMinPaddingLen] at *; omega
    · rfl

theorem handle_last (mi : Nat) (s : St) (now inc d : Nat) (n : Nat) (s' : St)
    (h : handle mi s now inc d = (s', some n)) :
    s'.last = some now ∧ (∀ l, s.last = some l → l + mi ≤ now) := by
  unfold handle at h
  cases hl : s.last with
  | none =>
    simp only [hl] at h
    cases hr : resetSize inc d with
    | none => simp [hr] at h
    | some m => simp [hr] at h; exact ⟨by rw [← h.1], by intro l hl'; cases hl'⟩
  | some l =>
    simp only [hl] at h
    by_cases hc : l + mi > now
    · simp [hc] at h
    · simp only [hc, if_false] at h
      cases hr : resetSize inc d with
      | none => simp [hr] at h
      | some m => simp [hr] at h; exact ⟨by rw [← h.1], by intro l' hl'; cases hl'; omega⟩

theorem handle_none_last (mi : Nat) (s : St) (now inc d : Nat) (s' : St)
    (h : handle mi s now inc d = (s', none)) : s' = s := by
  unfold handle at h
  cases hl : s.last with
  | none =>
    simp only [hl] at h
    cases hr : resetSize inc d with
    | none => simp [hr] at h; exact h.symm
    | some m => simp [hr] at h
  | some l =>
    simp only [hl] at h
    by_cases hc : l + mi > now
    · simp [hc] at h; exact h.symm
    · simp only [hc, if_false] at h
      cases hr : resetSize inc d with
      | none => simp [hr] at h; exact h.symm
      | some m => simp [hr] at h

/-- times are non-decreasing in the history -/
def Mono : Nat → List (Nat × Nat × Nat) → Prop
  | _, [] => True
  | t, (now, _, _) :: rest => t ≤ now ∧ Mono now rest

/-- rate limit: over any history with a monotone clock, consecutive resets are at least `minInterval` apart -/
theorem sentTimes_spaced (mi : Nat) : ∀ (h : List (Nat × Nat × Nat)) (s : St) (t0 : Nat),
    Mono t0 h → (∀ l, s.last = some l → l ≤ t0) →
    (∀ l, s.last = some l → ∀ t ∈ sentTimes mi s h, l + mi ≤ t) ∧
    List.Pairwise (fun a b => a + mi ≤ b) (sentTimes mi s h) := by
  intro h
  induction h with
  | nil => intro s t0 _ _; simp [sentTimes]
  | cons e rest ih =>
    intro s t0 hm hl
    obtain ⟨now, inc, d⟩ := e
    obtain ⟨ht, hm'⟩ := hm
    unfold sentTimes
    cases hh : handle mi s now inc d with
    | mk s' r =>
      cases r with
      | none =>
        have hs := handle_none_last mi s now inc d s' hh
        subst hs
        simp only
        exact ih s' now hm' (fun l hl' => Nat.le_trans (hl l hl') ht)
      | some n =>
        obtain ⟨hlast, hgap⟩ := handle_last mi s now inc d n s' hh
        simp only
        have ⟨ih1, ih2⟩ := ih s' now hm' (fun l hl' => by rw [hlast] at hl'; cases hl'; exact Nat.le_refl _)
        refine ⟨?_, ?_⟩
        · intro l hl' t htm
          rcases List.mem_cons.mp htm with rfl | htm
          · exact hgap l hl'
          · have := ih1 now hlast t htm
            have := hgap l hl'
            omega
        · exact List.pairwise_cons.mpr ⟨fun t htm => ih1 now hlast t htm, ih2⟩

end QM.Reset
