import QuinnModel.Lemmas.IndexBase
/- `Sound` is preserved by the incoming-connection path: first Initial, accept (every exit), refuse/ignore. -/
namespace QM.Index

/-- if the cascade finds nothing for an Initial, its DCID is in neither CID table -/
theorem get_none_initial {ix : Index} {a : FourTuple} {dcid : Cid} {data : Bytes}
    (h : ix.get a ⟨true, dcid, data⟩ = none) : alookup dcid ix.idsInitial = none := by
  unfold Index.get at h
  simp only [if_true] at h
  split at h
  · simp at h
  · split at h
    · simp at h
    · rename_i h2; exact h2

/-- `Endpoint::handle` for a first Initial -/
theorem sound_firstPacket {s s' : State} {a : FourTuple} {dcid : Cid} {data : Bytes} {r : FirstResult}
    (hs : Sound s) (h : firstPacket s a dcid data = some (s', r)) : Sound s' := by
  unfold firstPacket at h
  split at h
  · simp only [Option.some.injEq, Prod.mk.injEq] at h; obtain ⟨rfl, -⟩ := h; exact hs
  · rename_i hget
    split at h
    · simp at h
    · rename_i idx inc hins
      simp only [Option.some.injEq, Prod.mk.injEq] at h; obtain ⟨rfl, -⟩ := h
      obtain ⟨i1, i2, i3, i4⟩ := Slab.insert_spec hins
      by_cases he : dcid = []
      · subst he
        simp only [Index.insertInitialIncoming, List.isEmpty_nil, if_true]
        constructor <;> (try simp only [])
        all_goals (sound_facts hs; grind)
      · have hfree := get_none_initial hget
        have hie : dcid.isEmpty = false := by simpa using he
        simp only [Index.insertInitialIncoming, hie, Bool.false_eq_true, if_false]
        constructor <;> (try simp only [])
        all_goals (sound_facts hs; grind [alookup_ainsert])

/-- dropping a pending attempt: `incoming_buffers.remove(idx)` + `index.remove_initial(dst_cid)` -/
theorem sound_drop_pending {s : State} {idx : Nat} {p : Pending} {inc : Slab Pending} {ix : Index}
    (hs : Sound s) (hrem : s.incoming.remove idx = some (p, inc))
    (hri : s.index.removeInitial p.dcid = some ix) : Sound { s with incoming := inc, index := ix } := by
  obtain ⟨g0, g1, g2⟩ := Slab.remove_spec hrem
  obtain ⟨e1, e2, e3, e4, e5⟩ := removeInitial_spec hri
  constructor <;> (try simp only [e1, e2, e3, e4])
  all_goals (sound_facts hs; grind)

/-- `Endpoint::clean_up_incoming` (`ignore`, `refuse`, `retry`) -/
theorem sound_cleanUp {s s' : State} {idx : Nat} (hs : Sound s) (h : cleanUpIncoming s idx = some s') :
    Sound s' := by
  unfold cleanUpIncoming at h
  split at h
  · simp at h
  · rename_i p hp
    split at h
    · simp at h
    · rename_i ix hri
      split at h
      · simp at h
      · rename_i p' inc hrem
        simp only [Option.some.injEq] at h; subst h
        have : p' = p := by
          have := (Slab.remove_spec hrem).1; rw [hp] at this; cases this; rfl
        subst this
        exact sound_drop_pending hs hrem hri

theorem sound_refuse {s s' : State} {idx : Nat} {cands : List Cid} (hs : Sound s)
    (h : refuse s idx cands = some s') : Sound s' := by
  unfold refuse at h
  split at h
  · simp at h
  · rename_i s1 h1
    split at h
    · simp at h
    · simp only [Option.some.injEq] at h; subst h; exact sound_cleanUp hs h1

/-- `ids_sound` after adding connection `ch`: every new entry of the CID table belongs to the new meta -/
theorem ids_sound_add {conns conns' : Slab Meta} {ids ids' : List (Cid × Nat)} {ch : Nat} {mN : Meta}
    {loc : Cid} {pref : Option Cid}
    (hold : ∀ c h, alookup c ids = some h → ∃ m q, conns.get h = some m ∧ alookup q m.locCids = some c)
    (a2 : conns.get ch = none) (a3 : conns'.get ch = some mN) (a4 : ∀ k, k ≠ ch → conns'.get k = conns.get k)
    (lc : ∀ q c, alookup q mN.locCids = some c ↔ ((q = 0 ∧ c = loc) ∨ (q = 1 ∧ pref = some c)))
    (hids : ∀ c h, alookup c ids' = some h → alookup c ids = some h ∨ (h = ch ∧ (c = loc ∨ pref = some c))) :
    ∀ c h, alookup c ids' = some h → ∃ m q, conns'.get h = some m ∧ alookup q m.locCids = some c := by
  intro c h hc
  rcases hids c h hc with h1 | ⟨rfl, h2⟩
  · obtain ⟨m0, q, g1, g2⟩ := hold c h h1
    have : h ≠ ch := by intro e; subst e; rw [a2] at g1; cases g1
    exact ⟨m0, q, by rw [a4 h this]; exact g1, g2⟩
  · rcases h2 with rfl | h2
    · exact ⟨mN, 0, a3, (lc 0 c).mpr (Or.inl ⟨rfl, rfl⟩)⟩
    · exact ⟨mN, 1, a3, (lc 1 c).mpr (Or.inr ⟨rfl, h2⟩)⟩

/-- the success path of `Endpoint::accept` up to and including `index.insert_initial` -/
theorem sound_add_server {s s1 s2 s3 : State} {idx ch : Nat} {p : Pending} {inc : Slab Pending}
    {loc : Cid} {cands c1 : List Cid} {pref : Option Cid}
    (hs : Sound s) (hrem : s.incoming.remove idx = some (p, inc))
    (hnew : newCid { s with incoming := inc } ch cands = some (loc, s1, c1))
    (hpref : (pref = none ∧ s2 = s1) ∨ (∃ cid c2, pref = some cid ∧ newCid s1 ch c1 = some (cid, s2, c2)))
    (hadd : addConnection s2 ch p.dcid loc p.addresses .server pref = some s3) :
    Sound { s3 with index := s3.index.insertInitial p.dcid ch } := by
  obtain ⟨g0, g1, g2⟩ := Slab.remove_spec hrem
  obtain ⟨a1, a2, a3, a4, a5, a6, a7, a8⟩ := addConnection_spec hadd
  have lc := newMeta_locCids p.dcid loc p.addresses .server pref
  obtain ⟨f1, f2, f3, f4, f5, f6⟩ := newMeta_fields p.dcid loc p.addresses .server pref
  generalize newMeta p.dcid loc p.addresses .server pref = mN at a3 lc f1 f2 f3 f4 f5 f6
  have hii : ∀ k, alookup k (s3.index.insertInitial p.dcid ch).idsInitial =
      if p.dcid ≠ [] ∧ p.dcid = k then some (.connection ch) else alookup k s3.index.idsInitial := by
    intro k
    unfold Index.insertInitial
    by_cases he : p.dcid = []
    · simp [he]
    · have hie : p.dcid.isEmpty = false := by simpa using he
      simp only [hie, Bool.false_eq_true, if_false, alookup_ainsert, he, ne_eq, not_false_eq_true, true_and]
  have hio : (s3.index.insertInitial p.dcid ch).ids = s3.index.ids ∧
      (s3.index.insertInitial p.dcid ch).inRemotes = s3.index.inRemotes ∧
      (s3.index.insertInitial p.dcid ch).outRemotes = s3.index.outRemotes ∧
      (s3.index.insertInitial p.dcid ch).tokens = s3.index.tokens := by
    unfold Index.insertInitial; split <;> exact ⟨rfl, rfl, rfl, rfl⟩
  obtain ⟨o1, o2, o3, o4⟩ := hio
  rcases newCid_spec hnew with ⟨rfl, h0, rfl⟩ | ⟨hne, h0, hnone, rfl⟩
  · -- zero-length CIDs
    have hp : s2 = { s with incoming := inc } ∧ (pref = none ∨ pref = some []) := by
      rcases hpref with ⟨rfl, rfl⟩ | ⟨cid, c2, rfl, hn2⟩
      · exact ⟨rfl, Or.inl rfl⟩
      · rcases newCid_spec hn2 with ⟨rfl, -, rfl⟩ | ⟨-, h0', -, -⟩
        · exact ⟨rfl, Or.inr rfl⟩
        · exact absurd h0 h0'
    obtain ⟨rfl, hpv⟩ := hp
    simp only [Index.insertConn, List.length_nil, if_true] at a8
    simp only [] at a2 a4 a5
    rw [a8] at hii o1 o2 o3 o4
    simp only [] at hii o1 o2 o3 o4
    constructor <;> (try simp only [a8]) <;> (try simp only [hii, o1, o2, o3, o4])
    · exact ids_sound_add hs.ids_sound a2 a3 a4 lc (fun c h hc => Or.inl hc)
    all_goals (sound_facts hs; grind [alookup_ainsert])
  · -- non-empty CIDs
    have hl : ¬ loc.length = 0 := by
      intro e; exact hne (List.eq_nil_of_length_eq_zero e)
    simp only [Index.insertConn, hl, if_false] at a8
    rw [a8] at hii o1 o2 o3 o4
    simp only [] at hii o1 o2 o3 o4
    rcases hpref with ⟨rfl, rfl⟩ | ⟨cid, c2, rfl, hn2⟩
    · simp only [] at a2 a4 a5
      constructor <;> (try simp only [a8]) <;> (try simp only [hii, o1, o2, o3, o4])
      · refine ids_sound_add hs.ids_sound a2 a3 a4 lc ?_
        intro c h hc; simp only [alookup_ainsert] at hc; grind
      all_goals (sound_facts hs; grind [alookup_ainsert])
    · rcases newCid_spec hn2 with ⟨-, h0', -⟩ | ⟨hne2, -, hnone2, rfl⟩
      · exact absurd h0' h0
      · simp only [alookup_ainsert] at hnone2
        simp only [] at a2 a4 a5
        constructor <;> (try simp only [a8]) <;> (try simp only [hii, o1, o2, o3, o4])
        · refine ids_sound_add hs.ids_sound a2 a3 a4 lc ?_
          intro c h hc; simp only [alookup_ainsert] at hc; grind
        all_goals (sound_facts hs; grind [alookup_ainsert])

/-- `Endpoint::accept`, every exit -/
theorem sound_accept {s s' : State} {idx : Nat} {mode : AcceptMode} {cands : List Cid} {r : AcceptResult}
    (hs : Sound s) (h : accept s idx mode cands = some (s', r)) : Sound s' := by
  unfold accept at h
  split at h
  · simp at h
  · rename_i p inc hrem
    have hfail : ∀ r0 : AcceptResult,
        (match ({ s with incoming := inc } : State).index.removeInitial p.dcid with
          | none => none
          | some ix => some ({ ({ s with incoming := inc } : State) with index := ix }, r0)) = some (s', r) →
        Sound s' := by
      intro r0 hf
      split at hf
      · simp at hf
      · rename_i ix hri
        simp only [Option.some.injEq, Prod.mk.injEq] at hf; obtain ⟨rfl, -⟩ := hf
        exact sound_drop_pending hs hrem hri
    dsimp only at h
    split at h
    · exact hfail _ h
    · split at h
      · split at h
        · simp at h
        · exact hfail _ h
      · split at h
        · exact hfail _ h
        · split at h
          · simp at h
          · rename_i loc s1 c1 hnew
            split at h
            · simp at h
            · rename_i pref s2 c2 hp
              have hpref : (pref = none ∧ s2 = s1) ∨
                  (∃ cid c2, pref = some cid ∧ newCid s1 s.conns.vacantKey c1 = some (cid, s2, c2)) := by
                split at hp
                · split at hp
                  · simp at hp
                  · rename_i cid s2' c2' hn2
                    simp only [Option.some.injEq, Prod.mk.injEq] at hp
                    obtain ⟨rfl, rfl, rfl⟩ := hp
                    exact Or.inr ⟨cid, _, rfl, hn2⟩
                · simp only [Option.some.injEq, Prod.mk.injEq] at hp
                  obtain ⟨rfl, rfl, rfl⟩ := hp
                  exact Or.inl ⟨rfl, rfl⟩
              split at h
              · simp at h
              · rename_i s3 hadd
                have hs4 := sound_add_server hs hrem hnew hpref hadd
                split at h
                · split at h
                  · rename_i s5 _ hdr _
                    simp only [Option.some.injEq, Prod.mk.injEq] at h; obtain ⟨rfl, -⟩ := h
                    exact sound_drained hs4 hdr
                  · simp at h
                · simp only [Option.some.injEq, Prod.mk.injEq] at h; obtain ⟨rfl, -⟩ := h
                  exact hs4

end QM.Index
