import QuinnModel.Lemmas.StreamsBasic
/-
C02 at the stream layer: an application that was refused (Blocked write, refused open) is told when the peer makes
room.  `drain` = the application calling `poll` until it reports nothing; the lemmas hold for EVERY state (hence after
every history of operations).
-/
namespace QM.Streams
set_option pp.structureInstances false

/-- call `poll` until it reports nothing (at most `fuel` events); `none` = a `poll` panicked -/
def drain : Nat → State → Option (List Event × State)
  | 0, s => some ([], s)
  | fuel + 1, s =>
    match s.poll with
    | none => none
    | some (s', none) => some ([], s')
    | some (s', some e) =>
      match drain fuel s' with
      | none => none
      | some (es, s'') => some (e :: es, s'')

/-- how many more events `poll` can report at most before it reports nothing -/
def pollMeasure (s : State) : Nat :=
  (if s.opened.bi then 1 else 0) + (if s.opened.uni then 1 else 0) + s.connectionBlocked.length + s.events.length

theorem length_dropLast_lt {α} (l : List α) (x : α) (h : l.getLast? = some x) : l.dropLast.length < l.length := by
  cases l with
  | nil => simp at h
  | cons a t => simp [List.length_dropLast]

/-- the `connection_blocked` loop: never touches the event queue, the `opened` flags or the credit counters; the
    list only shrinks, strictly when an event is produced -/
theorem pollBlocked_frame (n : Nat) : ∀ (s s' : State) (r : Option Event), s.pollBlocked n = some (s', r) →
    s'.events = s.events ∧ s'.opened = s.opened ∧ s'.writeLimit = s.writeLimit ∧
    s'.connectionBlocked.length ≤ s.connectionBlocked.length ∧
    (r.isSome → s'.connectionBlocked.length < s.connectionBlocked.length) := by
  induction n with
  | zero =>
    intro s s' r h
    simp only [State.pollBlocked, Option.some.injEq, Prod.mk.injEq] at h
    obtain ⟨rfl, rfl⟩ := h
    simp
  | succ n ih =>
    intro s s' r h
    unfold State.pollBlocked at h
    split at h
    · simp only [Option.some.injEq, Prod.mk.injEq] at h
      obtain ⟨rfl, rfl⟩ := h
      simp
    · rename_i id hl
      have hlt := length_dropLast_lt _ _ hl
      simp only at h
      split at h
      · rename_i x hx
        split at h
        · simp at h
        · split at h
          · simp only [Option.some.injEq, Prod.mk.injEq] at h
            obtain ⟨rfl, rfl⟩ := h
            refine ⟨rfl, rfl, rfl, ?_, fun _ => ?_⟩ <;> simp only [State.putSend] <;> omega
          · have := ih _ _ _ h
            simp only [State.putSend, State.writeLimit] at this ⊢
            obtain ⟨h1, h2, h3, h4, h5⟩ := this
            exact ⟨h1, h2, h3, by omega, fun hr => by have := h5 hr; omega⟩
      · have := ih _ _ _ h
        simp only [State.writeLimit] at this ⊢
        obtain ⟨h1, h2, h3, h4, h5⟩ := this
        exact ⟨h1, h2, h3, by omega, fun hr => by have := h5 hr; omega⟩

/-- one `poll`: either it reports nothing and the event queue was empty, or it reports an event, the measure drops,
    and every queued event is either the one reported or still queued -/
theorem poll_step (s s' : State) (r : Option Event) (h : s.poll = some (s', r)) :
    (r = none → s.events = []) ∧
    (∀ e', r = some e' → pollMeasure s' < pollMeasure s ∧ ∀ e ∈ s.events, e = e' ∨ e ∈ s'.events) := by
  unfold State.poll at h
  split at h
  · rename_i hb
    simp only [Option.some.injEq, Prod.mk.injEq] at h
    obtain ⟨rfl, rfl⟩ := h
    refine ⟨by simp, fun e' _ => ⟨?_, fun e he => Or.inr he⟩⟩
    cases hu' : s.opened.uni <;> simp [pollMeasure, Two.set, hb, hu'] <;> omega
  · split at h
    · rename_i hb hu
      simp only [Option.some.injEq, Prod.mk.injEq] at h
      obtain ⟨rfl, rfl⟩ := h
      refine ⟨by simp, fun e' _ => ⟨?_, fun e he => Or.inr he⟩⟩
      cases hb' : s.opened.bi <;> simp [pollMeasure, Two.set, hu, hb'] <;> omega
    · split at h
      · simp at h
      · rename_i wl hwl
        split at h
        · simp at h
        · rename_i s1 e1 hp
          simp only [Option.some.injEq, Prod.mk.injEq] at h
          obtain ⟨rfl, rfl⟩ := h
          unfold State.pollBlockedIf at hp
          split at hp
          · obtain ⟨h1, h2, _, _, h5⟩ := pollBlocked_frame _ _ _ _ hp
            refine ⟨by simp, fun e' _ => ⟨?_, fun e he => Or.inr (h1 ▸ he)⟩⟩
            have := h5 rfl
            simp only [pollMeasure, h1, h2]
            omega
          · simp at hp
        · rename_i s1 hp
          have hs1 : s1.events = s.events ∧ s1.opened = s.opened ∧ s1.connectionBlocked.length ≤ s.connectionBlocked.length := by
            unfold State.pollBlockedIf at hp
            split at hp
            · obtain ⟨h1, h2, _, h4, _⟩ := pollBlocked_frame _ _ _ _ hp
              exact ⟨h1, h2, h4⟩
            · simp only [Option.some.injEq, Prod.mk.injEq] at hp
              obtain ⟨rfl, _⟩ := hp
              simp
          obtain ⟨h1, h2, h4⟩ := hs1
          split at h
          · rename_i hev
            simp only [Option.some.injEq, Prod.mk.injEq] at h
            obtain ⟨rfl, rfl⟩ := h
            exact ⟨fun _ => by rw [← h1, hev], fun e' he' => by simp at he'⟩
          · rename_i e0 rest hev
            simp only [Option.some.injEq, Prod.mk.injEq] at h
            obtain ⟨rfl, rfl⟩ := h
            refine ⟨by simp, fun e' he' => ?_⟩
            simp only [Option.some.injEq] at he'
            subst he'
            refine ⟨?_, fun e he => ?_⟩
            · simp only [pollMeasure, h2]
              rw [← h1, hev]
              simp only [List.length_cons]
              omega
            · rw [← h1, hev] at he
              simpa using he

/-- a queued event is delivered: whatever else is pending, an application that polls until nothing is reported
    (and whose polls do not panic) is handed every event that was in the queue -/
theorem queued_event_delivered (fuel : Nat) : ∀ (s : State) (e : Event), e ∈ s.events → pollMeasure s ≤ fuel →
    ∀ es s', drain fuel s = some (es, s') → e ∈ es := by
  induction fuel with
  | zero =>
    intro s e he hm es s' _
    have : s.events.length = 0 := by simp only [pollMeasure] at hm; omega
    simp [List.length_eq_zero_iff.mp this] at he
  | succ fuel ih =>
    intro s e he hm es s' hd
    unfold drain at hd
    split at hd
    · simp at hd
    · rename_i s1 hp
      have := (poll_step _ _ _ hp).1 rfl
      simp [this] at he
    · rename_i s1 e1 hp
      obtain ⟨hlt, hmem⟩ := (poll_step _ _ _ hp).2 e1 rfl
      split at hd
      · simp at hd
      · rename_i es1 s2 hd1
        simp only [Option.some.injEq, Prod.mk.injEq] at hd
        obtain ⟨rfl, rfl⟩ := hd
        rcases hmem e he with rfl | he1
        · simp
        · exact List.mem_cons_of_mem _ (ih s1 e he1 (by omega) es1 _ hd1)

/-- MAX_STREAMS that makes room for an opener that is refused right now queues `Available` and un-refuses it -/
theorem receivedMaxStreams_available (s : State) (dir : Dir) (count : Nat)
    (hblocked : Gen.openExhausted (s.next.get dir) (s.max.get dir) = true)
    (hroom : s.next.get dir < count) (hrep : Gen.maxStreamsUnrepresentable count = false) :
    (s.receivedMaxStreams dir count).2 = none ∧
    Event.available dir ∈ (s.receivedMaxStreams dir count).1.events ∧
    Gen.openExhausted ((s.receivedMaxStreams dir count).1.next.get dir) ((s.receivedMaxStreams dir count).1.max.get dir) = false := by
  simp only [Gen.openExhausted, decide_eq_true_eq] at hblocked
  have hgt : count > s.max.get dir := by omega
  simp only [State.receivedMaxStreams, hrep, Bool.false_eq_true, ↓reduceIte, hgt, List.mem_append, List.mem_singleton,
    or_true, true_and, Gen.openExhausted, decide_eq_false_iff_not, Two.get_set]
  omega

/-- MAX_STREAM_DATA that raises the limit of a stream whose writer was refused for want of stream credit
    (`offset = max_data`): the application is told at once when connection-level budget exists, otherwise the stream
    is put on the list of streams `poll` reports `Writable` as soon as there is budget -/
theorem receivedMaxStreamData_unblocks (s : State) (id offset wl : Nat) (x : Send)
    (hx : s.send.find? id = some (some x)) (hready : x.state = .ready) (hblocked : x.pending.offset = x.maxData)
    (hraise : x.maxData < offset) (hlocal : sidInitiator id = s.side) (hwl : s.writeLimit = some wl)
    (hinv : x.connectionBlocked = true → id ∈ s.connectionBlocked) :
    ∃ s', s.receivedMaxStreamData id offset = some (s', none) ∧
      (0 < wl → Event.writable id ∈ s'.events) ∧
      (wl = 0 → id ∈ s'.connectionBlocked ∧
        ∃ x', s'.send.find? id = some (some x') ∧ x'.connectionBlocked = true ∧ x'.maxData = offset ∧ x'.pending.offset = x.pending.offset ∧ x'.state = x.state) := by
  have hinc : x.increaseMaxData offset = ({ x with maxData := offset }, true) := by
    have : ¬ offset ≤ x.maxData := by omega
    simp [Send.increaseMaxData, this, hready, hblocked]
  have hgo : s.getOrInsertSend id = some (x, s) := by simp [State.getOrInsertSend, hx]
  have hosf : ∀ t : State, t.side = s.side → t.onStreamFrame false id = t := by
    intro t ht
    simp [State.onStreamFrame, hlocal, ht]
  unfold State.receivedMaxStreamData
  simp only [hlocal, ne_eq, not_true_eq_false, decide_false, Bool.false_and, Bool.false_eq_true, ↓reduceIte,
    Bool.and_false, hwl, hgo, hinc]
  by_cases h0 : 0 < wl
  · refine ⟨_, rfl, fun _ => ?_, fun h => by omega⟩
    rw [hosf _ (by simp [State.afterUnblock, h0, State.putSend])]
    simp [State.afterUnblock, h0]
  · have hz : wl = 0 := by omega
    subst hz
    refine ⟨_, rfl, fun h => by omega, fun _ => ?_⟩
    by_cases hcb : x.connectionBlocked = true
    · rw [hosf _ (by simp [State.afterUnblock, hcb, State.putSend])]
      simp only [State.afterUnblock, ↓reduceIte, Nat.lt_irrefl, hcb, Bool.not_true, Bool.false_eq_true, State.putSend]
      exact ⟨hinv hcb, _, Map.find?_set_self _ _ _ _ hx, rfl, rfl, rfl, rfl⟩
    · have hcb' : x.connectionBlocked = false := by simpa using hcb
      rw [hosf _ (by simp [State.afterUnblock, hcb', State.putSend])]
      simp only [State.afterUnblock, ↓reduceIte, Nat.lt_irrefl, hcb', Bool.not_false, State.putSend]
      have h1 := Map.find?_set_self s.send id (some { x with maxData := offset, connectionBlocked := false }) (some x) hx
      exact ⟨by simp, _, Map.find?_set_self _ id _ _ h1, rfl, rfl, rfl, rfl⟩


theorem mem_dropLast_of_ne_last {α} (l : List α) (a b : α) (hl : l.getLast? = some b) (ha : a ∈ l) (hne : a ≠ b) :
    a ∈ l.dropLast := by
  induction l with
  | nil => simp at ha
  | cons c t ih =>
    cases t with
    | nil =>
      simp only [List.getLast?_singleton, Option.some.injEq] at hl
      simp only [List.mem_singleton] at ha
      exact absurd (ha.trans hl) hne
    | cons d t' =>
      simp only [List.dropLast_cons₂, List.mem_cons] at ha ⊢
      rcases ha with rfl | ha
      · exact Or.inl rfl
      · right
        have hl' : (d :: t').getLast? = some b := by simpa [List.getLast?_cons_cons] using hl
        simpa using ih hl' (by simpa using ha)

/-- the `connection_blocked` loop reports a listed stream that can take data (still writable, stream credit left),
    or reports another stream and leaves this one listed and untouched; it never ends silently while it is listed -/
theorem pollBlocked_reports (n : Nat) : ∀ (s s' : State) (r : Option Event) (id : Nat) (x : Send),
    s.connectionBlocked.length < n → id ∈ s.connectionBlocked → s.send.find? id = some (some x) →
    x.isWritable = true → x.pending.offset < x.maxData → s.pollBlocked n = some (s', r) →
    r = some (.writable id) ∨ (r.isSome ∧ id ∈ s'.connectionBlocked ∧ s'.send.find? id = some (some x)) := by
  induction n with
  | zero => intro s s' r id x hn; omega
  | succ n ih =>
    intro s s' r id x hn hmem hx hw hc h
    unfold State.pollBlocked at h
    split at h
    · rename_i hl
      simp only [List.getLast?_eq_none_iff] at hl
      simp [hl] at hmem
    · rename_i j hl
      have hlt := length_dropLast_lt _ _ hl
      simp only at h
      by_cases hj : id = j
      · subst hj
        simp only [hx] at h
        split at h
        · simp at h
        · have hcr : decide (x.maxData > Send.offset { x with connectionBlocked := false }) = true := by
            simp [Send.offset]; exact hc
          have hw' : Send.isWritable { x with connectionBlocked := false } = true := by simpa [Send.isWritable] using hw
          simp only [hw', hcr, Bool.and_self, ↓reduceIte, Option.some.injEq, Prod.mk.injEq] at h
          exact Or.inl h.2.symm
      · have hmem' : id ∈ s.connectionBlocked.dropLast := mem_dropLast_of_ne_last _ _ _ hl hmem hj
        split at h
        · rename_i y hy
          split at h
          · simp at h
          · have hx' : (s.send.set j (some { y with connectionBlocked := false })).find? id = some (some x) := by
              rw [Map.find?_set_ne _ _ _ _ hj]; exact hx
            split at h
            · simp only [Option.some.injEq, Prod.mk.injEq] at h
              obtain ⟨rfl, rfl⟩ := h
              exact Or.inr ⟨rfl, hmem', hx'⟩
            · exact ih _ _ _ id x (by simp only [State.putSend]; omega) hmem' hx' hw hc h
        · exact ih { s with connectionBlocked := s.connectionBlocked.dropLast } s' r id x (by show s.connectionBlocked.dropLast.length < n; omega) hmem' hx hw hc h

/-- one `poll` with connection-level budget while a stream that can take data is on the blocked list: it reports an
    event, and that event is `Writable` for the stream unless the stream is still listed, untouched, with the budget -/
theorem poll_blocked_case (s s' : State) (r : Option Event) (id : Nat) (x : Send) (wl : Nat)
    (hmem : id ∈ s.connectionBlocked) (hx : s.send.find? id = some (some x)) (hw : x.isWritable = true)
    (hc : x.pending.offset < x.maxData) (hwl : s.writeLimit = some wl) (hpos : 0 < wl) (h : s.poll = some (s', r)) :
    ∃ e, r = some e ∧ (e = .writable id ∨
      (id ∈ s'.connectionBlocked ∧ s'.send.find? id = some (some x) ∧ s'.writeLimit = some wl)) := by
  unfold State.poll at h
  split at h
  · simp only [Option.some.injEq, Prod.mk.injEq] at h
    obtain ⟨rfl, rfl⟩ := h
    exact ⟨_, rfl, Or.inr ⟨hmem, hx, by simpa [State.writeLimit] using hwl⟩⟩
  · split at h
    · simp only [Option.some.injEq, Prod.mk.injEq] at h
      obtain ⟨rfl, rfl⟩ := h
      exact ⟨_, rfl, Or.inr ⟨hmem, hx, by simpa [State.writeLimit] using hwl⟩⟩
    · simp only [hwl, hpos, decide_true, State.pollBlockedIf, ↓reduceIte] at h
      split at h
      · simp at h
      · rename_i s1 e1 hp
        simp only [Option.some.injEq, Prod.mk.injEq] at h
        obtain ⟨rfl, rfl⟩ := h
        have hfr := pollBlocked_frame _ _ _ _ hp
        rcases pollBlocked_reports _ _ _ _ id x (by omega) hmem hx hw hc hp with h1 | ⟨_, h2, h3⟩
        · exact ⟨_, rfl, Or.inl (by simpa using h1)⟩
        · exact ⟨_, rfl, Or.inr ⟨h2, h3, by rw [hfr.2.2.1]; exact hwl⟩⟩
      · rename_i s1 hp
        rcases pollBlocked_reports _ _ _ _ id x (by omega) hmem hx hw hc hp with h1 | ⟨h1, _⟩ <;> simp at h1

/-- connection-level credit (MAX_DATA, acknowledgements, a larger send window) reaches a stream whose writer was
    refused: once `write_limit > 0`, an application that polls until nothing is reported is told `Writable` for every
    stream on the blocked list that can take data -/
theorem blocked_stream_reported (fuel : Nat) : ∀ (s : State) (id : Nat) (x : Send) (wl : Nat),
    id ∈ s.connectionBlocked → s.send.find? id = some (some x) → x.isWritable = true → x.pending.offset < x.maxData →
    s.writeLimit = some wl → 0 < wl → pollMeasure s ≤ fuel →
    ∀ es s', drain fuel s = some (es, s') → Event.writable id ∈ es := by
  induction fuel with
  | zero =>
    intro s id x wl hmem _ _ _ _ _ hm
    have : s.connectionBlocked.length = 0 := by simp only [pollMeasure] at hm; omega
    simp [List.length_eq_zero_iff.mp this] at hmem
  | succ fuel ih =>
    intro s id x wl hmem hx hw hc hwl hpos hm es s' hd
    unfold drain at hd
    split at hd
    · simp at hd
    · rename_i s1 hp
      obtain ⟨e, he, _⟩ := poll_blocked_case _ _ _ id x wl hmem hx hw hc hwl hpos hp
      simp at he
    · rename_i s1 e1 hp
      obtain ⟨e, he, hcase⟩ := poll_blocked_case _ _ _ id x wl hmem hx hw hc hwl hpos hp
      simp only [Option.some.injEq] at he
      subst he
      have hlt := ((poll_step _ _ _ hp).2 e1 rfl).1
      split at hd
      · simp at hd
      · rename_i es1 s2 hd1
        simp only [Option.some.injEq, Prod.mk.injEq] at hd
        obtain ⟨rfl, rfl⟩ := hd
        rcases hcase with rfl | ⟨h1, h2, h3⟩
        · simp
        · exact List.mem_cons_of_mem _ (ih s1 id x wl h1 h2 hw hc h3 hpos (by omega) es1 _ hd1)

end QM.Streams
