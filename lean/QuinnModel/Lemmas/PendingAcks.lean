import QuinnModel.Data.PendingAcks
/-
Proofs about the PendingAcks / ArrayRangeSet model: the number of pending ACK ranges never exceeds MAX_ACK_BLOCKS,
no panic for packet numbers off the wire, and the set representation stays sorted, disjoint and non-adjacent
(which is also what makes the `partition_point` modelling exact).
-/
namespace QM.PendingAcks
open QM

theorem mergeLoop_length (cur : Range) : ∀ t : RangeSet, (mergeLoop cur t).length ≤ t.length + 1 := by
  intro t
  induction t generalizing cur with
  | nil => simp [mergeLoop]
  | cons n t ih =>
    unfold mergeLoop
    split
    · have := ih (cur.1, Nat.max n.2 cur.2); simp only [List.length_cons]; omega
    · simp

theorem rsInsert_length (l : RangeSet) (x : Range) : (rsInsert l x).1.length ≤ l.length + 1 := by
  unfold rsInsert
  split
  · simp
  · simp only
    have hl : l.length = (l.takeWhile (fun r => decide (r.2 < x.1))).length +
        (l.dropWhile (fun r => decide (r.2 < x.1))).length := by
      rw [← List.length_append, List.takeWhile_append_dropWhile]
    split
    · rename_i h; rw [h] at hl; simp only [List.length_append, List.length_singleton, List.length_nil] at *; omega
    · rename_i range rest h
      rw [h] at hl
      simp only [List.length_cons] at hl
      by_cases h1 : x.2 < range.1
      · simp only [h1, if_true, List.length_append, List.length_cons]; omega
      · simp only [h1, if_false]
        generalize (if range.1 > x.1 then (x.1, range.2) else range) = range1
        by_cases h2 : x.2 ≤ range1.2
        · simp only [h2, if_true, List.length_append, List.length_cons]; omega
        · simp only [h2, if_false, List.length_append]
          have := mergeLoop_length (range1.1, x.2) rest
          omega

theorem removeLoop_zero_length (x : Range) (hx : x.1 = 0) : ∀ t : RangeSet, (removeLoop x t).1.length ≤ t.length := by
  intro t
  induction t with
  | nil => simp [removeLoop]
  | cons r t ih =>
    unfold removeLoop
    split
    · simp
    · have hle : rangeEmpty (r.1, x.1) = true := by simp [rangeEmpty, hx]
      simp only [hle, Bool.true_and, if_true]
      split <;> simp only [List.length_cons] <;> omega

theorem rsRemove_zero_length (l : RangeSet) (e : Nat) : (rsRemove l (0, e)).1.length ≤ l.length := by
  unfold rsRemove
  split
  · simp
  · simp only
    have hl : l.length = (l.takeWhile (fun r => decide (r.2 ≤ 0))).length +
        (l.dropWhile (fun r => decide (r.2 ≤ 0))).length := by
      rw [← List.length_append, List.takeWhile_append_dropWhile]
    have := removeLoop_zero_length (0, e) rfl (l.dropWhile (fun r => decide (r.2 ≤ 0)))
    simp only [List.length_append]; omega

/-- `insert_one` of a packet number off the wire never panics and keeps the cap -/
theorem insertOne_bound (s : State) (packet now : Nat) (hp : packet < 2^62) (hb : s.ranges.length ≤ Gen.maxAckBlocks) :
    ∃ s', insertOne s packet now = some s' ∧ s'.ranges.length ≤ Gen.maxAckBlocks := by
  unfold insertOne
  have : ¬ (packet + 1 ≥ U64) := by simp only [U64]; omega
  simp only [this, if_false]
  refine ⟨_, rfl, ?_⟩
  simp only
  have hi := rsInsert_length s.ranges (packet, packet + 1)
  split
  · rename_i hgt
    cases hr : (rsInsert s.ranges (packet, packet + 1)).1 with
    | nil => simp [rsPopMin]
    | cons a t => rw [hr] at hi; simp only [rsPopMin, List.length_cons] at *; omega
  · rename_i hle
    have : ¬ ((rsInsert s.ranges (packet, packet + 1)).1.length > Gen.maxAckBlocks) := by
      simpa [Gen.pendingAcksOverCap] using hle
    omega

theorem subtractBelow_bound (s : State) (max : Nat) (hp : max < 2^62) (hb : s.ranges.length ≤ Gen.maxAckBlocks) :
    ∃ s', subtractBelow s max = some s' ∧ s'.ranges.length ≤ Gen.maxAckBlocks := by
  unfold subtractBelow
  have : ¬ (max + 1 ≥ U64) := by simp only [U64]; omega
  simp only [this, if_false]
  refine ⟨_, rfl, ?_⟩
  have := rsRemove_zero_length s.ranges (max + 1)
  simp only; omega

/-! ### the representation invariant -/

/-- non-empty ranges, ascending, with at least one missing value between neighbours -/
def WF (l : RangeSet) : Prop := (∀ r ∈ l, r.1 < r.2) ∧ l.Pairwise (fun a b => a.2 < b.1)

theorem mem_takeWhile_imp (p : Range → Bool) : ∀ (l : RangeSet) (a : Range), a ∈ l.takeWhile p → p a = true := by
  intro l
  induction l with
  | nil => intro a h; simp at h
  | cons x t ih =>
    intro a h
    rw [List.takeWhile_cons] at h
    split at h
    · rename_i hp
      rcases List.mem_cons.mp h with rfl | h
      · exact hp
      · exact ih a h
    · simp at h

theorem dropWhile_head (p : Range → Bool) (l : RangeSet) (r : Range) (rest : RangeSet)
    (h : l.dropWhile p = r :: rest) : p r = false := by
  have := List.head?_dropWhile_not p l
  rw [h] at this
  simpa using this

theorem WF_append (l1 l2 : RangeSet) (h1 : WF l1) (h2 : WF l2) (hx : ∀ a ∈ l1, ∀ b ∈ l2, a.2 < b.1) :
    WF (l1 ++ l2) := by
  refine ⟨?_, List.pairwise_append.mpr ⟨h1.2, h2.2, hx⟩⟩
  intro r hr
  rcases List.mem_append.mp hr with h | h
  · exact h1.1 r h
  · exact h2.1 r h

theorem WF_split (p : Range → Bool) (l : RangeSet) (h : WF l) :
    WF (l.takeWhile p) ∧ WF (l.dropWhile p) ∧ ∀ a ∈ l.takeWhile p, ∀ b ∈ l.dropWhile p, a.2 < b.1 := by
  have e : l.takeWhile p ++ l.dropWhile p = l := List.takeWhile_append_dropWhile
  have hp := h.2
  rw [← e, List.pairwise_append] at hp
  refine ⟨⟨fun r hr => h.1 r ((List.takeWhile_sublist p).subset hr), hp.1⟩,
    ⟨fun r hr => h.1 r ((List.dropWhile_sublist p).subset hr), hp.2.1⟩, hp.2.2⟩

theorem WF_cons (r : Range) (t : RangeSet) (hr : r.1 < r.2) (ht : WF t) (hx : ∀ b ∈ t, r.2 < b.1) : WF (r :: t) := by
  refine ⟨?_, List.pairwise_cons.mpr ⟨hx, ht.2⟩⟩
  intro a ha
  rcases List.mem_cons.mp ha with rfl | ha
  · exact hr
  · exact ht.1 a ha

theorem WF_tail (r : Range) (t : RangeSet) (h : WF (r :: t)) : r.1 < r.2 ∧ WF t ∧ ∀ b ∈ t, r.2 < b.1 := by
  have := List.pairwise_cons.mp h.2
  exact ⟨h.1 r (by simp), ⟨fun a ha => h.1 a (by simp [ha]), this.2⟩, this.1⟩

theorem mergeLoop_wf : ∀ (rest : RangeSet) (cur : Range), cur.1 < cur.2 → WF rest → (∀ b ∈ rest, cur.1 < b.1) →
    WF (mergeLoop cur rest) ∧ ∀ b ∈ mergeLoop cur rest, cur.1 ≤ b.1 := by
  intro rest
  induction rest with
  | nil =>
    intro cur hc _ _
    simp only [mergeLoop]
    exact ⟨WF_cons cur [] hc ⟨by simp, by simp⟩ (by simp), by simp⟩
  | cons next t ih =>
    intro cur hc hw hb
    obtain ⟨hn, hwt, hnt⟩ := WF_tail next t hw
    unfold mergeLoop
    split
    · have := ih (cur.1, Nat.max next.2 cur.2) (Nat.lt_of_lt_of_le hc (Nat.le_max_right _ _)) hwt
        (fun b hb' => hb b (by simp [hb']))
      exact this
    · rename_i hlt
      refine ⟨WF_cons cur (next :: t) hc hw ?_, ?_⟩
      · intro b hb'
        rcases List.mem_cons.mp hb' with rfl | hb'
        · omega
        · have := hnt b hb'; omega
      · intro b hb'
        rcases List.mem_cons.mp hb' with rfl | hb'
        · exact Nat.le_refl _
        · exact Nat.le_of_lt (hb b hb')

/-- `ArrayRangeSet::insert` keeps the representation invariant -/
theorem rsInsert_wf (l : RangeSet) (x : Range) (h : WF l) : WF (rsInsert l x).1 := by
  unfold rsInsert
  split
  · exact h
  · rename_i hne
    have hx : x.1 < x.2 := by simp [rangeEmpty] at hne; omega
    simp only
    obtain ⟨hpre, hpost, hcross⟩ := WF_split (fun r => decide (r.2 < x.1)) l h
    have hprex : ∀ a ∈ l.takeWhile (fun r => decide (r.2 < x.1)), a.2 < x.1 := by
      intro a ha
      have := mem_takeWhile_imp _ l a ha
      simpa using this
    split
    · exact WF_append _ _ hpre (WF_cons x [] hx ⟨by simp, by simp⟩ (by simp))
        (fun a ha b hb => by simp only [List.mem_singleton] at hb; subst hb; exact hprex a ha)
    · rename_i range rest hd
      rw [hd] at hpost hcross
      have hrh : ¬ range.2 < x.1 := by
        have := dropWhile_head _ l range rest hd
        simpa using this
      obtain ⟨hr, hwr, hrr⟩ := WF_tail range rest hpost
      by_cases h1 : x.2 < range.1
      · simp only [h1, if_true]
        apply WF_append _ _ hpre
        · apply WF_cons x _ hx hpost
          intro b hb
          rcases List.mem_cons.mp hb with rfl | hb
          · exact h1
          · have := hrr b hb; omega
        · intro a ha b hb
          rcases List.mem_cons.mp hb with rfl | hb
          · exact hprex a ha
          · exact hcross a ha b hb
      · simp only [h1, if_false]
        have hr1 : ∀ range1 : Range, range1 = (if range.1 > x.1 then (x.1, range.2) else range) →
            range1.1 ≤ range.1 ∧ range1.1 ≤ x.1 ∧ range1.2 = range.2 ∧
            (∀ a ∈ l.takeWhile (fun r => decide (r.2 < x.1)), a.2 < range1.1) := by
          intro range1 he
          by_cases hg : range.1 > x.1
          · rw [if_pos hg] at he; rw [he]
            exact ⟨by simp only; omega, Nat.le_refl _, rfl, hprex⟩
          · rw [if_neg hg] at he; rw [he]
            exact ⟨Nat.le_refl _, by omega, rfl, fun a ha => hcross a ha range (by simp)⟩
        generalize hg1 : (if range.1 > x.1 then (x.1, range.2) else range) = range1
        obtain ⟨g1, g2, g3, g4⟩ := hr1 range1 hg1.symm
        by_cases h2 : x.2 ≤ range1.2
        · simp only [h2, if_true]
          apply WF_append _ _ hpre
          · exact WF_cons range1 rest (by omega) hwr (fun b hb => by have := hrr b hb; omega)
          · intro a ha b hb
            rcases List.mem_cons.mp hb with rfl | hb
            · exact g4 a ha
            · exact hcross a ha b (by simp [hb])
        · simp only [h2, if_false]
          obtain ⟨m1, m2⟩ := mergeLoop_wf rest (range1.1, x.2) (by simp only; omega) hwr
            (fun b hb => by have := hrr b hb; simp only; omega)
          apply WF_append _ _ hpre m1
          intro a ha b hb
          have := m2 b hb
          have := g4 a ha
          simp only at *
          omega

/-- every range left by the loop of `remove` lies inside one of the ranges it started from -/
theorem removeLoop_wf (x : Range) (hx : x.1 < x.2) : ∀ t : RangeSet, WF t → (∀ r ∈ t, x.1 < r.2) →
    WF (removeLoop x t).1 ∧ ∀ b ∈ (removeLoop x t).1, ∃ r ∈ t, r.1 ≤ b.1 ∧ b.2 ≤ r.2 := by
  intro t
  induction t with
  | nil => intro _ _; simp [removeLoop, WF]
  | cons range t ih =>
    intro hw hgt
    have hg0 := hgt range (by simp)
    obtain ⟨hr, hwt, hrt⟩ := WF_tail range t hw
    obtain ⟨iw, ic⟩ := ih hwt (fun r hr' => hgt r (by simp [hr']))
    unfold removeLoop
    split
    · exact ⟨hw, fun b hb => ⟨b, hb, Nat.le_refl _, Nat.le_refl _⟩⟩
    · rename_i hov
      have hlater : ∀ b ∈ (removeLoop x t).1, range.2 < b.1 := by
        intro b hb
        obtain ⟨r, hr', h1, _⟩ := ic b hb
        have := hrt r hr'; omega
      have hsub : ∀ b ∈ (removeLoop x t).1, ∃ r ∈ range :: t, r.1 ≤ b.1 ∧ b.2 ≤ r.2 := by
        intro b hb
        obtain ⟨r, hr', h1, h2⟩ := ic b hb
        exact ⟨r, by simp [hr'], h1, h2⟩
      simp only
      by_cases hl : rangeEmpty (range.1, x.1) = true <;> by_cases hrr : rangeEmpty (x.2, range.2) = true
      · simp only [hl, hrr, Bool.and_self, if_true]
        exact ⟨iw, hsub⟩
      · simp only [hl, hrr, Bool.and_false, Bool.false_eq_true, if_false, if_true]
        have hne : x.2 < range.2 := by simp [rangeEmpty] at hrr; omega
        refine ⟨WF_cons _ _ hne iw (fun b hb => hlater b hb), ?_⟩
        intro b hb
        rcases List.mem_cons.mp hb with rfl | hb
        · exact ⟨range, by simp, by simp only; omega, Nat.le_refl _⟩
        · exact hsub b hb
      · simp only [hl, hrr, Bool.false_and, Bool.false_eq_true, if_false, if_true]
        have hne : range.1 < x.1 := by simp [rangeEmpty] at hl; omega
        have hre : x.2 ≥ range.2 := by simp [rangeEmpty] at hrr; omega
        refine ⟨WF_cons _ _ hne iw (fun b hb => by have := hlater b hb; simp only; omega), ?_⟩
        intro b hb
        rcases List.mem_cons.mp hb with rfl | hb
        · exact ⟨range, by simp, Nat.le_refl _, by simp only; omega⟩
        · exact hsub b hb
      · simp only [hl, hrr, Bool.and_self, Bool.false_eq_true, if_false]
        have hne1 : range.1 < x.1 := by simp [rangeEmpty] at hl; omega
        have hne2 : x.2 < range.2 := by simp [rangeEmpty] at hrr; omega
        refine ⟨WF_cons _ _ hne1 (WF_cons _ _ hne2 iw (fun b hb => hlater b hb)) ?_, ?_⟩
        · intro b hb
          rcases List.mem_cons.mp hb with rfl | hb
          · exact hx
          · have := hlater b hb; simp only; omega
        · intro b hb
          rcases List.mem_cons.mp hb with rfl | hb
          · exact ⟨range, by simp, Nat.le_refl _, by simp only; omega⟩
          · rcases List.mem_cons.mp hb with rfl | hb
            · exact ⟨range, by simp, by simp only; omega, Nat.le_refl _⟩
            · exact hsub b hb

/-- `ArrayRangeSet::remove` keeps the representation invariant -/
theorem rsRemove_wf (l : RangeSet) (x : Range) (h : WF l) : WF (rsRemove l x).1 := by
  unfold rsRemove
  split
  · exact h
  · rename_i hne
    have hx : x.1 < x.2 := by simp [rangeEmpty] at hne; omega
    simp only
    obtain ⟨hpre, hpost, hcross⟩ := WF_split (fun r => decide (r.2 ≤ x.1)) l h
    have hgt : ∀ r ∈ l.dropWhile (fun r => decide (r.2 ≤ x.1)), x.1 < r.2 := by
      cases hd : l.dropWhile (fun r => decide (r.2 ≤ x.1)) with
      | nil => intro r hr; simp at hr
      | cons hd0 rest =>
        rw [hd] at hpost
        have h0 : ¬ hd0.2 ≤ x.1 := by
          have := dropWhile_head _ l hd0 rest hd
          simpa using this
        obtain ⟨_, hwr, hrr⟩ := WF_tail hd0 rest hpost
        intro r hr
        rcases List.mem_cons.mp hr with rfl | hr
        · omega
        · have := hrr r hr
          have := hwr.1 r hr
          omega
    obtain ⟨w, c⟩ := removeLoop_wf x hx _ hpost hgt
    apply WF_append _ _ hpre w
    intro a ha b hb
    obtain ⟨r, hr, h1, _⟩ := c b hb
    have := hcross a ha r hr
    omega

theorem rsPopMin_wf (l : RangeSet) (h : WF l) : WF (rsPopMin l).1 := by
  cases l with
  | nil => exact h
  | cons r t => exact (WF_tail r t h).2.1

theorem insertOne_wf (s s' : State) (packet now : Nat) (h : WF s.ranges) (he : insertOne s packet now = some s') :
    WF s'.ranges := by
  unfold insertOne at he
  split at he
  · simp at he
  · simp only [Option.some.injEq] at he
    subst he
    simp only
    split
    · exact rsPopMin_wf _ (rsInsert_wf _ _ h)
    · exact rsInsert_wf _ _ h

theorem subtractBelow_wf (s s' : State) (max : Nat) (h : WF s.ranges) (he : subtractBelow s max = some s') :
    WF s'.ranges := by
  unfold subtractBelow at he
  split at he
  · simp at he
  · simp only [Option.some.injEq] at he
    subst he
    exact rsRemove_wf _ _ h

inductive Op where
  | insert (packet now : Nat)
  | sub (max : Nat)
deriving Repr

/-- packet numbers come off the wire: below 2^62 -/
def Op.valid : Op → Prop
  | .insert p _ => p < 2^62
  | .sub m => m < 2^62

def step (s : State) : Op → Option State
  | .insert p n => insertOne s p n
  | .sub m => subtractBelow s m

def run : State → List Op → Option State
  | s, [] => some s
  | s, op :: ops => match step s op with
    | none => none
    | some s' => run s' ops

theorem run_bound (ops : List Op) : ∀ s, s.ranges.length ≤ Gen.maxAckBlocks → WF s.ranges → (∀ op ∈ ops, op.valid) →
    ∃ s', run s ops = some s' ∧ s'.ranges.length ≤ Gen.maxAckBlocks ∧ WF s'.ranges := by
  induction ops with
  | nil => intro s h hw _; exact ⟨s, rfl, h, hw⟩
  | cons op ops ih =>
    intro s h hw hv
    have hop := hv op (by simp)
    have : ∃ s1, step s op = some s1 ∧ s1.ranges.length ≤ Gen.maxAckBlocks ∧ WF s1.ranges := by
      cases op with
      | insert p n =>
        obtain ⟨s1, e, b⟩ := insertOne_bound s p n hop h
        exact ⟨s1, e, b, insertOne_wf s s1 p n hw e⟩
      | sub m =>
        obtain ⟨s1, e, b⟩ := subtractBelow_bound s m hop h
        exact ⟨s1, e, b, subtractBelow_wf s s1 m hw e⟩
    obtain ⟨s1, h1, hb1, hw1⟩ := this
    obtain ⟨s2, h2, hb2, hw2⟩ := ih s1 hb1 hw1 (fun o ho => hv o (by simp [ho]))
    exact ⟨s2, by simp only [run, h1, h2], hb2, hw2⟩

end QM.PendingAcks
