import QuinnModel.Endpoint.BloomLog
/- Single use of validation tokens through `BloomTokenLog`, over arbitrary histories. -/
namespace QM.BloomLog

/-! ### one filter -/

theorem Filter.items_mono (f : Filter) (fp b : Nat) (o m : Bool) (x : Nat) (hx : x ∈ f.items) :
    x ∈ (f.checkAndInsert fp b o m).1.items := by
  unfold Filter.checkAndInsert
  split
  · split
    · exact hx
    · exact List.mem_cons_of_mem _ hx
  · split
    · exact hx
    · dsimp only
      split <;> exact List.mem_cons_of_mem _ hx

/-- a fingerprint the filter holds is refused: no false negatives, in either mode -/
theorem Filter.mem_refused (f : Filter) (fp b : Nat) (o m : Bool) (hx : fp ∈ f.items) :
    (f.checkAndInsert fp b o m).2 = false := by
  simp [Filter.checkAndInsert, hx]

/-- after any call the filter holds the fingerprint -/
theorem Filter.mem_after (f : Filter) (fp b : Nat) (o m : Bool) :
    fp ∈ (f.checkAndInsert fp b o m).1.items := by
  unfold Filter.checkAndInsert
  split
  · split
    · assumption
    · exact List.mem_cons_self
  · split
    · assumption
    · dsimp only
      split <;> exact List.mem_cons_self

/-! ### the two-period log -/

/-- Every (fingerprint, issue time) accepted so far is either behind period 1 (and will be refused as
    "too far in past") or listed in the filter of the period its expiry falls into. -/
def Inv (L : Nat) (s : State) (seen : Nat × Nat → Prop) : Prop :=
  ∀ fp i, seen (fp, i) →
    i + L < s.p1 ∨ (s.p1 ≤ i + L ∧ i + L < s.p1 + L ∧ fp ∈ s.f1.items)
      ∨ (s.p1 + L ≤ i + L ∧ i + L < s.p1 + 2 * L ∧ fp ∈ s.f2.items)

theorem init_inv (L mb : Nat) : Inv L (init mb) (fun _ => False) := by
  intro _ _ h; exact h.elim

theorem div_bounds (x L : Nat) (hL : 0 < L) : x / L * L ≤ x ∧ x < x / L * L + L := by
  constructor
  · exact Nat.div_mul_le_self x L
  · have := Nat.lt_mul_div_succ x hL
    rw [Nat.mul_add, Nat.mul_one, Nat.mul_comm] at this
    exact this

theorem add_eq (t d e : Nat) (h : SysTime.add t d = some e) : e = t + d := by
  unfold SysTime.add at h
  split at h
  · exact (Option.some.inj h).symm
  · exact absurd h (by simp)

/-- one call: the invariant is kept with the accepted token added, and an accepted token was fresh -/
theorem step (L : Nat) (hL : 0 < L) (s s' : State) (seen : Nat × Nat → Prop) (h : Inv L s seen)
    (n i : Nat) (c : Choice) (r : Bool) (hc : checkAndInsert s n i L c = some (s', r)) :
    Inv L s' (fun x => seen x ∨ (r = true ∧ x = (fingerprint n, i)))
      ∧ (r = true → ¬ seen (fingerprint n, i)) := by
  unfold checkAndInsert at hc
  have hL0 : ¬ L = 0 := by omega
  simp only [hL0, if_false] at hc
  cases hadd : SysTime.add i L with
  | none => simp [hadd] at hc
  | some e =>
    have he := add_eq i L e hadd
    subst he
    simp only [hadd] at hc
    by_cases hpast : i + L < s.p1
    · -- "token too far in past"
      simp only [hpast, if_true, Option.some.injEq, Prod.mk.injEq] at hc
      obtain ⟨rfl, rfl⟩ := hc
      refine ⟨?_, by simp⟩
      intro fp j hs
      rcases hs with hs | ⟨hr, _⟩
      · exact h fp j hs
      · exact absurd hr (by simp)
    · simp only [hpast, if_false] at hc
      have ⟨hd1, hd2⟩ := div_bounds (i + L - s.p1) L hL
      generalize hd : (i + L - s.p1) / L = d at hc hd1 hd2
      by_cases h0 : d = 0
      · -- filter 1
        subst h0
        simp only [if_true, Option.some.injEq, Prod.mk.injEq] at hc
        obtain ⟨rfl, rfl⟩ := hc
        constructor
        · intro fp j hs
          dsimp only
          rcases hs with hs | ⟨_, hx⟩
          · rcases h fp j hs with hh | ⟨a, b, m⟩ | hh
            · exact Or.inl hh
            · exact Or.inr (Or.inl ⟨a, b, Filter.items_mono _ _ _ _ _ _ m⟩)
            · exact Or.inr (Or.inr hh)
          · obtain ⟨rfl, rfl⟩ := Prod.mk.inj hx
            exact Or.inr (Or.inl ⟨by omega, by omega, Filter.mem_after _ _ _ _ _⟩)
        · intro hr hs
          rcases h _ _ hs with hh | ⟨_, _, m⟩ | ⟨a, _, _⟩
          · omega
          · rw [Filter.mem_refused _ _ _ _ _ m] at hr; exact absurd hr (by simp)
          · omega
      · by_cases h1 : d = 1
        · -- filter 2
          subst h1
          simp only [show ¬ (1 = 0) by omega, if_false, if_true, Option.some.injEq, Prod.mk.injEq] at hc
          obtain ⟨rfl, rfl⟩ := hc
          constructor
          · intro fp j hs
            dsimp only
            rcases hs with hs | ⟨_, hx⟩
            · rcases h fp j hs with hh | hh | ⟨a, b, m⟩
              · exact Or.inl hh
              · exact Or.inr (Or.inl hh)
              · exact Or.inr (Or.inr ⟨a, b, Filter.items_mono _ _ _ _ _ _ m⟩)
            · obtain ⟨rfl, rfl⟩ := Prod.mk.inj hx
              exact Or.inr (Or.inr ⟨by omega, by omega, Filter.mem_after _ _ _ _ _⟩)
          · intro hr hs
            rcases h _ _ hs with hh | ⟨_, b, _⟩ | ⟨_, _, m⟩
            · omega
            · omega
            · rw [Filter.mem_refused _ _ _ _ _ m] at hr; exact absurd hr (by simp)
        · by_cases h2 : d < Gen.bloomTurnOverBoth
          · -- turn over filter 1
            have hd2' : d = 2 := by unfold Gen.bloomTurnOverBoth at h2; omega
            subst hd2'
            simp only [h0, h1, h2, if_false, if_true, Option.some.injEq, Prod.mk.injEq] at hc
            obtain ⟨rfl, rfl⟩ := hc
            constructor
            · intro fp j hs
              dsimp only
              rcases hs with hs | ⟨_, hx⟩
              · rcases h fp j hs with hh | ⟨a, b, m⟩ | ⟨a, b, m⟩
                · exact Or.inl (by omega)
                · exact Or.inl (by omega)
                · exact Or.inr (Or.inl ⟨by omega, by omega, m⟩)
              · obtain ⟨rfl, rfl⟩ := Prod.mk.inj hx
                exact Or.inr (Or.inr ⟨by omega, by omega, Filter.mem_after _ _ _ _ _⟩)
            · intro _ hs
              rcases h _ _ hs with hh | ⟨_, b, _⟩ | ⟨_, b, _⟩ <;> omega
          · -- turn over both filters
            simp only [h0, h1, h2, if_false, Option.some.injEq, Prod.mk.injEq] at hc
            obtain ⟨rfl, rfl⟩ := hc
            have h3 : 3 ≤ d := by unfold Gen.bloomTurnOverBoth at h2; omega
            have h3L : 3 * L ≤ d * L := Nat.mul_le_mul_right L h3
            constructor
            · intro fp j hs
              dsimp only
              rcases hs with hs | ⟨_, hx⟩
              · rcases h fp j hs with hh | ⟨a, b, m⟩ | ⟨a, b, m⟩
                · exact Or.inl (by omega)
                · exact Or.inl (by omega)
                · exact Or.inl (by omega)
              · obtain ⟨rfl, rfl⟩ := Prod.mk.inj hx
                exact Or.inr (Or.inl ⟨by omega, by omega, Filter.mem_after _ _ _ _ _⟩)
            · intro _ hs
              rcases h _ _ hs with hh | ⟨_, b, _⟩ | ⟨_, b, _⟩ <;> omega

theorem accepted_fresh (L : Nat) (hL : 0 < L) (cs : List Call) : ∀ (s : State) (seen : Nat × Nat → Prop),
    Inv L s seen → (accepted L s cs).Nodup ∧ ∀ x ∈ accepted L s cs, ¬ seen x := by
  induction cs with
  | nil => intro s seen _; simp [accepted]
  | cons c cs ih =>
    intro s seen h
    unfold accepted
    cases hc : checkAndInsert s c.nonce c.issued L c.choice with
    | none => simp
    | some p =>
      obtain ⟨s', r⟩ := p
      have ⟨hinv, hfresh⟩ := step L hL s s' seen h c.nonce c.issued c.choice r hc
      have ⟨ih1, ih2⟩ := ih s' _ hinv
      cases r with
      | false =>
        dsimp only
        exact ⟨ih1, fun x hx hs => ih2 x hx (Or.inl hs)⟩
      | true =>
        dsimp only
        refine ⟨List.nodup_cons.mpr ⟨fun hm => ih2 _ hm (Or.inr ⟨rfl, rfl⟩), ih1⟩, ?_⟩
        intro x hx hs
        rcases List.mem_cons.mp hx with rfl | hx
        · exact hfresh rfl hs
        · exact ih2 x hx (Or.inl hs)

end QM.BloomLog
