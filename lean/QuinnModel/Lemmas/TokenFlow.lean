import QuinnModel.Conn.TokenFlow
import QuinnModel.Lemmas.TokenCache
/- Client-side token flow: every token is in the Initials of at most one attempt (proof of Props/C14_flow). -/
namespace QM.TokenFlow
open TokenCache (allToks)

variable {α : Type}

/-- attempt `j` currently carries token `a` -/
def holds (l : List (Attempt α)) (j : Nat) (a : α) : Prop := ∃ n, l[j]? = some ⟨n, some a⟩

theorem holds_append {l : List (Attempt α)} {x : Attempt α} {j : Nat} {a : α} (h : holds (l ++ [x]) j a) :
    holds l j a ∨ (j = l.length ∧ x.token = some a) := by
  obtain ⟨n, hn⟩ := h
  by_cases hj : j < l.length
  · left; exact ⟨n, by rw [List.getElem?_append_left hj] at hn; exact hn⟩
  · right
    have hj' : l.length ≤ j := Nat.le_of_not_lt hj
    rw [List.getElem?_append_right hj'] at hn
    by_cases h0 : j - l.length = 0
    · rw [h0] at hn
      simp only [List.getElem?_cons_zero, Option.some.injEq] at hn
      exact ⟨by omega, by rw [hn]⟩
    · obtain ⟨m, hm⟩ : ∃ m, j - l.length = m + 1 := ⟨j - l.length - 1, by omega⟩
      rw [hm] at hn
      simp at hn

theorem holds_setToken {l : List (Attempt α)} {i : Nat} {t : Option α} {j : Nat} {a : α}
    (h : holds (setToken l i t) j a) : (j = i ∧ t = some a) ∨ (j ≠ i ∧ holds l j a) := by
  unfold setToken at h
  cases hi : l[i]? with
  | none =>
    rw [hi] at h
    by_cases hji : j = i
    · obtain ⟨n, hn⟩ := h
      rw [hji, hi] at hn
      exact absurd hn (by simp)
    · exact Or.inr ⟨hji, h⟩
  | some x =>
    rw [hi] at h
    obtain ⟨n, hn⟩ := h
    simp only at hn
    rw [List.getElem?_set] at hn
    by_cases hji : i = j
    · rw [if_pos hji] at hn
      split at hn
      · simp only [Option.some.injEq, Attempt.mk.injEq] at hn
        exact Or.inl ⟨hji.symm, hn.2⟩
      · exact absurd hn (by simp)
    · rw [if_neg hji] at hn
      exact Or.inr ⟨fun h => hji h.symm, n, hn⟩

variable [DecidableEq α]

/-- invariant of a run, `iss` = the tokens servers issued to this client so far -/
structure FInv (s : St α) (iss : List α) : Prop where
  cinv : TokenCache.Inv s.cache
  cacheLe : ∀ a, (allToks s.cache.lru).count a ≤ iss.count a
  held : ∀ j a, holds s.attempts j a → a ∈ iss ∧ (allToks s.cache.lru).count a = 0 ∧ ∀ k, holds s.attempts k a → k = j
  wire : ∀ i a, (i, a) ∈ s.wire → a ∈ iss ∧ (allToks s.cache.lru).count a = 0 ∧ ∀ k, holds s.attempts k a → k = i
  once : ∀ i j a, (i, a) ∈ s.wire → (j, a) ∈ s.wire → i = j

theorem init_finv (a b : Nat) : FInv (init a b : St α) [] := by
  refine ⟨TokenCache.init_inv a b, ?_, ?_, ?_, ?_⟩
  · intro x; simp [init, TokenCache.init]
  · intro j x ⟨n, hn⟩; simp [init] at hn
  · intro i x h; simp [init] at h
  · intro i j x h; simp [init] at h

theorem count_le_one_of_nodup {l : List α} (h : l.Nodup) (a : α) : l.count a ≤ 1 :=
  List.nodup_iff_count.mp h a

/-- growing the list of issued tokens keeps the invariant -/
theorem FInv.grow {s : St α} {iss : List α} (h : FInv s iss) (extra : List α) : FInv s (iss ++ extra) := by
  refine ⟨h.cinv, ?_, ?_, ?_, h.once⟩
  · intro a; have := h.cacheLe a; rw [List.count_append]; omega
  · intro j a hj; obtain ⟨h1, h2, h3⟩ := h.held j a hj
    exact ⟨List.mem_append_left _ h1, h2, h3⟩
  · intro i a hi; obtain ⟨h1, h2, h3⟩ := h.wire i a hi
    exact ⟨List.mem_append_left _ h1, h2, h3⟩

theorem step_finv (s : St α) (iss : List α) (h : FInv s iss) (e : Ev α) (hnd : (iss ++ issued [e]).Nodup) :
    ∃ s', step s e = some s' ∧ FInv s' (iss ++ issued [e]) := by
  cases e with
  | connect n =>
    simp only [issued, List.append_nil] at hnd ⊢
    obtain ⟨c, o, hc, hci, _, _, hcnt⟩ := TokenCache.take_ok s.cache h.cinv n
    refine ⟨{ s with cache := c, attempts := s.attempts ++ [⟨n, o⟩] }, by simp only [step, hc], ?_⟩
    have hle : ∀ a, (allToks c.lru).count a ≤ (allToks s.cache.lru).count a := fun a => by have := hcnt a; omega
    -- the new attempt's token was in the cache, so nobody held it and it was never on the wire
    have hnew : ∀ a, o = some a → a ∈ iss ∧ (allToks c.lru).count a = 0 ∧ 1 ≤ (allToks s.cache.lru).count a := by
      intro a ha
      have h1 := hcnt a
      rw [ha] at h1
      simp only [Option.toList_some, List.count_cons_self, List.count_nil] at h1
      have h2 := h.cacheLe a
      have h3 := count_le_one_of_nodup hnd a
      exact ⟨List.count_pos_iff.mp (by omega), by omega, by omega⟩
    refine ⟨hci, fun a => Nat.le_trans (hle a) (h.cacheLe a), ?_, ?_, h.once⟩
    · intro j a hj
      rcases holds_append hj with hold | ⟨hjl, htok⟩
      · obtain ⟨h1, h2, h3⟩ := h.held j a hold
        refine ⟨h1, by have := hle a; dsimp only; omega, ?_⟩
        intro k hk
        rcases holds_append hk with hkold | ⟨_, hktok⟩
        · exact h3 k hkold
        · have := (hnew a hktok).2.2; omega
      · obtain ⟨h1, h2, h3⟩ := hnew a htok
        refine ⟨h1, h2, ?_⟩
        intro k hk
        rcases holds_append hk with hkold | ⟨hkl, _⟩
        · have := (h.held k a hkold).2.1; omega
        · omega
    · intro i a hi
      obtain ⟨h1, h2, h3⟩ := h.wire i a hi
      refine ⟨h1, by have := hle a; dsimp only; omega, ?_⟩
      intro k hk
      rcases holds_append hk with hkold | ⟨_, hktok⟩
      · exact h3 k hkold
      · have := (hnew a hktok).2.2; omega
  | sendInitial i =>
    simp only [issued, List.append_nil] at hnd ⊢
    cases hi : s.attempts[i]? with
    | none => exact ⟨s, by simp only [step, hi], h⟩
    | some x =>
      obtain ⟨n, tk⟩ := x
      cases tk with
      | none => exact ⟨s, by simp only [step, hi], h⟩
      | some t =>
        refine ⟨{ s with wire := s.wire ++ [(i, t)] }, by simp only [step, hi], ?_⟩
        have hh : holds s.attempts i t := ⟨n, hi⟩
        refine ⟨h.cinv, h.cacheLe, h.held, ?_, ?_⟩
        · intro i' a hi'
          rcases List.mem_append.mp hi' with hold | hnew
          · exact h.wire i' a hold
          · simp only [List.mem_singleton, Prod.mk.injEq] at hnew
            rw [hnew.1, hnew.2]; exact h.held i t hh
        · intro i' j' a hi' hj'
          rcases List.mem_append.mp hi' with ho1 | hn1 <;> rcases List.mem_append.mp hj' with ho2 | hn2
          · exact h.once i' j' a ho1 ho2
          · simp only [List.mem_singleton, Prod.mk.injEq] at hn2
            rw [hn2.1]; rw [hn2.2] at ho1
            exact ((h.wire i' t ho1).2.2 i hh).symm
          · simp only [List.mem_singleton, Prod.mk.injEq] at hn1
            rw [hn1.1]; rw [hn1.2] at ho2
            exact (h.wire j' t ho2).2.2 i hh
          · simp only [List.mem_singleton, Prod.mk.injEq] at hn1 hn2
            rw [hn1.1, hn2.1]
  | retry i tok =>
    simp only [issued] at hnd ⊢
    have hfresh : tok ∉ iss := by
      intro hm
      have := (List.nodup_append.mp hnd).2.2 tok hm tok (List.mem_singleton.mpr rfl)
      exact this rfl
    have hg := h.grow [tok]
    refine ⟨{ s with attempts := setToken s.attempts i (some tok) }, by simp only [step], ?_⟩
    have hc0 : (allToks s.cache.lru).count tok = 0 := by
      have := h.cacheLe tok; have := List.count_eq_zero.mpr hfresh; omega
    refine ⟨h.cinv, hg.cacheLe, ?_, ?_, h.once⟩
    · intro j a hj
      rcases holds_setToken hj with ⟨hji, hta⟩ | ⟨hji, hold⟩
      · simp only [Option.some.injEq] at hta
        subst hta
        refine ⟨List.mem_append_right _ (List.mem_singleton.mpr rfl), hc0, ?_⟩
        intro k hk
        rcases holds_setToken hk with ⟨hki, _⟩ | ⟨_, hkold⟩
        · omega
        · exact absurd (h.held k tok hkold).1 hfresh
      · obtain ⟨h1, h2, h3⟩ := h.held j a hold
        refine ⟨List.mem_append_left _ h1, h2, ?_⟩
        intro k hk
        rcases holds_setToken hk with ⟨_, hta⟩ | ⟨_, hkold⟩
        · simp only [Option.some.injEq] at hta
          subst hta; exact absurd h1 hfresh
        · exact h3 k hkold
    · intro i' a hi'
      obtain ⟨h1, h2, h3⟩ := h.wire i' a hi'
      refine ⟨List.mem_append_left _ h1, h2, ?_⟩
      intro k hk
      rcases holds_setToken hk with ⟨_, hta⟩ | ⟨_, hkold⟩
      · simp only [Option.some.injEq] at hta
        subst hta; exact absurd h1 hfresh
      · exact h3 k hkold
  | newToken i tok =>
    simp only [issued] at hnd ⊢
    have hfresh : tok ∉ iss := by
      intro hm
      have := (List.nodup_append.mp hnd).2.2 tok hm tok (List.mem_singleton.mpr rfl)
      exact this rfl
    cases hi : s.attempts[i]? with
    | none => exact ⟨s, by simp only [step, hi], h.grow [tok]⟩
    | some x =>
      obtain ⟨c, hc, hci, _, _, hcnt⟩ := TokenCache.store_ok s.cache h.cinv x.name tok
      refine ⟨{ s with cache := c }, by simp only [step, hi, hc], ?_⟩
      have hne : ∀ a, a ∈ iss → (allToks c.lru).count a ≤ (allToks s.cache.lru).count a := by
        intro a ha
        have h1 := hcnt a
        have : [tok].count a = 0 := List.count_eq_zero.mpr (by
          intro hm; rw [List.mem_singleton] at hm; rw [hm] at ha; exact hfresh ha)
        omega
      refine ⟨hci, ?_, ?_, ?_, h.once⟩
      · intro a; have := hcnt a; have := h.cacheLe a; rw [List.count_append]; dsimp only; omega
      · intro j a hj
        obtain ⟨h1, h2, h3⟩ := h.held j a hj
        exact ⟨List.mem_append_left _ h1, by have := hne a h1; dsimp only; omega, h3⟩
      · intro i' a hi'
        obtain ⟨h1, h2, h3⟩ := h.wire i' a hi'
        exact ⟨List.mem_append_left _ h1, by have := hne a h1; dsimp only; omega, h3⟩
  | initialKeysDiscarded i =>
    simp only [issued, List.append_nil] at hnd ⊢
    refine ⟨{ s with attempts := setToken s.attempts i none }, by simp only [step], ?_⟩
    refine ⟨h.cinv, h.cacheLe, ?_, ?_, h.once⟩
    · intro j a hj
      rcases holds_setToken hj with ⟨_, hta⟩ | ⟨_, hold⟩
      · exact absurd hta (by simp)
      · obtain ⟨h1, h2, h3⟩ := h.held j a hold
        refine ⟨h1, h2, ?_⟩
        intro k hk
        rcases holds_setToken hk with ⟨_, hta⟩ | ⟨_, hkold⟩
        · exact absurd hta (by simp)
        · exact h3 k hkold
    · intro i' a hi'
      obtain ⟨h1, h2, h3⟩ := h.wire i' a hi'
      refine ⟨h1, h2, ?_⟩
      intro k hk
      rcases holds_setToken hk with ⟨_, hta⟩ | ⟨_, hkold⟩
      · exact absurd hta (by simp)
      · exact h3 k hkold
  | ended i how =>
    simp only [issued, List.append_nil] at hnd ⊢
    exact ⟨s, rfl, h⟩

omit [DecidableEq α] in
theorem issued_cons (e : Ev α) (es : List (Ev α)) : issued (e :: es) = issued [e] ++ issued es := by
  cases e <;> simp [issued]

theorem run_finv (evs : List (Ev α)) : ∀ (s : St α) (iss : List α), FInv s iss → (iss ++ issued evs).Nodup →
    ∃ s', run s evs = some s' ∧ FInv s' (iss ++ issued evs) := by
  induction evs with
  | nil => intro s iss h _; exact ⟨s, rfl, by simpa [issued] using h⟩
  | cons e es ih =>
    intro s iss h hnd
    rw [issued_cons, ← List.append_assoc] at hnd
    have hnd1 : (iss ++ issued [e]).Nodup := (List.nodup_append.mp hnd).1
    obtain ⟨s1, hs1, hi1⟩ := step_finv s iss h e hnd1
    obtain ⟨s2, hs2, hi2⟩ := ih s1 (iss ++ issued [e]) hi1 hnd
    refine ⟨s2, by simp only [run, hs1, hs2], ?_⟩
    rw [issued_cons, ← List.append_assoc]; exact hi2

end QM.TokenFlow
