import QuinnModel.Lemmas.StreamsFrame
/- Sender-view / sender-frame lemmas for whole operations. -/
namespace QM.Streams
set_option pp.structureInstances false

/-! ### receiver-side operations: the sender view is unchanged -/

theorem vw_received {s s' : State} {id off len : Nat} {fin : Bool} {r : Except TErr Bool}
    (h : s.received id off len fin = some (s', r)) : s'.vw = s.vw := by
  unfold State.received at h
  osplit h
  all_goals obtain ⟨rfl, rfl⟩ := h
  all_goals first
    | rfl
    | (have f1 := vw_getOrInsertRecv ‹State.getOrInsertRecv _ _ = some _›
       first
        | exact f1
        | exact (vw_onStreamFrame _ _ _).trans f1
        | (have f2 := vw_freeRecvIf ‹State.freeRecvIf _ _ _ = some _›
           have f3 := vw_creditAndQueue ‹State.creditAndQueue _ _ = some _›
           exact f3.trans (f2.trans f1)))

theorem vw_receivedReset {s s' : State} {id code fo : Nat} {r : Except TErr Bool}
    (h : s.receivedReset id code fo = some (s', r)) : s'.vw = s.vw := by
  unfold State.receivedReset at h
  osplit h
  all_goals obtain ⟨rfl, rfl⟩ := h
  all_goals first
    | rfl
    | (have f1 := vw_getOrInsertRecv ‹State.getOrInsertRecv _ _ = some _›
       first
        | exact f1
        | (have f2 := vw_freeRecvIf ‹State.freeRecvIf _ _ _ = some _›
           first
            | exact (vw_onStreamFrame _ _ _).trans (f2.trans f1)
            | (have f3 := vw_creditAndQueue ‹State.creditAndQueue _ _ = some _›
               exact f3.trans ((vw_onStreamFrame _ _ _).trans (f2.trans f1)))))

theorem vw_finalizeReadable {s s' : State} {id : Nat} {rs : Recv} {fr t0 t : Bool}
    (h : s.finalizeReadable id rs fr t0 = some (s', t)) : s'.vw = s.vw := by
  unfold State.finalizeReadable at h
  osplit h
  all_goals
    rw [← h.1]
    try rfl

theorem vw_read {s s' : State} {id budget : Nat} {r : ReadRes}
    (h : s.read id budget = some (s', r)) : s'.vw = s.vw := by
  unfold State.read at h
  osplit h
  all_goals obtain ⟨rfl, rfl⟩ := h
  all_goals first
    | rfl
    | (have f1 := vw_getOrInsertRecv ‹State.getOrInsertRecv _ _ = some _›
       first
        | exact f1
        | (have f2 := vw_freeIf ‹State.freeIf _ _ _ = some _›
           have f3 := vw_queueMaxStreamId ‹State.queueMaxStreamId _ = some _›
           have f4 := vw_finalizeReadable ‹State.finalizeReadable _ _ _ _ _ = some _›
           have f5 := vw_addReadCredits ‹State.addReadCredits _ _ = some _›
           exact f5.trans (f4.trans (f3.trans (f2.trans f1)))))

theorem vw_queueStopSending (s : State) (c : Bool) (id code : Nat) :
    (s.queueStopSending c id code).vw = s.vw := by
  unfold State.queueStopSending; split <;> rfl

theorem vw_stop {s s' : State} {id code : Nat} {b : Bool}
    (h : s.stop id code = some (s', b)) : s'.vw = s.vw := by
  unfold State.stop at h
  osplit h
  all_goals obtain ⟨rfl, rfl⟩ := h
  all_goals first
    | rfl
    | (have f1 := vw_getOrInsertRecv ‹State.getOrInsertRecv _ _ = some _›
       first
        | exact f1
        | (have f2 := vw_freeRecvIf ‹State.freeRecvIf _ _ _ = some _›
           have f2q := vw_queueMaxIf ‹State.queueMaxIf _ _ = some _›
           have f3 := vw_creditAndQueue ‹State.creditAndQueue _ _ = some _›
           exact f3.trans (f2q.trans (f2.trans ((vw_queueStopSending _ _ _ _).trans f1)))))

theorem vw_recvReceivedReset {s s' : State} {id : Nat} {r : Option (Option Nat)}
    (h : s.recvReceivedReset id = some (s', r)) : s'.vw = s.vw := by
  unfold State.recvReceivedReset at h
  osplit h
  all_goals obtain ⟨rfl, rfl⟩ := h
  all_goals first
    | rfl
    | (have f2 := vw_streamRecvFreed ‹State.streamRecvFreed _ _ = some _›
       have f3 := vw_queueMaxStreamId ‹State.queueMaxStreamId _ = some _›
       exact f3.trans f2)

theorem vw_accept (s : State) (d : Dir) : (s.accept d).1.vw = s.vw := by
  unfold State.accept
  split
  · rfl
  · dsimp only; split <;> rfl

theorem vw_setReceiveWindow (s : State) (n : Nat) : (s.setReceiveWindow n).1.vw = s.vw := by
  unfold State.setReceiveWindow
  split <;> rfl

theorem vw_setMaxConcurrent {s s' : State} {d : Dir} {n : Nat} (h : s.setMaxConcurrent d n = some s') :
    s'.vw = s.vw := by
  unfold State.setMaxConcurrent at h
  via vw_ensureRemoteStreams h

theorem vw_ctrlMsd : ∀ (l : List Nat) {s s' : State} {acc fs : List CtrlFrame},
    s.ctrlMsd l acc = some (s', fs) → s'.vw = s.vw := by
  intro l
  induction l with
  | nil => intro s s' acc fs h; simp [State.ctrlMsd] at h; rw [← h.1]
  | cons id rest ih =>
    intro s s' acc fs h
    unfold State.ctrlMsd at h
    osplit h
    all_goals first
      | exact ih h
      | via ih h

theorem vw_ctrlMaxData (s : State) : s.ctrlMaxData.1.vw = s.vw := by
  unfold State.ctrlMaxData; split <;> rfl

theorem vw_ctrlMaxStreams (s : State) (d : Dir) : (s.ctrlMaxStreams d).1.vw = s.vw := by
  unfold State.ctrlMaxStreams; split <;> rfl

theorem vw_ctrlMoveBlocked (s : State) (d : Dir) : (s.ctrlMoveBlocked d).vw = s.vw := by
  unfold State.ctrlMoveBlocked; split <;> rfl

theorem vw_ctrlStreamsBlocked (s : State) (d : Dir) : (s.ctrlStreamsBlocked d).1.vw = s.vw := by
  unfold State.ctrlStreamsBlocked
  dsimp only
  split
  · exact vw_ctrlMoveBlocked s d
  · exact vw_ctrlMoveBlocked s d

theorem vw_writeControlFrames {s s' : State} {fs : List CtrlFrame}
    (h : s.writeControlFrames = some (s', fs)) : s'.vw = s.vw := by
  unfold State.writeControlFrames at h
  dsimp only at h
  split at h
  · contradiction
  · simp only [Option.some.injEq, Prod.mk.injEq] at h
    rw [← h.1]
    have f := vw_ctrlMsd _ ‹State.ctrlMsd _ _ _ = some _›
    refine (vw_ctrlStreamsBlocked _ _).trans ((vw_ctrlStreamsBlocked _ _).trans
      ((vw_ctrlMaxStreams _ _).trans ((vw_ctrlMaxStreams _ _).trans (f.trans ?_))))
    exact vw_ctrlMaxData _

/-! ### sender-side operations that do not touch the credit of any stream -/

theorem ackLoop_offset : ∀ (fuel : Nat) {b b' : SendBuf}, SendBuf.ackLoop fuel b = some b' → b'.offset = b.offset := by
  intro fuel
  induction fuel with
  | zero => intro b b' h; simp [SendBuf.ackLoop] at h; rw [← h]
  | succ n ih =>
    intro b b' h
    unfold SendBuf.ackLoop at h
    osplit h
    all_goals first
      | (rw [← h])
      | via ih h

theorem SendBuf.ack_offset {b b' : SendBuf} {a e : Nat} (h : b.ack a e = some b') : b'.offset = b.offset := by
  unfold SendBuf.ack at h
  osplit h
  via ackLoop_offset _ h

theorem Send.ack_credit {x x' : Send} {a e : Nat} {fin done : Bool} (h : x.ack a e fin = some (x', done)) :
    x'.credit = x.credit := by
  unfold Send.ack at h
  osplit h
  all_goals
    obtain ⟨rfl, rfl⟩ := h
    have hp := SendBuf.ack_offset ‹SendBuf.ack _ _ _ = some _›
    simp only [Send.credit, hp]

theorem SendBuf.pollTransmit_offset {b b' : SendBuf} {m a e : Nat} {enc : Bool}
    (h : b.pollTransmit m = some (a, e, enc, b')) : b'.offset = b.offset := by
  unfold SendBuf.pollTransmit at h
  osplit h
  all_goals
    rw [← h.2.2.2]

theorem Frame.of_getOrInsertSend_put {s s1 : State} {id : Nat} {x x' : Send}
    (h : s.getOrInsertSend id = some (x, s1)) (hc : x'.credit = x.credit) :
    Frame s (s1.putSend id x') := by
  obtain ⟨f1, hx, _⟩ := getOrInsertSend_spec h
  exact f1.trans (Frame.of_vw (vw_putSend hx hc))

/-- the state differs from `s` only outside the sender view, except that the half under `id` was
    replaced by one with the same credit -/
theorem frame_put {s s' : State} {id : Nat} {x x' : Send} (hx : s.send.find? id = some (some x))
    (hc : s'.core = s.core) (hs : s'.send = s.send.set id (some x')) (hcr : x'.credit = x.credit) :
    Frame s s' :=
  (Frame.of_vw (vw_putSend (x' := x') hx hcr)).post hc hs

theorem frame_gput {s s1 s' : State} {id : Nat} {x x' : Send} (h : s.getOrInsertSend id = some (x, s1))
    (hc : s'.core = s1.core) (hs : s'.send = s1.send.set id (some x')) (hcr : x'.credit = x.credit) :
    Frame s s' :=
  (Frame.of_getOrInsertSend_put (x' := x') h hcr).post hc hs

/-- a half is updated and then dropped -/
theorem frame_set_erase {s s' : State} {id : Nat} {v : Option Send} (hc : s'.core = s.core)
    (hs : s'.send = (s.send.set id v).erase id) : Frame s s' := by
  refine ⟨⟨hc, ?_⟩⟩
  intro k c hk
  simp only [State.vw, State.cv, hs] at hk ⊢
  by_cases hkk : k = id
  · subst hkk; simp [Map.find?_erase_self] at hk
  · rw [Map.find?_erase_ne _ _ _ hkk, Map.find?_set_ne _ _ _ _ hkk] at hk; exact Or.inl hk

theorem frame_receivedStopSending (s : State) (id code : Nat) : Frame s (s.receivedStopSending id code) := by
  unfold State.receivedStopSending
  split
  · exact Frame.refl _
  · rename_i x s1 h1
    cases hsr : x.stopReason with
    | none =>
      simp only [Send.tryStop, hsr, ↓reduceIte]
      have f2 : Frame s (s1.putSend id { x with stopReason := some code }) :=
        Frame.of_getOrInsertSend_put h1 rfl
      exact f2.trans (Frame.of_vw (vw_onStreamFrame _ _ _))
    | some c =>
      simp only [Send.tryStop, hsr, Bool.false_eq_true, ↓reduceIte]
      exact (getOrInsertSend_spec h1).1

theorem frame_resetAcked {s s' : State} {id : Nat} (h : s.resetAcked id = some s') : Frame s s' := by
  unfold State.resetAcked at h
  osplit h
  all_goals first
    | (subst h; exact Frame.refl _)
    | exact (frame_erase_send s id).trans (Frame.of_vw (vw_streamFreed h))

theorem frame_receivedAckOf {s s' : State} {id a e : Nat} {fin : Bool}
    (h : s.receivedAckOf id a e fin = some s') : Frame s s' := by
  unfold State.receivedAckOf at h
  osplit h
  all_goals first
    | (subst h; exact Frame.refl _)
    | (have hx := ‹Map.find? s.send id = some (some _)›
       have ha := ‹Send.ack _ _ _ _ = some _›
       have hc := Send.ack_credit ha
       first
        | (subst h; exact frame_put hx rfl rfl hc)
        | (have hf := ‹State.streamFreed _ _ _ = some _›
           have f3 := Frame.of_vw (vw_streamFreed hf)
           subst h
           refine Frame.post (Frame.after f3 ?_) rfl rfl
           exact frame_set_erase (s := s) (id := id) (v := some _) rfl rfl))

theorem frame_retransmit {s s' : State} {id a e : Nat} {fin : Bool}
    (h : s.retransmit id a e fin = some s') : Frame s s' := by
  unfold State.retransmit at h
  osplit h
  all_goals first
    | (subst h; exact Frame.refl _)
    | (have hx := ‹Map.find? s.send id = some (some _)›
       have hp := ‹SendBuf.retransmit _ _ _ = some _›
       unfold SendBuf.retransmit at hp
       osplit hp
       subst hp; subst h
       exact frame_put hx rfl rfl rfl)

theorem frame_rtx0Loop (dir : Dir) : ∀ (n : Nat) {s s' : State} {i : Nat},
    s.rtx0Loop dir n i = some s' → Frame s s' := by
  intro n
  induction n with
  | zero => intro s s' i h; simp [State.rtx0Loop] at h; subst h; exact Frame.refl _
  | succ n ih =>
    intro s s' i h
    unfold State.rtx0Loop at h
    osplit h
    all_goals first
      | exact ih h
      | (have hx := ‹Map.find? s.send _ = some (some _)›
         have hp := ‹SendBuf.retransmitAllFor0rtt _ = some _›
         unfold SendBuf.retransmitAllFor0rtt at hp
         osplit hp
         subst hp
         exact (ih h).after (frame_put hx rfl rfl rfl))

theorem frame_retransmitAllFor0rtt {s s' : State} (h : s.retransmitAllFor0rtt = some s') : Frame s s' := by
  unfold State.retransmitAllFor0rtt at h
  osplit h
  exact (frame_rtx0Loop _ _ ‹State.rtx0Loop _ _ _ _ = some _›).trans (frame_rtx0Loop _ _ h)

theorem frame_pollBlocked : ∀ (fuel : Nat) {s s' : State} {e : Option Event},
    s.pollBlocked fuel = some (s', e) → Frame s s' := by
  intro fuel
  induction fuel with
  | zero => intro s s' e h; simp [State.pollBlocked] at h; rw [← h.1]; exact Frame.refl _
  | succ n ih =>
    intro s s' e h
    unfold State.pollBlocked at h
    osplit h
    all_goals first
      | (rw [← h.1]; exact Frame.refl _)
      | (have hx := ‹Map.find? _ _ = some (some _)›
         first
          | (rw [← h.1]; exact frame_put hx rfl rfl rfl)
          | exact (ih h).after (frame_put hx rfl rfl rfl))
      | exact (ih h).pre rfl rfl

theorem frame_poll {s s' : State} {e : Option Event} (h : s.poll = some (s', e)) : Frame s s' := by
  unfold State.poll at h
  osplit h
  all_goals first
    | (rw [← h.1]; exact Frame.of_vw rfl)
    | (have hp := ‹State.pollBlockedIf _ _ = some _›
       unfold State.pollBlockedIf at hp
       osplit hp
       all_goals first
        | (rw [← h.1]; exact frame_pollBlocked _ hp)
        | (rw [← h.1]; exact (frame_pollBlocked _ hp).post rfl rfl)
        | (rw [← h.1, ← hp.1]; exact Frame.of_vw rfl))

theorem Send.finish_credit {x x' : Send} (h : x.finish = .ok x') : x'.credit = x.credit := by
  unfold Send.finish at h
  split at h
  · contradiction
  · split at h
    · simp only [Except.ok.injEq] at h; rw [← h]; rfl
    · contradiction

theorem frame_finish {s s' : State} {id : Nat} {r : Except WriteErr Unit} (h : s.finish id = (s', r)) :
    Frame s s' := by
  unfold State.finish at h
  osplit h
  all_goals first
    | (rw [← h.1]; exact Frame.refl _)
    | (have hg := ‹State.getOrInsertSend _ _ = some _›
       rw [← h.1]
       first
        | exact (getOrInsertSend_spec hg).1
        | (have hf := ‹Send.finish _ = Except.ok _›
           exact frame_gput hg rfl rfl (Send.finish_credit hf)))

theorem Send.reset_credit (x : Send) : x.reset.credit = x.credit := by
  unfold Send.reset; split <;> rfl

theorem frame_reset {s s' : State} {id code : Nat} {b : Bool} (h : s.reset id code = some (s', b)) :
    Frame s s' := by
  unfold State.reset at h
  osplit h
  all_goals first
    | (rw [← h.1]; exact Frame.refl _)
    | (have hg := ‹State.getOrInsertSend _ _ = some _›
       rw [← h.1]
       first
        | exact (getOrInsertSend_spec hg).1
        | exact frame_gput hg rfl rfl (Send.reset_credit _))

theorem frame_setPriority {s s' : State} {id : Nat} {p : Int} {b : Bool} (h : s.setPriority id p = (s', b)) :
    Frame s s' := by
  unfold State.setPriority at h
  osplit h
  all_goals first
    | (rw [← h.1]; exact Frame.refl _)
    | (have hg := ‹State.getOrInsertSend _ _ = some _›
       rw [← h.1]; exact frame_gput hg rfl rfl rfl)

theorem frame_writeStreamFrames (maxBuf : Nat) (fair : Bool) : ∀ (fuel : Nat) {s s' : State}
    {bl bl' : Nat} {acc fs : List SentFrame},
    s.writeStreamFrames maxBuf fair fuel bl acc = some (s', bl', fs) → Frame s s' := by
  intro fuel
  induction fuel with
  | zero => intro s s' bl bl' acc fs h; simp [State.writeStreamFrames] at h; rw [← h.1]; exact Frame.refl _
  | succ n ih =>
    intro s s' bl bl' acc fs h
    unfold State.writeStreamFrames at h
    osplit h
    all_goals first
      | (rw [← h.1]; exact Frame.refl _)
      | exact (ih h).pre rfl rfl
      | (have hx := ‹Map.find? _ _ = some (some _)›
         have hp := SendBuf.pollTransmit_offset ‹SendBuf.pollTransmit _ _ = some _›
         refine (ih h).after (frame_put hx rfl rfl ?_)
         simp only [Send.credit, hp])

end QM.Streams
