import QuinnModel.Wire.PacketNumber
namespace QM.PacketNumber

macro "expand_tac" : tactic => `(tactic|
  (unfold expandW
   simp only [Nat.reducePow, Nat.reduceDiv] at *
   split
   · omega
   · split
     · split
       · omega
       · (simp only [Option.some.injEq]; omega)
     · split
       · (simp only [Option.some.injEq]; omega)
       · (simp only [Option.some.injEq]; omega)))

theorem expandW1 (n e : Nat) (hn : n < 2^62) (hlo : e < n + 128) (hhi : n ≤ e + 128) :
    expandW 256 (n % 256) e = some n := by expand_tac
theorem expandW2 (n e : Nat) (hn : n < 2^62) (hlo : e < n + 32768) (hhi : n ≤ e + 32768) :
    expandW 65536 (n % 65536) e = some n := by expand_tac
theorem expandW3 (n e : Nat) (hn : n < 2^62) (hlo : e < n + 8388608) (hhi : n ≤ e + 8388608) :
    expandW 16777216 (n % 16777216) e = some n := by expand_tac
theorem expandW4 (n e : Nat) (hn : n < 2^62) (hlo : e < n + 2147483648) (hhi : n ≤ e + 2147483648) :
    expandW 4294967296 (n % 4294967296) e = some n := by expand_tac

/-- window theorem: a number inside (expected - hwin, expected + hwin] is recovered from its low
    8·len bits, for each of the four lengths. -/
theorem expand_window (len n expected : Nat) (hl : len = 1 ∨ len = 2 ∨ len = 3 ∨ len = 4)
    (hn : n < 2^62) (hlo : expected < n + winOf len / 2) (hhi : n ≤ expected + winOf len / 2) :
    expand (len, n % winOf len) expected = some n := by
  rcases hl with h | h | h | h <;> subst h <;> simp only [expand, winOf, Nat.reduceDiv] at *
  · exact expandW1 n expected hn hlo hhi
  · exact expandW2 n expected hn hlo hhi
  · exact expandW3 n expected hn hlo hhi
  · exact expandW4 n expected hn hlo hhi

/-- the sender's choice of length is sufficient for any receiver that has seen the largest
    acknowledged number and has not yet seen `n` (given the encodable-range precondition, whose
    negation is the `panic!` arm).  The receiver sees `p.2 % winOf p.1` (only `len` bytes travel). -/
theorem new_sufficient (n la r : Nat) (hn : n < 2^62) (h1 : la ≤ r) (h2 : r < n)
    (hr : (n - la) * 2 < 2^32) :
    ∃ p, new n la = some p ∧ (p.1 = 1 ∨ p.1 = 2 ∨ p.1 = 3 ∨ p.1 = 4) ∧
      expand (p.1, p.2 % winOf p.1) (r + 1) = some n := by
  unfold new
  simp only [Gen.pnNewBits1, Gen.pnNewBits2, Gen.pnNewBits3, Gen.pnNewBits4]
  have hla : ¬ n < la := by omega
  simp only [hla, if_false]
  by_cases c1 : (n - la) * 2 < 2^8
  · simp only [c1, if_true]
    refine ⟨_, rfl, Or.inl rfl, ?_⟩
    simp only [expand, winOf, Nat.reducePow, Nat.mod_mod] at *
    exact expandW1 n (r+1) hn (by omega) (by omega)
  · by_cases c2 : (n - la) * 2 < 2^16
    · simp only [c1, c2, if_true, if_false]
      refine ⟨_, rfl, Or.inr (Or.inl rfl), ?_⟩
      simp only [expand, winOf, Nat.reducePow, Nat.mod_mod] at *
      exact expandW2 n (r+1) hn (by omega) (by omega)
    · by_cases c3 : (n - la) * 2 < 2^24
      · simp only [c1, c2, c3, if_true, if_false]
        refine ⟨_, rfl, Or.inr (Or.inr (Or.inl rfl)), ?_⟩
        simp only [expand, winOf, Nat.reducePow] at *
        have : n % 4294967296 % 16777216 = n % 16777216 := by omega
        rw [this]
        exact expandW3 n (r+1) hn (by omega) (by omega)
      · simp only [c1, c2, c3, hr, if_true, if_false]
        refine ⟨_, rfl, Or.inr (Or.inr (Or.inr rfl)), ?_⟩
        simp only [expand, winOf, Nat.reducePow, Nat.mod_mod] at *
        exact expandW4 n (r+1) hn (by omega) (by omega)

theorem beVal_beBytes (n x : Nat) : QM.beVal (QM.beBytes n x) = x % 256 ^ n := by
  suffices h : ∀ acc, (QM.beBytes n x).foldl (fun a b => a * 256 + b) acc = acc * 256 ^ n + x % 256 ^ n by
    have := h 0; simpa [QM.beVal] using this
  induction n with
  | zero => intro acc; simp [QM.beBytes, Nat.mod_one]
  | succ k ih =>
    intro acc
    simp only [QM.beBytes, List.foldl_cons, ih]
    have h1 : x % 256 ^ (k+1) = (x / 256^k % 256) * 256^k + x % 256^k := by
      rw [Nat.pow_succ, Nat.mod_mul, Nat.mul_comm (256^k)]
      omega
    rw [h1, Nat.pow_succ]
    rw [Nat.add_mul, Nat.mul_assoc, Nat.mul_comm 256 (256^k)]
    omega

theorem beBytes_length (n x : Nat) : (QM.beBytes n x).length = n := by
  induction n with
  | zero => rfl
  | succ k ih => simp [QM.beBytes, ih]

/-- what travels on the wire is the value mod 256^len, and decoding consumes exactly len bytes -/
theorem decode_encode (p : Nat × Nat) (r : QM.Bytes) :
    decode p.1 (encode p ++ r) = some ((p.1, p.2 % 256 ^ p.1), r) := by
  unfold decode encode
  have hl := beBytes_length p.1 p.2
  simp [hl, beVal_beBytes]

end QM.PacketNumber
