import QuinnModel.Lemmas.StreamsBasic
/-
C02 / C18 — no withheld stream-count update on the application side.

A slot that an APPLICATION call gives back to the peer (`RecvStream::stop` on a stream whose final size is known,
a read that reaches the end, `RecvStream::received_reset`) is queued for MAX_STREAMS by that very call, whenever the
unannounced part of the limit is one `queue_max_stream_id` announces at all (`Gen.maxStreamsSignificant`, read from
the source).  Without it the frame is queued only at the end of the next incoming packet — and a peer parked on the
stream limit sends none.

`Announced s d` is a statement about the RESULTING state only (limit, announced limit, concurrency, pending flag);
the proofs are by the *announce view* `State.av`: everything a call does after `queue_max_stream_id` leaves it alone.
-/
namespace QM.Streams
set_option pp.structureInstances false

/-- what the announcement rule reads and writes -/
structure AV where
  maxRemote : Two Nat
  sent : Two Nat
  mcr : Two Nat
  flags : Two Bool

def State.av (s : State) : AV := ⟨s.maxRemote, s.sentMaxRemote, s.maxConcurrentRemoteCount, s.rtx.maxStreamId⟩

/-- direction `d`: an unannounced raise of the peer's stream limit that is significant is queued for MAX_STREAMS -/
def Announced (s : State) (d : Dir) : Prop :=
  Gen.maxStreamsSignificant (s.maxRemote.get d - s.sentMaxRemote.get d) (s.maxConcurrentRemoteCount.get d) = true →
    s.rtx.maxStreamId.get d = true

theorem Announced.of_av {s s' : State} {d : Dir} (h : s'.av = s.av) (a : Announced s d) : Announced s' d := by
  simp only [State.av, AV.mk.injEq] at h
  unfold Announced at *
  rw [h.1, h.2.1, h.2.2.1, h.2.2.2]
  exact a

theorem subU_some {a b c : Nat} (h : subU a b = some c) : c = a - b := by
  unfold subU at h
  split at h
  · simp only [Option.some.injEq] at h; exact h.symm
  · contradiction

/-- `queue_max_stream_id` establishes the rule in both directions -/
theorem queueMaxStreamId_announced {s s' : State} {b : Bool} (h : s.queueMaxStreamId = some (s', b)) (d : Dir) :
    Announced s' d := by
  unfold State.queueMaxStreamId at h
  split at h
  · contradiction
  · rename_i d0 h0
    dsimp only at h
    split at h
    · contradiction
    · rename_i d1 h1
      simp only [Option.some.injEq, Prod.mk.injEq] at h
      obtain ⟨rfl, _⟩ := h
      have e0 := subU_some h0
      have e1 := subU_some h1
      unfold Announced
      cases d
      · -- bidirectional: decided by the first test; the second one does not touch the flag
        by_cases q0 : Gen.maxStreamsSignificant d0 (s.maxConcurrentRemoteCount.get .bi) = true
        · intro _
          simp only [q0, ↓reduceIte]
          split <;> rfl
        · intro hs
          exfalso
          apply q0
          rw [e0]
          revert hs
          simp only [Bool.not_eq_true] at q0
          simp only [q0, Bool.false_eq_true, ↓reduceIte]
          split <;> exact id
      · by_cases q1 : Gen.maxStreamsSignificant d1
            ((if Gen.maxStreamsSignificant d0 (s.maxConcurrentRemoteCount.get .bi) = true then
              { s with rtx := { s.rtx with maxStreamId := s.rtx.maxStreamId.set .bi true } } else s).maxConcurrentRemoteCount.get .uni) = true
        · intro _
          simp only [q1, ↓reduceIte]
          rfl
        · intro hs
          exfalso
          apply q1
          rw [e1]
          revert hs
          simp only [Bool.not_eq_true] at q1
          simp only [q1, Bool.false_eq_true, ↓reduceIte]
          exact id

/-! ### the announce view is left alone by everything around the rule -/

theorem av_getOrInsertRecv {s s' : State} {id : Nat} {r : Recv} (h : s.getOrInsertRecv id = some (r, s')) :
    s'.av = s.av := by
  unfold State.getOrInsertRecv at h
  osplit h
  all_goals
    rw [← h.2]
    try rfl

theorem mr_of_av {s s' : State} (h : s'.av = s.av) : s'.maxRemote = s.maxRemote := congrArg AV.maxRemote h

theorem av_putRecv (s : State) (id : Nat) (r : Recv) : (s.putRecv id r).av = s.av := rfl

theorem av_queueStopSending (s : State) (c : Bool) (id code : Nat) : (s.queueStopSending c id code).av = s.av := by
  unfold State.queueStopSending; split <;> rfl

theorem av_applyCredits (s : State) (c : Nat) : (s.applyCredits c).av = s.av := by
  unfold State.applyCredits; split <;> rfl

theorem av_addReadCredits {s s' : State} {c : Nat} {t : Bool} (h : s.addReadCredits c = some (s', t)) :
    s'.av = s.av := by
  unfold State.addReadCredits at h
  osplit h
  all_goals
    rw [← h.1]
    exact av_applyCredits _ _

theorem av_creditAndQueue {s s' : State} {c : Nat} {t : Bool} (h : s.creditAndQueue c = some (s', t)) :
    s'.av = s.av := by
  unfold State.creditAndQueue at h
  split at h
  · contradiction
  · rename_i s1 t1 h1
    simp only [Option.some.injEq, Prod.mk.injEq] at h
    rw [← h.1]
    have f := av_addReadCredits h1
    cases t1 <;> exact f

theorem av_finalizeReadable {s s' : State} {id : Nat} {rs : Recv} {fr t0 t : Bool}
    (h : s.finalizeReadable id rs fr t0 = some (s', t)) : s'.av = s.av := by
  unfold State.finalizeReadable at h
  osplit h
  all_goals
    rw [← h.1]
    try rfl

/-! ### the three application calls that free a stream of the peer -/

/-- `RecvStream::stop`: when the call raises the peer's stream limit (it freed a stream whose final size was known),
    a significant unannounced raise is queued in the state the call leaves behind -/
theorem stop_announces {s s' : State} {id code : Nat} {b : Bool} (d : Dir)
    (h : s.stop id code = some (s', b)) (hr : s.maxRemote.get d < s'.maxRemote.get d) : Announced s' d := by
  unfold State.stop at h
  split at h
  · simp only [Option.some.injEq, Prod.mk.injEq] at h
    rw [← h.1] at hr; omega
  · rename_i rs s1 hg
    have f1 := av_getOrInsertRecv hg
    split at h
    · contradiction
    · simp only [Option.some.injEq, Prod.mk.injEq] at h
      rw [← h.1, mr_of_av f1] at hr; omega
    · rename_i credits stopSending rs' hst
      split at h
      · contradiction
      · rename_i s4 hfree
        split at h
        · contradiction
        · rename_i s4q hq
          split at h
          · contradiction
          · rename_i s5 t hcq
            simp only [Option.some.injEq, Prod.mk.injEq] at h
            obtain ⟨rfl, _⟩ := h
            have f5 := av_creditAndQueue hcq
            cases hc : !rs'.finalOffsetUnknown
            · -- the final size is not known: nothing is freed, the limit is where it was
              exfalso
              rw [hc] at hfree hq
              simp only [State.freeRecvIf, Bool.false_eq_true, ↓reduceIte, Option.some.injEq] at hfree
              simp only [State.queueMaxIf, Bool.false_eq_true, ↓reduceIte, Option.some.injEq] at hq
              subst hq
              rw [← hfree] at f5
              have e : s5.av = s.av :=
                f5.trans ((av_queueStopSending _ _ _ _).trans ((av_putRecv _ _ _).trans f1))
              rw [mr_of_av e] at hr; omega
            · -- freed: `queue_max_stream_id` ran on the state with the raised limit
              rw [hc] at hq
              simp only [State.queueMaxIf, ↓reduceIte] at hq
              split at hq
              · contradiction
              · rename_i s6 b6 hq6
                simp only [Option.some.injEq] at hq
                subst hq
                exact Announced.of_av f5 (queueMaxStreamId_announced hq6 d)

/-- a read that gives a slot back (it reached the end of the stream, or the reset) -/
theorem read_announces {s s' : State} {id budget : Nat} {r : ReadRes} (d : Dir)
    (h : s.read id budget = some (s', r)) (hr : s.maxRemote.get d < s'.maxRemote.get d) : Announced s' d := by
  unfold State.read at h
  split at h
  · simp only [Option.some.injEq, Prod.mk.injEq] at h
    rw [← h.1] at hr; omega
  · rename_i rs s1 hg
    have f1 := av_getOrInsertRecv hg
    split at h
    · simp only [Option.some.injEq, Prod.mk.injEq] at h
      rw [← h.1, mr_of_av f1] at hr; omega
    · osplit h
      obtain ⟨rfl, _⟩ := h
      have f3 := queueMaxStreamId_announced ‹State.queueMaxStreamId _ = some _› d
      have f4 := av_finalizeReadable ‹State.finalizeReadable _ _ _ _ _ = some _›
      have f5 := av_addReadCredits ‹State.addReadCredits _ _ = some _›
      exact Announced.of_av (s := _) (by exact f5.trans f4) f3

/-- `RecvStream::received_reset` that reports the code (and drops the stream) -/
theorem recvReceivedReset_announces {s s' : State} {id : Nat} {r : Option (Option Nat)} (d : Dir)
    (h : s.recvReceivedReset id = some (s', r)) (hr : s.maxRemote.get d < s'.maxRemote.get d) : Announced s' d := by
  unfold State.recvReceivedReset at h
  osplit h
  all_goals first
    | (rw [← h.1] at hr; omega)
    | (obtain ⟨rfl, _⟩ := h
       exact queueMaxStreamId_announced ‹State.queueMaxStreamId _ = some _› d)

end QM.Streams
