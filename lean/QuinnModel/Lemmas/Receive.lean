import QuinnModel.Conn.Receive
import QuinnModel.Lemmas.Dedup
namespace QM.Receive

/-- stateless reset accepted exactly when the datagram is long enough and ends with the token -/
theorem reset_iff (c : C) (p : Pkt) :
    (step c p).2 = .statelessReset ↔ (p.len ≥ Gen.resetTokenSize + Gen.resetMinLenExtra ∧ p.endsWithResetToken = true) := by
  unfold step isStatelessReset
  simp only
  by_cases hr : (decide (p.len ≥ Gen.resetTokenSize + Gen.resetMinLenExtra) && p.endsWithResetToken) = true
  · have hr' := hr
    simp only [Bool.and_eq_true, decide_eq_true_eq] at hr'
    by_cases hh : p.headerOk = true <;> simp [hr, hh, hr'.1, hr'.2]
  · have hf : (decide (p.len ≥ Gen.resetTokenSize + Gen.resetMinLenExtra) && p.endsWithResetToken) = false := by
      simpa using hr
    have hne : ¬ (p.len ≥ Gen.resetTokenSize + Gen.resetMinLenExtra ∧ p.endsWithResetToken = true) := by
      intro h; simp [h.1, h.2] at hf
    simp only [hf, Bool.false_eq_true, if_false, hne, iff_false]
    by_cases hh : p.headerOk = true
    · simp only [hh, Bool.not_true, Bool.false_eq_true, if_false]
      cases p.kind with
      | protectedPkt =>
        simp only
        by_cases ha : p.authentic = true
        · simp only [ha, Bool.not_true, Bool.false_eq_true, if_false]
          split <;> (try split) <;> (try split) <;> simp
        · simp [ha]
      | retry => simp only; split <;> (try split) <;> (try split) <;> simp
      | versionNegotiation => simp only; split <;> (try split) <;> (try split) <;> simp
    · simp [hh]

/-- a processed packet was authentic, had a packet number, and the outcome names that number -/
theorem processed_authentic (c : C) (p : Pkt) (n : Nat) (h : (step c p).2 = .processed n) :
    p.kind = .protectedPkt ∧ p.authentic = true ∧ n = p.pn ∧ (Dedup.insert c.dedup p.pn).2 = false := by
  unfold step at h
  simp only at h
  by_cases hh : p.headerOk = true
  · simp only [hh, Bool.not_true, Bool.false_eq_true, if_false] at h
    by_cases hr : isStatelessReset p = true
    · simp [hr] at h
    · simp only [hr, Bool.false_eq_true, if_false] at h
      cases hk : p.kind with
      | protectedPkt =>
        simp only [hk] at h
        by_cases ha : p.authentic = true
        · simp only [ha, Bool.not_true, Bool.false_eq_true, if_false] at h
          by_cases hd : (Dedup.insert c.dedup p.pn).2 = true
          · simp [hd] at h
          · have hd' : (Dedup.insert c.dedup p.pn).2 = false := by simpa using hd
            simp only [hd', Bool.false_eq_true, if_false] at h
            refine ⟨rfl, ha, ?_, hd'⟩
            split at h
            · simp at h
            · split at h
              · simp at h
              · simp only [Out.processed.injEq] at h; exact h.symm
        · simp [ha] at h
      | retry => simp only [hk] at h; split at h <;> (try split at h) <;> (try split at h) <;> simp at h
      | versionNegotiation => simp only [hk] at h; split at h <;> (try split at h) <;> (try split at h) <;> simp at h
  · simp only [hh, Bool.not_false, if_true] at h
    split at h <;> simp at h

/-- what one step does to the duplicate filter, tied to its outcome -/
theorem step_cases (c : C) (p : Pkt) :
    ((step c p).1.dedup = c.dedup ∧ ∀ n, (step c p).2 ≠ .processed n) ∨
    ((step c p).1.dedup = (Dedup.insert c.dedup p.pn).1 ∧
      ((∀ n, (step c p).2 ≠ .processed n) ∨
       ((step c p).2 = .processed p.pn ∧ (Dedup.insert c.dedup p.pn).2 = false))) := by
  unfold step
  simp only
  by_cases hh : p.headerOk = true
  · simp only [hh, Bool.not_true, Bool.false_eq_true, if_false]
    by_cases hr : isStatelessReset p = true
    · left; simp [hr]
    · simp only [hr, Bool.false_eq_true, if_false]
      cases p.kind with
      | protectedPkt =>
        simp only
        by_cases ha : p.authentic = true
        · simp only [ha, Bool.not_true, Bool.false_eq_true, if_false]
          right
          by_cases hd : (Dedup.insert c.dedup p.pn).2 = true
          · simp [hd]
          · have hd' : (Dedup.insert c.dedup p.pn).2 = false := by simpa using hd
            simp only [hd', Bool.false_eq_true, if_false]
            split
            · simp
            · split
              · simp
              · split <;> simp
        · left; simp [ha]
      | retry => simp only; left; split <;> (try split) <;> (try split) <;> simp
      | versionNegotiation => simp only; left; split <;> (try split) <;> (try split) <;> simp
  · simp only [hh, Bool.not_false, if_true]; left; split <;> simp

theorem processedPns_cons_not (p : Pkt) (o : Out) (rest : List (Pkt × Out)) (h : ∀ n, o ≠ .processed n) :
    processedPns ((p, o) :: rest) = processedPns rest := by
  unfold processedPns
  cases o <;> simp_all [List.filterMap_cons]

theorem processedPns_cons_proc (p : Pkt) (n : Nat) (rest : List (Pkt × Out)) :
    processedPns ((p, .processed n) :: rest) = n :: processedPns rest := by
  simp [processedPns, List.filterMap_cons]

/-- over any delivery sequence, no packet number is processed twice; and none that was seen before -/
theorem processed_fresh (ps : List Pkt) : ∀ (c : C) (seen : Nat → Prop), Dedup.Inv c.dedup seen →
    (processedPns (run c ps)).Nodup ∧ ∀ q ∈ processedPns (run c ps), ¬ seen q := by
  induction ps with
  | nil => intro c seen _; simp [run, processedPns]
  | cons p ps ih =>
    intro c seen h
    simp only [run]
    rcases step_cases c p with ⟨hd, hn⟩ | ⟨hd, hn | ⟨hp, hfresh⟩⟩
    · rw [processedPns_cons_not p _ _ hn]
      exact ih (step c p).1 seen (by rw [hd]; exact h)
    · rw [processedPns_cons_not p _ _ hn]
      have hI := Dedup.insert_preserves c.dedup seen h p.pn
      have ⟨i1, i2⟩ := ih (step c p).1 (fun q => seen q ∨ q = p.pn) (by rw [hd]; exact hI)
      exact ⟨i1, fun q hq hs => i2 q hq (Or.inl hs)⟩
    · rw [hp, processedPns_cons_proc]
      have hI := Dedup.insert_preserves c.dedup seen h p.pn
      have ⟨i1, i2⟩ := ih (step c p).1 (fun q => seen q ∨ q = p.pn) (by rw [hd]; exact hI)
      refine ⟨List.nodup_cons.mpr ⟨fun hm => i2 p.pn hm (Or.inr rfl), i1⟩, ?_⟩
      intro q hq hs
      rcases List.mem_cons.mp hq with hq | hq
      · subst hq; exact Dedup.insert_not_dup_fresh c.dedup seen h p.pn hfresh hs
      · exact i2 q hq (Or.inl hs)

/-- a forged / corrupted protected packet changes nothing but the failure counter -/
theorem forged_no_effect (c : C) (p : Pkt) (hk : p.kind = .protectedPkt) (ha : p.authentic = false)
    (hh : p.headerOk = true) (hr : isStatelessReset p = false) :
    step c p = ({ c with authFailures := c.authFailures + 1 }, .dropped) := by
  unfold step
  simp [hh, hr, hk, ha]

/-- a Retry is followed only by a client, still in its handshake, that has processed no other server packet,
    with a non-empty token and a valid integrity tag -/
theorem retry_followed_iff (c : C) (p : Pkt) (hk : p.kind = .retry) (hh : p.headerOk = true)
    (hr : isStatelessReset p = false) :
    (step c p).2 = .retryFollowed ↔
      (c.handshake = true ∧ c.server = false ∧ c.authed = 0 ∧ 16 < p.retryPayloadLen ∧ p.authentic = true) := by
  unfold step
  simp only [hh, hr, hk, Bool.not_true, Bool.false_eq_true, if_false]
  cases hhs : c.handshake <;> cases hsv : c.server <;> simp
  by_cases ha : c.authed = 0
  · by_cases hl : p.retryPayloadLen ≤ 16
    · simp [ha, hl]; omega
    · by_cases hau : p.authentic = true
      · simp [ha, hl, hau]; omega
      · simp [ha, hl, hau]
  · have : c.authed > 0 := by omega
    simp [this, ha]

/-- following a Retry requires that no server packet was processed before, and counts as one -/
theorem retry_followed_imp (c : C) (p : Pkt) (h : (step c p).2 = .retryFollowed) :
    c.authed = 0 ∧ (step c p).1.authed = 1 := by
  unfold step at h ⊢
  simp only at h ⊢
  by_cases hh : p.headerOk = true
  · simp only [hh, Bool.not_true, Bool.false_eq_true, if_false] at h ⊢
    by_cases hr : isStatelessReset p = true
    · simp [hr] at h
    · simp only [hr, Bool.false_eq_true, if_false] at h ⊢
      cases hk : p.kind with
      | protectedPkt =>
        simp only [hk] at h
        split at h
        · simp at h
        · split at h
          · simp at h
          · split at h
            · simp at h
            · split at h <;> simp at h
      | retry =>
        simp only [hk] at h ⊢
        by_cases h1 : (!c.handshake) = true
        · simp [h1] at h
        · simp only [h1, Bool.false_eq_true, if_false] at h ⊢
          by_cases h2 : c.server = true
          · simp [h2] at h
          · simp only [h2, Bool.false_eq_true, if_false] at h ⊢
            by_cases h3 : (decide (c.authed > 0) || decide (p.retryPayloadLen ≤ 16) || !p.authentic) = true
            · simp [h3] at h
            · simp only [h3, Bool.false_eq_true, if_false]
              have : ¬ c.authed > 0 := by
                intro hc; simp [hc] at h3
              exact ⟨by omega, by simp; omega⟩
      | versionNegotiation =>
        simp only [hk] at h
        split at h <;> (try split at h) <;> (try split at h) <;> simp at h
  · simp only [hh, Bool.not_false, if_true] at h
    split at h <;> simp at h

/-- after a Retry has been followed no further Retry is followed -/
theorem retry_at_most_once (c : C) (p q : Pkt) (hp : (step c p).2 = .retryFollowed) :
    (step (step c p).1 q).2 ≠ .retryFollowed := by
  intro hq
  have h1 := (retry_followed_imp c p hp).2
  have h2 := (retry_followed_imp (step c p).1 q hq).1
  omega

/-- a Version Negotiation packet aborts only a connection still in its handshake that has processed no server
    packet, and only if it does not list our version -/
theorem vn_abort_iff (c : C) (p : Pkt) (hk : p.kind = .versionNegotiation) (hh : p.headerOk = true)
    (hr : isStatelessReset p = false) :
    (step c p).2 = .versionMismatch ↔ (c.handshake = true ∧ c.authed = 0 ∧ p.vnListsOurVersion = false) := by
  unfold step
  simp only [hh, hr, hk, Bool.not_true, Bool.false_eq_true, if_false]
  cases hhs : c.handshake <;> simp
  by_cases ha : c.authed = 0
  · cases hv : p.vnListsOurVersion <;> simp [ha]
  · have : c.authed > 0 := by omega
    simp [this, ha]

end QM.Receive
