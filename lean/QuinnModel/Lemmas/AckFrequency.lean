import QuinnModel.Conn.AckFrequency
/-
Proofs about the AckFrequencyState model: `candidate_max_ack_delay` never panics (DESIGN §7 F1, fixed in quinn: the
upper clamp bound is at least the lower one), totality and decision of `ack_frequency_received`, no panic over
arbitrary event sequences.
-/
namespace QM.AckFrequency
open QM

theorem clamp_none_iff (x lo hi : Nat) : clamp x lo hi = none ↔ lo > hi := by
  unfold clamp; split <;> simp [*]

theorem clamp_range (x lo hi d : Nat) (h : clamp x lo hi = some d) : lo ≤ d ∧ d ≤ hi := by
  unfold clamp at h
  split at h
  · simp at h
  · simp only [Option.some.injEq] at h
    subst h
    split
    · omega
    · split <;> omega

theorem upper_ge (rtt m : Nat) : m ≤ Gen.candidateUpper rtt m ∧ rtt ≤ Gen.candidateUpper rtt m ∧
    Gen.minAutomaticAckDelayNs ≤ Gen.candidateUpper rtt m := by
  simp only [Gen.candidateUpper]
  refine ⟨Nat.le_max_right _ _, ?_, ?_⟩
  · exact Nat.le_trans (Nat.le_max_left _ _) (Nat.le_max_left _ _)
  · exact Nat.le_trans (Nat.le_max_right _ _) (Nat.le_max_left _ _)

/-- `candidate_max_ack_delay` never reaches the `assert!` of `clamp`, for any state, rtt, config and peer parameter -/
theorem candidate_some (s : State) (rtt : Nat) (cfg peerMin : Option Nat) :
    ∃ d, candidateMaxAckDelay s rtt cfg peerMin = some d ∧
      minAckDelayNs peerMin ≤ d ∧ d ≤ Gen.candidateUpper rtt (minAckDelayNs peerMin) := by
  unfold candidateMaxAckDelay
  simp only
  cases h : clamp (match cfg with | some d => d | none => s.peerMaxAckDelay) (minAckDelayNs peerMin)
      (Gen.candidateUpper rtt (minAckDelayNs peerMin)) with
  | none =>
    have := (clamp_none_iff _ _ _).mp h
    have := (upper_ge rtt (minAckDelayNs peerMin)).1
    omega
  | some d => exact ⟨d, rfl, clamp_range _ _ _ _ h⟩

theorem clamp_value (x lo hi : Nat) (h : lo ≤ hi) : clamp x lo hi = some (min (max x lo) hi) := by
  unfold clamp
  simp only [show ¬ lo > hi by omega, if_false, Option.some.injEq, Nat.max_def, Nat.min_def]
  by_cases h1 : x < lo
  · simp only [h1, if_true]
    repeat' split
    all_goals omega
  · simp only [h1, if_false]
    repeat' split
    all_goals omega

/-- the value requested: the configured (or the peer's current) delay when it lies in
    `[min_ack_delay, max(rtt, 25 ms, min_ack_delay)]`, else the nearer end of that interval -/
theorem candidate_value (s : State) (rtt : Nat) (cfg peerMin : Option Nat) :
    candidateMaxAckDelay s rtt cfg peerMin =
      some (min (max (match cfg with | some d => d | none => s.peerMaxAckDelay) (minAckDelayNs peerMin))
        (Gen.candidateUpper rtt (minAckDelayNs peerMin))) := by
  unfold candidateMaxAckDelay
  exact clamp_value _ _ _ (upper_ge rtt (minAckDelayNs peerMin)).1

theorem shouldSend_some (fdec : Nat → Nat → Bool) (s : State) (rtt : Nat) (cfg peerMin : Option Nat) :
    ∃ b, shouldSendAckFrequency fdec s rtt cfg peerMin = some b := by
  unfold shouldSendAckFrequency
  by_cases h0 : s.nextSeq = 0
  · exact ⟨true, by simp [h0]⟩
  · obtain ⟨d, hd, _⟩ := candidate_some s rtt cfg peerMin
    simp only [h0, if_false, hd]
    exact ⟨_, rfl⟩

/-- `ack_frequency_received` unfolded on the two facts that decide it -/
theorem recv_eq (s : State) (thr : Nat × Nat) (seq aet req reord : Nat) :
    ackFrequencyReceived s thr seq aet req reord =
      if (∃ h, s.lastFrame = some h ∧ seq ≤ h) then (s, thr, .ok false)
      else if req * 1000 < Gen.timerGranularityNs then
        ({ s with lastFrame := some seq }, thr, .err Gen.ackFreqTooSmallCode)
      else ({ s with lastFrame := some seq, maxAckDelay := req * 1000 }, (aet, reord), .ok true) := by
  unfold ackFrequencyReceived
  cases hl : s.lastFrame with
  | none => simp
  | some h =>
    by_cases hs : seq ≤ h
    · simp [hs]
    · simp [hs]

theorem recv_nextSeq (s : State) (thr : Nat × Nat) (seq aet req reord : Nat) :
    (ackFrequencyReceived s thr seq aet req reord).1.nextSeq = s.nextSeq := by
  rw [recv_eq]
  split
  · rfl
  · split <;> rfl

/-- a stale frame changes nothing; an accepted or rejected one records its sequence number, which is larger
    than every one recorded before -/
theorem recv_sequence (s : State) (thr : Nat × Nat) (seq aet req reord : Nat) :
    ((ackFrequencyReceived s thr seq aet req reord).2.2 = .ok false →
      (ackFrequencyReceived s thr seq aet req reord).1 = s ∧ (ackFrequencyReceived s thr seq aet req reord).2.1 = thr) ∧
    ((ackFrequencyReceived s thr seq aet req reord).2.2 ≠ .ok false →
      (ackFrequencyReceived s thr seq aet req reord).1.lastFrame = some seq ∧ ∀ h, s.lastFrame = some h → h < seq) ∧
    ((ackFrequencyReceived s thr seq aet req reord).2.2 = .ok true →
      (ackFrequencyReceived s thr seq aet req reord).1.maxAckDelay = req * 1000 ∧
      (ackFrequencyReceived s thr seq aet req reord).2.1 = (aet, reord) ∧ req * 1000 ≥ Gen.timerGranularityNs) := by
  rw [recv_eq]
  by_cases hs : ∃ h, s.lastFrame = some h ∧ seq ≤ h
  · rw [if_pos hs]
    exact ⟨fun _ => ⟨rfl, rfl⟩, fun h => absurd rfl h, fun h => by simp at h⟩
  · have hlt : ∀ h, s.lastFrame = some h → h < seq := by
      intro h e
      have hn : ¬ seq ≤ h := fun hh => hs ⟨h, e, hh⟩
      omega
    rw [if_neg hs]
    by_cases hg : req * 1000 < Gen.timerGranularityNs
    · rw [if_pos hg]
      exact ⟨fun h => by simp at h, fun _ => ⟨rfl, hlt⟩, fun h => by simp at h⟩
    · rw [if_neg hg]
      exact ⟨fun h => by simp at h, fun _ => ⟨rfl, hlt⟩, fun _ => ⟨rfl, rfl, by omega⟩⟩

/-- `ack_frequency_received`: which of the three outcomes, exactly -/
theorem recv_decision (s : State) (thr : Nat × Nat) (seq aet req reord : Nat) :
    (ackFrequencyReceived s thr seq aet req reord).2.2 =
      if (∃ h, s.lastFrame = some h ∧ seq ≤ h) then .ok false
      else if req * 1000 < Gen.timerGranularityNs then .err Gen.codeProtocolViolation
      else .ok true := by
  rw [recv_eq]
  split
  · rfl
  · split <;> rfl

/-! ### arbitrary event sequences -/

inductive Op where
  /-- ACK_FREQUENCY frame from the peer (any varints) -/
  | recv (seq aet req reord : Nat)
  /-- a packet number was acknowledged (peer-controlled) -/
  | acked (pn : Nat)
  /-- `poll_transmit` at smoothed rtt `rtt`, sending packet `pn` if an ACK_FREQUENCY frame is due -/
  | poll (rtt pn : Nat)
  /-- PTO computation -/
  | pto
deriving Repr

/-- `poll_transmit` + `populate_packet` as far as ACK_FREQUENCY goes; none = panic -/
def poll (fdec : Nat → Nat → Bool) (s : State) (e : Env) (rtt pn : Nat) : Option State :=
  match shouldSendAckFrequency fdec s rtt e.cfgMaxAckDelay e.peerMinAckDelay with
  | none => none
  | some false => some s
  | some true =>
    match nextSequenceNumber s with
    | none => none
    | some (s1, _) =>
      match candidateMaxAckDelay s1 rtt e.cfgMaxAckDelay e.peerMinAckDelay with
      | none => none
      | some d => some (ackFrequencySent s1 pn d)

def step (fdec : Nat → Nat → Bool) (s : State) (e : Env) : Op → Option (State × Env)
  | .recv seq aet req reord =>
    let r := ackFrequencyReceived s e.thresholds seq aet req reord
    some (r.1, { e with thresholds := r.2.1 })
  | .acked pn => some (onAcked s pn, e)
  | .poll rtt pn => (poll fdec s e rtt pn).map (fun s' => (s', e))
  | .pto => some (s, e)

def run (fdec : Nat → Nat → Bool) : State → Env → List Op → Option (State × Env)
  | s, e, [] => some (s, e)
  | s, e, op :: ops => match step fdec s e op with
    | none => none
    | some (s', e') => run fdec s' e' ops

theorem poll_some (fdec : Nat → Nat → Bool) (s : State) (e : Env) (rtt pn : Nat) (hn : s.nextSeq ≤ varIntMax) :
    ∃ s', poll fdec s e rtt pn = some s' ∧ s'.nextSeq ≤ s.nextSeq + 1 := by
  unfold poll
  obtain ⟨b, hs⟩ := shouldSend_some fdec s rtt e.cfgMaxAckDelay e.peerMinAckDelay
  rw [hs]
  cases b with
  | false => exact ⟨s, rfl, by omega⟩
  | true =>
    simp only
    have : nextSequenceNumber s = some ({ s with nextSeq := s.nextSeq + 1 }, s.nextSeq) := by
      unfold nextSequenceNumber; simp [show ¬ s.nextSeq > varIntMax by omega]
    rw [this]
    simp only
    obtain ⟨d, hd, _⟩ := candidate_some { s with nextSeq := s.nextSeq + 1 } rtt e.cfgMaxAckDelay e.peerMinAckDelay
    rw [hd]
    exact ⟨_, rfl, by simp [ackFrequencySent]⟩

theorem step_some (fdec : Nat → Nat → Bool) (s : State) (e : Env) (op : Op) (hn : s.nextSeq ≤ varIntMax) :
    ∃ s' e', step fdec s e op = some (s', e') ∧ s'.nextSeq ≤ s.nextSeq + 1 := by
  cases op with
  | recv seq aet req reord =>
    refine ⟨_, _, rfl, ?_⟩
    show (ackFrequencyReceived s e.thresholds seq aet req reord).1.nextSeq ≤ _
    rw [recv_nextSeq]; omega
  | acked pn =>
    refine ⟨_, _, rfl, ?_⟩
    unfold onAcked
    split
    · split <;> simp
    · simp
  | poll rtt pn =>
    obtain ⟨s', h, hle⟩ := poll_some fdec s e rtt pn hn
    exact ⟨s', e, by simp [step, h], hle⟩
  | pto => exact ⟨s, e, rfl, by omega⟩

/-- ALL event sequences (any ACK_FREQUENCY frames, any acknowledged packet numbers, polls at any rtt): no panic -/
theorem run_some (fdec : Nat → Nat → Bool) (ops : List Op) : ∀ (s : State) (e : Env),
    s.nextSeq + ops.length ≤ varIntMax + 1 → ∃ r, run fdec s e ops = some r := by
  induction ops with
  | nil => intro s e _; exact ⟨_, rfl⟩
  | cons op ops ih =>
    intro s e hn
    simp only [List.length_cons] at hn
    obtain ⟨s', e', h, hle⟩ := step_some fdec s e op (by omega)
    obtain ⟨r, hr⟩ := ih s' e' (by omega)
    exact ⟨r, by simp only [run, h, hr]⟩

end QM.AckFrequency
