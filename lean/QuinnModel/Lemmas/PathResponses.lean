import QuinnModel.Conn.PathResponses
/- Proofs about the PathResponses model: bounded by MAX_PATH_RESPONSES, at most one entry per remote. -/
namespace QM.PathResponses
open QM

theorem updateFirst_length (r : PathResponse) : ∀ s : State, (updateFirst r s).length = s.length := by
  intro s
  induction s with
  | nil => rfl
  | cons x t ih =>
    unfold updateFirst
    split
    · split <;> rfl
    · simp [ih]

theorem updateFirst_remotes (r : PathResponse) : ∀ s : State,
    (updateFirst r s).map (·.remote) = s.map (·.remote) := by
  intro s
  induction s with
  | nil => rfl
  | cons x t ih =>
    unfold updateFirst
    split
    · rename_i h
      split
      · simp [h]
      · rfl
    · simp [ih]

structure Inv (s : State) : Prop where
  bound : s.length ≤ Gen.maxPathResponses
  distinct : (s.map (·.remote)).Nodup

theorem push_inv (s : State) (h : Inv s) (packet token remote : Nat) : Inv (push s packet token remote) := by
  unfold push
  simp only
  split
  · exact ⟨by rw [updateFirst_length]; exact h.bound, by rw [updateFirst_remotes]; exact h.distinct⟩
  · rename_i hany
    split
    · rename_i hlt
      have hlt : s.length < Gen.maxPathResponses := by simpa [Gen.pathRespHasRoom] using hlt
      refine ⟨by simp only [List.length_append, List.length_singleton]; omega, ?_⟩
      rw [List.map_append, List.nodup_append]
      refine ⟨h.distinct, by simp, ?_⟩
      intro a ha b hb hab
      simp only [List.map_cons, List.map_nil, List.mem_singleton] at hb
      subst hb; subst hab
      apply hany
      rw [List.any_eq_true]
      obtain ⟨x, hx, hxr⟩ := List.mem_map.mp ha
      exact ⟨x, hx, by simpa using hxr⟩
    · exact h

theorem dropLast_inv (s : State) (h : Inv s) : Inv s.dropLast := by
  refine ⟨by rw [List.length_dropLast]; have := h.bound; omega, ?_⟩
  have : (s.dropLast.map (·.remote)) = (s.map (·.remote)).dropLast := by
    rw [List.map_dropLast]
  rw [this]
  exact List.Nodup.sublist (List.dropLast_sublist _) h.distinct

theorem popOffPath_inv (s : State) (h : Inv s) (remote : Nat) : Inv (popOffPath s remote).1 := by
  unfold popOffPath
  split
  · exact h
  · split
    · exact h
    · exact dropLast_inv s h

theorem popOnPath_inv (s : State) (h : Inv s) (remote : Nat) : Inv (popOnPath s remote).1 := by
  unfold popOnPath
  split
  · exact h
  · split
    · exact h
    · exact dropLast_inv s h

inductive Op where
  | push (packet token remote : Nat)
  | popOff (remote : Nat)
  | popOn (remote : Nat)
deriving Repr

def step (s : State) : Op → State
  | .push p t r => push s p t r
  | .popOff r => (popOffPath s r).1
  | .popOn r => (popOnPath s r).1

def run (s : State) (ops : List Op) : State := ops.foldl step s

theorem run_inv (ops : List Op) : ∀ s, Inv s → Inv (run s ops) := by
  induction ops with
  | nil => intro s h; exact h
  | cons op ops ih =>
    intro s h
    simp only [run, List.foldl_cons]
    apply ih
    cases op with
    | push p t r => exact push_inv s h p t r
    | popOff r => exact popOffPath_inv s h r
    | popOn r => exact popOnPath_inv s h r

theorem init_inv : Inv ([] : State) := ⟨by simp, by simp⟩

end QM.PathResponses
