import QuinnModel.Lemmas.StreamsC06Main

/-!
# C06: the buffered-bytes bound without the `discarded` ghost

`rcv_buffered_bound` is stated with the ghost `C` = bytes consumed or discarded, which is *defined*
per operation by `discarded`.  This file ties that definition to the state: over any set of distinct
stream ids, the bytes received and not yet read on the streams that are neither stopped nor reset,
plus `C`, never exceed `data_recvd`.  Hence the sum of unread bytes is bounded by the largest window.
-/

namespace QM.Streams
set_option pp.structureInstances false

/-- received and not yet read on a receive half the application can still read from -/
def unread : Option Recv → Nat
  | some r => if r.isReceiving && !r.stopped then r.end_ - r.assembler.bytesRead else 0
  | none => 0

def sumOn (f : Nat → Nat) : List Nat → Nat
  | [] => 0
  | k :: ks => f k + sumOn f ks

/-- unread bytes over the given streams -/
def State.unreadOn (s : State) (ids : List Nat) : Nat := sumOn (fun k => unread (s.rv k)) ids

theorem sumOn_zero (f : Nat → Nat) (h : ∀ k, f k = 0) : ∀ ids : List Nat, sumOn f ids = 0
  | [] => rfl
  | x :: xs => by simp only [sumOn, h x, sumOn_zero f h xs]

theorem sumOn_le {f g : Nat → Nat} {id : Nat} (h : ∀ k, k ≠ id → g k ≤ f k) :
    ∀ ids : List Nat, id ∉ ids → sumOn g ids ≤ sumOn f ids
  | [], _ => Nat.le_refl _
  | x :: xs, hn => by
    have hx : x ≠ id := fun e => hn (by simp [e])
    have := sumOn_le h xs (fun m => hn (List.mem_cons_of_mem _ m))
    have := h x hx
    simp only [sumOn]; omega

theorem sumOn_point {f g : Nat → Nat} {id : Nat} (h : ∀ k, k ≠ id → g k ≤ f k) :
    ∀ ids : List Nat, ids.Nodup → id ∈ ids → sumOn g ids + f id ≤ sumOn f ids + g id
  | [], _, hm => by simp at hm
  | x :: xs, hnd, hm => by
    have hnd' := List.nodup_cons.mp hnd
    by_cases hx : x = id
    · subst hx
      have := sumOn_le h xs hnd'.1
      simp only [sumOn]; omega
    · have hm' : id ∈ xs := by
        rcases List.mem_cons.mp hm with e | m
        · exact absurd e.symm hx
        · exact m
      have := sumOn_point h xs hnd'.2 hm'
      have := h x hx
      simp only [sumOn]; omega

/-- one operation touches one stream: the others do not gain unread bytes, and on the touched one
    the bytes that leave the unread set (`g id` against `f id`) cover what the operation consumed or
    discarded (`disc`) beyond what arrived (`R'` against `R`) -/
theorem sum_step {f g : Nat → Nat} {id C disc R R' : Nat}
    (inv : ∀ ids : List Nat, ids.Nodup → C + sumOn f ids ≤ R)
    (hk : ∀ k, k ≠ id → g k ≤ f k) (hid : disc + g id + R ≤ f id + R') :
    ∀ ids : List Nat, ids.Nodup → C + disc + sumOn g ids ≤ R' := by
  intro ids hnd
  by_cases hm : id ∈ ids
  · have := sumOn_point hk ids hnd hm
    have := inv ids hnd
    omega
  · have := sumOn_le hk ids hm
    have := inv (id :: ids) (List.nodup_cons.mpr ⟨hm, hnd⟩)
    simp only [sumOn] at this
    omega

/-- a reset half has no buffered data (`Recv::reset` clears the assembler) -/
def Clr (o : Option Recv) : Prop := ∀ r, o = some r → r.isReceiving = false → r.assembler.buf = []

def ClrAll (s : State) : Prop := ∀ k, Clr (s.rv k)

theorem Clr.none : Clr none := fun _ h => by simp at h

theorem clr_new (srw : Nat) : Clr (some (Recv.new srw)) := by
  intro r h hr
  simp only [Option.some.injEq] at h; subst h
  simp [Recv.new, Recv.isReceiving] at hr

/-- the half `o'` holds no more unread bytes than `o` and is cleared if `o` was -/
def Le (o' o : Option Recv) : Prop := unread o' ≤ unread o ∧ (Clr o → Clr o')

theorem Le.refl (o : Option Recv) : Le o o := ⟨Nat.le_refl _, id⟩

theorem Le.of {o' o : Option Recv} (h : o' = o ∨ o' = none) : Le o' o := by
  rcases h with h | h
  · rw [h]; exact Le.refl o
  · rw [h]; exact ⟨Nat.zero_le _, fun _ => Clr.none⟩

theorem Le.trans {a b c : Option Recv} (h1 : Le a b) (h2 : Le b c) : Le a c :=
  ⟨Nat.le_trans h1.1 h2.1, fun x => h1.2 (h2.2 x)⟩

/-- effect of one operation on the unread bytes: it touches one stream `id`, the other halves hold
    no more unread bytes than before; on `id`, what was consumed or discarded left the unread set
    or had just arrived -/
def Eff (s s' : State) (disc : Nat) : Prop :=
  ∃ id, (∀ k, k ≠ id → Le (s'.rv k) (s.rv k)) ∧
    (ClrAll s → Clr (s'.rv id) ∧
      disc + unread (s'.rv id) + s.dataRecvd ≤ unread (s.rv id) + s'.dataRecvd)

/-- an operation that only rearranges: same `data_recvd`, no half gains unread bytes -/
def Same (s s' : State) : Prop := s'.dataRecvd = s.dataRecvd ∧ ∀ k, Le (s'.rv k) (s.rv k)

theorem Same.of_rvw {s s' : State} (h : s'.rvw = s.rvw) : Same s s' := by
  have hc := congrArg RView.core h
  have hr : ∀ k, s'.rv k = s.rv k := fun k => congrFun (congrArg RView.rv h) k
  simp only [State.rvw, State.rcore, RCore.mk.injEq] at hc
  exact ⟨hc.1, fun k => by rw [hr k]; exact Le.refl _⟩

theorem Same.eff {s s' : State} (h : Same s s') : Eff s s' 0 :=
  ⟨0, fun k _ => h.2 k, fun cl => ⟨(h.2 0).2 (cl 0), by have := (h.2 0).1; rw [h.1]; omega⟩⟩

theorem Eff.of_rvw {s s' : State} (h : s'.rvw = s.rvw) : Eff s s' 0 := (Same.of_rvw h).eff

theorem unread_new (srw : Nat) : unread (some (Recv.new srw)) = 0 := by
  simp [unread, Recv.new]

theorem unread_le (r : Recv) : unread (some r) ≤ r.end_ - r.assembler.bytesRead := by
  simp only [unread]; split <;> omega

theorem unread_stopped {r : Recv} (h : r.stopped = true) : unread (some r) = 0 := by
  simp [unread, h]

theorem unread_reset {r : Recv} (h : r.isReceiving = false) : unread (some r) = 0 := by
  simp [unread, h]

theorem unread_open {r : Recv} (h1 : r.isReceiving = true) (h2 : r.stopped = false) :
    unread (some r) = r.end_ - r.assembler.bytesRead := by
  simp [unread, h1, h2]

/-- the half handed out by `getOrInsertRecv` counts like the old entry -/
theorem goir_unread {s : State} {id : Nat} {rs : Recv}
    (hor : s.recv.find? id = some (some rs) ∨ (s.recv.find? id = some none ∧ rs = Recv.new s.streamReceiveWindow)) :
    unread (some rs) = unread (s.rv id) ∧ (ClrAll s → Clr (some rs)) := by
  rcases hor with hh | ⟨hh, hnew⟩
  · have e := rv_eq_some.mpr hh
    exact ⟨by rw [e], fun cl => by rw [← e]; exact cl id⟩
  · have : s.rv id = none := by simp only [State.rv, hh]
    rw [this, hnew, unread_new]; exact ⟨rfl, fun _ => clr_new _⟩

theorem stop_eff {s s' : State} {id code : Nat} {b : Bool}
    (h : s.stop id code = some (s', b)) (i : RInv s) :
    Eff s s' (discarded s (.stop id code) (if b then .ok else .errClosed)) := by
  unfold State.stop at h
  split at h
  · simp only [Option.some.injEq, Prod.mk.injEq] at h
    obtain ⟨rfl, rfl⟩ := h
    exact ⟨id, fun k _ => Le.refl _, fun cl => ⟨cl id, by simp [discarded]⟩⟩
  · rename_i rs s1 hg
    obtain ⟨i1, hc1, hrsok, hw, hrv1', hrv1, hor⟩ := goir_inv hg i
    simp only [State.rcore, RCore.mk.injEq] at hc1
    obtain ⟨hu, hcl⟩ := goir_unread hor
    split at h
    · contradiction
    · -- already stopped
      simp only [Option.some.injEq, Prod.mk.injEq] at h
      obtain ⟨rfl, rfl⟩ := h
      refine ⟨id, fun k hk => Le.of (Or.inl <| by rw [hrv1 k]; simp [hk]), fun cl => ?_⟩
      rw [hrv1 id]; simp only [↓reduceIte, hu, discarded, Bool.false_eq_true, hc1.1]
      exact ⟨hcl cl, by omega⟩
    · rename_i credits stopSending rs' hst
      have hst' : rs.stopped = false ∧ rs'.stopped = true ∧ rs'.assembler.buf = [] := by
        unfold Recv.stop at hst
        split at hst
        · simp at hst
        · rename_i hns
          split at hst
          · contradiction
          · simp only [Option.some.injEq, Prod.mk.injEq] at hst
            exact ⟨by simpa using hns, by rw [← hst.2.2], by rw [← hst.2.2]; rfl⟩
      split at h
      · contradiction
      · rename_i s4a hfree
        split at h
        · contradiction
        · rename_i s4 hqm
          split at h
          · contradiction
          · rename_i s5 t hcq
            simp only [Option.some.injEq, Prod.mk.injEq] at h
            obtain ⟨rfl, rfl⟩ := h
            -- announcing the freed slot (`queue_max_stream_id`) does not touch the receive side's accounting
            have hqv := rvw_queueMaxIf hqm
            obtain ⟨hc4a, hrv4a⟩ := freeRecvIf_rv hfree
            have hc4 : s4.rcore = _ := (congrArg RView.core hqv).trans hc4a
            have hrv4 : ∀ k, s4.rv k = _ := fun k => (congrFun (congrArg RView.rv hqv) k).trans (hrv4a k)
            have hq := rvw_queueStopSending (s1.putRecv id rs') stopSending id code
            have hc4' : s4.rcore = s1.rcore := by
              rw [hc4]; exact congrArg RView.core hq
            simp only [State.rcore, RCore.mk.injEq] at hc4'
            obtain ⟨q1, q2, _⟩ := creditAndQueue_spec hcq
            have e5 : ∀ k, s5.rv k = if (!rs'.finalOffsetUnknown) = true ∧ k = id then none
                else if k = id then some rs' else s1.rv k := by
              intro k
              have a : s5.rv k = s4.rv k := by simp only [State.rv, q1]
              have e1 : ((s1.putRecv id rs').queueStopSending stopSending id code).rv k =
                  (s1.putRecv id rs').rv k := congrFun (congrArg RView.rv hq) k
              rw [a, hrv4 k, e1, rv_putRecv hw.choose_spec]
            refine ⟨id, fun k hk => Le.of (Or.inl <| by rw [e5 k, hrv1 k]; simp [hk]), fun cl => ?_⟩
            have hu' : unread (s5.rv id) = 0 ∧ Clr (s5.rv id) := by
              rw [e5 id]; split
              · exact ⟨rfl, Clr.none⟩
              · simp only [↓reduceIte]
                refine ⟨unread_stopped hst'.2.1, fun r hr _ => ?_⟩
                simp only [Option.some.injEq] at hr; subst hr; exact hst'.2.2
            have hd : discarded s (.stop id code) .ok ≤ unread (s.rv id) := by
              rw [← hu]
              simp only [discarded]
              rcases hor with hh | ⟨hh, hnew⟩
              · rw [hh]; simp only [unread, hst'.1]; split <;> simp_all
              · rw [hh]; exact Nat.zero_le _
            simp only [↓reduceIte]
            rw [hu'.1, q2, hc4'.1, hc1.1]; exact ⟨hu'.2, by omega⟩

theorem read_eff {s s' : State} {id budget : Nat} {r : ReadRes}
    (h : s.read id budget = some (s', r)) (i : RInv s) :
    Eff s s' (discarded s (.read id budget)
      (match r with | .closedStream => .errClosed | .ok k e t => .read k e t)) := by
  unfold State.read at h
  split at h
  · simp only [Option.some.injEq, Prod.mk.injEq] at h
    obtain ⟨rfl, rfl⟩ := h
    exact ⟨id, fun k _ => Le.refl _, fun cl => ⟨cl id, by simp [discarded]⟩⟩
  · rename_i rs s1 hg
    obtain ⟨i1, hc1, hrsok, hw, hrv1', hrv1, hor⟩ := goir_inv hg i
    simp only [State.rcore, RCore.mk.injEq] at hc1
    obtain ⟨hu, hcl⟩ := goir_unread hor
    split at h
    · simp only [Option.some.injEq, Prod.mk.injEq] at h
      obtain ⟨rfl, rfl⟩ := h
      refine ⟨id, fun k hk => Le.of (Or.inl <| by rw [hrv1 k]; simp [hk]), fun cl => ?_⟩
      rw [hrv1 id]; simp only [↓reduceIte, hu, discarded, hc1.1]
      exact ⟨hcl cl, by omega⟩
    · rename_i hns
      have hns' : rs.stopped = false := by simpa using hns
      dsimp only at h
      split at h
      · contradiction
      · rename_i end_ freed hre
        split at h
        · contradiction
        · rename_i s3 hfree
          split at h
          · contradiction
          · rename_i s4 t0 hq
            split at h
            · contradiction
            · rename_i s5 t01 hfin
              split at h
              · contradiction
              · rename_i s6 t2 harc
                simp only [Option.some.injEq, Prod.mk.injEq] at h
                obtain ⟨rfl, rfl⟩ := h
                have hk : Nat.min budget rs.assembler.available ≤ rs.assembler.available := by
                  simp only [natMin_eq]; omega
                obtain ⟨hbr, hbuf⟩ := consume_ok rs.assembler _ rs.end_ hk hrsok.buf_le
                have hav := available_le rs.assembler rs.end_ hrsok.buf_le hrsok.read_le
                have f3 := rvw_freeIf hfree
                have f4 := rvw_queueMaxStreamId hq
                obtain ⟨hc5, hrv5⟩ := finalizeReadable_rv hfin
                obtain ⟨q1, q2, _⟩ := addReadCredits_spec harc
                have hc4 : s4.rcore = s1.rcore := by
                  have := congrArg RView.core (f4.trans f3); exact this
                have hc5' := hc5.trans hc4
                simp only [State.rcore, RCore.mk.injEq] at hc5'
                have e6 : ∀ k, ({ s6 with rtx := { s6.rtx with maxData := s6.rtx.maxData || t2 } } : State).rv k =
                    if freed = false ∧ k = id then
                      some { rs with assembler := rs.assembler.consume (Nat.min budget rs.assembler.available) }
                    else if k = id then none else s1.rv k := by
                  intro k
                  have a : ({ s6 with rtx := { s6.rtx with maxData := s6.rtx.maxData || t2 } } : State).rv k = s5.rv k := by
                    simp only [State.rv, q1]
                  have e4 : s4.rv k = ({ s1 with recv := s1.recv.erase id } : State).rv k :=
                    congrFun (congrArg RView.rv (f4.trans f3)) k
                  rw [a, hrv5 k, e4, rv_erase]
                refine ⟨id, fun k hk => Le.of (Or.inl <| by rw [e6 k, hrv1 k]; simp [hk]), fun cl => ?_⟩
                have hclr := hcl cl rs rfl
                -- the consumed half
                have hone : Clr (some { rs with assembler := rs.assembler.consume (Nat.min budget rs.assembler.available) }) ∧
                    Nat.min budget rs.assembler.available +
                      unread (some { rs with assembler := rs.assembler.consume (Nat.min budget rs.assembler.available) }) ≤
                      unread (some rs) := by
                  cases hrcv : rs.isReceiving
                  · have hb := hclr hrcv
                    have hav0 : rs.assembler.available = 0 := by simp [Asm.available, hb]
                    have hcons : rs.assembler.consume (Nat.min budget rs.assembler.available) = rs.assembler := by
                      simp [Asm.consume, hb]
                    rw [hcons, hav0]
                    refine ⟨fun r hr _ => ?_, ?_⟩
                    · simp only [Option.some.injEq] at hr; subst hr; exact hb
                    · have e0 : Nat.min budget 0 = 0 := by simp only [natMin_eq]; omega
                      rw [e0, Nat.zero_add]; exact Nat.le_refl _
                  · refine ⟨fun r hr hr' => ?_, ?_⟩
                    · simp only [Option.some.injEq] at hr; subst hr
                      simp only [Recv.isReceiving] at hr' hrcv; rw [hrcv] at hr'; contradiction
                    · rw [unread_open hrcv hns']
                      have := unread_le { rs with assembler := rs.assembler.consume (Nat.min budget rs.assembler.available) }
                      simp only [hbr] at this
                      omega
                rw [e6 id]
                simp only [discarded]
                rw [q2, hc5'.1, hc1.1]
                obtain ⟨ho1, ho2⟩ := hone
                have key : ∀ u, Nat.min budget rs.assembler.available + u ≤ unread (some rs) →
                    Nat.min budget rs.assembler.available + u + s.dataRecvd ≤ unread (s.rv id) + s.dataRecvd := by
                  intro u hu'; omega
                split
                · exact ⟨ho1, key _ ho2⟩
                · simp only [↓reduceIte]
                  exact ⟨Clr.none, key 0 (Nat.le_trans (Nat.add_le_add_left (Nat.zero_le _) _) ho2)⟩

theorem ingest_receiving {r r' : Recv} {offset len received maxData nb : Nat} {fin cl : Bool}
    (h : r.ingest offset len fin received maxData = some (.ok (nb, cl, r'))) :
    r'.isReceiving = r.isReceiving := by
  unfold Recv.ingest Recv.ingestTail at h
  osplit h
  all_goals
    obtain ⟨_, _, rfl⟩ := h
    simp only [Recv.isReceiving]
    try split
    all_goals (cases hst : r.state <;> simp_all)

/-- the `discarded` entry of a STREAM frame is at most the newly arrived bytes, and 0 unless the
    stream is stopped -/
theorem discarded_stream_le (s : State) (id off len : Nat) (fin : Bool) (out : Out) (rs : Recv)
    (hor : s.recv.find? id = some (some rs) ∨ (s.recv.find? id = some none ∧ rs = Recv.new s.streamReceiveWindow)) :
    discarded s (.stream id off len fin) out ≤ off + len - rs.end_ ∧
    (rs.stopped = false → discarded s (.stream id off len fin) out = 0) := by
  cases out <;> simp only [discarded, Nat.zero_le, implies_true, and_self]
  rcases hor with hh | ⟨hh, _⟩
  · rw [hh]; simp only
    constructor
    · split <;> omega
    · intro hs; simp [hs]
  · rw [hh]; simp

theorem received_eff {s s' : State} {id off len : Nat} {fin : Bool} {r : Except TErr Bool}
    (h : s.received id off len fin = some (s', r)) (i : RInv s) :
    Eff s s' (discarded s (.stream id off len fin) (outT r)) := by
  unfold State.received at h
  split at h
  · simp only [Option.some.injEq, Prod.mk.injEq] at h
    obtain ⟨rfl, rfl⟩ := h
    exact ⟨id, fun k _ => Le.refl _, fun cl => ⟨cl id, by simp [discarded, outT]⟩⟩
  · split at h
    · rename_i hg
      simp only [Option.some.injEq, Prod.mk.injEq] at h
      obtain ⟨rfl, rfl⟩ := h
      have hn : s.recv.find? id = none := by
        unfold State.getOrInsertRecv at hg
        split at hg <;> simp_all
      exact ⟨id, fun k _ => Le.refl _, fun cl => ⟨cl id, by simp [discarded, outT, hn]⟩⟩
    · rename_i rs s1 hg
      obtain ⟨i1, hc1, hrsok, hw, hrv1', hrv1, hor⟩ := goir_inv hg i
      simp only [State.rcore, RCore.mk.injEq] at hc1
      obtain ⟨hu, hcl⟩ := goir_unread hor
      -- nothing but the lookup happened
      have hsame : ∀ out, (rs.stopped = false ∨ rs.isReceiving = false ∨ ∀ b, out ≠ .okFlag b) →
          Eff s s1 (discarded s (.stream id off len fin) out) := by
        intro out hcase
        refine ⟨id, fun k hk => Le.of (Or.inl <| by rw [hrv1 k]; simp [hk]), fun cl => ?_⟩
        rw [hrv1 id]; simp only [↓reduceIte, hu, hc1.1]
        refine ⟨hcl cl, ?_⟩
        have hd : discarded s (.stream id off len fin) out = 0 := by
          rcases hcase with h1 | h2 | h3
          · exact (discarded_stream_le s id off len fin out rs hor).2 h1
          · cases out <;> simp only [discarded]
            rcases hor with hh | ⟨hh, _⟩
            · rw [hh]; simp [h2]
            · rw [hh]
          · cases out <;> simp only [discarded]
            exact absurd rfl (h3 _)
        omega
      split at h
      · rename_i hnr
        simp only [Option.some.injEq, Prod.mk.injEq] at h
        obtain ⟨rfl, rfl⟩ := h
        exact hsame _ (Or.inr (Or.inl (by simpa using hnr)))
      · rename_i hrc
        have hrecv : rs.isReceiving = true := by simpa using hrc
        split at h
        · contradiction
        · simp only [Option.some.injEq, Prod.mk.injEq] at h
          obtain ⟨rfl, rfl⟩ := h
          exact hsame _ (Or.inr (Or.inr (by intro b; simp [outT])))
        · rename_i nb closed rs' hing
          obtain ⟨ok', hnb, hcred, hst, hcl'⟩ := ingest_ok_recvOk hrsok hing
          have hrecv' : rs'.isReceiving = true := by rw [ingest_receiving hing]; exact hrecv
          have hclr' : Clr (some rs') := by
            intro r hr hr'
            simp only [Option.some.injEq] at hr; subst hr; rw [hrecv'] at hr'; contradiction
          have hend : rs'.end_ = Nat.max rs.end_ (off + len) ∧ rs'.assembler.bytesRead = rs.assembler.bytesRead := by
            rcases ingest_cases hing with ⟨_, he⟩ | ⟨_, _, he⟩ | ⟨_, _, _, he⟩ | ⟨_, _, _, _, r'', he, e1, _, _, e4, _⟩
            · contradiction
            · contradiction
            · contradiction
            · simp only [Except.ok.injEq, Prod.mk.injEq] at he
              obtain ⟨_, _, rfl⟩ := he
              exact ⟨e1, e4⟩
          have hlmd := i.lmd_u64
          have hrl := i.recvd_le
          simp only [State.rvw, State.rcore] at hlmd hrl
          have hdr : satAdd s1.dataRecvd nb = s1.dataRecvd + nb := by
            apply satAdd_exact; rw [hc1.1]; rw [hc1.1, hc1.2.1] at hcred; omega
          obtain ⟨hdle, hd0⟩ := discarded_stream_le s id off len fin (outT r) rs hor
          have hbr := hrsok.read_le
          split at h
          · -- open stream: the new bytes are unread
            rename_i hns
            have hns' : rs.stopped = false := by rw [← hst]; simpa using hns
            simp only [Option.some.injEq, Prod.mk.injEq] at h
            obtain ⟨rfl, rfl⟩ := h
            have hv := rvw_onStreamFrame ({ (s1.putRecv id rs') with dataRecvd := satAdd s1.dataRecvd nb }) true id
            have e2 : ∀ k, (({ (s1.putRecv id rs') with dataRecvd := satAdd s1.dataRecvd nb } : State).onStreamFrame true id).rv k =
                if k = id then some rs' else s1.rv k := by
              intro k
              have a := congrFun (congrArg RView.rv hv) k
              simp only [State.rvw] at a
              rw [a]
              exact rv_putRecv hw.choose_spec k
            have ed : (({ (s1.putRecv id rs') with dataRecvd := satAdd s1.dataRecvd nb } : State).onStreamFrame true id).dataRecvd =
                s.dataRecvd + nb := by
              have a := congrArg (fun v => v.core.dataRecvd) hv
              simp only [State.rvw, State.rcore] at a
              rw [a, hdr, hc1.1]
            refine ⟨id, fun k hk => Le.of (Or.inl <| by rw [e2 k, hrv1 k]; simp [hk]), fun cl => ?_⟩
            rw [e2 id, ed, hd0 hns', ← hu, unread_open hrecv hns']
            simp only [↓reduceIte]
            refine ⟨hclr', ?_⟩
            have := unread_le rs'
            rw [hend.1, hend.2] at this
            simp only [natMax_eq] at this
            omega
          · -- stopped stream: discarded on arrival
            rename_i hstop
            have hstopped : rs'.stopped = true := by simpa using hstop
            dsimp only at h
            split at h
            · contradiction
            · rename_i s3 hfree
              split at h
              · contradiction
              · rename_i s4 t hcq
                simp only [Option.some.injEq, Prod.mk.injEq] at h
                obtain ⟨rfl, rfl⟩ := h
                obtain ⟨hc3, hrv3⟩ := freeRecvIf_rv hfree
                simp only [State.rcore, RCore.mk.injEq, State.putRecv] at hc3
                obtain ⟨q1, q2, _⟩ := creditAndQueue_spec hcq
                have e4 : ∀ k, s4.rv k = if closed = true ∧ k = id then none
                    else if k = id then some rs' else s1.rv k := by
                  intro k
                  have a : s4.rv k = s3.rv k := by simp only [State.rv, q1]
                  have hput : ({ (s1.putRecv id rs') with dataRecvd := satAdd s1.dataRecvd nb } : State).rv k =
                      (s1.putRecv id rs').rv k := rfl
                  rw [a, hrv3 k, hput, rv_putRecv hw.choose_spec]
                refine ⟨id, fun k hk => Le.of (Or.inl <| by rw [e4 k, hrv1 k]; simp [hk]), fun cl => ?_⟩
                have hu' : unread (s4.rv id) = 0 ∧ Clr (s4.rv id) := by
                  rw [e4 id]; split
                  · exact ⟨rfl, Clr.none⟩
                  · simp only [↓reduceIte]; exact ⟨unread_stopped hstopped, hclr'⟩
                rw [hu'.1, q2, hc3.1, hdr, hc1.1]
                exact ⟨hu'.2, by omega⟩

theorem receivedReset_eff {s s' : State} {id code fo : Nat} {r : Except TErr Bool}
    (h : s.receivedReset id code fo = some (s', r)) (i : RInv s) :
    Eff s s' (discarded s (.rst id code fo) (outT r)) := by
  unfold State.receivedReset at h
  split at h
  · simp only [Option.some.injEq, Prod.mk.injEq] at h
    obtain ⟨rfl, rfl⟩ := h
    exact ⟨id, fun k _ => Le.refl _, fun cl => ⟨cl id, by simp [discarded, outT]⟩⟩
  · split at h
    · rename_i hg
      simp only [Option.some.injEq, Prod.mk.injEq] at h
      obtain ⟨rfl, rfl⟩ := h
      have hn : s.recv.find? id = none := by
        unfold State.getOrInsertRecv at hg
        split at hg <;> simp_all
      exact ⟨id, fun k _ => Le.refl _, fun cl => ⟨cl id, by simp [discarded, outT, hn]⟩⟩
    · rename_i rs s1 hg
      obtain ⟨i1, hc1, hrsok, hw, hrv1', hrv1, hor⟩ := goir_inv hg i
      simp only [State.rcore, RCore.mk.injEq] at hc1
      obtain ⟨hu, hcl⟩ := goir_unread hor
      have hlmd := i.lmd_u64
      have hrl := i.recvd_le
      simp only [State.rvw, State.rcore] at hlmd hrl
      -- nothing but the lookup happened and nothing counts as discarded
      have hsame : ∀ out, discarded s (.rst id code fo) out = 0 →
          Eff s s1 (discarded s (.rst id code fo) out) := by
        intro out hd
        refine ⟨id, fun k hk => Le.of (Or.inl <| by rw [hrv1 k]; simp [hk]), fun cl => ?_⟩
        rw [hrv1 id]; simp only [↓reduceIte, hu, hc1.1]
        exact ⟨hcl cl, by omega⟩
      split at h
      · contradiction
      · simp only [Option.some.injEq, Prod.mk.injEq] at h
        obtain ⟨rfl, rfl⟩ := h
        exact hsame _ (by simp [discarded, outT])
      · rename_i rsx hres
        simp only [Option.some.injEq, Prod.mk.injEq] at h
        obtain ⟨rfl, rfl⟩ := h
        have hnr : rs.isReceiving = false := by
          rcases reset_cases hres with ⟨_, _, _, he⟩ | ⟨_, _, he⟩ | ⟨_, _, he⟩ | ⟨_, _, _, hh⟩
          · contradiction
          · contradiction
          · contradiction
          · rcases hh with ⟨sz, c, hst, _⟩ | ⟨sz, hst, he⟩
            · simp [Recv.isReceiving, hst]
            · simp at he
        refine hsame _ ?_
        simp only [discarded, outT]
        rcases hor with hh | ⟨hh, hnew⟩
        · rw [hh]; simp [hnr]
        · rw [hnew] at hnr; simp [Recv.new, Recv.isReceiving] at hnr
      · rename_i rs' hres
        have hfacts : rs.isReceiving = true ∧ fo ≤ rs.sentMaxStreamData ∧
            s1.dataRecvd + (fo - rs.end_) ≤ s1.localMaxData ∧
            rs' = { rs with state := .resetRecvd fo code, assembler := rs.assembler.clear } := by
          rcases reset_cases hres with ⟨_, _, _, he⟩ | ⟨_, _, he⟩ | ⟨_, _, he⟩ | ⟨_, h3, h4, hh⟩
          · contradiction
          · contradiction
          · contradiction
          · rcases hh with ⟨sz, c, hst, he⟩ | ⟨sz, hst, he⟩
            · simp at he
            · simp only [Except.ok.injEq, Prod.mk.injEq, true_and] at he
              have hrc : rs.isReceiving = true := by simp [Recv.isReceiving, hst]
              exact ⟨hrc, h3 hrc, h4 hrc, he⟩
        obtain ⟨hrecv, hfo, hcred, hrs'⟩ := hfacts
        have hbr : rs'.assembler.bytesRead = rs.assembler.bytesRead := by rw [hrs']; rfl
        have hend : rs'.end_ = rs.end_ := by rw [hrs']
        have hstp : rs'.stopped = rs.stopped := by rw [hrs']
        have hnr' : rs'.isReceiving = false := by rw [hrs']; rfl
        have hclr' : Clr (some rs') := by
          intro r hr _
          simp only [Option.some.injEq] at hr; subst hr; rw [hrs']; rfl
        dsimp only at h
        split at h
        · contradiction
        · rename_i s3 hfree
          obtain ⟨hc3, hrv3⟩ := freeRecvIf_rv hfree
          have hc3' := hc3
          simp only [State.rcore, RCore.mk.injEq, State.putRecv] at hc3'
          have hv4 := rvw_onStreamFrame s3 (!rs'.stopped) id
          have e4 : ∀ k, (s3.onStreamFrame (!rs'.stopped) id).rv k =
              if rs'.stopped = true ∧ k = id then none else if k = id then some rs' else s1.rv k := by
            intro k
            have a : (s3.onStreamFrame (!rs'.stopped) id).rv k = s3.rv k := congrFun (congrArg RView.rv hv4) k
            rw [a, hrv3 k, rv_putRecv hw.choose_spec]
          have hd4 : (s3.onStreamFrame (!rs'.stopped) id).dataRecvd = s.dataRecvd := by
            have a := congrArg (fun v => v.core.dataRecvd) hv4
            simp only [State.rvw, State.rcore] at a
            rw [a, hc3'.1, hc1.1]
          have hu4 : unread ((s3.onStreamFrame (!rs'.stopped) id).rv id) = 0 ∧
              Clr ((s3.onStreamFrame (!rs'.stopped) id).rv id) := by
            rw [e4 id]; split
            · exact ⟨rfl, Clr.none⟩
            · simp only [↓reduceIte]; exact ⟨unread_reset hnr', hclr'⟩
          have hcrd : Gen.resetCredited rs'.stopped rs'.end_ rs'.assembler.bytesRead =
              (if rs.stopped then rs.end_ else rs.assembler.bytesRead) := by
            simp only [Gen.resetCredited, hstp, hend, hbr]
          have hd : ∀ t, discarded s (.rst id code fo) (outT (.ok t)) =
              fo - (if rs.stopped then rs.end_ else rs.assembler.bytesRead) := by
            intro t
            simp only [discarded, outT]
            rcases hor with hh | ⟨hh, hnew⟩
            · rw [hh]; simp [hrecv]
            · rw [hh, hnew]; simp [Recv.new]
          -- unread bytes of the half before the reset
          have hub : unread (s.rv id) = if rs.stopped then 0 else rs.end_ - rs.assembler.bytesRead := by
            rw [← hu]
            cases hs : rs.stopped
            · simp [unread_open hrecv hs]
            · simp [unread_stopped hs]
          have hrd := hrsok.read_le
          split at h
          · split at h
            · contradiction
            · rename_i d hd1
              split at h
              · contradiction
              · rename_i credits hd2
                split at h
                · contradiction
                · rename_i s6 t hcq
                  simp only [Option.some.injEq, Prod.mk.injEq] at h
                  obtain ⟨rfl, rfl⟩ := h
                  have hdv := subU_eq hd1
                  rw [hend] at hdv
                  obtain ⟨q1, q2, _⟩ := creditAndQueue_spec hcq
                  have hexact : satAdd (s3.onStreamFrame (!rs'.stopped) id).dataRecvd d =
                      s.dataRecvd + (fo - rs.end_) := by
                    rw [hd4, hdv.1]; apply satAdd_exact
                    rw [hc1.1, hc1.2.1] at hcred; omega
                  have e6 : ∀ k, s6.rv k = (s3.onStreamFrame (!rs'.stopped) id).rv k := by
                    intro k; simp only [State.rv, q1]
                  refine ⟨id, fun k hk => Le.of (Or.inl <| by rw [e6 k, e4 k, hrv1 k]; simp [hk]), fun cl => ?_⟩
                  rw [e6 id, hu4.1, q2, hd t, hub]
                  simp only
                  rw [hexact]
                  refine ⟨hu4.2, ?_⟩
                  split <;> omega
          · rename_i heq
            simp only [Option.some.injEq, Prod.mk.injEq] at h
            obtain ⟨rfl, rfl⟩ := h
            have heq' : (if rs.stopped then rs.end_ else rs.assembler.bytesRead) = fo := by
              rw [← hcrd]; exact Decidable.byContradiction heq
            refine ⟨id, fun k hk => Le.of (Or.inl <| by rw [e4 k, hrv1 k]; simp [hk]), fun cl => ?_⟩
            rw [hu4.1, hd4, hd false, heq']
            exact ⟨hu4.2, by omega⟩

theorem recvReceivedReset_eff {s s' : State} {id : Nat} {r : Option (Option Nat)}
    (h : s.recvReceivedReset id = some (s', r)) : Same s s' := by
  have key : ∀ s2 : State, s2.rvw = ({ s with recv := s.recv.erase id } : State).rvw → Same s s2 := by
    intro s2 hv
    have hc : s2.rcore = s.rcore := congrArg RView.core hv
    simp only [State.rcore, RCore.mk.injEq] at hc
    refine ⟨hc.1, fun k => Le.of ?_⟩
    have e : s2.rv k = ({ s with recv := s.recv.erase id } : State).rv k := congrFun (congrArg RView.rv hv) k
    rw [e, rv_erase]
    split
    · exact Or.inr rfl
    · exact Or.inl rfl
  unfold State.recvReceivedReset at h
  osplit h
  all_goals first
    | (obtain ⟨rfl, _⟩ := h; exact Same.of_rvw rfl)
    | (have hf := rvw_streamRecvFreed ‹State.streamRecvFreed _ _ = some _›
       have hq := rvw_queueMaxStreamId ‹State.queueMaxStreamId _ = some _›
       obtain ⟨rfl, _⟩ := h
       exact key _ (hq.trans hf))

theorem setReceiveWindow_same (s : State) (n : Nat) : Same s (s.setReceiveWindow n).1 := by
  unfold State.setReceiveWindow
  split <;> exact ⟨rfl, fun k => Le.refl _⟩

theorem le_recordSent (rs : Recv) (mx : Nat) : Le (some (rs.recordSentMaxStreamData mx)) (some rs) := by
  unfold Recv.recordSentMaxStreamData
  split
  · refine ⟨Nat.le_refl _, fun cl r hr hr' => ?_⟩
    simp only [Option.some.injEq] at hr; subst hr
    exact cl rs rfl hr'
  · exact Le.refl _

theorem ctrlMsd_same : ∀ (l : List Nat) {s s' : State} {acc fs : List CtrlFrame},
    s.ctrlMsd l acc = some (s', fs) → Same s s' := by
  intro l
  induction l with
  | nil => intro s s' acc fs h; simp [State.ctrlMsd] at h; rw [← h.1]; exact Same.of_rvw rfl
  | cons id rest ih =>
    intro s s' acc fs h
    unfold State.ctrlMsd at h
    split at h
    · rename_i rs hfind
      split at h
      · exact ih h
      · split at h
        · contradiction
        · rename_i mx t hmsd
          split at h
          · obtain ⟨hd, hle⟩ := ih h
            refine ⟨hd, fun k => Le.trans (hle k) ?_⟩
            rw [rv_putRecv hfind]
            by_cases hki : k = id
            · subst hki; simp only [↓reduceIte]; rw [rv_eq_some.mpr hfind]; exact le_recordSent rs mx
            · simp only [hki, ↓reduceIte]; exact Le.refl _
          · contradiction
    · exact ih h

theorem writeControlFrames_same {s s' : State} {fs : List CtrlFrame}
    (h : s.writeControlFrames = some (s', fs)) : Same s s' := by
  unfold State.writeControlFrames at h
  dsimp only at h
  split at h
  · contradiction
  · rename_i s3 msd hm
    simp only [Option.some.injEq, Prod.mk.injEq] at h
    rw [← h.1]
    have hv0 : ({ ((({ s with rtx := { s.rtx with resetStream := [], stopSending := [] } }) : State).ctrlMaxData.1) with
        rtx := { ((({ s with rtx := { s.rtx with resetStream := [], stopSending := [] } }) : State).ctrlMaxData.1).rtx with
          maxStreamData := [] } } : State).rvw = s.rvw := by
      unfold State.ctrlMaxData; split <;> rfl
    have h3 := ctrlMsd_same _ hm
    have hv : (((s3.ctrlMaxStreams .bi).1.ctrlMaxStreams .uni).1.ctrlStreamsBlocked .bi).1.ctrlStreamsBlocked .uni
        |>.1.rvw = s3.rvw := by
      have e1 : ∀ (x : State) (d : Dir), (x.ctrlMaxStreams d).1.rvw = x.rvw := by
        intro x d; unfold State.ctrlMaxStreams; split <;> rfl
      have e2 : ∀ (x : State) (d : Dir), (x.ctrlStreamsBlocked d).1.rvw = x.rvw := by
        intro x d; unfold State.ctrlStreamsBlocked State.ctrlMoveBlocked
        dsimp only; split <;> split <;> rfl
      rw [e2, e2, e1, e1]
    have a := Same.of_rvw hv
    have b := Same.of_rvw hv0
    exact ⟨a.1.trans (h3.1.trans b.1), fun k => Le.trans (a.2 k) (Le.trans (h3.2 k) (b.2 k))⟩

/-! ### the invariant -/

/-- reset halves are cleared, and over any distinct streams the consumed-or-discarded bytes plus
    the unread bytes never exceed `data_recvd` -/
def KInv (s : State) (C : Nat) : Prop :=
  ClrAll s ∧ ∀ ids : List Nat, ids.Nodup → C + s.unreadOn ids ≤ s.dataRecvd

theorem KInv.eff {s s' : State} {C d : Nat} (k : KInv s C) (e : Eff s s' d) : KInv s' (C + d) := by
  obtain ⟨id, hk, hid⟩ := e
  obtain ⟨hc, hle⟩ := hid k.1
  constructor
  · intro j
    by_cases hj : j = id
    · rw [hj]; exact hc
    · exact (hk j hj).2 (k.1 j)
  · exact sum_step (f := fun j => unread (s.rv j)) (g := fun j => unread (s'.rv j)) k.2
      (fun j hj => (hk j hj).1) hle

theorem reachR_kinv {c : Config} {s : State} {C W : Nat} {U : Prop} (r : ReachR c s C W U)
    (hc : c.receiveWindow < 2 ^ 62) : KInv s C := by
  induction r with
  | init h0 =>
    have hv := new_rvw h0
    have hr : ∀ k, _ := fun k => congrFun (congrArg RView.rv hv) k
    simp only [State.rvw] at hr
    refine ⟨fun k => by rw [hr k]; exact Clr.none, fun ids _ => ?_⟩
    rw [State.unreadOn, sumOn_zero _ (fun k => by rw [hr k]; rfl)]; omega
  | step r hr hs ih =>
    rename_i s s' C W U o out
    have i := (reachR_inv r hc).1
    by_cases hro : o.isRecvOp = true
    · cases o <;> simp [Op.isRecvOp] at hro
      case stream id off len fin =>
        unstep hs; obtain ⟨s1, res, h1, rfl, rfl⟩ := hs
        exact ih.eff (received_eff h1 i)
      case rst id code fo =>
        unstep hs; obtain ⟨s1, res, h1, rfl, rfl⟩ := hs
        exact ih.eff (receivedReset_eff h1 i)
      case read id budget =>
        unstep hs; obtain ⟨s1, res, h1, rfl, rfl⟩ := hs
        have := ih.eff (read_eff h1 i)
        cases res <;> exact this
      case stop id code =>
        unstep hs; obtain ⟨s1, ok, h1, rfl, rfl⟩ := hs
        exact ih.eff (stop_eff h1 i)
      case recvReset id =>
        unstep hs; obtain ⟨s1, res, h1, rfl, rfl⟩ := hs
        have := ih.eff (recvReceivedReset_eff h1).eff
        cases res <;> exact this
      case recvWindow n =>
        unstep hs; obtain ⟨rfl, rfl⟩ := hs
        exact ih.eff (setReceiveWindow_same s n).eff
      case ctrl =>
        unstep hs; obtain ⟨s1, fs, h1, rfl, rfl⟩ := hs
        exact ih.eff (writeControlFrames_same h1).eff
    · have hro' : o.isRecvOp = false := by simpa using hro
      have hv := rvw_step hs hro' hr
      rw [discarded_other s o out hro']
      exact ih.eff (Eff.of_rvw hv)

end QM.Streams
