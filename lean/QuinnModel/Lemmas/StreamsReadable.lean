import QuinnModel.Lemmas.StreamsProgress
/-
C02 — no lost `Readable`: every STREAM frame / RESET_STREAM that is accepted on a receiving half the
application has not stopped tells the application: `Readable` is queued when the application already
holds the stream (locally initiated, or reported by `Opened` before: index < next_remote), otherwise the
`Opened` flag of its direction is raised and the stream lies below `next_remote` (so `accept` hands it out).
-/
namespace QM.Streams
set_option pp.structureInstances false

/-- how the application learns that stream `id` has something to read -/
def Notified (s s' : State) (id : Nat) : Prop :=
  if sidInitiator id = s.side ∨ sidIndex id < s.nextRemote.get (sidDir id) then Event.readable id ∈ s'.events
  else s'.opened.get (sidDir id) = true ∧ sidIndex id < s'.nextRemote.get (sidDir id)

theorem onStreamFrame_notifies (s0 s : State) (id : Nat) (h1 : s.side = s0.side) (h2 : s.nextRemote = s0.nextRemote) :
    Notified s0 (s.onStreamFrame true id) id := by
  unfold Notified State.onStreamFrame
  rw [h1, h2]
  by_cases hl : sidInitiator id = s0.side
  · simp [hl]
  · simp only [hl, false_or, ↓reduceIte]
    by_cases hi : sidIndex id < s0.nextRemote.get (sidDir id)
    · have : ¬ sidIndex id ≥ s0.nextRemote.get (sidDir id) := by omega
      simp [hi, this]
    · have : sidIndex id ≥ s0.nextRemote.get (sidDir id) := by omega
      simp only [hi, this, ↓reduceIte, Two.get_set]
      exact ⟨trivial, by omega⟩

theorem getOrInsertRecv_scalars {s s1 : State} {id : Nat} {rs : Recv} (h : s.getOrInsertRecv id = some (rs, s1)) :
    s1.side = s.side ∧ s1.nextRemote = s.nextRemote ∧ s1.events = s.events := by
  unfold State.getOrInsertRecv at h
  osplit h
  all_goals
    obtain ⟨_, rfl⟩ := h
    exact ⟨rfl, rfl, rfl⟩

theorem ingest_stopped {r r' : Recv} {off len rcv md nb : Nat} {fin cl : Bool}
    (h : r.ingest off len fin rcv md = some (.ok (nb, cl, r'))) : r'.stopped = r.stopped := by
  unfold Recv.ingest at h
  osplit h
  unfold Recv.ingestTail at h
  osplit h
  all_goals
    simp only [Except.ok.injEq, Prod.mk.injEq] at h
    obtain ⟨_, _, rfl⟩ := h
    rfl

theorem addReadCredits_events {s s' : State} {c : Nat} {t : Bool} (h : s.addReadCredits c = some (s', t)) :
    s'.events = s.events ∧ s'.opened = s.opened ∧ s'.nextRemote = s.nextRemote := by
  have hs : s' = s.applyCredits c := by
    unfold State.addReadCredits at h
    dsimp only at h
    split at h
    · simp only [Option.some.injEq, Prod.mk.injEq] at h; exact h.1.symm
    · split at h
      · contradiction
      · simp only [Option.some.injEq, Prod.mk.injEq] at h; exact h.1.symm
  rw [hs]; unfold State.applyCredits; split <;> exact ⟨rfl, rfl, rfl⟩

theorem creditAndQueue_events {s s' : State} {c : Nat} {t : Bool} (h : s.creditAndQueue c = some (s', t)) :
    s'.events = s.events ∧ s'.opened = s.opened ∧ s'.nextRemote = s.nextRemote := by
  unfold State.creditAndQueue at h
  osplit h
  all_goals
    obtain ⟨rfl, _⟩ := h
    have f := addReadCredits_events ‹State.addReadCredits _ _ = some _›
    exact f

/-- STREAM frame accepted on a receiving half that is receiving and not stopped: the application is told -/
theorem received_notifies {s s' s1 : State} {id off len : Nat} {fin t : Bool} {rs : Recv}
    (h : s.received id off len fin = some (s', .ok t))
    (hg : s.getOrInsertRecv id = some (rs, s1)) (hrecv : rs.isReceiving = true) (hst : rs.stopped = false) :
    Notified s s' id := by
  obtain ⟨e1, e2, _⟩ := getOrInsertRecv_scalars hg
  unfold State.received at h
  split at h
  · simp at h
  · rw [hg] at h
    simp only [hrecv, Bool.not_true, Bool.false_eq_true, ↓reduceIte] at h
    split at h
    · contradiction
    · simp at h
    · rename_i nb cl rs' hin
      have hs' : rs'.stopped = false := by rw [ingest_stopped hin, hst]
      simp only [hs', Bool.not_false, ↓reduceIte, Option.some.injEq, Prod.mk.injEq] at h
      rw [← h.1]
      exact onStreamFrame_notifies s _ id e1 e2

theorem Recv.reset_stopped {r r' : Recv} {code fo rcv md : Nat}
    (h : r.reset code fo rcv md = some (.ok (true, r'))) : r'.stopped = r.stopped := by
  unfold Recv.reset at h
  osplit h
  unfold Recv.resetTail at h
  osplit h
  all_goals first
    | (simp only [Except.ok.injEq, Prod.mk.injEq] at h; obtain ⟨h1, _⟩ := h; cases h1; done)
    | (simp only [Except.ok.injEq, Prod.mk.injEq] at h; obtain ⟨_, rfl⟩ := h; rfl)

/-- RESET_STREAM that takes effect on a receiving half the application has not stopped: the application is told -/
theorem receivedReset_notifies {s s' s1 : State} {id code fo : Nat} {t : Bool} {rs rs' : Recv}
    (h : s.receivedReset id code fo = some (s', .ok t))
    (hg : s.getOrInsertRecv id = some (rs, s1))
    (hr : rs.reset code fo s1.dataRecvd s1.localMaxData = some (.ok (true, rs'))) (hst : rs.stopped = false) :
    Notified s s' id := by
  obtain ⟨e1, e2, _⟩ := getOrInsertRecv_scalars hg
  have hs' : rs'.stopped = false := by rw [Recv.reset_stopped hr, hst]
  unfold State.receivedReset at h
  split at h
  · simp at h
  · rw [hg] at h
    simp only [hr] at h
    simp only [hs', State.freeRecvIf, Bool.false_eq_true, ↓reduceIte, Bool.not_false] at h
    have hn := onStreamFrame_notifies s (s1.putRecv id rs') id e1 e2
    split at h
    · split at h
      · contradiction
      · split at h
        · contradiction
        · split at h
          · contradiction
          · rename_i s6 t' hc
            simp only [Option.some.injEq, Prod.mk.injEq] at h
            rw [← h.1]
            obtain ⟨c1, c2, c3⟩ := creditAndQueue_events hc
            unfold Notified at hn ⊢
            rw [c1, c2, c3]
            exact hn
    · simp only [Option.some.injEq, Prod.mk.injEq] at h
      rw [← h.1]; exact hn

/-- run operations, keeping the state only (for the non-vacuity examples) -/
def runSteps (s : State) : List Op → Option State
  | [] => some s
  | o :: os => (step s o).bind fun r => runSteps r.1 os

end QM.Streams
