import QuinnModel.Conn.Path
namespace QM.PathM

/-- whenever the connection sits on an unvalidated path, a validated path to fall back to is remembered
    and the validation timer is armed; a validated current path carries no outstanding challenge; an
    unvalidated one always does -/
structure Inv (s : S) : Prop where
  fallback : s.path.validated = false → (∃ p, s.prev = some p) ∧ s.timer.isSome = true
  validatedClean : s.path.validated = true → s.path.challenge = none
  unvalidatedChallenged : s.path.validated = false → s.path.challenge.isSome = true
  prevValidated : ∀ p, s.prev = some p → p.validated = true

theorem init_inv (a : Nat) (m : Bool) : Inv (init a m) := by
  refine ⟨?_, ?_, ?_, ?_⟩ <;> simp [init]

theorem step_inv (s : S) (e : Ev) (h : Inv s) : Inv (step s e) := by
  obtain ⟨⟨addr, v, ch, pd⟩, prev, timer, mm⟩ := s
  obtain ⟨h1, h2, h3, h4⟩ := h
  simp only at h1 h2 h3 h4
  cases e with
  | pkt src trigger now ptoNew ptoOld tok tok2 =>
    simp only [step]
    by_cases c1 : src ≠ addr ∧ (!mm) = true
    · rw [if_pos c1]; exact ⟨h1, h2, h3, h4⟩
    · rw [if_neg c1]
      by_cases c2 : src ≠ addr ∧ trigger = true
      · rw [if_pos c2]
        cases v with
        | true =>
          have hc := h2 rfl
          subst hc
          refine ⟨?_, ?_, ?_, ?_⟩ <;> simp [migrate]
        | false =>
          have ⟨⟨p, hp⟩, ht⟩ := h1 rfl
          have hch := h3 rfl
          cases ch with
          | none => simp at hch
          | some c =>
            refine ⟨?_, ?_, ?_, ?_⟩ <;> simp [migrate]
            · exact ⟨p, hp⟩
            · exact h4
      · rw [if_neg c2]; exact ⟨h1, h2, h3, h4⟩
  | response src tok =>
    simp only [step]
    by_cases c1 : src ≠ addr ∧ (!mm) = true
    · rw [if_pos c1]; exact ⟨h1, h2, h3, h4⟩
    · rw [if_neg c1]
      by_cases c2 : ch = some tok ∧ src = addr
      · rw [if_pos c2]
        refine ⟨?_, ?_, ?_, ?_⟩ <;> simp
        intro p q
        exact h4 p q
      · rw [if_neg c2]; exact ⟨h1, h2, h3, h4⟩
  | timeout now =>
    simp only [step]
    cases timer with
    | none => exact ⟨h1, h2, h3, h4⟩
    | some t =>
      simp only
      by_cases c : t ≤ now
      · rw [if_pos c]
        cases prev with
        | some p =>
          have hp := h4 p rfl
          refine ⟨?_, ?_, ?_, ?_⟩ <;> simp [hp]
        | none =>
          cases v with
          | true => refine ⟨?_, ?_, ?_, ?_⟩ <;> simp
          | false => have := (h1 rfl).1; simp at this
      · rw [if_neg c]; exact ⟨h1, h2, h3, h4⟩

theorem run_inv (evs : List Ev) : ∀ s, Inv s → Inv (run s evs) := by
  induction evs with
  | nil => intro s h; exact h
  | cons e rest ih => intro s h; exact ih _ (step_inv s e h)

theorem unvalidated_has_fallback (a : Nat) (m : Bool) (evs : List Ev) :
    let s := run (init a m) evs
    s.path.validated = false → (∃ p, s.prev = some p ∧ p.validated = true) ∧ s.timer.isSome = true := by
  intro s hu
  have hi : Inv s := run_inv evs _ (init_inv a m)
  obtain ⟨⟨p, hp⟩, ht⟩ := hi.fallback hu
  exact ⟨⟨p, hp, hi.prevValidated p hp⟩, ht⟩

/-- with migration disabled the initial state is a fixed point of every event -/
theorem step_init_false (a : Nat) (e : Ev) : step (init a false) e = init a false := by
  cases e with
  | pkt src trigger now ptoNew ptoOld tok tok2 =>
    simp only [step, init]
    by_cases c : src = a <;> simp [c]
  | response src tok =>
    simp only [step, init]
    by_cases c : src = a <;> simp [c]
  | timeout now => simp [step, init]

theorem run_init_false (a : Nat) (evs : List Ev) : run (init a false) evs = init a false := by
  induction evs with
  | nil => rfl
  | cons e rest ih =>
    show run (step (init a false) e) rest = init a false
    rw [step_init_false]; exact ih

theorem no_migration_path (a : Nat) (evs : List Ev) :
    (run (init a false) evs).path.addr = a ∧ (run (init a false) evs).path.validated = true := by
  rw [run_init_false]; exact ⟨rfl, rfl⟩

theorem pkt_no_trigger_keeps_path (s : S) (src now ptoNew ptoOld tok tok2 : Nat) :
    (step s (.pkt src false now ptoNew ptoOld tok tok2)).path = s.path := by
  simp only [step]
  by_cases c1 : src ≠ s.path.addr ∧ (!s.mayMigrate) = true
  · rw [if_pos c1]
  · rw [if_neg c1]
    have c2 : ¬ (src ≠ s.path.addr ∧ false = true) := by simp
    rw [if_neg c2]

theorem migrate_result (s : S) (src now ptoNew ptoOld tok tok2 : Nat) (hm : s.mayMigrate = true) (hs : src ≠ s.path.addr) :
    let s' := step s (.pkt src true now ptoNew ptoOld tok tok2)
    s'.path.addr = src ∧ s'.path.validated = false ∧ s'.path.challenge = some tok ∧ s'.timer = some (now + validationPeriod ptoNew ptoOld) := by
  simp [step, migrate, hm, hs]

theorem validated_cause (s : S) (e : Ev) (hi : Inv s)
    (hv : (step s e).path.validated = true) (hu : s.path.validated = false) :
    (∃ tok, e = .response s.path.addr tok ∧ s.path.challenge = some tok) ∨
    (∃ now p, e = .timeout now ∧ s.prev = some p ∧ (step s e).path.addr = p.addr) := by
  obtain ⟨⟨p, hp⟩, _⟩ := hi.fallback hu
  obtain ⟨⟨addr, v, ch, pd⟩, prev, timer, mm⟩ := s
  simp only at hu hp
  subst hu hp
  cases e with
  | pkt src trigger now ptoNew ptoOld tok tok2 =>
    exfalso
    simp only [step] at hv
    by_cases c1 : src ≠ addr ∧ (!mm) = true
    · rw [if_pos c1] at hv; simp at hv
    · rw [if_neg c1] at hv
      by_cases c2 : src ≠ addr ∧ trigger = true
      · rw [if_pos c2] at hv; simp [migrate] at hv
      · rw [if_neg c2] at hv; simp at hv
  | response src tok =>
    left
    simp only [step] at hv
    by_cases c1 : src ≠ addr ∧ (!mm) = true
    · rw [if_pos c1] at hv; simp at hv
    · rw [if_neg c1] at hv
      by_cases c2 : ch = some tok ∧ src = addr
      · exact ⟨tok, by rw [c2.2], c2.1⟩
      · rw [if_neg c2] at hv; simp at hv
  | timeout now =>
    right
    simp only [step] at hv ⊢
    cases timer with
    | none => simp at hv
    | some t =>
      simp only at hv ⊢
      by_cases c : t ≤ now
      · rw [if_pos c]; exact ⟨now, p, rfl, rfl, rfl⟩
      · rw [if_neg c] at hv; simp at hv

theorem timeout_reverts (s : S) (hi : Inv s) (hu : s.path.validated = false) (t now : Nat)
    (ht : s.timer = some t) (hn : t ≤ now) :
    ∃ p, s.prev = some p ∧ (step s (.timeout now)).path.addr = p.addr ∧
      (step s (.timeout now)).path.validated = true ∧ (step s (.timeout now)).prev = none := by
  obtain ⟨⟨p, hp⟩, _⟩ := hi.fallback hu
  have hpv := hi.prevValidated p hp
  obtain ⟨⟨addr, v, ch, pd⟩, prev, timer, mm⟩ := s
  simp only at hu hp ht
  subst hu hp ht
  refine ⟨p, rfl, ?_⟩
  simp only [step]
  rw [if_pos hn]
  exact ⟨rfl, hpv, rfl⟩

theorem timer_kept (s : S) (e : Ev) (t : Nat) (ht : s.timer = some t)
    (hne : ∀ src now ptoNew ptoOld tok tok2, e = .pkt src true now ptoNew ptoOld tok tok2 → src = s.path.addr ∨ s.mayMigrate = false) :
    (step s e).timer = some t ∨ (step s e).timer = none := by
  obtain ⟨⟨addr, v, ch, pd⟩, prev, timer, mm⟩ := s
  simp only at ht hne
  subst ht
  cases e with
  | pkt src trigger now ptoNew ptoOld tok tok2 =>
    left
    simp only [step]
    by_cases c1 : src ≠ addr ∧ (!mm) = true
    · rw [if_pos c1]
    · rw [if_neg c1]
      by_cases c2 : src ≠ addr ∧ trigger = true
      · exfalso
        obtain ⟨h1, h2⟩ := c2
        subst h2
        rcases hne src now ptoNew ptoOld tok tok2 rfl with h | h
        · exact h1 h
        · subst h; exact c1 ⟨h1, rfl⟩
      · rw [if_neg c2]
  | response src tok =>
    simp only [step]
    by_cases c1 : src ≠ addr ∧ (!mm) = true
    · rw [if_pos c1]; left; rfl
    · rw [if_neg c1]
      by_cases c2 : ch = some tok ∧ src = addr
      · rw [if_pos c2]; right; rfl
      · rw [if_neg c2]; left; rfl
  | timeout now =>
    simp only [step]
    by_cases c : t ≤ now
    · rw [if_pos c]; right; rfl
    · rw [if_neg c]; left; rfl

/-- the factor regenerated from `migrate` is the THREE of the property -/
theorem validationPeriod_eq (a b : Nat) : validationPeriod a b = 3 * max a b := by
  simp [validationPeriod, Gen.pathValidationFactor]

theorem migrate_deadline_3pto (s : S) (src now ptoNew ptoOld tok tok2 : Nat) (hm : s.mayMigrate = true) (hs : src ≠ s.path.addr) :
    let s' := step s (.pkt src true now ptoNew ptoOld tok tok2)
    s'.path.addr = src ∧ s'.path.validated = false ∧ s'.path.challenge = some tok ∧
      s'.timer = some (now + 3 * max ptoNew ptoOld) := by
  have h := migrate_result s src now ptoNew ptoOld tok tok2 hm hs
  rw [validationPeriod_eq] at h
  exact h

/-- events other than a migration trigger -/
def NotTrigger : Ev → Prop
  | .pkt _ true _ _ _ _ _ => False
  | _ => True

theorem timer_none_kept (s : S) (e : Ev) (hn : NotTrigger e) (ht : s.timer = none) : (step s e).timer = none := by
  obtain ⟨⟨addr, v, ch, pd⟩, prev, timer, mm⟩ := s
  simp only at ht
  subst ht
  cases e with
  | pkt src trigger now ptoNew ptoOld tok tok2 =>
    cases trigger with
    | true => exact absurd hn (by simp [NotTrigger])
    | false =>
      simp only [step]
      by_cases c1 : src ≠ addr ∧ (!mm) = true
      · rw [if_pos c1]
      · rw [if_neg c1]
        have c2 : ¬ (src ≠ addr ∧ false = true) := by simp
        rw [if_neg c2]
  | response src tok =>
    simp only [step]
    by_cases c1 : src ≠ addr ∧ (!mm) = true
    · rw [if_pos c1]
    · rw [if_neg c1]
      by_cases c2 : ch = some tok ∧ src = addr
      · rw [if_pos c2]
      · rw [if_neg c2]
  | timeout now => simp [step]

theorem run_deadline_kept (evs : List Ev) : ∀ (s : S) (d : Nat), Inv s → (s.timer = some d ∨ s.timer = none) →
    (∀ e ∈ evs, NotTrigger e) → Inv (run s evs) ∧ ((run s evs).timer = some d ∨ (run s evs).timer = none) := by
  induction evs with
  | nil => intro s d hi ht _; exact ⟨hi, ht⟩
  | cons e rest ih =>
    intro s d hi ht hn
    have he : NotTrigger e := hn e (by simp)
    have hr : ∀ x ∈ rest, NotTrigger x := fun x hx => hn x (by simp [hx])
    have hi' := step_inv s e hi
    have ht' : (step s e).timer = some d ∨ (step s e).timer = none := by
      rcases ht with h | h
      · refine timer_kept s e d h ?_
        intro src now ptoNew ptoOld tok tok2 heq
        subst heq
        exact absurd he (by simp [NotTrigger])
      · right; exact timer_none_kept s e he h
    exact ih (step s e) d hi' ht' hr

/-- servicing the timer at or after the deadline leaves a validated path, whatever happened before -/
theorem timeout_validated (s : S) (hi : Inv s) (d t : Nat) (ht : s.timer = some d ∨ s.timer = none) (hd : d ≤ t) :
    (step s (.timeout t)).path.validated = true := by
  obtain ⟨h1, h2, h3, h4⟩ := hi
  obtain ⟨⟨addr, v, ch, pd⟩, prev, timer, mm⟩ := s
  simp only at h1 h2 h3 h4 ht
  rcases ht with h | h
  · subst h
    simp only [step]
    rw [if_pos hd]
    cases prev with
    | some p => exact h4 p rfl
    | none =>
      cases v with
      | true => rfl
      | false => have := (h1 rfl).1; simp at this
  · subst h
    simp only [step]
    cases v with
    | true => rfl
    | false => have := (h1 rfl).2; simp at this

/-- C15 "returns within three probe timeouts": after a migration at `now`, over every continuation without a
    further migration, servicing the timer at any instant from `now + 3·max(PTO new, PTO old)` on finds the
    connection on a validated path (the new one if a matching response arrived, else the previous one) -/
theorem held_at_most_3pto (s : S) (hi : Inv s) (src now ptoNew ptoOld tok tok2 : Nat) (hm : s.mayMigrate = true)
    (hs : src ≠ s.path.addr) (evs : List Ev) (hn : ∀ e ∈ evs, NotTrigger e) (t : Nat)
    (ht : now + 3 * max ptoNew ptoOld ≤ t) :
    (step (run (step s (.pkt src true now ptoNew ptoOld tok tok2)) evs) (.timeout t)).path.validated = true := by
  have h := migrate_deadline_3pto s src now ptoNew ptoOld tok tok2 hm hs
  have hi1 := step_inv s (.pkt src true now ptoNew ptoOld tok tok2) hi
  have hk := run_deadline_kept evs _ (now + 3 * max ptoNew ptoOld) hi1 (Or.inl h.2.2.2) hn
  exact timeout_validated _ hk.1 _ t hk.2 ht

end QM.PathM
