import QuinnModel.Lemmas.StreamsFrameOps
/-
C05 — the sender never exceeds the limits its peer advertised: ghost functions over histories,
the invariant, and its preservation by every operation.
-/
namespace QM.Streams
set_option pp.structureInstances false

/-- a history: operations with the implementation-visible result, newest first -/
abbrev Hist := List (Op × Out)

/-- the stream-data limit `p` conveys for a sending half on `id` (as seen by endpoint `side`) -/
def Params.limitFor (p : Params) (side : Side) (id : Nat) : Nat :=
  match sidDir id with
  | .uni => p.initialMaxStreamDataUni
  | .bi => if side != sidInitiator id then p.initialMaxStreamDataBidiLocal else p.initialMaxStreamDataBidiRemote

def Params.maxStreams (p : Params) : Dir → Nat
  | .bi => p.initialMaxStreamsBidi
  | .uni => p.initialMaxStreamsUni

/-- largest connection data limit conveyed so far (transport parameters and MAX_DATA frames);
    like the other ghosts it restarts when 0-RTT is rejected: what was remembered or conveyed before
    is void -/
def peerMaxData : Hist → Nat
  | [] => 0
  | (.rejected, _) :: _ => 0
  | (.params p, _) :: h => Nat.max p.initialMaxData (peerMaxData h)
  | (.maxData n, _) :: h => Nat.max n (peerMaxData h)
  | _ :: h => peerMaxData h

/-- largest stream-count limit conveyed so far for direction `d` -/
def peerMaxStreams (d : Dir) : Hist → Nat
  | [] => 0
  | (.rejected, _) :: _ => 0
  | (.params p, _) :: h => Nat.max (p.maxStreams d) (peerMaxStreams d h)
  | (.maxStreams d' n, .ok) :: h => if d' = d then Nat.max n (peerMaxStreams d h) else peerMaxStreams d h
  | _ :: h => peerMaxStreams d h

/-- largest stream data limit conveyed so far for the sending half of stream `id` -/
def peerStreamLimit (side : Side) (id : Nat) : Hist → Nat
  | [] => 0
  | (.rejected, _) :: _ => 0
  | (.params p, _) :: h => Nat.max (p.limitFor side id) (peerStreamLimit side id h)
  | (.maxStreamData id' n, .ok) :: h =>
      if id' = id then Nat.max n (peerStreamLimit side id h) else peerStreamLimit side id h
  | _ :: h => peerStreamLimit side id h

/-- total number of bytes `write` accepted so far = sum over all streams of the highest offset -/
def totalAccepted : Hist → Nat
  | [] => 0
  | (.rejected, _) :: _ => 0
  | (.write _ _, .okNat k) :: h => k + totalAccepted h
  | _ :: h => totalAccepted h

/-- bytes `write` accepted so far on stream `id` -/
def acceptedOn (id : Nat) : Hist → Nat
  | [] => 0
  | (.rejected, _) :: _ => 0
  | (.write id' _, .okNat k) :: h => if id' = id then k + acceptedOn id h else acceptedOn id h
  | _ :: h => acceptedOn id h

/-- operations the ghost functions look at -/
def Op.isGhost : Op → Bool
  | .params _ | .maxData _ | .maxStreamData _ _ | .maxStreams _ _ | .write _ _ | .rejected => true
  | _ => false

/-- operations that convey credit or consume it -/
def Op.isCredit (o : Op) : Bool :=
  o.isGhost || (match o with | .open_ _ => true | _ => false)

theorem ghosts_other (o : Op) (out : Out) (h : Hist) (ho : o.isGhost = false) :
    peerMaxData ((o, out) :: h) = peerMaxData h ∧
    (∀ d, peerMaxStreams d ((o, out) :: h) = peerMaxStreams d h) ∧
    (∀ side id, peerStreamLimit side id ((o, out) :: h) = peerStreamLimit side id h) ∧
    totalAccepted ((o, out) :: h) = totalAccepted h := by
  cases o <;> simp [Op.isGhost] at ho <;>
    simp [peerMaxData, peerMaxStreams, peerStreamLimit, totalAccepted]

/-- the C05 invariant, on the sender view -/
structure InvV (side : Side) (h : Hist) (v : SView) : Prop where
  side_eq : v.core.side = side
  maxData : v.core.maxData = peerMaxData h
  max : ∀ d, v.core.max.get d = peerMaxStreams d h
  sent : v.core.dataSent = totalAccepted h
  sent_le : v.core.dataSent ≤ v.core.maxData
  next_le : ∀ d, v.core.next.get d ≤ v.core.max.get d
  stream : ∀ id c, v.cv id = some c → c.1 ≤ c.2 ∧ c.2 ≤ peerStreamLimit side id h
  init_le : ∀ id, v.core.maxSendData id ≤ peerStreamLimit side id h

/-- operations outside the credit set preserve the invariant -/
theorem InvV.frame {side : Side} {h : Hist} {v v' : SView} (i : InvV side h v) (f : FrameV v v')
    (o : Op) (out : Out) (ho : o.isGhost = false) : InvV side ((o, out) :: h) v' := by
  obtain ⟨g1, g2, g3, g4⟩ := ghosts_other o out h ho
  refine ⟨?_, ?_, ?_, ?_, ?_, ?_, ?_, ?_⟩
  · rw [f.core]; exact i.side_eq
  · rw [f.core, g1]; exact i.maxData
  · intro d; rw [f.core, g2]; exact i.max d
  · rw [f.core, g4]; exact i.sent
  · rw [f.core]; exact i.sent_le
  · intro d; rw [f.core]; exact i.next_le d
  · intro id c hc
    rw [g3]
    rcases f.rel id c hc with hh | hh
    · exact i.stream id c hh
    · subst hh; exact ⟨Nat.zero_le _, i.init_le id⟩
  · intro id; rw [f.core, g3]; exact i.init_le id

/-- `new` and `rejected` restart the state; they are not part of a history's body -/
def Op.isRestart : Op → Bool
  | .new _ | .rejected => true
  | _ => false

/-- unpack `(f s).map g = some (s', out)` -/
macro "unstep " h:ident : tactic =>
  `(tactic| (simp only [step, Option.map_eq_some_iff, Option.some.injEq, Prod.mk.injEq, Prod.exists] at $h:ident))

/-- every operation outside the credit set (and other than new / rejected) is a sender frame -/
theorem frame_step {s s' : State} {o : Op} {out : Out} (h : step s o = some (s', out))
    (hc : o.isCredit = false) (hr : o.isRestart = false) : Frame s s' := by
  cases o <;> simp [Op.isCredit, Op.isGhost, Op.isRestart] at hc hr
  case conn c => unstep h; rw [← h.1]; exact Frame.of_vw rfl
  case accept d => unstep h; rw [← h.1]; exact Frame.of_vw (vw_accept s d)
  case finish id =>
    unstep h; rw [← h.1]; exact frame_finish (r := (s.finish id).2) rfl
  case reset id code =>
    unstep h; obtain ⟨s1, b, h1, h2, _⟩ := h; rw [← h2]; exact frame_reset h1
  case stopped id => unstep h; rw [← h.1]; exact Frame.refl _
  case prio id p =>
    unstep h; rw [← h.1]; exact frame_setPriority (b := (s.setPriority id p).2) rfl
  case stream id off len fin =>
    unstep h; obtain ⟨s1, r, h1, h2, _⟩ := h; rw [← h2]; exact Frame.of_vw (vw_received h1)
  case rst id code fo =>
    unstep h; obtain ⟨s1, r, h1, h2, _⟩ := h; rw [← h2]; exact Frame.of_vw (vw_receivedReset h1)
  case stopSending id code => unstep h; rw [← h.1]; exact frame_receivedStopSending s id code
  case ack id a e fin =>
    unstep h; obtain ⟨s1, h1, h2, _⟩ := h; rw [← h2]; exact frame_receivedAckOf h1
  case lost id a e fin =>
    unstep h; obtain ⟨s1, h1, h2, _⟩ := h; rw [← h2]; exact frame_retransmit h1
  case rstAck id =>
    unstep h; obtain ⟨s1, h1, h2, _⟩ := h; rw [← h2]; exact frame_resetAcked h1
  case read id b =>
    unstep h; obtain ⟨s1, r, h1, h2, _⟩ := h; rw [← h2]; exact Frame.of_vw (vw_read h1)
  case stop id code =>
    unstep h; obtain ⟨s1, b, h1, h2, _⟩ := h; rw [← h2]; exact Frame.of_vw (vw_stop h1)
  case recvReset id =>
    unstep h; obtain ⟨s1, r, h1, h2, _⟩ := h; rw [← h2]; exact Frame.of_vw (vw_recvReceivedReset h1)
  case poll =>
    unstep h; obtain ⟨s1, e, h1, h2, _⟩ := h; rw [← h2]; exact frame_poll h1
  case transmit mb fair =>
    unstep h; obtain ⟨s1, l, fs, h1, h2, _⟩ := h; rw [← h2]; exact frame_writeStreamFrames _ _ _ h1
  case canSend => unstep h; rw [← h.1]; exact Frame.refl _
  case canFlow id => unstep h; rw [← h.1]; exact Frame.refl _
  case ctrl =>
    unstep h; obtain ⟨s1, fs, h1, h2, _⟩ := h; rw [← h2]; exact Frame.of_vw (vw_writeControlFrames h1)
  case queueMaxStreamId =>
    unstep h; obtain ⟨s1, b, h1, h2, _⟩ := h; rw [← h2]; exact Frame.of_vw (vw_queueMaxStreamId h1)
  case pendMaxData => unstep h; rw [← h.1]; exact Frame.of_vw rfl
  case pendMaxStreamData id => unstep h; rw [← h.1]; exact Frame.of_vw rfl
  case pendMaxStreamId d => unstep h; rw [← h.1]; exact Frame.of_vw rfl
  case sendWindow n => unstep h; rw [← h.1]; exact Frame.of_vw rfl
  case recvWindow n => unstep h; rw [← h.1]; exact Frame.of_vw (vw_setReceiveWindow s n)
  case maxConcurrent d n =>
    unstep h; obtain ⟨s1, h1, h2, _⟩ := h; rw [← h2]; exact Frame.of_vw (vw_setMaxConcurrent h1)
  case rtx0 =>
    unstep h; obtain ⟨s1, h1, h2, _⟩ := h; rw [← h2]; exact frame_retransmitAllFor0rtt h1
  case view => unstep h; rw [← h.1]; exact Frame.refl _

end QM.Streams
