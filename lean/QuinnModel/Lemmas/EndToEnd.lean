import QuinnModel.Streams.EndToEnd
import QuinnModel.Lemmas.StreamsC06Inv
/-
C01 end to end: the invariant of the composition (`Streams/EndToEnd.lean`) and helper facts.
`g` is a ground stream that the written bytes `w` are a prefix of; the theorems in `EndToEndMain.lean`
instantiate it with the bytes written by the end of the run (`w` only ever grows by appending).
-/
namespace QM.E2E
open QM QM.RangeSet
open QM.Assembler (stream delivered)

set_option pp.structureInstances false

/-! ### ground stream -/

/-- `w` is a prefix of the ground stream -/
def Pre (g : Nat → Nat) (w : Bytes) : Prop := w = stream g 0 w.length

theorem Pre.sub {g : Nat → Nat} {w : Bytes} (h : Pre g w) (off n : Nat) (hn : off + n ≤ w.length) :
    stream g off n = (w.drop off).take n := by
  unfold Pre at h
  generalize w.length = L at h hn
  subst h
  rw [Assembler.stream_drop, Assembler.stream_take _ _ _ _ (by omega), Nat.zero_add]

theorem Pre.of_append {g : Nat → Nat} {w d : Bytes} (h : Pre g (w ++ d)) : Pre g w := by
  unfold Pre at *
  have h2 := congrArg (List.take w.length) h
  rw [List.take_left', Assembler.stream_take _ _ _ _ (by simp)] at h2
  · exact h2
  · rfl

/-- the ground stream made of the written bytes (anything beyond them) -/
def ground (w : Bytes) : Nat → Nat := fun i => w.getD i 0

theorem stream_ground (w : Bytes) : ∀ (k : Nat), k ≤ w.length → stream (ground w) (w.length - k) k = w.drop (w.length - k) := by
  intro k
  induction k with
  | zero => intro _; simp [stream]
  | succ k ih =>
    intro hk
    have e : w.length - k = (w.length - (k + 1)) + 1 := by omega
    simp only [stream]
    rw [← e, ih (by omega)]
    have hlt : w.length - (k + 1) < w.length := by omega
    rw [List.drop_eq_getElem_cons hlt, ← e]
    simp [ground, List.getD_eq_getElem?_getD, List.getElem?_eq_getElem hlt]

theorem pre_ground (w : Bytes) : Pre (ground w) w := by
  unfold Pre
  have := stream_ground w w.length (Nat.le_refl _)
  simpa using this.symm

/-! ### content buffer steps -/

theorem sys_write {sys sys' : SendBuffer.Sys} {d : Bytes} (h : SendBuffer.step sys (.write d) = some sys') :
    sys'.w = sys.w ++ d ∧ sys'.F = sys.F ∧ sys'.ackd = sys.ackd := by
  simp only [SendBuffer.step] at h
  split at h
  · cases h; exact ⟨rfl, rfl, rfl⟩
  · cases h

theorem sys_ack {sys sys' : SendBuffer.Sys} {r : Nat × Nat} (h : SendBuffer.step sys (.ack r) = some sys') :
    sys'.w = sys.w ∧ sys'.ackd = r :: sys.ackd ∧ sys'.sb.offset = sys.sb.offset := by
  simp only [SendBuffer.step] at h
  split at h
  · split at h
    · rename_i sb hk
      cases h
      refine ⟨rfl, rfl, ?_⟩
      unfold SendBuffer.ack at hk
      split at hk
      · cases hk
      · dsimp only at hk
        split at hk
        · cases hk
        · cases hk; rfl
    · cases h
  · cases h

theorem sys_lose {sys sys' : SendBuffer.Sys} {r : Nat × Nat} (h : SendBuffer.step sys (.lose r) = some sys') :
    sys'.w = sys.w ∧ sys'.ackd = sys.ackd ∧ sys'.sb.offset = sys.sb.offset := by
  simp only [SendBuffer.step] at h
  split at h
  · split at h
    · rename_i sb hk
      cases h
      refine ⟨rfl, rfl, ?_⟩
      unfold SendBuffer.retransmit at hk
      split at hk
      · cases hk
      · cases hk; rfl
    · cases h
  · cases h

theorem poll_offset {sb sb' : SendBuffer.SendBuffer} {n : Nat} {r : Nat × Nat} {enc : Bool}
    (h : SendBuffer.pollTransmit sb n = some (sb', r, enc)) : sb'.offset = sb.offset ∧ sb'.segs = sb.segs ∧
      sb'.unackedLen = sb.unackedLen := by
  unfold SendBuffer.pollTransmit at h
  split at h
  · cases h
  · split at h
    · split at h
      · cases h
      · cases h; exact ⟨rfl, rfl, rfl⟩
    · split at h
      · cases h
      · cases h; exact ⟨rfl, rfl, rfl⟩

theorem sys_poll {sys : SendBuffer.Sys} {sb' : SendBuffer.SendBuffer} {n : Nat} {r : Nat × Nat} {enc : Bool}
    (h : SendBuffer.pollTransmit sys.sb n = some (sb', r, enc)) :
    SendBuffer.step sys (.poll n) = some { sys with sb := sb', F := r :: sys.F } := by
  simp only [SendBuffer.step, h]

/-! ### the invariant -/

/-- sender and network -/
structure SInv (g : Nat → Nat) (s : St) : Prop where
  sb : SendBuffer.Inv s.sys
  wg : Pre g s.sys.w
  pend : s.half.pending = proj s.sys.sb
  ready : s.half.state = .ready → s.finishedAt = none ∧ s.appReset = none
  fin_at : ∀ n, s.finishedAt = some n → n = s.sys.w.length ∧ s.half.state ≠ .ready
  ds_fin : isDataSent s.half.state = true → s.finishedAt ≠ none
  rs : s.appReset ≠ none ↔ s.half.state = .resetSent
  rcode : s.resetCode = s.appReset
  netS : ∀ off bytes fin, Frame.stream off bytes fin ∈ s.net →
    bytes = stream g off bytes.length ∧ off + bytes.length ≤ s.sys.w.length ∧
    (fin = true → s.finishedAt = some (off + bytes.length))
  netR : ∀ c fs, Frame.reset c fs ∈ s.net → s.appReset = some c ∧ fs = s.sys.w.length
  /-- the FIN is not forgotten -/
  finLive : s.live = true → s.half.state = .dataSent false →
    s.half.finPending = true ∨ ∃ t ∈ s.T, t.2.2 = true

/-- what the receiver was handed came from the network; what was acknowledged was handed to the receiver -/
structure GInv (s : St) : Prop where
  got_net : ∀ f ∈ s.got, f ∈ s.net
  ackd_got : ∀ r ∈ s.sys.ackd, ∃ bytes fin, Frame.stream r.1 bytes fin ∈ s.got ∧ bytes.length = r.2 - r.1

/-- receiver -/
structure RInv (g : Nat → Nat) (s : St) : Prop where
  asmO : Assembler.InvO g s.asm
  asmX : Assembler.InvX s.asm
  asmB : Assembler.InvB s.asm
  rv_end : s.rv.end_ ≤ s.sys.w.length
  aend : s.asm.a.end_ ≤ s.rv.end_
  out_le : s.asm.out.length ≤ s.rv.end_
  fin_le : ∀ fo, s.rv.finalOffset = some fo → s.rv.end_ ≤ fo
  rv_size : ∀ fo, s.rv.state = .recv (some fo) → s.finishedAt = some fo
  rv_reset : ∀ fo c, s.rv.state = .resetRecvd fo c → s.appReset = some c ∧ fo = s.sys.w.length
  eos_ok : s.eos = true → ∃ n, s.finishedAt = some n ∧ ∀ x, x < n → mem x (delivered s.asm)
  saw_ok : ∀ c, s.sawReset = some c → s.appReset = some c

structure Inv (g : Nat → Nat) (s : St) : Prop where
  S : SInv g s
  G : GInv s
  R : RInv g s

theorem inv_init (g : Nat → Nat) (maxData window : Nat) : Inv g (St.init maxData window) := by
  refine ⟨⟨SendBuffer.inv_init, rfl, rfl, fun _ => ⟨rfl, rfl⟩, ?_, ?_, ?_, rfl, ?_, ?_, ?_⟩, ⟨?_, ?_⟩,
    ⟨Assembler.invO_init g, Assembler.invX_init, Assembler.invB_init, Nat.zero_le _, Nat.le_refl _, Nat.zero_le _,
      ?_, ?_, ?_, ?_, ?_⟩⟩
  all_goals simp [St.init, Streams.Send.new, Streams.Recv.new, isDataSent, Streams.Recv.finalOffset,
    SendBuffer.Sys.init]

/-! ### frames -/

/-- the receiver side did not change and the sender side moved on monotonically -/
theorem RInv.sender {g : Nat → Nat} {s s' : St} (i : RInv g s) (si : SInv g s)
    (h1 : s'.rv = s.rv) (h2 : s'.asm = s.asm) (h3 : s'.eos = s.eos) (h4 : s'.sawReset = s.sawReset)
    (hw : s.sys.w.length ≤ s'.sys.w.length)
    (hwr : s.half.state ≠ .ready → s'.sys.w.length = s.sys.w.length)
    (hfin : ∀ n, s.finishedAt = some n → s'.finishedAt = some n)
    (hres : ∀ c, s.appReset = some c → s'.appReset = some c) : RInv g s' := by
  obtain ⟨a1, a2, a3, a4, a5, a6, a7, a8, a9, a10, a11⟩ := i
  refine ⟨h2 ▸ a1, h2 ▸ a2, h2 ▸ a3, ?_, ?_, ?_, ?_, ?_, ?_, ?_, ?_⟩
  · rw [h1]; omega
  · rw [h1, h2]; exact a5
  · rw [h1, h2]; exact a6
  · rw [h1]; exact a7
  · rw [h1]; intro fo hfo; exact hfin _ (a8 fo hfo)
  · rw [h1]; intro fo c hfo
    obtain ⟨b1, b2⟩ := a9 fo c hfo
    refine ⟨hres _ b1, ?_⟩
    have : s.half.state ≠ .ready := by
      intro hr; have := (si.ready hr).2; rw [this] at b1; cases b1
    rw [hwr this]; exact b2
  · rw [h3, h2]; intro he
    obtain ⟨n, b1, b2⟩ := a10 he
    exact ⟨n, hfin n b1, b2⟩
  · rw [h4]; intro c hc; exact hres c (a11 c hc)

/-- the sender side and the network did not change -/
theorem SInv.receiver {g : Nat → Nat} {s s' : St} (i : SInv g s)
    (h1 : s'.sys = s.sys) (h2 : s'.half = s.half) (h3 : s'.live = s.live) (h4 : s'.resetCode = s.resetCode)
    (h5 : s'.T = s.T) (h6 : s'.net = s.net) (h7 : s'.finishedAt = s.finishedAt)
    (h8 : s'.appReset = s.appReset) : SInv g s' := by
  obtain ⟨a1, a2, a3, a4, a5, a6, a7, a8, a9, a10, a11⟩ := i
  constructor <;> simp only [h1, h2, h3, h4, h5, h6, h7, h8] <;> assumption

theorem GInv.mono {s s' : St} (i : GInv s) (hn : ∀ f ∈ s.net, f ∈ s'.net)
    (hg : ∀ f ∈ s'.got, f ∈ s.got ∨ f ∈ s'.net) (hg2 : ∀ f ∈ s.got, f ∈ s'.got)
    (ha : ∀ r ∈ s'.sys.ackd, r ∈ s.sys.ackd ∨
      ∃ bytes fin, Frame.stream r.1 bytes fin ∈ s'.got ∧ bytes.length = r.2 - r.1) : GInv s' := by
  refine ⟨?_, ?_⟩
  · intro f hf
    rcases hg f hf with h | h
    · exact hn f (i.got_net f h)
    · exact h
  · intro r hr
    rcases ha r hr with h | h
    · obtain ⟨b, fin, hb, hl⟩ := i.ackd_got r h
      exact ⟨b, fin, hg2 _ hb, hl⟩
    · exact h

/-! ### the glue of `E2E.ack` is `Send::ack` -/

/-- whenever the streams model's offsets-only buffer makes the same step as the content buffer, the state /
    "finished and fully acknowledged" computed by `E2E.ack` is exactly what `Send.ack` of the streams model
    computes (the two buffer models are tied to the same code by the `sbuf` and `streams` differentials) -/
theorem ack_glue_is_send_ack (h : Streams.Send) (sb' : SendBuffer.SendBuffer) (a e : Nat) (fin : Bool)
    (hb : h.pending.ack a e = some (proj sb')) :
    h.ack a e fin = some (match h.state with
      | .dataSent fa => ({ h with pending := proj sb', state := .dataSent (fa || fin) },
                          (fa || fin) && SendBuffer.isFullyAcked sb')
      | _ => ({ h with pending := proj sb' }, false)) := by
  unfold Streams.Send.ack
  rw [hb]
  cases h.state <;> rfl

end QM.E2E
