import QuinnModel.Endpoint.Index
/-
Proofs about the endpoint routing model (C09): map laws, slab laws, the `Sound` invariant and its
preservation by every API call, routing correctness, no stale entries after `Drained`, slot reuse.
-/
namespace QM.Index

/-! ### map laws -/

section maps
variable {κ ν : Type} [DecidableEq κ]

@[simp] theorem alookup_nil (k : κ) : alookup k ([] : List (κ × ν)) = none := rfl

theorem alookup_cons (k k' : κ) (v : ν) (l : List (κ × ν)) :
    alookup k ((k', v) :: l) = if k' = k then some v else alookup k l := rfl

theorem alookup_aerase (k k' : κ) (l : List (κ × ν)) :
    alookup k' (aerase k l) = if k = k' then none else alookup k' l := by
  induction l with
  | nil => simp [aerase]
  | cons e l ih =>
    obtain ⟨a, b⟩ := e
    unfold aerase at ih ⊢
    by_cases h : a = k
    · subst h
      simp only [List.filter_cons, decide_true, Bool.not_true, Bool.false_eq_true, if_false, ih]
      by_cases h2 : a = k'
      · simp [h2]
      · simp [h2, alookup_cons]
    · simp only [List.filter_cons, h, decide_false, Bool.not_false, if_true, alookup_cons, ih]
      by_cases h2 : k = k'
      · subst h2; simp [h]
      · simp [h2]

theorem alookup_ainsert (k k' : κ) (v : ν) (l : List (κ × ν)) :
    alookup k' (ainsert k v l) = if k = k' then some v else alookup k' l := by
  unfold ainsert
  rw [alookup_cons, alookup_aerase]
  by_cases h : k = k' <;> simp [h]

/-! keys of an association list; the maps built by `ainsert`/`aerase` never repeat a key -/

def keys (l : List (κ × ν)) : List κ := l.map (fun e => e.1)

theorem keys_aerase_sub (k : κ) (l : List (κ × ν)) : (keys (aerase k l)).Sublist (keys l) := by
  unfold keys aerase
  exact List.Sublist.map _ List.filter_sublist

theorem not_mem_keys_aerase (k : κ) (l : List (κ × ν)) : k ∉ keys (aerase k l) := by
  unfold keys aerase
  simp

theorem nodup_keys_aerase {k : κ} {l : List (κ × ν)} (h : (keys l).Nodup) : (keys (aerase k l)).Nodup :=
  h.sublist (keys_aerase_sub k l)

theorem nodup_keys_ainsert {k : κ} {v : ν} {l : List (κ × ν)} (h : (keys l).Nodup) :
    (keys (ainsert k v l)).Nodup := by
  unfold ainsert
  show (k :: keys (aerase k l)).Nodup
  exact List.nodup_cons.mpr ⟨not_mem_keys_aerase k l, nodup_keys_aerase h⟩

theorem alookup_of_mem {k : κ} {v : ν} {l : List (κ × ν)} (hn : (keys l).Nodup) (h : (k, v) ∈ l) :
    alookup k l = some v := by
  induction l with
  | nil => simp at h
  | cons e l ih =>
    obtain ⟨a, b⟩ := e
    rw [alookup_cons]
    have hn' : a ∉ keys l ∧ (keys l).Nodup := List.nodup_cons.mp hn
    rcases List.mem_cons.mp h with h1 | h1
    · simp only [Prod.mk.injEq] at h1; obtain ⟨rfl, rfl⟩ := h1; simp
    · have : a ≠ k := by
        intro hak; subst hak
        exact hn'.1 (List.mem_map.mpr ⟨(a, v), h1, rfl⟩)
      simp [this, ih hn'.2 h1]

theorem exists_alookup_of_mem_vals {v : ν} {l : List (κ × ν)} (hn : (keys l).Nodup)
    (h : v ∈ l.map (fun e => e.2)) : ∃ k, alookup k l = some v := by
  obtain ⟨⟨k, v'⟩, hmem, rfl⟩ := List.mem_map.mp h
  exact ⟨k, alookup_of_mem hn hmem⟩

end maps

theorem alookup_eraseAll (cs : List Cid) (l : List (Cid × Nat)) (c : Cid) :
    alookup c (eraseAll cs l) = if c ∈ cs then none else alookup c l := by
  unfold eraseAll
  induction cs generalizing l with
  | nil => simp
  | cons a cs ih =>
    simp only [List.foldl_cons, ih, alookup_aerase, List.mem_cons]
    by_cases h1 : c ∈ cs
    · simp [h1]
    · by_cases h2 : a = c
      · simp [h2]
      · have : ¬ c = a := fun h => h2 h.symm
        simp [h1, h2, this]

/-- a value occurs in an association list under some key that `alookup` finds -/
theorem mem_vals_of_alookup {κ ν : Type} [DecidableEq κ] {k : κ} {v : ν} {l : List (κ × ν)}
    (h : alookup k l = some v) : v ∈ l.map (fun e => e.2) := by
  induction l with
  | nil => simp at h
  | cons e l ih =>
    obtain ⟨a, b⟩ := e
    rw [alookup_cons] at h
    by_cases h1 : a = k
    · simp [h1] at h; simp [h]
    · simp [h1] at h; simp [ih h]

/-! ### slab laws -/

namespace Slab
variable {α : Type}

theorem get_lt {s : Slab α} {k : Nat} {v : α} (h : s.get k = some v) : k < s.entries.length := by
  unfold get at h
  by_cases hk : k < s.entries.length
  · exact hk
  · simp [List.getElem?_eq_none (Nat.le_of_not_lt hk)] at h

theorem get_set_self {s : Slab α} {k : Nat} (v : α) (hk : k < s.entries.length) :
    (s.set k v).get k = some v := by
  simp [get, set, hk]

theorem get_set_ne {s : Slab α} {k k' : Nat} (v : α) (h : k' ≠ k) :
    (s.set k v).get k' = s.get k' := by
  simp [get, set, List.getElem?_set_ne (Ne.symm h)]

theorem insertAt_spec {s s' : Slab α} {v : α} {k : Nat} (h : s.insertAt k v = some s') :
    s.get k = none ∧ s'.get k = some v ∧ ∀ k', k' ≠ k → s'.get k' = s.get k' := by
  unfold insertAt at h
  by_cases hl : k = s.entries.length
  · simp only [hl, if_true, Option.some.injEq] at h
    subst h
    subst hl
    refine ⟨?_, ?_, ?_⟩
    · simp [get]
    · simp [get]
    · intro k' hk'
      simp only [get]
      by_cases hlt : k' < s.entries.length
      · simp [List.getElem?_append_left hlt]
      · have hgt : s.entries.length < k' := by omega
        have h1 : (s.entries ++ [Entry.occupied v])[k']? = none := by
          apply List.getElem?_eq_none; simp; omega
        have h2 : s.entries[k']? = none := List.getElem?_eq_none (by omega)
        simp [h1, h2]
  · simp only [hl, if_false] at h
    split at h
    · rename_i nx hv
      simp only [Option.some.injEq] at h
      subst h
      have hlt : k < s.entries.length := by
        by_cases hk : k < s.entries.length
        · exact hk
        · simp [List.getElem?_eq_none (Nat.le_of_not_lt hk)] at hv
      refine ⟨?_, ?_, ?_⟩
      · simp [get, hv]
      · simp [get, hlt]
      · intro k' hk'
        simp [get, List.getElem?_set_ne (Ne.symm hk')]
    · simp at h

theorem insert_spec {s s' : Slab α} {v : α} {k : Nat} (h : s.insert v = some (k, s')) :
    k = s.next ∧ s.get k = none ∧ s'.get k = some v ∧ ∀ k', k' ≠ k → s'.get k' = s.get k' := by
  unfold insert at h
  split at h
  · rename_i s0 heq
    simp only [Option.some.injEq, Prod.mk.injEq] at h
    obtain ⟨rfl, rfl⟩ := h
    exact ⟨rfl, insertAt_spec heq⟩
  · simp at h

theorem tryRemove_some {s s' : Slab α} {k : Nat} {v : α} (h : s.tryRemove k = (some v, s')) :
    s.get k = some v ∧ s'.get k = none ∧ ∀ k', k' ≠ k → s'.get k' = s.get k' := by
  unfold tryRemove at h
  split at h
  · rename_i v0 hv
    simp only [Prod.mk.injEq, Option.some.injEq] at h
    obtain ⟨rfl, rfl⟩ := h
    have hlt : k < s.entries.length := by
      by_cases hk : k < s.entries.length
      · exact hk
      · simp [List.getElem?_eq_none (Nat.le_of_not_lt hk)] at hv
    refine ⟨by simp [get, hv], by simp [get, hlt], ?_⟩
    intro k' hk'
    simp [get, List.getElem?_set_ne (Ne.symm hk')]
  · simp at h

theorem tryRemove_none {s s' : Slab α} {k : Nat} (h : s.tryRemove k = (none, s')) :
    s' = s ∧ s.get k = none := by
  unfold tryRemove at h
  split at h
  · simp at h
  · rename_i hne
    simp only [Prod.mk.injEq, true_and] at h
    refine ⟨h.symm, ?_⟩
    unfold get
    split
    · rename_i v hv; exact absurd hv (hne v)
    · rfl

theorem remove_spec {s s' : Slab α} {k : Nat} {v : α} (h : s.remove k = some (v, s')) :
    s.get k = some v ∧ s'.get k = none ∧ ∀ k', k' ≠ k → s'.get k' = s.get k' := by
  unfold remove at h
  split at h
  · rename_i v0 s0 heq
    simp only [Option.some.injEq, Prod.mk.injEq] at h
    obtain ⟨rfl, rfl⟩ := h
    exact tryRemove_some heq
  · simp at h

end Slab

/-! ### the invariant -/

/-- every entry of every table points at a live owner; every issued, unretired CID and every initial
    DCID is registered; sequence numbers and CIDs of one connection are in bijection -/
structure Sound (s : State) : Prop where
  ids_sound : ∀ c h, alookup c s.index.ids = some h →
    ∃ m q, s.conns.get h = some m ∧ alookup q m.locCids = some c
  ids_complete : ∀ h m q c, s.conns.get h = some m → alookup q m.locCids = some c → c ≠ [] →
    alookup c s.index.ids = some h
  loc_inj : ∀ h m q q' c, s.conns.get h = some m → alookup q m.locCids = some c →
    alookup q' m.locCids = some c → c ≠ [] → q = q'
  seq_lt : ∀ h m q c, s.conns.get h = some m → alookup q m.locCids = some c → q < m.cidsIssued
  init_conn : ∀ d h, alookup d s.index.idsInitial = some (.connection h) →
    ∃ m, s.conns.get h = some m ∧ m.side = .server ∧ m.initCid = d
  init_inc : ∀ d i, alookup d s.index.idsInitial = some (.incoming i) →
    ∃ p, s.incoming.get i = some p ∧ p.dcid = d
  conn_init : ∀ h m, s.conns.get h = some m → m.side = .server → m.initCid ≠ [] →
    alookup m.initCid s.index.idsInitial = some (.connection h)
  inc_init : ∀ i p, s.incoming.get i = some p → p.dcid ≠ [] →
    alookup p.dcid s.index.idsInitial = some (.incoming i)
  init_nonempty : alookup [] s.index.idsInitial = none
  in_sound : ∀ a h, alookup a s.index.inRemotes = some h →
    ∃ m, s.conns.get h = some m ∧ m.side = .server ∧ m.addresses = a
  out_sound : ∀ r h, alookup r s.index.outRemotes = some h →
    ∃ m, s.conns.get h = some m ∧ m.side = .client ∧ m.addresses.remote = r
  tok_sound : ∀ k h, alookup k s.index.tokens = some h →
    ∃ m, s.conns.get h = some m ∧ m.resetToken = some k
  loc_nodup : ∀ h m, s.conns.get h = some m → (keys m.locCids).Nodup

theorem sound_init (n : Nat) (b : Bool) : Sound (init n b) := by
  constructor <;> simp [init, Slab.get, Slab.empty]

/-- brings the clauses of `Sound s` into the context (for `grind`) -/
macro "sound_facts" hs:ident : tactic => `(tactic| (
  have h1 := ($hs).ids_sound; have h2 := ($hs).ids_complete; have h3 := ($hs).loc_inj; have h4 := ($hs).seq_lt
  have h5 := ($hs).init_conn; have h6 := ($hs).init_inc; have h7 := ($hs).conn_init; have h8 := ($hs).inc_init
  have h9 := ($hs).init_nonempty; have h10 := ($hs).in_sound; have h11 := ($hs).out_sound
  have h12 := ($hs).tok_sound; have h13 := ($hs).loc_nodup))

/-- `EndpointEvent::ResetToken` -/
theorem sound_resetToken {s s' : State} {ch : Nat} {remote : Addr} {token : Token}
    (hs : Sound s) (h : evResetToken s ch remote token = some s') : Sound s' := by
  unfold evResetToken at h
  split at h
  · simp at h
  · rename_i m hm
    simp only [Option.some.injEq] at h
    subst h
    have hlt := Slab.get_lt hm
    have gs := @Slab.get_set_self _ s.conns ch { m with resetToken := some (remote, token) } hlt
    have gn := fun k' (hk : k' ≠ ch) => @Slab.get_set_ne _ s.conns ch k' { m with resetToken := some (remote, token) } hk
    constructor <;> simp only []
    · intro c h hc
      obtain ⟨m0, q, h1, h2⟩ := hs.ids_sound c h hc
      by_cases hh : h = ch
      · subst hh; rw [hm] at h1; cases h1; exact ⟨_, q, gs, h2⟩
      · exact ⟨m0, q, by rw [gn h hh]; exact h1, h2⟩
    all_goals (sound_facts hs; grind [alookup_ainsert, alookup_aerase, nodup_keys_ainsert, nodup_keys_aerase])

/-- `new_cid` either returns the empty CID of a zero-length generator and changes nothing, or registers
    a non-empty CID that was not registered before -/
theorem newCid_spec {s s1 : State} {ch : Nat} {cands c1 : List Cid} {id : Cid}
    (h : newCid s ch cands = some (id, s1, c1)) :
    (id = [] ∧ s.cidLen = 0 ∧ s1 = s) ∨
    (id ≠ [] ∧ s.cidLen ≠ 0 ∧ alookup id s.index.ids = none ∧
      s1 = { s with index := { s.index with ids := ainsert id ch s.index.ids } }) := by
  induction cands with
  | nil =>
    unfold newCid at h
    split at h
    · rename_i h0; simp only [Option.some.injEq, Prod.mk.injEq] at h; exact Or.inl ⟨h.1.symm, h0, h.2.1.symm⟩
    · simp at h
  | cons c rest ih =>
    unfold newCid at h
    split at h
    · rename_i h0; simp only [Option.some.injEq, Prod.mk.injEq] at h; exact Or.inl ⟨h.1.symm, h0, h.2.1.symm⟩
    · rename_i h0
      split at h
      · simp at h
      · rename_i hne
        split at h
        · rename_i hnone
          simp only [Option.some.injEq, Prod.mk.injEq] at h
          obtain ⟨rfl, rfl, -⟩ := h
          refine Or.inr ⟨?_, h0, hnone, rfl⟩
          intro hc; simp [hc] at hne
        · exact ih h

/-- one round of the loop in `send_new_identifiers` -/
theorem sound_issueOne {s s1 : State} {ch : Nat} {cands c1 : List Cid} {id : Cid} {m : Meta}
    (hs : Sound s) (h : newCid s ch cands = some (id, s1, c1)) (hm : s1.conns.get ch = some m) :
    Sound { s1 with conns := s1.conns.set ch ({ m with cidsIssued := m.cidsIssued + 1,
                                                       locCids := ainsert m.cidsIssued id m.locCids }) } := by
  generalize hm' : ({ m with cidsIssued := m.cidsIssued + 1,
                             locCids := ainsert m.cidsIssued id m.locCids } : Meta) = m'
  have e1 : m'.locCids = ainsert m.cidsIssued id m.locCids := by subst hm'; rfl
  have e2 : m'.cidsIssued = m.cidsIssued + 1 := by subst hm'; rfl
  have e3 : m'.initCid = m.initCid := by subst hm'; rfl
  have e4 : m'.addresses = m.addresses := by subst hm'; rfl
  have e5 : m'.side = m.side := by subst hm'; rfl
  have e6 : m'.resetToken = m.resetToken := by subst hm'; rfl
  clear hm'
  have hlt := Slab.get_lt hm
  have gs := @Slab.get_set_self _ s1.conns ch m' hlt
  have gn := fun k' (hk : k' ≠ ch) => @Slab.get_set_ne _ s1.conns ch k' m' hk
  rcases newCid_spec h with ⟨rfl, h0, rfl⟩ | ⟨hne, h0, hnone, rfl⟩
  · have hfresh : ∀ q c, alookup q m.locCids = some c → ¬ m.cidsIssued = q := by
      intro q c hq; have := hs.seq_lt _ _ _ _ hm hq; omega
    constructor <;> simp only []
    · intro c h hc
      obtain ⟨m0, q, h1, h2⟩ := hs.ids_sound c h hc
      by_cases hh : h = ch
      · subst hh; rw [hm] at h1; cases h1
        refine ⟨_, q, gs, ?_⟩
        rw [e1, alookup_ainsert]
        simp [hfresh _ _ h2, h2]
      · exact ⟨m0, q, by rw [gn h hh]; exact h1, h2⟩
    all_goals (sound_facts hs; grind [alookup_ainsert, alookup_aerase, nodup_keys_ainsert, nodup_keys_aerase])
  · simp only [] at hm gs gn ⊢
    have hfresh : ∀ q c, alookup q m.locCids = some c → ¬ m.cidsIssued = q := by
      intro q c hq; have := hs.seq_lt _ _ _ _ hm hq; omega
    constructor <;> simp only []
    · intro c h hc
      rw [alookup_ainsert] at hc
      by_cases hid : id = c
      · subst hid
        simp only [if_true, Option.some.injEq] at hc
        subst hc
        exact ⟨_, m.cidsIssued, gs, by rw [e1]; simp [alookup_ainsert]⟩
      · simp only [hid, if_false] at hc
        obtain ⟨m0, q, h1, h2⟩ := hs.ids_sound c h hc
        by_cases hh : h = ch
        · subst hh; rw [hm] at h1; cases h1
          refine ⟨_, q, gs, ?_⟩
          rw [e1, alookup_ainsert]
          simp [hfresh _ _ h2, h2]
        · exact ⟨m0, q, by rw [gn h hh]; exact h1, h2⟩
    all_goals (sound_facts hs; grind [alookup_ainsert, alookup_aerase, nodup_keys_ainsert, nodup_keys_aerase])

/-- `send_new_identifiers` -/
theorem sound_sendNewIdentifiers {ch : Nat} (n : Nat) : ∀ {s s' : State} {cands c' : List Cid}
    {ids : List (Nat × Cid)}, Sound s → sendNewIdentifiers s ch n cands = some (s', ids, c') → Sound s' := by
  induction n with
  | zero =>
    intro s s' cands c' ids hs h
    simp only [sendNewIdentifiers, Option.some.injEq, Prod.mk.injEq] at h
    obtain ⟨rfl, -, -⟩ := h; exact hs
  | succ n ih =>
    intro s s' cands c' ids hs h
    unfold sendNewIdentifiers at h
    split at h
    · simp at h
    · rename_i id s1 c1 hnew
      split at h
      · simp at h
      · rename_i m hm
        dsimp only at h
        split at h
        · simp at h
        · rename_i s2 ids2 c2 hrec
          simp only [Option.some.injEq, Prod.mk.injEq] at h
          obtain ⟨rfl, -, -⟩ := h
          exact ih (sound_issueOne hs hnew hm) hrec

/-- `EndpointEvent::RetireConnectionId` -/
theorem sound_retire {s s' : State} {ch seq : Nat} {allow : Bool} {cands : List Cid}
    {r : Option (List (Nat × Cid))} (hs : Sound s) (h : evRetire s ch seq allow cands = some (s', r)) :
    Sound s' := by
  unfold evRetire at h
  split at h
  · simp at h
  · rename_i m hm
    split at h
    · simp only [Option.some.injEq, Prod.mk.injEq] at h; obtain ⟨rfl, -⟩ := h; exact hs
    · rename_i cid hcid
      have hs1 : Sound { s with conns := s.conns.set ch { m with locCids := aerase seq m.locCids },
                                index := s.index.retire cid } := by
        generalize hm' : ({ m with locCids := aerase seq m.locCids } : Meta) = m'
        have e1 : m'.locCids = aerase seq m.locCids := by subst hm'; rfl
        have e2 : m'.cidsIssued = m.cidsIssued := by subst hm'; rfl
        have e3 : m'.initCid = m.initCid := by subst hm'; rfl
        have e4 : m'.addresses = m.addresses := by subst hm'; rfl
        have e5 : m'.side = m.side := by subst hm'; rfl
        have e6 : m'.resetToken = m.resetToken := by subst hm'; rfl
        clear hm'
        have hlt := Slab.get_lt hm
        have gs := @Slab.get_set_self _ s.conns ch m' hlt
        have gn := fun k' (hk : k' ≠ ch) => @Slab.get_set_ne _ s.conns ch k' m' hk
        constructor <;> simp only [Index.retire]
        · intro c h hc
          rw [alookup_aerase] at hc
          by_cases hcc : cid = c
          · simp [hcc] at hc
          · simp only [hcc, if_false] at hc
            obtain ⟨m0, q, h1, h2⟩ := hs.ids_sound c h hc
            by_cases hh : h = ch
            · subst hh; rw [hm] at h1; cases h1
              refine ⟨_, q, gs, ?_⟩
              rw [e1, alookup_aerase]
              have : ¬ seq = q := by
                intro hq; subst hq; rw [hcid] at h2; cases h2; exact hcc rfl
              simp [this, h2]
            · exact ⟨m0, q, by rw [gn h hh]; exact h1, h2⟩
        all_goals (sound_facts hs; grind [alookup_ainsert, alookup_aerase, nodup_keys_ainsert, nodup_keys_aerase])
      dsimp only at h
      split at h
      · split at h
        · simp at h
        · rename_i s2 ids c2 hsend
          simp only [Option.some.injEq, Prod.mk.injEq] at h
          obtain ⟨rfl, -⟩ := h
          exact sound_sendNewIdentifiers 1 hs1 hsend
      · simp only [Option.some.injEq, Prod.mk.injEq] at h
        obtain ⟨rfl, -⟩ := h
        exact hs1

theorem removeInitial_spec {ix ix' : Index} {d : Cid} (h : ix.removeInitial d = some ix') :
    ix'.ids = ix.ids ∧ ix'.inRemotes = ix.inRemotes ∧ ix'.outRemotes = ix.outRemotes ∧
    ix'.tokens = ix.tokens ∧
    ∀ k, alookup k ix'.idsInitial = if d ≠ [] ∧ d = k then none else alookup k ix.idsInitial := by
  unfold Index.removeInitial at h
  split at h
  · rename_i he
    simp only [Option.some.injEq] at h; subst h
    have : d = [] := by simpa using he
    simp [this]
  · rename_i he
    have hne : d ≠ [] := by simpa using he
    split at h
    · simp only [Option.some.injEq] at h; subst h
      refine ⟨rfl, rfl, rfl, rfl, ?_⟩
      intro k; simp only [alookup_aerase]; simp [hne]
    · simp at h

/-- what `ConnectionIndex::remove` leaves in each table -/
theorem remove_spec {ix ix' : Index} {ch : Nat} {conn : Meta} (h : ix.remove ch conn = some ix') :
    (∀ k, alookup k ix'.idsInitial =
        if conn.side = .server ∧ conn.initCid ≠ [] ∧ conn.initCid = k then none else alookup k ix.idsInitial) ∧
    (∀ c, alookup c ix'.ids = if c ∈ conn.locCids.map (fun e => e.2) then none else alookup c ix.ids) ∧
    (∀ a, alookup a ix'.inRemotes =
        if conn.addresses = a ∧ alookup a ix.inRemotes = some ch then none else alookup a ix.inRemotes) ∧
    (∀ r, alookup r ix'.outRemotes =
        if conn.addresses.remote = r ∧ alookup r ix.outRemotes = some ch then none else alookup r ix.outRemotes) ∧
    (∀ k, alookup k ix'.tokens = if conn.resetToken = some k then none else alookup k ix.tokens) := by
  unfold Index.remove at h
  split at h
  · simp at h
  · rename_i ix1 h1
    simp only [Option.some.injEq] at h
    have hix1 : ix1.ids = ix.ids ∧ ix1.inRemotes = ix.inRemotes ∧ ix1.outRemotes = ix.outRemotes ∧
        ix1.tokens = ix.tokens ∧ ∀ k, alookup k ix1.idsInitial =
          if conn.side = .server ∧ conn.initCid ≠ [] ∧ conn.initCid = k then none else alookup k ix.idsInitial := by
      split at h1
      · rename_i hsv
        obtain ⟨a, b, c, d, e⟩ := removeInitial_spec h1
        refine ⟨a, b, c, d, ?_⟩
        intro k; rw [e k]; simp [hsv]
      · rename_i hsv
        simp only [Option.some.injEq] at h1; subst h1
        refine ⟨rfl, rfl, rfl, rfl, ?_⟩
        intro k; simp [hsv]
    obtain ⟨e1, e2, e3, e4, e5⟩ := hix1
    subst h
    have hin : ∀ a, alookup a (if alookup conn.addresses ix1.inRemotes = some ch
          then aerase conn.addresses ix1.inRemotes else ix1.inRemotes) =
        if conn.addresses = a ∧ alookup a ix.inRemotes = some ch then none else alookup a ix.inRemotes := by
      intro a
      rw [e2]
      by_cases hc : alookup conn.addresses ix.inRemotes = some ch
      · simp only [hc, if_true, alookup_aerase]
        by_cases ha : conn.addresses = a
        · subst ha; simp [hc]
        · simp [ha]
      · simp only [hc, if_false]
        by_cases ha : conn.addresses = a
        · subst ha; simp [hc]
        · simp [ha]
    have hout : ∀ r, alookup r (if alookup conn.addresses.remote ix1.outRemotes = some ch
          then aerase conn.addresses.remote ix1.outRemotes else ix1.outRemotes) =
        if conn.addresses.remote = r ∧ alookup r ix.outRemotes = some ch then none else alookup r ix.outRemotes := by
      intro r
      rw [e3]
      by_cases hc : alookup conn.addresses.remote ix.outRemotes = some ch
      · simp only [hc, if_true, alookup_aerase]
        by_cases ha : conn.addresses.remote = r
        · subst ha; simp [hc]
        · simp [ha]
      · simp only [hc, if_false]
        by_cases ha : conn.addresses.remote = r
        · subst ha; simp [hc]
        · simp [ha]
    refine ⟨?_, ?_, ?_, ?_, ?_⟩
    · intro k; split <;> (split <;> (split <;> exact e5 k))
    · intro c; split <;> (split <;> (split <;> simp only [alookup_eraseAll, e1]))
    · intro a
      have := hin a
      split <;> (split <;> (split <;> (simp_all <;> (intro e; subst e; assumption))))
    · intro r
      have := hout r
      split <;> (split <;> (split <;> (simp_all <;> (intro e; subst e; assumption))))
    · intro k
      split
      · rename_i k0 hk0
        split <;> (split <;> simp only [alookup_aerase, e4, hk0, Option.some.injEq])
      · rename_i hk0
        split <;> (split <;> simp [hk0, e4])

/-- `EndpointEvent::Drained` -/
theorem sound_drained {s s' : State} {ch : Nat} (hs : Sound s) (h : evDrained s ch = some s') : Sound s' := by
  unfold evDrained at h
  split at h
  · rename_i conn conns htr
    split at h
    · simp at h
    · rename_i ix' hrem
      simp only [Option.some.injEq] at h; subst h
      obtain ⟨g0, g1, g2⟩ := Slab.tryRemove_some htr
      obtain ⟨r1, r2, r3, r4, r5⟩ := remove_spec hrem
      have mv := fun q c (hq : alookup q conn.locCids = some c) => mem_vals_of_alookup hq
      have ev := fun c (hc : c ∈ conn.locCids.map (fun e => e.2)) =>
        exists_alookup_of_mem_vals (hs.loc_nodup _ _ g0) hc
      constructor <;> simp only []
      · intro c h hc
        rw [r2] at hc
        split at hc
        · simp at hc
        · rename_i hnm
          obtain ⟨m0, q, h1, h2⟩ := hs.ids_sound c h hc
          by_cases hh : h = ch
          · subst hh; rw [g0] at h1; cases h1; exact absurd (mv _ _ h2) hnm
          · exact ⟨m0, q, by rw [g2 h hh]; exact h1, h2⟩
      all_goals (sound_facts hs; grind)
  · simp only [Option.some.injEq] at h; subst h; exact hs

/-- the `ConnectionMeta` that `add_connection` stores -/
def newMeta (initCid locCid : Cid) (addresses : FourTuple) (side : Side) (pref : Option Cid) : Meta :=
  match pref with
  | some cid => ⟨initCid, 2, ainsert 1 cid (ainsert 0 locCid []), addresses, side, none⟩
  | none => ⟨initCid, 1, ainsert 0 locCid [], addresses, side, none⟩

theorem addConnection_spec {s s' : State} {ch : Nat} {initCid locCid : Cid} {addresses : FourTuple}
    {side : Side} {pref : Option Cid}
    (h : addConnection s ch initCid locCid addresses side pref = some s') :
    ch = s.conns.next ∧ s.conns.get ch = none ∧
    s'.conns.get ch = some (newMeta initCid locCid addresses side pref) ∧
    (∀ k, k ≠ ch → s'.conns.get k = s.conns.get k) ∧
    s'.incoming = s.incoming ∧ s'.cidLen = s.cidLen ∧ s'.prefAddr = s.prefAddr ∧
    s'.index = s.index.insertConn addresses locCid ch side := by
  unfold addConnection at h
  cases pref with
  | none =>
    dsimp only at h
    split at h
    · simp at h
    · rename_i id conns hins
      split at h
      · simp at h
      · rename_i hid
        simp only [Option.some.injEq] at h; subst h
        have hid' : id = ch := by simpa using hid
        subst hid'
        obtain ⟨a, b, c, d⟩ := Slab.insert_spec hins
        exact ⟨a, b, c, d, rfl, rfl, rfl, rfl⟩
  | some cid =>
    dsimp only at h
    split at h
    · simp at h
    · rename_i id conns hins
      split at h
      · simp at h
      · rename_i hid
        simp only [Option.some.injEq] at h; subst h
        have hid' : id = ch := by simpa using hid
        subst hid'
        obtain ⟨a, b, c, d⟩ := Slab.insert_spec hins
        exact ⟨a, b, c, d, rfl, rfl, rfl, rfl⟩

theorem newMeta_locCids (initCid locCid : Cid) (addresses : FourTuple) (side : Side) (pref : Option Cid)
    (q : Nat) (c : Cid) :
    alookup q (newMeta initCid locCid addresses side pref).locCids = some c ↔
      ((q = 0 ∧ c = locCid) ∨ (q = 1 ∧ pref = some c)) := by
  cases pref with
  | none => simp only [newMeta, alookup_ainsert, alookup_nil]; grind
  | some p => simp only [newMeta, alookup_ainsert, alookup_nil]; grind

theorem newMeta_fields (initCid locCid : Cid) (addresses : FourTuple) (side : Side) (pref : Option Cid) :
    (newMeta initCid locCid addresses side pref).initCid = initCid ∧
    (newMeta initCid locCid addresses side pref).addresses = addresses ∧
    (newMeta initCid locCid addresses side pref).side = side ∧
    (newMeta initCid locCid addresses side pref).resetToken = none ∧
    (keys (newMeta initCid locCid addresses side pref).locCids).Nodup ∧
    (∀ q c, alookup q (newMeta initCid locCid addresses side pref).locCids = some c →
      q < (newMeta initCid locCid addresses side pref).cidsIssued) := by
  cases pref with
  | none =>
    refine ⟨rfl, rfl, rfl, rfl, nodup_keys_ainsert (by simp [keys]), ?_⟩
    intro q c; simp only [newMeta, alookup_ainsert, alookup_nil]; grind
  | some p =>
    refine ⟨rfl, rfl, rfl, rfl, nodup_keys_ainsert (nodup_keys_ainsert (by simp [keys])), ?_⟩
    intro q c; simp only [newMeta, alookup_ainsert, alookup_nil]; grind

/-- `new_cid` + `add_connection` for an outgoing connection -/
theorem sound_add_client {s s1 s2 : State} {ch : Nat} {remote : Addr} {initCid loc : Cid} {cands c1 : List Cid}
    (hs : Sound s) (hnew : newCid s ch cands = some (loc, s1, c1))
    (hadd : addConnection s1 ch initCid loc ⟨remote, none⟩ .client none = some s2) : Sound s2 := by
  obtain ⟨a1, a2, a3, a4, a5, a6, a7, a8⟩ := addConnection_spec hadd
  have lc := newMeta_locCids initCid loc ⟨remote, none⟩ .client none
  obtain ⟨f1, f2, f3, f4, f5, f6⟩ := newMeta_fields initCid loc ⟨remote, none⟩ .client none
  generalize newMeta initCid loc ⟨remote, none⟩ .client none = mN at a3 lc f1 f2 f3 f4 f5 f6
  rcases newCid_spec hnew with ⟨rfl, h0, rfl⟩ | ⟨hne, h0, hnone, rfl⟩
  · simp only [Index.insertConn, List.length_nil, if_true] at a8
    constructor <;> (try rw [a8]) <;> (try simp only [])
    · intro c h hc
      obtain ⟨m0, q, h1, h2⟩ := hs.ids_sound c h hc
      have : h ≠ ch := by intro e; subst e; rw [a2] at h1; cases h1
      exact ⟨m0, q, by rw [a4 h this]; exact h1, h2⟩
    all_goals (sound_facts hs; grind [alookup_ainsert])
  · have hl : ¬ loc.length = 0 := by
      intro e; exact hne (List.eq_nil_of_length_eq_zero e)
    simp only [Index.insertConn, hl, if_false] at a8
    simp only [] at a2 a4 a5
    constructor <;> (try rw [a8]) <;> (try simp only [])
    · intro c h hc
      simp only [alookup_ainsert] at hc
      by_cases hlc : loc = c
      · subst hlc
        simp only [if_true, Option.some.injEq] at hc; subst hc
        exact ⟨_, 0, a3, (lc 0 loc).mpr (Or.inl ⟨rfl, rfl⟩)⟩
      · simp only [hlc, if_false] at hc
        obtain ⟨m0, q, h1, h2⟩ := hs.ids_sound c h hc
        have : h ≠ ch := by intro e; subst e; rw [a2] at h1; cases h1
        exact ⟨m0, q, by rw [a4 h this]; exact h1, h2⟩
    all_goals (sound_facts hs; grind [alookup_ainsert])

/-- `new_cid` followed by `index.retire(loc_cid)` (the TLS-error exit of `connect`) leaves every table as
    it was -/
theorem sound_newCid_retire {s s1 : State} {ch : Nat} {loc : Cid} {cands c1 : List Cid}
    (hs : Sound s) (hnew : newCid s ch cands = some (loc, s1, c1)) :
    Sound { s1 with index := s1.index.retire loc } := by
  rcases newCid_spec hnew with ⟨rfl, h0, rfl⟩ | ⟨hne, h0, hnone, rfl⟩
  · constructor <;> simp only [Index.retire]
    all_goals (sound_facts hs; grind [alookup_aerase])
  · constructor <;> simp only [Index.retire]
    all_goals (sound_facts hs; grind [alookup_aerase, alookup_ainsert])

/-- `Endpoint::connect`, every exit -/
theorem sound_connect {s s' : State} {remote : Addr} {initCid : Cid} {tls : Bool} {cands : List Cid}
    {res : ConnectResult} (hs : Sound s) (h : connect s remote initCid tls cands = some (s', res)) :
    Sound s' := by
  unfold connect at h
  split at h
  · simp only [Option.some.injEq, Prod.mk.injEq] at h; obtain ⟨rfl, -⟩ := h; exact hs
  · split at h
    · simp only [Option.some.injEq, Prod.mk.injEq] at h; obtain ⟨rfl, -⟩ := h; exact hs
    · dsimp only at h
      split at h
      · simp at h
      · rename_i loc s1 c1 hnew
        split at h
        · simp only [Option.some.injEq, Prod.mk.injEq] at h; obtain ⟨rfl, -⟩ := h
          exact sound_newCid_retire hs hnew
        · split at h
          · simp at h
          · rename_i s2 hadd
            simp only [Option.some.injEq, Prod.mk.injEq] at h; obtain ⟨rfl, -⟩ := h
            exact sound_add_client hs hnew hadd

end QM.Index
