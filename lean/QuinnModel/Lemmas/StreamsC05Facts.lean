import QuinnModel.Lemmas.StreamsC05Main
/-
C05: per-operation facts (write / open decision, send window, retransmission, reset) and the
0-RTT rejection facts behind F10 / F11.
-/
namespace QM.Streams
set_option pp.structureInstances false

/-- the credit `write` works with, as the code computes it: min(connection credit and send-window
    room (`write_limit`), stream credit) -/
def State.writeCredit (s : State) (x : Send) : Nat :=
  Nat.min (Gen.writeLimit s.maxData s.dataSent s.sendWindow s.unackedData) (x.maxData - x.pending.offset)

theorem Send.write_err {x : Send} {n limit : Nat} {e : WriteErr} (h : x.write n limit = some (.error e)) :
    (x.isWritable = false ∧ e = .closedStream) ∨
    (x.isWritable = true ∧ ∃ c, x.stopReason = some c ∧ e = .stopped c) ∨
    (x.isWritable = true ∧ x.stopReason = none ∧ x.maxData - x.pending.offset = 0 ∧ e = .blocked) := by
  unfold Send.write at h
  osplit h
  · left; exact ⟨by simpa using ‹(!x.isWritable) = true›, by simpa using h.symm⟩
  · right; left; exact ⟨by simpa using ‹¬(!x.isWritable) = true›, _, ‹x.stopReason = some _›, by simpa using h.symm⟩
  · right; right
    have hb := ‹Gen.sendBudget _ _ = 0›
    simp only [Gen.sendBudget] at hb
    exact ⟨by simpa using ‹¬(!x.isWritable) = true›, ‹x.stopReason = none›, hb, by simpa using h.symm⟩

/-- the early stop test of `write_source` fires exactly on a writable half the peer stopped -/
theorem stoppedFirst_some {x : Send} {c : Nat} :
    x.stoppedFirst = some c ↔ (x.isWritable = true ∧ x.stopReason = some c) := by
  unfold Send.stoppedFirst
  simp only [Gen.writeStoppedFirst, Bool.true_and]
  constructor
  · intro h; split at h
    · exact ⟨‹_›, h⟩
    · contradiction
  · intro ⟨h1, h2⟩; simp [h1, h2]

theorem stoppedFirst_none {x : Send} :
    x.stoppedFirst = none ↔ (x.isWritable = false ∨ x.stopReason = none) := by
  unfold Send.stoppedFirst
  simp only [Gen.writeStoppedFirst, Bool.true_and]
  cases x.isWritable <;> simp

/-- the closed-half test of `write_source` fires exactly on a half that is no longer writable -/
theorem closedFirst_iff {x : Send} : x.closedFirst = true ↔ x.isWritable = false := by
  unfold Send.closedFirst
  simp [Gen.writeClosedFirst]

/-- a refused write on an open connection: no connection-level room, or the stream refused, or the
    peer had stopped it, or the half is finished / reset -/
theorem write_err_cases {s s' s1 : State} {id n : Nat} {x : Send} {e : WriteErr}
    (h : s.write id n = some (s', .error e)) (hg : s.getOrInsertSend id = some (x, s1))
    (hc : s.connClosed = false) :
    (Gen.writeLimit s.maxData s.dataSent s.sendWindow s.unackedData = 0 ∧ e = .blocked ∧
      x.stoppedFirst = none ∧ x.closedFirst = false) ∨
    (Gen.writeLimit s.maxData s.dataSent s.sendWindow s.unackedData ≠ 0 ∧
      x.write n (Gen.writeLimit s.maxData s.dataSent s.sendWindow s.unackedData) = some (.error e)) ∨
    (∃ c, x.stoppedFirst = some c ∧ e = .stopped c) ∨
    (x.closedFirst = true ∧ e = .closedStream) := by
  unfold State.write at h
  osplit h
  all_goals try (have := ‹s.connClosed = true›; rw [hc] at this; contradiction)
  all_goals try (have hg' := ‹State.getOrInsertSend _ _ = none›; rw [hg] at hg'; contradiction)
  all_goals
    have hg' := ‹State.getOrInsertSend _ _ = some _›
    rw [hg] at hg'
    simp only [Option.some.injEq, Prod.mk.injEq] at hg'
    obtain ⟨rfl, rfl⟩ := hg'
    have hl := ‹State.writeLimit _ = some _›
    unfold State.writeLimit at hl
    osplit hl
    subst hl
    first
      | (right; right; right; exact ⟨‹Send.closedFirst _ = true›, by simpa using h.2.symm⟩)
      | (right; right; left; exact ⟨_, ‹Send.stoppedFirst _ = some _›, by simpa using h.2.symm⟩)
      | (left; exact ⟨‹_ = 0›, by simpa using h.2.symm, ‹Send.stoppedFirst _ = none›,
          by simpa using ‹¬Send.closedFirst _ = true›⟩)
      | (right; left
         have hw := ‹Send.write _ _ _ = some (Except.error _)›
         simp only [Except.error.injEq] at h
         rw [← h.2]; exact ⟨‹¬_ = 0›, hw⟩)

/-- decision of `write` on an open, unstopped stream of an open connection: `Blocked` exactly when
    the credit is zero, otherwise exactly `min(n, credit)` bytes are accepted -/
theorem write_decision {s s' s1 : State} {id n : Nat} {x : Send} {r : Except WriteErr Nat}
    (h : s.write id n = some (s', r)) (hg : s.getOrInsertSend id = some (x, s1))
    (hc : s.connClosed = false) (hw : x.isWritable = true) (hs : x.stopReason = none) :
    r = if s.writeCredit x = 0 then .error .blocked else .ok (Nat.min n (s.writeCredit x)) := by
  unfold State.writeCredit
  cases r with
  | ok k =>
    obtain ⟨x', s0, hg', _, _, _, _, _, hl, hb, hk, _⟩ := write_ok h
    rw [hg] at hg'
    simp only [Option.some.injEq, Prod.mk.injEq] at hg'
    obtain ⟨rfl, rfl⟩ := hg'
    have : ¬ Nat.min (Gen.writeLimit s.maxData s.dataSent s.sendWindow s.unackedData)
        (x.maxData - x.pending.offset) = 0 := by simp only [natMin_eq]; omega
    simp only [this, ↓reduceIte, hk]
  | error e =>
    rcases write_err_cases h hg hc with ⟨h0, rfl, _⟩ | ⟨_, hx⟩ | ⟨c, hsf, _⟩ | ⟨hcf, _⟩
    rotate_right
    · rw [closedFirst_iff.mp hcf] at hw; contradiction
    · simp [h0, natMin_eq]
    · rcases Send.write_err hx with ⟨hnw, _⟩ | ⟨_, c, hsr, _⟩ | ⟨_, _, hb, rfl⟩
      · rw [hw] at hnw; contradiction
      · rw [hs] at hsr; contradiction
      · simp [hb, natMin_eq]
    · rw [(stoppedFirst_some.mp hsf).2] at hs; contradiction

/-- `open` returns nothing exactly when the connection is closed or no stream credit remains -/
theorem open_none_iff {s s' : State} {d : Dir} {r : Option Nat} (h : s.open_ d = some (s', r)) :
    r = none ↔ (s.connClosed = true ∨ s.max.get d ≤ s.next.get d) := by
  unfold State.open_ at h
  osplit h
  · have := ‹s.connClosed = true›; rw [← h.2]; simp [this]
  · have := ‹Gen.openExhausted _ _ = true›
    simp only [Gen.openExhausted, decide_eq_true_eq] at this
    rw [← h.2]; simp; right; omega
  · have h1 := ‹¬s.connClosed = true›
    have h2 := ‹¬Gen.openExhausted _ _ = true›
    simp only [Gen.openExhausted, decide_eq_true_eq] at h2
    rw [← h.2]; simp [h1]; omega

theorem getOrInsertSend_scalars {s s1 : State} {id : Nat} {x : Send}
    (h : s.getOrInsertSend id = some (x, s1)) :
    s1.unackedData = s.unackedData ∧ s1.sendWindow = s.sendWindow := by
  unfold State.getOrInsertSend at h
  osplit h
  all_goals (rw [← h.2]; exact ⟨rfl, rfl⟩)

/-- an accepted write adds exactly the accepted bytes to `unacked_data` and never takes it past
    the send window -/
theorem write_send_window {s s' : State} {id n k : Nat} (h : s.write id n = some (s', .ok k)) :
    s'.unackedData = s.unackedData + k ∧ k ≤ s.sendWindow - s.unackedData := by
  obtain ⟨x, s0, hg, _, _, _, _, _, _, _, hk, _, _, hu⟩ := write_ok h
  have hs := getOrInsertSend_scalars hg
  refine ⟨by rw [hu, hs.1], ?_⟩
  rw [hk]; simp only [natMin_eq, Gen.writeLimit]; omega

/-- `reset` gives back exactly the part of the send window held by the stream's unacknowledged data -/
theorem reset_restores_window {s s' : State} {id code : Nat} (h : s.reset id code = some (s', true)) :
    ∃ x s1 u, s.getOrInsertSend id = some (x, s1) ∧ x.pending.unacked = some u ∧
      s'.unackedData + u = s.unackedData := by
  unfold State.reset at h
  osplit h
  all_goals
    have hg := ‹State.getOrInsertSend _ _ = some _›
    have hu := ‹SendBuf.unacked _ = some _›
    have hsub := ‹subU (State.unackedData _) _ = some _›
    have hs := getOrInsertSend_scalars hg
    refine ⟨_, _, _, hg, hu, ?_⟩
    rw [← h.1]
    unfold subU at hsub
    split at hsub
    · rename_i hle
      simp only [Option.some.injEq] at hsub
      rw [hs.1] at hsub hle
      simp only [State.putSend]
      omega
    · simp at hsub

/-! ### running operation lists -/

/-- run a list of operations from `s`, extending the history `h` -/
def runOps : State → Hist → List Op → Option (State × Hist)
  | s, h, [] => some (s, h)
  | s, h, o :: os =>
    match step s o with
    | none => none
    | some (s', out) => runOps s' ((o, out) :: h) os

/-- operations that need no side condition in the body of a history -/
def Op.isPlain : Op → Bool
  | .new _ | .rejected | .params _ => false
  | _ => true

theorem reach_run {c : Config} : ∀ (ops : List Op) {h h' : Hist} {s s' : State},
    Reach c h s → (∀ o ∈ ops, o.isPlain = true) → runOps s h ops = some (s', h') → Reach c h' s' := by
  intro ops
  induction ops with
  | nil => intro h h' s s' r _ hr; simp [runOps] at hr; obtain ⟨rfl, rfl⟩ := hr; exact r
  | cons o os ih =>
    intro h h' s s' r hp hr
    unfold runOps at hr
    split at hr
    · contradiction
    · rename_i s1 out hs
      have ho := hp o (List.mem_cons_self ..)
      have ha : Allowed s o := by cases o <;> simp [Op.isPlain] at ho <;> trivial
      exact ih (Reach.step r ha hs) (fun o' ho' => hp o' (List.mem_cons_of_mem _ ho')) hr

/-- the start of every connection: `new` then the first `set_params` -/
theorem reach_start (c : Config) (p : Params) (hn : (State.new c).isSome = true) :
    Reach c [(.params p, .ok)] (((State.new c).get hn).setParams p) := by
  have h0 : State.new c = some ((State.new c).get hn) := by simp
  exact Reach.step (Reach.init h0) (paramsOk_new h0 p) rfl

/-- `reach_run` for closed terms: no intermediate state has to be written down -/
theorem reach_run' {c : Config} {h : Hist} {s : State} (r : Reach c h s) (ops : List Op)
    (hp : ∀ o ∈ ops, o.isPlain = true) (hr : (runOps s h ops).isSome = true) :
    Reach c ((runOps s h ops).get hr).2 ((runOps s h ops).get hr).1 :=
  reach_run ops r hp (Option.some_get hr).symm

end QM.Streams
