import QuinnModel.Lemmas.StreamsHist
/-
C11, whole histories — what ONE operation does to the half view (`Fx`): growth only, or one of the
seven changes of a single half (finish, reset, STOP_SENDING, completing acknowledgement, acknowledged
reset, and the freeing of a receiving half), with the slot-release decision of `stream_freed`.
-/
namespace QM.Streams
set_option pp.structureInstances false

/-- every half that exists belongs to an allocated stream id -/
def KeysAlloc (s : State) : Prop :=
  ∀ id, (absSend s id ≠ .gone ∨ s.recv.contains id = true) → s.hv.allocd id

/-- the decision of `stream_freed(id, half)` with `otherGone` = the other half is not in its map:
    one slot of the stream's direction is released iff the stream is remotely initiated and has no
    other half -/
def RelSpec (s : HV) (id : Nat) (otherGone : Bool) (rel : Dir → Nat) : Prop :=
  (sidInitiator id ≠ s.side ∧ (sidDir id == .uni || otherGone) = true ∧ rel = rel1 (sidDir id)) ∨
  (¬ (sidInitiator id ≠ s.side ∧ (sidDir id == .uni || otherGone) = true) ∧ rel = rel0)

theorem absSend_erase_self (s : State) (id : Nat) : absSend { s with send := s.send.erase id } id = .gone := by
  simp only [absSend, Map.find?_erase_self]

theorem absSend_erase_ne (s : State) {id k : Nat} (h : k ≠ id) :
    absSend { s with send := s.send.erase id } k = absSend s k := by
  simp only [absSend, Map.find?_erase_ne _ _ _ h]

theorem not_contains_eq (s : State) (id : Nat) : (!s.send.contains id) = decide (absSend s id = .gone) := by
  unfold Map.contains absSend
  cases h : s.send.find? id with
  | none => simp
  | some o =>
    cases o with
    | none => simp
    | some x =>
      have hne : SendHalf.ofSend x ≠ .gone := by unfold SendHalf.ofSend; split <;> simp
      simp only [Option.isSome_some, Bool.not_true]; exact (decide_eq_false hne).symm

theorem contains_erase_self {α} (m : Map α) (id : Nat) : (m.erase id).contains id = false := by
  simp only [Map.contains, Map.find?_erase_self]; rfl

theorem contains_erase_ne {α} (m : Map α) {id k : Nat} (h : k ≠ id) : (m.erase id).contains k = m.contains k := by
  simp only [Map.contains, Map.find?_erase_ne _ _ _ h]

theorem contains_cons {α} (m : Map α) (id k : Nat) (v : α) :
    Map.contains ((id, v) :: m) k = (decide (id = k) || m.contains k) := by
  simp only [Map.contains, Map.find?_cons]
  by_cases h : id = k <;> simp [h]

/-- storing something under the key `id` of the send map changes at most the sending half of `id` -/
theorem grow_set {s s' : State} {id : Nat} {v : Option Send}
    (h1 : s'.side = s.side) (h2 : s'.next = s.next) (h3 : s'.maxRemote = s.maxRemote)
    (h4 : s'.allocatedRemoteCount = s.allocatedRemoteCount)
    (h5 : s'.send = s.send.set id v) (h6 : s'.recv = s.recv) : Grow (some id) none rel0 s.hv s'.hv := by
  refine ⟨h1, fun d => by simp only [State.hv, h2]; exact Nat.le_refl _,
    fun d => by simp only [State.hv, h3]; exact Nat.le_refl _,
    fun d => by simp only [State.hv, h3, h4, rel0]; omega, fun k hk => Or.inl ?_, fun k _ => Or.inl ?_⟩
  · have : k ≠ id := fun hh => hk (by rw [hh])
    simp only [State.hv, absSend, h5, Map.find?_set_ne _ _ _ _ this]
  · simp only [State.hv, h6]

/-- erase the sending half of `id`, then `stream_freed(id, Send)` -/
theorem site_send {s s2 : State} {id : Nat} (ha : s.hv.allocd id)
    (h : ({ s with send := s.send.erase id } : State).streamFreed id .send = some s2) :
    s2.hv.sh id = .gone ∧ ∃ rel, Grow (some id) none rel s.hv s2.hv ∧ RelSpec s.hv id (!s.hv.rp id) rel := by
  have g1 : Grow (some id) none rel0 s.hv ({ s with send := s.send.erase id } : State).hv := by
    refine ⟨rfl, fun d => Nat.le_refl _, fun d => Nat.le_refl _, fun d => by simp only [State.hv, rel0]; omega,
      fun k hk => Or.inl ?_, fun k _ => Or.inl rfl⟩
    have : k ≠ id := fun hh => hk (by rw [hh])
    exact absSend_erase_ne s this
  have e1 : ({ s with send := s.send.erase id } : State).hv.sh id = .gone := absSend_erase_self s id
  rcases g_streamFreed h with ⟨r, ff, g2⟩ | ⟨nr, e⟩
  · constructor
    · rcases g2.sh id (by simp) with e2 | ⟨_, n2, _⟩
      · rw [e2, e1]
      · exact absurd ha n2
    · exact ⟨_, g1.trans (g2.weaken (Or.inl rfl) (Or.inl rfl)) (fun d => by simp [rel0]), Or.inl ⟨r, ff, rfl⟩⟩
  · constructor
    · rw [e, e1]
    · exact ⟨_, e ▸ g1, Or.inr ⟨nr, rfl⟩⟩

/-- erase the receiving half of `id`, then `stream_freed(id, Recv)` -/
theorem site_recv {s s2 : State} {id : Nat} (ha : s.hv.allocd id)
    (h : ({ s with recv := s.recv.erase id } : State).streamRecvFreed id = some s2) :
    s2.hv.rp id = false ∧ ∃ rel, Grow none (some id) rel s.hv s2.hv ∧ RelSpec s.hv id (decide (s.hv.sh id = .gone)) rel := by
  have g1 : Grow none (some id) rel0 s.hv ({ s with recv := s.recv.erase id } : State).hv := by
    refine ⟨rfl, fun d => Nat.le_refl _, fun d => Nat.le_refl _, fun d => by simp only [State.hv, rel0]; omega,
      fun k _ => Or.inl rfl, fun k hk => Or.inl ?_⟩
    have : k ≠ id := fun hh => hk (by rw [hh])
    exact contains_erase_ne _ this
  have e1 : ({ s with recv := s.recv.erase id } : State).hv.rp id = false := contains_erase_self _ id
  have eff : ({ s with recv := s.recv.erase id } : State).fullyFree id .recv =
      (sidDir id == .uni || decide (s.hv.sh id = .gone)) := by
    simp only [State.fullyFree, not_contains_eq]; rfl
  rw [State.streamRecvFreed] at h
  rcases g_streamFreed h with ⟨r, ff, g2⟩ | ⟨nr, e⟩
  · constructor
    · rcases g2.rp id (by simp) with e2 | ⟨_, n2, _⟩
      · rw [e2, e1]
      · exact absurd ha n2
    · rw [eff] at ff
      exact ⟨_, g1.trans (g2.weaken (Or.inl rfl) (Or.inl rfl)) (fun d => by simp [rel0]), Or.inl ⟨r, ff, rfl⟩⟩
  · constructor
    · rw [e, e1]
    · rw [eff] at nr
      exact ⟨_, e ▸ g1, Or.inr ⟨nr, rfl⟩⟩

def SendHalf.isDS : SendHalf → Bool
  | .dataSent _ => true
  | _ => false

/-- what one operation does to the half view -/
inductive Fx (s s' : State) (o : Op) (out : Out) : Prop
  /-- nothing but growth; no `Finished` / `Stopped` is queued (`poll` may hand out the oldest) -/
  | grow (g : G s s') (hq : s'.fsw = s.fsw ∨ o = .poll)
  /-- a successful `finish`: Ready (unstopped) becomes DataSent -/
  | finish (id : Nat) (ho : o = .finish id) (hout : out = .ok) (g : Grow (some id) none rel0 s.hv s'.hv)
      (h1 : s.hv.sh id = .ready none) (h2 : s'.hv.sh id = .dataSent none) (hq : s'.fsw = s.fsw)
  /-- a successful `reset`: a present half that was not reset becomes ResetSent, the stop reason stays -/
  | reset (id code : Nat) (ho : o = .reset id code) (hout : out = .ok) (g : Grow (some id) none rel0 s.hv s'.hv)
      (h1 : (expectedReset (s.hv.sh id)).1 = true) (h2 : s'.hv.sh id = (expectedReset (s.hv.sh id)).2)
      (hq : s'.fsw = s.fsw)
  /-- STOP_SENDING on a present half without stop reason: the reason is recorded, `Stopped` is queued -/
  | stopSending (id code : Nat) (ho : o = .stopSending id code) (g : Grow (some id) none rel0 s.hv s'.hv)
      (h1 : expectedStopped (s.hv.sh id) = some none) (h2 : expectedStopped (s'.hv.sh id) = some (some code))
      (h3 : (s'.hv.sh id).isDS = (s.hv.sh id).isDS)
      (hq : s'.fsw = s.fsw ++ [.stopped id code])
  /-- the acknowledgement that completes a finished stream: the half is dropped, `Finished` is queued -/
  | finished (id a e : Nat) (fin : Bool) (ho : o = .ack id a e fin) (rel : Dir → Nat)
      (g : Grow (some id) none rel s.hv s'.hv)
      (h1 : ∃ x x', s.send.find? id = some (some x) ∧ x.ack a e fin = some (x', true))
      (h2 : s'.hv.sh id = .gone) (hq : s'.fsw = s.fsw ++ [.finished id])
      (hrel : RelSpec s.hv id (!s.hv.rp id) rel)
  /-- the acknowledgement of a RESET_STREAM: the half is dropped -/
  | resetAcked (id : Nat) (ho : o = .rstAck id) (rel : Dir → Nat) (g : Grow (some id) none rel s.hv s'.hv)
      (h1 : ∃ c, s.hv.sh id = .resetSent c) (h2 : s'.hv.sh id = .gone)
      (hrel : RelSpec s.hv id (!s.hv.rp id) rel) (hq : s'.fsw = s.fsw)
  /-- a receiving half is dropped: the application read to the end / saw the reset (`read`,
      `received_reset`), or it had stopped the stream and the final size is now known (`stop`, STREAM with
      FIN, RESET_STREAM) -/
  | recvFreed (id : Nat) (ho : (∃ b, o = .read id b) ∨ (∃ c, o = .stop id c) ∨ o = .recvReset id ∨
        (∃ a l f, o = .stream id a l f) ∨ (∃ c f, o = .rst id c f))
      (rel : Dir → Nat) (g : Grow none (some id) rel s.hv s'.hv)
      (h1 : s.hv.rp id = true) (h2 : s'.hv.rp id = false)
      (hrel : RelSpec s.hv id (decide (s.hv.sh id = .gone)) rel) (hq : s'.fsw = s.fsw)

theorem Send.ack_half {x x' : Send} {a e : Nat} {fin d : Bool} (h : x.ack a e fin = some (x', d)) :
    x'.stopReason = x.stopReason ∧
    ((∃ fa, x.state = .dataSent fa ∧ ∃ fa', x'.state = .dataSent fa') ∨ (x'.state = x.state ∧ d = false)) := by
  unfold Send.ack at h
  osplit h
  · obtain ⟨rfl, _⟩ := h; exact ⟨rfl, Or.inl ⟨_, ‹_›, _, rfl⟩⟩
  · obtain ⟨rfl, rfl⟩ := h; exact ⟨rfl, Or.inr ⟨rfl, rfl⟩⟩

theorem Send.ack_ofSend {x x' : Send} {a e : Nat} {fin d : Bool} (h : x.ack a e fin = some (x', d)) :
    SendHalf.ofSend x' = SendHalf.ofSend x := by
  obtain ⟨h1, h2⟩ := Send.ack_half h
  unfold SendHalf.ofSend
  rcases h2 with ⟨fa, hs, fa', hs'⟩ | ⟨hs, _⟩
  · rw [hs, hs', h1]
  · rw [hs, h1]

/-! ### the operations that change a sending half -/

theorem fx_finish (s : State) (id : Nat) :
    ((s.finish id).2 = .ok () ∧ Grow (some id) none rel0 s.hv (s.finish id).1.hv ∧
      s.hv.sh id = .ready none ∧ (s.finish id).1.hv.sh id = .dataSent none) ∨
    ((s.finish id).2 ≠ .ok () ∧ (s.finish id).1.hv = s.hv) := by
  obtain ⟨t1, t2⟩ := finish_table s id
  unfold State.finish at t1 t2 ⊢
  split
  · right; exact ⟨by simp, rfl⟩
  · rename_i x s1 hg
    have e1 := hv_getOrInsertSend hg
    obtain ⟨_, hx1, _⟩ := getOrInsertSend_spec hg
    rw [hg] at t1 t2
    dsimp only at t1 t2 ⊢
    split
    · right; exact ⟨by simp, e1⟩
    · rename_i x' hf
      rw [hf] at t1 t2
      dsimp only at t1 t2
      left
      -- the table: success only from `ready none`
      have hr : absSend s id = .ready none := by
        generalize absSend s id = hh at t1 t2
        cases hh with
        | gone => simp [expectedFinish] at t1
        | ready c => cases c <;> simp [expectedFinish] at t1 ⊢
        | dataSent c => cases c <;> simp [expectedFinish] at t1
        | resetSent c => cases c <;> simp [expectedFinish] at t1
      rw [hr] at t2
      refine ⟨rfl, ?_, hr, ?_⟩
      · rw [← e1]
        split
        · exact grow_set rfl rfl rfl rfl rfl rfl
        · exact grow_set rfl rfl rfl rfl rfl rfl
      · exact t2

theorem fx_reset {s s' : State} {id code : Nat} {b : Bool} (h : s.reset id code = some (s', b)) :
    (b = true ∧ Grow (some id) none rel0 s.hv s'.hv ∧ (expectedReset (s.hv.sh id)).1 = true ∧
      s'.hv.sh id = (expectedReset (s.hv.sh id)).2) ∨
    (b = false ∧ s'.hv = s.hv) := by
  obtain ⟨t1, t2⟩ := reset_table h
  unfold State.reset at h
  osplit h
  · obtain ⟨rfl, rfl⟩ := h; right; exact ⟨rfl, rfl⟩
  · obtain ⟨rfl, rfl⟩ := h; right
    exact ⟨rfl, hv_getOrInsertSend ‹State.getOrInsertSend _ _ = some _›⟩
  · obtain ⟨rfl, rfl⟩ := h
    left
    have e1 := hv_getOrInsertSend ‹State.getOrInsertSend _ _ = some _›
    refine ⟨rfl, ?_, t1.symm, t2⟩
    rw [← e1]
    exact grow_set rfl rfl rfl rfl rfl rfl

theorem fx_stopSending (s : State) (id code : Nat) :
    ((s.receivedStopSending id code).hv = s.hv ∧ (s.receivedStopSending id code).fsw = s.fsw) ∨
    (Grow (some id) none rel0 s.hv (s.receivedStopSending id code).hv ∧
      expectedStopped (s.hv.sh id) = some none ∧
      expectedStopped ((s.receivedStopSending id code).hv.sh id) = some (some code) ∧
      ((s.receivedStopSending id code).hv.sh id).isDS = (s.hv.sh id).isDS ∧
      (s.receivedStopSending id code).fsw = s.fsw ++ [.stopped id code]) := by
  have hq := fsw_receivedStopSending s id code
  unfold State.receivedStopSending at hq ⊢
  split
  · left; exact ⟨rfl, rfl⟩
  · rename_i x s1 hg
    have e1 := hv_getOrInsertSend hg
    rw [hg] at hq
    dsimp only at hq ⊢
    cases hsr : x.stopReason with
    | some c =>
      left
      simp only [Send.tryStop, hsr, Bool.false_eq_true, ↓reduceIte] at hq ⊢
      exact ⟨e1, fsw_getOrInsertSend hg⟩
    | none =>
      right
      simp only [Send.tryStop, hsr, ↓reduceIte] at hq ⊢
      rcases hq with hq | ⟨q1, _, q3, q4⟩
      · -- the queue did grow
        exfalso
        have := fsw_getOrInsertSend hg
        rw [fsw_onStreamFrame] at hq
        simp only [State.fsw, State.putSend, List.filter_append] at hq this
        rw [this] at hq
        simp [isFinStop] at hq
      · refine ⟨?_, q3, q4, ?_, q1⟩
        · rw [hv_onStreamFrame, ← e1]
          exact grow_set rfl rfl rfl rfl rfl rfl
        · obtain ⟨_, hx1, _⟩ := getOrInsertSend_spec hg
          have a1 : s.hv.sh id = SendHalf.ofSend x := absSend_getOrInsert hg
          have a2 : (State.onStreamFrame { (s1.putSend id { x with stopReason := some code }) with
              events := s1.events ++ [Event.stopped id code] } false id).hv.sh id =
              SendHalf.ofSend { x with stopReason := some code } := by
            rw [hv_onStreamFrame]
            exact absSend_putSend hx1
          rw [a1, a2]
          unfold SendHalf.ofSend
          cases x.state <;> rfl

theorem fx_ack {s s' : State} {id a e : Nat} {fin : Bool} (ka : KeysAlloc s)
    (h : s.receivedAckOf id a e fin = some s') :
    (s'.hv = s.hv ∧ s'.fsw = s.fsw) ∨
    (∃ rel, Grow (some id) none rel s.hv s'.hv ∧
      (∃ x x', s.send.find? id = some (some x) ∧ x.ack a e fin = some (x', true)) ∧
      s'.hv.sh id = .gone ∧ s'.fsw = s.fsw ++ [.finished id] ∧ RelSpec s.hv id (!s.hv.rp id) rel) := by
  have hq := fsw_receivedAckOf h
  unfold State.receivedAckOf at h
  split at h
  · rename_i x hx
    split at h
    · simp only [Option.some.injEq] at h; subst h; exact Or.inl ⟨rfl, rfl⟩
    · split at h
      · contradiction
      · rename_i ua hua
        split at h
        · contradiction
        · rename_i x' done hack
          dsimp only at h
          split at h
          · rename_i hnd
            simp only [Option.some.injEq] at h; subst h; left
            have ha := Send.ack_ofSend hack
            refine ⟨hv_upd hx rfl ha rfl rfl rfl rfl rfl, ?_⟩
            rcases hq with hq | ⟨_, _, y, y', q1, q2⟩
            · exact hq
            · rw [hx] at q1; simp only [Option.some.injEq] at q1; subst q1
              rw [hack] at q2
              simp only [Option.some.injEq, Prod.mk.injEq] at q2
              rw [q2.2] at hnd; simp at hnd
          · rename_i hd
            split at h
            · contradiction
            · rename_i s2 hf
              simp only [Option.some.injEq] at h
              right
              simp only [Bool.not_eq_true'] at hd
              have hd2 := Bool.of_not_eq_false hd
              rw [hd2] at hack
              have hal : s.hv.allocd id :=
                ka id (Or.inl (by unfold absSend; rw [hx]; unfold SendHalf.ofSend; dsimp only; split <;> simp))
              have hs0 : Grow (some id) none rel0 s.hv ({ (s.putSend id x') with unackedData := ua } : State).hv :=
                grow_set rfl rfl rfl rfl rfl rfl
              obtain ⟨g0, rel, g, hr⟩ := site_send (s := { (s.putSend id x') with unackedData := ua }) hal hf
              subst h
              refine ⟨rel, hs0.trans g (fun d => by simp [rel0]), ⟨_, _, hx, hack⟩, g0, ?_, hr⟩
              rcases hq with hq | ⟨q, _⟩
              · exfalso
                have e1 := fsw_streamFreed hf
                simp only [State.fsw, List.filter_append] at e1 hq
                rw [e1] at hq
                simp [isFinStop, State.putSend] at hq
              · exact q
  · simp only [Option.some.injEq] at h; subst h; exact Or.inl ⟨rfl, rfl⟩

theorem fx_resetAcked {s s' : State} {id : Nat} (ka : KeysAlloc s) (h : s.resetAcked id = some s') :
    s' = s ∨
    (∃ rel, Grow (some id) none rel s.hv s'.hv ∧ (∃ c, s.hv.sh id = .resetSent c) ∧ s'.hv.sh id = .gone ∧
      RelSpec s.hv id (!s.hv.rp id) rel) := by
  unfold State.resetAcked at h
  osplit h
  · right
    have hx := ‹Map.find? s.send id = some (some _)›
    rename_i x _ hst
    have hsh : s.hv.sh id = .resetSent x.stopReason := by
      simp only [State.hv, absSend, hx, SendHalf.ofSend, hst]
    have hal : s.hv.allocd id := ka id (Or.inl (by rw [show absSend s id = s.hv.sh id from rfl, hsh]; simp))
    obtain ⟨g0, rel, g, hr⟩ := site_send hal h
    exact ⟨rel, g, ⟨_, hsh⟩, g0, hr⟩
  · exact Or.inl h.symm
  · exact Or.inl h.symm

/-! ### the operations that can drop a receiving half -/

/-- the view is unchanged, or the receiving half of `id` was dropped -/
def RecvFx (s s' : State) (id : Nat) : Prop :=
  s'.hv = s.hv ∨
  (s.hv.rp id = true ∧ s'.hv.rp id = false ∧
    ∃ rel, Grow none (some id) rel s.hv s'.hv ∧ RelSpec s.hv id (decide (s.hv.sh id = .gone)) rel)

theorem RecvFx.pre {s s1 s' : State} {id : Nat} (f : RecvFx s1 s' id) (e : s1.hv = s.hv) : RecvFx s s' id := by
  unfold RecvFx at f ⊢; rw [e] at f; exact f

theorem RecvFx.post {s s1 s' : State} {id : Nat} (f : RecvFx s s1 id) (e : s'.hv = s1.hv) : RecvFx s s' id := by
  unfold RecvFx at f ⊢; rw [e]; exact f

theorem contains_of_getOrInsertRecv {s s1 : State} {id : Nat} {rs : Recv}
    (h : s.getOrInsertRecv id = some (rs, s1)) : s.recv.contains id = true := by
  unfold State.getOrInsertRecv at h
  osplit h
  all_goals simp only [Map.contains, ‹Map.find? s.recv id = some _›]; rfl

theorem fx_freeRecvIf {s s' : State} {c : Bool} {id : Nat} (h : s.freeRecvIf c id = some s')
    (ha : s.hv.allocd id) (hp : s.recv.contains id = true) : RecvFx s s' id := by
  unfold State.freeRecvIf at h
  split at h
  · obtain ⟨g0, rel, g, hr⟩ := site_recv ha h
    exact Or.inr ⟨hp, g0, rel, g, hr⟩
  · simp only [Option.some.injEq] at h; subst h; exact Or.inl rfl

theorem allocd_of_getOrInsertRecv {s s1 : State} {id : Nat} {rs : Recv} (ka : KeysAlloc s)
    (h : s.getOrInsertRecv id = some (rs, s1)) : s1.hv.allocd id ∧ s1.recv.contains id = true := by
  have hp := contains_of_getOrInsertRecv h
  have e := hv_getOrInsertRecv h
  constructor
  · rw [e]; exact ka id (Or.inr hp)
  · have := congrFun (congrArg HV.rp e) id
    simp only [State.hv] at this
    rw [this]; exact hp

theorem hv_putRecv (s : State) (id : Nat) (r : Recv) : (s.putRecv id r).hv = s.hv :=
  hv_updR rfl rfl rfl rfl rfl rfl

theorem hv_putRecvD (s : State) (id : Nat) (r : Recv) (d : Nat) :
    ({ (s.putRecv id r) with dataRecvd := d } : State).hv = s.hv :=
  hv_updR rfl rfl rfl rfl rfl rfl

theorem hv_qss_put (s : State) (id : Nat) (r : Recv) (c : Bool) (code : Nat) :
    ((s.putRecv id r).queueStopSending c id code).hv = s.hv :=
  (hv_queueStopSending _ _ _ _).trans (hv_putRecv _ _ _)

theorem fx_freeRecvIf_of {s0 s s' : State} {c : Bool} {id : Nat} (h : s.freeRecvIf c id = some s')
    (e : s.hv = s0.hv) (ha : s0.hv.allocd id) (hp : s0.recv.contains id = true) : RecvFx s0 s' id := by
  refine RecvFx.pre (fx_freeRecvIf h (e ▸ ha) ?_) e
  have := congrFun (congrArg HV.rp e) id
  simp only [State.hv] at this
  rw [this]; exact hp

theorem fx_received {s s' : State} {id off len : Nat} {fin : Bool} {r : Except TErr Bool} (ka : KeysAlloc s)
    (h : s.received id off len fin = some (s', r)) : RecvFx s s' id := by
  unfold State.received at h
  osplit h
  all_goals obtain ⟨rfl, rfl⟩ := h
  all_goals first
    | exact Or.inl rfl
    | (have hg := ‹State.getOrInsertRecv _ _ = some _›
       have f1 := hv_getOrInsertRecv hg
       obtain ⟨ha, hp⟩ := allocd_of_getOrInsertRecv ka hg
       first
        | exact Or.inl f1
        | (refine Or.inl ((hv_onStreamFrame _ _ _).trans (Eq.trans ?_ f1))
           exact hv_updR rfl rfl rfl rfl rfl rfl)
        | (have f3 := hv_creditAndQueue ‹State.creditAndQueue _ _ = some _›
           have hfr := ‹State.freeRecvIf _ _ _ = some _›
           have ff := fx_freeRecvIf_of hfr (hv_putRecvD _ _ _ _) ha hp
           exact RecvFx.pre (RecvFx.post ff f3) f1))

theorem fx_receivedReset {s s' : State} {id code fo : Nat} {r : Except TErr Bool} (ka : KeysAlloc s)
    (h : s.receivedReset id code fo = some (s', r)) : RecvFx s s' id := by
  unfold State.receivedReset at h
  osplit h
  all_goals obtain ⟨rfl, rfl⟩ := h
  all_goals first
    | exact Or.inl rfl
    | (have hg := ‹State.getOrInsertRecv _ _ = some _›
       have f1 := hv_getOrInsertRecv hg
       obtain ⟨ha, hp⟩ := allocd_of_getOrInsertRecv ka hg
       first
        | exact Or.inl f1
        | (have hfr := ‹State.freeRecvIf _ _ _ = some _›
           have ff := fx_freeRecvIf_of hfr (hv_putRecv _ _ _) ha hp
           have ff2 := RecvFx.pre ff f1
           first
            | exact RecvFx.post ff2 (hv_onStreamFrame _ _ _)
            | (have f3 := hv_creditAndQueue ‹State.creditAndQueue _ _ = some _›
               exact RecvFx.post ff2 (f3.trans (hv_onStreamFrame _ _ _)))))

theorem fx_stop {s s' : State} {id code : Nat} {b : Bool} (ka : KeysAlloc s)
    (h : s.stop id code = some (s', b)) : RecvFx s s' id := by
  unfold State.stop at h
  osplit h
  all_goals obtain ⟨rfl, rfl⟩ := h
  all_goals first
    | exact Or.inl rfl
    | (have hg := ‹State.getOrInsertRecv _ _ = some _›
       have f1 := hv_getOrInsertRecv hg
       obtain ⟨ha, hp⟩ := allocd_of_getOrInsertRecv ka hg
       first
        | exact Or.inl f1
        | (have f3 := hv_creditAndQueue ‹State.creditAndQueue _ _ = some _›
           have f2q := hv_queueMaxIf ‹State.queueMaxIf _ _ = some _›
           have hfr := ‹State.freeRecvIf _ _ _ = some _›
           have ff := fx_freeRecvIf_of hfr (hv_qss_put _ _ _ _ _) ha hp
           exact RecvFx.pre (RecvFx.post ff (f3.trans f2q)) f1))

theorem fx_recvReceivedReset {s s' : State} {id : Nat} {r : Option (Option Nat)} (ka : KeysAlloc s)
    (h : s.recvReceivedReset id = some (s', r)) : RecvFx s s' id := by
  unfold State.recvReceivedReset at h
  osplit h
  all_goals obtain ⟨rfl, rfl⟩ := h
  all_goals first
    | exact Or.inl rfl
    | (have hx := ‹Map.find? s.recv id = some (some _)›
       have hp : s.recv.contains id = true := by simp only [Map.contains, hx]; rfl
       obtain ⟨g0, rel, g, hr⟩ := site_recv (ka id (Or.inr hp)) ‹State.streamRecvFreed _ _ = some _›
       have f3 := hv_queueMaxStreamId ‹State.queueMaxStreamId _ = some _›
       exact RecvFx.post (s1 := _) (Or.inr ⟨hp, g0, rel, g, hr⟩) f3)

theorem hv_finalizeReadable_freed {s s' : State} {id : Nat} {rs : Recv} {t0 t : Bool}
    (h : s.finalizeReadable id rs true t0 = some (s', t)) : s' = s := by
  unfold State.finalizeReadable at h
  simp only [↓reduceIte, Option.some.injEq, Prod.mk.injEq] at h
  exact h.1.symm

/-- a read that does not free the half puts it back -/
theorem hv_finalizeReadable_back {s0 s s' : State} {id : Nat} {rs : Recv} {t0 t : Bool}
    (hp : s0.recv.contains id = true) (hs : s.hv = ({ s0 with recv := s0.recv.erase id } : State).hv)
    (hr : s.recv = s0.recv.erase id)
    (h : s.finalizeReadable id rs false t0 = some (s', t)) : s'.hv = s0.hv := by
  unfold State.finalizeReadable at h
  simp only [Bool.false_eq_true, ↓reduceIte] at h
  split at h
  · contradiction
  · simp only [Option.some.injEq, Prod.mk.injEq] at h
    rw [← h.1]
    have e : ∀ (r : Rtx), ({ s with rtx := r, recv := (id, some rs) :: s.recv } : State).hv =
        ⟨s.hv.side, s.hv.next, s.hv.maxRemote, s.hv.alloc, s.hv.sh,
          fun k => decide (id = k) || s.recv.contains k⟩ := by
      intro r
      simp only [State.hv, HV.mk.injEq, true_and]
      refine ⟨rfl, ?_⟩
      funext k; exact contains_cons _ _ _ _
    rw [e, hs, hr]
    simp only [State.hv, HV.mk.injEq, true_and]
    refine ⟨rfl, ?_⟩
    funext k
    by_cases hk : id = k
    · subst hk; simp [hp]
    · have : k ≠ id := fun hh => hk hh.symm
      simp [hk, contains_erase_ne _ this]

theorem fx_read {s s' : State} {id budget : Nat} {r : ReadRes} (ka : KeysAlloc s)
    (h : s.read id budget = some (s', r)) : RecvFx s s' id := by
  unfold State.read at h
  split at h
  · simp only [Option.some.injEq, Prod.mk.injEq] at h; rw [← h.1]; exact Or.inl rfl
  · rename_i rs s1 hg
    have f1 := hv_getOrInsertRecv hg
    obtain ⟨ha, hp⟩ := allocd_of_getOrInsertRecv ka hg
    split at h
    · simp only [Option.some.injEq, Prod.mk.injEq] at h; rw [← h.1]; exact Or.inl f1
    · dsimp only at h
      split at h
      · contradiction
      · rename_i end_ freed hre
        split at h
        · contradiction
        · rename_i s3 hfree
          split at h
          · contradiction
          · rename_i s4 t0 hq
            split at h
            · contradiction
            · rename_i s5 t01 hfin
              split at h
              · contradiction
              · rename_i s6 t2 harc
                simp only [Option.some.injEq, Prod.mk.injEq] at h
                rw [← h.1]
                have f4 := hv_queueMaxStreamId hq
                have f6 := hv_addReadCredits harc
                have e6 : ({ s6 with rtx := { s6.rtx with maxData := s6.rtx.maxData || t2 } } : State).hv = s5.hv := f6
                refine RecvFx.pre (RecvFx.post ?_ e6) f1
                cases freed with
                | true =>
                  have := hv_finalizeReadable_freed hfin
                  subst this
                  refine RecvFx.post ?_ f4
                  unfold State.freeIf at hfree
                  simp only [↓reduceIte] at hfree
                  obtain ⟨g0, rel, g, hr⟩ := site_recv ha hfree
                  exact Or.inr ⟨hp, g0, rel, g, hr⟩
                | false =>
                  unfold State.freeIf at hfree
                  simp only [Bool.false_eq_true, ↓reduceIte, Option.some.injEq] at hfree
                  subst hfree
                  left
                  have hr4 : s4.recv = s1.recv.erase id := by
                    unfold State.queueMaxStreamId at hq
                    osplit hq
                    all_goals rw [← hq.1]
                  exact hv_finalizeReadable_back hp f4 hr4 hfin

/-! ### `open` -/

theorem g_open {s s' : State} {d : Dir} {r : Option Nat} (h : s.open_ d = some (s', r)) : G s s' := by
  unfold State.open_ at h
  osplit h
  · obtain ⟨rfl, _⟩ := h; exact G.refl _
  · obtain ⟨rfl, _⟩ := h; exact G.of_hv rfl
  · rename_i s2 hins
    obtain ⟨rfl, _⟩ := h
    have hidx : (s.next.set d (s.next.get d + 1)).get d - 1 = s.next.get d := by
      simp only [Two.get_set, ↓reduceIte]; omega
    rw [hidx] at hins
    have e := insert_only_maps hins
    have hh := insert_halves hins
    have hloc : sidInitiator (sidNew s.side d (s.next.get d)) = s.side := sidInitiator_sidNew _ _ _
    have fresh : ¬ s.hv.allocd (sidNew s.side d (s.next.get d)) ∧
        HV.allocd ⟨s.side, s.next.set d (s.next.get d + 1), s.maxRemote, s.allocatedRemoteCount, absSend s,
          fun _ => false⟩ (sidNew s.side d (s.next.get d)) := by
      simp only [HV.allocd, State.hv, hloc, ↓reduceIte, sidDir_sidNew, sidIndex_sidNew, Two.get_set]
      omega
    have es : s2.side = s.side := by rw [e]
    have en : s2.next = s.next.set d (s.next.get d + 1) := by rw [e]
    have em : s2.maxRemote = s.maxRemote := by rw [e]
    have ea : s2.allocatedRemoteCount = s.allocatedRemoteCount := by rw [e]
    refine ⟨es, fun d' => ?_, fun d' => by simp only [State.hv, em]; exact Nat.le_refl _,
      fun d' => by simp only [State.hv, em, ea, rel0]; omega, fun k _ => ?_, fun k _ => ?_⟩
    · simp only [State.hv, en, Two.get_set]; split
      · subst_vars; omega
      · exact Nat.le_refl _
    · rcases (hh k).1 with e1 | ⟨rfl, g1, r1, _⟩
      · exact Or.inl e1
      · refine Or.inr ⟨g1, fresh.1, ?_, r1, Or.inr hloc⟩
        simpa only [HV.allocd, State.hv, es, en, em] using fresh.2
    · rcases (hh k).2 with e1 | ⟨rfl, g1, r1⟩
      · exact Or.inl e1
      · refine Or.inr ⟨g1, fresh.1, ?_, r1⟩
        simpa only [HV.allocd, State.hv, es, en, em] using fresh.2

/-! ### every operation -/

theorem hq_of {s s' : State} {o : Op}
    (ev : s'.fsw = s.fsw ∨
      (o = .poll ∧ ∃ ev, s.fsw = ev :: s'.fsw) ∨
      (∃ id a e fin, o = .ack id a e fin ∧ s'.fsw = s.fsw ++ [.finished id] ∧ s'.cv id = none ∧
        ∃ x x', s.send.find? id = some (some x) ∧ x.ack a e fin = some (x', true)) ∨
      (∃ id code, o = .stopSending id code ∧ s'.fsw = s.fsw ++ [.stopped id code] ∧
        expectedStopped (absSend s id) = some none ∧ expectedStopped (absSend s' id) = some (some code)))
    (h1 : ∀ id a e fin, o ≠ .ack id a e fin) (h2 : ∀ id c, o ≠ .stopSending id c) :
    s'.fsw = s.fsw ∨ o = .poll := by
  rcases ev with e | ⟨e, _⟩ | ⟨id, a, e, fin, ho, _⟩ | ⟨id, c, ho, _⟩
  · exact Or.inl e
  · exact Or.inr e
  · exact absurd ho (h1 _ _ _ _)
  · exact absurd ho (h2 _ _)

theorem fx_step {s s' : State} {o : Op} {out : Out} (ka : KeysAlloc s) (h : step s o = some (s', out))
    (hr : o.isRestart = false) : Fx s s' o out := by
  cases o <;> simp [Op.isRestart] at hr
  all_goals have ev := hq_of (events_step h (by rfl))
  case params p => unstep h; obtain ⟨rfl, _⟩ := h; exact .grow (G.of_hv (hv_setParams s p)) (ev (by simp) (by simp))
  case conn c => unstep h; obtain ⟨rfl, _⟩ := h; exact .grow (G.of_hv rfl) (ev (by simp) (by simp))
  case open_ d => unstep h; obtain ⟨s1, r, h1, h2, _⟩ := h; subst h2; exact .grow (g_open h1) (ev (by simp) (by simp))
  case accept d => unstep h; obtain ⟨rfl, _⟩ := h; exact .grow (G.of_hv (hv_accept s d)) (ev (by simp) (by simp))
  case write id n => unstep h; obtain ⟨s1, r, h1, h2, _⟩ := h; subst h2; exact .grow (G.of_hv (hv_write h1)) (ev (by simp) (by simp))
  case finish id =>
    unstep h; obtain ⟨rfl, rfl⟩ := h
    rcases fx_finish s id with ⟨a, g, b, c⟩ | ⟨a, e⟩
    · exact .finish id rfl (by rw [a]) g b c ((ev (by simp) (by simp)).resolve_right (by simp))
    · exact .grow (G.of_hv e) (ev (by simp) (by simp))
  case reset id code =>
    unstep h; obtain ⟨s1, b, h1, h2, h3⟩ := h; subst h2; subst h3
    rcases fx_reset h1 with ⟨rfl, g, c, d⟩ | ⟨_, e⟩
    · exact .reset id code rfl rfl g c d ((ev (by simp) (by simp)).resolve_right (by simp))
    · exact .grow (G.of_hv e) (ev (by simp) (by simp))
  case stopped id => unstep h; obtain ⟨rfl, _⟩ := h; exact .grow (G.refl _) (ev (by simp) (by simp))
  case prio id p => unstep h; obtain ⟨rfl, _⟩ := h; exact .grow (G.of_hv (hv_setPriority (b := (s.setPriority id p).2) rfl)) (ev (by simp) (by simp))
  case stream id off len fin =>
    unstep h; obtain ⟨s1, r, h1, h2, _⟩ := h; subst h2
    rcases fx_received ka h1 with e | ⟨a, b, rel, g, hrel⟩
    · exact .grow (G.of_hv e) (ev (by simp) (by simp))
    · exact .recvFreed id (Or.inr (Or.inr (Or.inr (Or.inl ⟨_, _, _, rfl⟩)))) rel g a b hrel ((ev (by simp) (by simp)).resolve_right (by simp))
  case rst id code fo =>
    unstep h; obtain ⟨s1, r, h1, h2, _⟩ := h; subst h2
    rcases fx_receivedReset ka h1 with e | ⟨a, b, rel, g, hrel⟩
    · exact .grow (G.of_hv e) (ev (by simp) (by simp))
    · exact .recvFreed id (Or.inr (Or.inr (Or.inr (Or.inr ⟨_, _, rfl⟩)))) rel g a b hrel ((ev (by simp) (by simp)).resolve_right (by simp))
  case stopSending id code =>
    unstep h; obtain ⟨rfl, _⟩ := h
    rcases fx_stopSending s id code with ⟨e, eq⟩ | ⟨g, a, b, c, d⟩
    · exact .grow (G.of_hv e) (Or.inl eq)
    · exact .stopSending id code rfl g a b c d
  case maxData n => unstep h; obtain ⟨rfl, _⟩ := h; exact .grow (G.of_hv rfl) (ev (by simp) (by simp))
  case maxStreamData id n =>
    unstep h; obtain ⟨s1, e, h1, h2, _⟩ := h; subst h2; exact .grow (G.of_hv (hv_receivedMaxStreamData h1)) (ev (by simp) (by simp))
  case maxStreams d n => unstep h; obtain ⟨rfl, _⟩ := h; exact .grow (G.of_hv (hv_receivedMaxStreams s d n)) (ev (by simp) (by simp))
  case ack id a e fin =>
    unstep h; obtain ⟨s1, h1, h2, _⟩ := h; subst h2
    rcases fx_ack ka h1 with ⟨e, eq⟩ | ⟨rel, g, hx, hg, hq, hrel⟩
    · exact .grow (G.of_hv e) (Or.inl eq)
    · exact .finished id a e fin rfl rel g hx hg hq hrel
  case lost id a e fin => unstep h; obtain ⟨s1, h1, h2, _⟩ := h; subst h2; exact .grow (G.of_hv (hv_retransmit h1)) (ev (by simp) (by simp))
  case rstAck id =>
    unstep h; obtain ⟨s1, h1, h2, _⟩ := h; subst h2
    rcases fx_resetAcked ka h1 with e | ⟨rel, g, a, b, hrel⟩
    · rw [e]; exact .grow (G.refl _) (Or.inl rfl)
    · exact .resetAcked id rfl rel g a b hrel ((ev (by simp) (by simp)).resolve_right (by simp))
  case read id b =>
    unstep h; obtain ⟨s1, r, h1, h2, _⟩ := h; subst h2
    rcases fx_read ka h1 with e | ⟨a, b, rel, g, hrel⟩
    · exact .grow (G.of_hv e) (ev (by simp) (by simp))
    · exact .recvFreed id (Or.inl ⟨_, rfl⟩) rel g a b hrel ((ev (by simp) (by simp)).resolve_right (by simp))
  case stop id code =>
    unstep h; obtain ⟨s1, b, h1, h2, _⟩ := h; subst h2
    rcases fx_stop ka h1 with e | ⟨a, b, rel, g, hrel⟩
    · exact .grow (G.of_hv e) (ev (by simp) (by simp))
    · exact .recvFreed id (Or.inr (Or.inl ⟨_, rfl⟩)) rel g a b hrel ((ev (by simp) (by simp)).resolve_right (by simp))
  case recvReset id =>
    unstep h; obtain ⟨s1, r, h1, h2, _⟩ := h; subst h2
    rcases fx_recvReceivedReset ka h1 with e | ⟨a, b, rel, g, hrel⟩
    · exact .grow (G.of_hv e) (ev (by simp) (by simp))
    · exact .recvFreed id (Or.inr (Or.inr (Or.inl rfl))) rel g a b hrel ((ev (by simp) (by simp)).resolve_right (by simp))
  case poll => unstep h; obtain ⟨s1, e, h1, h2, _⟩ := h; subst h2; exact .grow (G.of_hv (hv_poll h1)) (ev (by simp) (by simp))
  case transmit mb fair =>
    unstep h; obtain ⟨s1, l, fs, h1, h2, _⟩ := h; subst h2
    exact .grow (G.of_hv (hv_writeStreamFrames _ _ _ h1)) (ev (by simp) (by simp))
  case canSend => unstep h; obtain ⟨rfl, _⟩ := h; exact .grow (G.refl _) (ev (by simp) (by simp))
  case canFlow id => unstep h; obtain ⟨rfl, _⟩ := h; exact .grow (G.refl _) (ev (by simp) (by simp))
  case ctrl =>
    unstep h; obtain ⟨s1, fs, h1, h2, _⟩ := h; subst h2; exact .grow (G.of_hv (hv_writeControlFrames h1)) (ev (by simp) (by simp))
  case queueMaxStreamId =>
    unstep h; obtain ⟨s1, b, h1, h2, _⟩ := h; subst h2; exact .grow (G.of_hv (hv_queueMaxStreamId h1)) (ev (by simp) (by simp))
  case pendMaxData => unstep h; obtain ⟨rfl, _⟩ := h; exact .grow (G.of_hv rfl) (ev (by simp) (by simp))
  case pendMaxStreamData id => unstep h; obtain ⟨rfl, _⟩ := h; exact .grow (G.of_hv rfl) (ev (by simp) (by simp))
  case pendMaxStreamId d => unstep h; obtain ⟨rfl, _⟩ := h; exact .grow (G.of_hv rfl) (ev (by simp) (by simp))
  case sendWindow n => unstep h; obtain ⟨rfl, _⟩ := h; exact .grow (G.of_hv rfl) (ev (by simp) (by simp))
  case recvWindow n => unstep h; obtain ⟨rfl, _⟩ := h; exact .grow (G.of_hv (hv_setReceiveWindow s n)) (ev (by simp) (by simp))
  case maxConcurrent d n =>
    unstep h; obtain ⟨s1, h1, h2, _⟩ := h; subst h2; exact .grow (g_setMaxConcurrent h1) (ev (by simp) (by simp))
  case rtx0 => unstep h; obtain ⟨s1, h1, h2, _⟩ := h; subst h2; exact .grow (G.of_hv (hv_retransmitAllFor0rtt h1)) (ev (by simp) (by simp))
  case view => unstep h; obtain ⟨rfl, _⟩ := h; exact .grow (G.refl _) (ev (by simp) (by simp))

/-- what `Fx` allows for the sending half that is not covered by growth -/
def SendTr (h h' : SendHalf) : Prop :=
  h ≠ .gone ∧ (h' = .gone ∨ expectedStopped h = some none ∨ expectedStopped h' = expectedStopped h)

theorem Fx.core {s s' : State} {o : Op} {out : Out} (f : Fx s s' o out) :
    ∃ xs xr rel, Grow xs xr rel s.hv s'.hv ∧ (∀ id, xs = some id → SendTr (s.hv.sh id) (s'.hv.sh id)) ∧
      (∀ id, xr = some id → s.hv.rp id = true ∧ s'.hv.rp id = false) := by
  cases f with
  | grow g _ => exact ⟨none, none, rel0, g, (fun _ hh => by cases hh), (fun _ hh => by cases hh)⟩
  | finish id ho hout g h1 h2 _ =>
    refine ⟨some id, none, rel0, g, fun k hk => ?_, (fun _ hh => by cases hh)⟩
    cases hk; rw [h1, h2]; exact ⟨by simp, Or.inr (Or.inl rfl)⟩
  | reset id code ho hout g h1 h2 _ =>
    refine ⟨some id, none, rel0, g, fun k hk => ?_, (fun _ hh => by cases hh)⟩
    cases hk; rw [h2]
    generalize s.hv.sh id = hh at h1
    cases hh <;> simp [expectedReset, SendTr, expectedStopped] at h1 ⊢
  | stopSending id code ho g h1 h2 _ hq =>
    refine ⟨some id, none, rel0, g, fun k hk => ?_, (fun _ hh => by cases hh)⟩
    cases hk
    refine ⟨fun hh => ?_, Or.inr (Or.inl h1)⟩
    rw [hh] at h1; simp [expectedStopped] at h1
  | finished id a e fin ho rel g h1 h2 hq hrel =>
    refine ⟨some id, none, rel, g, fun k hk => ?_, (fun _ hh => by cases hh)⟩
    cases hk
    obtain ⟨x, x', hx, _⟩ := h1
    refine ⟨?_, Or.inl h2⟩
    simp only [State.hv, absSend, hx, SendHalf.ofSend]; split <;> simp
  | resetAcked id ho rel g h1 h2 hrel _ =>
    refine ⟨some id, none, rel, g, fun k hk => ?_, (fun _ hh => by cases hh)⟩
    cases hk
    obtain ⟨c, hc⟩ := h1
    exact ⟨by rw [hc]; simp, Or.inl h2⟩
  | recvFreed id ho rel g h1 h2 hrel _ =>
    exact ⟨none, some id, rel, g, (fun _ hh => by cases hh), (fun k hk => by cases hk; exact ⟨h1, h2⟩)⟩

end QM.Streams
