import QuinnModel.Lemmas.StreamsC17
/-
The 0-RTT phase: before the handshake completes only the application acts (on streams it opened
itself) and data is (re)transmitted.  In such histories every key of the send map is a stream this
endpoint opened (index below `next`) or a still untouched peer stream; so `zero_rtt_rejected`
followed by `set_params p` leaves exactly the sender view of a fresh state with `set_params p`.
-/
namespace QM.Streams
set_option pp.structureInstances false

/-- operations that can happen before the handshake is complete (`side` = this endpoint) -/
def EarlyOp (side : Side) : Op → Prop
  | .params _ | .open_ _ | .transmit _ _ | .poll | .canSend | .view | .sendWindow _ | .rtx0 | .conn _ => True
  | .write id _ | .finish id | .reset id _ | .prio id _ | .stopped id => sidInitiator id = side
  | _ => False

instance (side : Side) (o : Op) : Decidable (EarlyOp side o) := by
  cases o <;> unfold EarlyOp <;> infer_instance

/-- every key of the send map is a locally opened stream or an untouched peer stream -/
def EarlyInv (s : State) : Prop :=
  ∀ id, s.send.find? id ≠ none →
    (sidInitiator id = s.side ∧ sidIndex id < s.next.get (sidDir id)) ∨
    (sidInitiator id ≠ s.side ∧ s.send.find? id = some none)

/-- the send map has the same keys, and the same keys are uninstantiated -/
def SameShape (m m' : Map (Option Send)) : Prop :=
  ∀ k, (m'.find? k = none ↔ m.find? k = none) ∧ (m'.find? k = some none ↔ m.find? k = some none)

theorem SameShape.refl (m : Map (Option Send)) : SameShape m m := fun _ => ⟨Iff.rfl, Iff.rfl⟩

theorem SameShape.trans {a b c : Map (Option Send)} (h1 : SameShape a b) (h2 : SameShape b c) : SameShape a c :=
  fun k => ⟨(h2 k).1.trans (h1 k).1, (h2 k).2.trans (h1 k).2⟩

/-- replacing an instantiated half keeps the shape -/
theorem sameShape_set {m : Map (Option Send)} {id : Nat} {x x' : Send} (hx : m.find? id = some (some x)) :
    SameShape m (m.set id (some x')) := by
  intro k
  by_cases hk : k = id
  · subst hk; rw [Map.find?_set_self _ _ _ _ hx, hx]; simp
  · rw [Map.find?_set_ne _ _ _ _ hk]; exact ⟨Iff.rfl, Iff.rfl⟩

theorem EarlyInv.of_shape {s s' : State} (i : EarlyInv s) (hs : SameShape s.send s'.send)
    (hside : s'.side = s.side) (hnext : s'.next = s.next) : EarlyInv s' := by
  intro id hne
  have hk := hs id
  rw [hside, hnext]
  rcases i id (fun h => hne (hk.1.mpr h)) with h | ⟨h1, h2⟩
  · exact Or.inl h
  · exact Or.inr ⟨h1, hk.2.mpr h2⟩

/-- touching only the (local) key `id`, which stays a key -/
theorem EarlyInv.of_touch {s s' : State} {id : Nat} (i : EarlyInv s) (hl : sidInitiator id = s.side)
    (hoth : ∀ k, k ≠ id → s'.send.find? k = s.send.find? k)
    (hid : s'.send.find? id ≠ none → s.send.find? id ≠ none)
    (hside : s'.side = s.side) (hnext : s'.next = s.next) : EarlyInv s' := by
  intro k hne
  rw [hside, hnext]
  by_cases hk : k = id
  · subst hk
    rcases i k (hid hne) with h | ⟨h1, _⟩
    · exact Or.inl h
    · exact absurd hl h1
  · rw [hoth k hk] at hne ⊢; exact i k hne

theorem getOrInsertSend_touch {s s1 : State} {id : Nat} {x : Send} (h : s.getOrInsertSend id = some (x, s1)) :
    (∀ k, k ≠ id → s1.send.find? k = s.send.find? k) ∧ s.send.find? id ≠ none ∧
    s1.send.find? id = some (some x) ∧ s1.side = s.side ∧ s1.next = s.next := by
  unfold State.getOrInsertSend at h
  osplit h
  · obtain ⟨rfl, rfl⟩ := h
    have hy := ‹Map.find? s.send id = some (some _)›
    exact ⟨fun _ _ => rfl, by rw [hy]; simp, hy, rfl, rfl⟩
  · obtain ⟨rfl, rfl⟩ := h
    have hy := ‹Map.find? s.send id = some none›
    exact ⟨fun k hk => Map.find?_set_ne _ _ _ _ hk, by rw [hy]; simp, Map.find?_set_self _ _ _ _ hy, rfl, rfl⟩

theorem putSend_touch {s : State} {id : Nat} {x x' : Send} (hx : s.send.find? id = some (some x)) :
    (∀ k, k ≠ id → (s.putSend id x').send.find? k = s.send.find? k) ∧
    (s.putSend id x').send.find? id = some (some x') :=
  ⟨fun k hk => Map.find?_set_ne _ _ _ _ hk, Map.find?_set_self _ _ _ _ hx⟩

/-! ### each early operation keeps the invariant -/

theorem early_getput {s s1 s' : State} {id : Nat} {x x' : Send} (i : EarlyInv s) (hl : sidInitiator id = s.side)
    (hg : s.getOrInsertSend id = some (x, s1)) (hsend : s'.send = (s1.putSend id x').send)
    (hside : s'.side = s.side) (hnext : s'.next = s.next) : EarlyInv s' := by
  obtain ⟨g1, g2, g3, _, _⟩ := getOrInsertSend_touch hg
  obtain ⟨p1, p2⟩ := putSend_touch (x' := x') g3
  refine i.of_touch hl ?_ (fun _ => g2) hside hnext
  intro k hk; rw [hsend, p1 k hk, g1 k hk]

theorem early_get {s s1 s' : State} {id : Nat} {x : Send} (i : EarlyInv s) (hl : sidInitiator id = s.side)
    (hg : s.getOrInsertSend id = some (x, s1)) (hsend : s'.send = s1.send)
    (hside : s'.side = s.side) (hnext : s'.next = s.next) : EarlyInv s' := by
  obtain ⟨g1, g2, _, _, _⟩ := getOrInsertSend_touch hg
  refine i.of_touch hl ?_ (fun _ => g2) hside hnext
  intro k hk; rw [hsend, g1 k hk]

theorem early_write {s s' : State} {id n : Nat} {r : Except WriteErr Nat} (h : s.write id n = some (s', r))
    (i : EarlyInv s) (hl : sidInitiator id = s.side) : EarlyInv s' := by
  unfold State.write at h
  osplit h
  all_goals first
    | (obtain ⟨rfl, _⟩ := h; exact i)
    | (have hg := ‹State.getOrInsertSend _ _ = some _›
       obtain ⟨_, _, _, hs1, hn1⟩ := getOrInsertSend_touch hg
       obtain ⟨rfl, _⟩ := h
       first
        | exact early_get i hl hg rfl hs1 hn1
        | exact early_getput i hl hg rfl hs1 hn1)

theorem early_finish {s s' : State} {id : Nat} {r : Except WriteErr Unit} (h : s.finish id = (s', r))
    (i : EarlyInv s) (hl : sidInitiator id = s.side) : EarlyInv s' := by
  unfold State.finish at h
  osplit h
  all_goals first
    | (obtain ⟨rfl, _⟩ := h; exact i)
    | (have hg := ‹State.getOrInsertSend _ _ = some _›
       obtain ⟨_, _, _, hs1, hn1⟩ := getOrInsertSend_touch hg
       obtain ⟨rfl, _⟩ := h
       first
        | exact early_get i hl hg rfl hs1 hn1
        | exact early_getput i hl hg rfl hs1 hn1)

theorem early_reset {s s' : State} {id code : Nat} {b : Bool} (h : s.reset id code = some (s', b))
    (i : EarlyInv s) (hl : sidInitiator id = s.side) : EarlyInv s' := by
  unfold State.reset at h
  osplit h
  all_goals first
    | (obtain ⟨rfl, _⟩ := h; exact i)
    | (have hg := ‹State.getOrInsertSend _ _ = some _›
       obtain ⟨_, _, _, hs1, hn1⟩ := getOrInsertSend_touch hg
       obtain ⟨rfl, _⟩ := h
       first
        | exact early_get i hl hg rfl hs1 hn1
        | exact early_getput i hl hg rfl hs1 hn1)

theorem early_setPriority {s s' : State} {id : Nat} {p : Int} {b : Bool} (h : s.setPriority id p = (s', b))
    (i : EarlyInv s) (hl : sidInitiator id = s.side) : EarlyInv s' := by
  unfold State.setPriority at h
  osplit h
  all_goals first
    | (obtain ⟨rfl, _⟩ := h; exact i)
    | (have hg := ‹State.getOrInsertSend _ _ = some _›
       obtain ⟨_, _, _, hs1, hn1⟩ := getOrInsertSend_touch hg
       obtain ⟨rfl, _⟩ := h
       exact early_getput i hl hg rfl hs1 hn1)

theorem sameShape_putSend {s : State} {id : Nat} {x x' : Send} (hx : s.send.find? id = some (some x)) :
    SameShape s.send (s.putSend id x').send := sameShape_set hx

theorem setParamsLoop_shape (side : Side) (v : Nat) : ∀ (n : Nat) (send : Map (Option Send)) (i : Nat),
    SameShape send (setParamsLoop side v send n i) := by
  intro n
  induction n with
  | zero => intro send i; exact SameShape.refl _
  | succ n ih =>
    intro send i
    unfold setParamsLoop
    dsimp only
    split
    · rename_i snd hs
      exact (sameShape_set hs).trans (ih _ _)
    · exact ih _ _

theorem early_setParams (s : State) (p : Params) (i : EarlyInv s) : EarlyInv (s.setParams p) :=
  i.of_shape (setParamsLoop_shape _ _ _ _ _) rfl rfl

theorem shape_writeStreamFrames (maxBuf : Nat) (fair : Bool) : ∀ (fuel : Nat) {s s' : State}
    {bl bl' : Nat} {acc fs : List SentFrame},
    s.writeStreamFrames maxBuf fair fuel bl acc = some (s', bl', fs) → SameShape s.send s'.send := by
  intro fuel
  induction fuel with
  | zero => intro s s' bl bl' acc fs h; simp [State.writeStreamFrames] at h; rw [← h.1]; exact SameShape.refl _
  | succ n ih =>
    intro s s' bl bl' acc fs h
    unfold State.writeStreamFrames at h
    osplit h
    all_goals first
      | (obtain ⟨rfl, _⟩ := h; exact SameShape.refl _)
      | via ih h
      | (have hx := ‹Map.find? _ _ = some (some _)›
         have h2 := ih h
         exact (sameShape_putSend hx).trans h2)

theorem shape_pollBlocked : ∀ (fuel : Nat) {s s' : State} {e : Option Event},
    s.pollBlocked fuel = some (s', e) → SameShape s.send s'.send := by
  intro fuel
  induction fuel with
  | zero => intro s s' e h; simp [State.pollBlocked] at h; rw [← h.1]; exact SameShape.refl _
  | succ n ih =>
    intro s s' e h
    unfold State.pollBlocked at h
    osplit h
    all_goals first
      | (obtain ⟨rfl, _⟩ := h; exact SameShape.refl _)
      | (have hx := ‹Map.find? _ _ = some (some _)›
         first
          | (obtain ⟨rfl, _⟩ := h; exact sameShape_putSend hx)
          | (have h2 := ih h; exact (sameShape_putSend hx).trans h2))
      | via ih h

theorem shape_poll {s s' : State} {e : Option Event} (h : s.poll = some (s', e)) : SameShape s.send s'.send := by
  unfold State.poll at h
  osplit h
  all_goals first
    | (obtain ⟨rfl, _⟩ := h; exact SameShape.refl _)
    | (have hp := ‹State.pollBlockedIf _ _ = some _›
       have hpb : ∀ c s1 e1, s.pollBlockedIf c = some (s1, e1) → SameShape s.send s1.send := by
         intro c s1 e1 hh
         unfold State.pollBlockedIf at hh
         split at hh
         · exact shape_pollBlocked _ hh
         · simp only [Option.some.injEq, Prod.mk.injEq] at hh; rw [← hh.1]; exact SameShape.refl _
       have h1 := hpb _ _ _ hp
       obtain ⟨rfl, _⟩ := h
       exact h1)

theorem shape_rtx0Loop (dir : Dir) : ∀ (n : Nat) {s s' : State} {i : Nat},
    s.rtx0Loop dir n i = some s' → SameShape s.send s'.send := by
  intro n
  induction n with
  | zero => intro s s' i h; simp [State.rtx0Loop] at h; subst h; exact SameShape.refl _
  | succ n ih =>
    intro s s' i h
    unfold State.rtx0Loop at h
    osplit h
    all_goals first
      | exact ih h
      | (have hx := ‹Map.find? s.send _ = some (some _)›
         have h2 := ih h
         exact (sameShape_putSend hx).trans h2)

theorem insert_false_send {s s2 : State} {id : Nat} (h : s.insert false id = some s2) :
    (∀ k, s2.send.find? k = if id = k then some none else s.send.find? k) ∧
    s2.side = s.side ∧ s2.next = s.next := by
  have hm := insert_only_maps h
  refine ⟨?_, by rw [hm], by rw [hm]⟩
  intro k
  unfold State.insert at h
  osplit h
  rw [← h]
  have hs := ‹mapInsertIf _ s.send _ = some _›
  unfold mapInsertIf at hs
  simp only [Bool.not_false, Bool.or_true, ↓reduceIte] at hs
  exact Map.find?_insertNew _ _ _ _ _ hs

theorem early_open {s s' : State} {d : Dir} {r : Option Nat} (h : s.open_ d = some (s', r)) (i : EarlyInv s) :
    EarlyInv s' := by
  unfold State.open_ at h
  osplit h
  · obtain ⟨rfl, _⟩ := h; exact i
  · obtain ⟨rfl, _⟩ := h; exact i.of_shape (SameShape.refl _) rfl rfl
  · have hins := ‹State.insert _ _ _ = some _›
    obtain ⟨hsend, hside, hnext⟩ := insert_false_send hins
    simp only [Two.get_set, ↓reduceIte, Nat.add_sub_cancel] at hsend hside hnext
    obtain ⟨rfl, _⟩ := h
    intro k hne
    simp only at hne ⊢
    rw [hside, hnext]
    rw [hsend k] at hne ⊢
    by_cases hk : sidNew s.side d (s.next.get d) = k
    · subst hk
      left
      rw [sidInitiator_sidNew, sidDir_sidNew, sidIndex_sidNew]
      simp [Two.get_set]
    · simp only [hk, ↓reduceIte] at hne ⊢
      rcases i k hne with ⟨h1, h2⟩ | h
      · left
        refine ⟨h1, ?_⟩
        rw [Two.get_set]
        split
        · rename_i hd; rw [hd]; omega
        · exact h2
      · exact Or.inr h

theorem sidNew_components (k : Nat) : sidNew (sidInitiator k) (sidDir k) (sidIndex k) = k := by
  unfold sidNew sidInitiator sidDir sidIndex
  split <;> split <;> simp [Side.toNat, Dir.toNat] <;> omega

theorem open_side {s s' : State} {d : Dir} {r : Option Nat} (h : s.open_ d = some (s', r)) : s'.side = s.side := by
  unfold State.open_ at h
  osplit h
  · obtain ⟨rfl, _⟩ := h; rfl
  · obtain ⟨rfl, _⟩ := h; rfl
  · have hins := ‹State.insert _ _ _ = some _›
    obtain ⟨rfl, _⟩ := h
    exact (insert_false_send hins).2.1

/-- every early operation keeps the invariant (and the side) -/
theorem early_step {s s' : State} {o : Op} {out : Out} (h : step s o = some (s', out)) (i : EarlyInv s)
    (he : EarlyOp s.side o) : EarlyInv s' ∧ s'.side = s.side := by
  cases o <;> simp only [EarlyOp] at he
  case params p => unstep h; rw [← h.1]; exact ⟨early_setParams s p i, rfl⟩
  case conn c => unstep h; rw [← h.1]; exact ⟨i.of_shape (SameShape.refl _) rfl rfl, rfl⟩
  case open_ d =>
    unstep h; obtain ⟨s1, r, h1, rfl, _⟩ := h
    exact ⟨early_open h1 i, open_side h1⟩
  case write id n =>
    unstep h; obtain ⟨s1, r, h1, rfl, _⟩ := h
    refine ⟨early_write h1 i he, ?_⟩
    cases r with
    | ok k => obtain ⟨x, s0, hg, _, _, _, _, _, _, _, _, hc, _⟩ := write_ok h1
              have := (getOrInsertSend_touch hg).2.2.2.1
              have h2 := congrArg Core.side hc; simp only [State.core] at h2; rw [h2, this]
    | error e => exact congrArg Core.side (write_err h1).v.core
  case finish id =>
    unstep h; rw [← h.1]
    exact ⟨early_finish (r := (s.finish id).2) rfl i he, congrArg Core.side (frame_finish (r := (s.finish id).2) rfl).v.core⟩
  case reset id code =>
    unstep h; obtain ⟨s1, b, h1, rfl, _⟩ := h
    exact ⟨early_reset h1 i he, congrArg Core.side (frame_reset h1).v.core⟩
  case stopped id => unstep h; rw [← h.1]; exact ⟨i, rfl⟩
  case prio id p =>
    unstep h; rw [← h.1]
    exact ⟨early_setPriority (b := (s.setPriority id p).2) rfl i he,
      congrArg Core.side (frame_setPriority (b := (s.setPriority id p).2) rfl).v.core⟩
  case poll =>
    unstep h; obtain ⟨s1, e, h1, rfl, _⟩ := h
    have hc := (frame_poll h1).v.core
    exact ⟨i.of_shape (shape_poll h1) (congrArg Core.side hc) (congrArg Core.next hc), congrArg Core.side hc⟩
  case transmit mb fair =>
    unstep h; obtain ⟨s1, l, fs, h1, rfl, _⟩ := h
    have hc := (frame_writeStreamFrames _ _ _ h1).v.core
    exact ⟨i.of_shape (shape_writeStreamFrames _ _ _ h1) (congrArg Core.side hc) (congrArg Core.next hc),
      congrArg Core.side hc⟩
  case canSend => unstep h; rw [← h.1]; exact ⟨i, rfl⟩
  case sendWindow n => unstep h; rw [← h.1]; exact ⟨i.of_shape (SameShape.refl _) rfl rfl, rfl⟩
  case rtx0 =>
    unstep h; obtain ⟨s1, h1, rfl, _⟩ := h
    have hc := (frame_retransmitAllFor0rtt h1).v.core
    have hsh : SameShape s.send s1.send := by
      unfold State.retransmitAllFor0rtt at h1
      osplit h1
      exact (shape_rtx0Loop _ _ ‹State.rtx0Loop s _ _ _ = some _›).trans (shape_rtx0Loop _ _ h1)
    exact ⟨i.of_shape hsh (congrArg Core.side hc) (congrArg Core.next hc), congrArg Core.side hc⟩
  case view => unstep h; rw [← h.1]; exact ⟨i, rfl⟩

/-- what `zero_rtt_rejected` does to the send map: the locally opened streams are gone, the rest is
    untouched -/
theorem zeroRttRejected_send {s s1 : State} (h : s.zeroRttRejected = some s1) (k : Nat) :
    ((sidInitiator k = s.side ∧ sidIndex k < s.next.get (sidDir k)) → s1.send.find? k = none) ∧
    (¬ (sidInitiator k = s.side ∧ sidIndex k < s.next.get (sidDir k)) → s1.send.find? k = s.send.find? k) := by
  constructor
  · rintro ⟨h1, h2⟩
    have := zeroRttRejected_no_local h (sidDir k) (sidIndex k) h2
    rw [← h1, sidNew_components] at this; exact this
  · intro hn
    unfold State.zeroRttRejected at h
    osplit h
    have h1 := ‹State.zeroRttDir s Dir.bi = some _›
    have h2 := ‹State.zeroRttDir _ Dir.uni = some _›
    have sc1 := zeroRttDir_scalars h1
    obtain ⟨_, b1⟩ := zeroRttDir_send h1
    obtain ⟨_, b2⟩ := zeroRttDir_send h2
    rw [← h]
    simp only
    have hne : ∀ (d : Dir) (j : Nat), j < s.next.get d → k ≠ sidNew s.side d j := by
      intro d j hj hk
      apply hn
      rw [hk, sidInitiator_sidNew, sidDir_sidNew, sidIndex_sidNew]; exact ⟨rfl, hj⟩
    rw [b2 k (fun j hj => by
      rw [sc1.2.2.1]; apply hne .uni j
      rw [sc1.2.2.2.1] at hj; simpa [Two.get, Two.set] using hj)]
    exact b1 k (fun j hj => hne .bi j hj)

/-- **after a rejection the sender view is the fresh one**: in a state reached by early operations,
    `zero_rtt_rejected` + `set_params p` leave no instantiated sending half, and the core scalars are
    those of `StreamsState::new` + `set_params p` -/
theorem rejected_vw {s s1 : State} (i : EarlyInv s) (h : s.zeroRttRejected = some s1) (p : Params) :
    (({ s1 with rtx := {} } : State).setParams p).vw =
      ⟨⟨s.side, p.initialMaxData, 0, ⟨p.initialMaxStreamsBidi, p.initialMaxStreamsUni⟩, ⟨0, 0⟩,
        p.initialMaxStreamDataUni, p.initialMaxStreamDataBidiLocal, p.initialMaxStreamDataBidiRemote⟩,
       fun _ => none⟩ := by
  obtain ⟨z1, _, z3, z4, _, _, _, z8⟩ := zeroRttRejected_scalars h
  simp only [State.vw, SView.mk.injEq]
  constructor
  · simp only [State.core, State.setParams, State.receivedMaxData, z1, z3, z4, z8, natMax_eq, Nat.zero_max]
  · funext k
    simp only [State.cv, State.setParams, State.receivedMaxData]
    split
    · rename_i x' hx'
      exfalso
      obtain ⟨x, hx, _⟩ := setParamsLoop_find _ _ _ _ _ _ _ hx'
      obtain ⟨r1, r2⟩ := zeroRttRejected_send h k
      by_cases hl : sidInitiator k = s.side ∧ sidIndex k < s.next.get (sidDir k)
      · rw [r1 hl] at hx; contradiction
      · rw [r2 hl] at hx
        rcases i k (by rw [hx]; simp) with hh | ⟨_, hh⟩
        · exact hl hh
        · rw [hx] at hh; simp at hh
    · rfl

end QM.Streams
