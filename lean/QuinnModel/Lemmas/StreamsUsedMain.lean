import QuinnModel.Lemmas.StreamsUsed
import QuinnModel.Lemmas.StreamsHistMain
/-
C11, "Opened / Readable only for streams the peer actually used": every `Readable id` handed to the
application stems from a STREAM / RESET_STREAM frame for `id` earlier in the history, every `Opened dir`
from a frame of the peer (STREAM, RESET_STREAM, STOP_SENDING, MAX_STREAM_DATA) that names a stream of
that direction; `accept` hands out only streams at or below one named by such a frame.
-/
namespace QM.Streams
set_option pp.structureInstances false

/-- the step is a STREAM or RESET_STREAM frame of the peer for stream `id` -/
def Step.data (st : Step) (id : Nat) : Prop :=
  (∃ a l f, st.op = .stream id a l f) ∨ (∃ c f, st.op = .rst id c f)

/-- the step is a frame of the peer that names stream `id` -/
def Step.names (st : Step) (id : Nat) : Prop :=
  st.data id ∨ (∃ c, st.op = .stopSending id c) ∨ (∃ n, st.op = .maxStreamData id n)

/-- how one operation changes the queued Readable events and the `opened` flags -/
theorem uw_step {s s' : State} {o : Op} {out : Out} (h : step s o = some (s', out)) (hr : o.isRestart = false) :
    (o ≠ .poll ∧ s'.uw = s.uw) ∨
    (o = .poll ∧ ∃ e, s.poll = some (s', e) ∧ out = (match e with | some e => .event e | none => .none_)) ∨
    (∃ id, Used true id s s' ∧ (⟨s, o, out, s'⟩ : Step).data id) ∨
    (∃ id, Used false id s s' ∧ (⟨s, o, out, s'⟩ : Step).names id) := by
  cases o <;> simp [Op.isRestart] at hr
  case params p => unstep h; rw [← h.1]; exact Or.inl ⟨by simp, rfl⟩
  case conn c => unstep h; rw [← h.1]; exact Or.inl ⟨by simp, rfl⟩
  case open_ d => unstep h; obtain ⟨s1, r, h1, h2, _⟩ := h; rw [← h2]; exact Or.inl ⟨by simp, (uw_open h1)⟩
  case accept d => unstep h; rw [← h.1]; exact Or.inl ⟨by simp, (uw_accept s d)⟩
  case write id n => unstep h; obtain ⟨s1, r, h1, h2, _⟩ := h; rw [← h2]; exact Or.inl ⟨by simp, (uw_write h1)⟩
  case finish id => unstep h; rw [← h.1]; exact Or.inl ⟨by simp, (uw_finish (r := (s.finish id).2) rfl)⟩
  case reset id code => unstep h; obtain ⟨s1, b, h1, h2, _⟩ := h; rw [← h2]; exact Or.inl ⟨by simp, (uw_reset h1)⟩
  case stopped id => unstep h; rw [← h.1]; exact Or.inl ⟨by simp, rfl⟩
  case prio id p => unstep h; rw [← h.1]; exact Or.inl ⟨by simp, (uw_setPriority (b := (s.setPriority id p).2) rfl)⟩
  case stream id off len fin =>
    unstep h; obtain ⟨s1, r, h1, h2, _⟩ := h; subst h2
    exact Or.inr (Or.inr (Or.inl ⟨id, uw_received h1, Or.inl ⟨_, _, _, rfl⟩⟩))
  case rst id code fo =>
    unstep h; obtain ⟨s1, r, h1, h2, _⟩ := h; subst h2
    exact Or.inr (Or.inr (Or.inl ⟨id, uw_receivedReset h1, Or.inr ⟨_, _, rfl⟩⟩))
  case stopSending id code =>
    unstep h; obtain ⟨rfl, _⟩ := h
    exact Or.inr (Or.inr (Or.inr ⟨id, uw_receivedStopSending s id code, Or.inr (Or.inl ⟨_, rfl⟩)⟩))
  case maxData n => unstep h; rw [← h.1]; exact Or.inl ⟨by simp, rfl⟩
  case maxStreamData id n =>
    unstep h; obtain ⟨s1, e, h1, h2, _⟩ := h; subst h2
    exact Or.inr (Or.inr (Or.inr ⟨id, uw_receivedMaxStreamData h1, Or.inr (Or.inr ⟨_, rfl⟩)⟩))
  case maxStreams d n => unstep h; rw [← h.1]; exact Or.inl ⟨by simp, (uw_receivedMaxStreams s d n)⟩
  case ack id a e fin => unstep h; obtain ⟨s1, h1, h2, _⟩ := h; rw [← h2]; exact Or.inl ⟨by simp, (uw_receivedAckOf h1)⟩
  case lost id a e fin => unstep h; obtain ⟨s1, h1, h2, _⟩ := h; rw [← h2]; exact Or.inl ⟨by simp, (uw_retransmit h1)⟩
  case rstAck id => unstep h; obtain ⟨s1, h1, h2, _⟩ := h; rw [← h2]; exact Or.inl ⟨by simp, (uw_resetAcked h1)⟩
  case read id b => unstep h; obtain ⟨s1, r, h1, h2, _⟩ := h; rw [← h2]; exact Or.inl ⟨by simp, (uw_read h1)⟩
  case stop id code => unstep h; obtain ⟨s1, b, h1, h2, _⟩ := h; rw [← h2]; exact Or.inl ⟨by simp, (uw_stop h1)⟩
  case recvReset id =>
    unstep h; obtain ⟨s1, r, h1, h2, _⟩ := h; rw [← h2]; exact Or.inl ⟨by simp, (uw_recvReceivedReset h1)⟩
  case poll =>
    unstep h; obtain ⟨s1, e, h1, h2, h3⟩ := h; subst h2
    exact Or.inr (Or.inl ⟨rfl, e, h1, h3.symm⟩)
  case transmit mb fair =>
    unstep h; obtain ⟨s1, l, fs, h1, h2, _⟩ := h; rw [← h2]; exact Or.inl ⟨by simp, (uw_writeStreamFrames _ _ _ h1)⟩
  case canSend => unstep h; rw [← h.1]; exact Or.inl ⟨by simp, rfl⟩
  case canFlow id => unstep h; rw [← h.1]; exact Or.inl ⟨by simp, rfl⟩
  case ctrl => unstep h; obtain ⟨s1, fs, h1, h2, _⟩ := h; rw [← h2]; exact Or.inl ⟨by simp, (uw_writeControlFrames h1)⟩
  case queueMaxStreamId =>
    unstep h; obtain ⟨s1, b, h1, h2, _⟩ := h; rw [← h2]; exact Or.inl ⟨by simp, (uw_queueMaxStreamId h1)⟩
  case pendMaxData => unstep h; rw [← h.1]; exact Or.inl ⟨by simp, rfl⟩
  case pendMaxStreamData id => unstep h; rw [← h.1]; exact Or.inl ⟨by simp, rfl⟩
  case pendMaxStreamId d => unstep h; rw [← h.1]; exact Or.inl ⟨by simp, rfl⟩
  case sendWindow n => unstep h; rw [← h.1]; exact Or.inl ⟨by simp, rfl⟩
  case recvWindow n => unstep h; rw [← h.1]; exact Or.inl ⟨by simp, (uw_setReceiveWindow s n)⟩
  case maxConcurrent d n =>
    unstep h; obtain ⟨s1, h1, h2, _⟩ := h; rw [← h2]; exact Or.inl ⟨by simp, (uw_setMaxConcurrent h1)⟩
  case rtx0 => unstep h; obtain ⟨s1, h1, h2, _⟩ := h; rw [← h2]; exact Or.inl ⟨by simp, (uw_retransmitAllFor0rtt h1)⟩
  case view => unstep h; rw [← h.1]; exact Or.inl ⟨by simp, rfl⟩

/-- the Readable / Opened events handed out so far, then the Readable events still queued -/
def QR (tr : List Step) (s : State) : List Event := (delivered tr).filter isRd ++ s.uw.1

structure UInv (tr : List Step) (s : State) : Prop where
  rd : ∀ id, Event.readable id ∈ QR tr s → ∃ st ∈ tr, st.data id
  op : ∀ d, Event.opened d ∈ QR tr s → ∃ st ∈ tr, ∃ id, st.names id ∧ sidDir id = d
  flag : ∀ d, s.opened.get d = true → ∃ st ∈ tr, ∃ id, st.names id ∧ sidDir id = d

theorem uinv_init {c : Config} {s0 : State} (h : State.new c = some s0) : UInv [] s0 := by
  have he : s0.events = [] ∧ s0.opened = ⟨false, false⟩ := by
    unfold State.new at h
    osplit h
    rename_i s1 h1
    rw [insertRemoteRange_only_maps _ h, insertRemoteRange_only_maps _ h1]
    exact ⟨rfl, rfl⟩
  have hq : QR [] s0 = [] := by simp [QR, delivered, State.uw, he.1]
  refine ⟨by rw [hq]; intros; simp_all, by rw [hq]; intros; simp_all, ?_⟩
  intro d hd
  rw [he.2] at hd
  cases d <;> cases hd

theorem two_get_set_true {t : Two Bool} {d d' : Dir} (h : (t.set d true).get d' = true) :
    t.get d' = true ∨ d = d' := by
  cases d <;> cases d' <;> simp_all [Two.get, Two.set]

theorem uinv_step {tr : List Step} {s s' : State} {o : Op} {out : Out} (i : UInv tr s)
    (h : step s o = some (s', out)) (hr : o.isRestart = false) : UInv (tr ++ [⟨s, o, out, s'⟩]) s' := by
  have hd : o ≠ .poll → (Step.delivered ⟨s, o, out, s'⟩) = [] := by
    intro hne
    unfold Step.delivered
    split
    · rename_i e he
      simp only at he; subst he
      exact absurd (out_event_poll h) hne
    · rfl
  have mono : ∀ {P : Step → Prop}, (∃ st ∈ tr, P st) → ∃ st ∈ tr ++ [⟨s, o, out, s'⟩], P st :=
    fun ⟨st, hm, hp⟩ => ⟨st, List.mem_append_left _ hm, hp⟩
  have last : ∀ {P : Step → Prop}, P ⟨s, o, out, s'⟩ → ∃ st ∈ tr ++ [⟨s, o, out, s'⟩], P st :=
    fun hp => ⟨_, List.mem_append_right _ (List.mem_singleton.mpr rfl), hp⟩
  -- the new invariant from: what is new in the event list (`l`), and the flags
  have build : ∀ l : List Event,
      (∀ x, (x ∈ (Step.delivered ⟨s, o, out, s'⟩).filter isRd ∨ x ∈ s'.uw.1) → x ∈ s.uw.1 ∨ x ∈ l) →
      (∀ k, Event.readable k ∈ l → ∃ st ∈ tr ++ [⟨s, o, out, s'⟩], st.data k) →
      (∀ d, Event.opened d ∈ l → ∃ st ∈ tr ++ [⟨s, o, out, s'⟩], ∃ id, st.names id ∧ sidDir id = d) →
      (∀ d, s'.opened.get d = true → ∃ st ∈ tr ++ [⟨s, o, out, s'⟩], ∃ id, st.names id ∧ sidDir id = d) →
      UInv (tr ++ [⟨s, o, out, s'⟩]) s' := by
    intro l hl h1 h2 h3
    have sub : ∀ x, x ∈ QR (tr ++ [⟨s, o, out, s'⟩]) s' → x ∈ QR tr s ∨ x ∈ l := by
      intro x hx
      simp only [QR, delivered_snoc, List.filter_append, List.mem_append] at hx ⊢
      rcases hx with (hx | hx) | hx
      · exact Or.inl (Or.inl hx)
      · rcases hl x (Or.inl hx) with h0 | h0
        · exact Or.inl (Or.inr h0)
        · exact Or.inr h0
      · rcases hl x (Or.inr hx) with h0 | h0
        · exact Or.inl (Or.inr h0)
        · exact Or.inr h0
    refine ⟨fun k hk => ?_, fun d hk => ?_, h3⟩
    · rcases sub _ hk with h0 | h0
      · exact mono (i.rd k h0)
      · exact h1 k h0
    · rcases sub _ hk with h0 | h0
      · exact mono (i.op d h0)
      · exact h2 d h0
  have tw : ∀ (t : Two Bool) (d d' : Dir), (t.set d false).get d' = true → t.get d' = true := by
    intro t d d' hh; cases d <;> cases d' <;> simp_all [Two.get, Two.set]
  -- a frame of the peer for stream `id`
  have frame : ∀ (b : Bool) (id : Nat), Used b id s s' → (⟨s, o, out, s'⟩ : Step).names id →
      (b = true → (⟨s, o, out, s'⟩ : Step).data id) → o ≠ .poll → UInv (tr ++ [⟨s, o, out, s'⟩]) s' := by
    intro b id u hn hdat hnp
    obtain ⟨u1, u2⟩ := u
    have hflag : ∀ d, s'.opened.get d = true → ∃ st ∈ tr ++ [⟨s, o, out, s'⟩], ∃ id, st.names id ∧ sidDir id = d := by
      intro d hdd
      rcases u2 with e | e
      · have e' : s'.opened = s.opened := e
        rw [e'] at hdd; exact mono (i.flag d hdd)
      · have e' : s'.opened = s.opened.set (sidDir id) true := e
        rw [e'] at hdd
        rcases two_get_set_true hdd with h0 | h0
        · exact mono (i.flag d h0)
        · exact last ⟨id, hn, h0⟩
    rcases u1 with e | ⟨hb, e⟩
    · refine build [] (fun x hx => ?_) (fun k hk => by cases hk) (fun d hk => by cases hk) hflag
      rw [hd hnp, e] at hx
      simpa using hx
    · refine build [.readable id] (fun x hx => ?_) (fun k hk => ?_) (fun d hk => ?_) hflag
      · rw [hd hnp, e] at hx
        simpa using hx
      · simp only [List.mem_singleton, Event.readable.injEq] at hk
        subst hk; exact last (hdat hb)
      · simp at hk
  rcases uw_step h hr with ⟨hnp, e⟩ | ⟨rfl, ev, hp, hout⟩ | ⟨id, u, hdat⟩ | ⟨id, u, hn⟩
  · -- nothing changes
    have e2 : s'.opened = s.opened := congrArg Prod.snd e
    refine build [] (fun x hx => ?_) (fun k hk => by cases hk) (fun d hk => by cases hk)
      (fun d hdd => mono (i.flag d (e2 ▸ hdd)))
    rw [hd hnp, e] at hx
    simpa using hx
  · -- `poll`
    rcases uw_poll hp with ⟨d, rfl, hfl, e1, e3⟩ | ⟨e2, e1⟩
    · subst hout
      have w := i.flag d hfl
      refine build [.opened d] (fun x hx => ?_) (fun k hk => by simp at hk) (fun d' hk => ?_) (fun d' hd' => ?_)
      · rw [e1] at hx
        simp only [Step.delivered, List.filter, isRd, List.mem_singleton] at hx
        rcases hx with hx | hx
        · exact Or.inr (List.mem_singleton.mpr hx)
        · exact Or.inl hx
      · simp only [List.mem_singleton, Event.opened.injEq] at hk
        subst hk; exact mono w
      · rw [e3] at hd'
        exact mono (i.flag d' (tw _ _ _ hd'))
    · have e2' : s'.opened = s.opened := e2
      refine build [] (fun x hx => ?_) (fun k hk => by cases hk) (fun d hk => by cases hk)
        (fun d hdd => mono (i.flag d (e2' ▸ hdd)))
      left
      rw [← e1]
      cases ev with
      | none => subst hout; simpa [Step.delivered] using hx
      | some y =>
        subst hout
        simp only [Step.delivered] at hx
        simpa [List.mem_append] using hx
  · exact frame true id u (Or.inl hdat) (fun _ => hdat) (by
      intro hp; rcases hdat with ⟨_, _, _, hh⟩ | ⟨_, _, hh⟩ <;> (simp only at hh; rw [hp] at hh; cases hh))
  · exact frame false id u hn (fun hh => by cases hh) (by
      intro hp
      rcases hn with (⟨_, _, _, hh⟩ | ⟨_, _, hh⟩) | ⟨_, hh⟩ | ⟨_, hh⟩ <;> (simp only at hh; rw [hp] at hh; cases hh))

theorem run_uinv {c : Config} {s0 s : State} {tr : List Step} (h0 : State.new c = some s0) (r : Run s0 tr s) :
    UInv tr s := by
  induction r with
  | nil => exact uinv_init h0
  | snoc _ hs hr ih => exact uinv_step ih hs hr

end QM.Streams
