import QuinnModel.Conn.Receive
namespace QM.Receive.Closed
open QM.Receive

theorem unprotected_no_effect (c : CC) (p : CPkt) (hk : p.kind ≠ .protectedPkt) (hr : p.reset = false) :
    step c p = c := by
  unfold step
  simp only [hr, Bool.false_eq_true, if_false]
  cases hkind : p.kind with
  | protectedPkt => exact absurd hkind hk
  | retry => simp [Gen.closedDiscardsUnprotected]
  | versionNegotiation => simp [Gen.closedDiscardsUnprotected]

theorem forged_protected_counts_only (c : CC) (p : CPkt) (hk : p.kind = .protectedPkt) (ha : p.authentic = false)
    (hr : p.reset = false) : step c p = { c with authFailures := c.authFailures + 1 } := by
  unfold step
  simp [hr, hk, ha]

/-- anything that changes the lifecycle state, the pending error, the close-owed flag or the frame counter of a
    closed connection is a stateless reset or an authentic protected packet -/
theorem change_needs_authentic (c : CC) (p : CPkt)
    (h : (step c p).st ≠ c.st ∨ (step c p).error ≠ c.error ∨ (step c p).close ≠ c.close ∨
         (step c p).closeFramesRx ≠ c.closeFramesRx) :
    p.reset = true ∨ (p.kind = .protectedPkt ∧ p.authentic = true) := by
  by_cases hr : p.reset = true
  · exact Or.inl hr
  · right
    have hr' : p.reset = false := by simpa using hr
    by_cases hk : p.kind = .protectedPkt
    · refine ⟨hk, ?_⟩
      by_cases ha : p.authentic = true
      · exact ha
      · have ha' : p.authentic = false := by simpa using ha
        rw [forged_protected_counts_only c p hk ha' hr'] at h
        simp at h
    · rw [unprotected_no_effect c p hk hr'] at h
      simp at h

/-- no packet other than a stateless reset sets a (new) reason on a connection that has already ended -/
theorem error_only_by_reset (c : CC) (p : CPkt) (hr : p.reset = false) : (step c p).error = c.error := by
  unfold step
  simp only [hr, Bool.false_eq_true, if_false]
  cases p.kind with
  | protectedPkt =>
    simp only
    by_cases ha : p.authentic = true
    · simp only [ha, Bool.not_true, Bool.false_eq_true, if_false]
      by_cases hd : p.decryptOk = true
      · simp only [hd, Bool.not_true, Bool.false_eq_true, if_false]
        split
        · rfl
        · unfold process errTail okTail
          simp only [Gen.closedIgnoresLateErrors, if_true]
          cases c.st <;> simp <;> (repeat (split <;> try rfl))
      · simp only [hd, Bool.not_false, if_true]
        unfold errTail okTail
        simp only [Gen.closedIgnoresLateErrors, if_true]
        cases c.st <;> rfl
    · simp [ha]
  | retry => simp [Gen.closedDiscardsUnprotected]
  | versionNegotiation => simp [Gen.closedDiscardsUnprotected]

/-- a draining connection stays draining and owes nothing, whatever arrives (stateless reset aside) -/
theorem draining_stays (c : CC) (p : CPkt) (hs : c.st = .draining) (hr : p.reset = false) :
    (step c p).st = .draining ∧ (step c p).close = c.close := by
  unfold step
  simp only [hr, Bool.false_eq_true, if_false]
  cases p.kind with
  | protectedPkt =>
    simp only
    by_cases ha : p.authentic = true
    · simp only [ha, Bool.not_true, Bool.false_eq_true, if_false]
      by_cases hd : p.decryptOk = true
      · simp only [hd, Bool.not_true, Bool.false_eq_true, if_false]
        split
        · exact ⟨hs, rfl⟩
        · unfold process
          simp [hs]
      · simp only [hd, Bool.not_false, if_true]
        unfold errTail okTail
        simp [Gen.closedIgnoresLateErrors, hs]
    · simp [ha, hs]
  | retry => simp [Gen.closedDiscardsUnprotected, hs]
  | versionNegotiation => simp [Gen.closedDiscardsUnprotected, hs]

end QM.Receive.Closed
