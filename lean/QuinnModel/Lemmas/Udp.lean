import QuinnModel.Udp.Layout
/-
Helper lemmas for C19 (UDP layer arithmetic): the stride split loop inverts coalescing, the GSO
contract produces a well-formed segment list of ceil(len/seg) datagrams, `effective_segment_size`,
and the finite control-message table.
-/
namespace QM.Udp

/-- well-formed segment list: every segment but the last has exactly `stride` bytes, the last has
    between 1 and `stride` -/
def WF {α : Type} (stride : Nat) : List (List α) → Prop
  | [] => False
  | [last] => 0 < last.length ∧ last.length ≤ stride
  | s :: rest => s.length = stride ∧ WF stride rest

theorem WF_nil {α : Type} (stride : Nat) : WF stride ([] : List (List α)) = False := rfl

theorem WF_single {α : Type} (stride : Nat) (l : List α) :
    WF stride [l] = (0 < l.length ∧ l.length ≤ stride) := rfl

theorem WF_cons_cons {α : Type} (stride : Nat) (s r : List α) (rest : List (List α)) :
    WF stride (s :: r :: rest) = (s.length = stride ∧ WF stride (r :: rest)) := rfl

/-- the split loop on empty data yields nothing, whatever the fuel -/
theorem split_nil {α : Type} (stride fuel : Nat) :
    splitByStride stride fuel ([] : List α) = [] := by
  cases fuel <;> rfl

/-- one round of the split loop on non-empty data -/
theorem split_step {α : Type} (stride fuel : Nat) (data : List α) (hne : data ≠ []) :
    splitByStride stride (fuel + 1) data
      = data.take (Nat.min stride data.length)
        :: splitByStride stride fuel (data.drop (Nat.min stride data.length)) := by
  cases data with
  | nil => exact absurd rfl hne
  | cons a t => rfl

theorem split_concat {α : Type} (stride : Nat) (hs : 0 < stride) :
    ∀ (segs : List (List α)) (fuel : Nat), WF stride segs → segs.flatten.length ≤ fuel →
      splitByStride stride fuel segs.flatten = segs := by
  intro segs
  induction segs with
  | nil => intro fuel h; exact absurd h (by simp [WF_nil])
  | cons s rest ih =>
    intro fuel hw hf
    cases rest with
    | nil =>
      rw [WF_single] at hw
      have hfl : [s].flatten = s := by simp
      rw [hfl] at hf ⊢
      cases fuel with
      | zero => omega
      | succ f =>
        have hne : s ≠ [] := by
          intro h; rw [h] at hw; simp at hw
        rw [split_step stride f s hne]
        have hm : Nat.min stride s.length = s.length := Nat.min_eq_right hw.2
        rw [hm, List.take_length, List.drop_length, split_nil]
    | cons r rest' =>
      rw [WF_cons_cons] at hw
      obtain ⟨hl, hrest⟩ := hw
      have hfl : (s :: r :: rest').flatten = s ++ (r :: rest').flatten := List.flatten_cons
      rw [hfl] at hf ⊢
      generalize htl : (r :: rest').flatten = tl at hf ih ⊢
      rw [List.length_append] at hf
      cases fuel with
      | zero => omega
      | succ f =>
        have hne : s ++ tl ≠ [] := by
          intro h
          have : (s ++ tl).length = 0 := by rw [h]; rfl
          rw [List.length_append] at this
          omega
        rw [split_step stride f (s ++ tl) hne]
        have hm : Nat.min stride (s ++ tl).length = s.length := by
          rw [List.length_append, hl]; exact Nat.min_eq_left (Nat.le_add_right _ _)
        rw [hm, List.take_left' rfl, List.drop_left' rfl, ih f hrest (by omega)]

/-- everything the split loop guarantees about non-empty data with enough fuel -/
theorem split_spec {α : Type} (seg : Nat) (hs : 0 < seg) :
    ∀ (fuel : Nat) (data : List α), data ≠ [] → data.length ≤ fuel →
      (splitByStride seg fuel data).flatten = data
      ∧ WF seg (splitByStride seg fuel data)
      ∧ (splitByStride seg fuel data).length = (data.length + seg - 1) / seg := by
  intro fuel
  induction fuel with
  | zero =>
    intro data hne hf
    cases data with
    | nil => exact absurd rfl hne
    | cons a t => simp at hf
  | succ f ih =>
    intro data hne hf
    have hpos : 0 < data.length := List.length_pos_iff.mpr hne
    rw [split_step seg f data hne]
    by_cases hle : data.length ≤ seg
    · have hm : Nat.min seg data.length = data.length := Nat.min_eq_right hle
      rw [hm, List.take_length, List.drop_length, split_nil]
      refine ⟨by simp, ?_, ?_⟩
      · rw [WF_single]; exact ⟨hpos, hle⟩
      · have : (data.length + seg - 1) / seg = 1 :=
          Nat.div_eq_of_lt_le (by omega) (by omega)
        rw [this]; rfl
    · have hlt : seg < data.length := Nat.lt_of_not_le hle
      have hm : Nat.min seg data.length = seg := Nat.min_eq_left (Nat.le_of_lt hlt)
      rw [hm]
      have hdl : (data.drop seg).length = data.length - seg := List.length_drop
      have htl : (data.take seg).length = seg := by
        rw [List.length_take]; exact Nat.min_eq_left (Nat.le_of_lt hlt)
      have hdne : data.drop seg ≠ [] := by
        intro h; rw [h] at hdl; simp at hdl; omega
      obtain ⟨h1, h2, h3⟩ := ih (data.drop seg) hdne (by omega)
      refine ⟨?_, ?_, ?_⟩
      · rw [List.flatten_cons, h1, List.take_append_drop]
      · cases hsp : splitByStride seg f (data.drop seg) with
        | nil => rw [hsp, WF_nil] at h2; exact h2.elim
        | cons r rest' =>
          rw [hsp] at h2
          rw [WF_cons_cons]; exact ⟨htl, h2⟩
      · rw [List.length_cons, h3, hdl]
        have : data.length + seg - 1 = (data.length - seg + seg - 1) + seg := by omega
        rw [this, Nat.add_div_right _ hs]

theorem wire_wf {α : Type} (seg : Nat) (hs : 0 < seg) (contents : List α) (hc : contents ≠ []) :
    (wireDatagrams contents (some seg)).flatten = contents ∧ WF seg (wireDatagrams contents (some seg)) := by
  obtain ⟨h1, h2, _⟩ := split_spec seg hs contents.length contents hc (Nat.le_refl _)
  exact ⟨h1, h2⟩

theorem wire_count {α : Type} (seg : Nat) (hs : 0 < seg) (contents : List α) (hc : contents ≠ []) :
    (wireDatagrams contents (some seg)).length = (contents.length + seg - 1) / seg :=
  (split_spec seg hs contents.length contents hc (Nat.le_refl _)).2.2

theorem effective_none_iff (seg : Option Nat) (len : Nat) :
    effectiveSegmentSize seg len = none ↔ (seg = none ∨ ∃ s, seg = some s ∧ len ≤ s) := by
  cases seg with
  | none => simp [effectiveSegmentSize]
  | some s =>
    by_cases h : s ≥ len
    · simp [effectiveSegmentSize, h]
    · simp [effectiveSegmentSize, h]

theorem cmsg_fits_all : ∀ o ∈ allOpts, controlLen o ≤ Gen.cmsgLen := by decide

theorem allOpts_mem (o : SendOpts) : o ∈ allOpts := by
  obtain ⟨v4, e, g, s⟩ := o
  cases v4 <;> cases e <;> cases g <;> cases s with
  | none => decide
  | some b => cases b <;> decide

theorem recv_cmsg_fits_all : ∀ o ∈ allRecvOpts, recvControlLen o ≤ Gen.cmsgLen := by decide

theorem allRecvOpts_mem (o : RecvOpts) : o ∈ allRecvOpts := by
  obtain ⟨a, b, c⟩ := o
  cases a <;> cases b <;> cases c <;> decide

end QM.Udp
