import QuinnModel.Conn.KeyUpdate
import QuinnModel.Lemmas.Dedup
namespace QM.KeyUpdate
open QM

def par (g : Nat) : Bool := decide (g % 2 = 1)

/-- well-formedness of the key state -/
def WF (s : State) : Prop :=
  ∃ g, s.cur = some g ∧ s.next = some (g + 1) ∧ s.sess = g + 2 ∧ s.phase = par g ∧
    (∀ pv, s.prev = some pv → pv.gen + 1 = g) ∧
    (∀ t, s.kd = some t → ∃ pv e te, s.prev = some pv ∧ pv.endPacket = some (e, te) ∧
        t = te + s.pto * Gen.keyDiscardPtoFactor) ∧
    (s.life = .est → ∀ pv e te, s.prev = some pv → pv.endPacket = some (e, te) →
        s.kd = some (te + s.pto * Gen.keyDiscardPtoFactor))

theorem par_succ (g : Nat) : par (g + 1) = !par g := by
  unfold par
  rcases Nat.mod_two_eq_zero_or_one g with h | h <;> simp [Nat.add_mod, h]

theorem init_wf : WF init := by
  refine ⟨0, rfl, rfl, rfl, by decide, ?_, ?_, ?_⟩
  · intro pv h; simp [init] at h
  · intro t h; simp [init] at h
  · intro _ pv e te h; simp [init] at h

theorem decryptBody_number {s : State} {p : Pkt} {n a i} (h : decryptBody s p = .ok n a i) : n = p.pn := by
  unfold decryptBody at h
  simp only at h
  split at h
  · simp at h
  · split at h
    · simp at h
    · split at h
      · simp at h
      · split at h
        · simp at h
        · simp only [Body.ok.injEq] at h; exact h.1.symm


/-- fields the key machinery never touches -/
def SameRx (s s' : State) : Prop :=
  s'.dedup = s.dedup ∧ s'.rxPacket = s.rxPacket ∧ s'.authed = s.authed ∧ s'.fail = s.fail ∧ s'.life = s.life ∧
  s'.now = s.now ∧ s'.pto = s.pto ∧ s'.limit = s.limit ∧ s'.confLimit = s.confLimit ∧ s'.err = s.err ∧ s'.closeT = s.closeT ∧
  s'.nextPn = s.nextPn ∧ s'.largestAcked = s.largestAcked ∧ s'.sentLog = s.sentLog

theorem SameRx.refl (s : State) : SameRx s s := by simp [SameRx]

theorem SameRx.trans {a b c : State} (h1 : SameRx a b) (h2 : SameRx b c) : SameRx a c := by
  simp only [SameRx] at *
  refine ⟨?_, ?_, ?_, ?_, ?_, ?_, ?_, ?_, ?_, ?_, ?_, ?_, ?_, ?_⟩ <;> simp [*]

theorem setKD_same {s s' : State} (h : setKeyDiscardTimer s = some s') :
    SameRx s s' ∧ s'.prev = s.prev ∧ s'.cur = s.cur ∧ s'.next = s.next ∧ s'.sess = s.sess ∧ s'.phase = s.phase ∧
    s'.swk = s.swk ∧ s'.phaseSize = s.phaseSize ∧ s'.firstPn = s.firstPn ∧
    ∃ pv e te, s.prev = some pv ∧ pv.endPacket = some (e, te) ∧ s'.kd = some (te + s.pto * Gen.keyDiscardPtoFactor) := by
  unfold setKeyDiscardTimer at h
  simp only at h
  split at h
  · simp at h
  · rename_i pv hpv
    split at h
    · simp at h
    · rename_i e te he
      simp only [Option.some.injEq] at h
      subst h
      simp [SameRx, hpv, he]

theorem updateKeys_same {s s' : State} {ep r} (h : updateKeys s ep r = some s') :
    SameRx s s' ∧ s'.kd = s.kd ∧ ∃ c n, s.cur = some c ∧ s.next = some n ∧ s'.cur = some n ∧ s'.next = some s.sess ∧
      s'.sess = s.sess + 1 ∧ s'.prev = some ⟨c, ep, r⟩ ∧ s'.phase = (!s.phase) ∧ s'.firstPn = some s.nextPn := by
  unfold updateKeys at h
  simp only at h
  split at h
  · rename_i c n hc hn
    simp only [Option.some.injEq] at h
    subst h
    simp [SameRx, hc, hn]
  · simp at h


theorem kuCur (a b : Bool) : Gen.kuCurrentSelected a b true = decide (a = b) := by
  simp [Gen.kuCurrentSelected]

/-- what a successful `decrypt_packet_body` says -/
theorem decryptBody_ok {s : State} {p : Pkt} {n a i} (h : decryptBody s p = .ok n a i) :
    n = p.pn ∧ p.rsv = false ∧ i = decide (select s p = .next) ∧ selectedGen s (select s p) = p.sealGen ∧
    p.sealGen ≠ none ∧
    a = (match s.prev with
          | some pv => Gen.kuOutgoingAcked pv.endPacket.isNone p.bit s.phase
          | none => false) ∧
    (i = true → Gen.kuUpdateInvalid p.pn s.rxPacket (prevUnacked s) = false) := by
  unfold decryptBody at h
  simp only at h
  split at h
  · simp at h
  · rename_i g hg
    split at h
    · simp at h
    · rename_i hs
      split at h
      · simp at h
      · rename_i hr
        split at h
        · simp at h
        · rename_i hinv
          simp only [Body.ok.injEq] at h
          obtain ⟨h1, h2, h3⟩ := h
          have hs' : p.sealGen = some g := by simpa using hs
          refine ⟨h1.symm, by simpa using hr, h3.symm, by rw [hg, hs'], by simp [hs'], h2.symm, ?_⟩
          intro hi
          subst h3
          have : select s p = .next := by simpa using hi
          cases hk : Gen.kuUpdateInvalid p.pn s.rxPacket (prevUnacked s)
          · rfl
          · exact absurd ⟨this, hk⟩ hinv


theorem mem_installed {s : State} {g : Nat} :
    g ∈ installed s ↔ s.cur = some g ∨ (∃ pv, s.prev = some pv ∧ pv.gen = g) ∨ s.next = some g := by
  unfold installed
  cases hc : s.cur <;> cases hp : s.prev <;> cases hn : s.next <;> simp [eq_comm]

/-- the key chosen for a packet is an installed one whose key-phase bit the packet carries -/
theorem select_spec {s : State} (hwf : WF s) (p : Pkt) :
    ∃ g', selectedGen s (select s p) = some g' ∧ g' ∈ installed s ∧ p.bit = par g' ∧
      (select s p = .cur → s.cur = some g' ∧ p.bit = s.phase) ∧
      (select s p = .prev → p.bit ≠ s.phase ∧ ∃ pv, s.prev = some pv ∧ pv.gen = g' ∧
          ∀ e te, pv.endPacket = some (e, te) → p.pn < e) ∧
      (select s p = .next → s.next = some g' ∧ p.bit ≠ s.phase ∧
          ∀ pv, s.prev = some pv → ∃ e te, pv.endPacket = some (e, te) ∧ e ≤ p.pn) := by
  obtain ⟨g, hc, hn, hs, hph, hpv, _, _⟩ := hwf
  by_cases hb : p.bit = s.phase
  · have hsel : select s p = .cur := by simp [select, kuCur, hb]
    rw [hsel]
    refine ⟨g, by simp [selectedGen, hc], mem_installed.mpr (Or.inl hc), by rw [hb, hph], ?_, ?_, ?_⟩ <;> simp [hc, hb]
  · have hbit : p.bit = !s.phase := by
      cases hx : p.bit <;> cases hy : s.phase <;> simp_all
    cases hp : s.prev with
    | none =>
      have hsel : select s p = .next := by simp [select, kuCur, hb, hp]
      rw [hsel]
      refine ⟨g + 1, by simp [selectedGen, hn], mem_installed.mpr (Or.inr (Or.inr hn)), ?_, ?_, ?_, ?_⟩
      · rw [hbit, hph, par_succ]
      · simp
      · simp
      · intro _; exact ⟨hn, hb, by simp⟩
    | some pv =>
      have hg := hpv pv hp
      have hpar : p.bit = par pv.gen := by
        rw [hbit, hph, ← hg, par_succ]; simp
      cases he : pv.endPacket with
      | none =>
        have hsel : select s p = .prev := by simp [select, kuCur, hb, hp, he]
        rw [hsel]
        refine ⟨pv.gen, by simp [selectedGen, hp], mem_installed.mpr (Or.inr (Or.inl ⟨pv, hp, rfl⟩)), hpar, ?_, ?_, ?_⟩
        · simp
        · intro _; exact ⟨hb, pv, rfl, rfl, by simp [he]⟩
        · simp
      | some et =>
        obtain ⟨e, te⟩ := et
        by_cases hlt : p.pn < e
        · have hsel : select s p = .prev := by simp [select, kuCur, hb, hp, he, Gen.kuBelowEndPacket, hlt]
          rw [hsel]
          refine ⟨pv.gen, by simp [selectedGen, hp], mem_installed.mpr (Or.inr (Or.inl ⟨pv, hp, rfl⟩)), hpar, ?_, ?_, ?_⟩
          · simp
          · intro _; refine ⟨hb, pv, rfl, rfl, ?_⟩
            intro e' te' h'; simp only [he, Option.some.injEq, Prod.mk.injEq] at h'; omega
          · simp
        · have hsel : select s p = .next := by simp [select, kuCur, hb, hp, he, Gen.kuBelowEndPacket, hlt]
          rw [hsel]
          refine ⟨g + 1, by simp [selectedGen, hn], mem_installed.mpr (Or.inr (Or.inr hn)), ?_, ?_, ?_, ?_⟩
          · rw [hbit, hph, par_succ]
          · simp
          · simp
          · intro _; refine ⟨hn, hb, ?_⟩
            intro pv' hpv'; simp only [Option.some.injEq] at hpv'; subst hpv'
            exact ⟨e, te, he, by omega⟩


/-- how the key state may move when a packet is accepted by `decrypt_packet` -/
inductive Moved (s : State) (p : Pkt) (s1 : State) : Prop where
  /-- nothing but (possibly) the confirmation of our own update: `end_packet` recorded, discard timer armed -/
  | same (hsel : select s p ≠ .next) (hcur : s1.cur = s.cur) (hph : s1.phase = s.phase) (hnext : s1.next = s.next) (hsess : s1.sess = s.sess)
      (hswk : s1.swk = s.swk) (hps : s1.phaseSize = s.phaseSize)
      (hprev : (s1.prev = s.prev ∧ s1.kd = s.kd) ∨
        (∃ pv, s.prev = some pv ∧ pv.endPacket = none ∧ p.bit = s.phase ∧
          s1.prev = some { pv with endPacket := some (p.pn, s.now) } ∧
          s1.kd = some (s.now + s.pto * Gen.keyDiscardPtoFactor)))
      (hfirst : s1.firstPn = s.firstPn)
  /-- the peer's key update -/
  | remote (hsel : select s p = .next) (hseal : p.sealGen = s.next) (hbit : p.bit ≠ s.phase)
      (hvalid : Gen.kuUpdateInvalid p.pn s.rxPacket (prevUnacked s) = false)
      (hcur : s1.cur = s.next) (hph : s1.phase = !s.phase) (hnext : s1.next = some s.sess)
      (hprev : ∃ c, s.cur = some c ∧ s1.prev = some ⟨c, some (p.pn, s.now), true⟩)
      (hkd : s1.kd = some (s.now + s.pto * Gen.keyDiscardPtoFactor))
      (hfirst : s1.firstPn = some s.nextPn)

theorem decryptPacket_ok {s : State} (hwf : WF s) {p : Pkt} {s1 : State} {n : Nat}
    (h : decryptPacket s p = .ok s1 n) :
    n = p.pn ∧ SameRx s s1 ∧ WF s1 ∧ p.rsv = false ∧
    (∃ g', p.sealGen = some g' ∧ g' ∈ installed s ∧ p.bit = par g') ∧ Moved s p s1 := by
  obtain ⟨g', hg1, hg2, hg3, hselc, hselp, hseln⟩ := select_spec hwf p
  have hwf' := hwf
  obtain ⟨g, hc, hn, hs, hph, hpv, hkd1, hkd2⟩ := hwf
  unfold decryptPacket at h
  simp only at h
  split at h
  · simp at h
  · simp at h
  · simp at h
  · rename_i n' a i hb
    obtain ⟨hn', hrsv, hi, hsg, _, ha, hinv⟩ := decryptBody_ok hb
    have hseal : p.sealGen = some g' := by rw [← hsg, hg1]
    by_cases hsn : select s p = .next
    · -- the peer's update
      have hi' : i = true := by simp [hi, hsn]
      obtain ⟨hn1, hbit, hend⟩ := hseln hsn
      have ha' : a = false := by
        rw [ha]
        cases hp : s.prev with
        | none => rfl
        | some pv => simp [Gen.kuOutgoingAcked, hbit]
      subst hi' ha'
      simp only [Bool.false_eq_true, if_false, if_true] at h
      split at h
      · simp at h
      · rename_i s2 hu
        obtain ⟨hsame2, hkd2', c, nn, hc2, hn2, hc2', hn2', hs2', hp2', hph2', hf2'⟩ := updateKeys_same hu
        split at h
        · simp at h
        · rename_i s3 hk
          obtain ⟨hsame3, hp3, hc3, hn3, hs3, hph3, hswk3, hps3, hf3, pv3, e3, te3, hpv3, he3, hkd3⟩ := setKD_same hk
          simp only [Dec.ok.injEq] at h
          obtain ⟨h1, h2⟩ := h
          subst h1 h2
          have hcg : c = g := by rw [hc] at hc2; simp at hc2; exact hc2.symm
          have hng : nn = g + 1 := by rw [hn] at hn2; simp at hn2; exact hn2.symm
          have hpv3' : pv3 = ⟨c, some (n', s.now), true⟩ := by rw [hp2'] at hpv3; simp at hpv3; exact hpv3.symm
          have hte : te3 = s.now := by rw [hpv3'] at he3; simp at he3; exact he3.2.symm
          have hpto : s2.pto = s.pto := hsame2.2.2.2.2.2.2.1
          refine ⟨hn', SameRx.trans hsame2 hsame3, ?_, hrsv, ⟨g', hseal, hg2, hg3⟩, ?_⟩
          · refine ⟨g + 1, by rw [hc3, hc2', hng], by rw [hn3, hn2', hs], by rw [hs3, hs2', hs], ?_, ?_, ?_, ?_⟩
            · rw [hph3, hph2', hph, par_succ]
            · intro pv hpv'; rw [hp3, hp2'] at hpv'; simp at hpv'; subst hpv'; simp [hcg]
            · intro t ht
              rw [hkd3] at ht; simp at ht
              refine ⟨pv3, e3, te3, by rw [hp3]; exact hpv3, he3, ?_⟩
              rw [← ht, hsame3.2.2.2.2.2.2.1]
            · intro _ pv e te hpv' he'
              rw [hp3, hpv3] at hpv'; simp at hpv'; subst hpv'
              rw [he3] at he'; simp at he'
              rw [hkd3, hsame3.2.2.2.2.2.2.1, he'.2]
          · refine Moved.remote hsn (by rw [hseal, hn1]) hbit (hinv rfl) (by rw [hc3, hc2', hn2]) (by rw [hph3, hph2'])
              (by rw [hn3, hn2']) ⟨c, hc2, by rw [hp3, hp2', hn']⟩ ?_ (by rw [hf3, hf2'])
            rw [hkd3, hte, hpto]
    · -- current or previous keys
      have hi' : i = false := by simp [hi, hsn]
      subst hi'
      simp only [Bool.false_eq_true, if_false] at h
      cases ha2 : a with
      | false =>
        subst ha2
        simp only [Bool.false_eq_true, if_false, Dec.ok.injEq] at h
        obtain ⟨h1, h2⟩ := h
        subst h1 h2
        exact ⟨hn', SameRx.refl s, hwf', hrsv, ⟨g', hseal, hg2, hg3⟩,
          Moved.same hsn rfl rfl rfl rfl rfl rfl (Or.inl ⟨rfl, rfl⟩) rfl⟩
      | true =>
        subst ha2
        simp only [if_true] at h
        cases hp : s.prev with
        | none => rw [hp] at ha; simp at ha
        | some pv =>
          rw [hp] at ha h
          simp only [Gen.kuOutgoingAcked] at ha
          have hen : pv.endPacket = none := by
            cases he : pv.endPacket with
            | none => rfl
            | some x => rw [he] at ha; simp at ha
          have hbit : p.bit = s.phase := by
            rw [hen] at ha; simpa using ha.symm
          simp only at h
          split at h
          · simp at h
          · rename_i s2 hk
            obtain ⟨hsame, hp2, hc2, hn2, hs2, hph2, hswk2, hps2, hf2, pv2, e2, te2, hpv2, he2, hkd2'⟩ := setKD_same hk
            simp only [Dec.ok.injEq] at h
            obtain ⟨h1, h2⟩ := h
            subst h1 h2
            simp only at hsame hp2 hc2 hn2 hs2 hph2 hswk2 hps2 hf2 hpv2 hkd2'
            have hpv2' : pv2 = { pv with endPacket := some (n', s.now) } := by
              simp at hpv2; exact hpv2.symm
            have hte : te2 = s.now := by rw [hpv2'] at he2; simp at he2; exact he2.2.symm
            refine ⟨hn', hsame, ?_, hrsv, ⟨g', hseal, hg2, hg3⟩, ?_⟩
            · refine ⟨g, by rw [hc2, hc], by rw [hn2, hn], by rw [hs2, hs], by rw [hph2, hph], ?_, ?_, ?_⟩
              · intro pv' hpv'; rw [hp2] at hpv'; simp at hpv'; subst hpv'; exact hpv pv hp
              · intro t ht; rw [hkd2'] at ht; simp at ht
                exact ⟨pv2, e2, te2, by rw [hp2]; simpa using hpv2, he2, by rw [← ht, hsame.2.2.2.2.2.2.1]⟩
              · intro _ pv' e te hpv' he'
                rw [hp2] at hpv'; simp at hpv'; subst hpv'
                simp at he'
                rw [hkd2', hsame.2.2.2.2.2.2.1, hte, he'.2]
            · refine Moved.same hsn hc2 hph2 hn2 hs2 hswk2 hps2 (Or.inr ⟨pv, hp, hen, hbit, ?_, ?_⟩) hf2
              · rw [hp2, hn']
              · rw [hkd2', hte]


theorem decryptBody_ne_panic {s : State} (hwf : WF s) (p : Pkt) : decryptBody s p ≠ .panic := by
  obtain ⟨g', hg1, _⟩ := select_spec hwf p
  unfold decryptBody
  simp only [hg1]
  split
  · simp
  · split
    · simp
    · split <;> simp

/-- a packet that is not sealed with the generation of the selected key is dropped -/
theorem decryptBody_drop {s : State} (hwf : WF s) (p : Pkt) (h : p.sealGen ≠ selectedGen s (select s p)) :
    decryptBody s p = .drop := by
  obtain ⟨g', hg1, _⟩ := select_spec hwf p
  unfold decryptBody
  simp only [hg1]
  rw [hg1] at h
  simp [h]

/-- an error is reported only for a packet that opened under the selected key -/
theorem decryptBody_err {s : State} {p : Pkt} {e : Err} (h : decryptBody s p = .err e) :
    p.sealGen = selectedGen s (select s p) ∧ p.sealGen ≠ none ∧
    ((e = .protocolViolation ∧ p.rsv = true) ∨
     (e = .keyUpdateError ∧ p.rsv = false ∧ select s p = .next ∧
        Gen.kuUpdateInvalid p.pn s.rxPacket (prevUnacked s) = true)) := by
  unfold decryptBody at h
  simp only at h
  split at h
  · simp at h
  · rename_i g hg
    split at h
    · simp at h
    · rename_i hs
      have hs' : p.sealGen = some g := by simpa using hs
      split at h
      · rename_i hr
        simp only [Body.err.injEq] at h
        exact ⟨by rw [hg, hs'], by simp [hs'], Or.inl ⟨h.symm, hr⟩⟩
      · rename_i hr
        split at h
        · rename_i hk
          simp only [Body.err.injEq] at h
          exact ⟨by rw [hg, hs'], by simp [hs'], Or.inr ⟨h.symm, by simpa using hr, hk.1, hk.2⟩⟩
        · simp at h

theorem decryptPacket_drop {s : State} (hwf : WF s) (p : Pkt) (h : p.sealGen ≠ selectedGen s (select s p)) :
    decryptPacket s p = .drop := by
  unfold decryptPacket
  simp only [decryptBody_drop hwf p h]

theorem decryptPacket_err {s : State} {p : Pkt} {e : Err} (h : decryptPacket s p = .err e) :
    decryptBody s p = .err e := by
  unfold decryptPacket at h
  simp only at h
  split at h
  · simp at h
  · simp at h
  · rename_i e' hb; simp only [Dec.err.injEq] at h; rw [hb, h]
  · rename_i n a i hb
    split at h
    · simp at h
    · split at h
      · split at h
        · simp at h
        · split at h <;> simp at h
      · simp at h

theorem decryptPacket_ne_panic {s : State} (hwf : WF s) (p : Pkt) : decryptPacket s p ≠ .panic := by
  obtain ⟨g', hg1, hg2, hg3, hselc, hselp, hseln⟩ := select_spec hwf p
  obtain ⟨g, hc, hn, hs, hph, hpv, hkd1, hkd2⟩ := hwf
  have hbp := decryptBody_ne_panic ⟨g, hc, hn, hs, hph, hpv, hkd1, hkd2⟩ p
  unfold decryptPacket
  simp only
  split
  · rename_i hb; exact absurd hb hbp
  · simp
  · simp
  · rename_i n a i hb
    obtain ⟨hn', hrsv, hi, hsg, _, ha, hinv⟩ := decryptBody_ok hb
    have hupd : ∀ s1 : State, s1.cur = s.cur → s1.next = s.next → s1.prev = s.prev →
        (match updateKeys s1 (some (n, s1.now)) true with
          | none => Dec.panic
          | some s2 => match setKeyDiscardTimer s2 with
            | none => Dec.panic
            | some s3 => Dec.ok s3 n) ≠ Dec.panic := by
      intro s1 hc1 hn1 _
      have hu : updateKeys s1 (some (n, s1.now)) true =
          some { s1 with phaseSize := s1.confLimit - Gen.keyUpdateMargin, cur := some (g + 1), next := some s1.sess,
                         sess := s1.sess + 1, swk := 0, prev := some ⟨g, some (n, s1.now), true⟩, phase := !s1.phase,
                         firstPn := some s1.nextPn } := by
        simp [updateKeys, hc1, hn1, hc, hn]
      rw [hu]
      simp [setKeyDiscardTimer]
    cases a with
    | false =>
      simp only [Bool.false_eq_true, if_false]
      cases i with
      | false => simp
      | true => simp only [if_true]; exact hupd s rfl rfl rfl
    | true =>
      simp only [if_true]
      cases hp : s.prev with
      | none =>
        simp only
        cases i with
        | false => simp
        | true => simp only [if_true]; exact hupd s rfl rfl rfl
      | some pv =>
        -- confirmation and incoming update exclude each other
        rw [hp] at ha
        simp only [Gen.kuOutgoingAcked] at ha
        have hbit : p.bit = s.phase := by
          have := ha.symm; simp at this; exact this.2
        have hi' : i = false := by
          cases i with
          | false => rfl
          | true =>
            have hsn : select s p = .next := by simpa using hi.symm
            exact absurd hbit (hseln hsn).2.1
        subst hi'
        simp [setKeyDiscardTimer]


theorem countFailure_keys (s : State) :
    (countFailure s).phase = s.phase ∧ (countFailure s).cur = s.cur ∧ (countFailure s).prev = s.prev ∧
    (countFailure s).next = s.next ∧ (countFailure s).sess = s.sess ∧ (countFailure s).dedup = s.dedup ∧
    (countFailure s).rxPacket = s.rxPacket ∧ (countFailure s).authed = s.authed ∧ (countFailure s).swk = s.swk ∧
    (countFailure s).phaseSize = s.phaseSize ∧ (countFailure s).now = s.now ∧ (countFailure s).fail = s.fail + 1 := by
  unfold countFailure
  simp only
  split <;> simp

theorem countFailure_below_limit (s : State) (h : s.fail + 1 ≤ s.limit) :
    countFailure s = { s with fail := s.fail + 1 } := by
  unfold countFailure
  have : Gen.kuIntegrityLimitExceeded (s.fail + 1) s.limit = false := by
    simp [Gen.kuIntegrityLimitExceeded]; omega
  simp [this]

theorem countFailure_closed (s : State) (h : s.life ≠ .est) :
    countFailure s = { s with fail := s.fail + 1 } := by
  unfold countFailure
  simp [h]

theorem countFailure_wf {s : State} (hwf : WF s) : WF (countFailure s) := by
  obtain ⟨g, hc, hn, hs, hph, hpv, hkd1, hkd2⟩ := hwf
  unfold countFailure
  simp only
  split
  · exact ⟨g, hc, hn, hs, hph, hpv, by intro t ht; simp at ht, by intro hl; simp at hl⟩
  · exact ⟨g, hc, hn, hs, hph, hpv, hkd1, hkd2⟩

theorem handlePacket_ok {s : State} {p : Pkt} {s1 : State} {n : Nat} (h : decryptPacket s p = .ok s1 n) :
    handlePacket s p =
      (let r := Dedup.insert s1.dedup n
       let s2 := { s1 with dedup := r.1 }
       if r.2 then (s2, .res true false)
       else
        let s3 := if s2.life = .est then
            { s2 with authed := s2.authed + 1, rxPacket := if n ≥ s2.rxPacket then n else s2.rxPacket }
          else s2
        (s3, .res true (decide (s3.life ≠ .drained)))) := by
  unfold handlePacket
  simp only [h]

theorem handlePacket_wf {s : State} (hwf : WF s) (p : Pkt) :
    (handlePacket s p).2 ≠ .panic ∧ WF (handlePacket s p).1 := by
  have hnp := decryptPacket_ne_panic hwf p
  cases hd : decryptPacket s p with
  | panic => exact absurd hd hnp
  | err e =>
    unfold handlePacket
    simp only [hd]
    obtain ⟨g, hc, hn, hs, hph, hpv, hkd1, hkd2⟩ := hwf
    split
    · exact ⟨by simp, g, hc, hn, hs, hph, hpv, hkd1, hkd2⟩
    · exact ⟨by simp, g, hc, hn, hs, hph, hpv, by intro t ht; simp at ht, by intro hl; simp at hl⟩
  | drop =>
    unfold handlePacket
    simp only [hd]
    obtain ⟨g, hc, hrest⟩ := hwf
    simp only [hc]
    exact ⟨by simp, countFailure_wf ⟨g, hc, hrest⟩⟩
  | ok s1 n =>
    obtain ⟨_, hsame, hwf1, _⟩ := decryptPacket_ok hwf hd
    rw [handlePacket_ok hd]
    obtain ⟨g, hc, hn, hs, hph, hpv, hkd1, hkd2⟩ := hwf1
    simp only
    split
    · exact ⟨by simp, g, hc, hn, hs, hph, hpv, hkd1, hkd2⟩
    · split
      · exact ⟨by simp, g, hc, hn, hs, hph, hpv, hkd1, hkd2⟩
      · exact ⟨by simp, g, hc, hn, hs, hph, hpv, hkd1, hkd2⟩

/-- the duplicate filter sees exactly the packet numbers that opened, and a processed one was reported fresh -/
theorem handlePacket_dedup {s : State} (hwf : WF s) (p : Pkt) :
    ((handlePacket s p).1.dedup = s.dedup ∧ (handlePacket s p).2 ≠ .res true true) ∨
    ((handlePacket s p).1.dedup = (Dedup.insert s.dedup p.pn).1 ∧
      ((handlePacket s p).2 = .res true true → (Dedup.insert s.dedup p.pn).2 = false)) := by
  have hnp := decryptPacket_ne_panic hwf p
  cases hd : decryptPacket s p with
  | panic => exact absurd hd hnp
  | err e =>
    left
    unfold handlePacket
    simp only [hd]
    split <;> simp
  | drop =>
    left
    unfold handlePacket
    simp only [hd]
    obtain ⟨g, hc, _⟩ := hwf
    simp only [hc]
    exact ⟨(countFailure_keys s).2.2.2.2.2.1, by simp⟩
  | ok s1 n =>
    right
    obtain ⟨hn, hsame, _, _⟩ := decryptPacket_ok hwf hd
    rw [handlePacket_ok hd]
    subst hn
    have hdd : s1.dedup = s.dedup := hsame.1
    rw [hdd]
    simp only
    cases hdup : (Dedup.insert s.dedup p.pn).2 with
    | true => simp
    | false =>
      simp only [Bool.false_eq_true, if_false]
      split <;> simp


theorem wf_kd_none {s : State} (hwf : WF s) (hp : s.prev = none) : s.kd = none := by
  obtain ⟨g, _, _, _, _, _, hkd1, _⟩ := hwf
  cases hk : s.kd with
  | none => rfl
  | some t =>
    obtain ⟨pv, _, _, hpv, _⟩ := hkd1 t hk
    rw [hp] at hpv; simp at hpv

theorem forceKeyUpdate_spec {s : State} (hwf : WF s) :
    ∃ s', forceKeyUpdate s = some s' ∧ WF s' ∧ s'.dedup = s.dedup ∧ s'.rxPacket = s.rxPacket ∧
      s'.nextPn = s.nextPn ∧ s'.largestAcked = s.largestAcked ∧ s'.sentLog = s.sentLog ∧
      ((s' = s ∧ (s.life ≠ .est ∨ s.prev.isSome ∨ unconfirmed s = true)) ∨
       (s.life = .est ∧ s.prev = none ∧ unconfirmed s = false ∧ s'.cur = s.next ∧ s'.phase = (!s.phase) ∧
         s'.firstPn = some s.nextPn ∧ ∃ c, s.cur = some c ∧ s'.prev = some ⟨c, none, false⟩)) := by
  have hwf' := hwf
  obtain ⟨g, hc, hn, hs, hph, hpv, hkd1, hkd2⟩ := hwf
  by_cases hl : s.life ≠ .est
  · exact ⟨s, by simp [forceKeyUpdate, hl], hwf', rfl, rfl, rfl, rfl, rfl, Or.inl ⟨rfl, Or.inl hl⟩⟩
  · have hl' : s.life = .est := by simpa using hl
    cases hp : s.prev with
    | some pv =>
      exact ⟨s, by simp [forceKeyUpdate, hl', hp], hwf', rfl, rfl, rfl, rfl, rfl,
        Or.inl ⟨rfl, Or.inr (Or.inl (by simp [hp]))⟩⟩
    | none =>
      cases hu : unconfirmed s with
      | true =>
        exact ⟨s, by simp [forceKeyUpdate, hl', hp, hu], hwf', rfl, rfl, rfl, rfl, rfl,
          Or.inl ⟨rfl, Or.inr (Or.inr rfl)⟩⟩
      | false =>
        have hk := wf_kd_none hwf' hp
        refine ⟨{ s with phaseSize := s.confLimit - Gen.keyUpdateMargin, cur := some (g + 1), next := some s.sess,
                         sess := s.sess + 1, swk := 0, prev := some ⟨g, none, false⟩, phase := !s.phase,
                         firstPn := some s.nextPn },
                by simp [forceKeyUpdate, hl', hp, hu, updateKeys, hc, hn], ?_, rfl, rfl, rfl, rfl, rfl,
                Or.inr ⟨hl', rfl, rfl, by simp [hn], rfl, rfl, g, hc, rfl⟩⟩
        refine ⟨g + 1, rfl, by simp [hs], by simp [hs], by simp [hph, par_succ], ?_, ?_, ?_⟩
        · intro pv h; simp at h; subst h; rfl
        · intro t ht; simp [hk] at ht
        · intro _ pv e te h he; simp at h; subst h; simp at he

theorem clearUnacked_wf {s : State} (hwf : WF s) :
    WF (clearUnacked s) ∧ (clearUnacked s).dedup = s.dedup ∧ (clearUnacked s).rxPacket = s.rxPacket := by
  obtain ⟨g, hc, hn, hs, hph, hpv, hkd1, hkd2⟩ := hwf
  unfold clearUnacked
  cases hp : s.prev with
  | none => exact ⟨⟨g, hc, hn, hs, hph, hpv, hkd1, hkd2⟩, rfl, rfl⟩
  | some pv =>
    refine ⟨⟨g, hc, hn, hs, hph, ?_, ?_, ?_⟩, rfl, rfl⟩
    · intro pv' h; simp at h; subst h; exact hpv pv hp
    · intro t ht
      obtain ⟨pv', e, te, h1, h2, h3⟩ := hkd1 t ht
      rw [hp] at h1; simp at h1; subst h1
      exact ⟨_, e, te, rfl, h2, h3⟩
    · intro hl pv' e te h he
      simp at h; subst h
      exact hkd2 hl pv e te hp he

theorem send_spec {s : State} (hwf : WF s) :
    ∃ r, send s = some r ∧ WF r.1 ∧ r.1.dedup = s.dedup ∧ r.1.rxPacket = s.rxPacket := by
  obtain ⟨hw1, hd1, hr1⟩ := clearUnacked_wf hwf
  unfold send
  simp only
  by_cases hr : Gen.kuRoutineUpdateDue (clearUnacked s).swk (clearUnacked s).phaseSize = true
  · obtain ⟨s2, h2, hw2, hd2, hr2, _⟩ := forceKeyUpdate_spec hw1
    simp only [hr, if_true, h2]
    obtain ⟨g, hc, hrest⟩ := hw2
    simp only [hc]
    exact ⟨_, rfl, ⟨g, rfl, hrest⟩, by simp [hd2, hd1], by simp [hr2, hr1]⟩
  · simp only [hr, Bool.false_eq_true, if_false]
    obtain ⟨g, hc, hrest⟩ := hw1
    simp only [hc]
    exact ⟨_, rfl, ⟨g, rfl, hrest⟩, by simp [hd1], by simp [hr1]⟩

theorem closeArm_wf {s : State} (hwf : WF s) : WF (closeArm s) ∧ (closeArm s).dedup = s.dedup := by
  obtain ⟨g, hc, hn, hs, hph, hpv, hkd1, hkd2⟩ := hwf
  unfold closeArm
  cases hct : s.closeT with
  | none => exact ⟨⟨g, hc, hn, hs, hph, hpv, hkd1, hkd2⟩, rfl⟩
  | some t =>
    simp only
    split
    · exact ⟨⟨g, hc, hn, hs, hph, hpv, hkd1, by intro hl; simp at hl⟩, rfl⟩
    · exact ⟨⟨g, hc, hn, hs, hph, hpv, hkd1, hkd2⟩, rfl⟩

theorem keyDiscardArm_wf {s : State} (hwf : WF s) : WF (keyDiscardArm s) ∧ (keyDiscardArm s).dedup = s.dedup := by
  obtain ⟨g, hc, hn, hs, hph, hpv, hkd1, hkd2⟩ := hwf
  unfold keyDiscardArm
  cases hk : s.kd with
  | none => exact ⟨⟨g, hc, hn, hs, hph, hpv, hkd1, hkd2⟩, rfl⟩
  | some t =>
    simp only
    split
    · exact ⟨⟨g, hc, hn, hs, hph, by intro pv h; simp at h, by intro t h; simp at h,
        by intro _ pv e te h; simp at h⟩, rfl⟩
    · exact ⟨⟨g, hc, hn, hs, hph, hpv, hkd1, hkd2⟩, rfl⟩

theorem timeout_wf {s : State} (hwf : WF s) : WF (timeout s) ∧ (timeout s).dedup = s.dedup := by
  unfold timeout
  obtain ⟨h1, d1⟩ := closeArm_wf hwf
  obtain ⟨h2, d2⟩ := keyDiscardArm_wf h1
  exact ⟨h2, by rw [d2, d1]⟩

/-- an acknowledgement changes nothing but `largestAcked` -/
theorem step_ackd {s s' : State} {pn : Nat} (h : step s (.ackd pn) = some s') :
    ∃ la, s' = { s with largestAcked := la } ∧ (la = s.largestAcked ∨ (la = some pn ∧ pn < s.nextPn)) := by
  by_cases hlt : pn < s.nextPn
  · cases hla : s.largestAcked with
    | none =>
      simp [step, ackd, hlt, hla] at h
      exact ⟨some pn, h.symm, Or.inr ⟨rfl, hlt⟩⟩
    | some a =>
      by_cases hge : a ≥ pn
      · simp [step, ackd, hlt, hla, hge] at h
        exact ⟨some a, h.symm, Or.inl rfl⟩
      · simp [step, ackd, hlt, hla, hge] at h
        exact ⟨some pn, h.symm, Or.inr ⟨rfl, hlt⟩⟩
  · simp [step, ackd, hlt] at h
    exact ⟨s.largestAcked, h.symm, Or.inl rfl⟩

theorem ackd_wf {s s' : State} (hwf : WF s) {pn : Nat} (h : step s (.ackd pn) = some s') : WF s' := by
  obtain ⟨la, rfl, _⟩ := step_ackd h
  obtain ⟨g, hc, hn, hs, hph, hpv, hkd1, hkd2⟩ := hwf
  exact ⟨g, hc, hn, hs, hph, hpv, hkd1, hkd2⟩

/-- totality: from a well-formed state no request reaches an `unwrap` / `expect` on `None` -/
theorem step_wf {s : State} (hwf : WF s) (o : Op) : ∃ s', step s o = some s' ∧ WF s' := by
  cases o with
  | rx p =>
    obtain ⟨hnp, hw⟩ := handlePacket_wf hwf p
    simp only [step]
    generalize hr : handlePacket s p = r at hnp hw
    obtain ⟨s', out⟩ := r
    cases out with
    | panic => simp at hnp
    | res o pr => exact ⟨s', rfl, hw⟩
  | ackd pn =>
    have : ∃ s', step s (.ackd pn) = some s' := by
      simp only [step]; split <;> exact ⟨_, rfl⟩
    obtain ⟨s', h⟩ := this
    exact ⟨s', h, ackd_wf hwf h⟩
  | update =>
    obtain ⟨s', h, hw, _⟩ := forceKeyUpdate_spec hwf
    exact ⟨s', h, hw⟩
  | send =>
    simp only [step]
    split
    · exact ⟨s, rfl, hwf⟩
    · obtain ⟨r, h, hw, _⟩ := send_spec hwf
      exact ⟨r.1, by simp [h], hw⟩
  | tick us =>
    obtain ⟨g, hc, hn, hs, hph, hpv, hkd1, hkd2⟩ := hwf
    exact ⟨_, rfl, g, hc, hn, hs, hph, hpv, hkd1, hkd2⟩
  | timeout => exact ⟨_, rfl, (timeout_wf hwf).1⟩

theorem run_wf : ∀ (ops : List Op) {s : State}, WF s → ∃ s', run s ops = some s' ∧ WF s'
  | [], s, h => ⟨s, rfl, h⟩
  | o :: os, s, h => by
    obtain ⟨s1, h1, hw1⟩ := step_wf h o
    obtain ⟨s2, h2, hw2⟩ := run_wf os hw1
    exact ⟨s2, by simp [run, h1, h2], hw2⟩


theorem step_rx {s : State} (hwf : WF s) (p : Pkt) : step s (.rx p) = some (handlePacket s p).1 := by
  obtain ⟨hnp, _⟩ := handlePacket_wf hwf p
  cases hr : handlePacket s p with
  | mk s' out =>
    rw [hr] at hnp
    cases out with
    | panic => simp at hnp
    | res o pr => simp [step, hr]

theorem step_other_dedup {s s' : State} (hwf : WF s) {o : Op} (ho : ∀ p, o ≠ .rx p) (h : step s o = some s') :
    s'.dedup = s.dedup := by
  cases o with
  | rx p => exact absurd rfl (ho p)
  | ackd pn => obtain ⟨la, rfl, _⟩ := step_ackd h; rfl
  | update =>
    obtain ⟨s2, h2, _, hd, _⟩ := forceKeyUpdate_spec hwf
    simp only [step] at h
    rw [h2] at h; simp at h; rw [← h, hd]
  | send =>
    simp only [step] at h
    split at h
    · simp at h; rw [← h]
    · obtain ⟨r, h2, _, hd, _⟩ := send_spec hwf
      rw [h2] at h; simp at h; rw [← h, hd]
  | tick us => simp only [step] at h; simp at h; rw [← h]
  | timeout => simp only [step] at h; simp at h; rw [← h]; exact (timeout_wf hwf).2

/-- at most once, over every request sequence: no packet number is processed twice, whatever happens to the keys -/
theorem processed_fresh : ∀ (ops : List Op) (s : State) (seen : Nat → Prop), WF s → Dedup.Inv s.dedup seen →
    (processed s ops).Nodup ∧ ∀ q ∈ processed s ops, ¬ seen q
  | [], s, seen, _, _ => by simp [processed]
  | o :: os, s, seen, hwf, hinv => by
    obtain ⟨s', hs', hw'⟩ := step_wf hwf o
    cases o with
    | rx p =>
      have hs'' := step_rx hwf p
      have hproc : processed s (.rx p :: os) =
          if (handlePacket s p).2 = .res true true then p.pn :: processed s' os else processed s' os := by
        rw [processed]; simp only [hs']
      rw [hproc]
      rw [hs''] at hs'
      simp only [Option.some.injEq] at hs'
      rcases handlePacket_dedup hwf p with ⟨hd, hnp⟩ | ⟨hd, hfresh⟩
      · have hinv' : Dedup.Inv s'.dedup seen := by rw [← hs', hd]; exact hinv
        simp only [hnp, if_false]
        exact processed_fresh os s' seen hw' hinv'
      · have hinv' : Dedup.Inv s'.dedup (fun q => seen q ∨ q = p.pn) := by
          rw [← hs', hd]; exact Dedup.insert_preserves s.dedup seen hinv p.pn
        obtain ⟨ih1, ih2⟩ := processed_fresh os s' _ hw' hinv'
        by_cases hpr : (handlePacket s p).2 = .res true true
        · simp only [hpr, if_true]
          have hnd := hfresh hpr
          refine ⟨List.nodup_cons.mpr ⟨fun hm => ih2 p.pn hm (Or.inr rfl), ih1⟩, ?_⟩
          intro q hq hsn
          rcases List.mem_cons.mp hq with heq | hq
          · subst heq; exact Dedup.insert_not_dup_fresh s.dedup seen hinv _ hnd hsn
          · exact ih2 q hq (Or.inl hsn)
        · simp only [hpr, if_false]
          exact ⟨ih1, fun q hq hsn => ih2 q hq (Or.inl hsn)⟩
    | ackd pn =>
      have hd := step_other_dedup hwf (o := .ackd pn) (by intro p; simp) hs'
      have hproc : processed s (.ackd pn :: os) = processed s' os := by rw [processed]; simp only [hs']
      rw [hproc]
      exact processed_fresh os s' seen hw' (by rw [hd]; exact hinv)
    | update =>
      have hd := step_other_dedup hwf (o := .update) (by intro p; simp) hs'
      have hproc : processed s (.update :: os) = processed s' os := by rw [processed]; simp only [hs']
      rw [hproc]
      exact processed_fresh os s' seen hw' (by rw [hd]; exact hinv)
    | send =>
      have hd := step_other_dedup hwf (o := .send) (by intro p; simp) hs'
      have hproc : processed s (.send :: os) = processed s' os := by rw [processed]; simp only [hs']
      rw [hproc]
      exact processed_fresh os s' seen hw' (by rw [hd]; exact hinv)
    | tick us =>
      have hd := step_other_dedup hwf (o := .tick us) (by intro p; simp) hs'
      have hproc : processed s (.tick us :: os) = processed s' os := by rw [processed]; simp only [hs']
      rw [hproc]
      exact processed_fresh os s' seen hw' (by rw [hd]; exact hinv)
    | timeout =>
      have hd := step_other_dedup hwf (o := .timeout) (by intro p; simp) hs'
      have hproc : processed s (.timeout :: os) = processed s' os := by rw [processed]; simp only [hs']
      rw [hproc]
      exact processed_fresh os s' seen hw' (by rw [hd]; exact hinv)


theorem decryptPacket_drop_inv {s : State} {p : Pkt} (h : decryptPacket s p = .drop) : decryptBody s p = .drop := by
  unfold decryptPacket at h
  simp only at h
  split at h
  · simp at h
  · assumption
  · simp at h
  · split at h
    · simp at h
    · split at h
      · split at h
        · simp at h
        · split at h <;> simp at h
      · simp at h

theorem decryptBody_drop_inv {s : State} {p : Pkt} (h : decryptBody s p = .drop) :
    p.sealGen ≠ selectedGen s (select s p) := by
  unfold decryptBody at h
  simp only at h
  split at h
  · simp at h
  · rename_i g hg
    split at h
    · rename_i hs; rw [hg]; exact hs
    · split at h
      · simp at h
      · split at h <;> simp at h

/-- a packet that is sealed with the selected key, has clean reserved bits and is not an invalid update is accepted -/
theorem decryptPacket_accepts {s : State} (hwf : WF s) (p : Pkt) (hseal : p.sealGen = selectedGen s (select s p))
    (hr : p.rsv = false)
    (hv : select s p = .next → Gen.kuUpdateInvalid p.pn s.rxPacket (prevUnacked s) = false) :
    ∃ s1, decryptPacket s p = .ok s1 p.pn := by
  cases hd : decryptPacket s p with
  | panic => exact absurd hd (decryptPacket_ne_panic hwf p)
  | drop => exact absurd hseal (decryptBody_drop_inv (decryptPacket_drop_inv hd))
  | err e =>
    obtain ⟨_, _, h | h⟩ := decryptBody_err (decryptPacket_err hd)
    · rw [hr] at h; simp at h
    · rw [hv h.2.2.1] at h; simp at h
  | ok s1 n =>
    obtain ⟨hn, _⟩ := decryptPacket_ok hwf hd
    exact ⟨s1, by rw [hn]⟩

theorem processed_of_ok {s : State} (hwf : WF s) {p : Pkt} {s1 : State} {n : Nat} (hd : decryptPacket s p = .ok s1 n)
    (hl : s.life = .est) (hfresh : (Dedup.insert s.dedup p.pn).2 = false) :
    (handlePacket s p).2 = .res true true := by
  obtain ⟨hn, hsame, _⟩ := decryptPacket_ok hwf hd
  rw [handlePacket_ok hd]
  subst hn
  have hdd : s1.dedup = s.dedup := hsame.1
  have hl1 : s1.life = .est := by rw [hsame.2.2.2.2.1, hl]
  simp [hdd, hfresh, hl1]

/-- key material after a received packet: unchanged generations, or the peer's authenticated update -/
theorem handlePacket_keys {s : State} (hwf : WF s) (p : Pkt) :
    ((handlePacket s p).1.phase = s.phase ∧ (handlePacket s p).1.cur = s.cur ∧ (handlePacket s p).1.next = s.next ∧
       (handlePacket s p).1.sess = s.sess ∧
       (∀ pv, s.prev = some pv → ∃ pv', (handlePacket s p).1.prev = some pv' ∧ pv'.gen = pv.gen) ∧
       (s.prev = none → (handlePacket s p).1.prev = none)) ∨
    ((handlePacket s p).1.phase = (!s.phase) ∧ (handlePacket s p).1.cur = s.next ∧ p.sealGen = s.next ∧
       p.bit ≠ s.phase ∧ select s p = .next ∧ Gen.kuUpdateInvalid p.pn s.rxPacket (prevUnacked s) = false ∧
       (handlePacket s p).2 = .res true (decide ((Dedup.insert s.dedup p.pn).2 = false ∧ s.life ≠ .drained)) ∧
       ∃ c, s.cur = some c ∧ (handlePacket s p).1.prev = some ⟨c, some (p.pn, s.now), true⟩) := by
  cases hd : decryptPacket s p with
  | panic => exact absurd hd (decryptPacket_ne_panic hwf p)
  | drop =>
    left
    obtain ⟨g, hc, _⟩ := hwf
    have : handlePacket s p = (countFailure s, .res false false) := by
      unfold handlePacket; simp only [hd, hc]
    rw [this]
    obtain ⟨h1, h2, h3, h4, h5, _⟩ := countFailure_keys s
    exact ⟨h1, h2, h4, h5, fun pv hp => ⟨pv, by rw [h3, hp], rfl⟩, fun hp => by rw [h3, hp]⟩
  | err e =>
    left
    unfold handlePacket
    simp only [hd]
    split
    · exact ⟨rfl, rfl, rfl, rfl, fun pv hp => ⟨pv, hp, rfl⟩, fun hp => hp⟩
    · exact ⟨rfl, rfl, rfl, rfl, fun pv hp => ⟨pv, hp, rfl⟩, fun hp => hp⟩
  | ok s1 n =>
    obtain ⟨hn, hsame, _, _, _, hm⟩ := decryptPacket_ok hwf hd
    have hfin : (handlePacket s p).1.phase = s1.phase ∧ (handlePacket s p).1.cur = s1.cur ∧
        (handlePacket s p).1.next = s1.next ∧ (handlePacket s p).1.sess = s1.sess ∧
        (handlePacket s p).1.prev = s1.prev := by
      rw [handlePacket_ok hd]
      simp only
      split
      · simp
      · split <;> simp
    obtain ⟨f1, f2, f3, f4, f5⟩ := hfin
    cases hm with
    | same _ hcur hph hnext hsess _ _ hprev =>
      left
      refine ⟨by rw [f1, hph], by rw [f2, hcur], by rw [f3, hnext], by rw [f4, hsess], ?_, ?_⟩
      · intro pv hp
        rcases hprev with ⟨h, _⟩ | ⟨pv', hp', _, _, h, _⟩
        · exact ⟨pv, by rw [f5, h, hp], rfl⟩
        · rw [hp] at hp'; simp at hp'; subst hp'
          exact ⟨{ pv with endPacket := some (p.pn, s.now) }, by rw [f5, h], rfl⟩
      · intro hp
        rcases hprev with ⟨h, _⟩ | ⟨pv', hp', _⟩
        · rw [f5, h, hp]
        · rw [hp] at hp'; simp at hp'
    | remote hsel hseal hbit hvalid hcur hph hnext hprev hkd =>
      right
      refine ⟨by rw [f1, hph], by rw [f2, hcur], hseal, hbit, hsel, hvalid, ?_, ?_⟩
      · rw [handlePacket_ok hd]
        subst hn
        have hdd : s1.dedup = s.dedup := hsame.1
        have hl1 : s1.life = s.life := hsame.2.2.2.2.1
        simp only [hdd]
        cases hdup : (Dedup.insert s.dedup p.pn).2 with
        | true => simp
        | false =>
          simp only [Bool.false_eq_true, if_false]
          by_cases hl : s1.life = .est
          · have : s.life = .est := by rw [← hl1, hl]
            simp [hl, this]
          · have hl' : ¬ s.life = .est := by rw [← hl1]; exact hl
            simp [hl', hl1]
      · obtain ⟨c, hc, hp⟩ := hprev
        exact ⟨c, hc, by rw [f5, hp]⟩


theorem closeArm_same (s : State) :
    (closeArm s).phase = s.phase ∧ (closeArm s).cur = s.cur ∧ (closeArm s).next = s.next ∧
    (closeArm s).prev = s.prev ∧ (closeArm s).kd = s.kd ∧ (closeArm s).now = s.now := by
  unfold closeArm
  split
  · split <;> simp
  · simp

theorem keyDiscardArm_same (s : State) :
    (keyDiscardArm s).phase = s.phase ∧ (keyDiscardArm s).cur = s.cur ∧ (keyDiscardArm s).next = s.next := by
  unfold keyDiscardArm
  split
  · split <;> simp
  · simp

theorem unauthentic_only_counts {s : State} (hwf : WF s) (p : Pkt)
    (h : ∀ g, p.sealGen = some g → g ∉ installed s ∨ p.bit ≠ par g) :
    handlePacket s p = (countFailure s, .res false false) := by
  obtain ⟨g', hg1, hg2, hg3, _⟩ := select_spec hwf p
  have hne : p.sealGen ≠ selectedGen s (select s p) := by
    rw [hg1]
    intro hs
    rcases h g' hs with h1 | h1
    · exact h1 hg2
    · exact h1 hg3
  have hd := decryptPacket_drop hwf p hne
  obtain ⟨g, hc, _⟩ := hwf
  unfold handlePacket
  simp only [hd, hc]

theorem send_keys {s : State} (hwf : WF s) {r : State × Bool × Nat} (h : send s = some r) :
    r.2.1 = r.1.phase ∧ r.1.cur = some r.2.2 ∧
    ((r.1.phase = s.phase ∧ r.1.cur = s.cur ∧ r.1.next = s.next ∧
        (∀ pv, s.prev = some pv → r.1.prev = some { pv with unacked := false }) ∧ (s.prev = none → r.1.prev = none)) ∨
     (s.life = .est ∧ s.prev = none ∧ Gen.kuRoutineUpdateDue s.swk s.phaseSize = true ∧
        r.1.phase = (!s.phase) ∧ r.1.cur = s.next ∧ ∃ c, s.cur = some c ∧ r.1.prev = some ⟨c, none, false⟩)) := by
  obtain ⟨hw1, _, _⟩ := clearUnacked_wf hwf
  have hcu : (clearUnacked s).phase = s.phase ∧ (clearUnacked s).cur = s.cur ∧ (clearUnacked s).next = s.next ∧
      (clearUnacked s).life = s.life ∧ (clearUnacked s).swk = s.swk ∧ (clearUnacked s).phaseSize = s.phaseSize ∧
      (∀ pv, s.prev = some pv → (clearUnacked s).prev = some { pv with unacked := false }) ∧
      (s.prev = none → (clearUnacked s).prev = none) := by
    unfold clearUnacked
    cases hp : s.prev <;> simp [hp]
  obtain ⟨c1, c2, c3, c4, c5, c6, c7, c8⟩ := hcu
  unfold send at h
  simp only at h
  by_cases hr : Gen.kuRoutineUpdateDue (clearUnacked s).swk (clearUnacked s).phaseSize = true
  · obtain ⟨s2, h2, hw2, _, _, _, _, _, hcase⟩ := forceKeyUpdate_spec hw1
    simp only [hr, if_true, h2] at h
    obtain ⟨g, hc, _⟩ := hw2
    simp only [hc, Option.some.injEq] at h
    subst h
    refine ⟨rfl, rfl, ?_⟩
    rcases hcase with ⟨rfl, _⟩ | ⟨hl, hp, _, hcur, hph, _, c, hcc, hpp⟩
    · left; exact ⟨c1, by simp [← hc, c2], c3, c7, c8⟩
    · right
      have hpn : s.prev = none := by
        cases hsp : s.prev with
        | none => rfl
        | some pv => rw [c7 pv hsp] at hp; simp at hp
      refine ⟨by rw [← c4, hl], hpn, by rw [← c5, ← c6]; exact hr, by simp [hph, c1], ?_, c, by rw [← c2, hcc], hpp⟩
      simp only
      rw [← hc, hcur, c3]
  · simp only [hr, Bool.false_eq_true, if_false] at h
    obtain ⟨g, hc, _⟩ := hw1
    simp only [hc, Option.some.injEq] at h
    subst h
    exact ⟨rfl, rfl, Or.inl ⟨c1, by simp [← hc, c2], c3, c7, c8⟩⟩

/-- the key phase (and with it the generation in use) moves only by an authenticated packet of the next generation
    or by a local update (forced, or the routine one when a packet is built) -/
theorem phase_change {s s' : State} (hwf : WF s) {o : Op} (h : step s o = some s') (hne : s'.phase ≠ s.phase) :
    s'.cur = s.next ∧
    ((∃ p, o = .rx p ∧ p.sealGen = s.next ∧ p.bit ≠ s.phase ∧
        Gen.kuUpdateInvalid p.pn s.rxPacket (prevUnacked s) = false) ∨
     ((o = .update ∨ o = .send) ∧ s.life = .est ∧ s.prev = none)) := by
  cases o with
  | rx p =>
    rw [step_rx hwf p] at h
    simp only [Option.some.injEq] at h
    subst h
    rcases handlePacket_keys hwf p with ⟨h1, _⟩ | ⟨_, h2, h3, h4, _, h6, _⟩
    · exact absurd h1 hne
    · exact ⟨h2, Or.inl ⟨p, rfl, h3, h4, h6⟩⟩
  | ackd pn => obtain ⟨la, rfl, _⟩ := step_ackd h; exact absurd rfl hne
  | update =>
    obtain ⟨s2, h2, _, _, _, _, _, _, hcase⟩ := forceKeyUpdate_spec hwf
    simp only [step] at h
    rw [h2] at h; simp at h; subst h
    rcases hcase with ⟨rfl, _⟩ | ⟨hl, hp, _, hcur, _⟩
    · exact absurd rfl hne
    · exact ⟨hcur, Or.inr ⟨Or.inl rfl, hl, hp⟩⟩
  | send =>
    simp only [step] at h
    split at h
    · simp at h; subst h; exact absurd rfl hne
    · obtain ⟨r, hr, _⟩ := send_spec hwf
      rw [hr] at h; simp at h; subst h
      rcases (send_keys hwf hr).2.2 with ⟨h1, _⟩ | ⟨hl, hp, _, _, hcur, _⟩
      · exact absurd h1 hne
      · exact ⟨hcur, Or.inr ⟨Or.inr rfl, hl, hp⟩⟩
  | tick us => simp only [step] at h; simp at h; subst h; exact absurd rfl hne
  | timeout =>
    simp only [step] at h; simp at h; subst h
    exfalso; apply hne
    unfold timeout
    rw [(keyDiscardArm_same _).1, (closeArm_same s).1]

/-- the previous receive keys disappear only through the KeyDiscard timer, and only at or after its deadline
    (receipt time of the first packet of the new generation + 3 PTO) -/
theorem prev_removed {s s' : State} (hwf : WF s) {o : Op} (h : step s o = some s') {pv : Prev}
    (hp : s.prev = some pv) (hn : s'.prev = none) :
    o = .timeout ∧ ∃ e te, pv.endPacket = some (e, te) ∧ te + s.pto * Gen.keyDiscardPtoFactor ≤ s.now := by
  cases o with
  | rx p =>
    rw [step_rx hwf p] at h
    simp only [Option.some.injEq] at h
    subst h
    rcases handlePacket_keys hwf p with ⟨_, _, _, _, h5, _⟩ | ⟨_, _, _, _, _, _, _, c, _, h8⟩
    · obtain ⟨pv', h', _⟩ := h5 pv hp
      rw [h'] at hn; simp at hn
    · rw [h8] at hn; simp at hn
  | ackd pn => obtain ⟨la, rfl, _⟩ := step_ackd h; rw [hp] at hn; simp at hn
  | update =>
    obtain ⟨s2, h2, _, _, _, _, _, _, hcase⟩ := forceKeyUpdate_spec hwf
    simp only [step] at h
    rw [h2] at h; simp at h; subst h
    rcases hcase with ⟨rfl, _⟩ | ⟨_, hp', _⟩
    · rw [hp] at hn; simp at hn
    · rw [hp] at hp'; simp at hp'
  | send =>
    simp only [step] at h
    split at h
    · simp at h; subst h; rw [hp] at hn; simp at hn
    · obtain ⟨r, hr, _⟩ := send_spec hwf
      rw [hr] at h; simp at h; subst h
      rcases (send_keys hwf hr).2.2 with ⟨_, _, _, h4, _⟩ | ⟨_, hp', _⟩
      · rw [h4 pv hp] at hn; simp at hn
      · rw [hp] at hp'; simp at hp'
  | tick us => simp only [step] at h; simp at h; subst h; rw [hp] at hn; simp at hn
  | timeout =>
    refine ⟨rfl, ?_⟩
    simp only [step] at h; simp at h; subst h
    obtain ⟨g, _, _, _, _, _, hkd1, _⟩ := hwf
    have hc : (closeArm s).prev = s.prev ∧ (closeArm s).kd = s.kd ∧ (closeArm s).now = s.now :=
      ⟨(closeArm_same s).2.2.2.1, (closeArm_same s).2.2.2.2.1, (closeArm_same s).2.2.2.2.2⟩
    unfold timeout keyDiscardArm at hn
    rw [hc.2.1, hc.2.2] at hn
    cases hk : s.kd with
    | none => rw [hk] at hn; simp only at hn; rw [hc.1, hp] at hn; simp at hn
    | some t =>
      rw [hk] at hn
      simp only at hn
      obtain ⟨pv', e, te, h1, h2, h3⟩ := hkd1 t hk
      rw [hp] at h1; simp at h1; subst h1
      by_cases hle : t ≤ s.now
      · exact ⟨e, te, h2, by omega⟩
      · simp only [hle, if_false] at hn; rw [hc.1, hp] at hn; simp at hn

/-- ... and they do disappear as soon as timeouts are serviced at or after that deadline -/
theorem prev_removed_on_time {s : State} (hwf : WF s) (hl : s.life = .est) {pv : Prev} {e te : Nat}
    (hp : s.prev = some pv) (he : pv.endPacket = some (e, te))
    (hdue : te + s.pto * Gen.keyDiscardPtoFactor ≤ s.now) : (timeout s).prev = none := by
  obtain ⟨g, _, _, _, _, _, _, hkd2⟩ := hwf
  have hk := hkd2 hl pv e te hp he
  have hc : (closeArm s).kd = s.kd ∧ (closeArm s).now = s.now :=
    ⟨(closeArm_same s).2.2.2.2.1, (closeArm_same s).2.2.2.2.2⟩
  unfold timeout keyDiscardArm
  rw [hc.1, hc.2, hk]
  simp only [hdue, if_true]

/-- whatever is reported as opened carries the key-phase bit of an installed generation it was sealed with -/
theorem opened_generation {s : State} (hwf : WF s) (p : Pkt) {b : Bool} (h : (handlePacket s p).2 = .res true b) :
    ∃ g, p.sealGen = some g ∧ g ∈ installed s ∧ p.bit = par g := by
  obtain ⟨g', hg1, hg2, hg3, _⟩ := select_spec hwf p
  cases hd : decryptPacket s p with
  | panic => exact absurd hd (decryptPacket_ne_panic hwf p)
  | drop =>
    obtain ⟨g, hc, _⟩ := hwf
    have : handlePacket s p = (countFailure s, .res false false) := by
      unfold handlePacket; simp only [hd, hc]
    rw [this] at h; simp at h
  | err e =>
    obtain ⟨h1, _, _⟩ := decryptBody_err (decryptPacket_err hd)
    exact ⟨g', by rw [h1, hg1], hg2, hg3⟩
  | ok s1 n =>
    exact (decryptPacket_ok hwf hd).2.2.2.2.1


/-- bookkeeping of what was sent and acknowledged: only packets that were sent are acknowledged; `firstPn` (once set)
    is at most the next packet number; before any key update the generation is 0; and every packet numbered from
    `firstPn` on was sent with the keys of the current generation -/
def AckInv (s : State) : Prop :=
  (∀ a, s.largestAcked = some a → a < s.nextPn) ∧
  (∀ f, s.firstPn = some f → f ≤ s.nextPn) ∧
  (s.firstPn = none → s.cur = some 0) ∧
  (∀ pn f, s.firstPn = some f → f ≤ pn → pn < s.nextPn → ∃ g, s.cur = some g ∧ (pn, g) ∈ s.sentLog)

theorem init_ackinv : AckInv init := by
  refine ⟨?_, ?_, ?_, ?_⟩ <;> simp [init]

/-- `AckInv` only reads these five fields -/
theorem AckInv.congr {s s' : State} (h : AckInv s) (h1 : s'.largestAcked = s.largestAcked) (h2 : s'.nextPn = s.nextPn)
    (h3 : s'.firstPn = s.firstPn) (h4 : s'.cur = s.cur) (h5 : s'.sentLog = s.sentLog) : AckInv s' := by
  unfold AckInv at *
  rw [h1, h2, h3, h4, h5]; exact h

/-- after a key update (local or the peer's) the phase starts at the next packet number -/
theorem AckInv.updated {s s' : State} (h : AckInv s) (h1 : s'.largestAcked = s.largestAcked) (h2 : s'.nextPn = s.nextPn)
    (h3 : s'.firstPn = some s.nextPn) : AckInv s' := by
  obtain ⟨a1, _, _, _⟩ := h
  refine ⟨by rw [h1, h2]; exact a1, ?_, ?_, ?_⟩
  · intro f hf; rw [h3] at hf; simp at hf; omega
  · intro hf; rw [h3] at hf; simp at hf
  · intro pn f hf h1' h2'; rw [h3] at hf; simp at hf; omega

theorem countFailure_ack (s : State) :
    (countFailure s).largestAcked = s.largestAcked ∧ (countFailure s).nextPn = s.nextPn ∧
    (countFailure s).firstPn = s.firstPn ∧ (countFailure s).sentLog = s.sentLog := by
  unfold countFailure
  simp only
  split <;> simp

theorem handlePacket_ackinv {s : State} (hwf : WF s) (hinv : AckInv s) (p : Pkt) : AckInv (handlePacket s p).1 := by
  cases hd : decryptPacket s p with
  | panic => exact absurd hd (decryptPacket_ne_panic hwf p)
  | drop =>
    obtain ⟨g, hc, _⟩ := hwf
    have : handlePacket s p = (countFailure s, .res false false) := by
      unfold handlePacket; simp only [hd, hc]
    rw [this]
    obtain ⟨h1, h2, h3, h4⟩ := countFailure_ack s
    exact hinv.congr h1 h2 h3 (countFailure_keys s).2.1 h4
  | err e =>
    unfold handlePacket
    simp only [hd]
    split
    · exact hinv
    · exact hinv.congr rfl rfl rfl rfl rfl
  | ok s1 n =>
    obtain ⟨_, hsame, _, _, _, hm⟩ := decryptPacket_ok hwf hd
    have hfin : (handlePacket s p).1.largestAcked = s1.largestAcked ∧ (handlePacket s p).1.nextPn = s1.nextPn ∧
        (handlePacket s p).1.firstPn = s1.firstPn ∧ (handlePacket s p).1.cur = s1.cur ∧
        (handlePacket s p).1.sentLog = s1.sentLog := by
      rw [handlePacket_ok hd]
      simp only
      split
      · simp
      · split <;> simp
    obtain ⟨f1, f2, f3, f4, f5⟩ := hfin
    have hnp : s1.nextPn = s.nextPn := hsame.2.2.2.2.2.2.2.2.2.2.2.1
    have hla : s1.largestAcked = s.largestAcked := hsame.2.2.2.2.2.2.2.2.2.2.2.2.1
    have hlog : s1.sentLog = s.sentLog := hsame.2.2.2.2.2.2.2.2.2.2.2.2.2
    cases hm with
    | same _ hcur _ _ _ _ _ _ hfirst =>
      exact hinv.congr (by rw [f1, hla]) (by rw [f2, hnp]) (by rw [f3, hfirst]) (by rw [f4, hcur]) (by rw [f5, hlog])
    | remote _ _ _ _ _ _ _ _ _ hfirst =>
      exact hinv.updated (by rw [f1, hla]) (by rw [f2, hnp]) (by rw [f3, hfirst])

theorem clearUnacked_ack (s : State) :
    (clearUnacked s).largestAcked = s.largestAcked ∧ (clearUnacked s).nextPn = s.nextPn ∧
    (clearUnacked s).firstPn = s.firstPn ∧ (clearUnacked s).cur = s.cur ∧ (clearUnacked s).sentLog = s.sentLog ∧
    (clearUnacked s).phase = s.phase := by
  unfold clearUnacked
  cases s.prev <;> simp

theorem unconfirmed_congr {s s' : State} (h1 : s'.firstPn = s.firstPn) (h2 : s'.largestAcked = s.largestAcked) :
    unconfirmed s' = unconfirmed s := by
  unfold unconfirmed; rw [h1, h2]

theorem forceKeyUpdate_ackinv {s s' : State} (hwf : WF s) (hinv : AckInv s) (h : forceKeyUpdate s = some s') :
    AckInv s' := by
  obtain ⟨s2, h2, _, _, _, hn, hla, hlog, hcase⟩ := forceKeyUpdate_spec hwf
  rw [h2] at h; simp at h; subst h
  rcases hcase with ⟨rfl, _⟩ | ⟨_, _, _, _, _, hfirst, _⟩
  · exact hinv
  · exact hinv.updated hla hn hfirst

/-- the shape of a successful `send` -/
theorem send_shape {s : State} {r : State × Bool × Nat} (h : send s = some r) :
    ∃ s2 g, (s2 = clearUnacked s ∨ forceKeyUpdate (clearUnacked s) = some s2) ∧ s2.cur = some g ∧
      r.1 = { s2 with swk := s2.swk + 1, nextPn := s2.nextPn + 1, sentLog := (s2.nextPn, g) :: s2.sentLog } := by
  unfold send at h
  simp only at h
  by_cases hr : Gen.kuRoutineUpdateDue (clearUnacked s).swk (clearUnacked s).phaseSize = true
  · simp only [hr, if_true] at h
    cases hf : forceKeyUpdate (clearUnacked s) with
    | none => rw [hf] at h; simp at h
    | some s2 =>
      rw [hf] at h
      simp only at h
      cases hc : s2.cur with
      | none => rw [hc] at h; simp at h
      | some g =>
        rw [hc] at h; simp only [Option.some.injEq] at h
        exact ⟨s2, g, Or.inr rfl, hc, by rw [← h]; simp [hc]⟩
  · simp only [hr, Bool.false_eq_true, if_false] at h
    cases hc : (clearUnacked s).cur with
    | none => rw [hc] at h; simp at h
    | some g =>
      rw [hc] at h; simp only [Option.some.injEq] at h
      exact ⟨clearUnacked s, g, Or.inl rfl, hc, by rw [← h]; simp [hc]⟩

theorem send_ackinv {s : State} (hwf : WF s) (hinv : AckInv s) {r : State × Bool × Nat} (h : send s = some r) :
    AckInv r.1 := by
  obtain ⟨s2, g, hs2, hc, hr⟩ := send_shape h
  obtain ⟨c1, c2, c3, c4, c5, _⟩ := clearUnacked_ack s
  have hi1 : AckInv (clearUnacked s) := hinv.congr c1 c2 c3 c4 c5
  have hi2 : AckInv s2 := by
    rcases hs2 with rfl | hf
    · exact hi1
    · exact forceKeyUpdate_ackinv (clearUnacked_wf hwf).1 hi1 hf
  obtain ⟨a1, a2, a3, a4⟩ := hi2
  rw [hr]
  refine ⟨?_, ?_, ?_, ?_⟩
  · intro a ha; have := a1 a ha; simp only; omega
  · intro f hf; have := a2 f hf; simp only; omega
  · intro hf; exact a3 hf
  · intro pn f hf hle hlt
    simp only at hlt hf ⊢
    by_cases hpn : pn < s2.nextPn
    · obtain ⟨g', hg', hm⟩ := a4 pn f hf hle hpn
      exact ⟨g', hg', List.mem_cons_of_mem _ hm⟩
    · have : pn = s2.nextPn := by omega
      subst this
      exact ⟨g, hc, List.mem_cons_self⟩

theorem timeout_ack (s : State) :
    (timeout s).largestAcked = s.largestAcked ∧ (timeout s).nextPn = s.nextPn ∧
    (timeout s).firstPn = s.firstPn ∧ (timeout s).cur = s.cur ∧ (timeout s).sentLog = s.sentLog := by
  have hc : (closeArm s).largestAcked = s.largestAcked ∧ (closeArm s).nextPn = s.nextPn ∧
      (closeArm s).firstPn = s.firstPn ∧ (closeArm s).cur = s.cur ∧ (closeArm s).sentLog = s.sentLog := by
    unfold closeArm
    split
    · split <;> simp
    · simp
  have hk : ∀ t : State, (keyDiscardArm t).largestAcked = t.largestAcked ∧ (keyDiscardArm t).nextPn = t.nextPn ∧
      (keyDiscardArm t).firstPn = t.firstPn ∧ (keyDiscardArm t).cur = t.cur ∧ (keyDiscardArm t).sentLog = t.sentLog := by
    intro t
    unfold keyDiscardArm
    split
    · split <;> simp
    · simp
  unfold timeout
  obtain ⟨k1, k2, k3, k4, k5⟩ := hk (closeArm s)
  obtain ⟨c1, c2, c3, c4, c5⟩ := hc
  exact ⟨by rw [k1, c1], by rw [k2, c2], by rw [k3, c3], by rw [k4, c4], by rw [k5, c5]⟩

theorem step_ackinv {s s' : State} (hwf : WF s) (hinv : AckInv s) {o : Op} (h : step s o = some s') : AckInv s' := by
  cases o with
  | rx p =>
    rw [step_rx hwf p] at h; simp only [Option.some.injEq] at h; subst h
    exact handlePacket_ackinv hwf hinv p
  | ackd pn =>
    obtain ⟨la, rfl, hla⟩ := step_ackd h
    obtain ⟨a1, a2, a3, a4⟩ := hinv
    refine ⟨?_, a2, a3, a4⟩
    intro a ha
    show a < s.nextPn
    simp only at ha
    rcases hla with hla | ⟨hla, hlt⟩
    · rw [hla] at ha; exact a1 a ha
    · rw [hla] at ha; simp at ha; omega
  | update => simp only [step] at h; exact forceKeyUpdate_ackinv hwf hinv h
  | send =>
    simp only [step] at h
    split at h
    · simp at h; subst h; exact hinv
    · cases hs : send s with
      | none => rw [hs] at h; simp at h
      | some r => rw [hs] at h; simp at h; subst h; exact send_ackinv hwf hinv hs
  | tick us => simp only [step] at h; simp at h; subst h; exact hinv.congr rfl rfl rfl rfl rfl
  | timeout =>
    simp only [step] at h; simp at h; subst h
    obtain ⟨t1, t2, t3, t4, t5⟩ := timeout_ack s
    exact hinv.congr t1 t2 t3 t4 t5

theorem run_inv : ∀ (ops : List Op) {s s' : State}, WF s → AckInv s → run s ops = some s' → WF s' ∧ AckInv s'
  | [], s, s', hw, hi, h => by simp [run] at h; subst h; exact ⟨hw, hi⟩
  | o :: os, s, s', hw, hi, h => by
    obtain ⟨s1, h1, hw1⟩ := step_wf hw o
    simp only [run, h1] at h
    exact run_inv os hw1 (step_ackinv hw hi h1) h

/-- RFC 9001 6.1: a local key update (forced, or the routine one when a packet is built) takes effect only if no key
    update has taken place yet, or the largest acknowledged packet was sent with the keys of the current generation -/
theorem local_update_acked {s s' : State} (hwf : WF s) (hinv : AckInv s) {o : Op} (ho : o = .update ∨ o = .send)
    (h : step s o = some s') (hne : s'.phase ≠ s.phase) :
    s.cur = some 0 ∨ ∃ a g, s.largestAcked = some a ∧ s.cur = some g ∧ (a, g) ∈ s.sentLog := by
  -- in both cases `force_key_update` ran with the acknowledgement guard open
  have key : unconfirmed s = false := by
    rcases ho with rfl | rfl
    · obtain ⟨s2, h2, _, _, _, _, _, _, hcase⟩ := forceKeyUpdate_spec hwf
      simp only [step] at h
      rw [h2] at h; simp at h; subst h
      rcases hcase with ⟨rfl, _⟩ | ⟨_, _, hu, _⟩
      · exact absurd rfl hne
      · exact hu
    · simp only [step] at h
      split at h
      · simp at h; subst h; exact absurd rfl hne
      · cases hs : send s with
        | none => rw [hs] at h; simp at h
        | some r =>
          rw [hs] at h; simp at h; subst h
          obtain ⟨s2, g, hs2, _, hr⟩ := send_shape hs
          obtain ⟨c1, _, c3, _, _, c6⟩ := clearUnacked_ack s
          have hph : r.1.phase = s2.phase := by rw [hr]
          rcases hs2 with rfl | hf
          · rw [hph, c6] at hne; exact absurd rfl hne
          · obtain ⟨s3, h3, _, _, _, _, _, _, hcase⟩ := forceKeyUpdate_spec (clearUnacked_wf hwf).1
            rw [h3] at hf; simp at hf; subst hf
            rcases hcase with ⟨rfl, _⟩ | ⟨_, _, hu, _⟩
            · rw [hph, c6] at hne; exact absurd rfl hne
            · rw [unconfirmed_congr c3 c1] at hu; exact hu
  obtain ⟨a1, _, a3, a4⟩ := hinv
  unfold unconfirmed at key
  cases hf : s.firstPn with
  | none => exact Or.inl (a3 hf)
  | some f =>
    rw [hf] at key
    cases hla : s.largestAcked with
    | none => rw [hla] at key; simp at key
    | some a =>
      rw [hla] at key
      simp only [Gen.kuAckedBelowPhase, decide_eq_false_iff_not] at key
      obtain ⟨g, hg, hm⟩ := a4 a f hf (by omega) (a1 a hla)
      exact Or.inr ⟨a, g, rfl, hg, hm⟩

/-- states reachable from the established connection by any request sequence -/
def Reachable (s : State) : Prop := ∃ ops, run init ops = some s

theorem reachable_ackinv {s : State} (h : Reachable s) : AckInv s := by
  obtain ⟨ops, hr⟩ := h
  exact (run_inv ops init_wf init_ackinv hr).2

theorem reachable_wf {s : State} (h : Reachable s) : WF s := by
  obtain ⟨ops, hr⟩ := h
  obtain ⟨s', h', hw⟩ := run_wf ops init_wf
  rw [hr] at h'; simp at h'; rw [h']; exact hw

theorem select_cur {s : State} {p : Pkt} (h : p.bit = s.phase) : select s p = .cur := by
  simp [select, kuCur, h]

theorem select_prev {s : State} {p : Pkt} {pv : Prev} (hb : p.bit ≠ s.phase) (hp : s.prev = some pv)
    (he : ∀ e te, pv.endPacket = some (e, te) → p.pn < e) : select s p = .prev := by
  cases hep : pv.endPacket with
  | none => simp [select, kuCur, hb, hp, hep]
  | some et =>
    obtain ⟨e, te⟩ := et
    have := he e te hep
    simp [select, kuCur, hb, hp, hep, Gen.kuBelowEndPacket, this]

theorem select_next {s : State} {p : Pkt} (hb : p.bit ≠ s.phase)
    (hp : ∀ pv, s.prev = some pv → ∃ e te, pv.endPacket = some (e, te) ∧ e ≤ p.pn) : select s p = .next := by
  cases hsp : s.prev with
  | none => simp [select, kuCur, hb, hsp]
  | some pv =>
    obtain ⟨e, te, he, hle⟩ := hp pv hsp
    have : ¬ p.pn < e := by omega
    simp [select, kuCur, hb, hsp, he, Gen.kuBelowEndPacket, this]

theorem genuine_current {s : State} (hwf : WF s) (hl : s.life = .est) {p : Pkt} (hseal : p.sealGen = s.cur)
    (hbit : p.bit = s.phase) (hr : p.rsv = false) (hfresh : (Dedup.insert s.dedup p.pn).2 = false) :
    (handlePacket s p).2 = .res true true := by
  have hsel := select_cur hbit
  obtain ⟨s1, hd⟩ := decryptPacket_accepts hwf p (by rw [hsel, hseal]; rfl) hr (by rw [hsel]; simp)
  exact processed_of_ok hwf hd hl hfresh

theorem genuine_previous {s : State} (hwf : WF s) (hl : s.life = .est) {p : Pkt} {pv : Prev} (hp : s.prev = some pv)
    (hseal : p.sealGen = some pv.gen) (hbit : p.bit ≠ s.phase) (hr : p.rsv = false)
    (hbelow : ∀ e te, pv.endPacket = some (e, te) → p.pn < e)
    (hfresh : (Dedup.insert s.dedup p.pn).2 = false) :
    (handlePacket s p).2 = .res true true := by
  have hsel := select_prev hbit hp hbelow
  obtain ⟨s1, hd⟩ := decryptPacket_accepts hwf p (by rw [hsel, hseal]; simp [selectedGen, hp]) hr (by rw [hsel]; simp)
  exact processed_of_ok hwf hd hl hfresh

theorem genuine_next {s : State} (hwf : WF s) (hl : s.life = .est) {p : Pkt} (hseal : p.sealGen = s.next)
    (hbit : p.bit ≠ s.phase) (hr : p.rsv = false)
    (hprev : ∀ pv, s.prev = some pv → pv.unacked = false ∧ ∃ e te, pv.endPacket = some (e, te) ∧ e ≤ p.pn)
    (hpn : s.rxPacket < p.pn) (hfresh : (Dedup.insert s.dedup p.pn).2 = false) :
    (handlePacket s p).2 = .res true true ∧ (handlePacket s p).1.cur = s.next ∧
    (handlePacket s p).1.phase = (!s.phase) := by
  have hsel := select_next hbit (fun pv h => (hprev pv h).2)
  have hun : prevUnacked s = false := by
    unfold prevUnacked
    cases hsp : s.prev with
    | none => rfl
    | some pv => exact (hprev pv hsp).1
  have hv : Gen.kuUpdateInvalid p.pn s.rxPacket (prevUnacked s) = false := by
    rw [hun]; simp [Gen.kuUpdateInvalid]; omega
  obtain ⟨s1, hd⟩ := decryptPacket_accepts hwf p (by rw [hsel, hseal]; rfl) hr (fun _ => hv)
  refine ⟨processed_of_ok hwf hd hl hfresh, ?_⟩
  obtain ⟨_, _, _, _, _, hm⟩ := decryptPacket_ok hwf hd
  have hfin : (handlePacket s p).1.phase = s1.phase ∧ (handlePacket s p).1.cur = s1.cur := by
    rw [handlePacket_ok hd]
    simp only
    split
    · simp
    · split <;> simp
  cases hm with
  | same hns => exact absurd hsel hns
  | remote _ _ _ _ hcur hph _ _ _ => exact ⟨by rw [hfin.2, hcur], by rw [hfin.1, hph]⟩

theorem decryptPacket_of_body_err {s : State} {p : Pkt} {e : Err} (h : decryptBody s p = .err e) :
    decryptPacket s p = .err e := by
  unfold decryptPacket
  simp only [h]

/-- RFC 9001 6.4 -/
theorem lower_numbered_under_next_keys {s : State} (hwf : WF s) {p : Pkt} (hp : s.prev = none)
    (hseal : p.sealGen = s.next) (hbit : p.bit ≠ s.phase) (hr : p.rsv = false) (hpn : p.pn ≤ s.rxPacket) :
    decryptBody s p = .err .keyUpdateError := by
  have hsel : select s p = .next := select_next hbit (by intro pv h; rw [hp] at h; simp at h)
  obtain ⟨g, _, hn, _⟩ := hwf
  unfold decryptBody
  simp only [hsel, selectedGen, hn]
  rw [hn] at hseal
  simp [hseal, hr, Gen.kuUpdateInvalid, hpn]

/-- RFC 9001 6.2 -/
theorem consecutive_update {s : State} (hwf : WF s) {p : Pkt} {pv : Prev} {e te : Nat} (hp : s.prev = some pv)
    (hun : pv.unacked = true) (he : pv.endPacket = some (e, te)) (hle : e ≤ p.pn)
    (hseal : p.sealGen = s.next) (hbit : p.bit ≠ s.phase) (hr : p.rsv = false) :
    decryptBody s p = .err .keyUpdateError := by
  have hsel : select s p = .next :=
    select_next hbit (by intro pv' h; rw [hp] at h; simp at h; subst h; exact ⟨e, te, he, hle⟩)
  obtain ⟨g, _, hn, _⟩ := hwf
  unfold decryptBody
  simp only [hsel, selectedGen, hn]
  rw [hn] at hseal
  simp [hseal, hr, Gen.kuUpdateInvalid, prevUnacked, hp, hun]

/-- the effect of a transport error raised by an authenticated packet on an established connection -/
theorem handlePacket_err {s : State} {p : Pkt} {e : Err} (h : decryptBody s p = .err e) (hl : s.life = .est) :
    (handlePacket s p).1 = { s with err := some e, life := .closed, kd := none,
                                    closeT := some (s.now + Gen.closeTimerPtoFactor * s.pto) } ∧
    (handlePacket s p).2 = .res true false := by
  unfold handlePacket
  simp only [decryptPacket_of_body_err h, hl]
  simp

end QM.KeyUpdate
