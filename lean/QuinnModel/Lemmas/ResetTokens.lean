import QuinnModel.Conn.ResetTokens
import QuinnModel.Lemmas.CidQueueToken
import QuinnModel.Lemmas.CidQueue
/-! Proofs for Props/C04_reset.lean: every token a connection honours was issued by the peer in THIS connection. -/
namespace QM.ResetTokens
open QM QM.CidQueue

/-- every token stored in the ring is in `L` -/
def BufToks (b : Buf) (L : List Bytes) : Prop :=
  ∀ j e t, get b j = some e → e.token = some t → t ∈ L

/-- the invariant: the honoured token and every stored token are in `L` -/
def Inv (s : St) (L : List Bytes) : Prop :=
  (∀ t, s.tok = some t → t ∈ L) ∧ BufToks s.q.buffer L

theorem BufToks.mono {b : Buf} {L L' : List Bytes} (h : BufToks b L) (hs : ∀ t, t ∈ L → t ∈ L') : BufToks b L' :=
  fun j e t h1 h2 => hs t (h j e t h1 h2)

theorem Inv.mono {s : St} {L L' : List Bytes} (h : Inv s L) (hs : ∀ t, t ∈ L → t ∈ L') : Inv s L' :=
  ⟨fun t ht => hs t (h.1 t ht), h.2.mono hs⟩

theorem new_bufToks (cid : Bytes) (L : List Bytes) : BufToks (CidQueue.new cid).buffer L := by
  intro j e t h1 h2
  unfold CidQueue.new at h1
  simp only at h1
  have hj : j % LEN < LEN := Nat.mod_lt _ LEN_pos
  unfold CidQueue.get at h1
  rw [Vector.getElem_set] at h1
  split at h1
  · simp only [Option.some.injEq] at h1
    subst h1
    simp at h2
  · simp at h1

theorem init_inv (server : Bool) (c : Bytes) (L : List Bytes) : Inv (init server c) L :=
  ⟨by intro t h; simp [init] at h, new_bufToks c L⟩

/-- the buffer `insert` leaves behind: the old one, or the old one with some slots cleared and the frame's entry -/
theorem insert_bufToks (q : CidQueue) (seq rpt : Nat) (cid tok : Bytes) (L : List Bytes) (h : BufToks q.buffer L) :
    BufToks (insert q seq rpt cid tok).1.buffer (tok :: L) := by
  have hold : BufToks q.buffer (tok :: L) := h.mono (fun t ht => List.mem_cons_of_mem _ ht)
  have hb2 : BufToks (put (clearLoop q.buffer q.cursor 0 (Gen.cidqClearCount (rpt - q.offset)))
      (q.cursor + (seq - q.offset)) (some ⟨cid, some tok⟩)) (tok :: L) := by
    intro j e t h1 h2
    rw [get_put] at h1
    split at h1
    · simp only [Option.some.injEq] at h1
      subst h1
      simp only [Option.some.injEq] at h2
      subst h2
      exact List.mem_cons_self
    · exact hold j e t (clearLoop_some _ _ _ _ _ _ h1) h2
  unfold CidQueue.insert
  split
  · exact hold
  · simp only
    split
    · exact hold
    · split
      · exact hold
      · split
        · exact hold
        · split
          · exact hb2
          · unfold insertTail
            split
            · exact hold
            · simp only
              split
              · exact hold
              · split
                · exact hold
                · split
                  · exact hold
                  · split
                    · exact hold
                    · exact hb2

theorem activeEntry_tok {q : CidQueue} {L : List Bytes} (h : BufToks q.buffer L) {e : Entry} {t : Bytes}
    (he : activeEntry q = some e) (ht : e.token = some t) : t ∈ L :=
  h q.cursor e t he ht

theorem next_bufToks (q : CidQueue) (L : List Bytes) (h : BufToks q.buffer L) : BufToks (next q).1.buffer L := by
  unfold next
  split
  · exact h
  · split
    · split
      · exact h
      · split
        · exact h
        · intro j e t h1 h2
          simp only at h1
          rename_i hc _ _ _ _
          rw [set_eq_put _ _ _ hc, get_put] at h1
          split at h1
          · simp at h1
          · exact h j e t h1 h2
    · exact h

theorem updateRemCid_inv (s : St) (L : List Bytes) (h : Inv s L) : Inv (updateRemCid s) L := by
  unfold updateRemCid
  have hb := next_bufToks s.q L h.2
  cases hn : next s.q with
  | mk q' o =>
    rw [hn] at hb
    cases o with
    | none => exact h
    | panic => exact h
    | ok t a z =>
      simp only [setResetToken]
      obtain ⟨e, he, ht⟩ := next_token s.q q' t a z hn
      refine ⟨?_, hb⟩
      intro t' ht'
      simp only [Option.some.injEq] at ht'
      subst ht'
      exact activeEntry_tok hb he ht

theorem onNewCid_inv (s : St) (seq rpt : Nat) (cid tok : Bytes) (L : List Bytes) (h : Inv s L) :
    Inv (onNewCid s seq rpt cid tok) (tok :: L) := by
  have hm : Inv s (tok :: L) := h.mono (fun t ht => List.mem_cons_of_mem _ ht)
  unfold onNewCid
  split
  · exact hm
  · have hb := insert_bufToks s.q seq rpt cid tok L h.2
    cases hi : insert s.q seq rpt cid tok with
    | mk q' o =>
      rw [hi] at hb
      cases o with
      | none =>
        simp only
        have h1 : Inv { s with q := q' } (tok :: L) := ⟨hm.1, hb⟩
        split
        · exact updateRemCid_inv _ _ h1
        · exact h1
      | retired a z t =>
        simp only
        obtain ⟨e, he, ht⟩ := insert_token s.q seq rpt cid tok q' a z t hi
        have h1 : Inv (setResetToken { s with q := q' } t) (tok :: L) := by
          refine ⟨?_, hb⟩
          intro t' ht'
          simp only [setResetToken, Option.some.injEq] at ht'
          subst ht'
          exact activeEntry_tok hb he ht
        split
        · exact updateRemCid_inv _ _ h1
        · exact h1
      | errRetired => exact hm
      | errLimit => exact hm
      | panic => exact hm

/-- tokens known to the connection after the history `es`, starting from a state whose tokens are in `L0` -/
theorem run_inv : ∀ (es : List Ev) (s : St) (L0 : List Bytes), Gen.init0rttClearsResetToken = true → Inv s L0 →
    Inv (run s es) (L0 ++ issued es) := by
  intro es
  induction es with
  | nil => intro s L0 _ h; simpa [run, issued] using h
  | cons e es ih =>
    intro s L0 hg h
    unfold run
    cases e with
    | resume r =>
      have h1 : Inv (step s (.resume r)) L0 := by
        show Inv (init0rtt s r) L0
        unfold init0rtt
        rw [hg]
        unfold init0rttWith
        split
        · exact h
        · refine ⟨?_, h.2⟩
          intro t ht
          simp at ht
      simpa [issued] using ih _ L0 hg h1
    | params t =>
      cases t with
      | none =>
        have h1 : Inv (step s (.params none)) L0 := ⟨by intro t ht; simp [step, peerParams] at ht, h.2⟩
        simpa [issued] using ih _ L0 hg h1
      | some t =>
        have h1 : Inv (step s (.params (some t))) (L0 ++ [t]) := by
          refine ⟨?_, h.2.mono (fun x hx => List.mem_append_left _ hx)⟩
          intro t' ht'
          simp only [step, peerParams, Option.some.injEq] at ht'
          subst ht'
          simp
        have := ih _ (L0 ++ [t]) hg h1
        simpa [issued, List.append_assoc] using this
    | newCid seq rpt cid tok =>
      have h1 : Inv (step s (.newCid seq rpt cid tok)) (L0 ++ [tok]) := by
        have := onNewCid_inv s seq rpt cid tok L0 h
        exact this.mono (fun x hx => by
          rcases List.mem_cons.mp hx with hx | hx
          · subst hx; simp
          · exact List.mem_append_left _ hx)
      have := ih _ (L0 ++ [tok]) hg h1
      simpa [issued, List.append_assoc] using this
    | switch =>
      have h1 : Inv (step s .switch) L0 := updateRemCid_inv s L0 h
      simpa [issued] using ih _ L0 hg h1

theorem accepts_iff (s : St) (len : Nat) (t : Bytes) :
    accepts s len t = true ↔ len ≥ Gen.resetTokenSize + Gen.resetMinLenExtra ∧ s.tok = some t := by
  simp [accepts]

end QM.ResetTokens
