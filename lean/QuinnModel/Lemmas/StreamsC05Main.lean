import QuinnModel.Lemmas.StreamsC05Ops
/-
C05: reachable states, the main invariant theorem and the per-operation facts.
-/
namespace QM.Streams
set_option pp.structureInstances false

/-- which operations may appear in the body of a history: everything except the two restarts;
    `set_params` only where it is admissible (`ParamsOk`) -/
def Allowed (s : State) : Op → Prop
  | .new _ => False
  | .rejected => False
  | .params p => ParamsOk s p
  | _ => True

/-- states reachable from `StreamsState::new(c)` with their history (newest first) -/
inductive Reach (c : Config) : Hist → State → Prop
  | init {s0 : State} : State.new c = some s0 → Reach c [] s0
  | step {h : Hist} {s s' : State} {o : Op} {out : Out} :
      Reach c h s → Allowed s o → step s o = some (s', out) → Reach c ((o, out) :: h) s'

theorem new_vw {c : Config} {s0 : State} (h : State.new c = some s0) :
    s0.vw = ⟨⟨c.side, 0, 0, ⟨0, 0⟩, ⟨0, 0⟩, 0, 0, 0⟩, fun _ => none⟩ := by
  unfold State.new at h
  osplit h
  have f1 := vw_insertRemoteRange _ ‹State.insertRemoteRange _ Dir.bi _ _ _ = some _›
  have f2 := vw_insertRemoteRange _ h
  rw [f2, f1]
  rfl

theorem inv_new {c : Config} {s0 : State} (h : State.new c = some s0) : InvV c.side [] s0.vw := by
  rw [new_vw h]
  refine ⟨rfl, rfl, fun d => by cases d <;> rfl, rfl, Nat.le_refl _, fun d => by cases d <;> exact Nat.le_refl _, ?_, ?_⟩
  · intro id c hc; simp at hc
  · intro id; simp only [Core.maxSendData, peerStreamLimit]; split <;> (try split) <;> exact Nat.le_refl _

/-- **the C05 invariant holds in every reachable state** -/
theorem reach_inv {c : Config} {h : Hist} {s : State} (r : Reach c h s) : InvV c.side h s.vw := by
  induction r with
  | init h0 => exact inv_new h0
  | step r ha hs ih =>
    rename_i h s s' o out
    by_cases hg : o.isCredit = true
    · cases o <;> simp [Op.isCredit, Op.isGhost] at hg
      case params p =>
        have : s' = s.setParams p := by unstep hs; exact hs.1.symm
        rw [this]; exact inv_params out ih ha
      case open_ d => exact inv_open ih hs
      case write id n => exact inv_write ih hs
      case maxData n =>
        have : s' = s.receivedMaxData n := by unstep hs; exact hs.1.symm
        rw [this]; exact inv_maxData ih n out
      case maxStreamData id n => exact inv_maxStreamData ih hs
      case maxStreams d n => exact inv_maxStreams ih hs
    · have hc : o.isCredit = false := by simpa using hg
      have hr : o.isRestart = false := by
        cases o <;> simp [Op.isRestart] <;> exact ha
      have hgh : o.isGhost = false := by
        simp only [Op.isCredit, Bool.or_eq_false_iff] at hc; exact hc.1
      exact ih.frame (frame_step hs hc hr).v o out hgh

/-- the first `set_params` of a connection is always admissible -/
theorem paramsOk_new {c : Config} {s0 : State} (h : State.new c = some s0) (p : Params) : ParamsOk s0 p := by
  have hv := new_vw h
  constructor
  · intro d
    have : s0.max = ⟨0, 0⟩ := congrArg (fun v => v.core.max) hv
    rw [this]; cases d <;> exact Nat.zero_le _
  · intro id x hx _ _
    have : s0.cv id = none := congrFun (congrArg SView.cv hv) id
    simp [State.cv, hx] at this

end QM.Streams
