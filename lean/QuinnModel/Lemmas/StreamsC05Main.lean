import QuinnModel.Lemmas.StreamsEarly
/-
C05: reachable states, the main invariant theorem and the per-operation facts.
-/
namespace QM.Streams
set_option pp.structureInstances false

/-- which operations may appear in the body of a history: everything except the two restarts;
    `set_params` only where it is admissible (`ParamsOk`) -/
def Allowed (s : State) : Op → Prop
  | .new _ => False
  | .rejected => False
  | .params p => ParamsOk s p
  | _ => True

/-- a history that consists of early operations only: nothing from the peer has been processed yet -/
def EarlyHist (side : Side) (h : Hist) : Prop := ∀ e ∈ h, EarlyOp side e.1

instance (side : Side) (h : Hist) : Decidable (EarlyHist side h) := by unfold EarlyHist; exact inferInstance

/-- states reachable from `StreamsState::new(c)` with their history (newest first).
    `rejected`: the 0-RTT rejection as `Connection` performs it when the handshake completes — after a
    history of early operations only, `zero_rtt_rejected`, the queued frames are dropped, and
    `set_params p` with the newly negotiated parameters `p` (any values, in particular smaller ones) -/
inductive Reach (c : Config) : Hist → State → Prop
  | init {s0 : State} : State.new c = some s0 → Reach c [] s0
  | step {h : Hist} {s s' : State} {o : Op} {out : Out} :
      Reach c h s → Allowed s o → step s o = some (s', out) → Reach c ((o, out) :: h) s'
  | rejected {h : Hist} {s s1 : State} {p : Params} :
      Reach c h s → EarlyHist c.side h → s.zeroRttRejected = some s1 →
      Reach c ((.params p, .ok) :: (.rejected, .ok) :: h) (({ s1 with rtx := {} } : State).setParams p)

theorem new_vw {c : Config} {s0 : State} (h : State.new c = some s0) :
    s0.vw = ⟨⟨c.side, 0, 0, ⟨0, 0⟩, ⟨0, 0⟩, 0, 0, 0⟩, fun _ => none⟩ := by
  unfold State.new at h
  osplit h
  have f1 := vw_insertRemoteRange _ ‹State.insertRemoteRange _ Dir.bi _ _ _ = some _›
  have f2 := vw_insertRemoteRange _ h
  rw [f2, f1]
  rfl

theorem inv_new {c : Config} {s0 : State} (h : State.new c = some s0) : InvV c.side [] s0.vw := by
  rw [new_vw h]
  refine ⟨rfl, rfl, fun d => by cases d <;> rfl, rfl, Nat.le_refl _, fun d => by cases d <;> exact Nat.le_refl _, ?_, ?_⟩
  · intro id c hc; simp at hc
  · intro id; simp only [Core.maxSendData, peerStreamLimit]; split <;> (try split) <;> exact Nat.le_refl _

theorem insertRemoteRange_keys (sd : Side) : ∀ (n : Nat) (s s' : State) (d : Dir) (st i : Nat),
    s.insertRemoteRange d st n i = some s' → s.side = sd →
    (∀ k, s.send.find? k ≠ none → sidInitiator k ≠ sd ∧ s.send.find? k = some none) →
    (∀ k, s'.send.find? k ≠ none → sidInitiator k ≠ sd ∧ s'.send.find? k = some none) ∧ s'.side = sd := by
  intro n
  induction n with
  | zero => intro s s' d st i hh hsd hs; simp [State.insertRemoteRange] at hh; subst hh; exact ⟨hs, hsd⟩
  | succ n ih =>
    intro s s' d st i hh hsd hs
    unfold State.insertRemoteRange at hh
    split at hh
    · contradiction
    · rename_i s1 h1
      have hm := insert_only_maps h1
      have hside1 : s1.side = sd := by rw [hm]; exact hsd
      have hs1 : ∀ k, s1.send.find? k ≠ none → sidInitiator k ≠ sd ∧ s1.send.find? k = some none := by
        intro k hk
        unfold State.insert at h1
        osplit h1
        rw [← h1] at hk ⊢
        simp only at hk ⊢
        have hmi := ‹mapInsertIf _ s.send _ = some _›
        unfold mapInsertIf at hmi
        split at hmi
        · rw [Map.find?_insertNew _ _ _ _ _ hmi] at hk ⊢
          split
          · rename_i hkk
            refine ⟨?_, rfl⟩
            rw [← hkk, sidInitiator_sidNew, hsd]
            cases sd <;> simp [Side.not]
          · rename_i hkk
            simp only [hkk, ↓reduceIte] at hk
            exact hs k hk
        · simp only [Option.some.injEq] at hmi; subst hmi; exact hs k hk
      exact ih s1 s' d st (i + 1) hh hside1 hs1

theorem early_new {c : Config} {s0 : State} (h : State.new c = some s0) : EarlyInv s0 ∧ s0.side = c.side := by
  unfold State.new at h
  osplit h
  have hb := ‹State.insertRemoteRange _ Dir.bi _ _ _ = some _›
  obtain ⟨k1, e1⟩ := insertRemoteRange_keys c.side _ _ _ _ _ _ hb rfl (by intro k hk; simp at hk)
  obtain ⟨k2, e2⟩ := insertRemoteRange_keys c.side _ _ _ _ _ _ h e1 k1
  refine ⟨?_, e2⟩
  intro id hne
  right
  rw [e2]; exact k2 id hne

/-- in a history of early operations every key of the send map is a stream this endpoint opened or
    an untouched peer stream -/
theorem early_inv {c : Config} {h : Hist} {s : State} (r : Reach c h s) (he : EarlyHist c.side h) :
    EarlyInv s ∧ s.side = c.side := by
  induction r with
  | init h0 => exact early_new h0
  | step r ha hs ih =>
    rename_i h s s' o out
    have ⟨i, hside⟩ := ih (fun e hm => he e (List.mem_cons_of_mem _ hm))
    have ho : EarlyOp s.side o := by rw [hside]; exact he (o, out) (List.mem_cons_self ..)
    obtain ⟨i', hs'⟩ := early_step hs i ho
    exact ⟨i', hs'.trans hside⟩
  | rejected r _ _ _ =>
    exact absurd (he (.rejected, .ok) (List.mem_cons_of_mem _ (List.mem_cons_self ..))) (by simp [EarlyOp])

/-- **the C05 invariant holds in every reachable state** -/
theorem reach_inv {c : Config} {h : Hist} {s : State} (r : Reach c h s) : InvV c.side h s.vw := by
  induction r with
  | init h0 => exact inv_new h0
  | step r ha hs ih =>
    rename_i h s s' o out
    by_cases hg : o.isCredit = true
    · cases o <;> simp [Op.isCredit, Op.isGhost] at hg
      case rejected => exact ha.elim
      case params p =>
        have : s' = s.setParams p := by unstep hs; exact hs.1.symm
        rw [this]; exact inv_params out ih ha
      case open_ d => exact inv_open ih hs
      case write id n => exact inv_write ih hs
      case maxData n =>
        have : s' = s.receivedMaxData n := by unstep hs; exact hs.1.symm
        rw [this]; exact inv_maxData ih n out
      case maxStreamData id n => exact inv_maxStreamData ih hs
      case maxStreams d n => exact inv_maxStreams ih hs
    · have hc : o.isCredit = false := by simpa using hg
      have hr : o.isRestart = false := by
        cases o <;> simp [Op.isRestart] <;> exact ha
      have hgh : o.isGhost = false := by
        simp only [Op.isCredit, Bool.or_eq_false_iff] at hc; exact hc.1
      exact ih.frame (frame_step hs hc hr).v o out hgh
  | rejected r he hz ih =>
    rename_i h s s1 p
    obtain ⟨i, hside⟩ := early_inv r he
    rw [rejected_vw i hz p, hside]
    refine ⟨rfl, ?_, ?_, rfl, Nat.zero_le _, fun d => by cases d <;> exact Nat.zero_le _, ?_, ?_⟩
    · simp [peerMaxData, natMax_eq]
    · intro d; cases d <;> simp [peerMaxStreams, Params.maxStreams, Two.get, natMax_eq]
    · intro id c hc; simp at hc
    · intro id
      simp only [peerStreamLimit, natMax_eq, Nat.max_zero]
      exact Nat.le_of_eq rfl

/-- the first `set_params` of a connection is always admissible -/
theorem paramsOk_new {c : Config} {s0 : State} (h : State.new c = some s0) (p : Params) : ParamsOk s0 p := by
  have hv := new_vw h
  constructor
  · intro d
    have : s0.max = ⟨0, 0⟩ := congrArg (fun v => v.core.max) hv
    rw [this]; cases d <;> exact Nat.zero_le _
  · intro id x hx _ _
    have : s0.cv id = none := congrFun (congrArg SView.cv hv) id
    simp [State.cv, hx] at this

/-- the sender view of a fresh state after `set_params p` -/
theorem fresh_vw {c : Config} {s0 : State} (h : State.new c = some s0) (p : Params) :
    (s0.setParams p).vw =
      ⟨⟨c.side, p.initialMaxData, 0, ⟨p.initialMaxStreamsBidi, p.initialMaxStreamsUni⟩, ⟨0, 0⟩,
        p.initialMaxStreamDataUni, p.initialMaxStreamDataBidiLocal, p.initialMaxStreamDataBidiRemote⟩,
       fun _ => none⟩ := by
  have hv := new_vw h
  have hcore := congrArg SView.core hv
  simp only [State.vw, State.core, Core.mk.injEq] at hcore
  simp only [State.vw, SView.mk.injEq]
  constructor
  · simp only [State.core, State.setParams, State.receivedMaxData, hcore.1, hcore.2.1, hcore.2.2.1,
      hcore.2.2.2.2.1, natMax_eq, Nat.zero_max]
  · funext k
    simp only [State.cv, State.setParams, State.receivedMaxData]
    split
    · rename_i x' hx'
      exfalso
      obtain ⟨x, hx, _⟩ := setParamsLoop_find _ _ _ _ _ _ _ hx'
      have := congrFun (congrArg SView.cv hv) k
      simp [State.vw, State.cv, hx] at this
    · rfl

/-- **a rejected connection has the sender view of a fresh one**: after a history of early operations,
    `zero_rtt_rejected` (+ dropping the queued frames) + `set_params p` give exactly the core
    accounting and (empty) set of sending halves of `StreamsState::new` + `set_params p` -/
theorem rejected_vw_fresh {c : Config} {h : Hist} {s s1 s0 : State} (r : Reach c h s)
    (he : EarlyHist c.side h) (hz : s.zeroRttRejected = some s1) (h0 : State.new c = some s0) (p : Params) :
    (({ s1 with rtx := {} } : State).setParams p).vw = (s0.setParams p).vw := by
  obtain ⟨i, hside⟩ := early_inv r he
  rw [rejected_vw i hz p, fresh_vw h0 p, hside]

end QM.Streams
