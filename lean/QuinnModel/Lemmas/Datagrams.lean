import QuinnModel.Data.Datagrams
import QuinnModel.Lemmas.VarInt
/-
Proofs about the DatagramState model (C16).
-/
namespace QM.Datagrams
open QM

/-- total payload bytes of a queue -/
def sumLen : List Bytes → Nat
  | [] => 0
  | d :: q => d.length + sumLen q

theorem sumLen_append (a b : List Bytes) : sumLen (a ++ b) = sumLen a + sumLen b := by
  induction a with
  | nil => simp [sumLen]
  | cons d q ih => simp only [List.cons_append, sumLen, ih]; omega

theorem sumLen_drop_le (q : List Bytes) (k : Nat) : sumLen (q.drop k) ≤ sumLen q := by
  induction q generalizing k with
  | nil => simp [sumLen]
  | cons d q ih =>
    cases k with
    | zero => simp
    | succ k => simp only [List.drop_succ_cons, sumLen]; have := ih k; omega

/-- what a queue of buffered incoming datagrams is charged against the receive buffer (`recv_cost` each) -/
def sumCost : List Bytes → Nat
  | [] => 0
  | d :: q => recvCost d + sumCost q

theorem recvCost_eq (d : Bytes) : recvCost d = if d.length = 0 then 1 else d.length := by
  simp only [recvCost, Gen.dgRecvCost, Nat.max_def]
  split <;> split <;> omega

theorem recvCost_pos (d : Bytes) : 1 ≤ recvCost d := by rw [recvCost_eq]; split <;> omega

theorem len_le_recvCost (d : Bytes) : d.length ≤ recvCost d := by rw [recvCost_eq]; split <;> omega

theorem recvCost_le_max (d : Bytes) (w : Nat) (h : d.length ≤ w) : recvCost d ≤ Nat.max w 1 := by
  rw [recvCost_eq]; simp only [Nat.max_def]; split <;> split <;> omega

theorem sumCost_append (a b : List Bytes) : sumCost (a ++ b) = sumCost a + sumCost b := by
  induction a with
  | nil => simp [sumCost]
  | cons d q ih => simp only [List.cons_append, sumCost, ih]; omega

theorem sumCost_drop_le (q : List Bytes) (k : Nat) : sumCost (q.drop k) ≤ sumCost q := by
  induction q generalizing k with
  | nil => simp [sumCost]
  | cons d q ih =>
    cases k with
    | zero => simp
    | succ k => simp only [List.drop_succ_cons, sumCost]; have := ih k; omega

/-- every buffered datagram is charged at least one byte: the charge bounds the NUMBER of queue entries -/
theorem length_le_sumCost (q : List Bytes) : q.length ≤ sumCost q := by
  induction q with
  | nil => simp [sumCost]
  | cons d q ih => simp only [List.length_cons, sumCost]; have := recvCost_pos d; omega

/-- and the payload bytes -/
theorem sumLen_le_sumCost (q : List Bytes) : sumLen q ≤ sumCost q := by
  induction q with
  | nil => simp [sumLen, sumCost]
  | cons d q ih => simp only [sumLen, sumCost]; have := len_le_recvCost d; omega

theorem sumCost_eq_zero_iff (q : List Bytes) : sumCost q = 0 ↔ q = [] := by
  cases q with
  | nil => simp [sumCost]
  | cons d q => simp only [sumCost, reduceCtorEq, iff_false]; have := recvCost_pos d; omega

/-- the accounting invariant of `DatagramState` (plus: queued datagrams are varint-encodable, the
    "length sanity" that `Datagram::encode` relies on) -/
structure Inv (s : State) : Prop where
  out : s.outgoingTotal = sumLen s.outgoing
  inc : s.recvBuffered = sumCost s.incoming
  sane : ∀ d ∈ s.outgoing, d.length < 2^62

theorem init_inv : Inv init := ⟨rfl, rfl, by simp [init]⟩

/-- what the callers guarantee about the inputs of an operation: `usize` buffer size, and a maximum that came
    out of `max_size()` (bounded by the `u16` MTU; any bound below 2^62 suffices) -/
def Op.WF : Op → Prop
  | .send _ _ _ max b => b < 2^64 ∧ ∀ m, max = some m → m < 2^62
  | _ => True

/-! ### has_send_buffer_space / send_buffer_space -/

theorem hasSpace_iff (total len b : Nat) (hb : b < 2^64) :
    Gen.dgHasSpace total len b = true ↔ total + len ≤ b := by
  simp only [Gen.dgHasSpace, Bool.and_eq_true, decide_eq_true_eq]
  omega

theorem hasSpace_false_iff (total len b : Nat) (hb : b < 2^64) :
    Gen.dgHasSpace total len b = false ↔ b < total + len := by
  have := hasSpace_iff total len b hb
  cases h : Gen.dgHasSpace total len b
  · simp only [h, Bool.false_eq_true, false_iff] at this; simp; omega
  · simp only [h, true_iff] at this; simp; omega

theorem sendBufferSpace_eq (s : State) (b : Nat) : sendBufferSpace s b = b - s.outgoingTotal := rfl

/-- `send_buffer_space` and the admission predicate agree (whenever the total is within the buffer) -/
theorem space_agrees (s : State) (len b : Nat) (hb : b < 2^64) (hle : s.outgoingTotal ≤ b) :
    len ≤ sendBufferSpace s b ↔ hasSendBufferSpace s len b = true := by
  unfold hasSendBufferSpace
  rw [hasSpace_iff _ _ _ hb, sendBufferSpace_eq]
  omega

/-! ### make_space_for -/

theorem makeSpace_char (len b : Nat) (hb : b < 2^64) (hlen : len ≤ b) :
    ∀ (q : List Bytes), ∃ k,
      makeSpace len b q (sumLen q) = (q.drop k, sumLen (q.drop k), false)
      ∧ sumLen (q.drop k) + len ≤ b
      ∧ ∀ j, j < k → b < sumLen (q.drop j) + len := by
  intro q
  induction q with
  | nil =>
    refine ⟨0, ?_, ?_, ?_⟩
    · simp [makeSpace]
    · simp [sumLen]; exact hlen
    · intro j hj; omega
  | cons d q ih =>
    by_cases hs : Gen.dgHasSpace (sumLen (d :: q)) len b = true
    · refine ⟨0, ?_, ?_, ?_⟩
      · simp only [makeSpace, hs, if_true, List.drop_zero]
      · simpa using (hasSpace_iff _ _ _ hb).1 hs
      · intro j hj; omega
    · obtain ⟨k, h1, h2, h3⟩ := ih
      have hs' : Gen.dgHasSpace (sumLen (d :: q)) len b = false := by simpa using hs
      refine ⟨k + 1, ?_, ?_, ?_⟩
      · have hnl : ¬ (sumLen (d :: q) < d.length) := by simp only [sumLen]; omega
        have hsub : sumLen (d :: q) - d.length = sumLen q := by simp only [sumLen]; omega
        simp only [makeSpace, hs', Bool.false_eq_true, if_false, hnl, hsub, List.drop_succ_cons]
        exact h1
      · simpa using h2
      · intro j hj
        cases j with
        | zero => simpa using (hasSpace_false_iff _ _ _ hb).1 hs'
        | succ j => simp only [List.drop_succ_cons]; exact h3 j (by omega)

/-! ### send -/

theorem tooLarge_iff (len m b : Nat) : Gen.dgTooLarge len m b = true ↔ Nat.min m b < len := by
  simp [Gen.dgTooLarge]

theorem tooLarge_false_iff (len m b : Nat) : Gen.dgTooLarge len m b = false ↔ len ≤ Nat.min m b := by
  simp [Gen.dgTooLarge]

/-- complete characterisation of `Datagrams::send` from a consistent state -/
theorem send_char (s : State) (hi : Inv s) (d : Bytes) (drop en : Bool) (max : Option Nat) (b : Nat)
    (hb : b < 2^64) (hm : ∀ m, max = some m → m < 2^62) :
    (en = false ∧ send s d drop en max b = (s, .sendErr .disabled))
    ∨ (en = true ∧ max = none ∧ send s d drop en max b = (s, .sendErr .unsupportedByPeer))
    ∨ (∃ m, en = true ∧ max = some m ∧ Nat.min m b < d.length ∧ send s d drop en max b = (s, .sendErr .tooLarge))
    ∨ (∃ m, en = true ∧ max = some m ∧ d.length ≤ Nat.min m b ∧ drop = false ∧ b < s.outgoingTotal + d.length
          ∧ send s d drop en max b = ({ s with sendBlocked := true }, .sendErr (.blocked d)))
    ∨ (∃ m, en = true ∧ max = some m ∧ d.length ≤ Nat.min m b ∧ drop = false ∧ s.outgoingTotal + d.length ≤ b
          ∧ send s d drop en max b =
              ({ s with outgoing := s.outgoing ++ [d], outgoingTotal := s.outgoingTotal + d.length }, .sendOk))
    ∨ (∃ m k, en = true ∧ max = some m ∧ d.length ≤ Nat.min m b ∧ drop = true
          ∧ sumLen (s.outgoing.drop k) + d.length ≤ b
          ∧ (∀ j, j < k → b < sumLen (s.outgoing.drop j) + d.length)
          ∧ send s d drop en max b =
              ({ s with outgoing := s.outgoing.drop k ++ [d], outgoingTotal := sumLen (s.outgoing.drop k) + d.length }, .sendOk)) := by
  cases en with
  | false => left; simp [send]
  | true =>
    right
    cases max with
    | none => left; simp [send]
    | some m =>
      right
      by_cases htl : Gen.dgTooLarge d.length m b = true
      · left; exact ⟨m, rfl, rfl, (tooLarge_iff _ _ _).1 htl, by simp [send, htl]⟩
      · right
        have htl' : Gen.dgTooLarge d.length m b = false := by simpa using htl
        have hle := (tooLarge_false_iff _ _ _).1 htl'
        have hlb : d.length ≤ b := Nat.le_trans hle (Nat.min_le_right _ _)
        cases drop with
        | false =>
          by_cases hs : Gen.dgHasSpace s.outgoingTotal d.length b = true
          · right; left
            have hfit := (hasSpace_iff _ _ _ hb).1 hs
            have hno : ¬ (s.outgoingTotal + d.length ≥ 2^64) := by omega
            refine ⟨m, rfl, rfl, hle, rfl, hfit, ?_⟩
            simp [send, htl', hasSendBufferSpace, hs, hno]
          · left
            have hs' : Gen.dgHasSpace s.outgoingTotal d.length b = false := by simpa using hs
            refine ⟨m, rfl, rfl, hle, rfl, (hasSpace_false_iff _ _ _ hb).1 hs', ?_⟩
            simp [send, htl', hasSendBufferSpace, hs']
        | true =>
          right; right
          obtain ⟨k, h1, h2, h3⟩ := makeSpace_char d.length b hb hlb s.outgoing
          have hno : ¬ (sumLen (s.outgoing.drop k) + d.length ≥ 2^64) := by omega
          refine ⟨m, k, rfl, rfl, hle, rfl, h2, h3, ?_⟩
          simp [send, htl', makeSpaceFor, hi.out, h1, hno]

/-! ### recv / received -/

theorem recv_char (s : State) (hi : s.recvBuffered = sumCost s.incoming) :
    (s.incoming = [] ∧ recv s = (s, .recvNone))
    ∨ (∃ x rest, s.incoming = x :: rest
        ∧ recv s = ({ s with incoming := rest, recvBuffered := sumCost rest }, .recvSome x)) := by
  unfold recv
  cases h : s.incoming with
  | nil => left; simp
  | cons x rest =>
    right
    refine ⟨x, rest, rfl, ?_⟩
    rw [h] at hi
    have hnl : ¬ (s.recvBuffered < recvCost x) := by simp only [sumCost] at hi; omega
    have : s.recvBuffered - recvCost x = sumCost rest := by simp only [sumCost] at hi; omega
    simp only [hnl, if_false, this]

theorem mustEvict_iff (cost buffered w : Nat) : Gen.dgMustEvict cost buffered w = true ↔ w < cost + buffered := by
  simp [Gen.dgMustEvict]

/-- the eviction loop cannot run out of fuel — from ANY state, consistent or not: every iteration pops a
    datagram or leaves the loop -/
theorem evict_never_hangs (cost w : Nat) : ∀ (fuel : Nat) (s : State), s.incoming.length < fuel →
    (evict cost w fuel s).2 ≠ .hang := by
  intro fuel
  induction fuel with
  | zero => intro s h; omega
  | succ fuel ih =>
    intro s hf
    by_cases hm : Gen.dgMustEvict cost s.recvBuffered w = true
    · cases hq : s.incoming with
      | nil => simp [evict, hm, recv, hq]
      | cons x rest =>
        by_cases hlt : s.recvBuffered < recvCost x
        · simp [evict, hm, recv, hq, hlt]
        · have hlen : ({ s with incoming := rest, recvBuffered := s.recvBuffered - recvCost x } : State).incoming.length < fuel := by
            rw [hq] at hf; simp only [List.length_cons] at hf; simp only; omega
          have := ih _ hlen
          simpa [evict, hm, recv, hq, hlt] using this
    · simp [evict, hm]

/-- the eviction loop from a consistent state: drops a minimal prefix (the oldest datagrams) until the charge
    fits — or the queue is empty —, never panics or spins -/
theorem evict_char (cost w : Nat) :
    ∀ (fuel : Nat) (s : State), s.recvBuffered = sumCost s.incoming → s.incoming.length < fuel →
      ∃ k, evict cost w fuel s = ({ s with incoming := s.incoming.drop k, recvBuffered := sumCost (s.incoming.drop k) }, .done)
        ∧ (cost + sumCost (s.incoming.drop k) ≤ w ∨ s.incoming.drop k = [])
        ∧ ∀ j, j < k → w < cost + sumCost (s.incoming.drop j) := by
  intro fuel
  induction fuel with
  | zero => intro s _ h; omega
  | succ fuel ih =>
    intro s hi hf
    have hself : ({ s with incoming := s.incoming.drop 0, recvBuffered := sumCost (s.incoming.drop 0) } : State) = s := by
      cases s; simp only [List.drop_zero]; simp only at hi; simp only [← hi]
    by_cases hm : Gen.dgMustEvict cost s.recvBuffered w = true
    · have hgt := (mustEvict_iff _ _ _).1 hm
      rcases recv_char s hi with ⟨hnil, hr⟩ | ⟨x, rest, hx, hr⟩
      · refine ⟨0, ?_, Or.inr (by simpa using hnil), fun j hj => by omega⟩
        simp only [evict, hm, if_true, hr, hself]
      · have hi' : ({ s with incoming := rest, recvBuffered := sumCost rest } : State).recvBuffered
            = sumCost ({ s with incoming := rest, recvBuffered := sumCost rest } : State).incoming := rfl
        have hf' : ({ s with incoming := rest, recvBuffered := sumCost rest } : State).incoming.length < fuel := by
          rw [hx] at hf; simp only [List.length_cons] at hf; simp only; omega
        obtain ⟨k, h1, h2, h3⟩ := ih _ hi' hf'
        refine ⟨k + 1, ?_, ?_, ?_⟩
        · simp only [evict, hm, if_true, hr, h1, hx, List.drop_succ_cons]
        · simpa [hx] using h2
        · intro j hj
          cases j with
          | zero => simp only [List.drop_zero]; rw [← hi]; exact hgt
          | succ j => rw [hx]; simp only [List.drop_succ_cons]; exact h3 j (by omega)
    · have hm' : Gen.dgMustEvict cost s.recvBuffered w = false := by simpa using hm
      refine ⟨0, ?_, ?_, ?_⟩
      · simp only [evict, hm', Bool.false_eq_true, if_false, hself]
      · have : ¬ (w < cost + s.recvBuffered) := fun h => by
          have := (mustEvict_iff cost s.recvBuffered w).2 h; rw [hm'] at this; exact Bool.noConfusion this
        left; simp only [List.drop_zero, ← hi]; omega
      · intro j hj; omega

theorem recvCost_le_of_pos (d : Bytes) (w : Nat) (h : d.length ≤ w) (hw : 1 ≤ w) : recvCost d ≤ w := by
  rw [recvCost_eq]; split <;> omega

/-- complete characterisation of `DatagramState::received` from a consistent state -/
theorem received_char (s : State) (hi : s.recvBuffered = sumCost s.incoming) (d : Bytes) (window : Option Nat) :
    (window = none ∧ received s d window = (s, .rcvErr .unexpected))
    ∨ (∃ w, window = some w ∧ w < d.length ∧ received s d window = (s, .rcvErr .oversized))
    ∨ (∃ w, window = some w ∧ d.length ≤ w ∧ w < recvCost d ∧ received s d window = (s, .rcvOk false))
    ∨ (∃ w k, window = some w ∧ recvCost d ≤ w
        ∧ received s d window =
            ({ s with incoming := s.incoming.drop k ++ [d], recvBuffered := sumCost (s.incoming.drop k) + recvCost d },
             .rcvOk (decide (s.recvBuffered = 0)))
        ∧ sumCost (s.incoming.drop k) + recvCost d ≤ w
        ∧ ∀ j, j < k → w < sumCost (s.incoming.drop j) + recvCost d) := by
  cases window with
  | none => left; simp [received]
  | some w =>
    right
    by_cases ho : Gen.dgOversized d.length w = true
    · left
      have : w < d.length := by simpa [Gen.dgOversized] using ho
      exact ⟨w, rfl, this, by simp [received, ho]⟩
    · right
      have ho' : Gen.dgOversized d.length w = false := by simpa using ho
      have hle : d.length ≤ w := by simpa [Gen.dgOversized] using ho'
      by_cases hc : Gen.dgCostTooBig (recvCost d) w = true
      · left
        have : w < recvCost d := by simpa [Gen.dgCostTooBig] using hc
        exact ⟨w, rfl, hle, this, by simp [received, ho', hc]⟩
      · right
        have hc' : Gen.dgCostTooBig (recvCost d) w = false := by simpa using hc
        have hcw : recvCost d ≤ w := by simpa [Gen.dgCostTooBig] using hc'
        obtain ⟨k, h1, h2, h3⟩ := evict_char (recvCost d) w (s.incoming.length + 1) s hi (by omega)
        refine ⟨w, k, rfl, hcw, ?_, ?_, fun j hj => by have := h3 j hj; omega⟩
        · simp only [received, ho', hc', Bool.false_eq_true, if_false, h1, Gen.dgWasEmpty]
        · rcases h2 with h2 | h2
          · omega
          · rw [h2]; simp only [sumCost, Nat.zero_add]; exact hcw

/-- the only datagram `received` drops unbuffered is an empty one offered to a zero-sized buffer -/
theorem cost_exceeds_window_iff (d : Bytes) (w : Nat) (h : d.length ≤ w) : w < recvCost d ↔ (w = 0 ∧ d = []) := by
  rw [recvCost_eq]
  constructor
  · intro hlt
    split at hlt
    · rename_i h0; exact ⟨by omega, List.eq_nil_of_length_eq_zero h0⟩
    · omega
  · rintro ⟨rfl, rfl⟩; simp

/-! ### drop_oversized -/

def keep (m : Nat) (d : Bytes) : Bool := Gen.dgKeep d.length m

theorem sumLen_filter_le (p : Bytes → Bool) (q : List Bytes) : sumLen (q.filter p) ≤ sumLen q := by
  induction q with
  | nil => simp [sumLen]
  | cons d q ih =>
    simp only [List.filter_cons]
    split <;> simp only [sumLen] <;> omega

theorem dropOver_char (m : Nat) : ∀ (q : List Bytes) (extra : Nat),
    dropOver m q (sumLen q + extra) =
      some (q.filter (keep m), sumLen (q.filter (keep m)) + extra, q.any (fun d => !keep m d)) := by
  intro q
  induction q with
  | nil => intro extra; simp [dropOver, sumLen]
  | cons d q ih =>
    intro extra
    by_cases hk : Gen.dgKeep d.length m = true
    · have h1 := ih (d.length + extra)
      have e1 : sumLen (d :: q) + extra = sumLen q + (d.length + extra) := by simp only [sumLen]; omega
      have hk2 : keep m d = true := hk
      simp only [dropOver, hk, if_true]
      rw [e1, h1]
      simp only [List.filter_cons, hk2, if_true, sumLen, List.any_cons,
        Bool.not_true, Bool.false_or, Option.some.injEq, Prod.mk.injEq, true_and, and_true]
      omega
    · have hk' : Gen.dgKeep d.length m = false := by simpa using hk
      have hk2 : keep m d = false := hk'
      have h1 := ih extra
      have hnl : ¬ (sumLen (d :: q) + extra < d.length) := by simp only [sumLen]; omega
      have e1 : sumLen (d :: q) + extra - d.length = sumLen q + extra := by simp only [sumLen]; omega
      simp only [dropOver, hk', Bool.false_eq_true, if_false, hnl, e1, h1, List.filter_cons, hk2,
        List.any_cons, Bool.not_false, Bool.true_or]

/-- `drop_oversized` keeps, in order, exactly the datagrams strictly shorter than `max_payload` -/
theorem dropOversized_char (s : State) (hi : s.outgoingTotal = sumLen s.outgoing) (m : Nat) :
    dropOversized s m =
      ({ s with outgoing := s.outgoing.filter (keep m), outgoingTotal := sumLen (s.outgoing.filter (keep m)) },
       .dropped (s.outgoing.any (fun d => !keep m d))) := by
  have := dropOver_char m s.outgoing 0
  simp only [Nat.add_zero] at this
  simp only [dropOversized, hi, this]

theorem keep_iff (m : Nat) (d : Bytes) : keep m d = true ↔ d.length < m := by simp [keep, Gen.dgKeep]

/-! ### drop_oversized_front and the purge at the top of poll_transmit -/

/-- does not fit the current maximum -/
def unfit (m : Nat) (d : Bytes) : Bool := !Gen.dgFrontFits d.length m

theorem unfit_iff (m : Nat) (d : Bytes) : unfit m d = true ↔ m < d.length := by
  simp [unfit, Gen.dgFrontFits]

/-- is the head of the queue unsendable? -/
def headUnfit (m : Nat) : List Bytes → Bool
  | [] => false
  | d :: _ => unfit m d

theorem sumLen_dropWhile_le (p : Bytes → Bool) (q : List Bytes) : sumLen (q.dropWhile p) ≤ sumLen q := by
  induction q with
  | nil => simp [sumLen]
  | cons d q ih =>
    simp only [List.dropWhile_cons]
    split
    · simp only [sumLen]; omega
    · exact Nat.le_refl _

theorem dropFront_char (m : Nat) : ∀ (q : List Bytes) (extra : Nat),
    dropFront m q (sumLen q + extra) =
      some (q.dropWhile (unfit m), sumLen (q.dropWhile (unfit m)) + extra, headUnfit m q) := by
  intro q
  induction q with
  | nil => intro extra; simp [dropFront, sumLen, headUnfit]
  | cons d q ih =>
    intro extra
    by_cases hk : Gen.dgFrontFits d.length m = true
    · have hu : unfit m d = false := by simp [unfit, hk]
      simp only [dropFront, hk, if_true, List.dropWhile_cons, hu, Bool.false_eq_true, if_false, headUnfit]
    · have hk' : Gen.dgFrontFits d.length m = false := by simpa using hk
      have hu : unfit m d = true := by simp [unfit, hk']
      have h1 := ih extra
      have hnl : ¬ (sumLen (d :: q) + extra < d.length) := by simp only [sumLen]; omega
      have e1 : sumLen (d :: q) + extra - d.length = sumLen q + extra := by simp only [sumLen]; omega
      simp only [dropFront, hk', Bool.false_eq_true, if_false, hnl, e1, h1, List.dropWhile_cons, hu, if_true, headUnfit]

/-- `drop_oversized_front` removes exactly the maximal prefix of datagrams longer than `max_payload` -/
theorem dropOversizedFront_char (s : State) (hi : s.outgoingTotal = sumLen s.outgoing) (m : Nat) :
    dropOversizedFront s m =
      ({ s with outgoing := s.outgoing.dropWhile (unfit m), outgoingTotal := sumLen (s.outgoing.dropWhile (unfit m)) },
       .dropped (headUnfit m s.outgoing)) := by
  have := dropFront_char m s.outgoing 0
  simp only [Nat.add_zero] at this
  simp only [dropOversizedFront, hi, this]

theorem purgeGlue_char (s : State) (hi : s.outgoingTotal = sumLen s.outgoing) (max : Option Nat) :
    (max = none ∧ purgeGlue s max = (s, .glue none))
    ∨ (∃ m, max = some m
        ∧ purgeGlue s max =
          ({ s with outgoing := s.outgoing.dropWhile (unfit m), outgoingTotal := sumLen (s.outgoing.dropWhile (unfit m)),
                    sendBlocked := s.sendBlocked && !(headUnfit m s.outgoing) },
           .glue (some (headUnfit m s.outgoing, headUnfit m s.outgoing && s.sendBlocked)))) := by
  cases max with
  | none => left; simp [purgeGlue]
  | some m =>
    right
    refine ⟨m, rfl, ?_⟩
    simp only [purgeGlue, dropOversizedFront_char s hi m]
    cases ha : headUnfit m s.outgoing <;> cases hb : s.sendBlocked <;> simp [hb]

/-- after the purge the head of the queue — the datagram `write` takes next — is within the maximum -/
theorem head_dropWhile_fits (m : Nat) : ∀ (q : List Bytes) (d : Bytes) (rest : List Bytes),
    q.dropWhile (unfit m) = d :: rest → d.length ≤ m := by
  intro q
  induction q with
  | nil => intro d rest h; simp at h
  | cons x q ih =>
    intro d rest h
    by_cases hu : unfit m x = true
    · simp only [List.dropWhile_cons, hu, if_true] at h; exact ih d rest h
    · have hu' : unfit m x = false := by simpa using hu
      simp only [List.dropWhile_cons, hu', Bool.false_eq_true, if_false, List.cons.injEq] at h
      have : ¬ (m < x.length) := fun hlt => by
        have := (unfit_iff m x).2 hlt; rw [hu'] at this; exact Bool.noConfusion this
      rw [← h.1]; omega

theorem mem_of_mem_dropWhile {α} (p : α → Bool) (x : α) (l : List α) (h : x ∈ l.dropWhile p) : x ∈ l :=
  (List.dropWhile_sublist p).subset h

/-! ### frames and write -/

/-- the receiving side's reading of a DATAGRAM-with-length frame (spec): type, varint length, payload -/
def decodeFrame (bs : Bytes) : Option (Bytes × Bytes) :=
  match VarInt.decode bs with
  | some (ty, r1) =>
    if ty = Gen.dgFrameTypeWithLen then
      match VarInt.decode r1 with
      | some (len, r2) => if r2.length < len then none else some (r2.take len, r2.drop len)
      | none => none
    else none
  | none => none

theorem frame_ok (d : Bytes) (h : d.length < 2^62) :
    ∃ fs fr, frameSize d = some fs ∧ encodeFrame d = some fr ∧ fr.length = fs ∧ fs ≤ d.length + Gen.dgSizeBound
      ∧ ∀ rest, decodeFrame (fr ++ rest) = some (d, rest) := by
  obtain ⟨el, sl, he, hs, hl⟩ := VarInt.size_eq_encode_length d.length h
  have hty : (Gen.dgFrameTypeWithLen) < 2^62 := by decide
  have hfrom : VarInt.fromU64 d.length = some d.length := by
    simp only [VarInt.fromU64, Gen.varintFromU64Bound, h, if_true]
  have htyenc : VarInt.encode Gen.dgFrameTypeWithLen = some [49] := by decide
  have hsl : sl ≤ 8 := by
    unfold VarInt.size at hs
    split at hs
    · simp only [Option.some.injEq] at hs; omega
    · split at hs
      · simp only [Option.some.injEq] at hs; omega
      · split at hs
        · simp only [Option.some.injEq] at hs; omega
        · split at hs
          · simp only [Option.some.injEq] at hs; omega
          · simp at hs
  refine ⟨Gen.dgFrameSize sl d.length, [49] ++ el ++ d, ?_, ?_, ?_, ?_, ?_⟩
  · simp only [frameSize, hfrom, hs]
  · simp only [encodeFrame, htyenc, hfrom, he]
  · simp only [Gen.dgFrameSize, List.length_append, List.length_cons, List.length_nil, hl, if_true]
  · simp only [Gen.dgFrameSize, Gen.dgSizeBound, if_true]; omega
  · intro rest
    obtain ⟨el', he', hd'⟩ := VarInt.decode_encode d.length (d ++ rest) h
    rw [he] at he'; cases he'
    have h49 : VarInt.decode ([49] ++ el ++ d ++ rest) = some (49, el ++ (d ++ rest)) := by
      simp [VarInt.decode]
    have hgen : Gen.dgFrameTypeWithLen = 49 := by decide
    simp only [decodeFrame, h49, hgen, if_true, hd', List.length_append]
    have : ¬ (d.length + rest.length < d.length) := by omega
    simp only [this, if_false, List.take_left', List.drop_left']

/-- complete characterisation of `DatagramState::write` from a consistent state -/
theorem write_char (s : State) (hi : Inv s) (buf : Bytes) (max : Nat) :
    (write s buf max = (s, .wrote false buf)
      ∧ (s.outgoing = [] ∨ ∃ d rest fs, s.outgoing = d :: rest ∧ frameSize d = some fs ∧ max < buf.length + fs))
    ∨ (∃ d rest fs fr, s.outgoing = d :: rest ∧ frameSize d = some fs ∧ encodeFrame d = some fr ∧ fr.length = fs
        ∧ buf.length + fs ≤ max
        ∧ write s buf max =
            ({ s with outgoing := rest, outgoingTotal := sumLen rest }, .wrote true (buf ++ fr))) := by
  cases h : s.outgoing with
  | nil => left; simp [write, h]
  | cons d rest =>
    have hd : d.length < 2^62 := hi.sane d (by rw [h]; simp)
    obtain ⟨fs, fr, hfs, hfr, hlen, _, _⟩ := frame_ok d hd
    have ht := hi.out
    rw [h] at ht
    by_cases hn : Gen.dgNoRoom buf.length fs max = true
    · left
      have : max < buf.length + fs := by simpa [Gen.dgNoRoom] using hn
      exact ⟨by simp [write, h, hfs, hfr, hn], Or.inr ⟨d, rest, fs, rfl, hfs, this⟩⟩
    · right
      have hn' : Gen.dgNoRoom buf.length fs max = false := by simpa using hn
      have hfit : buf.length + fs ≤ max := by simpa [Gen.dgNoRoom] using hn'
      have hnl : ¬ (s.outgoingTotal < d.length) := by simp only [sumLen] at ht; omega
      have hsub : s.outgoingTotal - d.length = sumLen rest := by simp only [sumLen] at ht; omega
      exact ⟨d, rest, fs, fr, rfl, hfs, hfr, hlen, hfit, by simp [write, h, hfs, hfr, hn', hnl, hsub]⟩

/-! ### the DATAGRAM loop of populate_packet, the black-hole glue -/

/-- concatenated frames of a list of datagrams -/
def encAll : List Bytes → Bytes
  | [] => []
  | d :: q => (match encodeFrame d with | some fr => fr | none => []) ++ encAll q

theorem inv_tail (s : State) (hi : Inv s) (d : Bytes) (rest : List Bytes) (h : s.outgoing = d :: rest) :
    Inv { s with outgoing := rest, outgoingTotal := sumLen rest } :=
  ⟨rfl, hi.inc, fun x hx => hi.sane x (by rw [h]; exact List.mem_cons_of_mem _ hx)⟩

theorem writeLoopAux_char (max : Nat) : ∀ (fuel : Nat) (s : State) (buf : Bytes) (n0 : Nat), Inv s →
    s.outgoing.length < fuel →
    ∃ k, writeLoopAux max fuel s buf n0 =
        ({ s with outgoing := s.outgoing.drop k, outgoingTotal := sumLen (s.outgoing.drop k) },
         buf ++ encAll (s.outgoing.take k), n0 + k, false)
      ∧ k ≤ s.outgoing.length
      ∧ (0 < k → (buf ++ encAll (s.outgoing.take k)).length ≤ max) := by
  intro fuel
  induction fuel with
  | zero => intro s _ _ _ h; omega
  | succ fuel ih =>
    intro s buf n0 hi hf
    have hself : ({ s with outgoing := s.outgoing.drop 0, outgoingTotal := sumLen (s.outgoing.drop 0) } : State) = s := by
      cases s; simp only [List.drop_zero]; simp only [← hi.out]
    by_cases hg : Gen.dgLoopGuard buf.length max = true
    · rcases write_char s hi buf max with ⟨hw, _⟩ | ⟨d, rest, fs, fr, hq, hfs, hfr, hlen, hfit, hw⟩
      · refine ⟨0, ?_, by omega, by omega⟩
        simp only [writeLoopAux, hg, if_true, hw, hself, List.take_zero, encAll, List.append_nil, Nat.add_zero]
      · have hi' := inv_tail s hi d rest hq
        have hf' : ({ s with outgoing := rest, outgoingTotal := sumLen rest } : State).outgoing.length < fuel := by
          rw [hq] at hf; simp only [List.length_cons] at hf; simp only; omega
        obtain ⟨k, h1, h2, h3⟩ := ih _ (buf ++ fr) (n0 + 1) hi' hf'
        refine ⟨k + 1, ?_, ?_, ?_⟩
        · simp only [writeLoopAux, hg, if_true, hw, h1, hq, List.drop_succ_cons, List.take_succ_cons, encAll, hfr,
            List.append_assoc]
          simp only [Nat.add_assoc, Nat.add_comm 1 k]
        · rw [hq]; simp only [List.length_cons]; simp only at h2; omega
        · intro _
          rw [hq]; simp only [List.take_succ_cons, encAll, hfr]
          by_cases hk : 0 < k
          · have := h3 hk; simpa [List.append_assoc] using this
          · have hk0 : k = 0 := by omega
            subst hk0
            simp only [List.take_zero, encAll, List.append_nil, List.length_append, hlen]
            exact hfit
    · have hg' : Gen.dgLoopGuard buf.length max = false := by simpa using hg
      refine ⟨0, ?_, by omega, by omega⟩
      simp only [writeLoopAux, hg', Bool.false_eq_true, if_false, hself, List.take_zero, encAll, List.append_nil, Nat.add_zero]

/-- DATAGRAM block of populate_packet from a consistent state: whole frames of a prefix of the queue, within
    the budget; `send_blocked` is cleared exactly when it was set and something was sent -/
theorem writeLoop_char (s : State) (hi : Inv s) (buf : Bytes) (max : Nat) :
    ∃ k, k ≤ s.outgoing.length
      ∧ writeLoop s buf max =
        ({ s with outgoing := s.outgoing.drop k, outgoingTotal := sumLen (s.outgoing.drop k),
                  sendBlocked := s.sendBlocked && decide (k = 0) },
         .loop k (buf ++ encAll (s.outgoing.take k)) (s.sendBlocked && decide (0 < k)))
      ∧ (0 < k → (buf ++ encAll (s.outgoing.take k)).length ≤ max) := by
  obtain ⟨k, h1, h2, h3⟩ := writeLoopAux_char max (s.outgoing.length + 1) s buf 0 hi (by omega)
  refine ⟨k, h2, ?_, h3⟩
  simp only [writeLoop, h1, Nat.zero_add]
  cases hb : s.sendBlocked with
  | false => simp [hb]
  | true =>
    by_cases hk : 0 < k
    · have : ¬ k = 0 := by omega
      simp [hk, this]
    · have : k = 0 := by omega
      subst this
      simp [hb]

theorem blackHoleGlue_char (s : State) (hi : s.outgoingTotal = sumLen s.outgoing) (max : Option Nat) :
    (max = none ∧ blackHoleGlue s max = (s, .glue none))
    ∨ (∃ m, max = some m
        ∧ blackHoleGlue s max =
          ({ s with outgoing := s.outgoing.filter (keep m), outgoingTotal := sumLen (s.outgoing.filter (keep m)),
                    sendBlocked := s.sendBlocked && !(s.outgoing.any (fun d => !keep m d)) },
           .glue (some (s.outgoing.any (fun d => !keep m d), s.outgoing.any (fun d => !keep m d) && s.sendBlocked)))) := by
  cases max with
  | none => left; simp [blackHoleGlue]
  | some m =>
    right
    refine ⟨m, rfl, ?_⟩
    simp only [blackHoleGlue, dropOversized_char s hi m]
    cases ha : s.outgoing.any (fun d => !keep m d) <;> cases hb : s.sendBlocked <;> simp [hb]

/-! ### the invariant is preserved, nothing panics or spins -/

theorem mem_of_mem_drop' {α} (x : α) (l : List α) (k : Nat) (h : x ∈ l.drop k) : x ∈ l := List.mem_of_mem_drop h

theorem step_inv (s : State) (hi : Inv s) (op : Op) (hw : op.WF) :
    Inv (step s op).1 ∧ (step s op).2 ≠ .panic ∧ (step s op).2 ≠ .hang := by
  cases op with
  | send d drop en max b =>
    obtain ⟨hb, hm⟩ := hw
    simp only [step]
    rcases send_char s hi d drop en max b hb hm with
      ⟨_, h⟩ | ⟨_, _, h⟩ | ⟨m, _, _, _, h⟩ | ⟨m, _, _, _, _, _, h⟩ | ⟨m, _, hmx, hle, _, _, h⟩ | ⟨m, k, _, hmx, hle, _, _, _, h⟩
    · rw [h]; exact ⟨hi, by simp, by simp⟩
    · rw [h]; exact ⟨hi, by simp, by simp⟩
    · rw [h]; exact ⟨hi, by simp, by simp⟩
    · rw [h]; exact ⟨⟨hi.out, hi.inc, hi.sane⟩, by simp, by simp⟩
    · rw [h]
      refine ⟨⟨?_, hi.inc, ?_⟩, by simp, by simp⟩
      · simp only [sumLen_append, sumLen, hi.out]; omega
      · intro x hx
        simp only [List.mem_append, List.mem_singleton] at hx
        rcases hx with hx | hx
        · exact hi.sane x hx
        · subst hx
          have h1 := hm m hmx
          have h2 : x.length ≤ m := Nat.le_trans hle (Nat.min_le_left _ _)
          omega
    · rw [h]
      refine ⟨⟨?_, hi.inc, ?_⟩, by simp, by simp⟩
      · simp only [sumLen_append, sumLen]; omega
      · intro x hx
        simp only [List.mem_append, List.mem_singleton] at hx
        rcases hx with hx | hx
        · exact hi.sane x (List.mem_of_mem_drop hx)
        · subst hx
          have h1 := hm m hmx
          have h2 : x.length ≤ m := Nat.le_trans hle (Nat.min_le_left _ _)
          omega
  | received d w =>
    simp only [step]
    rcases received_char s hi.inc d w with ⟨_, h⟩ | ⟨w', _, _, h⟩ | ⟨w', _, _, _, h⟩ | ⟨w', k, _, _, h, _, _⟩
    · rw [h]; exact ⟨hi, by simp, by simp⟩
    · rw [h]; exact ⟨hi, by simp, by simp⟩
    · rw [h]; exact ⟨hi, by simp, by simp⟩
    · rw [h]
      refine ⟨⟨hi.out, ?_, hi.sane⟩, by simp, by simp⟩
      simp only [sumCost_append, sumCost]; omega
  | recv =>
    simp only [step]
    rcases recv_char s hi.inc with ⟨_, h⟩ | ⟨x, rest, _, h⟩
    · rw [h]; exact ⟨hi, by simp, by simp⟩
    · rw [h]; exact ⟨⟨hi.out, rfl, hi.sane⟩, by simp, by simp⟩
  | write buf m =>
    simp only [step]
    rcases write_char s hi buf m with ⟨h, _⟩ | ⟨d, rest, fs, fr, hq, _, _, _, _, h⟩
    · rw [h]; exact ⟨hi, by simp, by simp⟩
    · rw [h]; exact ⟨inv_tail s hi d rest hq, by simp, by simp⟩
  | writeLoop buf m =>
    simp only [step]
    obtain ⟨k, _, h, _⟩ := writeLoop_char s hi buf m
    rw [h]
    exact ⟨⟨rfl, hi.inc, fun x hx => hi.sane x (List.mem_of_mem_drop hx)⟩, by simp, by simp⟩
  | dropOversized m =>
    simp only [step]
    rw [dropOversized_char s hi.out m]
    exact ⟨⟨rfl, hi.inc, fun x hx => hi.sane x ((List.mem_filter.1 hx).1)⟩, by simp, by simp⟩
  | blackHoleGlue max =>
    simp only [step]
    rcases blackHoleGlue_char s hi.out max with ⟨_, h⟩ | ⟨m, _, h⟩
    · rw [h]; exact ⟨hi, by simp, by simp⟩
    · rw [h]
      exact ⟨⟨rfl, hi.inc, fun x hx => hi.sane x ((List.mem_filter.1 hx).1)⟩, by simp, by simp⟩
  | purgeGlue max =>
    simp only [step]
    rcases purgeGlue_char s hi.out max with ⟨_, h⟩ | ⟨m, _, h⟩
    · rw [h]; exact ⟨hi, by simp, by simp⟩
    · rw [h]
      exact ⟨⟨rfl, hi.inc, fun x hx => hi.sane x (mem_of_mem_dropWhile _ x _ hx)⟩, by simp, by simp⟩

/-! ### runs -/

/-- state after a sequence of operations -/
def exec (s : State) : List Op → State
  | [] => s
  | op :: ops => exec (step s op).1 ops

/-- what each operation returned -/
def trace (s : State) : List Op → List (Op × Out)
  | [] => []
  | op :: ops => (op, (step s op).2) :: trace (step s op).1 ops

theorem exec_inv (ops : List Op) : ∀ (s : State), Inv s → (∀ op ∈ ops, op.WF) → Inv (exec s ops) := by
  induction ops with
  | nil => intro s hi _; exact hi
  | cons op ops ih =>
    intro s hi hw
    exact ih _ (step_inv s hi op (hw op (by simp))).1 (fun o ho => hw o (by simp [ho]))

theorem trace_no_panic (ops : List Op) : ∀ (s : State), Inv s → (∀ op ∈ ops, op.WF) →
    ∀ e ∈ trace s ops, e.2 ≠ .panic ∧ e.2 ≠ .hang := by
  induction ops with
  | nil => intro s _ _ e he; simp [trace] at he
  | cons op ops ih =>
    intro s hi hw e he
    have hs := step_inv s hi op (hw op (by simp))
    simp only [trace, List.mem_cons] at he
    rcases he with he | he
    · subst he; exact hs.2
    · exact ih _ hs.1 (fun o ho => hw o (by simp [ho])) e he

/-- datagrams accepted by `received`, in order -/
def accepted : List (Op × Out) → List Bytes
  | [] => []
  | (.received d _, .rcvOk _) :: t => d :: accepted t
  | _ :: t => accepted t

/-- datagrams handed to the application by `recv`, in order -/
def delivered : List (Op × Out) → List Bytes
  | [] => []
  | (.recv, .recvSome d) :: t => d :: delivered t
  | _ :: t => delivered t

theorem accepted_cons_other (op : Op) (o : Out) (t : List (Op × Out))
    (h : ∀ d w e, ¬ (op = .received d w ∧ o = .rcvOk e)) : accepted ((op, o) :: t) = accepted t := by
  cases op <;> cases o <;> simp_all [accepted]

theorem delivered_cons_other (op : Op) (o : Out) (t : List (Op × Out))
    (h : ∀ d, ¬ (op = .recv ∧ o = .recvSome d)) : delivered ((op, o) :: t) = delivered t := by
  cases op <;> cases o <;> simp_all [delivered]

/-- FIFO delivery: what `recv` returned so far, followed by what is still buffered, is a subsequence (same
    order, no duplication, bytes unchanged) of what was buffered initially followed by what was accepted -/
theorem fifo_general (ops : List Op) : ∀ (s : State), Inv s → (∀ op ∈ ops, op.WF) →
    (delivered (trace s ops) ++ (exec s ops).incoming).Sublist (s.incoming ++ accepted (trace s ops)) := by
  induction ops with
  | nil => intro s _ _; simp [trace, exec, delivered, accepted]
  | cons op ops ih =>
    intro s hi hw
    have hs := step_inv s hi op (hw op (by simp))
    have ih' := ih (step s op).1 hs.1 (fun o ho => hw o (by simp [ho]))
    simp only [trace, exec]
    -- operations that do not touch the receive side
    have other : (step s op).1.incoming = s.incoming →
        (∀ d w e, ¬ (op = .received d w ∧ (step s op).2 = .rcvOk e)) →
        (∀ d, ¬ (op = .recv ∧ (step s op).2 = .recvSome d)) →
        (delivered ((op, (step s op).2) :: trace (step s op).1 ops) ++ (exec (step s op).1 ops).incoming).Sublist
          (s.incoming ++ accepted ((op, (step s op).2) :: trace (step s op).1 ops)) := by
      intro h1 h2 h3
      rw [accepted_cons_other _ _ _ h2, delivered_cons_other _ _ _ h3, ← h1]
      exact ih'
    cases op with
    | send d drop en max b =>
      obtain ⟨hb, hm⟩ := hw (.send d drop en max b) (by simp)
      apply other
      · simp only [step]
        rcases send_char s hi d drop en max b hb hm with
          ⟨_, h⟩ | ⟨_, _, h⟩ | ⟨m, _, _, _, h⟩ | ⟨m, _, _, _, _, _, h⟩ | ⟨m, _, _, _, _, _, h⟩ | ⟨m, k, _, _, _, _, _, _, h⟩ <;> rw [h]
      · intro d w e h; simp at h
      · intro d h; simp at h
    | write buf m =>
      apply other
      · simp only [step]
        rcases write_char s hi buf m with ⟨h, _⟩ | ⟨d, rest, fs, fr, _, _, _, _, _, h⟩ <;> rw [h]
      · intro d w e h; simp at h
      · intro d h; simp at h
    | writeLoop buf m =>
      apply other
      · simp only [step]
        obtain ⟨k, _, h, _⟩ := writeLoop_char s hi buf m
        rw [h]
      · intro d w e h; simp at h
      · intro d h; simp at h
    | dropOversized m =>
      apply other
      · simp only [step]; rw [dropOversized_char s hi.out m]
      · intro d w e h; simp at h
      · intro d h; simp at h
    | blackHoleGlue max =>
      apply other
      · simp only [step]
        rcases blackHoleGlue_char s hi.out max with ⟨_, h⟩ | ⟨m, _, h⟩ <;> rw [h]
      · intro d w e h; simp at h
      · intro d h; simp at h
    | purgeGlue max =>
      apply other
      · simp only [step]
        rcases purgeGlue_char s hi.out max with ⟨_, h⟩ | ⟨m, _, h⟩ <;> rw [h]
      · intro d w e h; simp at h
      · intro d h; simp at h
    | recv =>
      simp only [step] at ih' ⊢
      rcases recv_char s hi.inc with ⟨hnil, h⟩ | ⟨x, rest, hx, h⟩
      · rw [h] at ih' ⊢
        simpa [delivered, accepted] using ih'
      · rw [h] at ih' ⊢
        simp only [delivered, accepted, hx, List.cons_append] at ih' ⊢
        exact List.Sublist.cons₂ x ih'
    | received d w =>
      simp only [step] at ih' ⊢
      rcases received_char s hi.inc d w with ⟨_, h⟩ | ⟨w', _, _, h⟩ | ⟨w', _, _, _, h⟩ | ⟨w', k, _, _, h, _, _⟩
      · rw [h] at ih' ⊢; simpa [delivered, accepted] using ih'
      · rw [h] at ih' ⊢; simpa [delivered, accepted] using ih'
      · rw [h] at ih' ⊢
        simp only [delivered, accepted] at ih' ⊢
        exact List.Sublist.trans ih' (List.Sublist.append (List.Sublist.refl _) (List.sublist_cons_self _ _))
      · rw [h] at ih' ⊢
        simp only [delivered, accepted] at ih' ⊢
        refine List.Sublist.trans ih' ?_
        simp only [List.append_assoc, List.singleton_append]
        exact List.Sublist.append (List.drop_sublist k s.incoming) (List.Sublist.refl _)

/-! ### derived forms used by the property theorems -/

theorem send_ok_iff (s : State) (hi : Inv s) (d : Bytes) (drop en : Bool) (max : Option Nat) (b : Nat)
    (hb : b < 2^64) (hm : ∀ m, max = some m → m < 2^62) :
    (send s d drop en max b).2 = .sendOk ↔
      en = true ∧ ∃ m, max = some m ∧ d.length ≤ Nat.min m b ∧ (drop = true ∨ s.outgoingTotal + d.length ≤ b) := by
  rcases send_char s hi d drop en max b hb hm with
    ⟨he, h⟩ | ⟨he, hmx, h⟩ | ⟨m, he, hmx, hlt, h⟩ | ⟨m, he, hmx, hle, hd, hlt, h⟩ | ⟨m, he, hmx, hle, hd, hfit, h⟩ | ⟨m, k, he, hmx, hle, hd, _, _, h⟩
  · rw [h]; simp [he]
  · rw [h]; simp [hmx]
  · rw [h]; simp only [reduceCtorEq, false_iff]
    rintro ⟨_, m', hm', hle, _⟩
    rw [hmx] at hm'; cases hm'; omega
  · rw [h]; simp only [reduceCtorEq, false_iff]
    rintro ⟨_, m', _, _, hor⟩
    rcases hor with hor | hor
    · rw [hd] at hor; exact Bool.noConfusion hor
    · omega
  · rw [h]; simp only [true_iff]
    exact ⟨he, m, hmx, hle, Or.inr hfit⟩
  · rw [h]; simp only [true_iff]
    exact ⟨he, m, hmx, hle, Or.inl hd⟩

/-- `Blocked` is returned exactly when every size check passes, `drop` is false and the admission predicate
    `has_send_buffer_space` is false; only then is `send_blocked` set, nothing else changes -/
theorem send_blocked_iff (s : State) (hi : Inv s) (d : Bytes) (drop en : Bool) (max : Option Nat) (b : Nat)
    (hb : b < 2^64) (hm : ∀ m, max = some m → m < 2^62) :
    ((send s d drop en max b).2 = .sendErr (.blocked d) ↔
      en = true ∧ (∃ m, max = some m ∧ d.length ≤ Nat.min m b) ∧ drop = false ∧ hasSendBufferSpace s d.length b = false)
    ∧ ((send s d drop en max b).2 = .sendErr (.blocked d) → (send s d drop en max b).1 = { s with sendBlocked := true })
    ∧ ((send s d drop en max b).2 ≠ .sendErr (.blocked d) → (send s d drop en max b).1.sendBlocked = s.sendBlocked) := by
  have hsp : hasSendBufferSpace s d.length b = false ↔ b < s.outgoingTotal + d.length := by
    unfold hasSendBufferSpace; exact hasSpace_false_iff _ _ _ hb
  rcases send_char s hi d drop en max b hb hm with
    ⟨he, h⟩ | ⟨he, hmx, h⟩ | ⟨m, he, hmx, hlt, h⟩ | ⟨m, he, hmx, hle, hd, hlt, h⟩ | ⟨m, he, hmx, hle, hd, hfit, h⟩ | ⟨m, k, he, hmx, hle, hd, _, _, h⟩
  · rw [h]; simp [he]
  · rw [h]; simp [hmx]
  · rw [h]; refine ⟨?_, by simp, by simp⟩
    simp only [Out.sendErr.injEq, reduceCtorEq, false_iff]
    rintro ⟨_, ⟨m', hm', hle⟩, _, _⟩
    rw [hmx] at hm'; cases hm'; omega
  · rw [h]; refine ⟨?_, by simp, by simp⟩
    simp only [true_iff]
    exact ⟨he, ⟨m, hmx, hle⟩, hd, hsp.2 hlt⟩
  · rw [h]; refine ⟨?_, by simp, by simp⟩
    simp only [Out.sendErr.injEq, reduceCtorEq, false_iff]
    rintro ⟨_, _, _, hns⟩
    have := hsp.1 hns; omega
  · rw [h]; refine ⟨?_, by simp, by simp⟩
    simp only [Out.sendErr.injEq, reduceCtorEq, false_iff]
    rintro ⟨_, _, hdf, _⟩
    rw [hd] at hdf; exact Bool.noConfusion hdf

/-- bytes queued never grow except by an accepted `send`, which leaves them within that call's buffer size -/
theorem step_total (s : State) (hi : Inv s) (op : Op) (hw : op.WF) :
    (step s op).1.outgoingTotal ≤ s.outgoingTotal
    ∨ ∃ d drop en max b, op = .send d drop en max b ∧ (step s op).2 = .sendOk ∧ (step s op).1.outgoingTotal ≤ b := by
  cases op with
  | send d drop en max b =>
    obtain ⟨hb, hm⟩ := hw
    simp only [step]
    rcases send_char s hi d drop en max b hb hm with
      ⟨_, h⟩ | ⟨_, _, h⟩ | ⟨m, _, _, _, h⟩ | ⟨m, _, _, _, _, _, h⟩ | ⟨m, _, _, _, _, hfit, h⟩ | ⟨m, k, _, _, _, _, hfit, _, h⟩
    · left; rw [h]; exact Nat.le_refl _
    · left; rw [h]; exact Nat.le_refl _
    · left; rw [h]; exact Nat.le_refl _
    · left; rw [h]; exact Nat.le_refl _
    · right; exact ⟨d, drop, en, max, b, rfl, by rw [h], by rw [h]; exact hfit⟩
    · right; exact ⟨d, drop, en, max, b, rfl, by rw [h], by rw [h]; exact hfit⟩
  | received d w =>
    left; simp only [step]
    rcases received_char s hi.inc d w with ⟨_, h⟩ | ⟨w', _, _, h⟩ | ⟨w', _, _, _, h⟩ | ⟨w', k, _, _, h, _, _⟩ <;> rw [h] <;> exact Nat.le_refl _
  | recv =>
    left; simp only [step]
    rcases recv_char s hi.inc with ⟨_, h⟩ | ⟨x, rest, _, h⟩ <;> rw [h] <;> exact Nat.le_refl _
  | write buf m =>
    left; simp only [step]
    rcases write_char s hi buf m with ⟨h, _⟩ | ⟨d, rest, fs, fr, hq, _, _, _, _, h⟩
    · rw [h]; exact Nat.le_refl _
    · rw [h]; simp only [hi.out, hq, sumLen]; omega
  | writeLoop buf m =>
    left; simp only [step]
    obtain ⟨k, _, h, _⟩ := writeLoop_char s hi buf m
    rw [h]; simp only [hi.out]; exact sumLen_drop_le _ _
  | dropOversized m =>
    left; simp only [step]
    rw [dropOversized_char s hi.out m]; simp only [hi.out]; exact sumLen_filter_le _ _
  | blackHoleGlue max =>
    left; simp only [step]
    rcases blackHoleGlue_char s hi.out max with ⟨_, h⟩ | ⟨m, _, h⟩
    · rw [h]; exact Nat.le_refl _
    · rw [h]; simp only [hi.out]; exact sumLen_filter_le _ _
  | purgeGlue max =>
    left; simp only [step]
    rcases purgeGlue_char s hi.out max with ⟨_, h⟩ | ⟨m, _, h⟩
    · rw [h]; exact Nat.le_refl _
    · rw [h]; simp only [hi.out]; exact sumLen_dropWhile_le _ _

/-- with one send-buffer size for the whole run (a connection's configuration is fixed) the bound is global -/
theorem total_le_fixed (b : Nat) (ops : List Op) : ∀ (s : State), Inv s → s.outgoingTotal ≤ b →
    (∀ op ∈ ops, op.WF ∧ ∀ d drop en max b', op = .send d drop en max b' → b' = b) →
    (exec s ops).outgoingTotal ≤ b := by
  induction ops with
  | nil => intro s _ h _; exact h
  | cons op ops ih =>
    intro s hi hle hw
    have hop := hw op (by simp)
    have hs := step_inv s hi op hop.1
    refine ih _ hs.1 ?_ (fun o ho => hw o (by simp [ho]))
    rcases step_total s hi op hop.1 with h | ⟨d, drop, en, max, b', hop', _, h⟩
    · omega
    · have := hop.2 d drop en max b' hop'; omega

/-! ### the receive buffer bounds bytes AND entries -/

/-- what is charged for the buffered datagrams never grows except by an accepted `received`, which leaves it
    within that call's window -/
theorem step_buffered (s : State) (hi : Inv s) (op : Op) (hw : op.WF) :
    (step s op).1.recvBuffered ≤ s.recvBuffered
    ∨ ∃ d w e, op = .received d (some w) ∧ (step s op).2 = .rcvOk e ∧ (step s op).1.recvBuffered ≤ w := by
  cases op with
  | send d drop en max b =>
    obtain ⟨hb, hm⟩ := hw
    left; simp only [step]
    rcases send_char s hi d drop en max b hb hm with
      ⟨_, h⟩ | ⟨_, _, h⟩ | ⟨m, _, _, _, h⟩ | ⟨m, _, _, _, _, _, h⟩ | ⟨m, _, _, _, _, _, h⟩ | ⟨m, k, _, _, _, _, _, _, h⟩ <;>
      rw [h] <;> exact Nat.le_refl _
  | received d w =>
    simp only [step]
    rcases received_char s hi.inc d w with ⟨_, h⟩ | ⟨w', _, _, h⟩ | ⟨w', _, _, _, h⟩ | ⟨w', k, hw', _, h, hb, _⟩
    · left; rw [h]; exact Nat.le_refl _
    · left; rw [h]; exact Nat.le_refl _
    · left; rw [h]; exact Nat.le_refl _
    · right; subst hw'; exact ⟨d, w', _, rfl, by rw [h], by rw [h]; exact hb⟩
  | recv =>
    left; simp only [step]
    rcases recv_char s hi.inc with ⟨_, h⟩ | ⟨x, rest, hx, h⟩
    · rw [h]; exact Nat.le_refl _
    · rw [h]; simp only [hi.inc, hx, sumCost]; omega
  | write buf m =>
    left; simp only [step]
    rcases write_char s hi buf m with ⟨h, _⟩ | ⟨d, rest, fs, fr, hq, _, _, _, _, h⟩ <;> rw [h] <;> exact Nat.le_refl _
  | writeLoop buf m =>
    left; simp only [step]
    obtain ⟨k, _, h, _⟩ := writeLoop_char s hi buf m
    rw [h]; exact Nat.le_refl _
  | dropOversized m =>
    left; simp only [step]
    rw [dropOversized_char s hi.out m]; exact Nat.le_refl _
  | blackHoleGlue max =>
    left; simp only [step]
    rcases blackHoleGlue_char s hi.out max with ⟨_, h⟩ | ⟨m, _, h⟩ <;> rw [h] <;> exact Nat.le_refl _
  | purgeGlue max =>
    left; simp only [step]
    rcases purgeGlue_char s hi.out max with ⟨_, h⟩ | ⟨m, _, h⟩ <;> rw [h] <;> exact Nat.le_refl _

/-- with the connection's single configured `datagram_receive_buffer_size` (`received` is called with it, or with
    `None` = disabled) the charge is bounded in every reachable state -/
theorem buffered_le_fixed (w : Nat) (ops : List Op) : ∀ (s : State), Inv s → s.recvBuffered ≤ w →
    (∀ op ∈ ops, op.WF ∧ ∀ d w', op = .received d (some w') → w' = w) →
    (exec s ops).recvBuffered ≤ w := by
  induction ops with
  | nil => intro s _ h _; exact h
  | cons op ops ih =>
    intro s hi hle hw
    have hop := hw op (by simp)
    have hs := step_inv s hi op hop.1
    refine ih _ hs.1 ?_ (fun o ho => hw o (by simp [ho]))
    rcases step_buffered s hi op hop.1 with h | ⟨d, w', e, hop', _, h⟩
    · omega
    · have := hop.2 d w' hop'; subst this; exact h

/-- hence the NUMBER of buffered datagrams is bounded by the configured window (every entry is charged ≥ 1) -/
theorem count_le_fixed (w : Nat) (ops : List Op) (s : State) (hi : Inv s) (h0 : s.recvBuffered ≤ w)
    (hw : ∀ op ∈ ops, op.WF ∧ ∀ d w', op = .received d (some w') → w' = w) :
    (exec s ops).incoming.length ≤ w ∧ sumLen (exec s ops).incoming ≤ w := by
  have hb := buffered_le_fixed w ops s hi h0 hw
  have hinv := exec_inv ops s hi (fun o ho => (hw o ho).1)
  rw [hinv.inc] at hb
  exact ⟨Nat.le_trans (length_le_sumCost _) hb, Nat.le_trans (sumLen_le_sumCost _) hb⟩

/-! ### max_size -/

theorem maxSize_none_iff (mtu oh : Nat) (peer : Option Nat) :
    maxSize mtu oh peer = none ↔ mtu < oh + Gen.dgSizeBound := by
  unfold maxSize
  by_cases h1 : mtu < oh
  · simp only [h1, if_true, true_iff]; omega
  · by_cases h2 : mtu - oh < Gen.dgSizeBound
    · simp only [h1, h2, if_true, if_false, true_iff]; omega
    · simp only [h1, h2, if_false]
      cases peer <;> simp <;> omega

theorem maxSize_some (mtu oh : Nat) (peer : Option Nat) (r : Option Nat) (h : maxSize mtu oh peer = some r) :
    (r = none ↔ peer = none)
    ∧ ∀ m, r = some m → m + oh + Gen.dgSizeBound ≤ mtu
        ∧ ∃ p, peer = some p ∧ m ≤ p - Gen.dgSizeBound
        ∧ m = Nat.min (p - Gen.dgSizeBound) (mtu - oh - Gen.dgSizeBound) := by
  unfold maxSize at h
  by_cases h1 : mtu < oh
  · simp [h1] at h
  · by_cases h2 : mtu - oh < Gen.dgSizeBound
    · simp [h1, h2] at h
    · simp only [h1, h2, if_false] at h
      cases peer with
      | none => simp only [Option.some.injEq] at h; subst h; simp
      | some p =>
        simp only [Option.some.injEq] at h; subst h
        refine ⟨by simp, ?_⟩
        intro m hm
        simp only [Option.some.injEq] at hm
        subst hm
        simp only [Gen.dgMaxSizeResult, Gen.dgMaxSizeLimit, Gen.dgMaxSizeBudget]
        refine ⟨?_, p, rfl, Nat.min_le_left _ _, rfl⟩
        have : Nat.min (p - Gen.dgSizeBound) (mtu - oh - Gen.dgSizeBound) ≤ mtu - oh - Gen.dgSizeBound := Nat.min_le_right _ _
        omega

theorem overhead_le (cid : Nat) (scid : Option Nat) (h : cid ≤ 20) (hs : ∀ l, scid = some l → l ≤ 20) :
    overhead cid scid ≤ 69 := by
  cases scid with
  | none => simp only [overhead, Gen.dgOverhead, Gen.dgPnLenBound, Gen.dgTagLenGuess]; omega
  | some l =>
    have := hs l rfl
    simp only [overhead, Gen.dgOverhead, Gen.dgPnLenBound, Gen.dgTagLenGuess, Gen.dgLongHeaderExtra]; omega

/-! ### what `max_size()` promises, measured on the packet as it is really built (RFC 9000 §17.2, §17.3)

The layouts are written down from the RFC, not from `predict_1rtt_overhead`. -/

/-- length of a 1-RTT packet: flags, destination CID, packet number, payload, AEAD tag (RFC 9000 §17.3.1) -/
def shortPacketLen (dcid pn payload tag : Nat) : Nat := 1 + dcid + pn + payload + tag

/-- length of a 0-RTT packet: flags, version (4), DCID length + DCID, SCID length + SCID, Length (quinn always
    writes the two-byte form), packet number, payload, AEAD tag (RFC 9000 §17.2.3) -/
def zeroRttPacketLen (dcid scid pn payload tag : Nat) : Nat := 1 + 4 + (1 + dcid) + (1 + scid) + 2 + pn + payload + tag

/-- the packet that carries application data with the keys at hand (`scid = some l`: only 0-RTT keys) -/
def dataPacketLen (dcid : Nat) (scid : Option Nat) (pn payload tag : Nat) : Nat :=
  match scid with
  | none => shortPacketLen dcid pn payload tag
  | some l => zeroRttPacketLen dcid l pn payload tag

/-- a datagram within `max_size()` fits, as one whole frame, a packet of at most `current_mtu` bytes with the
    header really in use — short with the current remote CID, or the 0-RTT long header — and any packet-number
    length -/
theorem fits_real_packet (mtu dcid : Nat) (scid : Option Nat) (peer : Option Nat) (m : Nat)
    (h : maxSize mtu (overhead dcid scid) peer = some (some m)) (hmtu : mtu < 2^62) (d : Bytes) (hd : d.length ≤ m)
    (pn : Nat) (hpn : pn ≤ 4) :
    ∃ fs, frameSize d = some fs ∧ dataPacketLen dcid scid pn fs Gen.dgTagLenGuess ≤ mtu := by
  have hs := (maxSize_some mtu (overhead dcid scid) peer _ h).2 m rfl
  have hlt : d.length < 2^62 := by omega
  obtain ⟨fs, fr, hfs, _, _, hbound, _⟩ := frame_ok d hlt
  refine ⟨fs, hfs, ?_⟩
  cases scid with
  | none =>
    simp only [dataPacketLen, shortPacketLen, overhead, Gen.dgOverhead, Gen.dgPnLenBound, Gen.dgTagLenGuess,
      Gen.dgSizeBound] at *
    omega
  | some l =>
    simp only [dataPacketLen, zeroRttPacketLen, overhead, Gen.dgOverhead, Gen.dgPnLenBound, Gen.dgTagLenGuess,
      Gen.dgSizeBound, Gen.dgLongHeaderExtra] at *
    omega

/-- a datagram within `max_size()` fits the frame budget of an otherwise empty 1-RTT packet -/
theorem fits_packet (mtu oh : Nat) (peer : Option Nat) (m : Nat) (h : maxSize mtu oh peer = some (some m))
    (hmtu : mtu < 2^62) (d : Bytes) (hd : d.length ≤ m) :
    ∃ fs, frameSize d = some fs ∧ fs ≤ mtu - oh := by
  have hs := (maxSize_some mtu oh peer _ h).2 m rfl
  have hlt : d.length < 2^62 := by omega
  obtain ⟨fs, fr, hfs, _, _, hbound, _⟩ := frame_ok d hlt
  exact ⟨fs, hfs, by omega⟩

end QM.Datagrams
