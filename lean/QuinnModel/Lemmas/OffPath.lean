import QuinnModel.Conn.Amplification
import QuinnModel.Endpoint.FirstPacket
namespace QM.Amp.OffPath

theorem respSize_le (u p d : Nat) (hp : p ≤ d) (hu : u ≤ 3 * d) : respSize u p ≤ 3 * d := by
  unfold respSize
  have hf : Gen.offPathPadFactor = 3 := rfl
  have hm : Gen.libMinInitialSize = 1200 := rfl
  rw [if_neg (by rw [hf]; decide), hf, hm]
  omega

theorem step_inv (l : L) (e : Ev) (hw : e.wf) (h : l.sent ≤ 3 * l.recvd) : (step l e).sent ≤ 3 * (step l e).recvd := by
  have := respSize_le e.unpadded e.pkt e.dgram hw.1 hw.2
  simp only [step]
  omega

theorem run_inv (evs : List Ev) : ∀ (l : L), (∀ e ∈ evs, e.wf) → l.sent ≤ 3 * l.recvd →
    (run l evs).sent ≤ 3 * (run l evs).recvd := by
  induction evs with
  | nil => intro l _ h; simpa [run] using h
  | cons e es ih =>
    intro l hw h
    simp only [run, List.foldl_cons]
    exact ih (step l e) (fun x hx => hw x (by simp [hx])) (step_inv l e (hw e (by simp)) h)

end QM.Amp.OffPath

namespace QM.FirstPacket

theorem short_initial_nothing (e : Ep) (d : Dg) (k : Checks) (hs : e.server = true) (hi : d.decode = .initial)
    (hr : d.route = .nowhere) (hl : d.len < Gen.libMinInitialSize) : handle e d k = (e, .nothing) := by
  unfold handle
  simp only [hi, hr]
  unfold firstPacket
  simp [hs, Gen.firstPacketSizeCheckFirst, hl]

theorem vn_le_3x (e e' : Ep) (d : Dg) (k : Checks) (n : Nat) (h : handle e d k = (e', .versionNegotiation n)) :
    n ≤ 3 * d.len ∧ e' = e := by
  unfold handle at h
  cases hd : d.decode with
  | malformed => simp [hd] at h
  | unsupportedVersion m =>
    simp only [hd] at h
    by_cases hs : e.server = true
    · simp only [hs, Bool.not_true, Bool.false_eq_true, if_false, Gen.vnReplyBounded, Bool.true_and, decide_eq_true_eq] at h
      by_cases hm : m > 3 * d.len
      · simp [hm] at h
      · simp only [hm, if_false, Prod.mk.injEq, Out.versionNegotiation.injEq] at h
        exact ⟨by omega, h.1.symm⟩
    · simp [hs] at h
  | initial =>
    simp only [hd] at h
    cases hr : d.route with
    | nowhere =>
      simp only [hr] at h
      unfold firstPacket at h
      repeat (split at h <;> try simp at h)
    | incoming room => simp only [hr] at h; split at h <;> simp at h
    | connection => simp [hr] at h
  | otherLong =>
    simp only [hd] at h
    cases hr : d.route with
    | nowhere => simp [hr] at h
    | incoming room => simp only [hr] at h; split at h <;> simp at h
    | connection => simp [hr] at h
  | short a b =>
    simp only [hd] at h
    cases hr : d.route with
    | nowhere => simp only [hr] at h; split at h <;> (try split at h) <;> simp at h
    | incoming room => simp only [hr] at h; split at h <;> simp at h
    | connection => simp [hr] at h

end QM.FirstPacket
